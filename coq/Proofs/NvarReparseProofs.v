(* Proofs/NvarReparseProofs.v — the compacted store re-parses to the same live
   variables; compaction is idempotent (property C10). *)
From Fiano Require Import Base.Bytes Base.BytesLemmas Gen.Consts Model.Nvar Proofs.NvarProofs
     Proofs.NvarCompactProofs.
From Coq Require Import ZifyBool ZifyNat Sorting.Sorted.
Open Scope Z_scope.

Lemma gpos_bound g store i : gpos g store = Some i -> 0 <= i < zlen store /\ nth (Z.to_nat i) store zero_guid = g.
Proof.
  revert i; induction store as [|x r IH]; intros i; cbn [gpos]; [discriminate|].
  destruct (bytes_eqb g x) eqn:E.
  - intros [= <-]. apply bytes_eqb_eq in E. subst x. rewrite zlen_cons.
    pose proof (zlen_nonneg r). split; [lia|reflexivity].
  - destruct (gpos g r) as [j|]; [|discriminate]. intros [= <-].
    destruct (IH j eq_refl) as [B N]. rewrite zlen_cons. split; [lia|].
    replace (Z.to_nat (j + 1)) with (S (Z.to_nat j)) by lia. exact N.
Qed.

Lemma assign_gidx_prefix hts : forall gstore, exists ext, snd (assign_gidx hts gstore) = gstore ++ ext.
Proof.
  induction hts as [|[h k] r IH]; intros gstore; [exists []; cbn; rewrite app_nil_r; reflexivity|].
  cbn [assign_gidx]. destruct (ATTR (v_attrs h) nvar_attr_guid).
  - destruct (IH gstore) as [ext E]. destruct (assign_gidx r gstore). exists ext. exact E.
  - destruct (gpos (v_guid h) gstore).
    + destruct (IH gstore) as [ext E]. destruct (assign_gidx r gstore). exists ext. exact E.
    + destruct (IH (gstore ++ [v_guid h])) as [ext E]. destruct (assign_gidx r (gstore ++ [v_guid h])).
      exists ([v_guid h] ++ ext). cbn [snd] in *. rewrite E, <- app_assoc. reflexivity.
Qed.

(* every index handed out resolves, in the final table, to the head's GUID *)
Lemma assign_gidx_resolves hts : forall gstore,
  Forall2 (fun (ht : nvar * nvar) gi =>
             match gi with
             | Some i => ATTR (v_attrs (fst ht)) nvar_attr_guid = false /\
                         0 <= i < zlen (snd (assign_gidx hts gstore)) /\
                         nth (Z.to_nat i) (snd (assign_gidx hts gstore)) zero_guid = v_guid (fst ht)
             | None => ATTR (v_attrs (fst ht)) nvar_attr_guid = true
             end) hts (fst (assign_gidx hts gstore)).
Proof.
  induction hts as [|[h k] r IH]; intros gstore; [constructor|].
  cbn [assign_gidx]. destruct (ATTR (v_attrs h) nvar_attr_guid) eqn:AG.
  - specialize (IH gstore). destruct (assign_gidx r gstore) as [l g']. cbn [fst snd] in *.
    constructor; [exact AG|exact IH].
  - destruct (gpos (v_guid h) gstore) as [i|] eqn:GP.
    + specialize (IH gstore). destruct (assign_gidx_prefix r gstore) as [ext E].
      destruct (assign_gidx r gstore) as [l g']. cbn [fst snd] in *. subst g'.
      destruct (gpos_bound _ _ _ GP) as [B N].
      constructor; [|exact IH]. cbn [fst]. split; [exact AG|]. rewrite zlen_app. pose proof (zlen_nonneg ext).
      split; [lia|]. rewrite app_nth1 by (unfold zlen in *; lia). exact N.
    + specialize (IH (gstore ++ [v_guid h])). destruct (assign_gidx_prefix r (gstore ++ [v_guid h])) as [ext E].
      destruct (assign_gidx r (gstore ++ [v_guid h])) as [l g']. cbn [fst snd] in *. subst g'.
      constructor; [|exact IH]. cbn [fst]. split; [exact AG|].
      pose proof (zlen_nonneg gstore). pose proof (zlen_nonneg ext).
      rewrite !zlen_app. change (zlen [v_guid h]) with 1. split; [lia|].
      rewrite <- app_assoc. rewrite app_nth2 by (unfold zlen in *; lia).
      replace (Z.to_nat (zlen gstore) - length gstore)%nat with 0%nat by (unfold zlen; lia). reflexivity.
Qed.

Section Reparse.
Variables dec16 enc16 : bytes -> bytes.
Hypothesis codec_rt : forall u, bmp_ok u = true -> enc16 (dec16 u ++ [0]) = u ++ [0; 0].
Hypothesis codec_nz : forall u, bmp_ok u = true ->
  match last_byte (dec16 u) with Some l => l <> 0 | None => True end.

Lemma aname_of_spec h : name_ok dec16 h ->
  name_bytes (aname_of enc16 h) =
    (if ATTR (v_attrs h) nvar_attr_ascii then v_name h ++ [0] else utf8_to_ucs2 enc16 (v_name h)) /\
  wf_name (aname_of enc16 h) = true /\ name_utf8 dec16 (aname_of enc16 h) = v_name h /\
  is_ascii (aname_of enc16 h) = ATTR (v_attrs h) nvar_attr_ascii.
Proof.
  unfold name_ok, aname_of. destruct (ATTR (v_attrs h) nvar_attr_ascii).
  - intros N. cbn [name_bytes wf_name name_utf8 is_ascii]. auto.
  - intros (u & B & E). cbn [name_bytes wf_name name_utf8 is_ascii].
    assert (U : ucs2_of_name enc16 (v_name h) = u).
    { unfold ucs2_of_name. rewrite E, codec_rt by exact B.
      change (u ++ [0; 0]) with (u ++ [0] ++ [0]). rewrite app_assoc, !removelast_last. reflexivity. }
    rewrite U. unfold utf8_to_ucs2. rewrite E, codec_rt by exact B. auto.
Qed.

Lemma gpart_aentry h gi : name_ok dec16 h ->
  (ATTR (v_attrs h) nvar_attr_guid = false -> gi <> None) ->
  gpart_bytes enc16 h gi = gref_bytes (gref_of h gi) ++ name_bytes (aname_of enc16 h).
Proof.
  intros N G. destruct (aname_of_spec h N) as (-> & _). unfold gpart_bytes, gref_of.
  destruct (ATTR (v_attrs h) nvar_attr_guid); [reflexivity|].
  destruct gi as [i|]; [reflexivity|]. exfalso. apply (G eq_refl eq_refl).
Qed.

Lemma emit_aentry pol h k gi offset : name_ok dec16 h ->
  (ATTR (v_attrs h) nvar_attr_guid = false -> gi <> None) ->
  emit_entry (aentry_of enc16 pol h k gi) = v_buf (final_entry enc16 pol h k gi offset) /\
  ae_size (aentry_of enc16 pol h k gi) = rebuilt_size enc16 h k gi.
Proof.
  intros N G. pose proof (gpart_aentry h gi N G) as GP.
  assert (Sz : ae_size (aentry_of enc16 pol h k gi) = rebuilt_size enc16 h k gi).
  { unfold ae_size, rebuilt_size, aentry_of. cbn [ae_body]. rewrite GP, !zlen_app. lia. }
  split; [|exact Sz].
  unfold emit_entry. rewrite Sz. unfold final_entry. cbn [v_buf ae_next ae_attrs ae_body aentry_of].
  rewrite GP, <- app_assoc. reflexivity.
Qed.


(* everything known about one (head, tail, index) of a compactable store *)
Definition good (pol : Z) (table : list bytes) (ht : nvar * nvar) (gi : option Z) : Prop :=
  let h := fst ht in let k := snd ht in
  head_like h k /\ zlen (v_guid h) = 16 /\
  rebuilt_size enc16 h k gi < 2 ^ 16 /\
  match gi with
  | Some i => ATTR (v_attrs h) nvar_attr_guid = false /\ 0 <= i < zlen table /\
              nth (Z.to_nat i) table zero_guid = v_guid h
  | None => ATTR (v_attrs h) nvar_attr_guid = true
  end /\
  0 <= v_attrs h < 256 /\ ATTR (v_attrs h) nvar_attr_valid = true /\ name_ok dec16 h /\
  bytes_ok (content k) = true /\ no_nested (content k) = true /\
  bytes_ok (v_guid h) = true /\ ext_ok (aentry_of enc16 pol h k gi) = true.

Lemma good_gi pol table ht gi : good pol table ht gi ->
  ATTR (v_attrs (fst ht)) nvar_attr_guid = false -> gi <> None.
Proof.
  intros (_ & _ & _ & G & _) A. destruct gi; [discriminate|]. congruence.
Qed.

Lemma erased_next_range pol : pol = 0 \/ pol = 255 -> 0 <= erased_next pol < 2 ^ 24.
Proof. intros [-> | ->]; vm_compute; split; congruence. Qed.

Lemma wf_aentry pol table h k gi : pol = 0 \/ pol = 255 -> zlen table <= 255 ->
  good pol table (h, k) gi -> wf_entry (zlen table) (aentry_of enc16 pol h k gi) = true.
Proof.
  intros Hpol Ht G. pose proof (good_gi _ _ _ _ G) as Hgi.
  destruct G as ((_ & _ & ND & _) & Lg & Sz & Gi & Ha & Av & Nok & Bc & Nn & Bg & Xo). cbn [fst snd] in *.
  destruct (aname_of_spec h Nok) as (_ & Wn & _ & Ia).
  destruct (emit_aentry pol h k gi 0 Nok Hgi) as [_ Es].
  pose proof (erased_next_range pol Hpol) as Hn.
  unfold wf_entry. rewrite Es. cbn [ae_attrs ae_next aentry_of].
  replace (0 <=? v_attrs h) with true by (clear - Ha; lia).
  replace (v_attrs h <? 256) with true by (clear - Ha; lia).
  replace (0 <=? erased_next pol) with true by (clear - Hn; lia).
  replace (erased_next pol <? 2 ^ 24) with true by (clear - Hn; lia).
  replace (rebuilt_size enc16 h k gi <? 2 ^ 16) with true by (clear - Sz; lia).
  rewrite Av, ND, Ia, eqb_reflx, Wn, Bc, Nn. cbn [negb andb].
  fold (aentry_of enc16 pol h k gi). rewrite Xo. cbn [negb orb].
  unfold gref_of. destruct (ATTR (v_attrs h) nvar_attr_guid) eqn:AG; cbn [is_inline wf_gref eqb andb].
  - rewrite Bg. unfold nvar_guid_size. replace (zlen (v_guid h) =? 16) with true by (clear - Lg; lia). reflexivity.
  - destruct gi as [i|]; [|exfalso; apply (Hgi eq_refl eq_refl)].
    destruct Gi as (_ & Bi & _). unfold byte_ok.
    replace (0 <=? i) with true by (clear - Bi; lia). replace (i <? zlen table) with true by (clear - Bi; lia).
    replace (i <? 256) with true by (clear - Bi Ht; lia). reflexivity.
Qed.

Lemma wf_aentries pol table hts gis : pol = 0 \/ pol = 255 -> zlen table <= 255 ->
  Forall2 (good pol table) hts gis ->
  forallb (wf_entry (zlen table)) (aentries_of enc16 pol hts gis) = true.
Proof.
  intros Hpol Ht F. induction F as [|[h k] gi r gr G _ IH]; [reflexivity|].
  cbn [aentries_of forallb]. rewrite wf_aentry by auto. exact IH.
Qed.

Lemma emit_aentries pol table hts gis : Forall2 (good pol table) hts gis -> forall offset,
  emit_entries (aentries_of enc16 pol hts gis) = concat (map v_buf (final_entries enc16 pol hts gis offset)).
Proof.
  intros F. induction F as [|[h k] gi r gr G _ IH]; intros offset; [reflexivity|].
  pose proof (good_gi _ _ _ _ G) as Hgi. destruct G as (_ & _ & _ & _ & _ & _ & Nok & _). cbn [fst snd] in *.
  unfold emit_entries in *. cbn [aentries_of final_entries map concat].
  destruct (emit_aentry pol h k gi offset Nok Hgi) as [-> _]. f_equal. apply IH.
Qed.

(* all table GUIDs are discovered by the re-parse *)
Lemma discovered_aentries pol table0 hts : forall gstore,
  Forall2 (good pol table0) hts (fst (assign_gidx hts gstore)) ->
  discovered (zlen gstore) (aentries_of enc16 pol hts (fst (assign_gidx hts gstore))) =
  zlen (snd (assign_gidx hts gstore)).
Proof.
  induction hts as [|[h k] r IH]; intros gstore F; [reflexivity|].
  cbn [assign_gidx] in *. destruct (ATTR (v_attrs h) nvar_attr_guid) eqn:AG.
  - specialize (IH gstore). destruct (assign_gidx r gstore) as [l g']. cbn [fst snd] in *.
    inversion F as [|? ? ? ? G Fr]; subst. cbn [aentries_of]. rewrite discovered_cons.
    unfold disc_step, aentry_of, gref_of. rewrite AG. apply IH. exact Fr.
  - destruct (gpos (v_guid h) gstore) as [i|] eqn:GP.
    + specialize (IH gstore). destruct (assign_gidx r gstore) as [l g']. cbn [fst snd] in *.
      inversion F as [|? ? ? ? G Fr]; subst. cbn [aentries_of]. rewrite discovered_cons.
      destruct G as (_ & _ & _ & _ & _ & _ & _ & _ & _ & _ & Xo). cbn [fst snd] in Xo.
      unfold disc_step. unfold aentry_of at 1. unfold gref_of at 1. rewrite AG.
      destruct (gpos_bound _ _ _ GP) as [B _].
      replace (Z.max (zlen gstore) (i + 1)) with (zlen gstore) by lia.
      destruct (ext_ok _); apply IH; exact Fr.
    + specialize (IH (gstore ++ [v_guid h])). destruct (assign_gidx r (gstore ++ [v_guid h])) as [l g'].
      cbn [fst snd] in *.
      inversion F as [|? ? ? ? G Fr]; subst. cbn [aentries_of]. rewrite discovered_cons.
      destruct G as (_ & _ & _ & _ & _ & _ & _ & _ & _ & _ & Xo). cbn [fst snd] in Xo.
      unfold disc_step. unfold aentry_of at 1. unfold gref_of at 1. rewrite AG.
      rewrite Xo.
      pose proof (zlen_nonneg gstore).
      replace (Z.max (zlen gstore) (zlen gstore + 1)) with (zlen (gstore ++ [v_guid h]))
        by (rewrite zlen_app; change (zlen [v_guid h]) with 1; lia).
      apply IH. exact Fr.
Qed.


Lemma Forall2_and {A B} (P Q : A -> B -> Prop) l l' :
  Forall2 P l l' -> Forall2 Q l l' -> Forall2 (fun a b => P a b /\ Q a b) l l'.
Proof.
  intros F. induction F as [|a b l l' Pa _ IH]; intros G; [constructor|].
  inversion G; subst. constructor; auto.
Qed.

Lemma Forall2_left {A B} (P : A -> Prop) (l : list A) (l' : list B) :
  Forall P l -> length l = length l' -> Forall2 (fun a _ => P a) l l'.
Proof.
  intros F. revert l'. induction F as [|a l Pa _ IH]; intros [|b l'] L; try discriminate; constructor; auto.
Qed.

Lemma Forall2_impl {A B} (P Q : A -> B -> Prop) l l' :
  (forall a b, P a b -> Q a b) -> Forall2 P l l' -> Forall2 Q l l'.
Proof. intros H F. induction F; constructor; auto. Qed.

(* the side conditions give [good] for every chain of the store *)
Lemma good_all pol s :
  chains_ok (s_entries s) -> compact_fits enc16 pol s -> reparse_ok dec16 enc16 pol s ->
  Forall2 (good pol (snd (assign_gidx (heads_tails (s_entries s)) [])))
          (heads_tails (s_entries s)) (fst (assign_gidx (heads_tails (s_entries s)) [])).
Proof.
  intros CO FIT RP.
  pose proof (heads_tails_spec (s_entries s) CO) as (_ & Khl & Kin).
  pose proof (assign_gidx_resolves (heads_tails (s_entries s)) []) as RS.
  pose proof (assign_gidx_length (heads_tails (s_entries s)) []) as GL.
  unfold compact_fits in FIT. unfold reparse_ok in RP.
  destruct (assign_gidx (heads_tails (s_entries s)) []) as [gis table]. cbn [fst snd] in *.
  destruct FIT as (_ & Sz & _).
  assert (K2 : Forall2 (fun (ht : nvar * nvar) (_ : option Z) =>
                          head_like (fst ht) (snd ht) /\ zlen (v_guid (fst ht)) = 16)
                       (heads_tails (s_entries s)) gis).
  { apply Forall2_left; [|symmetry; exact GL]. apply Forall_forall. intros ht Hht.
    rewrite Forall_forall in Khl, Kin. split; [apply Khl; exact Hht|].
    destruct (Kin ht Hht) as [Hh _]. destruct CO as [_ _ _ _ Hplain]. apply (Hplain _ Hh). }
  pose proof (Forall2_and _ _ _ _ K2 (Forall2_and _ _ _ _ Sz (Forall2_and _ _ _ _ RS RP))) as ALL.
  eapply Forall2_impl; [|exact ALL].
  intros [h k] gi ((HL & Lg) & S1 & R1 & R2). cbv zeta in R2. cbn [fst snd] in *.
  destruct R2 as (A1 & A2 & A3 & A4 & A5 & A6 & A7).
  destruct HL as (H1 & H2 & H3 & H4).
  unfold good, head_like. cbn [fst snd].
  assert (GI : match gi with
               | Some i => ATTR (v_attrs h) nvar_attr_guid = false /\ 0 <= i < zlen table /\
                           nth (Z.to_nat i) table zero_guid = v_guid h
               | None => ATTR (v_attrs h) nvar_attr_guid = true
               end) by exact R1.
  tauto.
Qed.

Lemma assign_gidx_forall (P : bytes -> Prop) hts : forall gstore,
  Forall P gstore -> Forall (fun ht : nvar * nvar => P (v_guid (fst ht))) hts ->
  Forall P (snd (assign_gidx hts gstore)).
Proof.
  induction hts as [|[h k] r IH]; intros gstore T F; [exact T|].
  apply Forall_cons_iff in F as [Fh Fr]. cbn [fst] in Fh.
  cbn [assign_gidx]. destruct (ATTR (v_attrs h) nvar_attr_guid).
  - specialize (IH gstore T Fr). destruct (assign_gidx r gstore). exact IH.
  - destruct (gpos (v_guid h) gstore).
    + specialize (IH gstore T Fr). destruct (assign_gidx r gstore). exact IH.
    + assert (T' : Forall P (gstore ++ [v_guid h])) by (apply Forall_app; split; auto).
      specialize (IH _ T' Fr). destruct (assign_gidx r (gstore ++ [v_guid h])). exact IH.
Qed.

Lemma Forall2_forall_l {A B} (P : A -> Prop) (Q : A -> B -> Prop) l l' :
  (forall a b, Q a b -> P a) -> Forall2 Q l l' -> Forall P l.
Proof. intros H F. induction F; constructor; eauto. Qed.

Lemma emit_acompacted pol s :
  chains_ok (s_entries s) -> compact_fits enc16 pol s -> reparse_ok dec16 enc16 pol s ->
  emit pol (acompacted enc16 pol s) = s_buf (compacted enc16 pol s).
Proof.
  intros CO FIT RP. pose proof (good_all pol s CO FIT RP) as G.
  unfold acompacted, compacted.
  destruct (assign_gidx (heads_tails (s_entries s)) []) as [gis table]. cbn [fst snd] in G.
  unfold emit. cbn [a_entries a_free a_table s_buf].
  rewrite (emit_aentries pol table _ _ G 0). do 3 f_equal. ring.
Qed.

Lemma wf_acompacted pol s :
  chains_ok (s_entries s) -> compact_fits enc16 pol s -> reparse_ok dec16 enc16 pol s ->
  wf_store pol (acompacted enc16 pol s) = true.
Proof.
  intros CO FIT RP. pose proof (good_all pol s CO FIT RP) as G.
  pose proof (discovered_aentries pol (snd (assign_gidx (heads_tails (s_entries s)) []))
                (heads_tails (s_entries s)) [] G) as D.
  assert (TO : table_ok (snd (assign_gidx (heads_tails (s_entries s)) []))).
  { pose proof (heads_tails_spec (s_entries s) CO) as (_ & _ & Kin).
    apply assign_gidx_table; [intros g []|].
    apply Forall_forall. intros ht Hht. rewrite Forall_forall in Kin. destruct (Kin ht Hht) as [Hh _].
    destruct CO as [_ _ _ _ Hplain]. apply (Hplain _ Hh). }
  assert (TB : Forall (fun g => bytes_ok g = true) (snd (assign_gidx (heads_tails (s_entries s)) []))).
  { apply assign_gidx_forall; [constructor|].
    eapply Forall2_forall_l; [|exact G]. intros ht gi Gd. apply Gd. }
  unfold compact_fits in FIT. unfold acompacted.
  destruct (assign_gidx (heads_tails (s_entries s)) []) as [gis table]. cbn [fst snd] in *.
  destruct FIT as (Hpol & Sz & Tl & Fit & Len).
  pose proof (emit_aentries pol table _ _ G 0) as EE.
  pose proof (final_entries_bufs enc16 pol (heads_tails (s_entries s)) gis 0) as Lb.
  pose proof (sum_sizes_nonneg enc16 pol (heads_tails (s_entries s)) gis 0) as Ls.
  pose proof (zlen_nonneg table) as Ht0.
  unfold wf_store, store_len. cbn [a_entries a_free a_table].
  rewrite (wf_aentries pol table _ _ Hpol Tl G).
  rewrite <- zlen_emit_entries, EE, Lb. unfold nvar_guid_size in *.
  change (zlen (@nil bytes)) with 0 in D. rewrite D, Z.eqb_refl.
  replace ((pol =? 0) || (pol =? 255)) with true by (clear - Hpol; lia).
  match goal with |- context [?a <? 2 ^ 47] => replace (a <? 2 ^ 47) with true by (clear - Len Fit Ls Ht0; lia) end.
  replace (zlen table <=? 255) with true by (clear - Tl; lia).
  match goal with |- context [0 <=? ?a] => replace (0 <=? a) with true by (clear - Len Fit Ls Ht0; lia) end.
  cbn [andb].
  assert (FN : first_next_ok pol (aentries_of enc16 pol (heads_tails (s_entries s)) gis) = true).
  { destruct (heads_tails (s_entries s)) as [|[h k] r]; [reflexivity|]. destruct gis as [|gi gr]; [reflexivity|].
    cbn [aentries_of first_next_ok aentry_of ae_next ae_attrs].
    destruct Hpol as [-> | ->]; cbn; apply orb_true_r. }
  rewrite FN, !andb_true_r.
  apply forallb_forall. intros g Hg. rewrite Forall_forall in TB. rewrite (TB g Hg).
  rewrite (TO g Hg). reflexivity.
Qed.


Definition same_var (v h k : nvar) (off : Z) : Prop :=
  v_guid v = v_guid h /\ v_name v = v_name h /\ content v = content k /\ v_attrs v = v_attrs h /\
  v_type v = nvar_type_full /\ v_nextoff v = 0 /\ v_sub v = None /\ v_off v = off /\
  0 <= v_dataoff v <= zlen (v_buf v) /\ v_size v = rebuilt_size enc16 h k (v_gidx v) /\
  (ATTR (v_attrs h) nvar_attr_guid = true -> v_gidx v = None).

Lemma next_of_erased pol off : pol = 0 \/ pol = 255 -> next_of pol off (erased_next pol) = (nvar_type_full, 0).
Proof. intros [-> | ->]; reflexivity. Qed.

Lemma content_full a n g nm d :
  zskipn (nvar_header_size + zlen (gref_bytes g) + zlen (name_bytes nm)) (emit_entry (AFull a n g nm d)) = d.
Proof.
  unfold emit_entry. cbn [ae_body ae_next ae_attrs]. rewrite !app_assoc.
  replace (nvar_header_size + zlen (gref_bytes g) + zlen (name_bytes nm))
    with (zlen ((emit_header (ae_size (AFull a n g nm d)) n a ++ gref_bytes g) ++ name_bytes nm))
    by (rewrite !zlen_app, zlen_emit_header; reflexivity).
  apply zskipn_app_exact.
Qed.

Lemma interp_aentry pol table h k gi off prev k0 :
  pol = 0 \/ pol = 255 -> good pol table (h, k) gi ->
  same_var (fst (interp_entry dec16 pol table (aentry_of enc16 pol h k gi) off prev k0)) h k off /\
  v_gidx (fst (interp_entry dec16 pol table (aentry_of enc16 pol h k gi) off prev k0)) =
    (if ATTR (v_attrs h) nvar_attr_guid then None else gi).
Proof.
  intros Hpol G. pose proof (good_gi _ _ _ _ G) as Hgi.
  destruct G as ((_ & _ & ND & _) & Lg & Sz & Gi & Ha & Av & Nok & Bc & Nn & Bg & Xo). cbn [fst snd] in *.
  destruct (aname_of_spec h Nok) as (_ & _ & Nu & _).
  destruct (emit_aentry pol h k gi 0 Nok Hgi) as [_ Es].
  unfold ext_ok in Xo. unfold interp_entry. unfold aentry_of in *. cbn [ae_attrs ae_next] in *.
  rewrite next_of_erased by auto.
  destruct (parse_ext (v_attrs h) _ _ nvar_header_size) as [ext|x|x|]; try discriminate.
  set (e := AFull (v_attrs h) (erased_next pol) (gref_of h gi) (aname_of enc16 h) (content k)) in *.
  assert (Ldo : 0 <= nvar_header_size + zlen (gref_bytes (gref_of h gi)) + zlen (name_bytes (aname_of enc16 h))
                <= zlen (emit_entry e)).
  { rewrite zlen_emit_entry. unfold ae_size, e. cbn [ae_body]. rewrite !zlen_app. unfold nvar_header_size.
    pose proof (zlen_nonneg (gref_bytes (gref_of h gi))). pose proof (zlen_nonneg (name_bytes (aname_of enc16 h))).
    pose proof (zlen_nonneg (content k)). lia. }
  unfold gref_of in *. destruct (ATTR (v_attrs h) nvar_attr_guid) eqn:AG.
  - cbn [fst]. unfold same_var, content at 1.
    cbn [v_guid v_name v_attrs v_type v_nextoff v_sub v_off v_dataoff v_buf v_size v_gidx].
    split; [|reflexivity]. repeat split; auto; try apply Ldo.
    + unfold e. apply content_full.
    + rewrite Es. unfold rebuilt_size, gpart_bytes. rewrite AG. reflexivity.
  - destruct gi as [i|]; [|exfalso; apply (Hgi eq_refl eq_refl)].
    destruct Gi as (_ & Bi & Ni).
    cbn [fst]. unfold same_var, content at 1.
    cbn [v_guid v_name v_attrs v_type v_nextoff v_sub v_off v_dataoff v_buf v_size v_gidx].
    split; [|reflexivity]. repeat split; auto; try apply Ldo; try discriminate.
    + unfold e. apply content_full.
    + intros X. rewrite AG in X. discriminate.
Qed.


Fixpoint vars_rel (off : Z) (hts : list (nvar * nvar)) (gis : list (option Z)) (vs : list nvar) : Prop :=
  match hts, gis, vs with
  | [], [], [] => True
  | (h, k) :: r, gi :: gr, v :: vr =>
    same_var v h k off /\ v_gidx v = (if ATTR (v_attrs h) nvar_attr_guid then None else gi) /\
    vars_rel (off + rebuilt_size enc16 h k gi) r gr vr
  | _, _, _ => False
  end.

Lemma interp_aentries pol table hts gis : pol = 0 \/ pol = 255 ->
  Forall2 (good pol table) hts gis -> forall off prev k0,
  exists vs, fst (interp_entries dec16 pol table (aentries_of enc16 pol hts gis) off prev k0) = prev ++ vs /\
             vars_rel off hts gis vs.
Proof.
  intros Hpol F. induction F as [|[h k] gi r gr G _ IH]; intros off prev k0.
  - exists []. cbn. rewrite app_nil_r. auto.
  - cbn [aentries_of interp_entries].
    destruct (interp_aentry pol table h k gi off prev k0 Hpol G) as [SV GI].
    pose proof (good_gi _ _ _ _ G) as Hgi.
    destruct G as (_ & _ & _ & _ & _ & _ & Nok & _). cbn [fst snd] in *.
    destruct (emit_aentry pol h k gi 0 Nok Hgi) as [_ Es].
    destruct (interp_entry dec16 pol table (aentry_of enc16 pol h k gi) off prev k0) as [v k1]. cbn [fst] in *.
    destruct (IH (off + ae_size (aentry_of enc16 pol h k gi)) (prev ++ [v]) k1) as (vs & E & R).
    exists (v :: vs). rewrite E, <- app_assoc. split; [reflexivity|].
    cbn [vars_rel]. rewrite <- Es. auto.
Qed.

Lemma vars_rel_props off hts gis vs : vars_rel off hts gis vs ->
  Forall (fun ht => head_like (fst ht) (snd ht)) hts ->
  map triple vs = map (fun ht => triple (snd ht)) hts /\ Forall full_tail vs.
Proof.
  revert off gis vs. induction hts as [|[h k] r IH]; intros off gis vs R F.
  - destruct gis, vs; try contradiction. split; [reflexivity|constructor].
  - destruct gis as [|gi gr]; [contradiction|]. destruct vs as [|v vr]; [contradiction|].
    cbn [vars_rel] in R. destruct R as (SV & _ & R).
    apply Forall_cons_iff in F as [(G & N & ND & _) Fr]. cbn [fst snd] in *.
    destruct (IH _ _ _ R Fr) as [I1 I2].
    destruct SV as (E1 & E2 & E3 & E4 & E5 & E6 & E7 & _).
    split.
    + cbn [map snd]. rewrite I1. f_equal. unfold triple. rewrite E1, E2, E3, G, N. reflexivity.
    + constructor; [|exact I2]. unfold full_tail. rewrite E4. auto.
Qed.

(* the compacted store re-parses: same live variables, only full entries, same table *)
Theorem compact_reparse pol s :
  chains_ok (s_entries s) -> compact_fits enc16 pol s -> reparse_ok dec16 enc16 pol s ->
  exists st2, parse_store dec16 pol (s_buf (compacted enc16 pol s)) = Ok st2 /\
    live st2 = live s /\ Forall full_tail (s_entries st2) /\
    s_len st2 = s_len s /\ s_guids st2 = s_guids (compacted enc16 pol s) /\
    s_buf st2 = s_buf (compacted enc16 pol s).
Proof.
  intros CO FIT RP.
  pose proof (wf_acompacted pol s CO FIT RP) as WF.
  pose proof (emit_acompacted pol s CO FIT RP) as EM.
  pose proof (good_all pol s CO FIT RP) as G.
  pose proof (heads_tails_spec (s_entries s) CO) as (Ksnd & Khl & _).
  exists (interp dec16 pol (acompacted enc16 pol s)).
  split; [rewrite <- EM; apply (parse_emit dec16 enc16 codec_rt codec_nz); exact WF|].
  assert (LenE : zlen (emit pol (acompacted enc16 pol s)) = s_len s).
  { rewrite EM. destruct (compact_spec enc16 pol 0 s CO FIT) as (st' & C & _ & L & _).
    rewrite compact_correct in C by auto. injection C as <-. exact L. }
  pose proof (wf_store_spec _ _ WF) as (Hpol & _ & _ & _ & _ & D & _).
  unfold interp. pose proof (interp_entries_k dec16 pol (a_table (acompacted enc16 pol s))
                               (a_entries (acompacted enc16 pol s)) 0 [] 0) as KK.
  rewrite D in KK.
  unfold compact_fits in FIT.
  revert WF EM LenE D KK. unfold acompacted, compacted.
  destruct (assign_gidx (heads_tails (s_entries s)) []) as [gis table]. cbn [fst snd] in G.
  cbn [a_entries a_table a_free]. intros WF EM LenE D KK.
  destruct (interp_aentries pol table _ _ Hpol G 0 [] 0) as (vs & E & R).
  destruct (interp_entries dec16 pol table (aentries_of enc16 pol (heads_tails (s_entries s)) gis) 0 [] 0)
    as [es kk]. cbn [fst snd app] in *. subst es kk.
  destruct (vars_rel_props _ _ _ _ R Khl) as [Tr Ft].
  cbn [s_entries s_len s_guids s_buf].
  repeat split.
  - unfold live. cbn [s_entries]. rewrite tails_full by exact Ft. fold triple. rewrite Tr.
    rewrite <- Ksnd, map_map. reflexivity.
  - exact Ft.
  - exact LenE.
  - apply zfirstn_all. lia.
  - exact EM.
Qed.


(* ---------- idempotence ---------- *)

(* two chains that rebuild to the same bytes *)
Definition ht_same (a b : nvar * nvar) : Prop :=
  v_attrs (fst a) = v_attrs (fst b) /\ v_guid (fst a) = v_guid (fst b) /\
  v_name (fst a) = v_name (fst b) /\ content (snd a) = content (snd b).

Lemma assign_gidx_same hts hts' : Forall2 ht_same hts hts' -> forall gstore,
  assign_gidx hts gstore = assign_gidx hts' gstore.
Proof.
  intros F. induction F as [|[h k] [h' k'] r r' (A & G & _ & _) _ IH]; intros gstore; [reflexivity|].
  cbn [fst snd] in *. cbn [assign_gidx]. rewrite A, G.
  destruct (ATTR (v_attrs h') nvar_attr_guid); [rewrite IH; reflexivity|].
  destruct (gpos (v_guid h') gstore); rewrite IH; reflexivity.
Qed.

Lemma rebuilt_same a b gi : ht_same a b ->
  gpart_bytes enc16 (fst a) gi = gpart_bytes enc16 (fst b) gi /\
  rebuilt_size enc16 (fst a) (snd a) gi = rebuilt_size enc16 (fst b) (snd b) gi.
Proof.
  intros (A & G & N & C). unfold rebuilt_size, gpart_bytes. rewrite A, G, N, C. auto.
Qed.

Lemma final_entries_same pol hts hts' : Forall2 ht_same hts hts' -> forall gis offset,
  map v_buf (final_entries enc16 pol hts gis offset) = map v_buf (final_entries enc16 pol hts' gis offset) /\
  map v_size (final_entries enc16 pol hts gis offset) = map v_size (final_entries enc16 pol hts' gis offset).
Proof.
  intros F. induction F as [|[h k] [h' k'] r r' S _ IH]; intros gis offset; [split; reflexivity|].
  destruct gis as [|gi gr]; [split; reflexivity|].
  destruct (rebuilt_same _ _ gi S) as [GP RS]. destruct S as (A & G & N & C). cbn [fst snd] in *.
  cbn [final_entries map]. rewrite RS. destruct (IH gr (offset + rebuilt_size enc16 h' k' gi)) as [I1 I2].
  rewrite I1, I2. unfold final_entry. cbn [v_buf v_size]. rewrite RS, GP, A, C. auto.
Qed.

Lemma sizes_same hts hts' : Forall2 ht_same hts hts' -> forall gis,
  Forall2 (fun ht gi => rebuilt_size enc16 (fst ht) (snd ht) gi < 2 ^ 16) hts gis ->
  Forall2 (fun ht gi => rebuilt_size enc16 (fst ht) (snd ht) gi < 2 ^ 16) hts' gis.
Proof.
  intros F. induction F as [|a b r r' S _ IH]; intros gis Sz; inversion Sz; subst; constructor.
  - destruct (rebuilt_same _ _ y S) as [_ <-]. assumption.
  - apply IH. assumption.
Qed.

(* entries that are all complete chain ends are their own heads *)
Lemma pass1_full es : forall m,
  Forall full_tail es -> StronglySorted ltoff es ->
  (forall v, In v es -> lookup (v_off v) m = None) ->
  snd (pass1 es m) = es /\
  (forall v, In v es -> lookup (v_off v) (fst (pass1 es m)) = Some v) /\
  (forall X, (forall v, In v es -> X <> v_off v) -> lookup X (fst (pass1 es m)) = lookup X m).
Proof.
  induction es as [|v r IH]; intros m F S L.
  - cbn [pass1 fst snd]. repeat split; auto. intros v [].
  - apply Forall_cons_iff in F as [(T & N & _) Fr].
    apply StronglySorted_inv in S as [Sr Sv]. rewrite Forall_forall in Sv.
    cbn [pass1]. unfold is_valid. rewrite T.
    replace (is_valid_type nvar_type_full) with true by reflexivity. cbn [negb].
    rewrite (L v (or_introl eq_refl)). rewrite N. cbn [Z.eqb negb].
    assert (L' : forall w, In w r -> lookup (v_off w) ((v_off v, v) :: m) = None).
    { intros w Hw. cbn [lookup]. specialize (Sv w Hw). unfold ltoff in Sv.
      replace (v_off w =? v_off v) with false by lia. apply L. right. exact Hw. }
    destruct (IH ((v_off v, v) :: m) Fr Sr L') as (K & Lk & St).
    destruct (pass1 r ((v_off v, v) :: m)) as [mf keep]. cbn [fst snd] in *.
    split; [rewrite K; reflexivity|]. split.
    + intros w [<-|Hw]; [|apply Lk; exact Hw].
      rewrite St. * cbn [lookup]. rewrite Z.eqb_refl. reflexivity.
      * intros w Hw. specialize (Sv w Hw). unfold ltoff in Sv. lia.
    + intros X HX. rewrite St by (intros w Hw; apply HX; right; exact Hw).
      cbn [lookup]. specialize (HX v (or_introl eq_refl)). replace (X =? v_off v) with false by lia. reflexivity.
Qed.

Lemma heads_tails_full es : Forall full_tail es -> StronglySorted ltoff es ->
  heads_tails es = map (fun v => (v, v)) es.
Proof.
  intros F S. unfold heads_tails.
  destruct (pass1_full es [] F S ltac:(intros; reflexivity)) as (K & Lk & _).
  destruct (pass1 es []) as [m keep]. cbn [fst snd] in *. subst keep.
  apply map_ext_in. intros v Hv. rewrite (Lk v Hv). reflexivity.
Qed.

Lemma vars_rel_sorted off hts gis vs : vars_rel off hts gis vs ->
  Forall2 (fun ht gi => 0 < rebuilt_size enc16 (fst ht) (snd ht) gi) hts gis ->
  StronglySorted ltoff vs /\ Forall (fun v => off <= v_off v) vs.
Proof.
  revert off gis vs. induction hts as [|[h k] r IH]; intros off gis vs R P.
  - destruct gis, vs; try contradiction. split; constructor.
  - destruct gis as [|gi gr]; [contradiction|]. destruct vs as [|v vr]; [contradiction|].
    cbn [vars_rel] in R. destruct R as (SV & _ & R). inversion P as [|? ? ? ? P1 Pr]; subst. cbn [fst snd] in P1.
    destruct (IH _ _ _ R Pr) as [S1 F1].
    destruct SV as (_ & _ & _ & _ & _ & _ & _ & Eo & _).
    split.
    + constructor; [exact S1|]. rewrite Forall_forall in *. intros w Hw. specialize (F1 w Hw). unfold ltoff. lia.
    + constructor; [lia|]. rewrite Forall_forall in *. intros w Hw. specialize (F1 w Hw). lia.
Qed.

Lemma vars_rel_same off hts gis vs : vars_rel off hts gis vs ->
  Forall2 ht_same (map (fun v => (v, v)) vs) hts.
Proof.
  revert off gis vs. induction hts as [|[h k] r IH]; intros off gis vs R.
  - destruct gis, vs; try contradiction. constructor.
  - destruct gis as [|gi gr]; [contradiction|]. destruct vs as [|v vr]; [contradiction|].
    cbn [vars_rel] in R. destruct R as (SV & _ & R). cbn [map]. constructor; [|eapply IH; exact R].
    destruct SV as (E1 & E2 & E3 & E4 & _). unfold ht_same. cbn [fst snd]. auto.
Qed.


Lemma ht_same_sym l l' : Forall2 ht_same l l' -> Forall2 ht_same l' l.
Proof.
  induction 1 as [|a b r r' (A & G & N & C) _ IH]; constructor; auto.
  unfold ht_same. auto.
Qed.

Lemma vars_rel_plain pol table off hts gis vs : vars_rel off hts gis vs ->
  Forall2 (good pol table) hts gis ->
  Forall (fun v => v_sub v = None /\ 0 <= v_dataoff v <= zlen (v_buf v) /\ zlen (v_guid v) = nvar_guid_size) vs.
Proof.
  revert off gis vs. induction hts as [|[h k] r IH]; intros off gis vs R G.
  - destruct gis, vs; try contradiction. constructor.
  - destruct gis as [|gi gr]; [contradiction|]. destruct vs as [|v vr]; [contradiction|].
    cbn [vars_rel] in R. destruct R as (SV & _ & R). inversion G as [|? ? ? ? G1 Gr]; subst.
    constructor; [|eapply IH; eauto].
    destruct SV as (E1 & _ & _ & _ & _ & _ & E7 & _ & E9 & _).
    destruct G1 as (_ & Lg & _). cbn [fst] in Lg. rewrite E1. auto.
Qed.

Lemma rebuilt_size_pos h k gi : 0 < rebuilt_size enc16 h k gi.
Proof.
  unfold rebuilt_size, nvar_header_size.
  pose proof (zlen_nonneg (gpart_bytes enc16 h gi)). pose proof (zlen_nonneg (content k)). lia.
Qed.

(* compacting the re-parsed compacted store changes nothing *)
Theorem compact_idempotent pol d' s :
  chains_ok (s_entries s) -> compact_fits enc16 pol s -> reparse_ok dec16 enc16 pol s ->
  exists st2, parse_store dec16 pol (s_buf (compacted enc16 pol s)) = Ok st2 /\
    compact_store enc16 pol (S d') st2 = Ok (compacted enc16 pol st2) /\
    s_buf (compacted enc16 pol st2) = s_buf (compacted enc16 pol s).
Proof.
  intros CO FIT RP.
  pose proof (wf_acompacted pol s CO FIT RP) as WF.
  pose proof (emit_acompacted pol s CO FIT RP) as EM.
  pose proof (good_all pol s CO FIT RP) as G.
  pose proof (heads_tails_spec (s_entries s) CO) as (Ksnd & Khl & _).
  exists (interp dec16 pol (acompacted enc16 pol s)).
  split; [rewrite <- EM; apply (parse_emit dec16 enc16 codec_rt codec_nz); exact WF|].
  assert (LenE : zlen (emit pol (acompacted enc16 pol s)) = s_len s).
  { rewrite EM. destruct (compact_spec enc16 pol 0 s CO FIT) as (st' & C & _ & L & _).
    rewrite compact_correct in C by auto. injection C as <-. exact L. }
  pose proof (wf_store_spec _ _ WF) as (Hpol & _ & _ & _ & _ & D & _).
  pose proof (interp_entries_k dec16 pol (a_table (acompacted enc16 pol s))
                (a_entries (acompacted enc16 pol s)) 0 [] 0) as KK.
  rewrite D in KK.
  assert (FIT0 := FIT). unfold compact_fits in FIT.
  unfold interp. revert WF EM LenE D KK. unfold acompacted. unfold compacted at 3.
  destruct (assign_gidx (heads_tails (s_entries s)) []) as [gis table] eqn:AS. cbn [fst snd] in G.
  cbn [a_entries a_table a_free]. intros WF EM LenE D KK.
  destruct FIT as (_ & Sz & Tl & Fit & Len).
  destruct (interp_aentries pol table _ _ Hpol G 0 [] 0) as (vs & E & R).
  destruct (interp_entries dec16 pol table (aentries_of enc16 pol (heads_tails (s_entries s)) gis) 0 [] 0)
    as [es kk]. cbn [fst snd app] in *. subst es kk.
  destruct (vars_rel_props _ _ _ _ R Khl) as [_ Ft].
  assert (Pos : Forall2 (fun (ht : nvar * nvar) gi => 0 < rebuilt_size enc16 (fst ht) (snd ht) gi)
                        (heads_tails (s_entries s)) gis).
  { eapply Forall2_impl; [|exact Sz]. intros ht gi _. apply rebuilt_size_pos. }
  destruct (vars_rel_sorted _ _ _ _ R Pos) as [Srt _].
  pose proof (vars_rel_plain pol table _ _ _ _ R G) as Pl.
  pose proof (vars_rel_same _ _ _ _ R) as Same.
  pose proof (heads_tails_full vs Ft Srt) as HT.
  set (st2 := mkStore vs (zfirstn (zlen table) table) (emit pol _) _ _ _).
  assert (CO2 : chains_ok (s_entries st2)).
  { cbn [s_entries st2]. rewrite Forall_forall in Ft, Pl. constructor.
    - exact Srt.
    - intros l Hl _ Nl. destruct (Ft l Hl) as (_ & N0 & _). congruence.
    - intros l v Hl _ _ _ Nl. destruct (Ft l Hl) as (_ & N0 & _). congruence.
    - intros v Hv _ _. destruct (Ft v Hv) as (_ & _ & ND & _). exact ND.
    - intros v Hv. apply Pl. exact Hv. }
  assert (FIT2 : compact_fits enc16 pol st2).
  { unfold compact_fits. cbn [s_entries s_len st2]. rewrite HT.
    rewrite (assign_gidx_same _ _ Same), AS.
    destruct (final_entries_same pol _ _ Same gis 0) as [_ Sv]. rewrite Sv, LenE.
    split; [exact Hpol|]. split; [|auto].
    apply (sizes_same _ _ (ht_same_sym _ _ Same)). exact Sz. }
  split; [apply compact_correct; auto|].
  unfold compacted at 1. cbn [s_entries s_len st2]. rewrite HT.
  rewrite (assign_gidx_same _ _ Same), AS.
  destruct (final_entries_same pol _ _ Same gis 0) as [Sb _]. rewrite Sb, LenE.
  cbn [s_buf]. reflexivity.
Qed.

End Reparse.
