(* Proofs/NvarReparseProofs.v — the compacted store re-parses to the same live
   variables; compaction is idempotent (property C10). *)
From Fiano Require Import Base.Bytes Base.BytesLemmas Gen.Consts Model.Nvar Proofs.NvarProofs
     Proofs.NvarCompactProofs.
From Coq Require Import ZifyBool ZifyNat Sorting.Sorted.
Open Scope Z_scope.

Lemma gpos_bound g store i : gpos g store = Some i -> 0 <= i < zlen store /\ nth (Z.to_nat i) store zero_guid = g.
Proof.
  revert i; induction store as [|x r IH]; intros i; cbn [gpos]; [discriminate|].
  destruct (bytes_eqb g x) eqn:E.
  - intros [= <-]. apply bytes_eqb_eq in E. subst x. rewrite zlen_cons.
    pose proof (zlen_nonneg r). split; [lia|reflexivity].
  - destruct (gpos g r) as [j|]; [|discriminate]. intros [= <-].
    destruct (IH j eq_refl) as [B N]. rewrite zlen_cons. split; [lia|].
    replace (Z.to_nat (j + 1)) with (S (Z.to_nat j)) by lia. exact N.
Qed.

Lemma assign_gidx_prefix hts : forall gstore, exists ext, snd (assign_gidx hts gstore) = gstore ++ ext.
Proof.
  induction hts as [|[h k] r IH]; intros gstore; [exists []; cbn; rewrite app_nil_r; reflexivity|].
  cbn [assign_gidx]. destruct (ATTR (v_attrs h) nvar_attr_guid).
  - destruct (IH gstore) as [ext E]. destruct (assign_gidx r gstore). exists ext. exact E.
  - destruct (gpos (v_guid h) gstore).
    + destruct (IH gstore) as [ext E]. destruct (assign_gidx r gstore). exists ext. exact E.
    + destruct (IH (gstore ++ [v_guid h])) as [ext E]. destruct (assign_gidx r (gstore ++ [v_guid h])).
      exists ([v_guid h] ++ ext). cbn [snd] in *. rewrite E, <- app_assoc. reflexivity.
Qed.

(* every index handed out resolves, in the final table, to the head's GUID *)
Lemma assign_gidx_resolves hts : forall gstore,
  Forall2 (fun (ht : nvar * nvar) gi =>
             match gi with
             | Some i => ATTR (v_attrs (fst ht)) nvar_attr_guid = false /\
                         0 <= i < zlen (snd (assign_gidx hts gstore)) /\
                         nth (Z.to_nat i) (snd (assign_gidx hts gstore)) zero_guid = v_guid (fst ht)
             | None => ATTR (v_attrs (fst ht)) nvar_attr_guid = true
             end) hts (fst (assign_gidx hts gstore)).
Proof.
  induction hts as [|[h k] r IH]; intros gstore; [constructor|].
  cbn [assign_gidx]. destruct (ATTR (v_attrs h) nvar_attr_guid) eqn:AG.
  - specialize (IH gstore). destruct (assign_gidx r gstore) as [l g']. cbn [fst snd] in *.
    constructor; [exact AG|exact IH].
  - destruct (gpos (v_guid h) gstore) as [i|] eqn:GP.
    + specialize (IH gstore). destruct (assign_gidx_prefix r gstore) as [ext E].
      destruct (assign_gidx r gstore) as [l g']. cbn [fst snd] in *. subst g'.
      destruct (gpos_bound _ _ _ GP) as [B N].
      constructor; [|exact IH]. cbn [fst]. split; [exact AG|]. rewrite zlen_app. pose proof (zlen_nonneg ext).
      split; [lia|]. rewrite app_nth1 by (unfold zlen in *; lia). exact N.
    + specialize (IH (gstore ++ [v_guid h])). destruct (assign_gidx_prefix r (gstore ++ [v_guid h])) as [ext E].
      destruct (assign_gidx r (gstore ++ [v_guid h])) as [l g']. cbn [fst snd] in *. subst g'.
      constructor; [|exact IH]. cbn [fst]. split; [exact AG|].
      pose proof (zlen_nonneg gstore). pose proof (zlen_nonneg ext).
      rewrite !zlen_app. change (zlen [v_guid h]) with 1. split; [lia|].
      rewrite <- app_assoc. rewrite app_nth2 by (unfold zlen in *; lia).
      replace (Z.to_nat (zlen gstore) - length gstore)%nat with 0%nat by (unfold zlen; lia). reflexivity.
Qed.

Section Reparse.
Variables dec16 enc16 : bytes -> bytes.
Hypothesis codec_rt : forall u, bmp_ok u = true -> enc16 (dec16 u ++ [0]) = u ++ [0; 0].
Hypothesis codec_nz : forall u, bmp_ok u = true ->
  match last_byte (dec16 u) with Some l => l <> 0 | None => True end.

Lemma aname_of_spec h : name_ok dec16 h ->
  name_bytes (aname_of enc16 h) =
    (if ATTR (v_attrs h) nvar_attr_ascii then v_name h ++ [0] else utf8_to_ucs2 enc16 (v_name h)) /\
  wf_name (aname_of enc16 h) = true /\ name_utf8 dec16 (aname_of enc16 h) = v_name h /\
  is_ascii (aname_of enc16 h) = ATTR (v_attrs h) nvar_attr_ascii.
Proof.
  unfold name_ok, aname_of. destruct (ATTR (v_attrs h) nvar_attr_ascii).
  - intros N. cbn [name_bytes wf_name name_utf8 is_ascii]. auto.
  - intros (u & B & E). cbn [name_bytes wf_name name_utf8 is_ascii].
    assert (U : ucs2_of_name enc16 (v_name h) = u).
    { unfold ucs2_of_name. rewrite E, codec_rt by exact B.
      change (u ++ [0; 0]) with (u ++ [0] ++ [0]). rewrite app_assoc, !removelast_last. reflexivity. }
    rewrite U. unfold utf8_to_ucs2. rewrite E, codec_rt by exact B. auto.
Qed.

Lemma gpart_aentry h gi : name_ok dec16 h ->
  (ATTR (v_attrs h) nvar_attr_guid = false -> gi <> None) ->
  gpart_bytes enc16 h gi = gref_bytes (gref_of h gi) ++ name_bytes (aname_of enc16 h).
Proof.
  intros N G. destruct (aname_of_spec h N) as (-> & _). unfold gpart_bytes, gref_of.
  destruct (ATTR (v_attrs h) nvar_attr_guid); [reflexivity|].
  destruct gi as [i|]; [reflexivity|]. exfalso. apply (G eq_refl eq_refl).
Qed.

Lemma emit_aentry pol h k gi offset : name_ok dec16 h ->
  (ATTR (v_attrs h) nvar_attr_guid = false -> gi <> None) ->
  emit_entry (aentry_of enc16 pol h k gi) = v_buf (final_entry enc16 pol h k gi offset) /\
  ae_size (aentry_of enc16 pol h k gi) = rebuilt_size enc16 h k gi.
Proof.
  intros N G. pose proof (gpart_aentry h gi N G) as GP.
  assert (Sz : ae_size (aentry_of enc16 pol h k gi) = rebuilt_size enc16 h k gi).
  { unfold ae_size, rebuilt_size, aentry_of. cbn [ae_body]. rewrite GP, !zlen_app. lia. }
  split; [|exact Sz].
  unfold emit_entry. rewrite Sz. unfold final_entry. cbn [v_buf ae_next ae_attrs ae_body aentry_of].
  rewrite GP, <- app_assoc. reflexivity.
Qed.


(* everything known about one (head, tail, index) of a compactable store *)
Definition good (pol : Z) (table : list bytes) (ht : nvar * nvar) (gi : option Z) : Prop :=
  let h := fst ht in let k := snd ht in
  head_like h k /\ zlen (v_guid h) = 16 /\
  rebuilt_size enc16 h k gi < 2 ^ 16 /\
  match gi with
  | Some i => ATTR (v_attrs h) nvar_attr_guid = false /\ 0 <= i < zlen table /\
              nth (Z.to_nat i) table zero_guid = v_guid h
  | None => ATTR (v_attrs h) nvar_attr_guid = true
  end /\
  0 <= v_attrs h < 256 /\ ATTR (v_attrs h) nvar_attr_valid = true /\ name_ok dec16 h /\
  bytes_ok (content k) = true /\ no_nested (content k) = true /\
  bytes_ok (v_guid h) = true /\ ext_ok (aentry_of enc16 pol h k gi) = true.

Lemma good_gi pol table ht gi : good pol table ht gi ->
  ATTR (v_attrs (fst ht)) nvar_attr_guid = false -> gi <> None.
Proof.
  intros (_ & _ & _ & G & _) A. destruct gi; [discriminate|]. congruence.
Qed.

Lemma erased_next_range pol : pol = 0 \/ pol = 255 -> 0 <= erased_next pol < 2 ^ 24.
Proof. intros [-> | ->]; vm_compute; split; congruence. Qed.

Lemma wf_aentry pol table h k gi : pol = 0 \/ pol = 255 -> zlen table <= 255 ->
  good pol table (h, k) gi -> wf_entry (zlen table) (aentry_of enc16 pol h k gi) = true.
Proof.
  intros Hpol Ht G. pose proof (good_gi _ _ _ _ G) as Hgi.
  destruct G as ((_ & _ & ND & _) & Lg & Sz & Gi & Ha & Av & Nok & Bc & Nn & Bg & Xo). cbn [fst snd] in *.
  destruct (aname_of_spec h Nok) as (_ & Wn & _ & Ia).
  destruct (emit_aentry pol h k gi 0 Nok Hgi) as [_ Es].
  pose proof (erased_next_range pol Hpol) as Hn.
  unfold wf_entry. rewrite Es. cbn [ae_attrs ae_next aentry_of].
  replace (0 <=? v_attrs h) with true by lia. replace (v_attrs h <? 256) with true by lia.
  replace (0 <=? erased_next pol) with true by lia. replace (erased_next pol <? 2 ^ 24) with true by lia.
  replace (rebuilt_size enc16 h k gi <? 2 ^ 16) with true by lia.
  rewrite Av, ND, Ia, eqb_reflx, Wn, Bc, Nn. cbn [negb andb].
  fold (aentry_of enc16 pol h k gi). rewrite Xo. cbn [negb orb].
  unfold gref_of. destruct (ATTR (v_attrs h) nvar_attr_guid) eqn:AG; cbn [is_inline wf_gref eqb andb].
  - rewrite Bg. unfold nvar_guid_size. replace (zlen (v_guid h) =? 16) with true by lia. reflexivity.
  - destruct gi as [i|]; [|exfalso; apply (Hgi eq_refl eq_refl)].
    destruct Gi as (_ & Bi & _). unfold byte_ok.
    replace (0 <=? i) with true by lia. replace (i <? zlen table) with true by lia.
    replace (i <? 256) with true by lia. reflexivity.
Qed.

Lemma wf_aentries pol table hts gis : pol = 0 \/ pol = 255 -> zlen table <= 255 ->
  Forall2 (good pol table) hts gis ->
  forallb (wf_entry (zlen table)) (aentries_of enc16 pol hts gis) = true.
Proof.
  intros Hpol Ht F. induction F as [|[h k] gi r gr G _ IH]; [reflexivity|].
  cbn [aentries_of forallb]. rewrite wf_aentry by auto. exact IH.
Qed.

Lemma emit_aentries pol table hts gis : Forall2 (good pol table) hts gis -> forall offset,
  emit_entries (aentries_of enc16 pol hts gis) = concat (map v_buf (final_entries enc16 pol hts gis offset)).
Proof.
  intros F. induction F as [|[h k] gi r gr G _ IH]; intros offset; [reflexivity|].
  pose proof (good_gi _ _ _ _ G) as Hgi. destruct G as (_ & _ & _ & _ & _ & _ & Nok & _). cbn [fst snd] in *.
  unfold emit_entries in *. cbn [aentries_of final_entries map concat].
  destruct (emit_aentry pol h k gi offset Nok Hgi) as [-> _]. f_equal. apply IH.
Qed.

(* all table GUIDs are discovered by the re-parse *)
Lemma discovered_aentries pol table0 hts : forall gstore,
  Forall2 (good pol table0) hts (fst (assign_gidx hts gstore)) ->
  discovered (zlen gstore) (aentries_of enc16 pol hts (fst (assign_gidx hts gstore))) =
  zlen (snd (assign_gidx hts gstore)).
Proof.
  induction hts as [|[h k] r IH]; intros gstore F; [reflexivity|].
  cbn [assign_gidx] in *. destruct (ATTR (v_attrs h) nvar_attr_guid) eqn:AG.
  - specialize (IH gstore). destruct (assign_gidx r gstore) as [l g']. cbn [fst snd] in *.
    inversion F as [|? ? ? ? G Fr]; subst. cbn [aentries_of]. rewrite discovered_cons.
    unfold disc_step, aentry_of, gref_of. rewrite AG. apply IH. exact Fr.
  - destruct (gpos (v_guid h) gstore) as [i|] eqn:GP.
    + specialize (IH gstore). destruct (assign_gidx r gstore) as [l g']. cbn [fst snd] in *.
      inversion F as [|? ? ? ? G Fr]; subst. cbn [aentries_of]. rewrite discovered_cons.
      destruct G as (_ & _ & _ & _ & _ & _ & _ & _ & _ & _ & Xo). cbn [fst snd] in Xo.
      unfold disc_step. unfold aentry_of at 1. unfold gref_of at 1. rewrite AG.
      destruct (gpos_bound _ _ _ GP) as [B _].
      replace (Z.max (zlen gstore) (i + 1)) with (zlen gstore) by lia.
      destruct (ext_ok _); apply IH; exact Fr.
    + specialize (IH (gstore ++ [v_guid h])). destruct (assign_gidx r (gstore ++ [v_guid h])) as [l g'].
      cbn [fst snd] in *.
      inversion F as [|? ? ? ? G Fr]; subst. cbn [aentries_of]. rewrite discovered_cons.
      destruct G as (_ & _ & _ & _ & _ & _ & _ & _ & _ & _ & Xo). cbn [fst snd] in Xo.
      unfold disc_step. unfold aentry_of at 1. unfold gref_of at 1. rewrite AG.
      rewrite Xo.
      pose proof (zlen_nonneg gstore).
      replace (Z.max (zlen gstore) (zlen gstore + 1)) with (zlen (gstore ++ [v_guid h]))
        by (rewrite zlen_app; change (zlen [v_guid h]) with 1; lia).
      apply IH. exact Fr.
Qed.

End Reparse.
