(* Proofs/KernelTieNvar.v — the small pure helpers of pkg/uefi/nvram.go as TRANSCRIBED FROM THE GO
   SOURCE (Gen/GoKernels.v, regenerated on every run of bin/check) equal the functions of the
   hand-written model Model/Nvar.v, for all arguments.  The 24-bit "next" link of an NVAR header is
   decoded by uefi.Read3Size, tied in Proofs/KernelTie.v.  See Proofs/KernelTie.v. *)
From Fiano Require Import Base.Bytes Base.GoInt Gen.Consts Gen.GoKernels Model.Nvar.
Open Scope Z_scope.

(* NVarAttribute.IsValid: a & NVarEntryValid != 0 *)
Lemma go_NVarAttribute_IsValid_tie a : go_NVarAttribute_IsValid a = Nvar.ATTR a nvar_attr_valid.
Proof. reflexivity. Qed.

(* ( *NVar).IsValid: the entry type is Link, Data or Full *)
Lemma go_NVar_IsValid_tie t : go_NVar_IsValid t = Nvar.is_valid_type t.
Proof.
  unfold go_NVar_IsValid, Nvar.is_valid_type, nvar_type_link, nvar_type_data, nvar_type_full. cbv zeta.
  destruct ((t =? 2) || (t =? 3) || (t =? 4)); reflexivity.
Qed.

(* the 24-bit "next" link of an NVAR header ([3]uint8 Next, decoded by uefi.Read3Size; the model
   reads it with [rd _ 3] = [le_dec] of the three bytes).  Proved here again so that this file
   does not depend on the other pkg/uefi ties. *)
From Fiano Require Import Base.BytesLemmas.
From Coq Require Import ZifyBool ZifyNat.

(* a changed kernel must make a tie lemma FAIL, not make a conversion check run for an hour *)
Set Default Timeout 120.

Lemma go_Read3Size_nvar_tie a b c : 0 <= a < 256 -> 0 <= b < 256 -> 0 <= c < 256 ->
  go_Read3Size [a; b; c] = le_dec [a; b; c].
Proof.
  intros Ha Hb Hc. unfold go_Read3Size. cbn [nth le_dec]. go_arith.
Qed.
