(* Proofs/NvarSequenceProofs.v — several visitors on the same in-memory tree
   (nvram-compact, invalidate_nvar, Assemble in any order, no re-parse in
   between): the compacted tree is a fixed point of compaction, the side
   conditions are invariant, and the live set follows the abstract semantics
   "invalidate marks, compact sweeps" (property C10). *)
From Fiano Require Import Base.Bytes Base.BytesLemmas Gen.Consts Model.Nvar Proofs.NvarProofs
     Proofs.NvarCompactProofs Proofs.NvarReparseProofs Proofs.NvarInvalidateProofs.
From Coq Require Import ZifyBool ZifyNat Sorting.Sorted.
Open Scope Z_scope.

Lemma map_out_ok_id {A} (f : A -> outcome A) l : map_out f l = Ok l -> Forall (fun a => f a = Ok a) l.
Proof.
  induction l as [|a r IH]; intros H; [constructor|].
  cbn [map_out] in H. destruct (f a) as [b| | |] eqn:Fa; try discriminate. cbn [bind] in H.
  destruct (map_out f r) as [rs| | |] eqn:Fr; try discriminate. cbn [bind] in H.
  injection H as -> ->. constructor; auto.
Qed.

Section Sequences.
Variable enc16 : bytes -> bytes.

(* ---------- the entries compaction leaves ---------- *)

Lemma final_entries_rel pol hts : forall gis off,
  Forall2 kind_ok hts gis ->
  vars_rel enc16 off hts gis (final_entries enc16 pol hts gis off).
Proof.
  induction hts as [|[h k] r IH]; intros gis off F; inversion F as [|? gi ? gr K Fr]; subst; [exact I|].
  cbn [final_entries vars_rel]. split; [|split; [|apply IH; exact Fr]].
  - unfold same_var. rewrite content_final. unfold final_entry.
    cbn [v_guid v_name v_attrs v_type v_nextoff v_sub v_off v_dataoff v_buf v_size v_gidx].
    repeat split; auto.
    + unfold nvar_header_size. pose proof (zlen_nonneg (gpart_bytes enc16 h gi)). lia.
    + rewrite !zlen_app, zlen_emit_header. unfold nvar_header_size.
      pose proof (zlen_nonneg (content k)). lia.
    + intros A. unfold kind_ok in K. cbn [fst] in K. destruct gi; [congruence|reflexivity].
  - unfold final_entry. cbn [v_gidx]. unfold kind_ok in K. cbn [fst] in K.
    destruct gi; rewrite K; reflexivity.
Qed.

(* rebuilding an entry compaction has left gives the same entry *)
Lemma final_entries_fixed pol hts : forall gis off,
  final_entries enc16 pol (map (fun v => (v, v)) (final_entries enc16 pol hts gis off)) gis off =
  final_entries enc16 pol hts gis off.
Proof.
  induction hts as [|[h k] r IH]; intros gis off; [reflexivity|].
  destruct gis as [|gi gr]; [reflexivity|].
  cbn [final_entries map].
  assert (G : gpart_bytes enc16 (final_entry enc16 pol h k gi off) gi = gpart_bytes enc16 h gi) by reflexivity.
  assert (R : rebuilt_size enc16 (final_entry enc16 pol h k gi off) (final_entry enc16 pol h k gi off) gi =
              rebuilt_size enc16 h k gi).
  { unfold rebuilt_size. rewrite G, content_final. reflexivity. }
  rewrite R, IH. f_equal.
  unfold final_entry at 1. rewrite R, G, content_final. reflexivity.
Qed.

Lemma vars_rel_plain' off hts gis vs : vars_rel enc16 off hts gis vs ->
  Forall (fun ht : nvar * nvar => zlen (v_guid (fst ht)) = nvar_guid_size) hts ->
  Forall (fun v => v_sub v = None /\ 0 <= v_dataoff v <= zlen (v_buf v) /\ zlen (v_guid v) = nvar_guid_size) vs.
Proof.
  revert off gis vs. induction hts as [|[h k] r IH]; intros off gis vs R G.
  - destruct gis, vs; try contradiction. constructor.
  - destruct gis as [|gi gr]; [contradiction|]. destruct vs as [|v vr]; [contradiction|].
    cbn [vars_rel] in R. destruct R as (SV & _ & R). apply Forall_cons_iff in G as [G1 Gr].
    constructor; [|eapply IH; eauto].
    destruct SV as (E1 & _ & _ & _ & _ & _ & E7 & _ & E9 & _). cbn [fst] in G1. rewrite E1. auto.
Qed.

Lemma final_entries_settled pol d : pol = 0 \/ pol = 255 -> forall hts gis off,
  Forall (fun ht => head_like (fst ht) (snd ht)) hts ->
  Forall2 (fun ht gi => rebuilt_size enc16 (fst ht) (snd ht) gi < 2 ^ 16) hts gis ->
  Forall2 kind_ok hts gis ->
  Forall (fun v => asm_nvar enc16 pol d v = Ok v) (final_entries enc16 pol hts gis off).
Proof.
  intros Hpol. induction hts as [|[h k] r IH]; intros gl off Khl Sz K; [constructor|].
  inversion K as [|? gi ? gr K1 Kr]; subst. inversion Sz as [|? ? ? ? S1 Sr]; subst.
  apply Forall_cons_iff in Khl as [(_ & _ & ND & _) Khr]. cbn [fst snd] in *.
  cbn [final_entries]. constructor; [|apply IH; auto].
  unfold final_entry.
  apply (asm_nvar_id (fun x => x) enc16 pol d).
  - reflexivity.
  - unfold write3. cbn [Z.eqb]. symmetry. apply le_enc3_erased. exact Hpol.
  - apply erased_next_range. exact Hpol.
  - unfold gpart_of, gpart_bytes. cbn [v_attrs v_guid v_gidx v_name]. rewrite ND.
    unfold kind_ok in K1. cbn [fst] in K1.
    destruct (ATTR (v_attrs h) nvar_attr_guid) eqn:AG; [reflexivity|].
    destruct gi as [i|]; [reflexivity|congruence].
  - reflexivity.
  - reflexivity.
  - exact S1.
Qed.

Section OneStore.
Variable pol : Z.
Variable t : nstore.
Hypothesis CO : chains_ok (s_entries t).
Hypothesis FIT : compact_fits enc16 pol t.

Let hts := heads_tails (s_entries t).
Let gis := fst (assign_gidx hts []).
Let table := snd (assign_gidx hts []).
Let vs := final_entries enc16 pol hts gis 0.

Lemma compacted_entries : s_entries (compacted enc16 pol t) = vs /\ s_guids (compacted enc16 pol t) = table /\
  s_len (compacted enc16 pol t) = s_len t.
Proof.
  unfold compacted, vs, gis, table, hts. destruct (assign_gidx (heads_tails (s_entries t)) []). auto.
Qed.

Lemma fit_parts : (pol = 0 \/ pol = 255) /\
  Forall2 (fun ht gi => rebuilt_size enc16 (fst ht) (snd ht) gi < 2 ^ 16) hts gis /\
  zlen table <= 255 /\ sum_list (map v_size vs) + nvar_guid_size * zlen table <= s_len t /\ s_len t < 2 ^ 47.
Proof.
  unfold compact_fits in FIT. unfold vs, gis, table, hts.
  destruct (assign_gidx (heads_tails (s_entries t)) []). exact FIT.
Qed.

Lemma vs_rel : vars_rel enc16 0 hts gis vs.
Proof. apply final_entries_rel. apply assign_gidx_kinds. Qed.

Lemma vs_full : Forall full_tail vs.
Proof.
  destruct (heads_tails_spec (s_entries t) CO) as (_ & Khl & _).
  apply (vars_rel_props enc16 0 hts gis vs vs_rel Khl).
Qed.

Lemma vs_sorted : StronglySorted ltoff vs.
Proof.
  apply (vars_rel_sorted enc16 0 hts gis vs vs_rel).
  eapply Forall2_impl; [|apply (assign_gidx_kinds hts [])]. intros ht gi _. apply rebuilt_size_pos.
Qed.

Lemma vs_plain :
  Forall (fun v => v_sub v = None /\ 0 <= v_dataoff v <= zlen (v_buf v) /\ zlen (v_guid v) = nvar_guid_size) vs.
Proof.
  apply (vars_rel_plain' 0 hts gis vs vs_rel).
  destruct (heads_tails_spec (s_entries t) CO) as (_ & _ & Kin).
  apply Forall_forall. intros ht Hht. rewrite Forall_forall in Kin. destruct (Kin ht Hht) as [Hh _].
  destruct CO as [_ _ _ _ Hplain]. apply (Hplain _ Hh).
Qed.

Lemma chains_ok_compacted : chains_ok (s_entries (compacted enc16 pol t)).
Proof.
  destruct compacted_entries as (-> & _).
  pose proof vs_full as Ft. pose proof vs_plain as Pl. rewrite Forall_forall in Ft, Pl. constructor.
  - exact vs_sorted.
  - intros l Hl _ Nl. destruct (Ft l Hl) as (_ & N0 & _). congruence.
  - intros l v Hl _ _ _ Nl. destruct (Ft l Hl) as (_ & N0 & _). congruence.
  - intros v Hv _ _. destruct (Ft v Hv) as (_ & _ & ND & _). exact ND.
  - intros v Hv. apply Pl. exact Hv.
Qed.

Lemma heads_tails_vs : heads_tails vs = map (fun v => (v, v)) vs.
Proof. apply heads_tails_full; [exact vs_full|exact vs_sorted]. Qed.

Lemma assign_vs : assign_gidx (map (fun v => (v, v)) vs) [] = (gis, table).
Proof.
  rewrite (assign_gidx_same _ _ (vars_rel_same enc16 0 hts gis vs vs_rel)).
  unfold gis, table. destruct (assign_gidx hts []). reflexivity.
Qed.

(* compacting what compaction returned changes nothing, as trees *)
Lemma vs_fixed : final_entries enc16 pol (map (fun v => (v, v)) vs) gis 0 = vs.
Proof. unfold vs. apply final_entries_fixed. Qed.

Lemma compacted_idem : compacted enc16 pol (compacted enc16 pol t) = compacted enc16 pol t.
Proof.
  destruct compacted_entries as (E1 & _ & E3).
  unfold compacted at 1. rewrite E1, E3, heads_tails_vs, assign_vs, vs_fixed.
  unfold compacted. fold hts.
  replace (assign_gidx hts []) with (gis, table) by (unfold gis, table; destruct (assign_gidx hts []); reflexivity).
  fold vs. reflexivity.
Qed.

Lemma compact_fits_compacted : compact_fits enc16 pol (compacted enc16 pol t).
Proof.
  destruct compacted_entries as (E1 & _ & E3). destruct fit_parts as (Hpol & Sz & Tl & Fit & Len).
  unfold compact_fits. rewrite E1, E3, heads_tails_vs, assign_vs, vs_fixed.
  repeat split; auto.
  apply (sizes_same enc16 _ _ (ht_same_sym _ _ (vars_rel_same enc16 0 hts gis vs vs_rel))). exact Sz.
Qed.

(* Assemble (save) on the compacted tree changes nothing *)
Lemma settled_compacted d : asm_store enc16 pol (S d) (compacted enc16 pol t) = Ok (compacted enc16 pol t).
Proof.
  destruct fit_parts as (Hpol & Sz & Tl & Fit & Len).
  destruct (heads_tails_spec (s_entries t) CO) as (_ & Khl & _).
  pose proof (assign_gidx_kinds hts []) as K. fold gis in K.
  assert (A : Forall (fun v => asm_nvar enc16 pol d v = Ok v) vs)
    by (apply final_entries_settled; auto).
  rewrite asm_store_unfold.
  destruct compacted_entries as (E1 & E2 & E3). rewrite E1, E2, E3.
  rewrite map_out_id by exact A. cbn [bind].
  pose proof (final_entries_bufs enc16 pol hts gis 0) as Lb. fold vs in Lb.
  pose proof (sum_sizes_nonneg enc16 pol hts gis 0) as Ls. fold vs in Ls.
  pose proof (zlen_nonneg table) as Ht0. unfold nvar_guid_size in *.
  rewrite Lb. cbv zeta.
  replace ((s_len t <? 16 * zlen table) || (s_len t - 16 * zlen table <? sum_list (map v_size vs)))
    with false by lia.
  unfold compacted. fold hts.
  replace (assign_gidx hts []) with (gis, table) by (unfold gis, table; destruct (assign_gidx hts []); reflexivity).
  fold vs. rewrite Lb. unfold nvar_guid_size. reflexivity.
Qed.

End OneStore.

(* ---------- invalidation keeps a settled tree settled ---------- *)

Lemma settled_invalidate pol d n t :
  chains_ok (s_entries t) ->
  asm_store enc16 pol (S d) t = Ok t -> asm_store enc16 pol (S d) (invalidate n t) = Ok (invalidate n t).
Proof.
  intros CO H. destruct CO as [_ _ _ _ Hplain].
  rewrite asm_store_unfold in H.
  destruct (map_out (asm_nvar enc16 pol d) (s_entries t)) as [es| | |] eqn:M; try discriminate.
  cbn [bind] in H. cbv zeta in H.
  set (nv := concat (map v_buf es)) in *.
  set (gsl := nvar_guid_size * zlen (s_guids t)) in *.
  destruct ((s_len t <? gsl) || (s_len t - gsl <? zlen nv)) eqn:G; [discriminate|].
  set (goff := s_len t - gsl) in H.
  set (gap := goff - zlen nv) in H.
  apply (f_equal (fun o => match o with Ok x => x | _ => t end)) in H. cbv beta iota in H.
  pose proof (f_equal s_entries H) as E1. pose proof (f_equal s_buf H) as E2.
  pose proof (f_equal s_free H) as E3. pose proof (f_equal s_goff H) as E4.
  cbn [s_entries s_buf s_free s_goff] in E1, E2, E3, E4. clear H.
  subst es. apply map_out_ok_id in M.
  assert (M' : map_out (asm_nvar enc16 pol d) (s_entries (invalidate n t)) = Ok (s_entries (invalidate n t))).
  { apply map_out_id. rewrite invalidate_entries. apply Forall_forall. intros v' Hv'.
    apply in_map_iff in Hv' as (v & <- & Hv). rewrite Forall_forall in M.
    unfold inv_entry. destruct (bytes_eqb (v_name v) n); [|apply M; exact Hv].
    destruct (Hplain v Hv) as (Sub & _).
    destruct v as [a b c d0 e f g h i j k l m]. cbn [v_sub] in Sub. subst m.
    reflexivity. }
  assert (Eb : map v_buf (s_entries (invalidate n t)) = map v_buf (s_entries t)).
  { rewrite invalidate_entries, map_map. apply map_ext. intros v. unfold inv_entry.
    destruct (bytes_eqb (v_name v) n); [|reflexivity]. apply set_type_fields. }
  rewrite asm_store_unfold. rewrite M'. cbn [bind]. cbv zeta. rewrite Eb.
  change (s_len (invalidate n t)) with (s_len t). change (s_guids (invalidate n t)) with (s_guids t).
  fold nv. fold gsl. rewrite G. fold goff. fold gap.
  unfold invalidate at 2. rewrite <- E2, <- E3, <- E4. reflexivity.
Qed.

(* ---------- a whole command line ---------- *)

Definition settled (pol : Z) (t : nstore) : Prop := forall d, asm_store enc16 pol (S d) t = Ok t.

(* what every step keeps true *)
Definition seq_inv (pol : Z) (t : nstore) : Prop :=
  chains_ok (s_entries t) /\ compact_fits enc16 pol t /\ settled pol t.

Definition live_step (L : list (bytes * bytes * bytes)) (o : op) : list (bytes * bytes * bytes) :=
  match o with
  | OpInvalidate n => filter (fun x => negb (bytes_eqb (snd (fst x)) n)) L
  | _ => L
  end.
Definition live_after (ops : list op) (L : list (bytes * bytes * bytes)) : list (bytes * bytes * bytes) :=
  fold_left live_step ops L.

Lemma step_spec pol d o t : seq_inv pol t ->
  exists t', (match o with
              | OpCompact => compact_store enc16 pol (S d) t
              | OpInvalidate n => Ok (invalidate n t)
              | OpAssemble => asm_store enc16 pol (S d) t
              end) = Ok t' /\
             seq_inv pol t' /\ s_len t' = s_len t /\ live t' = live_step (live t) o /\
             (o = OpCompact -> t' = compacted enc16 pol t).
Proof.
  intros (CO & FIT & ST). destruct o as [|n|].
  - exists (compacted enc16 pol t). split; [apply compact_correct; auto|].
    split; [|split; [|split; [|auto]]].
    + split; [apply chains_ok_compacted; auto|]. split; [apply compact_fits_compacted; auto|].
      intros d0. apply settled_compacted; auto.
    + apply (compacted_entries pol t).
    + destruct (compact_spec enc16 pol d t CO FIT) as (st' & C & _ & _ & L & _).
      rewrite compact_correct in C by auto. injection C as <-. exact L.
  - exists (invalidate n t). split; [reflexivity|]. split; [|split; [reflexivity|split; [apply live_invalidate|discriminate]]].
    split; [rewrite invalidate_entries; apply chains_ok_invalidate; exact CO|].
    split; [apply compact_fits_invalidate; auto|].
    intros d0. apply settled_invalidate; auto.
  - exists t. split; [apply ST|]. split; [split; auto|]. split; [reflexivity|]. split; [reflexivity|discriminate].
Qed.

(* any sequence of nvram-compact / invalidate_nvar / Assemble on one tree runs to
   the end, keeps Length, and its live set is the original one minus the
   invalidated names *)
Theorem run_ops_spec pol d ops : forall t, seq_inv pol t ->
  exists t', run_ops enc16 pol (S d) ops t = Ok t' /\ seq_inv pol t' /\
             s_len t' = s_len t /\ live t' = live_after ops (live t).
Proof.
  induction ops as [|o r IH]; intros t I.
  - exists t. cbn. auto.
  - destruct (step_spec pol d o t I) as (t1 & S1 & I1 & L1 & V1 & _).
    destruct (IH t1 I1) as (t' & R & I' & L' & V').
    exists t'. cbn [run_ops]. rewrite S1. cbn [bind]. rewrite R.
    split; [reflexivity|]. split; [exact I'|]. split; [congruence|].
    rewrite V'. unfold live_after. cbn [fold_left]. rewrite V1. reflexivity.
Qed.

(* ... and when the last step is a compaction the tree (and the buffer a save
   writes) holds exactly that live set: one Full entry per variable, in order *)
Theorem run_ops_compacted pol d ops t : seq_inv pol t ->
  exists t0 t', run_ops enc16 pol (S d) ops t = Ok t0 /\
    run_ops enc16 pol (S d) (ops ++ [OpCompact]) t = Ok t' /\
    t' = compacted enc16 pol t0 /\ seq_inv pol t0 /\
    map triple (s_entries t') = live_after ops (live t) /\ Forall full_tail (s_entries t') /\
    zlen (s_buf t') = s_len t /\
    asm_store enc16 pol (S d) t' = Ok t' /\
    compact_store enc16 pol (S d) t' = Ok t'.
Proof.
  intros I. destruct (run_ops_spec pol d ops t I) as (t0 & R & I0 & L0 & V0).
  destruct I0 as (CO & FIT & ST).
  exists t0, (compacted enc16 pol t0). split; [exact R|].
  assert (R2 : run_ops enc16 pol (S d) (ops ++ [OpCompact]) t = Ok (compacted enc16 pol t0)).
  { clear - R CO FIT. revert t R. induction ops as [|o r IH]; intros t R.
    - cbn in R. injection R as ->. cbn [app run_ops]. rewrite compact_correct by auto. reflexivity.
    - cbn [app run_ops] in *.
      destruct (match o with OpCompact => _ | OpInvalidate n => _ | OpAssemble => _ end) as [t1| | |];
        try discriminate. cbn [bind] in *. apply IH. exact R. }
  split; [exact R2|]. split; [reflexivity|]. split; [exact (conj CO (conj FIT ST))|].
  destruct (compact_spec enc16 pol d t0 CO FIT) as (st' & C & _ & Lb & _ & Tr & Ft & _).
  rewrite compact_correct in C by auto. injection C as <-.
  split; [rewrite Tr; exact V0|]. split; [exact Ft|]. split; [congruence|].
  split; [apply settled_compacted; auto|].
  rewrite compact_correct by (try apply chains_ok_compacted; try apply compact_fits_compacted; auto).
  rewrite compacted_idem by auto. reflexivity.
Qed.

End Sequences.

(* ---------- where a command line starts, and what its saved bytes re-parse to ---------- *)
Section SequencesOnBytes.
Variables dec16 enc16 : bytes -> bytes.
Hypothesis codec_rt : forall u, bmp_ok u = true -> enc16 (dec16 u ++ [0]) = u ++ [0; 0].
Hypothesis codec_nz : forall u, bmp_ok u = true ->
  match last_byte (dec16 u) with Some l => l <> 0 | None => True end.

(* the tree NewNVarStore returns for a well-formed store is a valid starting point *)
Lemma seq_inv_parsed pol s : wf_store pol s = true ->
  chains_ok (s_entries (interp dec16 pol s)) -> compact_fits enc16 pol (interp dec16 pol s) ->
  seq_inv enc16 pol (interp dec16 pol s).
Proof.
  intros W CO FIT. split; [exact CO|]. split; [exact FIT|].
  intros d. eapply proj1. eapply asm_interp; eauto.
Qed.

(* parse, run any command line, compact, save: the bytes re-parse to exactly the
   live variables whose name was not invalidated *)
Theorem run_ops_reparse pol d ops t : seq_inv enc16 pol t ->
  exists t0 t', run_ops enc16 pol (S d) ops t = Ok t0 /\
    run_ops enc16 pol (S d) (ops ++ [OpCompact; OpAssemble]) t = Ok t' /\
    zlen (s_buf t') = s_len t /\
    (reparse_ok dec16 enc16 pol t0 ->
     exists st2, parse_store dec16 pol (s_buf t') = Ok st2 /\
                 live st2 = live_after ops (live t) /\ Forall full_tail (s_entries st2)).
Proof.
  intros I.
  destruct (run_ops_compacted enc16 pol d ops t I) as (t0 & t' & R0 & R1 & -> & (CO & FIT & ST) & _ & _ & Lb & A & _).
  destruct (run_ops_spec enc16 pol d ops t I) as (t0' & R0' & _ & _ & V0).
  rewrite R0 in R0'. injection R0' as <-.
  exists t0, (compacted enc16 pol t0). split; [exact R0|]. split; [|split; [exact Lb|]].
  - clear - R1 A. revert t R1. induction ops as [|o r IH]; intros t R1.
    + cbn [app run_ops] in *.
      destruct (compact_store enc16 pol (S d) t) as [x| | |]; try discriminate. cbn [bind] in *.
      injection R1 as ->. rewrite A. reflexivity.
    + cbn [app run_ops] in *.
      destruct (match o with OpCompact => _ | OpInvalidate n => _ | OpAssemble => _ end) as [t1| | |];
        try discriminate. cbn [bind] in *. apply IH. exact R1.
  - intros RP.
    destruct (compact_reparse dec16 enc16 codec_rt codec_nz pol t0 CO FIT RP) as (st2 & P & L & F & _).
    exists st2. split; [exact P|]. split; [rewrite L; exact V0|exact F].
Qed.

End SequencesOnBytes.
