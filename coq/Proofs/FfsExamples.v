(* Proofs/FfsExamples.v — a small concrete image used by the non-vacuity Examples of
   Properties/C04.v and C05.v: padding, a volume with two files (a compressed GUID-defined
   section whose payload decodes to a raw section, a raw section, and an FV-image section holding
   a nested volume with one file), trailing padding.  The codec oracle is a one-entry table. *)
From Fiano Require Import Base.Bytes Base.BytesLemmas Model.Ffs Proofs.FfsParseProofs.
Open Scope Z_scope.

Definition ex_guid (x : Z) : bytes := zrepeat x 16.
(* raw section (type 0x19) with 4 payload bytes *)
Definition ex_raw : bytes := le_enc 3 8 ++ [25] ++ [1; 2; 3; 4].
(* GUID-defined LZMA section; its payload [9;9;9] "decompresses" to [ex_raw] under [ex_dec] *)
Definition ex_gd : bytes := le_enc 3 27 ++ [2] ++ LZMA_GUID ++ le_enc 2 24 ++ le_enc 2 1 ++ [9; 9; 9].
Definition ex_dec (k : Z) (p : bytes) : option bytes :=
  if (k =? 1) && bytes_eqb p [9; 9; 9] then Some ex_raw else None.
Definition ex_file (g ftype : Z) (body : bytes) : bytes :=
  ex_guid g ++ [0; 0; ftype; 0] ++ le_enc 3 (24 + zlen body) ++ [248] ++ body.
Definition ex_vol (len : Z) (files : bytes) : bytes :=
  let hdr := zrepeat 0 16 ++ FFS2 ++ le_enc 8 len ++ [95; 70; 86; 72] ++ le_enc 4 2048 ++
             le_enc 2 72 ++ le_enc 2 0 ++ le_enc 2 0 ++ [0; 2] ++
             le_enc 4 1 ++ le_enc 4 len ++ le_enc 4 0 ++ le_enc 4 0 in
  hdr ++ files ++ zrepeat 255 (len - zlen hdr - zlen files).
Definition ex_inner : bytes := ex_vol 128 (ex_file 17 7 ex_raw).
Definition ex_fvsec : bytes := le_enc 3 (4 + zlen ex_inner) ++ [23] ++ ex_inner.
Definition ex_outer : bytes :=
  ex_vol 384 (ex_file 34 7 (ex_gd ++ [0] ++ ex_raw) ++ zrepeat 255 4 ++ ex_file 51 11 ex_fvsec).
Definition ex_img : bytes := zrepeat 255 16 ++ ex_outer ++ zrepeat 255 24.
Definition ex_u2s (b : bytes) : bytes := b.
Definition ex_s2u (b : bytes) : bytes := b.
Definition ex_nvar (b : bytes) : option bytes := None.
Definition ex_enc (k : Z) (p : bytes) : option bytes :=
  if (k =? 1) && bytes_eqb p ex_raw then Some [9; 9; 9] else None.

(* preorder shape of a tree: kind, type/offset, size; -1 closes a node *)
Fixpoint shape (n : node) : list Z :=
  match n with
  | NPad o b => [0; o; zlen b]
  | NSec h b k => [1; s_type h; s_ext h] ++ concat (map shape k) ++ [-1]
  | NFile h b k => [2; f_type h; f_ext h] ++ concat (map shape k) ++ [-1]
  | NVol h b k => [3; v_fvoffset h; v_length h] ++ concat (map shape k) ++ [-1]
  end.

Definition ex_shape : list Z :=
  [0; 0; 16; 3; 16; 384; 2; 7; 60; 1; 2; 27; 1; 25; 8; -1; -1; 1; 25; 8; -1; -1; 2; 11; 156;
   1; 23; 132; 3; 0; 128; 2; 7; 32; 1; 25; 8; -1; -1; -1; -1; -1; -1; 0; 400; 24].

Lemma ex_img_ok : bytes_ok ex_img = true.
Proof. vm_compute. reflexivity. Qed.

Lemma ex_dec_ok : dec_ok ex_dec.
Proof.
  intros k p e _. unfold ex_dec. destruct ((k =? 1) && bytes_eqb p [9; 9; 9]); [|discriminate].
  intros [= <-]. vm_compute. reflexivity.
Qed.

Lemma ex_parses : exists elems,
  parse_region ex_dec ex_u2s ex_nvar 6 ex_img = Ok (elems, 255) /\
  concat (map shape elems) = ex_shape.
Proof. vm_compute. eexists. split; reflexivity. Qed.

Lemma ex_too_shallow : parse_region ex_dec ex_u2s ex_nvar 5 ex_img = Fuel.
Proof. vm_compute. reflexivity. Qed.
