(* Proofs/ManifestContainerProofs.v — the manifest containers (Boot Policy
   Manifests): WriteTo concatenates the elements, ReadFrom dispatches on the
   structure ID of each StructInfo header until the stream ends.  Round trip,
   size and offsets. *)
From Coq Require Import ZifyBool ZifyNat.
From Fiano Require Import Base.Bytes Base.BytesLemmas Model.Manifest Model.ManifestIR
  Proofs.ManifestProofs Proofs.ManifestIRProofs Proofs.ManifestRehashProofs.
Open Scope Z_scope.

(* ---------- cons-lists ---------- *)
Fixpoint vcat (a b : value) : value :=
  match a with VCons x xs => VCons x (vcat xs b) | _ => b end.

Fixpoint vsize (v : value) : nat :=
  match v with VCons _ tl => S (vsize tl) | _ => O end.

Fixpoint proper (v : value) : bool :=
  match v with VNil => true | VCons _ tl => proper tl | _ => false end.

Lemma vnth_vcat P : forall a r, vnth (vcat P (VCons a r)) (vsize P) = Some a.
Proof. induction P; intros; cbn [vcat vsize vnth]; auto. Qed.

Lemma vset_vcat P : forall a r y, vset (vcat P (VCons a r)) (vsize P) y = vcat P (VCons y r).
Proof. induction P; intros; cbn [vcat vsize vset]; auto. now rewrite IHP2. Qed.

Lemma vcat_snoc P : forall y r, vcat (vcat P (VCons y VNil)) r = vcat P (VCons y r).
Proof. induction P; intros; cbn [vcat]; auto. now rewrite IHP2. Qed.

Lemma vsize_snoc P : forall y, vsize (vcat P (VCons y VNil)) = S (vsize P).
Proof. induction P; intros; cbn [vcat vsize]; auto. Qed.

Lemma vapp_vcat : forall l x, proper l = true -> vapp l x = vcat l (VCons x VNil).
Proof. induction l; intros x H; cbn [proper] in H; try discriminate; cbn [vapp vcat]; auto. now rewrite IHl2. Qed.

Lemma proper_snoc : forall l x, proper l = true -> proper (vcat l (VCons x VNil)) = true.
Proof. induction l; intros x H; cbn [proper] in H; try discriminate; cbn [vcat proper]; auto. Qed.

Lemma vcat_nil_r : forall l, proper l = true -> vcat l VNil = l.
Proof. induction l; intros H; cbn [proper] in H; try discriminate; cbn [vcat]; auto. now rewrite IHl2. Qed.

(* ---------- elements ---------- *)
Lemma items_ok_proper e : forall l, items_ok e l = true -> proper l = true.
Proof.
  induction l; intros H; cbn [items_ok] in H; try discriminate; auto.
  apply andb_prop in H as [_ H]. cbn [proper]. auto.
Qed.

(* find_elem finds the element at its own position *)
Lemma find_elem_app : forall pre e r,
  (forall e', In e' pre -> bytes_eqb (ce_id e') (ce_id e) = false) ->
  find_elem (pre ++ e :: r) (ce_id e) = Some (length pre).
Proof.
  induction pre as [|p pre IH]; intros e r H.
  - cbn [app find_elem length]. assert (E : bytes_eqb (ce_id e) (ce_id e) = true) by now apply bytes_eqb_eq.
    now rewrite E.
  - cbn [app find_elem length]. rewrite (H p (or_introl eq_refl)).
    rewrite IH; auto. intros e' I. apply H. now right.
Qed.

Lemma bytes_eqb_sym a b : bytes_eqb a b = bytes_eqb b a.
Proof.
  destruct (bytes_eqb a b) eqn:E.
  - apply bytes_eqb_eq in E. subst. symmetry. now apply bytes_eqb_eq.
  - destruct (bytes_eqb b a) eqn:E'; auto. apply bytes_eqb_eq in E'. subst.
    assert (bytes_eqb a a = true) by now apply bytes_eqb_eq. congruence.
Qed.

Lemma ids_distinct_app : forall pre e r, ids_distinct (pre ++ e :: r) = true ->
  forall e', In e' pre -> bytes_eqb (ce_id e') (ce_id e) = false.
Proof.
  induction pre as [|p pre IH]; intros e r D e' I; [contradiction|].
  cbn [app ids_distinct] in D. apply andb_prop in D as [D1 D2]. apply negb_true_iff in D1.
  destruct I as [<-|I]; [|eapply IH; eauto].
  destruct (bytes_eqb (ce_id p) (ce_id e)) eqn:E; auto.
  assert (X : existsb (fun e'0 => bytes_eqb (ce_id p) (ce_id e'0)) (pre ++ e :: r) = true).
  { apply existsb_exists. exists e. split; auto. apply in_or_app. right. now left. }
  congruence.
Qed.

Lemma vset_vset : forall v i a b, vset (vset v i a) i b = vset v i b.
Proof. induction v; intros [|i] y y'; cbn [vset]; auto. f_equal. apply IHv2. Qed.

Definition mark (i : nat) (seen : list bool) : list bool := firstn i seen ++ true :: skipn (S i) seen.

Lemma mark_length : forall i l, (i < length l)%nat -> length (mark i l) = length l.
Proof.
  unfold mark. induction i; intros [|b l] H; cbn [length] in H; try lia; cbn [firstn skipn app length]; auto.
  f_equal. apply IHi. lia.
Qed.

Lemma mark_idem : forall i l, (i < length l)%nat -> mark i (mark i l) = mark i l.
Proof.
  unfold mark. induction i; intros [|b l] H; cbn [length] in H; try lia; cbn [firstn skipn app]; auto.
  f_equal. apply IHi. lia.
Qed.

Lemma mark_app sf f r : mark (length sf) (sf ++ f :: r) = sf ++ true :: r.
Proof.
  unfold mark. rewrite firstn_app, Nat.sub_diag, firstn_all. cbn [firstn]. rewrite app_nil_r.
  f_equal. f_equal. induction sf; cbn [length skipn app]; auto.
Qed.

Section Container.
Variable c : cdesc.
Hypothesis COK : cdesc_ok c = true.

Let hdr := cd_hdr c.
Let es := cd_elems c.

Lemma cok_parts : hdr_ok hdr = true /\ (forall e, In e es -> elem_shape_ok hdr e = true) /\
  ids_distinct es = true.
Proof.
  unfold cdesc_ok in COK. apply andb_prop in COK as [H H3]. apply andb_prop in H as [H1 H2].
  repeat split; auto. now apply forallb_forall.
Qed.

(* shape of a well-formed element: header then data *)
Lemma elem_shape e x : In e es -> elem_ok e x = true ->
  exists nm rh rest h d idb,
    sd_schema (ce_desc e) = SCons nm (FSub hdr rh) rest /\ x = VCons h d /\
    wf_s hdr [] h = true /\ wf_s rest [h] d = true /\
    vnth h 0 = Some (VBytes idb) /\ idb = ce_id e /\ 1 <= zlen (enc_s hdr h).
Proof.
  intros I OK. destruct cok_parts as (HO & SH & _). specialize (SH e I).
  unfold elem_shape_ok in SH. unfold elem_ok in OK. apply andb_prop in OK as [W ID].
  unfold wf in W.
  destruct (sd_schema (ce_desc e)) as [|nm t rest] eqn:S; try discriminate.
  destruct t as [| |hs rh| | | |]; try discriminate.
  apply plain_eqb_eq in SH. subst hs.
  destruct x as [| | |h d]; cbn [wf_s] in W; try discriminate.
  apply andb_prop in W as [W1 W2]. cbn [wf_f] in W1. cbn [app] in W2.
  cbn [vnth] in ID.
  destruct (vnth h 0) as [[|idb| |]|] eqn:V; try discriminate.
  apply bytes_eqb_eq in ID.
  exists nm, rh, rest, h, d, idb. repeat split; auto.
  (* header is non-empty *)
  unfold hdr_ok in HO. fold hdr in HO.
  destruct hdr as [|n0 t0 r0] eqn:Hh; try discriminate.
  destruct t0 as [|k| | | | |]; try discriminate. destruct k as [|k]; try discriminate.
  destruct h as [| | |h0 hr]; cbn [wf_s] in W1; try discriminate.
  apply andb_prop in W1 as [A _]. destruct h0 as [|bb| |]; cbn [wf_f] in A; try discriminate.
  apply andb_prop in A as [A _]. cbn [enc_s enc_f]. rewrite zlen_app.
  pose proof (zlen_nonneg (enc_s r0 hr)). lia.
Qed.

Definition new_slot (e : celem) (slots : value) (i : nat) (x : value) : value :=
  match ce_mult e with
  | MOne => x
  | MOpt => VCons x VNil
  | MMany => match vnth slots i with Some l => vapp l x | None => VCons x VNil end
  end.

(* one iteration of the loop on one well-formed element *)
Lemma elem_step pre e post x slots seen prev n rest fuel :
  es = pre ++ e :: post -> elem_ok e x = true ->
  prev <= Z.of_nat (length pre) ->
  (match ce_mult e with MMany => True | _ => prev < Z.of_nat (length pre) end) ->
  cdec_loop (S fuel) c slots seen prev n (enc_s (sd_schema (ce_desc e)) x ++ rest) =
  cdec_loop fuel c (vset slots (length pre) (new_slot e slots (length pre) x))
            (mark (length pre) seen) (Z.of_nat (length pre))
            (n + zlen (enc_s (sd_schema (ce_desc e)) x)) rest.
Proof.
  intros E OK P1 P2.
  assert (I : In e es) by (rewrite E; apply in_or_app; right; now left).
  destruct (elem_shape e x I OK) as (nm & rh & rs & h & d & idb & S & -> & Wh & Wd & V & -> & _).
  destruct cok_parts as (_ & _ & D).
  rewrite S. cbn [enc_s enc_f]. rewrite <- app_assoc.
  cbn [cdec_loop]. fold hdr.
  rewrite (codec_roundtrip_s hdr [] h _ Wh). rewrite V.
  fold es. rewrite E at 1.
  rewrite (find_elem_app pre e post) by (eapply ids_distinct_app; rewrite <- E; exact D).
  replace (Z.of_nat (length pre) <? prev) with false by lia.
  rewrite E at 1. rewrite nth_error_app2 by lia. rewrite Nat.sub_diag. cbn [nth_error].
  assert (M : negb (match ce_mult e with MMany => true | _ => false end) && (Z.of_nat (length pre) =? prev) = false).
  { destruct (ce_mult e); cbn [negb andb]; auto; lia. }
  rewrite M.
  unfold data_schema. rewrite S.
  rewrite (codec_roundtrip_s rs [h] d rest Wd).
  match goal with |- cdec_loop _ _ _ _ _ ?a _ = cdec_loop _ _ _ _ _ ?b _ =>
    replace a with b by (rewrite !zlen_app; lia) end.
  unfold new_slot, mark. destruct (ce_mult e); reflexivity.
Qed.

(* the items of one MMany slot *)
Lemma many_steps pre e post : es = pre ++ e :: post -> ce_mult e = MMany ->
  forall l cur slots seen prev n rest fuel,
  items_ok e l = true -> proper cur = true -> vnth slots (length pre) = Some cur ->
  prev <= Z.of_nat (length pre) -> (length pre < length seen)%nat ->
  exists prev',
  cdec_loop (vsize l + fuel) c slots seen prev n (enc_items (ce_desc e) l ++ rest) =
  cdec_loop fuel c (vset slots (length pre) (vcat cur l))
            (match l with VCons _ _ => mark (length pre) seen | _ => seen end) prev'
            (n + zlen (enc_items (ce_desc e) l)) rest /\
  prev' <= Z.of_nat (length pre).
Proof.
  intros E M. induction l as [| | |x _ xs IH]; intros cur slots seen prev n rest fuel OK PC V P HL;
    cbn [items_ok] in OK; try discriminate.
  - exists prev. cbn [vsize enc_items Nat.add app]. change (zlen (@nil Z)) with 0.
    rewrite Z.add_0_r, (vcat_nil_r cur PC), (vset_same _ _ _ V). auto.
  - apply andb_prop in OK as [O1 O2].
    cbn [vsize Nat.add enc_items]. rewrite <- app_assoc.
    rewrite (elem_step pre e post x slots seen prev n _ _ E O1 P) by (rewrite M; exact I).
    unfold new_slot. rewrite M, V, (vapp_vcat cur x PC).
    set (slots1 := vset slots (length pre) (vcat cur (VCons x VNil))).
    assert (V1 : vnth slots1 (length pre) = Some (vcat cur (VCons x VNil))).
    { unfold slots1. eapply vnth_vset_same; eauto. }
    assert (HL1 : (length pre < length (mark (length pre) seen))%nat) by (rewrite mark_length; auto).
    destruct (IH (vcat cur (VCons x VNil)) slots1 (mark (length pre) seen) (Z.of_nat (length pre))
                 (n + zlen (enc_s (sd_schema (ce_desc e)) x)) rest fuel O2
                 (proper_snoc cur x PC) V1 (Z.le_refl _) HL1) as (prev' & R & P').
    exists prev'. split; [|exact P'].
    rewrite R. f_equal.
    + unfold slots1. now rewrite vcat_snoc, vset_vset.
    + destruct xs; auto. now apply mark_idem.
    + rewrite zlen_app. lia.
Qed.

Lemma enc_items_one d x : enc_items d (VCons x VNil) = enc_s (sd_schema d) x.
Proof. cbn [enc_items]. apply app_nil_r. Qed.

(* all items of one slot *)
Lemma slot_steps pre e post x slots seen prev n rest fuel :
  es = pre ++ e :: post -> slot_ok e x = true -> vnth slots (length pre) = Some VNil ->
  prev < Z.of_nat (length pre) -> (length pre < length seen)%nat ->
  exists prev',
  cdec_loop (vsize (slot_items (ce_mult e) x) + fuel) c slots seen prev n
            (enc_items (ce_desc e) (slot_items (ce_mult e) x) ++ rest) =
  cdec_loop fuel c (vset slots (length pre) x)
            (match slot_items (ce_mult e) x with VCons _ _ => mark (length pre) seen | _ => seen end)
            prev' (n + zlen (enc_items (ce_desc e) (slot_items (ce_mult e) x))) rest /\
  prev' <= Z.of_nat (length pre).
Proof.
  intros E OK V P HL. unfold slot_ok in OK. destruct (ce_mult e) eqn:M; cbn [slot_items].
  - (* MOne *)
    exists (Z.of_nat (length pre)). split; [|lia].
    cbn [vsize Nat.add]. rewrite enc_items_one.
    rewrite (elem_step pre e post x slots seen prev n rest fuel E OK) by (try rewrite M; lia).
    unfold new_slot. now rewrite M.
  - (* MOpt *)
    destruct x as [| | |y [| | |]]; try discriminate.
    + exists prev. split; [|lia]. cbn [vsize Nat.add enc_items app]. change (zlen (@nil Z)) with 0.
      now rewrite Z.add_0_r, (vset_same _ _ _ V).
    + exists (Z.of_nat (length pre)). split; [|lia].
      cbn [vsize Nat.add]. rewrite enc_items_one.
      rewrite (elem_step pre e post y slots seen prev n rest fuel E OK) by (try rewrite M; lia).
      unfold new_slot. now rewrite M.
  - (* MMany *)
    destruct (many_steps pre e post E M x VNil slots seen prev n rest fuel OK eq_refl V) as (prev' & R & P');
      try lia.
    exists prev'. split; [|exact P']. rewrite R. reflexivity.
Qed.

Fixpoint count_items (es' : list celem) (v : value) : nat :=
  match es', v with
  | e :: es'', VCons x xs => (vsize (slot_items (ce_mult e) x) + count_items es'' xs)%nat
  | _, _ => O
  end.

Fixpoint flags (es' : list celem) (v : value) : list bool :=
  match es', v with
  | e :: es'', VCons x xs =>
    (match slot_items (ce_mult e) x with VCons _ _ => true | _ => false end) :: flags es'' xs
  | _, _ => []
  end.

Lemma loop_elems : forall es' pre v' P sf prev n rest fuel,
  es = pre ++ es' -> cwf es' v' = true -> vsize P = length pre -> length sf = length pre ->
  prev < Z.of_nat (length pre) ->
  exists prev',
  cdec_loop (count_items es' v' + fuel) c (vcat P (empty_slots es'))
            (sf ++ map (fun _ => false) es') prev n (cenc_raw es' v' ++ rest) =
  cdec_loop fuel c (vcat P v') (sf ++ flags es' v') prev' (n + zlen (cenc_raw es' v')) rest.
Proof.
  induction es' as [|e es'' IH]; intros pre v' P sf prev n rest fuel E W HP HS HPrev.
  - destruct v'; cbn [cwf] in W; try discriminate. exists prev.
    cbn [count_items Nat.add empty_slots map flags cenc_raw app]. change (zlen (@nil Z)) with 0.
    now rewrite Z.add_0_r.
  - destruct v' as [| | |x xs]; cbn [cwf] in W; try discriminate. apply andb_prop in W as [W1 W2].
    cbn [count_items empty_slots map flags cenc_raw]. rewrite <- Nat.add_assoc, <- app_assoc.
    assert (V : vnth (vcat P (VCons VNil (empty_slots es''))) (length pre) = Some VNil)
      by (rewrite <- HP; apply vnth_vcat).
    assert (HL : (length pre < length (sf ++ false :: map (fun _ : celem => false) es''))%nat)
      by (rewrite app_length; cbn [length]; lia).
    destruct (slot_steps pre e es'' x _ _ prev n (cenc_raw es'' xs ++ rest) (count_items es'' xs + fuel)
                E W1 V HPrev HL) as (prev1 & R & P1).
    rewrite R. clear R.
    replace (vset (vcat P (VCons VNil (empty_slots es''))) (length pre) x)
      with (vcat P (VCons x (empty_slots es''))) by (rewrite <- HP; symmetry; apply vset_vcat).
    assert (SE : (match slot_items (ce_mult e) x with
                  | VCons _ _ => mark (length pre) (sf ++ false :: map (fun _ : celem => false) es'')
                  | _ => sf ++ false :: map (fun _ : celem => false) es'' end) =
                 (sf ++ [match slot_items (ce_mult e) x with VCons _ _ => true | _ => false end]) ++
                 map (fun _ : celem => false) es'').
    { rewrite <- app_assoc. cbn [app]. destruct (slot_items (ce_mult e) x); auto.
      rewrite <- HS. apply mark_app. }
    rewrite SE. clear SE.
    rewrite <- (vcat_snoc P x (empty_slots es'')).
    destruct (IH (pre ++ [e]) xs (vcat P (VCons x VNil))
                 (sf ++ [match slot_items (ce_mult e) x with VCons _ _ => true | _ => false end]) prev1
                 (n + zlen (enc_items (ce_desc e) (slot_items (ce_mult e) x))) rest fuel) as (prev' & R).
    + rewrite <- app_assoc. exact E.
    + exact W2.
    + rewrite vsize_snoc, app_length. cbn [length]. lia.
    + rewrite !app_length. cbn [length]. lia.
    + rewrite app_length. cbn [length]. lia.
    + exists prev'. rewrite R. rewrite vcat_snoc, <- app_assoc. cbn [app].
      f_equal. rewrite zlen_app. lia.
Qed.

Lemma count_le : forall es' v', (forall e, In e es' -> In e es) -> cwf es' v' = true ->
  Z.of_nat (count_items es' v') <= zlen (cenc_raw es' v').
Proof.
  assert (EL : forall e x, In e es -> elem_ok e x = true -> 1 <= zlen (enc_s (sd_schema (ce_desc e)) x)).
  { intros e x I OK. destruct (elem_shape e x I OK) as (nm & rh & rs & h & d & idb & S & -> & _ & _ & _ & _ & L).
    rewrite S. cbn [enc_s enc_f]. rewrite zlen_app. pose proof (zlen_nonneg (enc_s rs d)).
    unfold hdr in *. clear - L H. lia. }
  assert (IT : forall e l, In e es -> items_ok e l = true -> Z.of_nat (vsize l) <= zlen (enc_items (ce_desc e) l)).
  { intros e l I. induction l as [z|b0| |x _ xs IHl]; intros OK.
    - cbn [items_ok] in OK. discriminate.
    - cbn [items_ok] in OK. discriminate.
    - cbn [vsize enc_items]. unfold zlen. cbn [length]. lia.
    - cbn [items_ok] in OK. apply andb_prop in OK as [O1 O2]. cbn [vsize enc_items]. rewrite zlen_app.
      specialize (EL e x I O1). specialize (IHl O2). lia. }
  induction es' as [|e es'' IH]; intros v' SUB W.
  - cbn [count_items cenc_raw]. destruct v'; change (zlen (@nil Z)) with 0; lia.
  - destruct v' as [| | |x xs]; cbn [cwf] in W; try discriminate. apply andb_prop in W as [W1 W2].
    cbn [count_items cenc_raw]. rewrite zlen_app, Nat2Z.inj_add.
    assert (I : In e es) by (apply SUB; now left).
    specialize (IH xs (fun e' H => SUB e' (or_intror H)) W2).
    enough (Z.of_nat (vsize (slot_items (ce_mult e) x)) <= zlen (enc_items (ce_desc e) (slot_items (ce_mult e) x))) by lia.
    unfold slot_ok in W1. destruct (ce_mult e); cbn [slot_items].
    + apply IT; auto. cbn [items_ok]. now rewrite W1.
    + destruct x as [| | |y [| | |]]; try discriminate;
        first [ cbn [vsize enc_items]; unfold zlen; cbn [length]; lia
              | apply IT; auto; cbn [items_ok]; now rewrite W1 ].
    + now apply IT.
Qed.

Lemma required_flags : forall es' v', cwf es' v' = true -> required_seen es' (flags es' v') = true.
Proof.
  induction es' as [|e es'' IH]; intros v' W; [reflexivity|].
  destruct v' as [| | |x xs]; cbn [cwf] in W; try discriminate. apply andb_prop in W as [W1 W2].
  cbn [flags required_seen]. rewrite (IH xs W2). destruct (ce_mult e); reflexivity.
Qed.

(* ReadFrom of what WriteTo produced *)
Theorem container_roundtrip_raw : forall v, cwf es v = true ->
  cread c (cenc_raw es v) = Ok (v, zlen (cenc_raw es v)).
Proof.
  intros v W. unfold cread. fold es.
  pose proof (count_le es v (fun e H => H) W) as CL.
  set (b := cenc_raw es v) in *.
  assert (F : exists fuel, S (length b) = (count_items es v + S fuel)%nat).
  { exists (length b - count_items es v)%nat. unfold zlen in CL. lia. }
  destruct F as (fuel & ->).
  destruct (loop_elems es [] v VNil [] (-1) 0 [] (S fuel) eq_refl W eq_refl eq_refl) as (prev' & R);
    [cbn [length]; lia|].
  cbn [vcat app] in R. rewrite app_nil_r in R. fold b in R. rewrite R. clear R.
  cbn [cdec_loop]. fold hdr.
  destruct cok_parts as (HO & _ & _). unfold hdr_ok in HO.
  destruct hdr as [|n0 t0 r0]; try discriminate.
  destruct t0 as [|k| | | | |]; try discriminate. destruct k as [|k]; try discriminate.
  cbn [dec_s dec_f]. unfold take. change (zlen (@nil Z)) with 0.
  replace ((0 <=? Z.of_nat (S k)) && (Z.of_nat (S k) <=? 0)) with false by lia.
  rewrite (required_flags es v W). reflexivity.
Qed.
End Container.

(* ---------- size and offsets of a container ---------- *)
Lemma items_size e : forall l, items_ok e l = true ->
  zlen (enc_items (ce_desc e) l) = size_items (ce_desc e) l.
Proof.
  induction l as [z|b0| |x _ xs IH]; intros OK; cbn [items_ok] in OK; try discriminate.
  - reflexivity.
  - apply andb_prop in OK as [O1 O2]. unfold elem_ok in O1. apply andb_prop in O1 as [W _].
    cbn [enc_items size_items]. rewrite zlen_app, (IH O2). f_equal. now apply codec_size_s with (en := []).
Qed.

Lemma slot_items_ok e x : slot_ok e x = true -> items_ok e (slot_items (ce_mult e) x) = true.
Proof.
  unfold slot_ok. destruct (ce_mult e); cbn [slot_items]; intros H.
  - cbn [items_ok]. now rewrite H.
  - destruct x as [| | |y [| | |]]; try discriminate; cbn [items_ok]; auto. now rewrite H.
  - exact H.
Qed.

Theorem container_size : forall es v, cwf es v = true -> zlen (cenc_raw es v) = csize es v.
Proof.
  induction es as [|e es IH]; intros v W; destruct v as [| | |x xs]; cbn [cwf] in W; try discriminate;
    try reflexivity.
  apply andb_prop in W as [W1 W2]. cbn [cenc_raw csize].
  now rewrite zlen_app, (IH xs W2), (items_size e _ (slot_items_ok e x W1)).
Qed.

Theorem container_offsets : forall i es v, cwf es v = true ->
  coffset es v i = zlen (cenc_raw (firstn i es) v).
Proof.
  induction i as [|i IH]; intros es v W; [destruct es; reflexivity|].
  destruct es as [|e es]; [reflexivity|].
  destruct v as [| | |x xs]; cbn [cwf] in W; try discriminate.
  apply andb_prop in W as [W1 W2]. cbn [coffset firstn cenc_raw].
  now rewrite zlen_app, (IH es xs W2), (items_size e _ (slot_items_ok e x W1)).
Qed.

(* ---------- Rehash of a container ---------- *)
Lemma elem_ok_alt e x : elem_ok e x =
  wf (ce_desc e) x &&
  match get_path x [O; O] with Some (VBytes id) => bytes_eqb (ce_id e) id | _ => false end.
Proof. unfold elem_ok. cbn [get_path]. destruct (vnth x 0); reflexivity. Qed.

Lemma celem_ok_parts e : celem_ok e = true ->
  sdesc_ok (ce_desc e) = true /\
  (forall a, In a (sd_rh (ce_desc e)) -> pdisj [O; O] (rh_path a) = true) /\
  exists nm hs rest, sd_schema (ce_desc e) = SCons nm (FSub hs []) rest /\ plain hs = true.
Proof.
  unfold celem_ok. intros H. apply andb_prop in H as [H H3]. apply andb_prop in H as [H1 H2].
  repeat split; auto.
  - now apply forallb_forall.
  - destruct (sd_schema (ce_desc e)) as [|nm [| |hs [|]| | | |] rest]; try discriminate.
    exists nm, hs, rest. auto.
Qed.

Lemma get_id_rehash e x : celem_ok e = true ->
  get_path (rehash (ce_desc e) x) [O; O] = get_path x [O; O].
Proof.
  intros OK. destruct (celem_ok_parts e OK) as (_ & PD & nm & hs & rest & S & PL).
  unfold rehash. rewrite S.
  set (u := apply_rh _ _ x).
  assert (E1 : get_path u [O; O] = get_path x [O; O]).
  { unfold u. rewrite apply_rh_cs. apply run_cs_get_other. apply forallb_forall.
    intros a I. unfold consts_of in I. apply in_map_iff in I as (a' & <- & Ia'). cbn [fst].
    now apply PD. }
  rewrite <- E1. destruct u as [| | |h d]; try reflexivity.
  cbn [rehash_s rehash_f get_path vnth]. unfold apply_rh. cbn [fold_left].
  now rewrite (plain_rehash_s hs h PL).
Qed.

Lemma elem_ok_rehash e x : celem_ok e = true -> elem_ok e x = true ->
  elem_ok e (rehash (ce_desc e) x) = true.
Proof.
  intros OK H. rewrite elem_ok_alt in *. apply andb_prop in H as [W I].
  destruct (celem_ok_parts e OK) as (SO & _).
  rewrite (rehash_wf _ _ SO W), (get_id_rehash e x OK). exact I.
Qed.

Lemma items_ok_rehash e : celem_ok e = true -> forall l, items_ok e l = true ->
  items_ok e (rehash_items (ce_desc e) l) = true.
Proof.
  intros OK. induction l as [z|b0| |x _ xs IH]; intros H; cbn [items_ok] in H; try discriminate; auto.
  apply andb_prop in H as [H1 H2]. cbn [rehash_items items_ok].
  now rewrite (elem_ok_rehash e x OK H1), (IH H2).
Qed.

Lemma slot_ok_rehash e x : celem_ok e = true -> slot_ok e x = true -> slot_ok e (rehash_slot e x) = true.
Proof.
  intros OK. unfold slot_ok, rehash_slot. destruct (ce_mult e); intros H.
  - now apply elem_ok_rehash.
  - destruct x as [| | |y [| | |]]; try discriminate; auto.
    cbn [rehash_items]. now apply elem_ok_rehash.
  - now apply items_ok_rehash.
Qed.

Lemma cwf_crehash_elems : forall es v, forallb celem_ok es = true -> cwf es v = true ->
  cwf es (crehash_elems es v) = true.
Proof.
  induction es as [|e es IH]; intros v OK W; destruct v as [| | |x xs]; cbn [cwf] in W; try discriminate; auto.
  cbn [forallb] in OK. apply andb_prop in OK as [O1 O2]. apply andb_prop in W as [W1 W2].
  cbn [crehash_elems cwf]. now rewrite (slot_ok_rehash e x O1 W1), (IH xs O2 W2).
Qed.

Lemma size_items_rehash d : sdesc_ok d = true -> forall l,
  size_items d (rehash_items d l) = size_items d l.
Proof.
  intros OK. induction l as [z|b0| |x _ xs IH]; auto.
  cbn [rehash_items size_items]. rewrite IH. f_equal. apply (rehash_size d x OK).
Qed.

Lemma slot_size_rehash e x : celem_ok e = true ->
  size_items (ce_desc e) (slot_items (ce_mult e) (rehash_slot e x)) =
  size_items (ce_desc e) (slot_items (ce_mult e) x).
Proof.
  intros OK. destruct (celem_ok_parts e OK) as (SO & _). unfold rehash_slot.
  destruct (ce_mult e); cbn [slot_items].
  - cbn [size_items]. f_equal. apply (rehash_size _ x SO).
  - now apply size_items_rehash.
  - now apply size_items_rehash.
Qed.

Lemma coffset_crehash_elems : forall i es v, forallb celem_ok es = true ->
  coffset es (crehash_elems es v) i = coffset es v i.
Proof.
  induction i as [|i IH]; intros es v OK; [destruct es, v; reflexivity|].
  destruct es as [|e es]; [reflexivity|]. destruct v as [| | |x xs]; try reflexivity.
  cbn [forallb] in OK. apply andb_prop in OK as [O1 O2].
  cbn [crehash_elems coffset]. now rewrite (slot_size_rehash e x O1), (IH es xs O2).
Qed.

Lemma csize_crehash_elems : forall es v, forallb celem_ok es = true ->
  csize es (crehash_elems es v) = csize es v.
Proof.
  induction es as [|e es IH]; intros v OK; [reflexivity|]. destruct v as [| | |x xs]; try reflexivity.
  cbn [forallb] in OK. apply andb_prop in OK as [O1 O2].
  cbn [crehash_elems csize]. now rewrite (slot_size_rehash e x O1), (IH xs O2).
Qed.

Lemma vnth_crehash_elems : forall k es v e, nth_error es k = Some e ->
  vnth (crehash_elems es v) k = option_map (rehash_slot e) (vnth v k).
Proof.
  induction k as [|k IH]; intros es v e N; destruct es as [|e0 es]; cbn [nth_error] in N; try discriminate;
    destruct v as [| | |x xs]; try reflexivity.
  - inversion N; subst. reflexivity.
  - cbn [crehash_elems vnth]. now apply IH.
Qed.

Lemma cwf_vnth : forall k es v e, cwf es v = true -> nth_error es k = Some e ->
  exists x, vnth v k = Some x /\ slot_ok e x = true.
Proof.
  induction k as [|k IH]; intros es v e W N.
  - destruct es as [|a l]; cbn [nth_error] in N; [discriminate|]. inversion N; subst a.
    destruct v as [z|b0| |y ys]; cbn [cwf] in W; try discriminate.
    apply andb_prop in W as [W1 _]. exists y. auto.
  - destruct es as [|a l]; cbn [nth_error] in N; [discriminate|].
    destruct v as [z|b0| |y ys]; cbn [cwf] in W; try discriminate.
    apply andb_prop in W as [_ W]. cbn [vnth]. eapply IH; eauto.
Qed.

Section ContainerRehash.
Variable c : cdesc.
Hypothesis FOK : cdesc_full_ok c = true.
Let es := cd_elems c.

Lemma full_parts : cdesc_ok c = true /\ forallb celem_ok es = true /\ crh_ok c = true.
Proof.
  unfold cdesc_full_ok in FOK. apply andb_prop in FOK as [H H3]. apply andb_prop in H as [H1 H2]. auto.
Qed.

(* the container's own Rehash: either nothing, or one integer field of the first element *)
Lemma capply_rh_cases v : cwf es v = true ->
  (cd_rh c = None /\ capply_rh c v = v) \/
  exists r e0 es' h xs z,
    cd_rh c = Some r /\ es = e0 :: es' /\ v = VCons h xs /\ ce_mult e0 = MOne /\
    no_counted (sd_schema (ce_desc e0)) = true /\
    field_s (sd_schema (ce_desc e0)) (cr_field r) = Some (FInt (cr_width r)) /\
    cr_field r <> O /\
    (forall a, In a (sd_rh (ce_desc e0)) -> pdisj [cr_field r] (rh_path a) = true) /\
    0 <= z < wmax (cr_width r) /\
    capply_rh c v = VCons (vset h (cr_field r) (VInt z)) xs /\
    (forall ek xk, nth_error es (cr_elem r) = Some ek -> vnth v (cr_elem r) = Some xk ->
       z = (coffset es v (cr_elem r) + offset_s (sd_schema (ce_desc ek)) xk (cr_sub r)) mod wmax (cr_width r)) /\
    (exists ek xk, nth_error es (cr_elem r) = Some ek /\ vnth v (cr_elem r) = Some xk /\ ce_mult ek = MOne).
Proof.
  intros W. destruct full_parts as (_ & _ & RO). unfold crh_ok in RO. unfold capply_rh.
  destruct (cd_rh c) as [r|]; [|now left]. fold es in RO |- *.
  destruct es as [|e0 es'] eqn:E; try discriminate.
  repeat (apply andb_prop in RO as [RO ?]).
  destruct v as [| | |h xs]; cbn [cwf] in W; try discriminate.
  change (vnth (VCons h xs) 0) with (Some h).
  destruct (nth_error (e0 :: es') (cr_elem r)) as [ek|] eqn:N; try discriminate.
  destruct (ce_mult e0) eqn:M0; try discriminate.
  destruct (field_s (sd_schema (ce_desc e0)) (cr_field r)) as [[w| | | | | |]|] eqn:F; try discriminate.
  apply Nat.eqb_eq in H2. subst w.
  destruct (ce_mult ek) eqn:Mk; try discriminate.
  assert (X : exists xk, vnth (VCons h xs) (cr_elem r) = Some xk).
  { destruct (cwf_vnth (cr_elem r) (e0 :: es') (VCons h xs) ek W N) as (xk & X & _). now exists xk. }
  destruct X as (xk & X). rewrite X. right.
  exists r, e0, es', h, xs,
    ((coffset (e0 :: es') (VCons h xs) (cr_elem r) + offset_s (sd_schema (ce_desc ek)) xk (cr_sub r))
       mod wmax (cr_width r)).
  repeat split; auto.
  - apply negb_true_iff, Nat.eqb_neq in H1. exact H1.
  - now apply forallb_forall.
  - apply Z.mod_pos_bound, wmax_pos.
  - apply Z.mod_pos_bound, wmax_pos.
  - intros ek' xk' N' X'. rewrite N in N'. inversion N'; subst ek'.
    rewrite X in X'. inversion X'; subst xk'. reflexivity.
  - exists ek, xk. auto.
Qed.

Lemma cwf_capply_rh v : cwf es v = true -> cwf es (capply_rh c v) = true.
Proof.
  intros W. destruct (capply_rh_cases v W) as [[_ ->]|(r & e0 & es' & h & xs & z & _ & E & -> & M & NC & F & NZ & _ & R & -> & _)]; auto.
  rewrite E in *. cbn [cwf] in *. apply andb_prop in W as [W1 W2]. rewrite W2, andb_true_r.
  unfold slot_ok in *. rewrite M in *. rewrite elem_ok_alt in *. apply andb_prop in W1 as [Wh I].
  apply andb_true_intro. split.
  - unfold wf in *. eapply wf_vset_gen; eauto. cbn [wf_f]. lia.
  - cbn [get_path] in *. rewrite vnth_vset_other by auto. exact I.
Qed.

Lemma sizes_capply_rh v : cwf es v = true ->
  csize es (capply_rh c v) = csize es v /\ forall i, coffset es (capply_rh c v) i = coffset es v i.
Proof.
  intros W. destruct (capply_rh_cases v W) as [[_ ->]|(r & e0 & es' & h & xs & z & _ & E & -> & M & NC & F & NZ & _ & R & -> & _)]; auto.
  rewrite E in *. cbn [cwf] in W. apply andb_prop in W as [W1 _]. unfold slot_ok in W1. rewrite M in W1.
  unfold elem_ok in W1. apply andb_prop in W1 as [Wh _]. unfold wf in Wh.
  destruct (wf_vnth _ _ _ _ _ Wh F) as (y & en' & Y & _).
  assert (S : size_s (sd_schema (ce_desc e0)) (vset h (cr_field r) (VInt z)) = size_s (sd_schema (ce_desc e0)) h)
    by (eapply size_vset_gen; eauto).
  split.
  - cbn [csize]. rewrite M. cbn [slot_items size_items]. now rewrite S.
  - intros [|i]; [reflexivity|]. cbn [coffset]. rewrite M. cbn [slot_items size_items]. now rewrite S.
Qed.

Theorem cwf_crehash v : cwf es v = true -> cwf es (crehash_v c v) = true.
Proof.
  intros W. destruct full_parts as (_ & EO & _). unfold crehash_v. fold es.
  apply cwf_crehash_elems; auto. now apply cwf_capply_rh.
Qed.

Theorem csize_crehash v : cwf es v = true ->
  csize es (crehash_v c v) = csize es v /\ forall i, coffset es (crehash_v c v) i = coffset es v i.
Proof.
  intros W. destruct full_parts as (_ & EO & _). unfold crehash_v. fold es.
  destruct (sizes_capply_rh v W) as [S O]. split.
  - now rewrite csize_crehash_elems.
  - intros i. now rewrite coffset_crehash_elems.
Qed.

(* WriteTo then ReadFrom of a container *)
Theorem container_write_read v : cwf es v = true ->
  forall v1 b1, cwrite c v = (v1, b1) ->
  cread c b1 = Ok (v1, zlen b1) /\ zlen b1 = csize es v /\ cwf es v1 = true.
Proof.
  intros W v1 b1 E. unfold cwrite in E. inversion E; subst v1 b1. clear E. fold es.
  destruct full_parts as (CO & _ & _).
  pose proof (cwf_crehash v W) as W1. repeat split; auto.
  - now apply container_roundtrip_raw.
  - rewrite (container_size es _ W1). apply (csize_crehash v W).
Qed.

(* the header field set by the container's Rehash (BPMH.KeySignatureOffset) holds, in the
   written value, offset(element k) + offset(field sub inside element k), modulo its width *)
Theorem container_stored_offset v r : cwf es v = true -> cd_rh c = Some r ->
  forall v1 b1, cwrite c v = (v1, b1) ->
  exists h1 ek xk, vnth v1 O = Some h1 /\ nth_error es (cr_elem r) = Some ek /\
    vnth v1 (cr_elem r) = Some xk /\
    vnth h1 (cr_field r) =
    Some (VInt ((coffset es v1 (cr_elem r) + offset_s (sd_schema (ce_desc ek)) xk (cr_sub r))
                  mod wmax (cr_width r))).
Proof.
  intros W R v1 b1 E. unfold cwrite in E. inversion E; subst v1 b1. clear E.
  destruct full_parts as (_ & EO & _).
  destruct (csize_crehash v W) as [_ CO]. fold es.
  destruct (capply_rh_cases v W) as [[RN _]|(r' & e0 & es' & h & xs & z & R' & Ees & -> & M & NC & F & NZ & PD & Rz & CA & Zeq & (ek & xk & Nk & Xk & Mk))];
    [congruence|].
  rewrite R in R'. inversion R'; subst r'. clear R'.
  unfold crehash_v. fold es. rewrite CA.
  set (h' := vset h (cr_field r) (VInt z)).
  assert (N0 : nth_error es 0 = Some e0) by (rewrite Ees; reflexivity).
  assert (E0 : celem_ok e0 = true).
  { rewrite forallb_forall in EO. apply EO. rewrite Ees. now left. }
  assert (Ek : celem_ok ek = true).
  { rewrite forallb_forall in EO. apply EO. eapply nth_error_In; eauto. }
  destruct (celem_ok_parts e0 E0) as (SO0 & _ & _).
  destruct (celem_ok_parts ek Ek) as (SOk & _ & _).
  (* the first slot *)
  pose proof (vnth_crehash_elems 0 es (VCons h' xs) e0 N0) as V0.
  change (vnth (VCons h' xs) 0) with (Some h') in V0. cbn [option_map] in V0.
  unfold rehash_slot in V0. rewrite M in V0.
  (* slot k *)
  assert (Xk' : exists xk', vnth (VCons h' xs) (cr_elem r) = Some xk' /\
                 offset_s (sd_schema (ce_desc ek)) xk' (cr_sub r) = offset_s (sd_schema (ce_desc ek)) xk (cr_sub r)).
  { destruct (cr_elem r) as [|k] eqn:K.
    - cbn [vnth] in *. inversion Xk; subst xk. rewrite N0 in Nk. inversion Nk; subst ek.
      exists h'. split; auto. unfold h'.
      rewrite Ees in W. cbn [cwf] in W. apply andb_prop in W as [W1 _]. unfold slot_ok in W1. rewrite M in W1.
      unfold elem_ok in W1. apply andb_prop in W1 as [Wh _]. unfold wf in Wh.
      destruct (wf_vnth _ _ _ _ _ Wh F) as (y & en' & Y & _).
      eapply offset_vset_gen; eauto.
    - exists xk. split; auto. }
  destruct Xk' as (xk' & Xk' & Oeq).
  pose proof (vnth_crehash_elems (cr_elem r) es (VCons h' xs) ek Nk) as Vk.
  rewrite Xk' in Vk. cbn [option_map] in Vk. unfold rehash_slot in Vk. rewrite Mk in Vk.
  exists (rehash (ce_desc e0) h'), ek, (rehash (ce_desc ek) xk').
  split; [exact V0|]. split; [exact Nk|]. split; [exact Vk|].
  (* the stored value survives the element's own rehash *)
  assert (G : vnth (rehash (ce_desc e0) h') (cr_field r) = Some (VInt z)).
  { unfold rehash. rewrite (vnth_rehash_s _ _ _ _ F).
    change (vnth (apply_rh (sd_schema (ce_desc e0)) (sd_rh (ce_desc e0)) h') (cr_field r))
      with (get_path (apply_rh (sd_schema (ce_desc e0)) (sd_rh (ce_desc e0)) h') [cr_field r]).
    rewrite apply_rh_cs, run_cs_get_other.
    - cbn [get_path]. unfold h'.
      rewrite Ees in W. cbn [cwf] in W. apply andb_prop in W as [W1 _]. unfold slot_ok in W1. rewrite M in W1.
      unfold elem_ok in W1. apply andb_prop in W1 as [Wh _]. unfold wf in Wh.
      destruct (wf_vnth _ _ _ _ _ Wh F) as (y & en' & Y & _).
      rewrite (vnth_vset_same _ _ _ _ Y). reflexivity.
    - apply forallb_forall. intros a I. unfold consts_of in I. apply in_map_iff in I as (a' & <- & Ia').
      cbn [fst]. now apply PD. }
  rewrite G. f_equal. f_equal.
  rewrite (Zeq ek xk Nk Xk). f_equal. unfold h' in *.
  specialize (CO (cr_elem r)). unfold crehash_v in CO. fold es in CO. rewrite CA in CO. rewrite CO.
  f_equal. change (offset_s (sd_schema (ce_desc ek)) (rehash (ce_desc ek) xk') (cr_sub r))
    with (offset_of (ce_desc ek) (rehash (ce_desc ek) xk') (cr_sub r)).
  rewrite (rehash_offsets _ xk' _ SOk). unfold offset_of. now rewrite Oeq.
Qed.
Lemma items_rehash_idem e : celem_ok e = true -> forall l, items_ok e l = true ->
  rehash_items (ce_desc e) (rehash_items (ce_desc e) l) = rehash_items (ce_desc e) l.
Proof.
  intros OK. destruct (celem_ok_parts e OK) as (SO & _).
  induction l as [z|b0| |x _ xs IH]; intros H; cbn [items_ok] in H; try discriminate; auto.
  apply andb_prop in H as [H1 H2]. unfold elem_ok in H1. apply andb_prop in H1 as [Wx _].
  cbn [rehash_items]. now rewrite (rehash_idem _ x SO Wx), (IH H2).
Qed.

Lemma slot_rehash_idem e x : celem_ok e = true -> slot_ok e x = true ->
  rehash_slot e (rehash_slot e x) = rehash_slot e x.
Proof.
  intros OK. destruct (celem_ok_parts e OK) as (SO & _). unfold slot_ok, rehash_slot.
  destruct (ce_mult e); intros H.
  - unfold elem_ok in H. apply andb_prop in H as [Wx _]. now apply rehash_idem.
  - destruct x as [| | |y [| | |]]; try discriminate; auto.
    apply (items_rehash_idem e OK (VCons y VNil)). cbn [items_ok]. now rewrite H.
  - now apply items_rehash_idem.
Qed.

Lemma crehash_elems_idem : forall l v, forallb celem_ok l = true -> cwf l v = true ->
  crehash_elems l (crehash_elems l v) = crehash_elems l v.
Proof.
  induction l as [|e l IH]; intros v OK W; destruct v as [z|b0| |x xs]; cbn [cwf] in W; try discriminate; auto.
  cbn [forallb] in OK. apply andb_prop in OK as [O1 O2]. apply andb_prop in W as [W1 W2].
  cbn [crehash_elems]. now rewrite (slot_rehash_idem e x O1 W1), (IH xs O2 W2).
Qed.

(* writing the written value again changes nothing *)
Theorem container_rewrite v : cwf es v = true ->
  forall v1 b1, cwrite c v = (v1, b1) -> cwrite c v1 = (v1, b1).
Proof.
  intros W v1 b1 E.
  assert (Fix : crehash_v c v1 = v1).
  { destruct full_parts as (_ & EO & _).
    assert (CA : capply_rh c v1 = v1).
    { destruct (cd_rh c) as [r|] eqn:R.
      - destruct (container_stored_offset v r W R v1 b1 E) as (h1 & ek & xk & V0 & Nk & Vk & St).
        unfold capply_rh. rewrite R. fold es. rewrite V0, Nk, Vk.
        rewrite (vset_same h1 _ _ St). now apply vset_same.
      - unfold capply_rh. now rewrite R. }
    unfold crehash_v. rewrite CA. fold es.
    unfold cwrite in E. inversion E; subst v1. unfold crehash_v. fold es.
    apply crehash_elems_idem; auto. now apply cwf_capply_rh. }
  unfold cwrite in *. inversion E; subst b1. rewrite H0 in *. now rewrite Fix.
Qed.
End ContainerRehash.
