(* Proofs/C04FlashProofs.v — the flash-descriptor clause of property C04: "descriptor plus regions
   tile the flash without gap or overlap", for the Intel flash image entry shape of uefi.Parse
   (Model/FlashImage.v over Model/TightenMe.v: FindSignature, ParseFlashDescriptor, NewFlashImage with
   its slot loop, sort and fillRegionGaps).  Everything is derived from [flash_layout_inv]
   (Proofs/FlashImageProofs.v); new here is only the reading of its conclusion as "every region node
   holds exactly the bytes of the image at the position it reports". *)
From Fiano Require Import Base.Bytes Base.BytesLemmas Gen.Consts Model.TightenMe Model.FlashImage
  Proofs.TightenMeProofs Proofs.FlashImageProofs.
From Coq Require Import ZifyBool ZifyNat Lia.
Open Scope Z_scope.

(* a region node reports a non-empty block range and holds exactly the bytes of [img] in it *)
Definition region_at (img : bytes) (sl : list fregion) (r : region) : Prop :=
  let fr := region_fr sl r in
  fr_base fr <= fr_limit fr /\
  region_buf r = sub (base_off fr) (end_off fr - base_off fr) img.

Lemma app_eq_len {A} (a c b d : list A) : length a = length c -> a ++ b = c ++ d -> a = c /\ b = d.
Proof.
  revert c. induction a as [|x a IH]; intros [|y c] L E; try discriminate.
  - auto.
  - cbn in L, E. injection L as L. injection E as -> E. destruct (IH c L E) as (-> & ->). auto.
Qed.

Lemma chain_le sl : forall rs off e, Forall (geo sl) rs -> chain sl rs off = Some e -> off <= e.
Proof.
  induction rs as [|r rs IH]; intros off e F H; cbn [chain] in H.
  - injection H as <-. lia.
  - inversion F as [|r0 rs0 G F']; subst r0 rs0.
    destruct (base_off (region_fr sl r) =? off) eqn:E; [|discriminate].
    pose proof (geo_le sl r G). pose proof (IH _ _ F' H). lia.
Qed.

Lemma chain_windows img sl : forall rs off e,
  Forall (geo sl) rs -> chain sl rs off = Some e -> 0 <= off -> e <= zlen img ->
  concat (map region_buf rs) = sub off (e - off) img ->
  Forall (region_at img sl) rs.
Proof.
  induction rs as [|r rs IH]; intros off e F H O LE C; [constructor|].
  inversion F as [|r0 rs0 G F']; subst r0 rs0.
  cbn [chain] in H. destruct (base_off (region_fr sl r) =? off) eqn:E; [|discriminate].
  assert (B : base_off (region_fr sl r) = off) by lia.
  pose proof (geo_le sl r G) as LT. pose proof (chain_le _ _ _ _ F' H) as EE.
  set (fr := region_fr sl r) in *.
  cbn [map concat] in C.
  replace (e - off) with ((end_off fr - off) + (e - end_off fr)) in C by lia.
  rewrite <- sub_glue in C by lia.
  replace (off + (end_off fr - off)) with (end_off fr) in C by lia.
  destruct G as (G1 & G2 & G3 & G4). fold fr in G1, G2, G3.
  apply app_eq_len in C.
  - destruct C as (C1 & C2). constructor.
    + unfold region_at. fold fr. split; [exact G2|]. rewrite B. exact C1.
    + apply (IH (end_off fr) e); auto; lia.
  - apply Nat2Z.inj. change (zlen (region_buf r) = zlen (sub off (end_off fr - off) img)).
    rewrite zlen_sub by lia. lia.
Qed.

Lemma flash_layout_size img t : flash_layout img = Ok t -> t_size t = zlen img.
Proof.
  unfold flash_layout, parse_flash_f. intros H.
  destruct (zlen img <? ifd_desc_len); [discriminate|].
  apply bind_ok in H as ([[[[[dms rs] ms] sl] erase] nr] & _ & H).
  destruct (negb (fr_valid (slot sl ifd_type_bios))); [discriminate|].
  apply bind_ok in H as (regs & _ & H). apply bind_ok in H as (filled & _ & H).
  injection H as <-. reflexivity.
Qed.

(* the statement used by Properties/C04.v *)
Lemma c04_flash_partition img t : good_img img -> flash_layout img = Ok t ->
  t_ifd t = zfirstn ifd_desc_len img /\
  t_ifd t ++ concat (map region_buf (t_regions t)) = img /\
  chain (t_slots t) (t_regions t) ifd_desc_len = Some (zlen img) /\
  Forall (region_at img (t_slots t)) (t_regions t).
Proof.
  intros G L. pose proof G as (OK & SZ & LT).
  destruct (flash_layout_inv img t G L) as (F & CH & _ & IFD & CC & LI & _).
  rewrite (flash_layout_size img t L) in CH.
  split; [exact IFD|]. split.
  - rewrite IFD, CC. apply zfirstn_zskipn.
  - split; [exact CH|].
    apply (chain_windows img (t_slots t) (t_regions t) ifd_desc_len (zlen img) F CH).
    + consts. lia.
    + lia.
    + assert (H4 : 4096 <= zlen img).
      { destruct (Z_lt_le_dec (zlen img) 4096) as [Hs|Hs]; [|exact Hs]. exfalso.
        rewrite IFD in LI. change ifd_desc_len with 4096 in LI.
        unfold zfirstn, zlen in LI. rewrite firstn_length in LI. unfold zlen in Hs. lia. }
      rewrite CC. unfold sub. change ifd_desc_len with 4096.
      replace (zlen img - 4096) with (zlen (zskipn 4096 img)) by (rewrite zlen_zskipn by lia; lia).
      symmetry. apply zfirstn_all.
Qed.
