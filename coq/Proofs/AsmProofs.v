(* Proofs/AsmProofs.v — lemmas about the assembling half used by C02 and C03: the file loop of
   Assemble (Ffs.place_files), the volume case (Edit.asm_vol_v) and the BIOS-region copy. *)
From Fiano Require Import Base.Bytes Base.BytesLemmas Gen.Consts Model.Ffs Model.Edit Proofs.EditProofs.
From Coq Require Import ZifyBool ZifyNat.
Open Scope Z_scope.

(* ---------- where the file loop puts the files ---------- *)

Definition node_attr (f : node) : Z := match f with NFile h _ _ => f_attr h | _ => 0 end.

(* the offset place_files gives to a file whose predecessor ended at [off] *)
Definition file_start (off : Z) (f : node) : Z :=
  let a0 := align8 off in
  let base := attr_align (node_attr f) in
  if base =? 1 then a0 else
    let hl := file_hlen (node_attr f) in
    let fdo := align (a0 + hl) base in
    let no := fdo - hl in
    let gap := no - a0 in
    if (8 <=? gap) && (gap <? 24) then align (fdo + 1) base - hl else no.

Definition file_end (off : Z) (f : node) : Z := file_start off f + zlen (node_buf f).

Fixpoint end_of (off : Z) (l : list node) : Z :=
  match l with [] => off | f :: r => end_of (file_end off f) r end.

Fixpoint file_starts (off : Z) (l : list node) : list Z :=
  match l with [] => [] | f :: r => file_start off f :: file_starts (file_end off f) r end.

Lemma place_files_cons pol limit fvbuf off f r :
  place_files pol limit fvbuf off (f :: r) =
  (let fb := node_buf f in
   if zlen fb =? 0 then Panic 201 else
   let a0 := align8 off in
   let no := file_start off f in
   if (match limit with Some l => l <? no + zlen fb | None => false end) then Err E_NOSPACE else
   do st <- (if no =? a0 then Ok (fvbuf, no) else
               do pf <- create_pad_file pol (no - a0);
               do b <- insert_file pol fvbuf a0 pf;
               Ok (b, no));
   let '(fvbuf1, a1) := st in
   do b2 <- insert_file pol fvbuf1 a1 fb;
   place_files pol limit b2 (a1 + zlen fb) r).
Proof. reflexivity. Qed.

(* remove_pad: a pad file (attributes 0) of the removed file's size, standing where the file stood
   without an alignment gap of its own, leaves every later offset as it was *)
Lemma file_start_noalign off p : node_attr p = 0 -> file_start off p = align8 off.
Proof. intros H. unfold file_start. rewrite H. reflexivity. Qed.

Lemma remove_pad_offsets_lemma : forall off l1 f p l2,
  zlen (node_buf p) = zlen (node_buf f) -> node_attr p = 0 ->
  file_start (end_of off l1) f = align8 (end_of off l1) ->
  file_starts off (l1 ++ p :: l2) = file_starts off (l1 ++ f :: l2).
Proof.
  intros off l1. revert off. induction l1 as [|x r IH]; intros off f p l2 Hl Ha Hs.
  - cbn [app file_starts end_of] in *. unfold file_end.
    rewrite (file_start_noalign off p Ha), Hs, Hl. reflexivity.
  - cbn [app file_starts end_of] in *. f_equal. apply IH; auto.
Qed.

(* ---------- the alignment arithmetic ---------- *)

Lemma align_mult v b : 0 < b -> (align v b) mod b = 0.
Proof. intros Hb. unfold align. apply Z.mod_mul. lia. Qed.

Lemma align_ge v b : 0 < b -> v <= align v b < v + b.
Proof.
  intros Hb. unfold align.
  pose proof (Z.div_mod (v + b - 1) b ltac:(lia)). pose proof (Z.mod_pos_bound (v + b - 1) b Hb). nia.
Qed.

Lemma align8_mult v : (align8 v) mod 8 = 0.
Proof. apply align_mult. lia. Qed.
Lemma align8_ge v : v <= align8 v < v + 8.
Proof. apply align_ge. lia. Qed.

(* the alignments the attribute bits can ask for: 1 or a multiple of 16 *)
Lemma attr_align_cases a : attr_align a = 1 \/ (exists k, 0 < k /\ attr_align a = 16 * k).
Proof.
  unfold attr_align.
  set (v := Z.lor (Z.shiftr (Z.land a 56) 3) (Z.shiftl (Z.land a 2) 2)).
  assert (Hall : forallb (fun x => (x =? 1) || ((x mod 16 =? 0) && (0 <? x))) file_alignments = true)
    by (vm_compute; reflexivity).
  rewrite forallb_forall in Hall.
  destruct (nth_in_or_default (Z.to_nat v) file_alignments 1) as [Hin | Hd].
  - specialize (Hall _ Hin).
    destruct (nth (Z.to_nat v) file_alignments 1 =? 1) eqn:E; [left; lia|].
    right. cbn [orb] in Hall. apply andb_true_iff in Hall as [H1 H2].
    exists (nth (Z.to_nat v) file_alignments 1 / 16). split.
    + apply Z.div_str_pos. pose proof (Z.div_mod (nth (Z.to_nat v) file_alignments 1) 16 ltac:(lia)). lia.
    + pose proof (Z.div_mod (nth (Z.to_nat v) file_alignments 1) 16 ltac:(lia)). lia.
  - left. exact Hd.
Qed.

Lemma file_hlen_cases a : file_hlen a = 24 \/ file_hlen a = 32.
Proof. unfold file_hlen. destruct (attr_large a); auto. Qed.

(* align_gap_ok: a file starts 8-aligned, its data is aligned as its attributes ask, and the gap
   in front of it is empty or has room for a pad file (>= 24 bytes, a multiple of 8) *)
Lemma align_gap_ok off f : 0 <= off ->
  let a0 := align8 off in
  let s := file_start off f in
  a0 <= s /\ s mod 8 = 0 /\ (s + file_hlen (node_attr f)) mod attr_align (node_attr f) = 0 /\
  (s = a0 \/ 24 <= s - a0).
Proof.
  intros Hoff a0 s. subst a0 s. unfold file_start.
  pose proof (align8_mult off) as M8. pose proof (align8_ge off) as G8.
  set (a0 := align8 off) in *.
  destruct (attr_align_cases (node_attr f)) as [E1 | (k & Hk & Ek)].
  - rewrite E1. cbn [Z.eqb Pos.eqb]. repeat split; auto; try lia; try apply Z.mod_1_r.
  - rewrite Ek. replace (16 * k =? 1) with false by lia.
    set (hl := file_hlen (node_attr f)).
    assert (Hhl : hl = 24 \/ hl = 32) by apply file_hlen_cases.
    set (B := 16 * k) in *. assert (HB : 0 < B) by lia.
    pose proof (align_mult (a0 + hl) B HB) as Mf. pose proof (align_ge (a0 + hl) B HB) as Gf.
    set (fdo := align (a0 + hl) B) in *.
    pose proof (align_mult (fdo + 1) B HB) as Mf2. pose proof (align_ge (fdo + 1) B HB) as Gf2.
    set (fdo2 := align (fdo + 1) B) in *.
    (* fdo and fdo2 are multiples of 16, hence of 8 *)
    assert (D1 : exists q, fdo = 16 * q).
    { exists (k * (fdo / B)). pose proof (Z.div_mod fdo B ltac:(lia)). unfold B in *. nia. }
    assert (D2 : exists q, fdo2 = 16 * q).
    { exists (k * (fdo2 / B)). pose proof (Z.div_mod fdo2 B ltac:(lia)). unfold B in *. nia. }
    assert (D0 : exists q, a0 = 8 * q).
    { exists (a0 / 8). pose proof (Z.div_mod a0 8 ltac:(lia)). lia. }
    destruct D1 as (q1 & Q1). destruct D2 as (q2 & Q2). destruct D0 as (q0 & Q0).
    (* fdo2 = fdo + B *)
    assert (E2 : fdo2 = fdo + B).
    { assert (exists j, fdo2 = B * j) as (j & Hj)
        by (exists (fdo2 / B); pose proof (Z.div_mod fdo2 B ltac:(lia)); lia).
      assert (exists i, fdo = B * i) as (i & Hi)
        by (exists (fdo / B); pose proof (Z.div_mod fdo B ltac:(lia)); lia).
      assert (j = i + 1) by nia. subst j. lia. }
    clearbody fdo2 fdo hl a0. clear Gf2 Mf2.
    assert (H8 : hl / 8 * 8 = hl) by (destruct Hhl as [-> | ->]; reflexivity).
    destruct ((8 <=? fdo - hl - a0) && (fdo - hl - a0 <? 24)) eqn:Eg.
    + repeat split.
      * lia.
      * replace (fdo2 - hl) with (8 * (2 * q2 - hl / 8)) by lia.
        rewrite Z.mul_comm. apply Z.mod_mul. lia.
      * replace (fdo2 - hl + hl) with fdo2 by lia. rewrite E2. rewrite <- Zplus_mod_idemp_r, Z.mod_same, Z.add_0_r by lia. exact Mf.
      * right. unfold B in *. lia.
    + repeat split.
      * lia.
      * replace (fdo - hl) with (8 * (2 * q1 - hl / 8)) by lia.
        rewrite Z.mul_comm. apply Z.mod_mul. lia.
      * replace (fdo - hl + hl) with fdo by lia. exact Mf.
      * (* the gap is a multiple of 8 below 8 or at least 24 *)
        assert (Hg : fdo - hl - a0 = 8 * (2 * q1 - hl / 8 - q0)) by lia.
        destruct (Z.eq_dec (fdo - hl) a0) as [-> | Hne]; [left; reflexivity | right].
        assert (0 <= fdo - hl - a0) by lia. lia.
Qed.

(* ---------- the file loop: what ends up where ---------- *)

Lemma create_pad_file_len pol size b : create_pad_file pol size = Ok b -> zlen b = size.
Proof.
  unfold create_pad_file. destruct (size <? 24) eqn:E1; [discriminate|].
  destruct (negb ((pol =? 255) || (pol =? 0))); [discriminate|].
  destruct (set_size 0 size false) as [ext attr] eqn:Es.
  match goal with |- context [checksum_and_assemble ?h ?e ?a ?d] =>
    pose proof (caa_buf_len h e a d) as L end.
  intros H. match type of H with Ok ?x = Ok _ => assert (Hb : x = b) by congruence end.
  rewrite <- Hb. rewrite L by (cbn [f_guid]; apply zlen_zrepeat; lia).
  unfold set_size in Es. unfold file_hlen.
  destruct (16777215 <=? size) eqn:E2; inversion Es; subst.
  - change (attr_large 1) with true. cbv iota. rewrite zlen_zrepeat by lia. lia.
  - change (attr_large 0) with false. cbv iota. rewrite zlen_zrepeat by lia. lia.
Qed.

Lemma insert_file_ok pol fvbuf aligned fb b : insert_file pol fvbuf aligned fb = Ok b ->
  zlen fvbuf <= aligned /\ b = fvbuf ++ zrepeat pol (aligned - zlen fvbuf) ++ fb /\
  zlen b = aligned + zlen fb.
Proof.
  unfold insert_file. destruct (aligned <? zlen fvbuf) eqn:E1; [discriminate|].
  destruct (zlen fb =? 0); [discriminate|]. intros H. inversion H; subst.
  repeat split; try lia. rewrite !zlen_app, zlen_zrepeat by lia. lia.
Qed.

(* one step of the loop: the buffer grows by (fill, pad file,) file; the file's bytes start at
   file_start *)
Lemma place_step pol limit buf off f r B : zlen buf = off -> 0 <= off ->
  place_files pol limit buf off (f :: r) = Ok B ->
  exists X, zlen (buf ++ X) = file_start off f /\
            zlen (node_buf f) <> 0 /\
            (match limit with Some l => file_end off f <= l | None => True end) /\
            place_files pol limit ((buf ++ X) ++ node_buf f) (file_end off f) r = Ok B.
Proof.
  intros Hb Hoff H. rewrite place_files_cons in H. cbv zeta in H.
  destruct (zlen (node_buf f) =? 0) eqn:Ez; [discriminate|].
  destruct (align_gap_ok off f Hoff) as (G1 & G2 & G3 & G4). pose proof (align8_ge off) as G8.
  set (no := file_start off f) in *. set (a0 := align8 off) in *.
  destruct (match limit with Some l => l <? no + zlen (node_buf f) | None => false end) eqn:El;
    [discriminate|].
  assert (Hl : match limit with Some l => file_end off f <= l | None => True end).
  { unfold file_end. fold no. destruct limit; [lia | exact I]. }
  destruct (no =? a0) eqn:En.
  - cbn [bind] in H. apply bind_ok in H as (b2 & Hi & H).
    apply insert_file_ok in Hi as (I1 & I2 & I3).
    exists (zrepeat pol (no - zlen buf)). split; [|split; [lia|split; [exact Hl|]]].
    + rewrite zlen_app, zlen_zrepeat by lia. lia.
    + unfold file_end. fold no. rewrite <- app_assoc. rewrite <- I2. exact H.
  - apply bind_ok in H as ([b1 a1] & Hs & H).
    apply bind_ok in Hs as (pf & Hp & Hs). apply bind_ok in Hs as (b & Hi & Hs). inversion Hs; subst b1 a1.
    apply create_pad_file_len in Hp.
    apply insert_file_ok in Hi as (I1 & I2 & I3).
    apply bind_ok in H as (b2 & Hi2 & H).
    apply insert_file_ok in Hi2 as (J1 & J2 & J3).
    exists (zrepeat pol (a0 - zlen buf) ++ pf). split; [|split; [lia|split; [exact Hl|]]].
    + rewrite !zlen_app, zlen_zrepeat by lia. lia.
    + unfold file_end. fold no.
      assert (Eb : b2 = (buf ++ zrepeat pol (a0 - zlen buf) ++ pf) ++ node_buf f).
      { rewrite J2, I2. replace (no - zlen (buf ++ zrepeat pol (a0 - zlen buf) ++ pf)) with 0.
        - change (zrepeat pol 0) with (@nil Z). reflexivity.
        - rewrite !zlen_app, zlen_zrepeat by lia. lia. }
      rewrite <- Eb. exact H.
Qed.

Lemma place_files_layout pol limit : forall files buf off B, zlen buf = off -> 0 <= off ->
  place_files pol limit buf off files = Ok B ->
  zlen B = end_of off files /\ (exists D, B = buf ++ D) /\
  (forall k f s, nth_error files k = Some f -> nth_error (file_starts off files) k = Some s ->
                 sub s (zlen (node_buf f)) B = node_buf f) /\
  (match limit with Some l => files <> [] -> zlen B <= l | None => True end).
Proof.
  induction files as [|f r IH]; intros buf off B Hb Hoff H.
  - cbn [place_files] in H. inversion H; subst. cbn [end_of]. repeat split; auto.
    + exists []. rewrite app_nil_r. reflexivity.
    + intros k f s Hk. destruct k; discriminate.
    + destruct limit; auto. intros C; contradiction.
  - destruct (place_step pol limit buf off f r B Hb Hoff H) as (X & HX & Hz & Hl & Hr).
    destruct (align_gap_ok off f Hoff) as (G1 & _). pose proof (align8_ge off) as G8.
    assert (Hlen : zlen ((buf ++ X) ++ node_buf f) = file_end off f)
      by (unfold file_end; rewrite zlen_app, HX; reflexivity).
    assert (Hpos : 0 <= file_end off f)
      by (unfold file_end; pose proof (zlen_nonneg (node_buf f)); lia).
    destruct (IH _ _ _ Hlen Hpos Hr) as (A1 & (D & A2) & A3 & A4).
    cbn [end_of]. repeat split; auto.
    + exists (X ++ node_buf f ++ D). rewrite A2, <- !app_assoc. reflexivity.
    + intros k g s Hk Hs. destruct k as [|k].
      * cbn in Hk, Hs. inversion Hk; inversion Hs; subst.
        rewrite <- HX. rewrite <- app_assoc. apply sub_app_mid.
      * cbn in Hk, Hs. eapply A3; eauto.
    + destruct limit as [l|]; auto. intros _. destruct r as [|g r'].
      * cbn [place_files] in Hr. inversion Hr; subst. rewrite Hlen. exact Hl.
      * apply A4. discriminate.
Qed.

(* asm_fv_nospace: a file that would end beyond the limit of a non-resizable volume stops the loop
   with the out-of-space error (or an earlier error), never with a buffer *)
Lemma place_files_nospace pol l : forall files buf off, zlen buf = off -> 0 <= off ->
  (exists k f s, nth_error files k = Some f /\ nth_error (file_starts off files) k = Some s /\
                 l < s + zlen (node_buf f)) ->
  is_ok (place_files pol (Some l) buf off files) = false.
Proof.
  induction files as [|f r IH]; intros buf off Hb Hoff (k & g & s & Hk & Hs & Hl).
  - destruct k; discriminate.
  - destruct (place_files pol (Some l) buf off (f :: r)) as [B| | |] eqn:E; try reflexivity.
    exfalso.
    destruct (place_step pol (Some l) buf off f r B Hb Hoff E) as (X & HX & Hz & Hlim & Hr).
    destruct k as [|k].
    + cbn in Hk, Hs. inversion Hk; inversion Hs; subst. unfold file_end in Hlim. lia.
    + cbn in Hk, Hs.
      assert (Hlen : zlen ((buf ++ X) ++ node_buf f) = file_end off f)
        by (unfold file_end; rewrite zlen_app, HX; reflexivity).
      assert (Hpos : 0 <= file_end off f).
      { unfold file_end. pose proof (zlen_nonneg (node_buf f)).
        destruct (align_gap_ok off f Hoff) as (G1 & _). pose proof (align8_ge off). lia. }
      specialize (IH _ _ Hlen Hpos (ex_intro _ k (ex_intro _ g (ex_intro _ s (conj Hk (conj Hs Hl)))))).
      rewrite Hr in IH. discriminate.
Qed.

(* ---------- the volume case of Assemble ---------- *)

Lemma zskipn_app_ge {A} (a b : list A) n : zlen a <= n -> zskipn n (a ++ b) = zskipn (n - zlen a) b.
Proof.
  intros H. pose proof (zlen_nonneg a).
  replace n with ((n - zlen a) + zlen a) at 1 by lia.
  rewrite <- zskipn_zskipn by lia. rewrite zskipn_app_exact. reflexivity.
Qed.

Lemma zskipn_splice_below off d b n : 0 <= off -> off + zlen d <= n -> off + zlen d <= zlen b ->
  zskipn n (splice off d b) = zskipn n b.
Proof.
  intros H1 H2 H3. pose proof (zlen_nonneg d). unfold splice.
  rewrite zskipn_app_ge by (rewrite zlen_zfirstn; lia). rewrite zlen_zfirstn by lia.
  rewrite zskipn_app_ge by lia.
  rewrite zskipn_zskipn by lia. f_equal. lia.
Qed.

Lemma slice_len lo hi b s : slice lo hi b = Some s -> zlen s = hi - lo /\ 0 <= lo <= hi /\ hi <= zlen b.
Proof.
  unfold slice. destruct ((0 <=? lo) && (lo <=? hi) && (hi <=? zlen b)) eqn:E; [|discriminate].
  intros H. inversion H; subst. split; [|lia].
  rewrite zlen_zfirstn; [lia|]. rewrite zlen_zskipn by lia. lia.
Qed.

Lemma slice0_eq hi b s : slice 0 hi b = Some s -> s = zfirstn hi b.
Proof.
  unfold slice. destruct ((0 <=? 0) && (0 <=? hi) && (hi <=? zlen b)); [|discriminate].
  intros H. inversion H. rewrite Z.sub_0_r. reflexivity.
Qed.

(* what a successful rebuild of a non-resizable volume is made of *)
Lemma asm_vol_v_inv pol ffs3 h buf files h' b :
  asm_vol pol ffs3 h buf files = Ok (h', b) ->
  vol_verbatim h files = false -> v_resizable h = false ->
  exists hdr b1 c s rest hb,
    slice 0 (v_dataoff h) buf = Some hdr /\
    place_files pol (Some (v_length h)) hdr (v_dataoff h) files = Ok b1 /\
    zlen b1 <= v_length h /\ v_hdrlen h <= v_dataoff h /\ Z.even (v_hdrlen h) = true /\
    v_blocks h = (c, s) :: rest /\
    let b2 := if zlen b1 <? v_length h then b1 ++ zrepeat pol (v_length h - zlen b1) else b1 in
    let b3 := splice 32 (le_enc 8 (v_length h)) b2 in
    let b4 := if ffs3 && bytes_eqb (v_guid h) FFS2 then splice 16 FFS3 b3 else b3 in
    let b5 := splice 56 (le_enc 4 c) b4 in
    let b6 := splice 50 [0; 0] b5 in
    60 <= zlen b2 /\ zlen b4 = zlen b2 /\
    slice 0 (v_hdrlen h) b6 = Some hb /\
    b = splice 50 (le_enc 2 ((0 - sum16 hb) mod 65536)) b6 /\
    v_length h' = v_length h /\ v_blocks h' = v_blocks h.
Proof.
  intros H Hv Hr. unfold asm_vol in H. fold (vol_verbatim h files) in H. rewrite Hv, Hr in H.
  destruct (v_length h <? zlen buf); [discriminate|].
  destruct (v_blocks h) as [|[c s] rest] eqn:Eb; [discriminate|].
  destruct (v_dataoff h <? v_hdrlen h) eqn:E1; [discriminate|].
  destruct (zlen buf <? v_dataoff h); [discriminate|].
  apply bind_ok in H as (hdr & Hs & H). destruct (slice 0 (v_dataoff h) buf) as [hdr'|] eqn:Esl; [|discriminate].
  cbn [of_opt] in Hs. inversion Hs; subst hdr'.
  apply bind_ok in H as (b1 & Hp & H).
  cbn [negb andb] in H. rewrite andb_true_r in H.
  destruct (v_length h <? zlen b1) eqn:E2; [discriminate|].
  cbn [bind] in H.
  set (b2 := if zlen b1 <? v_length h then b1 ++ zrepeat pol (v_length h - zlen b1) else b1) in *.
  destruct (zlen b2 <? 40) eqn:E3; [discriminate|].
  set (b3 := splice 32 (le_enc 8 (v_length h)) b2) in *.
  set (b4 := if ffs3 && bytes_eqb (v_guid h) FFS2 then splice 16 FFS3 b3 else b3) in *.
  destruct (zlen b4 <? 60) eqn:E4; [discriminate|].
  set (b5 := splice 56 (le_enc 4 c) b4) in *.
  set (b6 := splice 50 [0; 0] b5) in *.
  destruct (slice 0 (v_hdrlen h) b6) as [hb|] eqn:E5; [|discriminate].
  destruct (negb (Z.even (v_hdrlen h))) eqn:E6; [discriminate|].
  inversion H; subst. clear H.
  assert (L3 : zlen b3 = zlen b2) by (apply zlen_splice; rewrite ?le8; lia).
  assert (L4 : zlen b4 = zlen b2).
  { unfold b4. destruct (ffs3 && bytes_eqb (v_guid h) FFS2); [|exact L3].
    rewrite zlen_splice; [exact L3 | lia | change (zlen FFS3) with 16; lia]. }
  exists hdr, b1, c, s, rest, hb. cbv zeta. fold b2 b3 b4 b5 b6.
  repeat split; auto; try lia;
  try (destruct (Z.even (v_hdrlen h)); [reflexivity | discriminate]).
Qed.

Lemma asm_vol_v_len pol ffs3 h buf files h' b :
  asm_vol pol ffs3 h buf files = Ok (h', b) ->
  vol_verbatim h files = false -> v_resizable h = false ->
  zlen b = v_length h /\ v_length h' = v_length h.
Proof.
  intros H Hv Hr.
  destruct (asm_vol_v_inv _ _ _ _ _ _ _ H Hv Hr)
    as (hdr & b1 & c & s & rest & hb & Hs & Hp & Hl & Hd & He & Hb & Hz).
  cbv zeta in Hz. destruct Hz as (L60 & L4 & Hsl & -> & Hlen & _).
  split; [|exact Hlen].
  set (b2 := if zlen b1 <? v_length h then b1 ++ zrepeat pol (v_length h - zlen b1) else b1) in *.
  assert (L2 : zlen b2 = v_length h).
  { unfold b2. destruct (zlen b1 <? v_length h) eqn:E.
    - rewrite zlen_app, zlen_zrepeat by lia. lia.
    - lia. }
  rewrite zlen_splice; rewrite ?le2, ?zlen_splice; rewrite ?le4, ?L4; try lia;
    change (zlen [0; 0]) with 2; rewrite ?zlen_splice; rewrite ?le4, ?L4; lia.
Qed.

(* DESIGN section 6 #20, repaired: a volume whose file list became empty is header + erased space *)
Lemma asm_vol_empty_fixed pol ffs3 h buf h' b :
  supported_fv (v_guid h) = true -> v_resizable h = false -> 60 <= v_dataoff h ->
  asm_vol pol ffs3 h buf [] = Ok (h', b) ->
  zlen b = v_length h /\ v_length h' = v_length h /\
  zskipn (v_dataoff h) b = zrepeat pol (v_length h - v_dataoff h).
Proof.
  intros Hsup Hr Hd H.
  assert (Hv : vol_verbatim h [] = false) by (unfold vol_verbatim; rewrite Hsup; reflexivity).
  destruct (asm_vol_v_len _ _ _ _ _ _ _ H Hv Hr) as [L1 L2]. repeat split; auto.
  destruct (asm_vol_v_inv _ _ _ _ _ _ _ H Hv Hr)
    as (hdr & b1 & c & s & rest & hb & Hs & Hp & Hl & Hdo & He & Hb & Hz).
  cbv zeta in Hz. destruct Hz as (L60 & L4 & Hsl & -> & Hlen & _).
  cbn [place_files] in Hp. inversion Hp; subst b1. clear Hp.
  apply slice_len in Hs as (Lh & _ & _). rewrite Z.sub_0_r in Lh.
  set (b2 := if zlen hdr <? v_length h then hdr ++ zrepeat pol (v_length h - zlen hdr) else hdr) in *.
  assert (L2' : zlen b2 = v_length h).
  { unfold b2. destruct (zlen hdr <? v_length h) eqn:E.
    - rewrite zlen_app, zlen_zrepeat by lia. lia.
    - lia. }
  assert (S2 : zskipn (v_dataoff h) b2 = zrepeat pol (v_length h - v_dataoff h)).
  { unfold b2. rewrite <- Lh. destruct (zlen hdr <? v_length h) eqn:E.
    - apply zskipn_app_exact.
    - replace (v_length h - zlen hdr) with 0 by lia. change (zrepeat pol 0) with (@nil Z).
      rewrite <- (app_nil_r hdr) at 2. apply zskipn_app_exact. }
  rewrite <- S2.
  rewrite zskipn_splice_below; rewrite ?le2; try lia.
  2:{ rewrite !zlen_splice; rewrite ?le4, ?L4; try lia; change (zlen [0;0]) with 2; rewrite ?zlen_splice; rewrite ?le4, ?L4; lia. }
  rewrite zskipn_splice_below; change (zlen [0;0]) with 2; try lia.
  2:{ rewrite zlen_splice; rewrite ?le4, ?L4; lia. }
  rewrite zskipn_splice_below; rewrite ?le4, ?L4; try lia.
  destruct (ffs3 && bytes_eqb (v_guid h) FFS2).
  - rewrite zskipn_splice_below; change (zlen FFS3) with 16; try lia.
    2:{ rewrite zlen_splice; rewrite ?le8; lia. }
    rewrite zskipn_splice_below; rewrite ?le8; try lia. reflexivity.
  - rewrite zskipn_splice_below; rewrite ?le8; try lia. reflexivity.
Qed.

(* ---------- saving the region: what lies outside the edited element ---------- *)

Lemma set_polarity_keep pol ep p : pol <> 240 -> set_polarity pol ep = Some p -> p = pol.
Proof.
  unfold set_polarity. intros Hp. replace (pol =? 240) with false by lia.
  destruct (pol =? ep); [intros H; inversion H; reflexivity | discriminate].
Qed.

Ltac break_match_hyp H :=
  repeat match type of H with
         | context [match ?x with _ => _ end] => destruct x eqn:?; try discriminate H
         | context [if ?x then _ else _] => destruct x eqn:?; try discriminate H
         end.

(* total length of the buffers of the first k elements *)
Fixpoint elems_len (l : list node) (k : nat) : Z :=
  match k, l with
  | S k', e :: r => zlen (node_buf e) + elems_len r k'
  | _, _ => 0
  end.
Definition total_len (l : list node) : Z := elems_len l (length l).

Lemma elems_len_app_exact a b : elems_len (a ++ b) (length a) = total_len a.
Proof. unfold total_len. induction a as [|x r IH]; cbn; [destruct b; reflexivity | rewrite IH; reflexivity]. Qed.

Lemma total_len_nonneg l : 0 <= total_len l.
Proof. unfold total_len. induction l as [|x r IH]; cbn; [lia | pose proof (zlen_nonneg (node_buf x)); lia]. Qed.

Lemma copy_elems_app fb off a b :
  copy_elems fb off (a ++ b) = (do b1 <- copy_elems fb off a; copy_elems b1 (off + total_len a) b).
Proof.
  revert fb off. induction a as [|x r IH]; intros fb off.
  - cbn [app copy_elems bind]. unfold total_len. cbn. rewrite Z.add_0_r. reflexivity.
  - cbn [app copy_elems]. destruct (zlen fb <? off + zlen (node_buf x)); [reflexivity|].
    rewrite IH. unfold total_len. cbn [length elems_len]. fold (total_len r).
    replace (off + zlen (node_buf x) + total_len r) with (off + (zlen (node_buf x) + total_len r)) by lia.
    reflexivity.
Qed.

Lemma copy_elems_len : forall l fb off b, 0 <= off -> copy_elems fb off l = Ok b -> zlen b = zlen fb.
Proof.
  induction l as [|x r IH]; intros fb off b Hoff H; cbn [copy_elems] in H.
  - inversion H; reflexivity.
  - destruct (zlen fb <? off + zlen (node_buf x)) eqn:E; [discriminate|].
    pose proof (zlen_nonneg (node_buf x)).
    rewrite (IH _ (off + zlen (node_buf x)) _ ltac:(lia) H). apply zlen_splice; lia.
Qed.

Lemma nth_error_splice_mid off d b i : 0 <= off -> off + zlen d <= zlen b ->
  off <= Z.of_nat i < off + zlen d ->
  nth_error (splice off d b) i = nth_error d (i - Z.to_nat off).
Proof.
  intros H1 H2 Hi. unfold splice.
  assert (L1 : length (zfirstn off b) = Z.to_nat off).
  { unfold zfirstn; rewrite firstn_length; unfold zlen in *; lia. }
  rewrite nth_error_app2 by (rewrite L1; lia). rewrite L1.
  rewrite nth_error_app1 by (unfold zlen in *; lia). reflexivity.
Qed.

Definition agree_outside (lo hi : Z) (a b : bytes) : Prop :=
  forall i : nat, (Z.of_nat i < lo \/ hi <= Z.of_nat i) -> nth_error a i = nth_error b i.

Lemma copy_elems_agree lo hi : forall l fb1 fb2 off b1 b2,
  zlen fb1 = zlen fb2 -> 0 <= off -> hi <= off -> agree_outside lo hi fb1 fb2 ->
  copy_elems fb1 off l = Ok b1 -> copy_elems fb2 off l = Ok b2 -> agree_outside lo hi b1 b2.
Proof.
  induction l as [|x r IH]; intros fb1 fb2 off b1 b2 Hl Hoff Hhi Ha H1 H2; cbn [copy_elems] in H1, H2.
  - inversion H1; inversion H2; subst. exact Ha.
  - destruct (zlen fb1 <? off + zlen (node_buf x)) eqn:E1; [discriminate|].
    destruct (zlen fb2 <? off + zlen (node_buf x)) eqn:E2; [discriminate|].
    pose proof (zlen_nonneg (node_buf x)) as Hx.
    assert (Hl' : zlen (splice off (node_buf x) fb1) = zlen (splice off (node_buf x) fb2))
      by (rewrite !zlen_splice by lia; exact Hl).
    assert (Ha' : agree_outside lo hi (splice off (node_buf x) fb1) (splice off (node_buf x) fb2)).
    { unfold agree_outside in *. intros i Hi.
      destruct (Z_lt_dec (Z.of_nat i) off) as [Hlo | Hge].
      - rewrite !nth_error_splice_lo by lia. apply Ha. exact Hi.
      - destruct (Z_lt_dec (Z.of_nat i) (off + zlen (node_buf x))) as [Hmid | Hhi2].
        + rewrite !nth_error_splice_mid by lia. reflexivity.
        + rewrite !nth_error_splice_hi by lia. apply Ha. exact Hi. }
    exact (IH _ _ (off + zlen (node_buf x)) b1 b2 Hl' ltac:(lia) ltac:(lia) Ha' H1 H2).
Qed.

Section Outside.
Variable enc : Z -> bytes -> option bytes.
Variable s2u : bytes -> bytes.

Lemma sec_asm_pol h buf kids st n' st' : sec_asm enc s2u h buf kids st = Ok (n', st') -> fst st' = fst st.
Proof.
  unfold sec_asm. destruct st as [pol f]. intros H.
  destruct kids as [|k kids].
  - apply bind_ok in H as (body & Hb & H). destruct body as [b|].
    + destruct (gen_sec_header h b). inversion H; reflexivity.
    + inversion H; reflexivity.
  - apply bind_ok in H as (body & Hb & H).
    destruct (gen_sec_header h body). inversion H; reflexivity.
Qed.

Lemma file_asm_pol h buf kids st n' st' : file_asm h buf kids st = Ok (n', st') -> fst st' = fst st.
Proof.
  unfold file_asm. destruct st as [pol f]. intros H.
  destruct kids as [|k kids]; destruct (f_nvar h);
    try (destruct (set_size _ _ _); destruct (checksum_and_assemble _ _ _ _));
    inversion H; reflexivity.
Qed.

Lemma vol_asm_v_pol h buf kids st n' st' : vol_asm h buf kids st = Ok (n', st') -> fst st' = fst st.
Proof.
  unfold vol_asm. destruct st as [pol f]. intros H.
  apply bind_ok in H as ([h' nb] & Hb & H). inversion H; reflexivity.
Qed.

Lemma asm_elems_v_pol_of l :
  Forall (fun n => forall st n' st', fst st <> 240 -> asm enc s2u n st = Ok (n', st') -> fst st' = fst st) l ->
  forall st l' st', fst st <> 240 -> asm_elems enc s2u l st = Ok (l', st') -> fst st' = fst st.
Proof.
  induction 1 as [|x r Hx Hr IH]; intros st l' st' Hp H; cbn [asm_elems] in H.
  - inversion H; reflexivity.
  - apply bind_ok in H as ([x' st1] & Ex & H). apply bind_ok in H as ([r' st2] & Er & H).
    inversion H; subst. pose proof (Hx _ _ _ Hp Ex) as E1.
    rewrite (IH st1 r' st') by (rewrite ?E1; auto). exact E1.
Qed.

Lemma asm_v_pol : forall n st n' st', fst st <> 240 ->
  asm enc s2u n st = Ok (n', st') -> fst st' = fst st.
Proof.
  induction n as [h buf kids IH | h buf kids IH | h buf kids IH | off buf] using node_ind';
    intros st n' st' Hp H.
  - rewrite asm_sec in H. apply bind_ok in H as ([kids' st1] & Ek & H).
    rewrite (sec_asm_pol _ _ _ _ _ _ H). eapply asm_elems_v_pol_of; eauto.
  - rewrite asm_file in H. apply bind_ok in H as ([kids' st1] & Ek & H).
    rewrite (file_asm_pol _ _ _ _ _ _ H). eapply asm_elems_v_pol_of; eauto.
  - rewrite asm_vol_eq in H.
    destruct (set_polarity (fst st) (fv_polarity (v_attrs h))) as [pol0|] eqn:Es; [|discriminate].
    apply set_polarity_keep in Es; auto. subst pol0.
    apply bind_ok in H as ([kids' st1] & Ek & H). apply bind_ok in H as ([n2 st2] & Ev & H).
    inversion H; subst. cbn [fst].
    rewrite (vol_asm_v_pol _ _ _ _ _ _ Ev).
    eapply (asm_elems_v_pol_of kids IH (fst st, false)); eauto.
  - cbn in H. inversion H; reflexivity.
Qed.

(* a volume or padding element hands the state on unchanged *)
Lemma asm_v_elem_state n st n' st' : fst st <> 240 -> is_voln n = true ->
  asm enc s2u n st = Ok (n', st') -> st' = st.
Proof.
  intros Hp Hv H. pose proof (asm_v_pol _ _ _ _ Hp H) as E.
  destruct n; try discriminate Hv. rewrite asm_vol_eq in H.
  destruct (set_polarity (fst st) (fv_polarity (v_attrs h))); [|discriminate].
  apply bind_ok in H as ([kids' st1] & Ek & H). apply bind_ok in H as ([n2 st2] & Ev & H).
  inversion H; subst. destruct st as [p f]. cbn [fst snd] in *. rewrite E. reflexivity.
Qed.

Lemma asm_elems_v_app a b st :
  asm_elems enc s2u (a ++ b) st =
  (do r1 <- asm_elems enc s2u a st; let '(a', st1) := r1 in
   do r2 <- asm_elems enc s2u b st1; let '(b', st2) := r2 in Ok (a' ++ b', st2)).
Proof.
  revert st. induction a as [|x r IH]; intros st.
  - cbn [app asm_elems bind]. destruct (asm_elems enc s2u b st) as [[b' st2]| | |]; reflexivity.
  - cbn [app asm_elems]. destruct (asm enc s2u x st) as [[x' st1]| | |]; cbn [bind]; try reflexivity.
    rewrite IH. destruct (asm_elems enc s2u r st1) as [[r' st2]| | |]; cbn [bind]; try reflexivity.
    destruct (asm_elems enc s2u b st2) as [[b' st3]| | |]; reflexivity.
Qed.

Lemma asm_elems_v_length l : forall st l' st', asm_elems enc s2u l st = Ok (l', st') -> length l' = length l.
Proof.
  induction l as [|x r IH]; intros st l' st' H; cbn [asm_elems] in H.
  - inversion H; reflexivity.
  - apply bind_ok in H as ([x' st1] & Ex & H). apply bind_ok in H as ([r' st2] & Er & H).
    inversion H; subst. cbn [length]. f_equal. eapply IH; eauto.
Qed.

Lemma asm_elems_v_pol l st l' st' : fst st <> 240 ->
  asm_elems enc s2u l st = Ok (l', st') -> fst st' = fst st.
Proof.
  intros Hp. apply asm_elems_v_pol_of; auto.
  apply Forall_forall. intros n _. apply asm_v_pol.
Qed.

(* the assembled form of the element [x] that follows [l1] *)
Definition asm_at (l1 : list node) (x : node) (st : ast) : node :=
  match asm_elems enc s2u l1 st with
  | Ok (_, st1) => match asm enc s2u x st1 with Ok (xa, _) => xa | _ => x end
  | _ => x
  end.

Lemma outside_untouched_lemma : forall l1 x x' l2 len pol ffs3 r r',
  pol <> 240 -> is_voln x = true -> is_voln x' = true ->
  asm_bios enc s2u (l1 ++ x :: l2) len (pol, ffs3) = Ok r ->
  asm_bios enc s2u (l1 ++ x' :: l2) len (pol, ffs3) = Ok r' ->
  zlen (node_buf (asm_at l1 x (pol, ffs3))) = zlen (node_buf (asm_at l1 x' (pol, ffs3))) ->
  let lo := elems_len (fst (fst r)) (length l1) in
  let hi := lo + zlen (node_buf (asm_at l1 x (pol, ffs3))) in
  forall i, (0 <= i < lo \/ hi <= i) ->
    nth_error (snd (fst r)) (Z.to_nat i) = nth_error (snd (fst r')) (Z.to_nat i).
Proof.
  intros l1 x x' l2 len pol ffs3 r r' Hp Hx Hx' H H' Hlen.
  unfold asm_bios in H, H'.
  apply bind_ok in H as ([es st1] & He & H). apply bind_ok in H' as ([es' st1'] & He' & H').
  rewrite asm_elems_v_app in He, He'.
  apply bind_ok in He as ([l1a sta] & E1 & He). apply bind_ok in He' as ([l1a' sta'] & E1' & He').
  rewrite E1 in E1'. inversion E1'; subst l1a' sta'. clear E1'.
  assert (Pa : fst sta = pol) by (apply (asm_elems_v_pol l1 (pol, ffs3) l1a sta Hp E1)).
  cbn [asm_elems] in He, He'.
  apply bind_ok in He as ([r2 st2] & He & Hr). apply bind_ok in He' as ([r2' st2'] & He' & Hr').
  apply bind_ok in He as ([xa stb] & Ex & He). apply bind_ok in He' as ([xa' stb'] & Ex' & He').
  assert (Hpa : fst sta <> 240) by (rewrite Pa; exact Hp).
  assert (Sb : stb = sta) by (exact (asm_v_elem_state x sta xa stb Hpa Hx Ex)).
  assert (Sb' : stb' = sta) by (exact (asm_v_elem_state x' sta xa' stb' Hpa Hx' Ex')).
  subst stb stb'.
  apply bind_ok in He as ([l2a stc] & E2 & He). apply bind_ok in He' as ([l2a' stc'] & E2' & He').
  rewrite E2 in E2'. inversion E2'; subst l2a' stc'. clear E2'.
  inversion He; inversion He'; subst r2 st2 r2' st2'. clear He He'.
  inversion Hr; inversion Hr'; subst es st1 es' st1'. clear Hr Hr'.
  assert (Pc : fst stc = pol).
  { assert (Hp2 : fst sta <> 240) by (rewrite Pa; exact Hp).
    rewrite (asm_elems_v_pol l2 sta l2a stc Hp2 E2). exact Pa. }
  (* the assembled elements *)
  assert (Ax : asm_at l1 x (pol, ffs3) = xa) by (unfold asm_at; rewrite E1, Ex; reflexivity).
  assert (Ax' : asm_at l1 x' (pol, ffs3) = xa') by (unfold asm_at; rewrite E1, Ex'; reflexivity).
  rewrite Ax, Ax' in Hlen. rewrite Ax.
  destruct (first_fv (l1a ++ xa :: l2a)) as [vh|]; [|discriminate].
  destruct (first_fv (l1a ++ xa' :: l2a)) as [vh'|]; [|discriminate].
  cbn [fst] in H, H'. rewrite Pc in H, H'.
  destruct (set_polarity pol (fv_polarity (v_attrs vh))) as [p|] eqn:Ep; [|discriminate].
  destruct (set_polarity pol (fv_polarity (v_attrs vh'))) as [p'|] eqn:Ep'; [|discriminate].
  apply set_polarity_keep in Ep; auto. apply set_polarity_keep in Ep'; auto. subst p p'.
  apply bind_ok in H as (b & Hc & H). apply bind_ok in H' as (b' & Hc' & H').
  inversion H; inversion H'; subst r r'. cbn [fst snd]. clear H H'.
  assert (El : length l1 = length l1a) by (symmetry; eapply asm_elems_v_length; eauto).
  rewrite El. rewrite elems_len_app_exact.
  cbv zeta. intros i Hi.
  rewrite copy_elems_app in Hc, Hc'.
  apply bind_ok in Hc as (c1 & Hc1 & Hc). apply bind_ok in Hc' as (c1' & Hc1' & Hc').
  rewrite Hc1 in Hc1'. inversion Hc1'; subst c1'. clear Hc1'.
  rewrite Z.add_0_l in Hc, Hc'.
  pose proof (total_len_nonneg l1a) as Hn.
  cbn [copy_elems] in Hc, Hc'.
  destruct (zlen c1 <? total_len l1a + zlen (node_buf xa)) eqn:F1; [discriminate|].
  destruct (zlen c1 <? total_len l1a + zlen (node_buf xa')) eqn:F2; [discriminate|].
  pose proof (zlen_nonneg (node_buf xa)) as Hxa.
  assert (Ag : agree_outside (total_len l1a) (total_len l1a + zlen (node_buf xa)) b b').
  rewrite <- Hlen in Hc'.
  { eapply (copy_elems_agree _ _ l2a); [| | | |exact Hc|exact Hc']; try lia.
    - rewrite !zlen_splice by lia. reflexivity.
    - unfold agree_outside. intros j Hj. destruct Hj as [Hj | Hj].
      + rewrite !nth_error_splice_lo by lia. reflexivity.
      + rewrite !nth_error_splice_hi by lia. reflexivity. }
  apply Ag. rewrite Z2Nat.id by lia. lia.
Qed.

End Outside.

(* ---------- resizable (nested) volumes: Go's bit-mask Align on a power-of-two block size ---------- *)

Lemma land_clear_low x k : 0 <= x < 2 ^ 64 -> 0 <= k <= 64 ->
  Z.land x (2 ^ 64 - 2 ^ k) = x - x mod 2 ^ k.
Proof.
  intros Hx Hk.
  assert (Em : 2 ^ 64 - 2 ^ k = Z.shiftl (Z.ones (64 - k)) k).
  { rewrite Z.shiftl_mul_pow2 by lia. rewrite Z.ones_equiv. unfold Z.pred.
    rewrite Z.mul_add_distr_r. rewrite <- Z.pow_add_r by lia. replace (64 - k + k) with 64 by lia. lia. }
  assert (Er : x - x mod 2 ^ k = Z.shiftl (Z.shiftr x k) k).
  { rewrite Z.shiftl_mul_pow2, Z.shiftr_div_pow2 by lia.
    pose proof (Z.div_mod x (2 ^ k) ltac:(apply Z.pow_nonzero; lia)). lia. }
  rewrite Em, Er. apply Z.bits_inj'. intros n Hn.
  rewrite Z.land_spec. rewrite !Z.shiftl_spec by lia.
  destruct (Z_lt_dec n k) as [Hlt | Hge].
  - rewrite (Z.testbit_neg_r _ (n - k)) by lia. rewrite (Z.testbit_neg_r _ (n - k)) by lia.
    apply andb_false_r.
  - rewrite Z.shiftr_spec by lia. replace (n - k + k) with n by lia.
    rewrite Z.testbit_ones by lia.
    destruct (Z_lt_dec n 64) as [H64 | H64].
    + replace ((0 <=? n - k) && (n - k <? 64 - k)) with true by lia. apply andb_true_r.
    + replace ((0 <=? n - k) && (n - k <? 64 - k)) with false by lia. rewrite andb_false_r.
      symmetry. apply Z.bits_above_log2; [lia|].
      destruct (Z.eq_dec x 0) as [-> | Hne]; [cbn; lia|].
      apply Z.log2_lt_pow2; [lia|]. apply Z.lt_le_trans with (2 ^ 64); [lia|].
      apply Z.pow_le_mono_r; lia.
Qed.

Lemma align_go_pow2 v k : 0 <= v -> 0 <= k < 64 -> v + 2 ^ k - 1 < 2 ^ 64 ->
  align_go v (2 ^ k) = align v (2 ^ k).
Proof.
  intros Hv Hk Hb. unfold align_go, align.
  assert (Hp : 0 < 2 ^ k) by (apply Z.pow_pos_nonneg; lia).
  assert (Hlt : 2 ^ k < 2 ^ 64) by (apply Z.pow_lt_mono_r; lia).
  rewrite (Z.mod_small (v + 2 ^ k - 1)) by lia.
  rewrite (Z.mod_small (2 ^ 64 - 2 ^ k)) by lia.
  rewrite land_clear_low by lia.
  pose proof (Z.div_mod (v + 2 ^ k - 1) (2 ^ k) ltac:(lia)). lia.
Qed.

Lemma div_mul_exact a p : 0 < p -> a mod p = 0 -> a / p * p = a.
Proof. intros Hp Hm. pose proof (Z.div_mod a p ltac:(lia)). lia. Qed.

(* the bytes of the block-map entries after the first, as Assemble adds them up (uint64) *)
Definition rest_bytes (rest : list (Z * Z)) : Z :=
  fold_left (fun a b => (a + fst b * snd b) mod U64) rest 0.

Lemma fold_blocks_range : forall rest a, 0 <= a < U64 ->
  0 <= fold_left (fun a b => (a + fst b * snd b) mod U64) rest a < U64.
Proof.
  induction rest as [|x r IH]; intros a Ha; cbn [fold_left]; [exact Ha|].
  apply IH. apply Z.mod_pos_bound. unfold U64. lia.
Qed.

(* a rebuilt resizable volume with a power-of-two block size: exactly Length bytes; Length is the
   old one or, when the files need more, the further block-map entries' bytes plus the rest
   rounded up to the first entry's block size, and the first block-map entry says so: the block
   map adds up to Length *)
Lemma asm_vol_v_len_resizable pol ffs3 h buf files h' b c k rest :
  asm_vol pol ffs3 h buf files = Ok (h', b) ->
  vol_verbatim h files = false -> v_resizable h = true ->
  v_blocks h = (c, 2 ^ k) :: rest -> 0 <= k < 64 -> 0 <= v_dataoff h ->
  end_of (v_dataoff h) files + 2 ^ k <= 2 ^ 64 ->
  zlen b = v_length h' /\
  ((v_length h' = v_length h /\ v_blocks h' = v_blocks h) \/
   (v_length h < v_length h' /\ end_of (v_dataoff h) files <= v_length h' /\
    v_length h' = rest_bytes rest + align (Z.max 0 (end_of (v_dataoff h) files - rest_bytes rest)) (2 ^ k) /\
    v_blocks h' = (((v_length h' - rest_bytes rest) / 2 ^ k) mod U32, 2 ^ k) :: rest /\
    (v_length h' - rest_bytes rest) / 2 ^ k * 2 ^ k + rest_bytes rest = v_length h')).
Proof.
  intros H Hv Hr Hb Hk Hd Hend. unfold asm_vol in H. fold (vol_verbatim h files) in H. rewrite Hv, Hr, Hb in H.
  assert (Hp : 0 < 2 ^ k) by (apply Z.pow_pos_nonneg; lia).
  destruct (v_length h <? zlen buf); [discriminate|].
  destruct (v_dataoff h <? v_hdrlen h) eqn:E1; [discriminate|].
  destruct (zlen buf <? v_dataoff h); [discriminate|].
  destruct (slice 0 (v_dataoff h) buf) as [hdr|] eqn:Esl; [|discriminate].
  cbn [of_opt bind] in H.
  apply bind_ok in H as (b1 & Hpl & H).
  apply slice_len in Esl as (Lh & _ & _). rewrite Z.sub_0_r in Lh.
  destruct (place_files_layout pol None files hdr (v_dataoff h) b1 Lh Hd Hpl) as (Le & _ & _ & _).
  cbn [negb andb] in H. rewrite andb_false_r in H.
  destruct (v_length h <? zlen b1) eqn:E2.
  - replace (2 ^ k =? 0) with false in H by lia.
    fold (rest_bytes rest) in H.
    set (rs := rest_bytes rest) in *.
    assert (Hrs : 0 <= rs < 2 ^ 64) by (apply fold_blocks_range; unfold U64; lia).
    assert (En : (if rs <? zlen b1 then zlen b1 - rs else 0) = Z.max 0 (zlen b1 - rs))
      by (destruct (rs <? zlen b1) eqn:E; lia).
    rewrite En in H. set (need := Z.max 0 (zlen b1 - rs)) in *.
    assert (Hal : align_go need (2 ^ k) = align need (2 ^ k)).
    { apply align_go_pow2; try lia. assert (2 ^ k < 2 ^ 64) by (apply Z.pow_lt_mono_r; lia). lia. }
    rewrite Hal in H.
    pose proof (align_ge need (2 ^ k) Hp) as Ga.
    pose proof (align_mult need (2 ^ k) Hp) as Gm.
    assert (Hn : need = Z.max 0 (zlen b1 - rs)) by reflexivity.
    assert (Hz : need = 0 -> align need (2 ^ k) = 0)
      by (intros ->; unfold align; rewrite Z.add_0_l, Z.div_small by lia; lia).
    assert (Hbound : rs + align need (2 ^ k) < 2 ^ 64).
    { destruct (Z.max_spec 0 (zlen b1 - rs)) as [[_ Em] | [_ Em]]; rewrite Em in Hn.
      - lia.
      - rewrite (Hz Hn). lia. }
    assert (Hl : (rs + align need (2 ^ k)) mod U64 = rs + align need (2 ^ k))
      by (apply Z.mod_small; unfold U64; lia).
    rewrite Hl in H. set (l := rs + align need (2 ^ k)) in *.
    assert (Hlr : (l - rs) mod U64 = l - rs) by (apply Z.mod_small; unfold U64; lia).
    rewrite Hlr in H. cbn [bind] in H.
    assert (Hge : zlen b1 <= l) by lia.
    set (b2 := if zlen b1 <? l then b1 ++ zrepeat pol (l - zlen b1) else b1) in *.
    assert (L2 : zlen b2 = l).
    { unfold b2. destruct (zlen b1 <? l) eqn:E; [rewrite zlen_app, zlen_zrepeat by lia; lia | lia]. }
    destruct (zlen b2 <? 40) eqn:E3; [discriminate|].
    set (b3 := splice 32 (le_enc 8 l) b2) in *.
    set (b4 := if ffs3 && bytes_eqb (v_guid h) FFS2 then splice 16 FFS3 b3 else b3) in *.
    assert (L3 : zlen b3 = zlen b2) by (apply zlen_splice; rewrite ?le8; lia).
    assert (L4 : zlen b4 = zlen b2).
    { unfold b4. destruct (ffs3 && bytes_eqb (v_guid h) FFS2); [|exact L3].
      rewrite zlen_splice; [exact L3 | lia | change (zlen FFS3) with 16; lia]. }
    destruct (zlen b4 <? 60) eqn:E4; [discriminate|].
    match type of H with context [slice 0 (v_hdrlen h) ?b6] => destruct (slice 0 (v_hdrlen h) b6) as [hb|]; [|discriminate] end.
    destruct (negb (Z.even (v_hdrlen h))); [discriminate|].
    match type of H with Ok (?hh, ?bb) = Ok _ =>
      assert (Eh : hh = h') by congruence; assert (Ebb : bb = b) by congruence end.
    rewrite <- Eh, <- Ebb. cbn [v_length v_blocks]. split.
    + clear Ga Gm Hz Hbound Hl Hlr Hal En Hn Hend Hge H Eh Ebb.
      rewrite zlen_splice; rewrite ?le2, ?zlen_splice; rewrite ?le4, ?L4; try lia;
        change (zlen [0; 0]) with 2; rewrite ?zlen_splice; rewrite ?le4, ?L4; lia.
    + right. rewrite <- Le. fold need. fold l.
      assert (Hd2 : (l - rs) / 2 ^ k * 2 ^ k = l - rs).
      { replace (l - rs) with (align need (2 ^ k)) by (unfold l; ring). apply div_mul_exact; assumption. }
      assert (Hlt : v_length h < l) by (clear - E2 Hge; lia).
      assert (Hrr : l - rs + rs = l) by ring.
      repeat split; auto. rewrite Hd2. exact Hrr.
  - cbn [bind] in H.
    set (b2 := if zlen b1 <? v_length h then b1 ++ zrepeat pol (v_length h - zlen b1) else b1) in *.
    assert (L2 : zlen b2 = v_length h).
    { unfold b2. destruct (zlen b1 <? v_length h) eqn:E; [rewrite zlen_app, zlen_zrepeat by lia; lia | lia]. }
    destruct (zlen b2 <? 40) eqn:E3; [discriminate|].
    set (b3 := splice 32 (le_enc 8 (v_length h)) b2) in *.
    set (b4 := if ffs3 && bytes_eqb (v_guid h) FFS2 then splice 16 FFS3 b3 else b3) in *.
    assert (L3 : zlen b3 = zlen b2) by (apply zlen_splice; rewrite ?le8; lia).
    assert (L4 : zlen b4 = zlen b2).
    { unfold b4. destruct (ffs3 && bytes_eqb (v_guid h) FFS2); [|exact L3].
      rewrite zlen_splice; [exact L3 | lia | change (zlen FFS3) with 16; lia]. }
    destruct (zlen b4 <? 60) eqn:E4; [discriminate|].
    match type of H with context [slice 0 (v_hdrlen h) ?b6] => destruct (slice 0 (v_hdrlen h) b6) as [hb|]; [|discriminate] end.
    destruct (negb (Z.even (v_hdrlen h))); [discriminate|].
    match type of H with Ok (?hh, ?bb) = Ok _ =>
      assert (Eh : hh = h') by congruence; assert (Ebb : bb = b) by congruence end.
    rewrite <- Eh, <- Ebb. cbn [v_length v_blocks]. split.
    + rewrite zlen_splice; rewrite ?le2, ?zlen_splice; rewrite ?le4, ?L4; try lia;
        change (zlen [0; 0]) with 2; rewrite ?zlen_splice; rewrite ?le4, ?L4; lia.
    + left. split; [reflexivity | symmetry; exact Hb].
Qed.
