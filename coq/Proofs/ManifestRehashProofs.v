(* Proofs/ManifestRehashProofs.v — Rehash (what WriteTo does to its receiver before
   writing): it changes no size or offset, keeps well-formedness, is idempotent,
   and stores the offsets it is asked to store. *)
From Coq Require Import ZifyBool ZifyNat.
From Fiano Require Import Base.Bytes Base.BytesLemmas Model.Manifest Proofs.ManifestProofs.
Open Scope Z_scope.

(* ---------- vnth / vset ---------- *)
Lemma vnth_vset_same : forall v i x y, vnth v i = Some x -> vnth (vset v i y) i = Some y.
Proof.
  induction v as [| | |h _ tl IH]; intros i x y H; destruct i; cbn [vnth] in H; try discriminate.
  - reflexivity.
  - cbn [vset vnth]. eapply IH; eauto.
Qed.

Lemma vnth_vset_other : forall v i j y, i <> j -> vnth (vset v i y) j = vnth v j.
Proof.
  induction v as [| | |h _ tl IH]; intros i j y N; destruct i, j; cbn [vset vnth]; try reflexivity; try lia.
  apply IH. lia.
Qed.

Lemma vset_same : forall v i y, vnth v i = Some y -> vset v i y = v.
Proof.
  induction v as [| | |h _ tl IH]; intros i y H; destruct i; cbn [vnth] in H; try discriminate.
  - inversion H; reflexivity.
  - cbn [vset]. f_equal. now apply IH.
Qed.

Lemma vset_none : forall v i y, vnth v i = None -> vset v i y = v.
Proof.
  induction v as [| | |h _ tl IH]; intros i y H; destruct i; cbn [vnth] in H; try discriminate; try reflexivity.
  cbn [vset]. f_equal. now apply IH.
Qed.

(* ---------- paths ---------- *)
Definition get_path (v : value) (p : list nat) : option value :=
  match p with
  | [i] => vnth v i
  | [i; j] => match vnth v i with Some sub => vnth sub j | None => None end
  | _ => None
  end.

Lemma get_set_same v p x y : get_path v p = Some x -> get_path (set_path v p y) p = Some y.
Proof.
  destruct p as [|i [|j [|k p]]]; cbn [get_path set_path]; intros H; try discriminate.
  - eapply vnth_vset_same; eauto.
  - destruct (vnth v i) as [sub|] eqn:E; [|discriminate].
    rewrite (vnth_vset_same _ _ _ _ E). eapply vnth_vset_same; eauto.
Qed.

Lemma set_get_id v p y : get_path v p = Some y -> set_path v p y = v.
Proof.
  destruct p as [|i [|j [|k p]]]; cbn [get_path set_path]; intros H; try discriminate.
  - now apply vset_same.
  - destruct (vnth v i) as [sub|] eqn:E; [|discriminate].
    rewrite (vset_same sub j y H). now apply vset_same.
Qed.

Lemma pdisj_sym p q : pdisj p q = pdisj q p.
Proof.
  destruct p as [|i [|j [|k p]]], q as [|i' [|j' [|k' q]]]; cbn [pdisj]; try reflexivity;
    rewrite ?(Nat.eqb_sym i i'), ?(Nat.eqb_sym j j'); reflexivity.
Qed.

Lemma get_set_other v p q y : pdisj p q = true -> get_path (set_path v p y) q = get_path v q.
Proof.
  destruct p as [|i [|j [|k p]]]; cbn [set_path]; try reflexivity; intros D.
  - (* p = [i] *)
    destruct q as [|i' [|j' [|k' q]]]; cbn [pdisj] in D; try discriminate; cbn [get_path];
      try reflexivity; apply negb_true_iff, Nat.eqb_neq in D.
    + now apply vnth_vset_other.
    + now rewrite vnth_vset_other.
  - (* p = [i; j] *)
    destruct (vnth v i) as [sub|] eqn:E; [|reflexivity].
    destruct q as [|i' [|j' [|k' q]]]; cbn [pdisj] in D; try discriminate; cbn [get_path]; try reflexivity.
    + apply negb_true_iff, Nat.eqb_neq in D. now apply vnth_vset_other.
    + destruct (Nat.eq_dec i i') as [<-|N].
      * rewrite (vnth_vset_same _ _ _ _ E), E.
        rewrite Nat.eqb_refl in D. cbn in D. apply negb_true_iff, Nat.eqb_neq in D.
        now apply vnth_vset_other.
      * now rewrite vnth_vset_other.
Qed.

(* ---------- a list of constant assignments ---------- *)
Definition cassign := (list nat * value)%type.
Definition run_cs (cs : list cassign) (v : value) : value :=
  fold_left (fun acc a => set_path acc (fst a) (snd a)) cs v.

Lemma run_cs_get_other : forall cs v p, forallb (fun a => pdisj p (fst a)) cs = true ->
  get_path (run_cs cs v) p = get_path v p.
Proof.
  induction cs as [|[q y] cs IH]; intros v p D; [reflexivity|].
  cbn [forallb fst] in D. apply andb_prop in D as [D1 D2].
  cbn [run_cs fold_left fst snd]. fold (run_cs cs (set_path v q y)).
  rewrite (IH _ _ D2). apply get_set_other. now rewrite pdisj_sym.
Qed.

Lemma run_cs_get : forall cs v, paths_disj (map fst cs) = true ->
  (forall a, In a cs -> get_path v (fst a) <> None) ->
  forall a, In a cs -> get_path (run_cs cs v) (fst a) = Some (snd a).
Proof.
  induction cs as [|[q y] cs IH]; intros v PD EX a I; [contradiction|].
  cbn [map fst paths_disj] in PD. apply andb_prop in PD as [PD1 PD2].
  cbn [run_cs fold_left fst snd]. fold (run_cs cs (set_path v q y)).
  destruct I as [<-|I].
  - cbn [fst snd]. rewrite run_cs_get_other.
    + destruct (get_path v q) as [x|] eqn:G.
      * eapply get_set_same; eauto.
      * exfalso. apply (EX (q, y)); [now left|exact G].
    + rewrite forallb_forall in *. intros b Ib. apply PD1. now apply in_map.
  - apply IH; auto. intros b Ib.
    rewrite get_set_other.
    + apply EX. now right.
    + rewrite forallb_forall in PD1. apply PD1. now apply in_map.
Qed.

Lemma run_cs_fix : forall cs v, (forall a, In a cs -> get_path v (fst a) = Some (snd a)) ->
  run_cs cs v = v.
Proof.
  induction cs as [|[q y] cs IH]; intros v H; [reflexivity|].
  cbn [run_cs fold_left fst snd]. fold (run_cs cs (set_path v q y)).
  rewrite (set_get_id v q y) by (apply (H (q, y)); now left).
  apply IH. intros a I. apply H. now right.
Qed.

Lemma run_cs_idem cs v : paths_disj (map fst cs) = true ->
  (forall a, In a cs -> get_path v (fst a) <> None) ->
  run_cs cs (run_cs cs v) = run_cs cs v.
Proof. intros PD EX. apply run_cs_fix. now apply run_cs_get. Qed.

(* apply_rh as a list of constant assignments *)
Definition consts_of (s : schema) (rh : rhspec) (v : value) : list cassign :=
  map (fun a => (rh_path a, VInt ((reval (rh_expr a) s v) mod wmax (rh_width a)))) rh.

Lemma apply_rh_cs s rh v : apply_rh s rh v = run_cs (consts_of s rh v) v.
Proof.
  unfold apply_rh, run_cs, consts_of.
  assert (G : forall acc,
    fold_left (fun acc0 a => set_path acc0 (rh_path a) (VInt (reval (rh_expr a) s v mod wmax (rh_width a)))) rh acc =
    fold_left (fun acc0 (a : cassign) => set_path acc0 (fst a) (snd a))
      (map (fun a => (rh_path a, VInt (reval (rh_expr a) s v mod wmax (rh_width a)))) rh) acc).
  { induction rh as [|a rh IH]; intros acc; [reflexivity|]. cbn [fold_left map fst snd]. apply IH. }
  apply G.
Qed.

(* ---------- replacing one field ---------- *)
Lemma size_vset_gen : forall i s v t x x', field_s s i = Some t -> vnth v i = Some x ->
  size_f t x' = size_f t x -> size_s s (vset v i x') = size_s s v.
Proof.
  induction i as [|i IH]; intros s v t x x' F X E; destruct s as [|nm t' rest]; cbn [field_s] in F;
    try discriminate; destruct v as [| | |y ys]; cbn [vnth] in X; try discriminate.
  - inversion F; inversion X; subst. cbn [vset size_s]. now rewrite E.
  - cbn [vset size_s]. now rewrite (IH rest ys t x x' F X E).
Qed.

Lemma offset_vset_gen : forall k i s v t x x', field_s s i = Some t -> vnth v i = Some x ->
  size_f t x' = size_f t x -> offset_s s (vset v i x') k = offset_s s v k.
Proof.
  induction k as [|k IHk]; intros i s v t x x' F X E; [reflexivity|].
  destruct s as [|nm t' rest]; cbn [field_s] in F; [destruct i; discriminate|].
  destruct v as [| | |y ys]; [destruct i; discriminate..|].
  destruct i as [|i]; cbn [field_s vnth] in F, X.
  - inversion F; inversion X; subst. cbn [vset offset_s]. now rewrite E.
  - cbn [vset offset_s]. now rewrite (IHk i rest ys t x x' F X E).
Qed.

Lemma no_counted_wf_f t en en' x :
  match t with FBytesC _ _ => False | _ => True end -> wf_f t en x = wf_f t en' x.
Proof. destruct t; intros H; try reflexivity; contradiction. Qed.

Lemma wf_s_env : forall s en en' v, no_counted s = true -> wf_s s en v = wf_s s en' v.
Proof.
  induction s as [|nm t rest IH]; intros en en' v NC; [reflexivity|].
  destruct v as [| | |x xs]; try reflexivity. cbn [wf_s].
  assert (T : match t with FBytesC _ _ => False | _ => True end /\ no_counted rest = true).
  { destruct t; cbn [no_counted] in NC; try discriminate; auto. }
  destruct T as [T NC'].
  rewrite (no_counted_wf_f t en en' x T), (IH (en ++ [x]) (en' ++ [x]) xs NC'). reflexivity.
Qed.

Lemma plain_no_counted : forall s, plain s = true -> no_counted s = true.
Proof.
  induction s as [|nm t rest IH]; [reflexivity|]. destruct t; cbn [plain no_counted]; auto; discriminate.
Qed.

Lemma wf_vset_gen : forall i s en v t x', no_counted s = true -> field_s s i = Some t ->
  wf_f t [] x' = true -> wf_s s en v = true -> wf_s s en (vset v i x') = true.
Proof.
  induction i as [|i IH]; intros s en v t x' NC F W' W; destruct s as [|nm t' rest]; cbn [field_s] in F;
    try discriminate; destruct v as [| | |y ys]; cbn [wf_s] in W; try discriminate;
    apply andb_prop in W as [W1 W2];
    assert (T : match t' with FBytesC _ _ => False | _ => True end /\ no_counted rest = true)
      by (destruct t'; cbn [no_counted] in NC; try discriminate; auto); destruct T as [T NC'].
  - inversion F; subst t'. cbn [vset wf_s].
    rewrite (no_counted_wf_f t en [] x' T), W', (wf_s_env rest _ (en ++ [y]) ys NC'), W2. reflexivity.
  - cbn [vset wf_s]. rewrite W1. cbn [andb]. eapply IH; eauto.
Qed.

Lemma wf_vnth : forall i s en v t, wf_s s en v = true -> field_s s i = Some t ->
  exists x en', vnth v i = Some x /\ wf_f t en' x = true.
Proof.
  induction i as [|i IH]; intros s en v t W F; destruct s as [|nm t' rest]; cbn [field_s] in F;
    try discriminate; destruct v as [| | |y ys]; cbn [wf_s] in W; try discriminate;
    apply andb_prop in W as [W1 W2].
  - inversion F; subst. exists y, en. split; auto.
  - cbn [vnth]. eapply IH; eauto.
Qed.

(* ---------- one assignment ---------- *)
Lemma assign_size s a v z : assign_ok s a = true ->
  size_s s (set_path v (rh_path a) (VInt z)) = size_s s v /\
  forall k, offset_s s (set_path v (rh_path a) (VInt z)) k = offset_s s v k.
Proof.
  unfold assign_ok. destruct (rh_path a) as [|i [|j [|k p]]]; try discriminate; cbn [set_path].
  - destruct (field_s s i) as [[w| | | | | |]|] eqn:F; try discriminate. intros _.
    destruct (vnth v i) as [x|] eqn:X.
    + split; [eapply size_vset_gen|intros k; eapply offset_vset_gen]; eauto.
    + rewrite (vset_none _ _ _ X). auto.
  - destruct (field_s s i) as [[| |s' rh'| | | |]|] eqn:F; try discriminate. intros H.
    apply andb_prop in H as [H H3]. apply andb_prop in H as [H1 H2].
    destruct (field_s s' j) as [[w| | | | | |]|] eqn:F'; try discriminate.
    destruct (vnth v i) as [sub|] eqn:X; [|auto].
    assert (E : size_f (FSub s' rh') (vset sub j (VInt z)) = size_f (FSub s' rh') sub).
    { cbn [size_f]. destruct (vnth sub j) as [y|] eqn:Y.
      - eapply size_vset_gen; eauto.
      - now rewrite (vset_none _ _ _ Y). }
    split; [eapply size_vset_gen|intros k; eapply offset_vset_gen]; eauto.
Qed.

Lemma assign_wf s a en v z : (no_counted s = true) -> assign_ok s a = true ->
  0 <= z < wmax (rh_width a) -> wf_s s en v = true ->
  wf_s s en (set_path v (rh_path a) (VInt z)) = true.
Proof.
  intros NC. unfold assign_ok. destruct (rh_path a) as [|i [|j [|k p]]]; try discriminate; cbn [set_path].
  - destruct (field_s s i) as [[w| | | | | |]|] eqn:F; try discriminate. intros E R W.
    apply Nat.eqb_eq in E. subst w. eapply wf_vset_gen; eauto. cbn [wf_f]. lia.
  - destruct (field_s s i) as [[| |s' rh'| | | |]|] eqn:F; try discriminate. intros H R W.
    apply andb_prop in H as [H H3]. apply andb_prop in H as [H1 H2].
    destruct (field_s s' j) as [[w| | | | | |]|] eqn:F'; try discriminate.
    apply Nat.eqb_eq in H3. subst w.
    destruct (vnth v i) as [sub|] eqn:X; [|auto].
    destruct (wf_vnth _ _ _ _ _ W F) as (x & en' & X' & Wx). rewrite X in X'. inversion X'; subst x.
    eapply wf_vset_gen; eauto. cbn [wf_f] in *.
    eapply wf_vset_gen; eauto; [now apply plain_no_counted|]. cbn [wf_f]. lia.
Qed.

Lemma assign_exists s a en v : assign_ok s a = true -> wf_s s en v = true ->
  get_path v (rh_path a) <> None.
Proof.
  unfold assign_ok. destruct (rh_path a) as [|i [|j [|k p]]]; try discriminate; cbn [get_path].
  - destruct (field_s s i) as [t|] eqn:F; try discriminate. intros _ W.
    destruct (wf_vnth _ _ _ _ _ W F) as (x & en' & X & _). now rewrite X.
  - destruct (field_s s i) as [[| |s' rh'| | | |]|] eqn:F; try discriminate. intros H W.
    apply andb_prop in H as [H H3].
    destruct (field_s s' j) as [t|] eqn:F'; try discriminate.
    destruct (wf_vnth _ _ _ _ _ W F) as (x & en' & X & Wx). rewrite X. cbn [wf_f] in Wx.
    destruct (wf_vnth _ _ _ _ _ Wx F') as (y & en'' & Y & _). now rewrite Y.
Qed.

(* ---------- this level's Rehash() ---------- *)
Lemma rh_ok_parts s rh : rh_ok s rh = true ->
  (rh <> [] -> no_counted s = true) /\ (forall a, In a rh -> assign_ok s a = true) /\
  paths_disj (map rh_path rh) = true.
Proof.
  unfold rh_ok. intros H. apply andb_prop in H as [H H3]. apply andb_prop in H as [H1 H2].
  split; [|split; auto].
  - intros N. destruct rh; [contradiction|exact H1].
  - now apply forallb_forall.
Qed.

Definition int_cs (s : schema) (cs : list cassign) : Prop :=
  forall c, In c cs -> exists a z, assign_ok s a = true /\ fst c = rh_path a /\ snd c = VInt z /\
                                 0 <= z < wmax (rh_width a).

Lemma int_cs_consts s rh v0 : (forall a, In a rh -> assign_ok s a = true) -> int_cs s (consts_of s rh v0).
Proof.
  intros AO c I. unfold consts_of in I. apply in_map_iff in I as (a & <- & Ia).
  exists a, (reval (rh_expr a) s v0 mod wmax (rh_width a)). repeat split; auto;
    apply Z.mod_pos_bound, wmax_pos.
Qed.

Lemma int_cs_tail s c cs : int_cs s (c :: cs) -> int_cs s cs.
Proof. intros H x I. apply H. now right. Qed.

Lemma run_cs_size s : forall cs v, int_cs s cs ->
  size_s s (run_cs cs v) = size_s s v /\ forall k, offset_s s (run_cs cs v) k = offset_s s v k.
Proof.
  induction cs as [|c cs IH]; intros v H; [auto|].
  cbn [run_cs fold_left]. fold (run_cs cs (set_path v (fst c) (snd c))).
  destruct (H c (or_introl eq_refl)) as (a & z & A & -> & -> & _).
  destruct (IH (set_path v (rh_path a) (VInt z)) (int_cs_tail _ _ _ H)) as [S O].
  destruct (assign_size s a v z A) as [S' O'].
  split; [now rewrite S|intros k; now rewrite O].
Qed.

Lemma run_cs_wf s : forall cs en v, no_counted s = true -> int_cs s cs -> wf_s s en v = true ->
  wf_s s en (run_cs cs v) = true.
Proof.
  induction cs as [|c cs IH]; intros en v NC H W; [auto|].
  cbn [run_cs fold_left]. fold (run_cs cs (set_path v (fst c) (snd c))).
  destruct (H c (or_introl eq_refl)) as (a & z & A & -> & -> & R).
  apply IH; auto; [eapply int_cs_tail; eauto|]. now apply assign_wf.
Qed.

Lemma apply_rh_size s rh v : rh_ok s rh = true ->
  size_s s (apply_rh s rh v) = size_s s v /\ forall k, offset_s s (apply_rh s rh v) k = offset_s s v k.
Proof.
  intros OK. destruct (rh_ok_parts _ _ OK) as (_ & AO & _). rewrite apply_rh_cs.
  apply run_cs_size. now apply int_cs_consts.
Qed.

Lemma apply_rh_wf s rh en v : rh_ok s rh = true -> wf_s s en v = true ->
  wf_s s en (apply_rh s rh v) = true.
Proof.
  intros OK W. destruct (rh_ok_parts _ _ OK) as (NC & AO & _). rewrite apply_rh_cs.
  destruct rh as [|a rh]; [exact W|].
  apply run_cs_wf; auto; [apply NC; discriminate|now apply int_cs_consts].
Qed.

Lemma consts_of_ext s rh v v' : size_s s v' = size_s s v -> (forall k, offset_s s v' k = offset_s s v k) ->
  consts_of s rh v' = consts_of s rh v.
Proof.
  intros S O. unfold consts_of. apply map_ext. intros a. f_equal. f_equal. f_equal.
  destruct (rh_expr a); cbn [reval]; auto.
Qed.

Lemma map_fst_consts s rh v : map fst (consts_of s rh v) = map rh_path rh.
Proof. unfold consts_of. rewrite map_map. reflexivity. Qed.

Lemma apply_rh_idem s rh en v : rh_ok s rh = true -> wf_s s en v = true ->
  apply_rh s rh (apply_rh s rh v) = apply_rh s rh v.
Proof.
  intros OK W. destruct (rh_ok_parts _ _ OK) as (NC & AO & PD).
  destruct (apply_rh_size s rh v OK) as [S O].
  rewrite (apply_rh_cs s rh (apply_rh s rh v)), (consts_of_ext _ _ _ _ S O), (apply_rh_cs s rh v).
  apply run_cs_idem; [now rewrite map_fst_consts|].
  intros c I. unfold consts_of in I. apply in_map_iff in I as (a & <- & Ia). cbn [fst].
  eapply assign_exists; eauto.
Qed.

(* the values Rehash() stores *)
Lemma apply_rh_stored s rh en v a : rh_ok s rh = true -> wf_s s en v = true -> In a rh ->
  get_path (apply_rh s rh v) (rh_path a) = Some (VInt ((reval (rh_expr a) s v) mod wmax (rh_width a))).
Proof.
  intros OK W I. destruct (rh_ok_parts _ _ OK) as (NC & AO & PD). rewrite apply_rh_cs.
  apply (run_cs_get (consts_of s rh v) v) with
    (a := (rh_path a, VInt ((reval (rh_expr a) s v) mod wmax (rh_width a)))).
  - now rewrite map_fst_consts.
  - intros c Ic. unfold consts_of in Ic. apply in_map_iff in Ic as (a' & <- & Ia'). cbn [fst].
    eapply assign_exists; eauto.
  - unfold consts_of. apply in_map_iff. exists a. auto.
Qed.

(* ---------- the nested WriteTo calls (deep rehash) ---------- *)
Definition rehash_list (s : schema) (rh : rhspec) : value -> value :=
  fix go (l : value) : value :=
    match l with
    | VCons x xs => VCons (rehash_s s (apply_rh s rh x)) (go xs)
    | _ => l
    end.

Lemma rehash_f_list cw s rh v : rehash_f (FList cw s rh) v = rehash_list s rh v.
Proof. reflexivity. Qed.

Lemma vlen_rehash_list s rh : forall l, vlen (rehash_list s rh l) = vlen l.
Proof. induction l as [| | |x _ xs IH]; try reflexivity. cbn [rehash_list vlen]. fold (rehash_list s rh). now rewrite IH. Qed.

Lemma rh_ok_s_cons nm t rest : rh_ok_s (SCons nm t rest) = true -> rh_ok_f t = true /\ rh_ok_s rest = true.
Proof. cbn [rh_ok_s]. intros H. now apply andb_prop in H. Qed.

Lemma size_rehash_mut :
  (forall s, rh_ok_s s = true -> forall v, size_s s (rehash_s s v) = size_s s v) /\
  (forall t, rh_ok_f t = true -> forall x, size_f t (rehash_f t x) = size_f t x).
Proof.
  apply schema_fty_ind.
  - intros _ v. reflexivity.
  - intros nm t IHt rest IHr OK v. apply rh_ok_s_cons in OK as [O1 O2].
    destruct v as [| | |x xs]; try reflexivity. cbn [rehash_s size_s]. now rewrite (IHt O1), (IHr O2).
  - reflexivity.
  - reflexivity.
  - intros s IH rh OK x. cbn [rh_ok_f] in OK. apply andb_prop in OK as [O1 O2].
    cbn [rehash_f size_f]. rewrite (IH O2). apply (apply_rh_size s rh x O1).
  - intros cw s IH rh OK x. cbn [rh_ok_f] in OK. apply andb_prop in OK as [O1 O2].
    rewrite rehash_f_list, !size_f_list. f_equal.
    induction x as [| | |y _ ys IHy]; try reflexivity.
    cbn [rehash_list size_list]. fold (rehash_list s rh) (size_list s).
    rewrite IHy, (IH O2). now rewrite (proj1 (apply_rh_size s rh y O1)).
  - intros cw w _ x. reflexivity.
  - reflexivity.
  - reflexivity.
Qed.

Lemma size_rehash_s s v : rh_ok_s s = true -> size_s s (rehash_s s v) = size_s s v.
Proof. intros OK. now apply (proj1 size_rehash_mut). Qed.

Lemma offset_rehash_s : forall k s v, rh_ok_s s = true -> offset_s s (rehash_s s v) k = offset_s s v k.
Proof.
  induction k as [|k IH]; intros s v OK; [reflexivity|].
  destruct s as [|nm t rest]; [reflexivity|]. apply rh_ok_s_cons in OK as [O1 O2].
  destruct v as [| | |x xs]; try reflexivity.
  cbn [rehash_s offset_s]. now rewrite (proj2 size_rehash_mut t O1), (IH rest xs O2).
Qed.

(* integer-ness of a field value is all a count expression can see *)
Definition vint (v : value) : option Z := match v with VInt z => Some z | _ => None end.

Lemma ceval_sim e : forall en en', map vint en = map vint en' -> ceval e en = ceval e en'.
Proof.
  induction e; intros en en' H; cbn [ceval]; try reflexivity;
    try (rewrite (IHe1 _ _ H), (IHe2 _ _ H); reflexivity);
    try (rewrite (IHe _ _ H); reflexivity).
  - assert (E : option_map vint (nth_error en i) = option_map vint (nth_error en' i)).
    { rewrite <- !nth_error_map. now rewrite H. }
    destruct (nth_error en i) as [[z| | |]|], (nth_error en' i) as [[z'| | |]|]; cbn in E; try discriminate; auto.
    now inversion E.
  - rewrite (IHe1 _ _ H), (IHe2 _ _ H), (IHe3 _ _ H). reflexivity.
Qed.

Lemma wf_s_sim : forall s en en' v, map vint en = map vint en' -> wf_s s en v = wf_s s en' v.
Proof.
  induction s as [|nm t rest IH]; intros en en' v H; [reflexivity|].
  destruct v as [| | |x xs]; try reflexivity. cbn [wf_s].
  rewrite (IH (en ++ [x]) (en' ++ [x]) xs) by (rewrite !map_app; now rewrite H).
  f_equal. destruct t; try reflexivity. cbn [wf_f]. destruct x; try reflexivity.
  now rewrite (ceval_sim e en en' H).
Qed.

Lemma vint_vset v i y : vint (vset v i y) = vint v.
Proof. destruct v, i; reflexivity. Qed.

Lemma vint_set_path v p y : vint (set_path v p y) = vint v.
Proof.
  destruct p as [|i [|j [|k p]]]; cbn [set_path]; try reflexivity.
  - apply vint_vset.
  - destruct (vnth v i); [apply vint_vset|reflexivity].
Qed.

Lemma vint_run_cs : forall cs v, vint (run_cs cs v) = vint v.
Proof.
  induction cs as [|c cs IH]; intros v; [reflexivity|]. cbn [run_cs fold_left].
  fold (run_cs cs (set_path v (fst c) (snd c))). now rewrite IH, vint_set_path.
Qed.

Lemma vint_rehash_s s v : vint (rehash_s s v) = vint v.
Proof. destruct s, v; reflexivity. Qed.

Lemma vint_rehash_f t x : vint (rehash_f t x) = vint x.
Proof.
  destruct t; try reflexivity.
  - cbn [rehash_f]. now rewrite vint_rehash_s, apply_rh_cs, vint_run_cs.
  - rewrite rehash_f_list. destruct x; reflexivity.
Qed.

Lemma wf_rehash_mut :
  (forall s, rh_ok_s s = true -> forall en v, wf_s s en v = true -> wf_s s en (rehash_s s v) = true) /\
  (forall t, rh_ok_f t = true -> forall en x, wf_f t en x = true -> wf_f t en (rehash_f t x) = true).
Proof.
  apply schema_fty_ind.
  - intros _ en v W. exact W.
  - intros nm t IHt rest IHr OK en v W. apply rh_ok_s_cons in OK as [O1 O2].
    destruct v as [| | |x xs]; cbn [wf_s] in W; try discriminate. apply andb_prop in W as [W1 W2].
    cbn [rehash_s wf_s]. rewrite (IHt O1 _ _ W1). cbn [andb].
    rewrite (wf_s_sim rest (en ++ [rehash_f t x]) (en ++ [x])).
    + now apply IHr.
    + rewrite !map_app. cbn [map]. now rewrite vint_rehash_f.
  - intros w _ en x W. exact W.
  - intros n _ en x W. exact W.
  - intros s IH rh OK en x W. cbn [rh_ok_f] in OK. apply andb_prop in OK as [O1 O2].
    cbn [wf_f] in W. cbn [rehash_f wf_f]. apply (IH O2). now apply apply_rh_wf.
  - intros cw s IH rh OK en x W. cbn [rh_ok_f] in OK. apply andb_prop in OK as [O1 O2].
    rewrite wf_f_list in W. apply andb_prop in W as [W1 W2].
    rewrite rehash_f_list, wf_f_list, vlen_rehash_list, W1. cbn [andb].
    induction x as [| | |y _ ys IHy]; cbn [wf_list] in W2; try discriminate; [reflexivity|].
    apply andb_prop in W2 as [Wy Wys].
    cbn [rehash_list wf_list]. fold (rehash_list s rh) (wf_list s).
    rewrite (IH O2 _ _ (apply_rh_wf s rh [] y O1 Wy)). cbn [andb]. apply IHy; auto.
    cbn [vlen] in W1. pose proof (vlen_nonneg ys). lia.
  - intros cw w _ en x W. exact W.
  - intros cw _ en x W. exact W.
  - intros cw e _ en x W. exact W.
Qed.

Lemma wf_rehash_s s en v : rh_ok_s s = true -> wf_s s en v = true -> wf_s s en (rehash_s s v) = true.
Proof. intros OK. now apply (proj1 wf_rehash_mut). Qed.

(* ---------- this level's assignments commute with the nested rehash ---------- *)
Lemma rehash_s_vset : forall i s v t x', field_s s i = Some t ->
  rehash_s s (vset v i x') = vset (rehash_s s v) i (rehash_f t x').
Proof.
  induction i as [|i IH]; intros s v t x' F; destruct s as [|nm t' rest]; cbn [field_s] in F;
    try discriminate; destruct v as [| | |y ys]; try reflexivity.
  - inversion F; subst. reflexivity.
  - cbn [vset rehash_s]. now rewrite (IH rest ys t x' F).
Qed.

Lemma vnth_rehash_s : forall i s v t, field_s s i = Some t ->
  vnth (rehash_s s v) i = option_map (rehash_f t) (vnth v i).
Proof.
  induction i as [|i IH]; intros s v t F; destruct s as [|nm t' rest]; cbn [field_s] in F;
    try discriminate; destruct v as [| | |y ys]; try reflexivity.
  - inversion F; subst. reflexivity.
  - cbn [rehash_s vnth]. now apply IH.
Qed.

Lemma plain_rehash_s : forall s v, plain s = true -> rehash_s s v = v.
Proof.
  induction s as [|nm t rest IH]; intros v P; [reflexivity|].
  destruct v as [| | |x xs]; try reflexivity.
  destruct t; cbn [plain] in P; try discriminate; cbn [rehash_s rehash_f]; now rewrite IH.
Qed.

Lemma assign_commute s a v z : assign_ok s a = true ->
  rehash_s s (set_path v (rh_path a) (VInt z)) = set_path (rehash_s s v) (rh_path a) (VInt z).
Proof.
  unfold assign_ok. destruct (rh_path a) as [|i [|j [|k p]]]; try discriminate; cbn [set_path].
  - destruct (field_s s i) as [[w| | | | | |]|] eqn:F; try discriminate. intros _.
    now rewrite (rehash_s_vset _ _ _ _ _ F).
  - destruct (field_s s i) as [[| |s' rh'| | | |]|] eqn:F; try discriminate. intros H.
    apply andb_prop in H as [H H3]. apply andb_prop in H as [H1 H2].
    destruct rh'; try discriminate.
    assert (Id : forall u, rehash_f (FSub s' []) u = u).
    { intros u. cbn [rehash_f]. unfold apply_rh. cbn [fold_left]. now apply plain_rehash_s. }
    rewrite (vnth_rehash_s _ _ _ _ F).
    destruct (vnth v i) as [sub|]; cbn [option_map]; [|reflexivity].
    now rewrite (rehash_s_vset _ _ _ _ _ F), !Id.
Qed.

Lemma run_cs_commute s : forall cs v, int_cs s cs ->
  rehash_s s (run_cs cs v) = run_cs cs (rehash_s s v).
Proof.
  induction cs as [|c cs IH]; intros v H; [reflexivity|].
  cbn [run_cs fold_left]. fold (run_cs cs (set_path v (fst c) (snd c)))
    (run_cs cs (set_path (rehash_s s v) (fst c) (snd c))).
  destruct (H c (or_introl eq_refl)) as (a & z & A & -> & -> & _).
  rewrite (IH _ (int_cs_tail _ _ _ H)). now rewrite assign_commute.
Qed.

Lemma apply_rh_commute s rh v : rh_ok s rh = true -> rh_ok_s s = true ->
  rehash_s s (apply_rh s rh v) = apply_rh s rh (rehash_s s v).
Proof.
  intros OK OKs. destruct (rh_ok_parts _ _ OK) as (_ & AO & _).
  rewrite (apply_rh_cs s rh (rehash_s s v)).
  rewrite (consts_of_ext s rh v (rehash_s s v)) by
    (try (intros k; now apply offset_rehash_s); now apply size_rehash_s).
  rewrite apply_rh_cs. apply run_cs_commute. now apply int_cs_consts.
Qed.

Lemma rehash_idem_mut :
  (forall s, rh_ok_s s = true -> forall en v, wf_s s en v = true ->
     rehash_s s (rehash_s s v) = rehash_s s v) /\
  (forall t, rh_ok_f t = true -> forall en x, wf_f t en x = true ->
     rehash_f t (rehash_f t x) = rehash_f t x).
Proof.
  apply schema_fty_ind.
  - intros _ en v W. reflexivity.
  - intros nm t IHt rest IHr OK en v W. apply rh_ok_s_cons in OK as [O1 O2].
    destruct v as [| | |x xs]; cbn [wf_s] in W; try discriminate. apply andb_prop in W as [W1 W2].
    cbn [rehash_s]. now rewrite (IHt O1 _ _ W1), (IHr O2 _ _ W2).
  - reflexivity.
  - reflexivity.
  - intros s IH rh OK en x W. cbn [rh_ok_f] in OK. apply andb_prop in OK as [O1 O2]. cbn [wf_f] in W.
    cbn [rehash_f]. rewrite <- (apply_rh_commute s rh (apply_rh s rh x) O1 O2).
    rewrite (apply_rh_idem s rh [] x O1 W).
    apply (IH O2 []). now apply apply_rh_wf.
  - intros cw s IH rh OK en x W. cbn [rh_ok_f] in OK. apply andb_prop in OK as [O1 O2].
    rewrite wf_f_list in W. apply andb_prop in W as [_ W].
    rewrite !rehash_f_list.
    induction x as [| | |y _ ys IHy]; cbn [wf_list] in W; try discriminate; [reflexivity|].
    apply andb_prop in W as [Wy Wys].
    cbn [rehash_list]. fold (rehash_list s rh). rewrite (IHy Wys). f_equal.
    rewrite <- (apply_rh_commute s rh (apply_rh s rh y) O1 O2).
    rewrite (apply_rh_idem s rh [] y O1 Wy).
    apply (IH O2 []). now apply apply_rh_wf.
  - reflexivity.
  - reflexivity.
  - reflexivity.
Qed.

(* ---------- the structure-level statements ---------- *)
Lemma sdesc_ok_parts d : sdesc_ok d = true -> rh_ok (sd_schema d) (sd_rh d) = true /\ rh_ok_s (sd_schema d) = true.
Proof. unfold sdesc_ok. intros H. now apply andb_prop in H. Qed.

Theorem rehash_size d v : sdesc_ok d = true -> total_size d (rehash d v) = total_size d v.
Proof.
  intros OK. destruct (sdesc_ok_parts d OK) as [O1 O2]. unfold total_size, rehash.
  rewrite size_rehash_s by exact O2. apply (apply_rh_size _ _ v O1).
Qed.

Theorem rehash_offsets d v i : sdesc_ok d = true -> offset_of d (rehash d v) i = offset_of d v i.
Proof.
  intros OK. destruct (sdesc_ok_parts d OK) as [O1 O2]. unfold offset_of, rehash.
  rewrite offset_rehash_s by exact O2. apply (apply_rh_size _ _ v O1).
Qed.

Theorem rehash_wf d v : sdesc_ok d = true -> wf d v = true -> wf d (rehash d v) = true.
Proof.
  intros OK W. destruct (sdesc_ok_parts d OK) as [O1 O2]. unfold wf, rehash in *.
  apply wf_rehash_s; auto. now apply apply_rh_wf.
Qed.

Theorem rehash_idem d v : sdesc_ok d = true -> wf d v = true -> rehash d (rehash d v) = rehash d v.
Proof.
  intros OK W. destruct (sdesc_ok_parts d OK) as [O1 O2]. unfold wf, rehash in *.
  rewrite <- (apply_rh_commute _ _ (apply_rh (sd_schema d) (sd_rh d) v) O1 O2).
  rewrite (apply_rh_idem _ _ [] v O1 W).
  apply (proj1 rehash_idem_mut _ O2 []). now apply apply_rh_wf.
Qed.

Lemma get_path_rehash_s s a v : assign_ok s a = true ->
  get_path (rehash_s s v) (rh_path a) = get_path v (rh_path a).
Proof.
  unfold assign_ok. destruct (rh_path a) as [|i [|j [|k p]]]; try discriminate; cbn [get_path].
  - destruct (field_s s i) as [[w| | | | | |]|] eqn:F; try discriminate. intros _.
    rewrite (vnth_rehash_s _ _ _ _ F). destruct (vnth v i); reflexivity.
  - destruct (field_s s i) as [[| |s' rh'| | | |]|] eqn:F; try discriminate. intros H.
    apply andb_prop in H as [H H3]. apply andb_prop in H as [H1 H2]. destruct rh'; try discriminate.
    rewrite (vnth_rehash_s _ _ _ _ F). destruct (vnth v i) as [sub|]; cbn [option_map]; [|reflexivity].
    cbn [rehash_f]. unfold apply_rh. cbn [fold_left]. now rewrite plain_rehash_s.
Qed.

(* what Rehash stores: the field named by an assignment holds, after WriteTo's
   rehash, the value of its expression on the WRITTEN value *)
Theorem rehash_stored d v a : sdesc_ok d = true -> wf d v = true -> In a (sd_rh d) ->
  get_path (rehash d v) (rh_path a) =
  Some (VInt ((reval (rh_expr a) (sd_schema d) (rehash d v)) mod wmax (rh_width a))).
Proof.
  intros OK W I. destruct (sdesc_ok_parts d OK) as [O1 O2].
  destruct (rh_ok_parts _ _ O1) as (_ & AO & _).
  assert (E : reval (rh_expr a) (sd_schema d) (rehash d v) = reval (rh_expr a) (sd_schema d) v).
  { destruct (rh_expr a); cbn [reval]; auto.
    - apply (rehash_size d v OK).
    - apply (rehash_offsets d v i OK). }
  rewrite E. unfold rehash. rewrite (get_path_rehash_s _ _ _ (AO a I)).
  now apply (apply_rh_stored _ _ [] v a O1 W I).
Qed.

(* ---------- WriteTo / ReadFrom at the level of a structure ---------- *)
Theorem write_read d v r : sdesc_ok d = true -> wf d v = true ->
  read d (snd (write d v) ++ r) = Some (fst (write d v), r).
Proof.
  intros OK W. unfold write, read. cbn [fst snd]. apply codec_roundtrip_s. now apply rehash_wf.
Qed.

Theorem read_write_same_bytes d v : sdesc_ok d = true -> wf d v = true ->
  forall v1 b1, write d v = (v1, b1) ->
  read d b1 = Some (v1, []) /\ write d v1 = (v1, b1).
Proof.
  intros OK W v1 b1 E. unfold write in E. inversion E; subst v1 b1. clear E. split.
  - rewrite <- (app_nil_r (enc_s _ _)). apply codec_roundtrip_s. now apply rehash_wf.
  - unfold write. now rewrite (rehash_idem d v OK W).
Qed.

Theorem write_size d v : sdesc_ok d = true -> wf d v = true ->
  zlen (snd (write d v)) = total_size d v /\ total_size d (fst (write d v)) = total_size d v.
Proof.
  intros OK W. unfold write. cbn [fst snd]. split.
  - rewrite (codec_size_s _ [] _ (rehash_wf d v OK W)). apply (rehash_size d v OK).
  - apply (rehash_size d v OK).
Qed.

Theorem codec_roundtrip d v r : wf d v = true -> read d (enc_s (sd_schema d) v ++ r) = Some (v, r).
Proof. apply codec_roundtrip_s. Qed.

Theorem codec_reencode d b v r : bytes_ok b = true -> read d b = Some (v, r) ->
  enc_s (sd_schema d) v ++ r = b /\ wf d v = true /\ zlen b - zlen r = total_size d v.
Proof.
  intros B D. destruct (codec_reencode_s _ _ _ _ _ B D) as (E & W & _).
  repeat split; auto. now apply (codec_consumed_s _ [] b v r).
Qed.

Theorem codec_size d v : wf d v = true -> zlen (enc_s (sd_schema d) v) = total_size d v.
Proof. apply codec_size_s. Qed.

Theorem codec_offsets d v i : wf d v = true ->
  offset_of d v i = zlen (enc_s (prefix_s (sd_schema d) i) v).
Proof. apply codec_offsets_s. Qed.

Theorem codec_field_position d v i t x : wf d v = true ->
  field_s (sd_schema d) i = Some t -> vnth v i = Some x ->
  sub (offset_of d v i) (size_f t x) (enc_s (sd_schema d) v) = enc_f t x.
Proof. apply codec_field_at_offset. Qed.

Lemma prefix_len_le : forall k s en u, wf_s s en u = true ->
  zlen (enc_s (prefix_s s k) u) <= zlen (enc_s s u).
Proof.
  induction k as [|k IH]; intros s en u W.
  - destruct s; cbn [prefix_s enc_s]; unfold zlen; cbn [length]; lia.
  - destruct s as [|nm t' rest]; [cbn [prefix_s enc_s]; lia|].
    destruct u as [| | |y ys]; cbn [wf_s] in W; try discriminate. apply andb_prop in W as [W1 W2].
    cbn [prefix_s enc_s]. rewrite !zlen_app. specialize (IH rest _ ys W2). lia.
Qed.

(* a stored offset field points at its target in the bytes WriteTo produces *)
Theorem stored_offset_points_at_field d v a k t : sdesc_ok d = true -> wf d v = true ->
  In a (sd_rh d) -> rh_expr a = XOffsetOf k -> field_s (sd_schema d) k = Some t ->
  total_size d v < wmax (rh_width a) ->
  forall v1 b1, write d v = (v1, b1) ->
  exists o x, get_path v1 (rh_path a) = Some (VInt o) /\ vnth v1 k = Some x /\
              o = offset_of d v1 k /\ sub o (size_f t x) b1 = enc_f t x.
Proof.
  intros OK W I E F L v1 b1 Wr. unfold write in Wr. inversion Wr; subst v1 b1. clear Wr.
  pose proof (rehash_wf d v OK W) as W1.
  pose proof (rehash_stored d v a OK W I) as S. rewrite E in S. cbn [reval] in S.
  destruct (wf_vnth _ _ _ _ _ W1 F) as (x & en' & X & _).
  assert (Ob : 0 <= offset_s (sd_schema d) (rehash d v) k <= total_size d v).
  { change (offset_s (sd_schema d) (rehash d v) k) with (offset_of d (rehash d v) k).
    rewrite (codec_offsets d _ k W1), <- (rehash_size d v OK), <- (codec_size d _ W1).
    split; [apply zlen_nonneg|]. now apply (prefix_len_le k _ [] _ W1). }
  exists (offset_s (sd_schema d) (rehash d v) k), x. repeat split; auto.
  - rewrite S. f_equal. f_equal. apply Z.mod_small. lia.
  - now apply (codec_field_position d _ k t x W1 F X).
Qed.
