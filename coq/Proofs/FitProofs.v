(* Proofs/FitProofs.v — lemmas about Model/Fit.v (property C14). *)
From Fiano Require Import Base.Bytes Base.BytesLemmas Gen.Consts Model.Fit.
From Coq Require Import ZifyBool ZifyNat.
Open Scope Z_scope.

(* ================= machine integers ================= *)

Lemma w64_range x : 0 <= w64 x < 2 ^ 64.
Proof. unfold w64. apply Z.mod_pos_bound. lia. Qed.

Lemma w64_small x : 0 <= x < 2 ^ 64 -> w64 x = x.
Proof. intros. unfold w64. apply Z.mod_small; lia. Qed.

Lemma w64_decomp x : exists k, w64 x = x + k * 2 ^ 64.
Proof.
  exists (- (x / 2 ^ 64)). unfold w64.
  pose proof (Z.div_mod x (2 ^ 64) ltac:(lia)). lia.
Qed.

Lemma w64_shift x k : w64 (x + k * 2 ^ 64) = w64 x.
Proof. unfold w64. apply Z_mod_plus_full. Qed.

Lemma w32_small x : 0 <= x < 2 ^ 32 -> w32 x = x.
Proof. intros. unfold w32. apply Z.mod_small; lia. Qed.

Lemma s64_small x : 0 <= x < 2 ^ 63 -> s64 x = x.
Proof. intros. unfold s64. replace (x <? 2 ^ 63) with true by lia. reflexivity. Qed.

(* ================= calc_offset.go ================= *)

(* for arbitrary uint64 values the two conversions are mutually inverse modulo 2^64 *)
Lemma offset_phys_u64 off size : 0 <= off < 2 ^ 64 ->
  offset_of_phys (phys_of_offset off size) size = off.
Proof.
  intros H. unfold offset_of_phys, phys_of_offset.
  destruct (w64_decomp (fit_base_phys_addr - size)) as [k1 E1]. rewrite E1.
  destruct (w64_decomp (fit_base_phys_addr - size + k1 * 2 ^ 64 + off)) as [k2 E2]. rewrite E2.
  replace (fit_base_phys_addr - size + k1 * 2 ^ 64 + off + k2 * 2 ^ 64 -
           (fit_base_phys_addr - size + k1 * 2 ^ 64)) with (off + k2 * 2 ^ 64) by ring.
  rewrite w64_shift. apply w64_small; auto.
Qed.

Lemma phys_offset_u64 addr size : 0 <= addr < 2 ^ 64 ->
  phys_of_offset (offset_of_phys addr size) size = addr.
Proof.
  intros H. unfold offset_of_phys, phys_of_offset.
  destruct (w64_decomp (fit_base_phys_addr - size)) as [k1 E1]. rewrite E1.
  destruct (w64_decomp (addr - (fit_base_phys_addr - size + k1 * 2 ^ 64))) as [k2 E2]. rewrite E2.
  replace (fit_base_phys_addr - size + k1 * 2 ^ 64 +
           (addr - (fit_base_phys_addr - size + k1 * 2 ^ 64) + k2 * 2 ^ 64))
    with (addr + k2 * 2 ^ 64) by ring.
  rewrite w64_shift. apply w64_small; auto.
Qed.

(* the table start recovered from the pointer *)
Lemma tail_start_u64 off size : 0 <= off < 2 ^ 64 ->
  w64 (size - tail_offset_of_phys (phys_of_offset off size)) = off.
Proof.
  intros H. unfold tail_offset_of_phys, phys_of_offset.
  destruct (w64_decomp (fit_base_phys_addr - size)) as [k1 E1]. rewrite E1.
  destruct (w64_decomp (fit_base_phys_addr - size + k1 * 2 ^ 64 + off)) as [k2 E2]. rewrite E2.
  destruct (w64_decomp (fit_base_phys_addr -
              (fit_base_phys_addr - size + k1 * 2 ^ 64 + off + k2 * 2 ^ 64))) as [k3 E3]. rewrite E3.
  replace (size - (fit_base_phys_addr -
              (fit_base_phys_addr - size + k1 * 2 ^ 64 + off + k2 * 2 ^ 64) + k3 * 2 ^ 64))
    with (off + (k1 + k2 - k3) * 2 ^ 64) by ring.
  rewrite w64_shift. apply w64_small; auto.
Qed.

Lemma base_eq : fit_base_phys_addr = 2 ^ 32.
Proof. reflexivity. Qed.

(* inside an image that ends at 4 GiB nothing wraps: plain arithmetic *)
Theorem addr_offset_inside off size : 0 <= off < size -> size <= fit_base_phys_addr ->
  phys_of_offset off size = fit_base_phys_addr - size + off /\
  fit_base_phys_addr - size <= phys_of_offset off size < fit_base_phys_addr /\
  offset_of_phys (phys_of_offset off size) size = off /\
  tail_offset_of_phys (phys_of_offset off size) = size - off.
Proof.
  intros H1 H2. rewrite base_eq in *.
  assert (E : phys_of_offset off size = 2 ^ 32 - size + off).
  { unfold phys_of_offset. rewrite base_eq. rewrite (w64_small (2 ^ 32 - size)) by lia.
    apply w64_small. lia. }
  split; [exact E|]. split; [lia|]. split.
  - apply offset_phys_u64. lia.
  - rewrite E. unfold tail_offset_of_phys. rewrite base_eq. rewrite w64_small by lia. lia.
Qed.

Theorem offset_addr_inside addr size : 0 < size <= fit_base_phys_addr ->
  fit_base_phys_addr - size <= addr < fit_base_phys_addr ->
  offset_of_phys addr size = addr - (fit_base_phys_addr - size) /\
  0 <= offset_of_phys addr size < size /\
  phys_of_offset (offset_of_phys addr size) size = addr /\
  tail_offset_of_phys addr = size - offset_of_phys addr size.
Proof.
  intros H1 H2. rewrite base_eq in *.
  assert (E : offset_of_phys addr size = addr - (2 ^ 32 - size)).
  { unfold offset_of_phys. rewrite base_eq. rewrite (w64_small (2 ^ 32 - size)) by lia.
    apply w64_small. lia. }
  split; [exact E|]. split; [lia|]. split.
  - apply phys_offset_u64. lia.
  - rewrite E. unfold tail_offset_of_phys. rewrite base_eq. rewrite w64_small by lia. lia.
Qed.

(* ================= finite-domain helper ================= *)

Definition zrange (n : nat) : list Z := map Z.of_nat (seq 0 n).

Lemma in_zrange n x : 0 <= x < Z.of_nat n -> In x (zrange n).
Proof.
  intros H. unfold zrange. apply in_map_iff. exists (Z.to_nat x). split; [lia|].
  apply in_seq. lia.
Qed.

Lemma forall_zrange (P : Z -> bool) n :
  forallb P (zrange n) = true -> forall x, 0 <= x < Z.of_nat n -> P x = true.
Proof. intros H x Hx. rewrite forallb_forall in H. apply H. apply in_zrange; auto. Qed.

(* ================= TypeAndIsChecksumValid ================= *)

Definition tc_check1 (tc : Z) : bool :=
  (0 <=? tc_type tc) && (tc_type tc <? 128) &&
  (tc_type (tc_set_cv tc true) =? tc_type tc) && (tc_type (tc_set_cv tc false) =? tc_type tc) &&
  tc_cv (tc_set_cv tc true) && negb (tc_cv (tc_set_cv tc false)) &&
  (0 <=? tc_set_cv tc true) && (tc_set_cv tc true <? 256) &&
  (0 <=? tc_set_cv tc false) && (tc_set_cv tc false <? 256) &&
  (tc =? tc_type tc + (if tc_cv tc then 128 else 0)).

Lemma tc_check1_all : forallb tc_check1 (zrange 256) = true.
Proof. vm_compute. reflexivity. Qed.

Definition tc_check2 (tc t : Z) : bool :=
  match tc_set_type tc t with
  | Ok x => (tc_type x =? t) && Bool.eqb (tc_cv x) (tc_cv tc) && (0 <=? x) && (x <? 256)
  | _ => false
  end.

Lemma tc_check2_all :
  forallb (fun tc => forallb (tc_check2 tc) (zrange 128)) (zrange 256) = true.
Proof. vm_compute. reflexivity. Qed.

Lemma tc_type_range tc : 0 <= tc < 256 -> 0 <= tc_type tc < 128.
Proof.
  intros H. pose proof (forall_zrange _ _ tc_check1_all tc ltac:(simpl; lia)) as C.
  unfold tc_check1 in C. repeat (apply andb_true_iff in C as [C ?]). lia.
Qed.

Lemma tc_set_cv_spec tc b : 0 <= tc < 256 ->
  tc_type (tc_set_cv tc b) = tc_type tc /\ tc_cv (tc_set_cv tc b) = b /\
  0 <= tc_set_cv tc b < 256.
Proof.
  intros H. pose proof (forall_zrange _ _ tc_check1_all tc ltac:(simpl; lia)) as C.
  unfold tc_check1 in C. repeat (apply andb_true_iff in C as [C ?]).
  destruct b; repeat split; try lia; auto.
  all: destruct (tc_cv (tc_set_cv tc false)); auto; discriminate.
Qed.

Lemma tc_set_type_spec tc t : 0 <= tc < 256 -> 0 <= t < 128 ->
  exists x, tc_set_type tc t = Ok x /\ tc_type x = t /\ tc_cv x = tc_cv tc /\ 0 <= x < 256.
Proof.
  intros H Ht. pose proof (forall_zrange _ _ tc_check2_all tc ltac:(simpl; lia)) as C.
  cbv beta in C. pose proof (forall_zrange _ _ C t ltac:(simpl; lia)) as D.
  unfold tc_check2 in D. destruct (tc_set_type tc t) as [x| | |]; try discriminate.
  exists x. repeat (apply andb_true_iff in D as [D ?]).
  repeat split; try lia. apply eqb_prop; auto.
Qed.

Lemma tc_set_type_panics tc t : 128 <= t < 256 -> tc_set_type tc t = Panic 2.
Proof.
  intros H. unfold tc_set_type.
  assert (E : Z.land t 127 <> t).
  { intros E. assert (B : 0 <= Z.land t 127 < 128).
    { change 127 with (Z.ones 7). rewrite Z.land_ones by lia. apply Z.mod_pos_bound. lia. }
    lia. }
  apply Z.eqb_neq in E. rewrite E. reflexivity.
Qed.

(* ================= Uint24 ================= *)

Lemma le_dec_app_zero a : le_dec (a ++ [0]) = le_dec a.
Proof. induction a as [|x a IH]; [reflexivity|]. cbn [app le_dec]. rewrite IH. reflexivity. Qed.

Lemma zfirstn_all {A} (l : list A) n : zlen l <= n -> zfirstn n l = l.
Proof. intros H. unfold zfirstn. apply firstn_all2. unfold zlen in H. lia. Qed.

Lemma u24_get_le v : zlen v = 3 -> u24_get v = le_dec v.
Proof. intros H. unfold u24_get. rewrite zfirstn_all by lia. apply le_dec_app_zero. Qed.

Lemma u24_set_enc v : 0 <= v < 2 ^ 24 -> u24_set v = Ok (le_enc 3 v).
Proof.
  intros H. unfold u24_set. replace (2 ^ 24 <=? v) with false by lia.
  f_equal.
Qed.

Theorem u24_set_get v : 0 <= v < 2 ^ 24 ->
  exists b, u24_set v = Ok b /\ zlen b = 3 /\ bytes_ok b = true /\ u24_get b = v.
Proof.
  intros H. exists (le_enc 3 v). split; [apply u24_set_enc; auto|].
  split; [apply (zlen_le_enc 3)|]. split; [apply le_enc_ok|].
  rewrite u24_get_le by apply (zlen_le_enc 3). apply le_dec_enc. simpl; lia.
Qed.

Lemma u24_get_range b : zlen b = 3 -> bytes_ok b = true -> 0 <= u24_get b < 2 ^ 24.
Proof.
  intros L OK. rewrite u24_get_le by auto. pose proof (le_dec_bound b OK) as B. rewrite L in B.
  change (256 ^ 3) with (2 ^ 24) in B. exact B.
Qed.

Theorem u24_get_set b : zlen b = 3 -> bytes_ok b = true -> u24_set (u24_get b) = Ok b.
Proof.
  intros L OK. pose proof (u24_get_range b L OK) as R.
  rewrite u24_set_enc by auto. rewrite u24_get_le by auto. f_equal.
  assert (E : length b = 3%nat) by (unfold zlen in L; lia).
  rewrite <- E. apply le_enc_dec; auto.
Qed.

Theorem u24_set_panics v : 2 ^ 24 <= v -> u24_set v = Panic 1.
Proof. intros H. unfold u24_set. replace (2 ^ 24 <=? v) with true by lia. reflexivity. Qed.

(* ================= header codec ================= *)

Lemma wf_hdr_spec h : wf_hdr h = true ->
  0 <= h_addr h < 2 ^ 64 /\ bytes_ok (h_size h) = true /\ zlen (h_size h) = 3 /\
  0 <= h_rsvd h < 256 /\ 0 <= h_ver h < 2 ^ 16 /\ 0 <= h_tc h < 256 /\ 0 <= h_cksum h < 256.
Proof.
  unfold wf_hdr. intros H. repeat (apply andb_true_iff in H as [H ?]).
  repeat split; try lia; auto.
Qed.

Lemma wf_hdr_intro a s r v t c :
  0 <= a < 2 ^ 64 -> bytes_ok s = true -> zlen s = 3 -> 0 <= r < 256 -> 0 <= v < 2 ^ 16 ->
  0 <= t < 256 -> 0 <= c < 256 -> wf_hdr (mkHdr a s r v t c) = true.
Proof.
  intros. unfold wf_hdr; cbn [h_addr h_size h_rsvd h_ver h_tc h_cksum].
  rewrite H0. repeat (apply andb_true_iff; split); lia.
Qed.

Lemma zlen_enc_hdr h : wf_hdr h = true -> zlen (enc_hdr h) = hdr_len.
Proof.
  intros W. apply wf_hdr_spec in W as (_ & _ & L & _).
  unfold enc_hdr. rewrite !zlen_app, le8, le2, !le1, L. reflexivity.
Qed.

Lemma hsz_range h : wf_hdr h = true -> 0 <= hsz h < 2 ^ 24.
Proof.
  intros W. apply wf_hdr_spec in W as (_ & OK & L & _). apply u24_get_range; auto.
Qed.

Lemma dec_enc_hdr h r : wf_hdr h = true -> dec_hdr (enc_hdr h ++ r) = Some h.
Proof.
  intros W. pose proof (zlen_enc_hdr h W) as L.
  apply wf_hdr_spec in W as (A & SO & SL & R & V & T & C).
  unfold dec_hdr. rewrite zlen_app, L. pose proof (zlen_nonneg r).
  replace (hdr_len + zlen r <? hdr_len) with false by lia.
  destruct h as [addr sz rs ver tc ck]; cbn [h_addr h_size h_rsvd h_ver h_tc h_cksum] in *.
  unfold enc_hdr; cbn [h_addr h_size h_rsvd h_ver h_tc h_cksum].
  rewrite <- !app_assoc. f_equal. f_equal.
  - rewrite rd_app_here by apply le8. apply le_dec_enc. simpl; lia.
  - rewrite (sub_app_skip _ _ 8 3 8) by (try apply le8; lia). simpl Z.sub.
    apply sub_app_here; auto.
  - rewrite (rd_app_skip _ _ 11 1 8) by (try apply le8; lia). simpl Z.sub.
    rewrite (rd_app_skip _ _ 3 1 3) by (auto; lia). simpl Z.sub.
    rewrite rd_app_here by apply le1. apply le_dec_enc. simpl; lia.
  - rewrite (rd_app_skip _ _ 12 2 8) by (try apply le8; lia). simpl Z.sub.
    rewrite (rd_app_skip _ _ 4 2 3) by (auto; lia). simpl Z.sub.
    rewrite (rd_app_skip _ _ 1 2 1) by (try apply le1; lia). simpl Z.sub.
    rewrite rd_app_here by apply le2. apply le_dec_enc. simpl; lia.
  - rewrite (rd_app_skip _ _ 14 1 8) by (try apply le8; lia). simpl Z.sub.
    rewrite (rd_app_skip _ _ 6 1 3) by (auto; lia). simpl Z.sub.
    rewrite (rd_app_skip _ _ 3 1 1) by (try apply le1; lia). simpl Z.sub.
    rewrite (rd_app_skip _ _ 2 1 2) by (try apply le2; lia). simpl Z.sub.
    rewrite rd_app_here by apply le1. apply le_dec_enc. simpl; lia.
  - rewrite (rd_app_skip _ _ 15 1 8) by (try apply le8; lia). simpl Z.sub.
    rewrite (rd_app_skip _ _ 7 1 3) by (auto; lia). simpl Z.sub.
    rewrite (rd_app_skip _ _ 4 1 1) by (try apply le1; lia). simpl Z.sub.
    rewrite (rd_app_skip _ _ 3 1 2) by (try apply le2; lia). simpl Z.sub.
    rewrite (rd_app_skip _ _ 1 1 1) by (try apply le1; lia). simpl Z.sub.
    rewrite rd_app_here by apply le1. apply le_dec_enc. simpl; lia.
Qed.

Lemma dec_hdr_wf b h : bytes_ok b = true -> dec_hdr b = Some h -> wf_hdr h = true.
Proof.
  intros OK D. unfold dec_hdr in D. destruct (zlen b <? hdr_len) eqn:E; [discriminate|].
  injection D as <-. unfold hdr_len, fit_entry_headers_size in E.
  assert (B : forall off w, 0 <= off -> off + Z.of_nat w <= zlen b ->
              0 <= rd off w b < 256 ^ Z.of_nat w).
  { intros off w H1 H2. unfold rd.
    pose proof (le_dec_bound (sub off (Z.of_nat w) b) (bytes_ok_sub _ _ _ OK)) as Bd.
    rewrite zlen_sub in Bd by lia. exact Bd. }
  apply wf_hdr_intro.
  - pose proof (B 0 8%nat ltac:(lia) ltac:(simpl; lia)) as X. simpl in X. lia.
  - apply bytes_ok_sub; auto.
  - apply zlen_sub; lia.
  - pose proof (B 11 1%nat ltac:(lia) ltac:(simpl; lia)) as X. simpl in X. lia.
  - pose proof (B 12 2%nat ltac:(lia) ltac:(simpl; lia)) as X. simpl in X. lia.
  - pose proof (B 14 1%nat ltac:(lia) ltac:(simpl; lia)) as X. simpl in X. lia.
  - pose proof (B 15 1%nat ltac:(lia) ltac:(simpl; lia)) as X. simpl in X. lia.
Qed.

Lemma enc_dec_hdr b h : bytes_ok b = true -> dec_hdr b = Some h ->
  enc_hdr h = zfirstn hdr_len b.
Proof.
  intros OK D. unfold dec_hdr in D. destruct (zlen b <? hdr_len) eqn:E; [discriminate|].
  injection D as <-. unfold enc_hdr; cbn [h_addr h_size h_rsvd h_ver h_tc h_cksum].
  unfold rd. unfold hdr_len, fit_entry_headers_size in *.
  assert (EE : forall off w, 0 <= off -> off + Z.of_nat w <= zlen b ->
            le_enc w (le_dec (sub off (Z.of_nat w) b)) = sub off (Z.of_nat w) b).
  { intros off w H1 H2.
    assert (Hl : length (sub off (Z.of_nat w) b) = w).
    { pose proof (zlen_sub off (Z.of_nat w) b ltac:(lia) ltac:(lia) ltac:(lia)) as Hl.
      unfold zlen in Hl. lia. }
    rewrite <- Hl at 1. apply le_enc_dec. apply bytes_ok_sub; auto. }
  rewrite (EE 0 8%nat), (EE 11 1%nat), (EE 12 2%nat), (EE 14 1%nat), (EE 15 1%nat) by (simpl; lia).
  clear EE. unfold sub.
  change (Z.of_nat 1) with 1. change (Z.of_nat 2) with 2. change (Z.of_nat 8) with 8.
  glue b 14 1 1. glue b 12 2 2. glue b 11 1 4. glue b 8 3 5. glue b 0 8 8.
  reflexivity.
Qed.
