(* Proofs/FitProofs.v — lemmas about Model/Fit.v (property C14). *)
From Fiano Require Import Base.Bytes Base.BytesLemmas Gen.Consts Model.Fit.
From Coq Require Import ZifyBool ZifyNat.
Open Scope Z_scope.

(* ================= machine integers ================= *)

Lemma w64_range x : 0 <= w64 x < 2 ^ 64.
Proof. unfold w64. apply Z.mod_pos_bound. lia. Qed.

Lemma w64_small x : 0 <= x < 2 ^ 64 -> w64 x = x.
Proof. intros. unfold w64. apply Z.mod_small; lia. Qed.

Lemma w64_decomp x : exists k, w64 x = x + k * 2 ^ 64.
Proof.
  exists (- (x / 2 ^ 64)). unfold w64.
  pose proof (Z.div_mod x (2 ^ 64) ltac:(lia)). lia.
Qed.

Lemma w64_shift x k : w64 (x + k * 2 ^ 64) = w64 x.
Proof. unfold w64. apply Z_mod_plus_full. Qed.

Lemma w32_small x : 0 <= x < 2 ^ 32 -> w32 x = x.
Proof. intros. unfold w32. apply Z.mod_small; lia. Qed.

Lemma s64_small x : 0 <= x < 2 ^ 63 -> s64 x = x.
Proof. intros. unfold s64. replace (x <? 2 ^ 63) with true by lia. reflexivity. Qed.

(* ================= calc_offset.go ================= *)

(* for arbitrary uint64 values the two conversions are mutually inverse modulo 2^64 *)
Lemma offset_phys_u64 off size : 0 <= off < 2 ^ 64 ->
  offset_of_phys (phys_of_offset off size) size = off.
Proof.
  intros H. unfold offset_of_phys, phys_of_offset.
  destruct (w64_decomp (fit_base_phys_addr - size)) as [k1 E1]. rewrite E1.
  destruct (w64_decomp (fit_base_phys_addr - size + k1 * 2 ^ 64 + off)) as [k2 E2]. rewrite E2.
  replace (fit_base_phys_addr - size + k1 * 2 ^ 64 + off + k2 * 2 ^ 64 -
           (fit_base_phys_addr - size + k1 * 2 ^ 64)) with (off + k2 * 2 ^ 64) by ring.
  rewrite w64_shift. apply w64_small; auto.
Qed.

Lemma phys_offset_u64 addr size : 0 <= addr < 2 ^ 64 ->
  phys_of_offset (offset_of_phys addr size) size = addr.
Proof.
  intros H. unfold offset_of_phys, phys_of_offset.
  destruct (w64_decomp (fit_base_phys_addr - size)) as [k1 E1]. rewrite E1.
  destruct (w64_decomp (addr - (fit_base_phys_addr - size + k1 * 2 ^ 64))) as [k2 E2]. rewrite E2.
  replace (fit_base_phys_addr - size + k1 * 2 ^ 64 +
           (addr - (fit_base_phys_addr - size + k1 * 2 ^ 64) + k2 * 2 ^ 64))
    with (addr + k2 * 2 ^ 64) by ring.
  rewrite w64_shift. apply w64_small; auto.
Qed.

(* the table start recovered from the pointer *)
Lemma tail_start_u64 off size : 0 <= off < 2 ^ 64 ->
  w64 (size - tail_offset_of_phys (phys_of_offset off size)) = off.
Proof.
  intros H. unfold tail_offset_of_phys, phys_of_offset.
  destruct (w64_decomp (fit_base_phys_addr - size)) as [k1 E1]. rewrite E1.
  destruct (w64_decomp (fit_base_phys_addr - size + k1 * 2 ^ 64 + off)) as [k2 E2]. rewrite E2.
  destruct (w64_decomp (fit_base_phys_addr -
              (fit_base_phys_addr - size + k1 * 2 ^ 64 + off + k2 * 2 ^ 64))) as [k3 E3]. rewrite E3.
  replace (size - (fit_base_phys_addr -
              (fit_base_phys_addr - size + k1 * 2 ^ 64 + off + k2 * 2 ^ 64) + k3 * 2 ^ 64))
    with (off + (k1 + k2 - k3) * 2 ^ 64) by ring.
  rewrite w64_shift. apply w64_small; auto.
Qed.

Lemma base_eq : fit_base_phys_addr = 2 ^ 32.
Proof. reflexivity. Qed.

(* inside an image that ends at 4 GiB nothing wraps: plain arithmetic *)
Theorem addr_offset_inside off size : 0 <= off < size -> size <= fit_base_phys_addr ->
  phys_of_offset off size = fit_base_phys_addr - size + off /\
  fit_base_phys_addr - size <= phys_of_offset off size < fit_base_phys_addr /\
  offset_of_phys (phys_of_offset off size) size = off /\
  tail_offset_of_phys (phys_of_offset off size) = size - off.
Proof.
  intros H1 H2. rewrite base_eq in *.
  assert (E : phys_of_offset off size = 2 ^ 32 - size + off).
  { unfold phys_of_offset. rewrite base_eq. rewrite (w64_small (2 ^ 32 - size)) by lia.
    apply w64_small. lia. }
  split; [exact E|]. split; [lia|]. split.
  - apply offset_phys_u64. lia.
  - rewrite E. unfold tail_offset_of_phys. rewrite base_eq. rewrite w64_small by lia. lia.
Qed.

Theorem offset_addr_inside addr size : 0 < size <= fit_base_phys_addr ->
  fit_base_phys_addr - size <= addr < fit_base_phys_addr ->
  offset_of_phys addr size = addr - (fit_base_phys_addr - size) /\
  0 <= offset_of_phys addr size < size /\
  phys_of_offset (offset_of_phys addr size) size = addr /\
  tail_offset_of_phys addr = size - offset_of_phys addr size.
Proof.
  intros H1 H2. rewrite base_eq in *.
  assert (E : offset_of_phys addr size = addr - (2 ^ 32 - size)).
  { unfold offset_of_phys. rewrite base_eq. rewrite (w64_small (2 ^ 32 - size)) by lia.
    apply w64_small. lia. }
  split; [exact E|]. split; [lia|]. split.
  - apply phys_offset_u64. lia.
  - rewrite E. unfold tail_offset_of_phys. rewrite base_eq. rewrite w64_small by lia. lia.
Qed.

(* ================= finite-domain helper ================= *)

Definition zrange (n : nat) : list Z := map Z.of_nat (seq 0 n).

Lemma in_zrange n x : 0 <= x < Z.of_nat n -> In x (zrange n).
Proof.
  intros H. unfold zrange. apply in_map_iff. exists (Z.to_nat x). split; [lia|].
  apply in_seq. lia.
Qed.

Lemma forall_zrange (P : Z -> bool) n :
  forallb P (zrange n) = true -> forall x, 0 <= x < Z.of_nat n -> P x = true.
Proof. intros H x Hx. rewrite forallb_forall in H. apply H. apply in_zrange; auto. Qed.

(* ================= TypeAndIsChecksumValid ================= *)

Definition tc_check1 (tc : Z) : bool :=
  (0 <=? tc_type tc) && (tc_type tc <? 128) &&
  (tc_type (tc_set_cv tc true) =? tc_type tc) && (tc_type (tc_set_cv tc false) =? tc_type tc) &&
  tc_cv (tc_set_cv tc true) && negb (tc_cv (tc_set_cv tc false)) &&
  (0 <=? tc_set_cv tc true) && (tc_set_cv tc true <? 256) &&
  (0 <=? tc_set_cv tc false) && (tc_set_cv tc false <? 256) &&
  (tc =? tc_type tc + (if tc_cv tc then 128 else 0)).

Lemma tc_check1_all : forallb tc_check1 (zrange 256) = true.
Proof. vm_compute. reflexivity. Qed.

Definition tc_check2 (tc t : Z) : bool :=
  match tc_set_type tc t with
  | Ok x => (tc_type x =? t) && Bool.eqb (tc_cv x) (tc_cv tc) && (0 <=? x) && (x <? 256)
  | _ => false
  end.

Lemma tc_check2_all :
  forallb (fun tc => forallb (tc_check2 tc) (zrange 128)) (zrange 256) = true.
Proof. vm_compute. reflexivity. Qed.

Lemma tc_type_range tc : 0 <= tc < 256 -> 0 <= tc_type tc < 128.
Proof.
  intros H. pose proof (forall_zrange _ _ tc_check1_all tc ltac:(simpl; lia)) as C.
  unfold tc_check1 in C. repeat (apply andb_true_iff in C as [C ?]). lia.
Qed.

Lemma tc_set_cv_spec tc b : 0 <= tc < 256 ->
  tc_type (tc_set_cv tc b) = tc_type tc /\ tc_cv (tc_set_cv tc b) = b /\
  0 <= tc_set_cv tc b < 256.
Proof.
  intros H. pose proof (forall_zrange _ _ tc_check1_all tc ltac:(simpl; lia)) as C.
  unfold tc_check1 in C. repeat (apply andb_true_iff in C as [C ?]).
  destruct b; repeat split; try lia; auto.
  all: destruct (tc_cv (tc_set_cv tc false)); auto; discriminate.
Qed.

Lemma tc_set_type_spec tc t : 0 <= tc < 256 -> 0 <= t < 128 ->
  exists x, tc_set_type tc t = Ok x /\ tc_type x = t /\ tc_cv x = tc_cv tc /\ 0 <= x < 256.
Proof.
  intros H Ht. pose proof (forall_zrange _ _ tc_check2_all tc ltac:(simpl; lia)) as C.
  cbv beta in C. pose proof (forall_zrange _ _ C t ltac:(simpl; lia)) as D.
  unfold tc_check2 in D. destruct (tc_set_type tc t) as [x| | |]; try discriminate.
  exists x. repeat (apply andb_true_iff in D as [D ?]).
  repeat split; try lia. all: try (apply eqb_prop; auto).
Qed.

Lemma tc_set_type_panics tc t : 128 <= t < 256 -> tc_set_type tc t = Panic 2.
Proof.
  intros H. unfold tc_set_type.
  assert (E : Z.land t 127 <> t).
  { intros E. assert (B : 0 <= Z.land t 127 < 128).
    { change 127 with (Z.ones 7). rewrite Z.land_ones by lia. apply Z.mod_pos_bound. lia. }
    lia. }
  apply Z.eqb_neq in E. rewrite E. reflexivity.
Qed.

(* ================= Uint24 ================= *)

Lemma le_dec_app_zero a : le_dec (a ++ [0]) = le_dec a.
Proof. induction a as [|x a IH]; [reflexivity|]. cbn [app le_dec]. rewrite IH. reflexivity. Qed.

Lemma zfirstn_all {A} (l : list A) n : zlen l <= n -> zfirstn n l = l.
Proof. intros H. unfold zfirstn. apply firstn_all2. unfold zlen in H. lia. Qed.

Lemma u24_get_le v : zlen v = 3 -> u24_get v = le_dec v.
Proof. intros H. unfold u24_get. rewrite zfirstn_all by lia. apply le_dec_app_zero. Qed.

Lemma u24_set_enc v : 0 <= v < 2 ^ 24 -> u24_set v = Ok (le_enc 3 v).
Proof.
  intros H. unfold u24_set. replace (2 ^ 24 <=? v) with false by lia.
  f_equal.
Qed.

Theorem u24_set_get v : 0 <= v < 2 ^ 24 ->
  exists b, u24_set v = Ok b /\ zlen b = 3 /\ bytes_ok b = true /\ u24_get b = v.
Proof.
  intros H. exists (le_enc 3 v). split; [apply u24_set_enc; auto|].
  split; [apply (zlen_le_enc 3)|]. split; [apply le_enc_ok|].
  rewrite u24_get_le by apply (zlen_le_enc 3). apply le_dec_enc. simpl; lia.
Qed.

Lemma u24_get_range b : zlen b = 3 -> bytes_ok b = true -> 0 <= u24_get b < 2 ^ 24.
Proof.
  intros L OK. rewrite u24_get_le by auto. pose proof (le_dec_bound b OK) as B. rewrite L in B.
  change (256 ^ 3) with (2 ^ 24) in B. exact B.
Qed.

Theorem u24_get_set b : zlen b = 3 -> bytes_ok b = true -> u24_set (u24_get b) = Ok b.
Proof.
  intros L OK. pose proof (u24_get_range b L OK) as R.
  rewrite u24_set_enc by auto. rewrite u24_get_le by auto. f_equal.
  assert (E : length b = 3%nat) by (unfold zlen in L; lia).
  rewrite <- E. apply le_enc_dec; auto.
Qed.

Theorem u24_set_panics v : 2 ^ 24 <= v -> u24_set v = Panic 1.
Proof. intros H. unfold u24_set. replace (2 ^ 24 <=? v) with true by lia. reflexivity. Qed.

(* ================= header codec ================= *)

Lemma wf_hdr_spec h : wf_hdr h = true ->
  0 <= h_addr h < 2 ^ 64 /\ bytes_ok (h_size h) = true /\ zlen (h_size h) = 3 /\
  0 <= h_rsvd h < 256 /\ 0 <= h_ver h < 2 ^ 16 /\ 0 <= h_tc h < 256 /\ 0 <= h_cksum h < 256.
Proof.
  unfold wf_hdr. intros H. repeat (apply andb_true_iff in H as [H ?]).
  repeat split; try lia; auto.
Qed.

Lemma wf_hdr_intro a s r v t c :
  0 <= a < 2 ^ 64 -> bytes_ok s = true -> zlen s = 3 -> 0 <= r < 256 -> 0 <= v < 2 ^ 16 ->
  0 <= t < 256 -> 0 <= c < 256 -> wf_hdr (mkHdr a s r v t c) = true.
Proof.
  intros. unfold wf_hdr; cbn [h_addr h_size h_rsvd h_ver h_tc h_cksum].
  rewrite H0. repeat (apply andb_true_iff; split); lia.
Qed.

Lemma wf_hdr_enc a s r v t c :
  0 <= a < 2 ^ 64 -> 0 <= r < 256 -> 0 <= v < 2 ^ 16 -> 0 <= t < 256 -> 0 <= c < 256 ->
  wf_hdr (mkHdr a (le_enc 3 s) r v t c) = true.
Proof.
  intros. apply wf_hdr_intro; auto; try apply le_enc_ok; try apply (zlen_le_enc 3).
Qed.

Lemma zlen_enc_hdr h : wf_hdr h = true -> zlen (enc_hdr h) = hdr_len.
Proof.
  intros W. apply wf_hdr_spec in W as (_ & _ & L & _).
  unfold enc_hdr. rewrite !zlen_app, le8, le2, !le1, L. reflexivity.
Qed.

Lemma hsz_range h : wf_hdr h = true -> 0 <= hsz h < 2 ^ 24.
Proof.
  intros W. apply wf_hdr_spec in W as (_ & OK & L & _). apply u24_get_range; auto.
Qed.

Lemma dec_enc_hdr h r : wf_hdr h = true -> dec_hdr (enc_hdr h ++ r) = Some h.
Proof.
  intros W. pose proof (zlen_enc_hdr h W) as L.
  apply wf_hdr_spec in W as (A & SO & SL & R & V & T & C).
  unfold dec_hdr. rewrite zlen_app, L. pose proof (zlen_nonneg r).
  replace (hdr_len + zlen r <? hdr_len) with false by lia.
  destruct h as [addr sz rs ver tc ck]; cbn [h_addr h_size h_rsvd h_ver h_tc h_cksum] in *.
  unfold enc_hdr; cbn [h_addr h_size h_rsvd h_ver h_tc h_cksum].
  rewrite <- !app_assoc. f_equal. f_equal.
  - rewrite rd_app_here by apply le8. apply le_dec_enc. simpl; lia.
  - rewrite (sub_app_skip _ _ 8 3 8) by (try apply le8; lia). simpl Z.sub.
    apply sub_app_here; auto.
  - rewrite (rd_app_skip _ _ 11 1 8) by (try apply le8; lia). simpl Z.sub.
    rewrite (rd_app_skip _ _ 3 1 3) by (auto; lia). simpl Z.sub.
    rewrite rd_app_here by apply le1. apply le_dec_enc. simpl; lia.
  - rewrite (rd_app_skip _ _ 12 2 8) by (try apply le8; lia). simpl Z.sub.
    rewrite (rd_app_skip _ _ 4 2 3) by (auto; lia). simpl Z.sub.
    rewrite (rd_app_skip _ _ 1 2 1) by (try apply le1; lia). simpl Z.sub.
    rewrite rd_app_here by apply le2. apply le_dec_enc. simpl; lia.
  - rewrite (rd_app_skip _ _ 14 1 8) by (try apply le8; lia). simpl Z.sub.
    rewrite (rd_app_skip _ _ 6 1 3) by (auto; lia). simpl Z.sub.
    rewrite (rd_app_skip _ _ 3 1 1) by (try apply le1; lia). simpl Z.sub.
    rewrite (rd_app_skip _ _ 2 1 2) by (try apply le2; lia). simpl Z.sub.
    rewrite rd_app_here by apply le1. apply le_dec_enc. simpl; lia.
  - rewrite (rd_app_skip _ _ 15 1 8) by (try apply le8; lia). simpl Z.sub.
    rewrite (rd_app_skip _ _ 7 1 3) by (auto; lia). simpl Z.sub.
    rewrite (rd_app_skip _ _ 4 1 1) by (try apply le1; lia). simpl Z.sub.
    rewrite (rd_app_skip _ _ 3 1 2) by (try apply le2; lia). simpl Z.sub.
    rewrite (rd_app_skip _ _ 1 1 1) by (try apply le1; lia). simpl Z.sub.
    rewrite rd_app_here by apply le1. apply le_dec_enc. simpl; lia.
Qed.

Lemma dec_hdr_wf b h : bytes_ok b = true -> dec_hdr b = Some h -> wf_hdr h = true.
Proof.
  intros OK D. unfold dec_hdr in D. destruct (zlen b <? hdr_len) eqn:E; [discriminate|].
  injection D as <-. unfold hdr_len, fit_entry_headers_size in E.
  assert (B : forall off w, 0 <= off -> off + Z.of_nat w <= zlen b ->
              0 <= rd off w b < 256 ^ Z.of_nat w).
  { intros off w H1 H2. unfold rd.
    pose proof (le_dec_bound (sub off (Z.of_nat w) b) (bytes_ok_sub _ _ _ OK)) as Bd.
    rewrite zlen_sub in Bd by lia. exact Bd. }
  apply wf_hdr_intro.
  - pose proof (B 0 8%nat ltac:(lia) ltac:(simpl; lia)) as X. simpl in X. lia.
  - apply bytes_ok_sub; auto.
  - apply zlen_sub; lia.
  - pose proof (B 11 1%nat ltac:(lia) ltac:(simpl; lia)) as X. simpl in X. lia.
  - pose proof (B 12 2%nat ltac:(lia) ltac:(simpl; lia)) as X. simpl in X. lia.
  - pose proof (B 14 1%nat ltac:(lia) ltac:(simpl; lia)) as X. simpl in X. lia.
  - pose proof (B 15 1%nat ltac:(lia) ltac:(simpl; lia)) as X. simpl in X. lia.
Qed.

Lemma enc_dec_hdr b h : bytes_ok b = true -> dec_hdr b = Some h ->
  enc_hdr h = zfirstn hdr_len b.
Proof.
  intros OK D. unfold dec_hdr in D. destruct (zlen b <? hdr_len) eqn:E; [discriminate|].
  injection D as <-. unfold enc_hdr; cbn [h_addr h_size h_rsvd h_ver h_tc h_cksum].
  unfold rd. unfold hdr_len, fit_entry_headers_size in *.
  assert (EE : forall off w, 0 <= off -> off + Z.of_nat w <= zlen b ->
            le_enc w (le_dec (sub off (Z.of_nat w) b)) = sub off (Z.of_nat w) b).
  { intros off w H1 H2.
    assert (Hl : length (sub off (Z.of_nat w) b) = w).
    { pose proof (zlen_sub off (Z.of_nat w) b ltac:(lia) ltac:(lia) ltac:(lia)) as Hl.
      unfold zlen in Hl. lia. }
    rewrite <- Hl at 1. apply le_enc_dec. apply bytes_ok_sub; auto. }
  rewrite (EE 0 8%nat), (EE 11 1%nat), (EE 12 2%nat), (EE 14 1%nat), (EE 15 1%nat) by (simpl; lia).
  clear EE. unfold sub.
  change (Z.of_nat 1) with 1. change (Z.of_nat 2) with 2. change (Z.of_nat 8) with 8.
  glue b 14 1 1. glue b 12 2 2. glue b 11 1 4. glue b 8 3 5. glue b 0 8 8.
  reflexivity.
Qed.

(* ================= writes into a buffer ================= *)

Lemma nth_error_sub b o l i : 0 <= o ->
  nth_error (sub o l b) i = if Z.of_nat i <? l then nth_error b (Z.to_nat o + i) else None.
Proof.
  intros Ho. unfold sub, zfirstn, zskipn. destruct (Z.of_nat i <? l) eqn:E.
  - rewrite nth_error_firstn_lt' by lia. apply nth_error_skipn'.
  - apply nth_error_None. rewrite firstn_length. lia.
Qed.

Lemma sub_ext b1 b2 o l : 0 <= o ->
  (forall i, o <= Z.of_nat i < o + l -> nth_error b1 i = nth_error b2 i) ->
  sub o l b1 = sub o l b2.
Proof.
  intros Ho H. apply nth_error_ext. intros i. rewrite !nth_error_sub by auto.
  destruct (Z.of_nat i <? l) eqn:E; auto. apply H. lia.
Qed.

Lemma splice_nil pos st : splice pos [] st = st.
Proof.
  unfold splice. rewrite zlen_nil, Z.add_0_r. cbn [app]. apply zfirstn_zskipn.
Qed.

Lemma splice_app o a b st : 0 <= o -> o + zlen a + zlen b <= zlen st ->
  splice (o + zlen a) b (splice o a st) = splice o (a ++ b) st.
Proof.
  intros Ho Hb. pose proof (zlen_nonneg a). pose proof (zlen_nonneg b).
  unfold splice at 2. set (X := zfirstn o st). set (R := zskipn (o + zlen a) st).
  assert (LX : zlen X = o) by (apply zlen_zfirstn; lia).
  assert (LXa : zlen (X ++ a) = o + zlen a) by (rewrite zlen_app; lia).
  unfold splice. rewrite (app_assoc X a R).
  rewrite <- LXa at 1. rewrite zfirstn_app_exact.
  replace (o + zlen a + zlen b) with (zlen b + zlen (X ++ a)) by lia.
  rewrite <- zskipn_zskipn by lia. rewrite zskipn_app_exact.
  unfold R. rewrite zskipn_zskipn by lia. rewrite zlen_app.
  fold X. rewrite <- !app_assoc. do 4 f_equal. lia.
Qed.

Definition write := (Z * bytes)%type.
Definition wrange (w : write) : Z * Z := (fst w, zlen (snd w)).

Fixpoint apply_writes (img : bytes) (ws : list write) : bytes :=
  match ws with
  | [] => img
  | w :: r => apply_writes (splice (fst w) (snd w) img) r
  end.

Lemma disjoint_untouched a rs k :
  forallb (disjoint a) rs = true -> in_range k a = true -> untouched k rs = true.
Proof.
  intros D I. unfold untouched. apply forallb_forall. intros r Hr.
  rewrite forallb_forall in D. specialize (D r Hr).
  unfold disjoint, in_range in *. lia.
Qed.

(* in-bounds, pairwise disjoint writes: each written range holds its data,
   everything else is unchanged, the length is preserved *)
Lemma apply_writes_spec ws : forall img,
  forallb (in_image (zlen img)) (map wrange ws) = true ->
  pairwise_disjoint (map wrange ws) = true ->
  zlen (apply_writes img ws) = zlen img /\
  (forall k, untouched (Z.of_nat k) (map wrange ws) = true ->
     nth_error (apply_writes img ws) k = nth_error img k) /\
  (forall w, In w ws -> sub (fst w) (zlen (snd w)) (apply_writes img ws) = snd w).
Proof.
  induction ws as [|w ws IH]; intros img B D.
  - cbn [apply_writes]. repeat split; auto. intros w [].
  - cbn [map forallb pairwise_disjoint] in B, D.
    apply andb_true_iff in B as [Bw B]. apply andb_true_iff in D as [Dw D].
    unfold in_image, wrange in Bw; cbn [fst snd] in Bw.
    assert (Bw1 : 0 <= fst w) by lia. assert (Bw2 : fst w + zlen (snd w) <= zlen img) by lia.
    cbn [apply_writes]. set (img1 := splice (fst w) (snd w) img).
    assert (L1 : zlen img1 = zlen img) by (apply zlen_splice; auto).
    rewrite <- L1 in B. destruct (IH img1 B D) as (IL & IO & IS).
    split; [lia|]. split.
    + intros k U. cbn [map untouched forallb] in U. unfold untouched in U. cbn [forallb] in U.
      apply andb_true_iff in U as [Uw U]. rewrite IO by exact U.
      unfold in_range, wrange in Uw; cbn [fst snd] in Uw.
      destruct (Z_lt_dec (Z.of_nat k) (fst w)).
      * apply nth_error_splice_lo; auto.
      * apply nth_error_splice_hi; auto. lia.
    + intros w' [<-|I]; [|apply IS; auto].
      rewrite (sub_ext _ img1) by
        (auto; intros i Hi; apply IO; apply (disjoint_untouched (wrange w)); auto;
         unfold in_range, wrange; cbn [fst snd]; lia).
      apply sub_splice; auto.
Qed.

Lemma rws_write_full st pos d : 0 <= pos -> 0 < zlen d -> pos + zlen d <= zlen st ->
  rws_write st pos d = (splice pos d st, pos + zlen d, true).
Proof.
  intros H1 H2 H3. unfold rws_write. replace (zlen st <=? pos) with false by lia.
  rewrite Z.min_r by lia. rewrite zfirstn_all by lia.
  replace (zlen d <=? zlen d) with true by lia. reflexivity.
Qed.

Lemma rws_seek_ok st p : 0 <= p <= zlen st -> rws_seek st p = Some p.
Proof.
  intros H. unfold rws_seek. replace ((p <? 0) || (zlen st <? p)) with false by lia. reflexivity.
Qed.

Definition enc_table (hs : list hdr) : bytes := concat (map enc_hdr hs).

Lemma zlen_enc_table hs : forallb wf_hdr hs = true -> zlen (enc_table hs) = hdr_len * zlen hs.
Proof.
  induction hs as [|h hs IH]; intros W; [reflexivity|].
  cbn [forallb] in W. apply andb_true_iff in W as [Wh W].
  unfold enc_table in *. cbn [map concat]. rewrite zlen_app, zlen_cons, IH by auto.
  rewrite zlen_enc_hdr by auto. lia.
Qed.

Lemma write_headers_full hs : forall st pos, forallb wf_hdr hs = true -> 0 <= pos ->
  pos + hdr_len * zlen hs <= zlen st ->
  write_headers st pos hs = (splice pos (enc_table hs) st, pos + hdr_len * zlen hs, true).
Proof.
  induction hs as [|h hs IH]; intros st pos W Hp Hb.
  - cbn [write_headers]. unfold enc_table; cbn [map concat]. rewrite splice_nil.
    change (zlen (@nil hdr)) with 0. f_equal. f_equal. lia.
  - cbn [forallb] in W. apply andb_true_iff in W as [Wh W].
    pose proof (zlen_enc_hdr h Wh) as Lh. pose proof (zlen_enc_table hs W) as Lt.
    rewrite zlen_cons in Hb. pose proof (zlen_nonneg hs).
    assert (HL : hdr_len = 16) by reflexivity.
    cbn [write_headers]. rewrite rws_write_full by lia. cbv beta iota.
    rewrite IH by (auto; try rewrite zlen_splice; lia).
    unfold enc_table in *. cbn [map concat]. rewrite <- Lh at 1.
    rewrite splice_app by lia. rewrite zlen_cons. f_equal. f_equal. lia.
Qed.

Definition data_writes (n : Z) (es : list entry) : list write :=
  map (fun e => (data_off n e, e_data e)) (filter has_data es).

Lemma wrange_data_writes n es : map wrange (data_writes n es) = data_ranges n es.
Proof. unfold data_writes, data_ranges. rewrite map_map. reflexivity. Qed.

Lemma inject_datas_full es : forall st, zlen st < 2 ^ 63 ->
  forallb (in_image (zlen st)) (data_ranges (zlen st) es) = true ->
  inject_datas st es = (apply_writes st (data_writes (zlen st) es), 0).
Proof.
  induction es as [|e es IH]; intros st Hn B; [reflexivity|].
  cbn [inject_datas]. unfold inject_data, data_ranges, data_writes in *. cbn [filter] in *.
  unfold has_data at 1 in B. unfold has_data at 1.
  destruct (zlen (e_data e) =? 0) eqn:E; cbn [negb] in *.
  - cbv beta iota. replace (0 =? 0) with true by reflexivity. apply IH; auto.
  - cbn [map forallb] in B. apply andb_true_iff in B as [Be B].
    unfold in_image, data_off in Be; cbn [fst snd] in Be.
    pose proof (zlen_nonneg (e_data e)).
    set (o := offset_of_phys (h_addr (e_hdr e)) (zlen st)) in *.
    rewrite s64_small by lia. rewrite rws_seek_ok by lia.
    rewrite rws_write_full by lia. cbv beta iota.
    replace (0 =? 0) with true by reflexivity.
    assert (L1 : zlen (splice o (e_data e) st) = zlen st) by (apply zlen_splice; lia).
    rewrite IH by (rewrite L1; auto). rewrite L1. cbn [map apply_writes fst snd].
    unfold data_off. fold o. reflexivity.
Qed.

Definition inject_writes (img : bytes) (off : Z) (es : list entry) : list write :=
  (zlen img - fit_pointer_offset, le_enc 8 (phys_of_offset off (zlen img))) ::
  (off, enc_table (map e_hdr es)) :: data_writes (zlen img) es.

Lemma wrange_inject_writes img off es : forallb wf_hdr (map e_hdr es) = true ->
  map wrange (inject_writes img off es) = ranges (zlen img) off es.
Proof.
  intros W. unfold inject_writes, ranges. cbn [map]. unfold wrange at 1 2. cbn [fst snd].
  rewrite le8, zlen_enc_table by auto. rewrite wrange_data_writes.
  unfold zlen at 2. rewrite map_length. reflexivity.
Qed.

Lemma layout_ok_spec img off es : layout_ok img off es = true ->
  fit_pointer_offset <= zlen img < 2 ^ 63 /\
  forallb (in_image (zlen img)) (ranges (zlen img) off es) = true /\
  pairwise_disjoint (ranges (zlen img) off es) = true.
Proof.
  unfold layout_ok. intros H. repeat (apply andb_true_iff in H as [H ?]).
  repeat split; auto; lia.
Qed.

(* under the layout hypothesis an injection is exactly the sequence of writes *)
Lemma inject_full img off es : layout_ok img off es = true ->
  forallb wf_hdr (map e_hdr es) = true ->
  inject img es off = (apply_writes img (inject_writes img off es), 0).
Proof.
  intros LO W. apply layout_ok_spec in LO as ((N1 & N2) & B & _).
  unfold ranges in B. cbn [forallb] in B.
  apply andb_true_iff in B as [Bp B]. apply andb_true_iff in B as [Bt Bd].
  unfold in_image in Bp, Bt; cbn [fst snd] in Bp, Bt.
  assert (FP : fit_pointer_offset = 64) by reflexivity.
  unfold inject. rewrite rws_seek_ok by lia.
  rewrite rws_write_full by (rewrite ?le8; lia). cbv beta iota. cbn [negb].
  set (st1 := splice (zlen img - fit_pointer_offset) (le_enc 8 (phys_of_offset off (zlen img))) img).
  assert (L1 : zlen st1 = zlen img) by (apply zlen_splice; rewrite ?le8; lia).
  pose proof (zlen_nonneg es).
  assert (HL : hdr_len = 16) by reflexivity.
  rewrite s64_small by lia. rewrite rws_seek_ok by lia.
  assert (Lm : zlen (map e_hdr es) = zlen es) by (unfold zlen; rewrite map_length; reflexivity).
  rewrite write_headers_full by (auto; rewrite ?Lm; lia). cbv beta iota. cbn [negb].
  set (st2 := splice off (enc_table (map e_hdr es)) st1).
  assert (L2 : zlen st2 = zlen img).
  { unfold st2. rewrite zlen_splice; auto; try lia. rewrite zlen_enc_table, Lm by auto. lia. }
  rewrite inject_datas_full by (rewrite L2; auto). rewrite L2.
  unfold inject_writes. cbn [apply_writes fst snd]. reflexivity.
Qed.

(* ================= reading back ================= *)

Lemma zfirstn_sub o l1 l2 (b : bytes) : 0 <= l1 <= l2 -> zfirstn l1 (sub o l2 b) = sub o l1 b.
Proof.
  intros H. unfold sub, zfirstn. rewrite firstn_firstn. f_equal. lia.
Qed.

Lemma zskipn_split o l (b : bytes) : 0 <= o -> 0 <= l ->
  zskipn o b = sub o l b ++ zskipn (o + l) b.
Proof.
  intros Ho Hl. unfold sub. replace (o + l) with (l + o) by lia.
  rewrite <- zskipn_zskipn by lia. symmetry. apply zfirstn_zskipn.
Qed.

Lemma sub_sub o l k w (b : bytes) : 0 <= o -> 0 <= k -> k + w <= l ->
  sub k w (sub o l b) = sub (o + k) w b.
Proof.
  intros Ho Hk Hw. apply nth_error_ext. intros i.
  rewrite !nth_error_sub by lia. destruct (Z.of_nat i <? w) eqn:E; auto.
  replace (Z.of_nat (Z.to_nat k + i) <? l) with true by lia. f_equal. lia.
Qed.

Lemma slice_or_copy_ok img o n : 0 <= o -> 0 <= n -> o + n <= zlen img -> zlen img < 2 ^ 63 ->
  slice_or_copy img o (w64 (o + n)) = Ok (sub o n img).
Proof.
  intros Ho Hn Hb Hl. unfold slice_or_copy. rewrite (w64_small (o + n)) by lia.
  rewrite !s64_small by lia.
  replace (bytes_range (zlen img) o (o + n)) with true by (unfold bytes_range; lia).
  rewrite slice_ok by lia. cbn [of_opt]. do 2 f_equal. lia.
Qed.

Lemma magic_enc : le_enc 8 magic_addr = fit_headers_magic.
Proof. reflexivity. Qed.

Lemma magic_addr_range : 0 <= magic_addr < 2 ^ 64.
Proof.
  pose proof (le_dec_bound fit_headers_magic eq_refl) as B.
  change (zlen fit_headers_magic) with 8 in B. change (256 ^ 8) with (2 ^ 64) in B. exact B.
Qed.

(* what an image must hold for the entries [es] to be read back from a table at [off] *)
Record holds (img : bytes) (off : Z) (es : list entry) : Prop := {
  hl_len : fit_pointer_offset <= zlen img < 2 ^ 63;
  hl_ptr : sub (zlen img - fit_pointer_offset) 8 img = le_enc 8 (phys_of_offset off (zlen img));
  hl_off : 0 <= off /\ off + hdr_len * zlen es <= zlen img;
  hl_tab : sub off (hdr_len * zlen es) img = enc_table (map e_hdr es);
  hl_dat : forall e, In e es -> has_data e = true ->
             0 <= data_off (zlen img) e /\ data_off (zlen img) e + zlen (e_data e) <= zlen img /\
             sub (data_off (zlen img) e) (zlen (e_data e)) img = e_data e
}.

Lemma first_ok_spec es : first_ok es = true ->
  exists e0 r, es = e0 :: r /\ e_kind e0 = fit_type_fit_header /\
               h_addr (e_hdr e0) = magic_addr /\ hsz (e_hdr e0) = zlen es.
Proof.
  destruct es as [|e0 r]; [discriminate|]. unfold first_ok. intros H.
  repeat (apply andb_true_iff in H as [H ?]). exists e0, r. repeat split; auto; lia.
Qed.

Lemma entry_ok_spec e : entry_ok e = true ->
  wf_hdr (e_hdr e) = true /\ bytes_ok (e_data e) = true /\
  e_kind e = kind_of_type (htype (e_hdr e)) /\ data_rule e = true /\ e_err e = 0.
Proof.
  unfold entry_ok. intros H.
  apply andb_true_iff in H as [H H5]. apply andb_true_iff in H as [H H4].
  apply andb_true_iff in H as [H H3]. apply andb_true_iff in H as [H1 H2].
  apply Z.eqb_eq in H3, H5. repeat split; auto.
Qed.

Lemma entries_wf es : forallb entry_ok es = true -> forallb wf_hdr (map e_hdr es) = true.
Proof.
  induction es as [|e es IH]; intros H; [reflexivity|].
  cbn [forallb map] in *. apply andb_true_iff in H as [He H].
  apply entry_ok_spec in He as (W & _). rewrite W, IH; auto.
Qed.

Lemma table_range_holds img off es : holds img off es ->
  forallb wf_hdr (map e_hdr es) = true -> first_ok es = true ->
  table_range img = Ok (off, off + hdr_len * zlen es).
Proof.
  intros [(N1 & N2) P (O1 & O2) T _] W F.
  apply first_ok_spec in F as (e0 & r & -> & K0 & A0 & S0).
  cbn [map forallb] in W. apply andb_true_iff in W as [W0 W].
  pose proof (hsz_range _ W0) as HS. rewrite S0 in HS.
  assert (FP : fit_pointer_offset = 64) by reflexivity.
  assert (FS : fit_pointer_size = 16) by reflexivity.
  assert (HL : hdr_len = 16) by reflexivity.
  set (n := zlen img) in *. set (es := e0 :: r) in *.
  assert (Ln : 1 <= zlen es) by (unfold es; rewrite zlen_cons; pose proof (zlen_nonneg r); lia).
  unfold table_range. fold n.
  replace (bytes_range n (n - fit_pointer_offset) (n - fit_pointer_offset + fit_pointer_size))
    with true by (unfold bytes_range; lia).
  cbn [negb]. rewrite (w64_small (n - fit_pointer_offset)) by lia.
  replace (n - fit_pointer_offset + fit_pointer_size) with (n - fit_pointer_offset + 16) by lia.
  rewrite slice_or_copy_ok by (fold n; lia). cbn [bind].
  rewrite zfirstn_sub by lia. fold n in P. rewrite P.
  rewrite le_dec_enc by (pose proof (w64_range (w64 (fit_base_phys_addr - n) + off));
                         unfold phys_of_offset; simpl Z.of_nat; change (256 ^ 8) with (2 ^ 64); lia).
  rewrite tail_start_u64 by lia.
  rewrite (w64_small (off + hdr_len)) by lia. rewrite !s64_small by lia.
  replace (bytes_range n off (off + hdr_len)) with true by (unfold bytes_range; lia).
  cbn [negb]. rewrite rws_seek_ok by (fold n; lia).
  rewrite (zskipn_split off (hdr_len * zlen es)) by lia. rewrite T.
  unfold es at 1. cbn [map]. unfold enc_table. cbn [map concat]. rewrite <- app_assoc.
  rewrite dec_enc_hdr by auto.
  rewrite A0, magic_enc.
  replace (bytes_eqb fit_headers_magic fit_headers_magic) with true
    by (symmetry; apply bytes_eqb_eq; reflexivity).
  cbn [negb]. rewrite S0. rewrite w32_small by lia.
  rewrite (w64_small (off + zlen es * 16)) by lia. rewrite s64_small by lia.
  replace (bytes_range n off (off + zlen es * 16)) with true by (unfold bytes_range; lia).
  cbn [negb]. do 2 f_equal. lia.
Qed.

Lemma parse_table_f_enc hs : forall fuel, forallb wf_hdr hs = true -> (length hs < fuel)%nat ->
  parse_table_f fuel (enc_table hs) = Ok hs.
Proof.
  induction hs as [|h hs IH]; intros fuel W F.
  - destruct fuel; [lia|]. reflexivity.
  - destruct fuel as [|fuel]; [lia|]. cbn [length] in F.
    cbn [forallb] in W. apply andb_true_iff in W as [Wh W].
    pose proof (zlen_enc_hdr h Wh) as Lh. assert (HL : hdr_len = 16) by reflexivity.
    unfold enc_table in *. cbn [map concat parse_table_f].
    rewrite zlen_app, Lh. pose proof (zlen_nonneg (concat (map enc_hdr hs))).
    replace (hdr_len + zlen (concat (map enc_hdr hs)) =? 0) with false by lia.
    rewrite dec_enc_hdr by auto. rewrite <- Lh at 1. rewrite zskipn_app_exact.
    rewrite IH by (auto; lia). reflexivity.
Qed.

Lemma parse_table_enc hs : forallb wf_hdr hs = true -> parse_table (enc_table hs) = Ok hs.
Proof.
  intros W. unfold parse_table. apply parse_table_f_enc; auto.
  pose proof (zlen_enc_table hs W) as L. unfold zlen in L.
  assert (HL : hdr_len = 16) by reflexivity. lia.
Qed.

Lemma get_table_holds img off es : holds img off es ->
  forallb wf_hdr (map e_hdr es) = true -> first_ok es = true ->
  get_table img = Ok (map e_hdr es).
Proof.
  intros H W F. unfold get_table. rewrite (table_range_holds img off es) by auto.
  destruct H as [(N1 & N2) _ (O1 & O2) T _]. cbn [bind fst snd].
  pose proof (zlen_nonneg es). assert (HL : hdr_len = 16) by reflexivity.
  rewrite <- (w64_small (off + hdr_len * zlen es)) by lia.
  rewrite slice_or_copy_ok by lia. cbn [bind]. rewrite T. apply parse_table_enc; auto.
Qed.

(* ---- one entry ---- *)

Lemma zlen_zero_nil {A} (l : list A) : zlen l = 0 -> l = [].
Proof. destruct l; [reflexivity|]. rewrite zlen_cons. pose proof (zlen_nonneg l). lia. Qed.

Lemma new_entry_sized e img sz :
  kind_of_type (htype (e_hdr e)) = e_kind e ->
  data_size (e_kind e) (e_hdr e) img = Ok sz -> sz = zlen (e_data e) -> e_err e = 0 ->
  zlen img < 2 ^ 63 ->
  (has_data e = true ->
     0 <= data_off (zlen img) e /\ data_off (zlen img) e + zlen (e_data e) <= zlen img /\
     sub (data_off (zlen img) e) (zlen (e_data e)) img = e_data e) ->
  new_entry (e_hdr e) img = Ok e.
Proof.
  intros K DS -> ER N HD. unfold new_entry. rewrite K, DS.
  destruct e as [k h d er]; cbn [e_kind e_hdr e_data e_err] in *. subst er.
  unfold has_data, data_off in HD; cbn [e_data e_hdr] in HD.
  destruct (zlen d =? 0) eqn:E.
  - apply Z.eqb_eq in E. apply zlen_zero_nil in E. subst d. reflexivity.
  - cbn [negb] in HD. destruct (HD eq_refl) as (B1 & B2 & S).
    pose proof (zlen_nonneg d). rewrite slice_or_copy_ok by lia. rewrite S. reflexivity.
Qed.

Lemma new_entry_unsupported e img c :
  kind_of_type (htype (e_hdr e)) = e_kind e ->
  data_size (e_kind e) (e_hdr e) img = Err c -> e_data e = [] ->
  new_entry (e_hdr e) img = Ok (mkEntry (e_kind e) (e_hdr e) [] c).
Proof. intros K DS D. unfold new_entry. rewrite K, DS. reflexivity. Qed.

Lemma sacm_size_holds img o d : 0 <= o -> o + zlen d <= zlen img -> zlen img < 2 ^ 63 ->
  sub o (zlen d) img = d -> fit_sacm_size_offset + 4 <= zlen d ->
  sacm_size img o = Ok (w32 (rd fit_sacm_size_offset 4 d * 4)).
Proof.
  intros Ho Hb Hn S L. assert (SO : fit_sacm_size_offset = 24) by reflexivity.
  unfold sacm_size, add_s64. rewrite (s64_small o) by lia.
  rewrite (w64_small (o + fit_sacm_size_offset)) by lia. rewrite s64_small by lia.
  rewrite rws_seek_ok by lia.
  replace (zlen img <? o + fit_sacm_size_offset + 4) with false by lia.
  do 3 f_equal. unfold rd. f_equal.
  rewrite <- (sub_sub o (zlen d) fit_sacm_size_offset (Z.of_nat 4) img) by (simpl Z.of_nat; lia).
  rewrite S. reflexivity.
Qed.

Lemma new_entry_holds e img : entry_ok e = true -> zlen img < 2 ^ 63 ->
  (has_data e = true ->
     0 <= data_off (zlen img) e /\ data_off (zlen img) e + zlen (e_data e) <= zlen img /\
     sub (data_off (zlen img) e) (zlen (e_data e)) img = e_data e) ->
  new_entry (e_hdr e) img = Ok (as_read e).
Proof.
  intros EO N HD. apply entry_ok_spec in EO as (W & BO & K & DR & ER). symmetry in K.
  pose proof (hsz_range _ W) as HS.
  unfold data_rule in DR. unfold as_read.
  destruct (no_data_kind (e_kind e)) eqn:ND.
  - (* no data *)
    apply Z.eqb_eq in DR. pose proof (zlen_zero_nil _ DR) as DN.
    destruct ((e_kind e =? fit_type_diagnostic_acm) || (e_kind e =? fit_type_tpm_policy)) eqn:U.
    + rewrite (new_entry_unsupported e img E_SIZE); auto.
      * rewrite DN. reflexivity.
      * unfold data_size. unfold no_data_kind in ND.
        replace ((e_kind e =? fit_type_fit_header) || (e_kind e =? fit_type_txt_policy)) with false
          by (unfold fit_type_fit_header, fit_type_txt_policy, fit_type_diagnostic_acm,
                     fit_type_tpm_policy in *; lia).
        rewrite U. reflexivity.
    + apply (new_entry_sized e img 0); auto.
      unfold data_size. unfold no_data_kind in ND.
      replace ((e_kind e =? fit_type_fit_header) || (e_kind e =? fit_type_txt_policy)) with true by lia.
      reflexivity.
  - unfold no_data_kind in ND.
    replace ((e_kind e =? fit_type_diagnostic_acm) || (e_kind e =? fit_type_tpm_policy)) with false by lia.
    assert (DS : data_size (e_kind e) (e_hdr e) img =
              if bytes_kind (e_kind e) then Ok (hsz (e_hdr e))
              else if e_kind e =? fit_type_sacm
                   then sacm_size img (offset_of_phys (h_addr (e_hdr e)) (zlen img))
                   else Ok (hsz (e_hdr e) * 16)).
    { unfold data_size, bytes_kind.
      replace ((e_kind e =? fit_type_fit_header) || (e_kind e =? fit_type_txt_policy)) with false by lia.
      replace ((e_kind e =? fit_type_diagnostic_acm) || (e_kind e =? fit_type_tpm_policy)) with false by lia.
      reflexivity. }
    destruct (bytes_kind (e_kind e)) eqn:BK.
    + apply Z.eqb_eq in DR. apply (new_entry_sized e img (hsz (e_hdr e))); auto.
    + destruct (e_kind e =? fit_type_sacm) eqn:SK.
      * apply andb_true_iff in DR as [D1 D2]. apply Z.leb_le in D1. apply Z.eqb_eq in D2.
        assert (SO : fit_sacm_size_offset = 24) by reflexivity.
        assert (HDt : has_data e = true) by (unfold has_data; lia).
        destruct (HD HDt) as (B1 & B2 & S).
        apply (new_entry_sized e img (zlen (e_data e))); auto.
        rewrite DS. unfold data_off in *. rewrite (sacm_size_holds img _ (e_data e)); auto.
        rewrite <- D2. reflexivity.
      * apply Z.eqb_eq in DR. apply (new_entry_sized e img (hsz (e_hdr e) * 16)); auto.
Qed.

Lemma entries_from_holds img : zlen img < 2 ^ 63 -> forall es,
  (forall e, In e es -> entry_ok e = true /\
     (has_data e = true ->
        0 <= data_off (zlen img) e /\ data_off (zlen img) e + zlen (e_data e) <= zlen img /\
        sub (data_off (zlen img) e) (zlen (e_data e)) img = e_data e)) ->
  entries_from (map e_hdr es) img = Ok (map as_read es).
Proof.
  intros N es. induction es as [|e es IH]; intros H; [reflexivity|].
  cbn [map entries_from]. destruct (H e (or_introl eq_refl)) as (EO & HD).
  rewrite new_entry_holds by auto. cbn [bind].
  rewrite IH; [reflexivity|]. intros e' I. apply H. right; auto.
Qed.

(* an image that holds [es] at [off] reads back as [es] *)
Theorem read_back img off es : holds img off es ->
  forallb entry_ok es = true -> first_ok es = true ->
  get_entries img = Ok (map as_read es).
Proof.
  intros H EO F. unfold get_entries.
  rewrite (get_table_holds img off es) by (auto; apply entries_wf; auto). cbn [bind].
  destruct H as [(N1 & N2) _ _ _ D].
  apply (entries_from_holds img); auto.
  intros e I. split; [rewrite forallb_forall in EO; auto|]. apply D; auto.
Qed.

(* ================= inject, then read ================= *)

Lemma in_data_writes n es e : In e es -> has_data e = true ->
  In (data_off n e, e_data e) (data_writes n es).
Proof.
  intros I H. unfold data_writes. apply in_map_iff. exists e. split; auto. apply filter_In; auto.
Qed.

Lemma inject_holds img off es : layout_ok img off es = true ->
  forallb wf_hdr (map e_hdr es) = true ->
  snd (inject img es off) = 0 /\ zlen (fst (inject img es off)) = zlen img /\
  (forall k, untouched (Z.of_nat k) (ranges (zlen img) off es) = true ->
     nth_error (fst (inject img es off)) k = nth_error img k) /\
  holds (fst (inject img es off)) off es.
Proof.
  intros LO W. rewrite inject_full by auto. cbn [fst snd].
  apply layout_ok_spec in LO as ((N1 & N2) & B & D).
  pose proof (apply_writes_spec (inject_writes img off es) img) as SP.
  rewrite wrange_inject_writes in SP by auto. destruct (SP B D) as (L & O & S). clear SP.
  split; [reflexivity|]. split; [exact L|]. split; [exact O|].
  unfold ranges in B. cbn [forallb] in B.
  apply andb_true_iff in B as [Bp B]. apply andb_true_iff in B as [Bt Bd].
  unfold in_image in Bt; cbn [fst snd] in Bt.
  assert (Lm : zlen (map e_hdr es) = zlen es) by (unfold zlen; rewrite map_length; reflexivity).
  constructor; rewrite ?L.
  - lia.
  - pose proof (S _ (or_introl eq_refl)) as S1. cbn [fst snd] in S1. rewrite le8 in S1. exact S1.
  - lia.
  - pose proof (S _ (or_intror (or_introl eq_refl))) as S2. cbn [fst snd] in S2.
    rewrite zlen_enc_table, Lm in S2 by auto. exact S2.
  - intros e I HD.
    pose proof (S _ (or_intror (or_intror (in_data_writes (zlen img) es e I HD)))) as S3.
    cbn [fst snd] in S3. rewrite forallb_forall in Bd.
    assert (IR : In (data_off (zlen img) e, zlen (e_data e)) (data_ranges (zlen img) es)).
    { unfold data_ranges. apply in_map_iff. exists e. split; auto. apply filter_In; auto. }
    specialize (Bd _ IR). unfold in_image in Bd; cbn [fst snd] in Bd.
    repeat split; try lia. exact S3.
Qed.

Theorem inject_confined img off es : layout_ok img off es = true ->
  forallb wf_hdr (map e_hdr es) = true ->
  snd (inject img es off) = 0 /\ zlen (fst (inject img es off)) = zlen img /\
  (forall k, untouched (Z.of_nat k) (ranges (zlen img) off es) = true ->
     nth_error (fst (inject img es off)) k = nth_error img k).
Proof. intros LO W. destruct (inject_holds img off es LO W) as (A & B & C & _). auto. Qed.

Theorem inject_pointer img off es : layout_ok img off es = true ->
  forallb wf_hdr (map e_hdr es) = true ->
  let img' := fst (inject img es off) in
  let ptr := rd (zlen img' - fit_pointer_offset) 8 img' in
  ptr = phys_of_offset off (zlen img') /\ w64 (zlen img' - tail_offset_of_phys ptr) = off.
Proof.
  intros LO W. destruct (inject_holds img off es LO W) as (_ & L & _ & [_ P (O1 & O2) _ _]).
  rewrite L in O2. cbv zeta. unfold rd. change (Z.of_nat 8) with 8. rewrite P.
  assert (R : 0 <= phys_of_offset off (zlen (fst (inject img es off))) < 2 ^ 64)
    by (unfold phys_of_offset; apply w64_range).
  rewrite le_dec_enc by (simpl Z.of_nat; change (256 ^ 8) with (2 ^ 64); exact R).
  split; [reflexivity|]. apply tail_start_u64.
  apply layout_ok_spec in LO as ((N1 & N2) & _). pose proof (zlen_nonneg es).
  assert (HL : hdr_len = 16) by reflexivity. lia.
Qed.

Theorem inject_table img off es : layout_ok img off es = true ->
  forallb wf_hdr (map e_hdr es) = true -> first_ok es = true ->
  table_range (fst (inject img es off)) = Ok (off, off + hdr_len * zlen es) /\
  get_table (fst (inject img es off)) = Ok (map e_hdr es).
Proof.
  intros LO W F. destruct (inject_holds img off es LO W) as (_ & _ & _ & H).
  split; [apply table_range_holds|apply (get_table_holds _ off)]; auto.
Qed.

Theorem inject_read img off es : layout_ok img off es = true ->
  forallb entry_ok es = true -> first_ok es = true ->
  snd (inject img es off) = 0 /\
  get_entries (fst (inject img es off)) = Ok (map as_read es).
Proof.
  intros LO EO F. destruct (inject_holds img off es LO (entries_wf es EO)) as (A & _ & _ & H).
  split; [exact A|]. apply (read_back _ off); auto.
Qed.

(* ================= RecalculateHeaders ================= *)

Lemma calc_checksum_range h : 0 <= calc_checksum h < 256.
Proof. unfold calc_checksum. apply Z.mod_pos_bound. lia. Qed.

Lemma u24_get_enc v : 0 <= v < 2 ^ 24 -> u24_get (le_enc 3 v) = v.
Proof.
  intros H. rewrite u24_get_le by apply (zlen_le_enc 3). apply le_dec_enc. simpl; lia.
Qed.

Lemma registered_range k : registered k = true -> 0 <= k < 128.
Proof.
  unfold registered, fit_all_entry_types. cbn [existsb]. intros H. lia.
Qed.

Lemma most_common_spec e t : wf_hdr (e_hdr e) = true ->
  (if e_kind e =? K_UNKNOWN then htype (e_hdr e) else e_kind e) = t -> 0 <= t < 128 ->
  0 <= zlen (e_data e) / 16 < 2 ^ 24 ->
  exists tc ck,
    most_common e = Ok (mkEntry (e_kind e)
       (mkHdr (h_addr (e_hdr e)) (le_enc 3 (zlen (e_data e) / 16)) (h_rsvd (e_hdr e)) 256 tc ck)
       (e_data e) (e_err e)) /\
    tc_type tc = t /\ 0 <= tc < 256 /\ 0 <= ck < 256.
Proof.
  intros W T Tr Nr. apply wf_hdr_spec in W as (_ & _ & _ & _ & _ & TC & _).
  unfold most_common. rewrite T.
  destruct (tc_set_type_spec (h_tc (e_hdr e)) t TC Tr) as (x & -> & X1 & _ & X2). cbn [bind].
  rewrite w32_small by lia. rewrite u24_set_enc by lia. cbn [bind].
  destruct (tc_set_cv_spec x true X2) as (C1 & _ & C3).
  exists (tc_set_cv x true), (calc_checksum (set_tc (e_hdr e) (tc_set_cv x true))).
  split; [reflexivity|]. split; [congruence|]. split; [exact C3|].
  apply calc_checksum_range.
Qed.

Lemma entry_ok_intro k h d : wf_hdr h = true -> bytes_ok d = true ->
  k = kind_of_type (htype h) -> data_rule (mkEntry k h d 0) = true ->
  entry_ok (mkEntry k h d 0) = true.
Proof.
  intros W B K D. unfold entry_ok. cbn [e_hdr e_data e_kind e_err].
  rewrite W, B, D, <- K, Z.eqb_refl. reflexivity.
Qed.

Lemma no_data_kind_alt k : no_data_kind k =
  (k =? fit_type_fit_header) || (k =? fit_type_txt_policy) ||
  ((k =? fit_type_diagnostic_acm) || (k =? fit_type_tpm_policy)).
Proof. unfold no_data_kind. rewrite <- !orb_assoc. reflexivity. Qed.

(* relation between an entry and its recalculated form *)
Definition recalc_rel (e e' : entry) : Prop :=
  entry_ok e' = true /\ as_read e' = e' /\ e_kind e' = e_kind e /\
  e_data e' = (if e_kind e =? fit_type_txt_policy then [] else e_data e) /\
  h_addr (e_hdr e') = (if e_kind e =? fit_type_fit_header then magic_addr else h_addr (e_hdr e)).

Lemma shape_ok_spec e : shape_ok e = true ->
  wf_hdr (e_hdr e) = true /\ bytes_ok (e_data e) = true /\ e_err e = 0 /\
  ((e_kind e =? K_UNKNOWN) || registered (e_kind e)) = true /\
  ((e_kind e =? fit_type_diagnostic_acm) || (e_kind e =? fit_type_tpm_policy)) = false /\
  (if e_kind e =? K_UNKNOWN then negb (registered (htype (e_hdr e))) else true) = true /\
  (if e_kind e =? fit_type_fit_header then zlen (e_data e) =? 0
   else if e_kind e =? fit_type_txt_policy then true
   else if bytes_kind (e_kind e) then zlen (e_data e) <? 2 ^ 24
   else if e_kind e =? fit_type_sacm then
     (fit_sacm_size_offset + 4 <=? zlen (e_data e)) &&
     (zlen (e_data e) =? w32 (rd fit_sacm_size_offset 4 (e_data e) * 4))
   else (zlen (e_data e) mod 16 =? 0) && (zlen (e_data e) <? 2 ^ 28)) = true.
Proof.
  unfold shape_ok. intros H.
  apply andb_true_iff in H as [H H7]. apply andb_true_iff in H as [H H6].
  apply andb_true_iff in H as [H H5]. apply andb_true_iff in H as [H H4].
  apply andb_true_iff in H as [H H3]. apply andb_true_iff in H as [H1 H2].
  apply Z.eqb_eq in H3. apply negb_true_iff in H5. repeat split; auto.
Qed.

Lemma recalc_entry_spec e : shape_ok e = true ->
  exists e', recalc_entry e = Ok e' /\ recalc_rel e e'.
Proof.
  intros SH. apply shape_ok_spec in SH as (W & BO & ER & SUP & NU & UNK & SHP).
  pose proof (wf_hdr_spec _ W) as (A & SO & SL & R & V & TC & C).
  pose proof (zlen_nonneg (e_data e)) as Ln.
  (* the type the headers will carry, and the Go type it maps back to *)
  set (t := if e_kind e =? K_UNKNOWN then htype (e_hdr e) else e_kind e).
  assert (Tr : 0 <= t < 128).
  { unfold t. destruct (e_kind e =? K_UNKNOWN) eqn:KU.
    - apply tc_type_range; auto.
    - apply registered_range. cbn [orb] in SUP. exact SUP. }
  assert (KT : kind_of_type t = e_kind e).
  { unfold t, kind_of_type. destruct (e_kind e =? K_UNKNOWN) eqn:KU.
    - apply negb_true_iff in UNK. rewrite UNK. apply Z.eqb_eq in KU. auto.
    - cbn [orb] in SUP. rewrite SUP. reflexivity. }
  assert (NR : as_read (mkEntry (e_kind e) (e_hdr e) (e_data e) (e_err e)) =
               mkEntry (e_kind e) (e_hdr e) (e_data e) (e_err e))
    by (unfold as_read; cbn [e_kind]; rewrite NU; reflexivity).
  assert (AR : forall h d, as_read (mkEntry (e_kind e) h d 0) = mkEntry (e_kind e) h d 0)
    by (intros; unfold as_read; cbn [e_kind]; rewrite NU; reflexivity).
  assert (HL : hdr_len = 16) by reflexivity.
  assert (D16 : 0 <= zlen (e_data e) / 16) by (apply Z.div_pos; lia).
  unfold recalc_entry, recalc_rel.
  destruct (e_kind e =? fit_type_fit_header) eqn:K0.
  - (* FIT header entry *)
    apply Z.eqb_eq in SHP. rewrite SHP in *.
    assert (KU : (e_kind e =? K_UNKNOWN) = false) by (unfold K_UNKNOWN, fit_type_fit_header in *; lia).
    destruct (most_common_spec e t W eq_refl Tr) as (tc & ck & -> & T1 & T2 & T3);
      [rewrite SHP; change (0 / 16) with 0; lia|].
    cbn [bind e_hdr e_data e_err]. eexists. split; [reflexivity|].
    unfold set_addr; cbn [e_kind e_hdr e_data e_err h_addr h_size h_rsvd h_ver h_tc h_cksum].
    rewrite ER. rewrite AR.
    replace (e_kind e =? fit_type_txt_policy) with false
      by (unfold fit_type_txt_policy, fit_type_fit_header in *; lia).
    repeat split; auto.
    apply entry_ok_intro; auto.
    + apply wf_hdr_enc; auto; try lia. apply magic_addr_range.
    + unfold htype; cbn [h_tc]. rewrite T1. symmetry. exact KT.
    + unfold data_rule; cbn [e_kind e_data e_hdr]. rewrite no_data_kind_alt, K0.
      cbn [orb]. lia.
  - destruct (e_kind e =? fit_type_sacm) eqn:K2.
    + (* startup ACM *)
      assert (KU : (e_kind e =? K_UNKNOWN) = false) by (unfold K_UNKNOWN, fit_type_sacm in *; lia).
      assert (Tt : t = fit_type_sacm) by (unfold t; rewrite KU; lia).
      replace (e_kind e =? fit_type_txt_policy) with false in *
        by (unfold fit_type_txt_policy, fit_type_sacm in *; lia).
      replace (bytes_kind (e_kind e)) with false in SHP
        by (unfold bytes_kind, fit_type_bios_policy, fit_type_key_manifest, fit_type_boot_policy,
                   fit_type_sacm in *; lia).
      rewrite <- Tt.
      destruct (tc_set_type_spec (h_tc (e_hdr e)) t TC Tr) as (x & -> & X1 & _ & X2). cbn [bind].
      rewrite u24_set_enc by lia. cbn [bind]. eexists. split; [reflexivity|].
      unfold set_size, set_tc; cbn [e_kind e_hdr e_data e_err h_addr h_size h_rsvd h_ver h_tc h_cksum].
      rewrite ER. rewrite AR. repeat split; auto.
      apply entry_ok_intro; auto.
      * apply wf_hdr_enc; auto; lia.
      * unfold htype; cbn [h_tc]. rewrite X1. symmetry. exact KT.
      * unfold data_rule; cbn [e_kind e_data e_hdr]. rewrite no_data_kind_alt, K0, K2, NU.
        replace (e_kind e =? fit_type_txt_policy) with false
          by (unfold fit_type_txt_policy, fit_type_sacm in *; lia).
        replace (bytes_kind (e_kind e)) with false
          by (unfold bytes_kind, fit_type_bios_policy, fit_type_key_manifest, fit_type_boot_policy,
                     fit_type_sacm in *; lia).
        cbn [orb]. exact SHP.
    + rewrite NU.
      destruct (bytes_kind (e_kind e)) eqn:KB.
      * (* byte-sized kinds *)
        assert (KU : (e_kind e =? K_UNKNOWN) = false)
          by (unfold bytes_kind, K_UNKNOWN, fit_type_bios_policy, fit_type_key_manifest,
                     fit_type_boot_policy in *; lia).
        assert (KX : (e_kind e =? fit_type_txt_policy) = false)
          by (unfold bytes_kind, fit_type_txt_policy, fit_type_bios_policy, fit_type_key_manifest,
                     fit_type_boot_policy in *; lia).
        rewrite KX in *. apply Z.ltb_lt in SHP.
        assert (D16b : zlen (e_data e) / 16 < 2 ^ 24)
          by (apply Z.div_lt_upper_bound; lia).
        destruct (most_common_spec e t W eq_refl Tr) as (tc & ck & -> & T1 & T2 & T3); [lia|].
        cbn [bind e_hdr e_data e_err]. rewrite w32_small by lia. rewrite u24_set_enc by lia.
        cbn [bind]. eexists. split; [reflexivity|].
        unfold set_size; cbn [e_kind e_hdr e_data e_err h_addr h_size h_rsvd h_ver h_tc h_cksum].
        rewrite ER. rewrite AR. repeat split; auto.
        apply entry_ok_intro; auto.
        -- apply wf_hdr_enc; auto; lia.
        -- unfold htype; cbn [h_tc]. rewrite T1. symmetry. exact KT.
        -- unfold data_rule; cbn [e_kind e_data e_hdr].
           rewrite no_data_kind_alt, K0, KX, NU, KB. cbn [orb]. unfold hsz; cbn [h_size].
           rewrite u24_get_enc by lia. lia.
      * destruct (e_kind e =? fit_type_txt_policy) eqn:KX.
        -- (* TXT policy record: data dropped *)
           assert (KU : (e_kind e =? K_UNKNOWN) = false) by (unfold K_UNKNOWN, fit_type_txt_policy in *; lia).
           assert (Tt : t = fit_type_txt_policy) by (unfold t; rewrite KU; lia).
           rewrite <- Tt.
           destruct (tc_set_type_spec (h_tc (e_hdr e)) t TC Tr) as (x & -> & X1 & _ & X2). cbn [bind].
           rewrite u24_set_enc by lia. cbn [bind]. eexists. split; [reflexivity|].
           destruct (tc_set_cv_spec x false X2) as (C1 & _ & C3).
           unfold set_size, set_tc; cbn [e_kind e_hdr e_data e_err h_addr h_size h_rsvd h_ver h_tc h_cksum].
           rewrite ER. rewrite AR. repeat split; auto.
           apply entry_ok_intro; auto.
           ++ apply wf_hdr_enc; auto; lia.
           ++ unfold htype; cbn [h_tc]. rewrite C1, X1. symmetry. exact KT.
           ++ unfold data_rule; cbn [e_kind e_data e_hdr].
              rewrite no_data_kind_alt, K0, KX. cbn [orb]. reflexivity.
        -- (* every other kind, EntryUnknown included: size in units of 16 bytes *)
           apply andb_true_iff in SHP as [M16 L28]. apply Z.eqb_eq in M16. apply Z.ltb_lt in L28.
           assert (D16b : zlen (e_data e) / 16 < 2 ^ 24)
             by (apply Z.div_lt_upper_bound; lia).
           destruct (most_common_spec e t W eq_refl Tr) as (tc & ck & -> & T1 & T2 & T3); [lia|].
           eexists. split; [reflexivity|].
           cbn [e_kind e_hdr e_data e_err h_addr h_size h_rsvd h_ver h_tc h_cksum].
           rewrite ER. rewrite AR. repeat split; auto.
           apply entry_ok_intro; auto.
           ++ apply wf_hdr_enc; auto; lia.
           ++ unfold htype; cbn [h_tc]. rewrite T1. symmetry. exact KT.
           ++ unfold data_rule; cbn [e_kind e_data e_hdr].
              rewrite no_data_kind_alt, K0, KX, NU, KB, K2. cbn [orb]. unfold hsz; cbn [h_size].
              rewrite u24_get_enc by lia.
              pose proof (Z.div_mod (zlen (e_data e)) 16 ltac:(lia)). lia.
Qed.

Lemma recalc_all_spec es : forallb shape_ok es = true ->
  exists es', recalc_all es = Ok es' /\ Forall2 recalc_rel es es'.
Proof.
  induction es as [|e es IH]; intros SH.
  - exists []. split; [reflexivity|constructor].
  - cbn [forallb] in SH. apply andb_true_iff in SH as [Se SH].
    destruct (recalc_entry_spec e Se) as (e' & E & R). destruct (IH SH) as (es' & Es & Rs).
    exists (e' :: es'). cbn [recalc_all]. rewrite E, Es. split; [reflexivity|constructor; auto].
Qed.

Lemma Forall2_zlen {A B} (R : A -> B -> Prop) l l' : Forall2 R l l' -> zlen l' = zlen l.
Proof.
  intros F. induction F as [|a b l l' Rab F IH]; [reflexivity|]. rewrite !zlen_cons. lia.
Qed.

Lemma Forall2_forallb (R : entry -> entry -> Prop) (p : entry -> bool) l l' :
  Forall2 R l l' -> (forall a b, R a b -> p b = true) -> forallb p l' = true.
Proof.
  intros F H. induction F as [|a b l l' Rab F IH]; [reflexivity|].
  cbn [forallb]. rewrite (H a b Rab), IH. reflexivity.
Qed.

Lemma as_read_map_id es es' : Forall2 recalc_rel es es' -> map as_read es' = es'.
Proof.
  intros F. induction F as [|a b l l' Rab F IH]; [reflexivity|].
  cbn [map]. rewrite IH. destruct Rab as (_ & -> & _). reflexivity.
Qed.

(* RecalculateHeaders on a list that starts with a FIT header entry *)
Theorem recalc_spec es : forallb shape_ok es = true ->
  (exists e0 r, es = e0 :: r /\ e_kind e0 = fit_type_fit_header) -> zlen es < 2 ^ 24 ->
  exists es', recalc es = Ok es' /\
    forallb entry_ok es' = true /\ first_ok es' = true /\ map as_read es' = es' /\
    Forall2 (fun e e' => e_kind e' = e_kind e /\
               e_data e' = (if e_kind e =? fit_type_txt_policy then [] else e_data e) /\
               h_addr (e_hdr e') =
                 (if e_kind e =? fit_type_fit_header then magic_addr else h_addr (e_hdr e)))
            es es'.
Proof.
  intros SH (e0 & r & -> & K0) N.
  destruct (recalc_all_spec _ SH) as (es1 & E1 & F).
  inversion F as [|a e0' l r' R0 Fr]; subst.
  unfold recalc. rewrite E1. cbn [bind].
  destruct R0 as (EO0 & AR0 & KK0 & DD0 & AA0).
  rewrite KK0, K0, Z.eqb_refl.
  pose proof (zlen_nonneg (e0 :: r)) as Ln.
  rewrite w32_small by lia. rewrite u24_set_enc by lia. cbn [bind].
  set (e0'' := mkEntry fit_type_fit_header (set_size (e_hdr e0') (le_enc 3 (zlen (e0 :: r))))
                       (e_data e0') (e_err e0')).
  apply entry_ok_spec in EO0 as (W0 & BO0 & KT0 & DR0 & ER0).
  pose proof (wf_hdr_spec _ W0) as (A & SO & SL & R & V & TC & C).
  assert (EO0'' : entry_ok e0'' = true).
  { unfold e0''. rewrite ER0. apply entry_ok_intro; auto.
    - unfold set_size. apply wf_hdr_enc; auto.
    - unfold htype, set_size; cbn [h_tc]. fold (htype (e_hdr e0')). congruence.
    - unfold data_rule in *. cbn [e_kind e_data e_hdr]. rewrite KK0, K0 in DR0.
      replace (no_data_kind fit_type_fit_header) with true in * by reflexivity. exact DR0. }
  assert (AR0'' : as_read e0'' = e0'') by reflexivity.
  exists (e0'' :: r'). split; [reflexivity|]. split; [|split; [|split]].
  - cbn [forallb]. rewrite EO0''. cbn [andb].
    apply (Forall2_forallb recalc_rel entry_ok r r'); auto. intros a b (H & _); auto.
  - unfold first_ok. unfold e0'' at 1 2 3. cbn [e_kind e_hdr].
    unfold set_size at 1; cbn [h_addr]. rewrite AA0, K0, !Z.eqb_refl. cbn [andb].
    unfold hsz, set_size; cbn [h_size]. rewrite u24_get_enc by lia.
    rewrite !zlen_cons. rewrite (Forall2_zlen _ _ _ Fr). apply Z.eqb_refl.
  - cbn [map]. rewrite AR0''. f_equal. apply (as_read_map_id r); auto.
  - constructor.
    + unfold e0''; cbn [e_kind e_data e_hdr]. unfold set_size; cbn [h_addr].
      repeat split; auto.
    + clear - Fr. induction Fr as [|a b l l' Rab F IH]; constructor; auto.
      destruct Rab as (_ & _ & X1 & X2 & X3). auto.
Qed.

(* RecalculateHeaders, InjectTo, GetEntries *)
Theorem recalc_inject_read img off es es' :
  forallb shape_ok es = true ->
  (exists e0 r, es = e0 :: r /\ e_kind e0 = fit_type_fit_header) -> zlen es < 2 ^ 24 ->
  recalc es = Ok es' -> layout_ok img off es' = true ->
  snd (inject img es' off) = 0 /\ get_entries (fst (inject img es' off)) = Ok es'.
Proof.
  intros SH F N R LO. destruct (recalc_spec es SH F N) as (es'' & R' & EO & FO & AR & _).
  rewrite R in R'. injection R' as <-.
  destruct (inject_read img off es' LO EO FO) as (A & B). rewrite AR in B. auto.
Qed.

(* entries of the unsupported kinds stop the recalculation, and a list that does
   not start with a FIT header entry is refused *)
Lemma recalc_entry_unsupported e :
  (e_kind e =? fit_type_diagnostic_acm) || (e_kind e =? fit_type_tpm_policy) = true ->
  recalc_entry e = Err E_UNSUPPORTED.
Proof.
  intros H. unfold recalc_entry.
  replace (e_kind e =? fit_type_fit_header) with false
    by (unfold fit_type_fit_header, fit_type_diagnostic_acm, fit_type_tpm_policy in *; lia).
  replace (e_kind e =? fit_type_sacm) with false
    by (unfold fit_type_sacm, fit_type_diagnostic_acm, fit_type_tpm_policy in *; lia).
  rewrite H. reflexivity.
Qed.

Lemma dec_hdr_roundtrip_bytes b h : bytes_ok b = true ->
  dec_hdr b = Some h -> wf_hdr h = true /\ enc_hdr h = zfirstn hdr_len b.
Proof. intros OK D. split; [exact (dec_hdr_wf b h OK D)|exact (enc_dec_hdr b h OK D)]. Qed.


(* ================= injecting what the image already holds ================= *)

(* writes of the bytes that are already there change nothing *)
Lemma apply_writes_same ws : forall img,
  (forall w, In w ws -> 0 <= fst w /\ fst w + zlen (snd w) <= zlen img /\
                        sub (fst w) (zlen (snd w)) img = snd w) ->
  apply_writes img ws = img.
Proof.
  induction ws as [|w ws IH]; intros img H; cbn [apply_writes]; auto.
  destruct (H w (or_introl eq_refl)) as (A & B & C).
  assert (E : splice (fst w) (snd w) img = img).
  { rewrite <- C at 1. apply splice_same; auto. apply zlen_nonneg. }
  transitivity (apply_writes img ws); [f_equal; exact E|].
  apply IH. intros w' I. apply H. right; auto.
Qed.

(* an image that holds the entries at [off] is a fixed point of their injection at [off] *)
Theorem inject_same img off es : holds img off es -> layout_ok img off es = true ->
  forallb wf_hdr (map e_hdr es) = true -> inject img es off = (img, 0).
Proof.
  intros [HL HP (O1 & O2) HT HD] LO W. rewrite inject_full by auto. f_equal.
  assert (Lm : zlen (map e_hdr es) = zlen es) by (unfold zlen; rewrite map_length; reflexivity).
  apply apply_writes_same. unfold inject_writes. intros w [<-|[<-|I]]; cbn [fst snd].
  - rewrite le8. assert (FP : fit_pointer_offset = 64) by reflexivity. repeat split; try lia. exact HP.
  - rewrite zlen_enc_table, Lm by auto. repeat split; try lia. exact HT.
  - unfold data_writes in I. apply in_map_iff in I as (e & <- & I). apply filter_In in I as (I & D).
    cbn [fst snd]. destruct (HD e I D) as (A & B & C). repeat split; auto.
Qed.

(* the error class of an entry plays no role in an injection *)
Lemma inject_datas_as_read es : forall st, inject_datas st (map as_read es) = inject_datas st es.
Proof.
  induction es as [|e es IH]; intros st; cbn [map inject_datas]; auto.
  assert (E : inject_data st (as_read e) = inject_data st e).
  { unfold as_read. destruct ((e_kind e =? fit_type_diagnostic_acm) || (e_kind e =? fit_type_tpm_policy)); reflexivity. }
  rewrite E. destruct (inject_data st e) as [st1 c]. destruct (c =? 0); auto.
Qed.

Lemma map_hdr_as_read es : map e_hdr (map as_read es) = map e_hdr es.
Proof.
  rewrite map_map. apply map_ext. intros e. unfold as_read.
  destruct ((e_kind e =? fit_type_diagnostic_acm) || (e_kind e =? fit_type_tpm_policy)); reflexivity.
Qed.

Lemma inject_as_read img es off : inject img (map as_read es) off = inject img es off.
Proof.
  unfold inject. rewrite map_hdr_as_read.
  destruct (rws_seek img (zlen img - fit_pointer_offset)) as [p|]; auto.
  destruct (rws_write img p (le_enc 8 (phys_of_offset off (zlen img)))) as [[st1 p1] ok1].
  destruct ok1; cbn [negb]; auto.
  destruct (rws_seek st1 (s64 off)) as [p2|]; auto.
  destruct (write_headers st1 p2 (map e_hdr es)) as [[st2 p3] ok2].
  destruct ok2; cbn [negb]; auto. apply inject_datas_as_read.
Qed.

Lemma layout_ok_zlen img img' off es : zlen img' = zlen img -> layout_ok img' off es = layout_ok img off es.
Proof. intros L. unfold layout_ok. rewrite L. reflexivity. Qed.

(* inject, read the entries back, inject what was read at the same place: nothing changes *)
Theorem reinject_identity img off es : layout_ok img off es = true ->
  forallb entry_ok es = true -> first_ok es = true ->
  let img' := fst (inject img es off) in
  get_entries img' = Ok (map as_read es) /\ inject img' (map as_read es) off = (img', 0).
Proof.
  intros LO EO F img'. pose proof (entries_wf es EO) as W.
  destruct (inject_holds img off es LO W) as (_ & L & _ & H). fold img' in L, H.
  split; [apply (read_back _ off); auto|].
  rewrite inject_as_read. apply inject_same; auto.
  rewrite (layout_ok_zlen img img') by exact L. exact LO.
Qed.

(* ================= Table.WriteToFirmwareImage ================= *)

(* entries without data carrying the given headers: only the headers matter to the table *)
Definition bare (hs : list hdr) : list entry := map (fun h => mkEntry fit_type_fit_header h [] 0) hs.

(* the first header describes the table: magic and entry count *)
Definition table_first_ok (hs : list hdr) : bool :=
  match hs with
  | [] => false
  | h0 :: _ => (h_addr h0 =? magic_addr) && (hsz h0 =? zlen hs)
  end.

Lemma map_hdr_bare hs : map e_hdr (bare hs) = hs.
Proof. unfold bare. rewrite map_map. cbn [e_hdr]. apply map_id. Qed.

Lemma zlen_bare hs : zlen (bare hs) = zlen hs.
Proof. unfold bare, zlen. rewrite map_length. reflexivity. Qed.

Lemma first_ok_bare hs : table_first_ok hs = true -> first_ok (bare hs) = true.
Proof.
  destruct hs as [|h0 r]; [discriminate|]. unfold table_first_ok, first_ok.
  change (bare (h0 :: r)) with (mkEntry fit_type_fit_header h0 [] 0 :: bare r).
  cbn [e_kind e_hdr]. rewrite !zlen_cons, zlen_bare. intros H.
  apply andb_true_iff in H as [A B]. rewrite A, B, Z.eqb_refl. reflexivity.
Qed.

(* An image that holds a FIT at [off]; a new table [hs] (any length that fits below the end of the image
   and keeps clear of the FIT pointer) whose first header carries the magic and its own entry count:
   WriteToFirmwareImage succeeds, only the bytes of the new table change, and the table found and
   read back afterwards is [hs]. *)
Theorem write_table_spec img off es hs :
  holds img off es -> forallb wf_hdr (map e_hdr es) = true -> first_ok es = true ->
  forallb wf_hdr hs = true -> table_first_ok hs = true ->
  off + hdr_len * zlen hs <= zlen img ->
  disjoint (zlen img - fit_pointer_offset, 8) (off, hdr_len * zlen hs) = true ->
  exists img', write_table img hs = Ok (img', 0) /\ zlen img' = zlen img /\
    (forall k, in_range (Z.of_nat k) (off, hdr_len * zlen hs) = false ->
       nth_error img' k = nth_error img k) /\
    table_range img' = Ok (off, off + hdr_len * zlen hs) /\ get_table img' = Ok hs.
Proof.
  intros H W F Wh Fh Fit Dj.
  pose proof (table_range_holds img off es H W F) as TR.
  destruct H as [(N1 & N2) P (O1 & O2) _ _].
  assert (HL : hdr_len = 16) by reflexivity.
  assert (FP : fit_pointer_offset = 64) by reflexivity.
  pose proof (zlen_nonneg hs) as Nh. pose proof (zlen_enc_table hs Wh) as Lt.
  set (img' := splice off (enc_table hs) img).
  assert (L : zlen img' = zlen img) by (apply zlen_splice; lia).
  assert (O : forall k, in_range (Z.of_nat k) (off, hdr_len * zlen hs) = false ->
                nth_error img' k = nth_error img k).
  { intros k R. unfold in_range in R; cbn [fst snd] in R.
    destruct (Z_lt_dec (Z.of_nat k) off).
    - apply nth_error_splice_lo; lia.
    - apply nth_error_splice_hi; lia. }
  exists img'. split; [|split; [exact L|split; [exact O|]]].
  - unfold write_table. rewrite TR. cbn [bind fst]. rewrite s64_small by lia.
    rewrite rws_seek_ok by lia. rewrite write_headers_full by (auto; lia). reflexivity.
  - assert (Hd : holds img' off (bare hs)).
    { constructor; rewrite ?L, ?zlen_bare, ?map_hdr_bare.
      - lia.
      - rewrite <- P. apply sub_ext; [lia|]. intros i Hi. apply O.
        unfold disjoint in Dj; cbn [fst snd] in Dj. unfold in_range; cbn [fst snd]. lia.
      - lia.
      - rewrite <- Lt. apply sub_splice; lia.
      - intros e I D. unfold bare in I. apply in_map_iff in I as (h & <- & _). discriminate D. }
    pose proof (first_ok_bare hs Fh) as Fb.
    assert (Wb : forallb wf_hdr (map e_hdr (bare hs)) = true) by (rewrite map_hdr_bare; exact Wh).
    pose proof (table_range_holds img' off (bare hs) Hd Wb Fb) as T1.
    pose proof (get_table_holds img' off (bare hs) Hd Wb Fb) as T2.
    rewrite zlen_bare in T1. rewrite map_hdr_bare in T2. split; assumption.
Qed.

(* the same for an image produced by an injection: the table is replaced, nothing else changes, and
   the new table is what is read back *)
Theorem inject_write_table img off es hs : layout_ok img off es = true ->
  forallb entry_ok es = true -> first_ok es = true ->
  forallb wf_hdr hs = true -> table_first_ok hs = true ->
  off + hdr_len * zlen hs <= zlen img ->
  disjoint (zlen img - fit_pointer_offset, 8) (off, hdr_len * zlen hs) = true ->
  let img1 := fst (inject img es off) in
  exists img2, write_table img1 hs = Ok (img2, 0) /\ zlen img2 = zlen img /\
    (forall k, in_range (Z.of_nat k) (off, hdr_len * zlen hs) = false ->
       nth_error img2 k = nth_error img1 k) /\
    table_range img2 = Ok (off, off + hdr_len * zlen hs) /\ get_table img2 = Ok hs.
Proof.
  intros LO EO F Wh Fh Fit Dj img1. pose proof (entries_wf es EO) as W.
  destruct (inject_holds img off es LO W) as (_ & L & _ & H). fold img1 in L, H.
  rewrite <- L in Fit, Dj.
  destruct (write_table_spec img1 off es hs H W F Wh Fh Fit Dj) as (img2 & A & B & C & D).
  exists img2. rewrite <- L. auto.
Qed.
