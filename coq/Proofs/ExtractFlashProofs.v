(* Proofs/ExtractFlashProofs.v — property C07, second part:
   (1) the text of a path determines the path: [render_path] is injective on the components the code
       produces ([valid_pc]: non-negative offsets and numbers, 16-byte GUIDs), by classifying a text
       into the kind of component it is ([classify_render]) and inverting numbers and GUIDs;
   (2) the parser produces only such components ([parse_nn], [extract_valid]);
   (3) the flash level: the files of the descriptor, the ME / raw / gap regions and the BIOS region have
       pairwise distinct paths ([flash_files_nodup]: regions of a flash layout have strictly increasing
       base offsets, and every region file name carries the base offset), and the directory route of a
       flash image equals the two Assemble passes on the parsed image ([flash_dir_save_eq]). *)
From Coq Require Import ZifyBool ZifyNat.
From Fiano Require Import Base.Bytes Base.BytesLemmas Gen.Consts Model.TightenMe Model.FlashImage Model.Ffs
  Model.Extract Model.ExtractFlash Proofs.TightenMeProofs Proofs.FlashImageProofs Proofs.ExtractProofs.
Open Scope Z_scope.




(* ---------- numbers ---------- *)
Definition dval (c : Z) : Z := if c <? 58 then c - 48 else c - 87.
Definition undig (base : Z) (l : bytes) : Z := fold_right (fun c acc => dval c + base * acc) 0 l.

Lemma dval_digit d : 0 <= d < 16 -> dval (digit_lc d) = d.
Proof.
  intros H. unfold dval, digit_lc. destruct (d <? 10) eqn:E.
  - replace (48 + d <? 58) with true by lia. lia.
  - replace (87 + d <? 58) with false by lia. lia.
Qed.

Definition is_dec (c : Z) : bool := (48 <=? c) && (c <=? 57).
Definition is_hex (c : Z) : bool := is_dec c || ((97 <=? c) && (c <=? 102)).

Lemma digit_lc_dec d : 0 <= d < 10 -> is_dec (digit_lc d) = true.
Proof. intros H. unfold is_dec, digit_lc. replace (d <? 10) with true by lia. lia. Qed.
Lemma digit_lc_hex d : 0 <= d < 16 -> is_hex (digit_lc d) = true.
Proof. intros H. unfold is_hex, is_dec, digit_lc. destruct (d <? 10) eqn:E; lia. Qed.

Lemma undig_digits base : 2 <= base <= 16 -> forall fuel v, 0 <= v < base ^ Z.of_nat fuel ->
  undig base (digits_rev base fuel v) = v.
Proof.
  intros Hb. induction fuel as [|k IH]; intros v Hv.
  - change (Z.of_nat 0) with 0 in Hv. rewrite Z.pow_0_r in Hv. assert (v = 0) by lia. subst. reflexivity.
  - cbn [digits_rev]. destruct (v <? base) eqn:E.
    + cbn. rewrite dval_digit by lia. lia.
    + cbn [undig fold_right]. fold (undig base (digits_rev base k (v / base))).
      assert (0 <= v mod base < base) by (apply Z.mod_pos_bound; lia).
      rewrite dval_digit by lia.
      rewrite IH.
      * rewrite (Z.div_mod v base) at 3 by lia. lia.
      * split; [apply Z.div_pos; lia|].
        apply Z.div_lt_upper_bound; [lia|].
        rewrite Nat2Z.inj_succ, Z.pow_succ_r in Hv by lia. lia.
Qed.

Lemma digits_chars base (P : Z -> bool) : 2 <= base <= 16 ->
  (forall d, 0 <= d < base -> P (digit_lc d) = true) ->
  forall fuel v, 0 <= v -> forallb P (digits_rev base fuel v) = true.
Proof.
  intros Hb HP. induction fuel as [|k IH]; intros v Hv; [reflexivity|].
  cbn [digits_rev]. destruct (v <? base) eqn:E.
  - cbn. rewrite HP by lia. reflexivity.
  - cbn [forallb]. rewrite HP by (apply Z.mod_pos_bound; lia). rewrite IH by (apply Z.div_pos; lia). reflexivity.
Qed.

Lemma digits_rev_nonempty base fuel v : digits_rev base (S fuel) v <> [].
Proof. cbn. destruct (v <? base); discriminate. Qed.

Lemma fuel_enough base v : 2 <= base -> 0 <= v -> v < base ^ Z.of_nat (S (Z.to_nat (Z.log2 v))).
Proof.
  intros Hb Hv. rewrite Nat2Z.inj_succ, Z2Nat.id by apply Z.log2_nonneg.
  destruct (Z.eq_dec v 0) as [->|NZ].
  - cbn. lia.
  - assert (v < 2 ^ Z.succ (Z.log2 v)) by (apply Z.log2_spec; lia).
    assert (2 ^ Z.succ (Z.log2 v) <= base ^ Z.succ (Z.log2 v)).
    { apply Z.pow_le_mono_l. lia. }
    lia.
Qed.

Lemma forallb_rev {A} (P : A -> bool) l : forallb P (rev l) = forallb P l.
Proof.
  induction l as [|x l IH]; [reflexivity|]. cbn. rewrite forallb_app, IH. cbn. rewrite andb_true_r. apply andb_comm.
Qed.

Lemma digits_of_inj base v w : 2 <= base <= 16 -> 0 <= v -> 0 <= w ->
  digits_of base v = digits_of base w -> v = w.
Proof.
  intros Hb Hv Hw H. unfold digits_of in H.
  apply (f_equal (@rev Z)) in H. rewrite !rev_involutive in H.
  apply (f_equal (undig base)) in H.
  rewrite (undig_digits base Hb _ v), (undig_digits base Hb _ w) in H;
    [exact H|split; [lia|apply fuel_enough; lia]..].
Qed.

Lemma digits_of_dec v : 0 <= v -> forallb is_dec (digits_of 10 v) = true.
Proof. intros H. unfold digits_of. rewrite forallb_rev. apply digits_chars; try lia. intros; apply digit_lc_dec; lia. Qed.
Lemma digits_of_hex v : 0 <= v -> forallb is_hex (digits_of 16 v) = true.
Proof. intros H. unfold digits_of. rewrite forallb_rev. apply digits_chars; try lia. intros; apply digit_lc_hex; lia. Qed.
Lemma digits_of_nonempty base v : digits_of base v <> [].
Proof.
  unfold digits_of. intros H. apply (f_equal (@rev Z)) in H. rewrite rev_involutive in H.
  eapply digits_rev_nonempty; eauto.
Qed.

Lemma render_num_nonneg base v : 0 <= v -> render_num base v = digits_of base v.
Proof. intros H. unfold render_num. replace (v <? 0) with false by lia. reflexivity. Qed.

(* render_num is injective on all of Z (a minus sign is not a digit) *)
Lemma render_num_inj base v w : 2 <= base <= 16 -> render_num base v = render_num base w -> v = w.
Proof.
  intros Hb H. unfold render_num in H.
  assert (HD : forall x, 0 <= x -> exists c r, digits_of base x = c :: r /\ is_hex c = true).
  { intros x Hx. pose proof (digits_of_nonempty base x) as NE.
    assert (F : forallb is_hex (digits_of base x) = true).
    { unfold digits_of. rewrite forallb_rev. apply digits_chars; try lia. intros; apply digit_lc_hex; lia. }
    destruct (digits_of base x) as [|c r]; [contradiction|]. cbn in F. apply andb_true_iff in F. exists c, r. tauto. }
  destruct (v <? 0) eqn:V, (w <? 0) eqn:W.
  - inversion H as [H']. apply digits_of_inj in H'; lia.
  - destruct (HD w ltac:(lia)) as (c & r & E & Hc). rewrite E in H. inversion H; subst. discriminate.
  - destruct (HD v ltac:(lia)) as (c & r & E & Hc). rewrite E in H. inversion H; subst. discriminate.
  - apply digits_of_inj in H; lia.
Qed.




(* ---------- the components the code produces ---------- *)
Definition valid_pc (c : pc) : Prop :=
  match c with
  | C_hex v | C_padhex v | N_hexbin v | C_dec v | N_sec v => 0 <= v
  | C_guid g | N_ffs g => zlen g = 16 /\ bytes_ok g = true
  | _ => True
  end.

(* ---------- which kind of component a text is ---------- *)
Definition has_suffix (p s : bytes) : bool := prefixb (rev p) (rev s).
Definition pconsts : list bytes := [tx_bios; tx_ifd; tx_me; tx_fv; tx_fvh; tx_pad; tx_region; tx_ifdbin; tx_mebin].
Fixpoint index_of (s : bytes) (l : list bytes) (k : nat) : option nat :=
  match l with
  | [] => None
  | c :: r => if bytes_eqb s c then Some k else index_of s r (S k)
  end.
Definition classify (s : bytes) : nat :=
  match index_of s pconsts 0 with
  | Some k => k
  | None =>
    if prefixb tx_biospad0x s then 10%nat
    else if prefixb tx_0x s then (if has_suffix tx_bin s then 12%nat else 11%nat)
    else if has_suffix tx_ffs s then 13%nat
    else if has_suffix tx_sec s then 14%nat
    else if (zlen s =? 36) && (nth 8 s 0 =? 45) then 15%nat
    else if forallb is_dec s then 16%nat
    else 17%nat
  end.
Definition tag (c : pc) : nat :=
  match c with
  | C_bios => 0 | C_ifd => 1 | C_me => 2 | N_fv => 3 | N_fvh => 4 | N_pad => 5 | N_region => 6
  | N_ifd => 7 | N_me => 8 | C_padhex _ => 10 | C_hex _ => 11 | N_hexbin _ => 12 | N_ffs _ => 13
  | N_sec _ => 14 | C_guid _ => 15 | C_dec _ => 16 | C_rawdir _ => 17
  end%nat.

(* character classes *)
Definition is_up (c : Z) : bool := is_dec c || ((65 <=? c) && (c <=? 70)).   (* 0-9A-F *)
Definition is_guidc (c : Z) : bool := is_up c || (c =? 45).

Lemma digit_uc_up d : 0 <= d < 16 -> is_up (digit_uc d) = true.
Proof. intros H. unfold is_up, is_dec, digit_uc. destruct (d <? 10) eqn:E; lia. Qed.

Lemma hex2_uc_up b : 0 <= b < 256 -> forallb is_up (hex2_uc b) = true.
Proof.
  intros H. unfold hex2_uc. cbn [forallb].
  rewrite !digit_uc_up; [reflexivity| |].
  - apply Z.mod_pos_bound; lia.
  - split; [apply Z.div_pos; lia|apply Z.div_lt_upper_bound; lia].
Qed.

(* a 16-byte GUID as a tuple *)
Lemma guid16 g : zlen g = 16 -> bytes_ok g = true ->
  exists b0 b1 b2 b3 b4 b5 b6 b7 b8 b9 b10 b11 b12 b13 b14 b15,
    g = [b0; b1; b2; b3; b4; b5; b6; b7; b8; b9; b10; b11; b12; b13; b14; b15] /\
    Forall (fun b => 0 <= b < 256) g.
Proof.
  intros L B. unfold zlen in L.
  do 16 (destruct g as [|? g]; [cbn [length] in L; lia|]).
  destruct g; [|cbn [length] in L; lia].
  do 16 eexists. split; [reflexivity|].
  repeat (rewrite bytes_ok_cons in B; apply andb_true_iff in B; destruct B as [? B]).
  repeat match goal with H : byte_ok _ = true |- _ => apply byte_ok_iff in H end.
  repeat (apply Forall_cons; [assumption|]). apply Forall_nil.
Qed.

Lemma forallb_app' {A} (P : A -> bool) a b : forallb P a = true -> forallb P b = true -> forallb P (a ++ b) = true.
Proof. intros. rewrite forallb_app. apply andb_true_iff; auto. Qed.

Lemma forallb_impl {A} (P Q : A -> bool) l : (forall x, P x = true -> Q x = true) ->
  forallb P l = true -> forallb Q l = true.
Proof. intros H. induction l as [|x l IH]; cbn; [auto|]. intros F. apply andb_true_iff in F. destruct F. rewrite H, IH; auto. Qed.

Lemma guid_string_chars g : zlen g = 16 -> bytes_ok g = true ->
  forallb is_guidc (guid_string g) = true /\ zlen (guid_string g) = 36 /\ nth 8 (guid_string g) 0 = 45 /\
  exists c r, guid_string g = c :: r /\ is_up c = true.
Proof.
  intros L B. destruct (guid16 g L B) as (b0&b1&b2&b3&b4&b5&b6&b7&b8&b9&b10&b11&b12&b13&b14&b15&->&F).
  repeat match goal with H : Forall _ (_ :: _) |- _ => inversion H; clear H; subst end.
  unfold guid_string. cbn [nth].
  assert (U : forall b, 0 <= b < 256 -> forallb is_guidc (hex2_uc b) = true).
  { intros b Hb. eapply forallb_impl; [|apply hex2_uc_up; exact Hb]. intros x Hx. unfold is_guidc. rewrite Hx. reflexivity. }
  split.
  { repeat (apply forallb_app'; [first [apply U; assumption | reflexivity]|]). apply U; assumption. }
  split; [reflexivity|]. split; [reflexivity|].
  unfold hex2_uc at 1. cbn [app]. do 2 eexists. split; [reflexivity|].
  apply digit_uc_up. split; [apply Z.div_pos; lia|apply Z.div_lt_upper_bound; lia].
Qed.

(* ---------- helper facts for the classification ---------- *)

(* the constants start with one of b i m f p *)
Lemma index_none_first x r :
  negb ((x =? 98) || (x =? 105) || (x =? 109) || (x =? 102) || (x =? 112)) = true ->
  index_of (x :: r) pconsts 0 = None.
Proof.
  intros H. unfold pconsts, index_of.
  unfold tx_bios, tx_ifd, tx_me, tx_fv, tx_fvh, tx_pad, tx_region, tx_ifdbin, tx_mebin. cbn [bytes_eqb].
  replace (x =? 98) with false by lia. replace (x =? 105) with false by lia.
  replace (x =? 109) with false by lia. replace (x =? 102) with false by lia.
  replace (x =? 112) with false by lia. reflexivity.
Qed.

Lemma prefixb_cons p0 p x r : prefixb (p0 :: p) (x :: r) = (p0 =? x) && prefixb p r.
Proof. reflexivity. Qed.

Lemma prefix_first_ne p0 p x r : p0 <> x -> prefixb (p0 :: p) (x :: r) = false.
Proof. intros H. rewrite prefixb_cons. replace (p0 =? x) with false by lia. reflexivity. Qed.

Lemma prefix0x_none (P : Z -> bool) s : forallb P s = true -> P 120 = false -> prefixb tx_0x s = false.
Proof.
  intros F N. unfold tx_0x. destruct s as [|x [|y r]]; [reflexivity| |].
  - rewrite prefixb_cons. cbn [prefixb]. apply andb_false_r.
  - rewrite !prefixb_cons. cbn [forallb] in F.
    destruct (120 =? y) eqn:E; [|rewrite andb_false_l, andb_false_r; reflexivity].
    apply Z.eqb_eq in E. subst y.
    apply andb_true_iff in F. destruct F as [_ F]. apply andb_true_iff in F. destruct F as [F _]. congruence.
Qed.

Lemma has_suffix_app a p : has_suffix p (a ++ p) = true.
Proof. unfold has_suffix. rewrite rev_app_distr. apply prefixb_app. Qed.

(* the last character decides *)
Lemma has_suffix_last p pl a l : pl <> l -> has_suffix (p ++ [pl]) (a ++ [l]) = false.
Proof. intros H. unfold has_suffix. rewrite !rev_app_distr. cbn [rev app]. apply prefix_first_ne. exact H. Qed.

Lemma nonempty_last (s : bytes) : s <> [] -> exists a l, s = a ++ [l].
Proof. intros H. destruct (exists_last H) as (a & l & E). eauto. Qed.

Lemma forallb_last (P : Z -> bool) a l : forallb P (a ++ [l]) = true -> P l = true.
Proof. rewrite forallb_app. cbn. intros H. apply andb_true_iff in H. destruct H as [_ H]. apply andb_true_iff in H. tauto. Qed.

Lemma nth8_not_dash (P : Z -> bool) s : forallb P s = true -> P 45 = false -> (nth 8 s 0 =? 45) = false.
Proof.
  intros F N. destruct (nth_in_or_default 8 s 0) as [H|H].
  - rewrite forallb_forall in F. specialize (F _ H). destruct (nth 8 s 0 =? 45) eqn:E; [|reflexivity].
    apply Z.eqb_eq in E. rewrite E in F. congruence.
  - rewrite H. reflexivity.
Qed.




Definition rest_class (s : bytes) : nat :=
  if prefixb tx_0x s then (if has_suffix tx_bin s then 12%nat else 11%nat)
  else if has_suffix tx_ffs s then 13%nat
  else if has_suffix tx_sec s then 14%nat
  else if (zlen s =? 36) && (nth 8 s 0 =? 45) then 15%nat
  else if forallb is_dec s then 16%nat
  else 17%nat.

Lemma classify_first x r :
  negb ((x =? 98) || (x =? 105) || (x =? 109) || (x =? 102) || (x =? 112)) = true ->
  classify (x :: r) = rest_class (x :: r).
Proof.
  intros H. unfold classify. rewrite (index_none_first x r H).
  unfold tx_biospad0x. rewrite prefix_first_ne by lia. reflexivity.
Qed.

Lemma is_dec_first c : is_dec c = true ->
  negb ((c =? 98) || (c =? 105) || (c =? 109) || (c =? 102) || (c =? 112)) = true.
Proof. unfold is_dec. lia. Qed.
Lemma is_up_first c : is_up c = true ->
  negb ((c =? 98) || (c =? 105) || (c =? 109) || (c =? 102) || (c =? 112)) = true.
Proof. unfold is_up, is_dec. lia. Qed.

(* decimal numbers *)
Lemma dec_string v : 0 <= v -> exists c r a l, digits_of 10 v = c :: r /\ is_dec c = true /\
  digits_of 10 v = a ++ [l] /\ is_dec l = true.
Proof.
  intros H. pose proof (digits_of_dec v H) as F. pose proof (digits_of_nonempty 10 v) as NE.
  destruct (nonempty_last _ NE) as (a & l & E).
  destruct (digits_of 10 v) as [|c r] eqn:D; [contradiction|].
  exists c, r, a, l. repeat split; auto.
  - cbn in F. apply andb_true_iff in F. tauto.
  - rewrite E in F. eapply forallb_last; eauto.
Qed.

Lemma class_dec v : 0 <= v -> classify (render_num 10 v) = 16%nat.
Proof.
  intros H. rewrite render_num_nonneg by assumption.
  destruct (dec_string v H) as (c & r & a & l & E1 & Hc & E2 & Hl).
  pose proof (digits_of_dec v H) as F.
  rewrite E1. rewrite classify_first by (apply is_dec_first; exact Hc). rewrite <- E1.
  unfold rest_class.
  rewrite (prefix0x_none is_dec) by (auto; reflexivity).
  rewrite E2.
  change tx_ffs with ([46; 102; 102] ++ [115]). rewrite has_suffix_last by (unfold is_dec in Hl; lia).
  change tx_sec with ([46; 115; 101] ++ [99]). rewrite has_suffix_last by (unfold is_dec in Hl; lia).
  rewrite <- E2. rewrite (nth8_not_dash is_dec) by (auto; reflexivity).
  rewrite andb_false_r. rewrite F. reflexivity.
Qed.

Lemma class_sec v : 0 <= v -> classify (render_num 10 v ++ tx_sec) = 14%nat.
Proof.
  intros H. rewrite render_num_nonneg by assumption.
  destruct (dec_string v H) as (c & r & a & l & E1 & Hc & E2 & Hl).
  pose proof (digits_of_dec v H) as F.
  rewrite E1. cbn [app]. rewrite classify_first by (apply is_dec_first; exact Hc).
  change (c :: r ++ tx_sec) with ((c :: r) ++ tx_sec). rewrite <- E1.
  unfold rest_class.
  rewrite (prefix0x_none (fun x => negb (x =? 120))).
  2:{ apply forallb_app'; [|reflexivity]. eapply forallb_impl; [|exact F]. intros x Hx. unfold is_dec in Hx. lia. }
  2:{ reflexivity. }
  assert (S1 : has_suffix tx_ffs (digits_of 10 v ++ tx_sec) = false).
  { change tx_sec with ([46; 115; 101] ++ [99]). rewrite app_assoc.
    change tx_ffs with ([46; 102; 102] ++ [115]). apply has_suffix_last. lia. }
  rewrite S1, has_suffix_app. reflexivity.
Qed.

(* hexadecimal numbers *)
Lemma hex_string v : 0 <= v -> exists a l, digits_of 16 v = a ++ [l] /\ is_hex l = true.
Proof.
  intros H. pose proof (digits_of_hex v H) as F. pose proof (digits_of_nonempty 16 v) as NE.
  destruct (nonempty_last _ NE) as (a & l & E). exists a, l. split; [assumption|].
  rewrite E in F. eapply forallb_last; eauto.
Qed.

Lemma class_hex v : 0 <= v -> classify (tx_0x ++ render_num 16 v) = 11%nat.
Proof.
  intros H. rewrite render_num_nonneg by assumption.
  destruct (hex_string v H) as (a & l & E & Hl).
  change (tx_0x ++ digits_of 16 v) with (48 :: 120 :: digits_of 16 v).
  rewrite classify_first by reflexivity. unfold rest_class.
  change (prefixb tx_0x (48 :: 120 :: digits_of 16 v)) with true. cbv iota.
  rewrite E. change (48 :: 120 :: a ++ [l]) with ((48 :: 120 :: a) ++ [l]).
  change tx_bin with ([46; 98; 105] ++ [110]). rewrite has_suffix_last; [reflexivity|].
  unfold is_hex, is_dec in Hl. lia.
Qed.

Lemma class_hexbin v : classify (tx_0x ++ render_num 16 v ++ tx_bin) = 12%nat.
Proof.
  change (tx_0x ++ render_num 16 v ++ tx_bin) with (48 :: 120 :: render_num 16 v ++ tx_bin).
  rewrite classify_first by reflexivity. unfold rest_class.
  change (prefixb tx_0x (48 :: 120 :: render_num 16 v ++ tx_bin)) with true. cbv iota.
  change (48 :: 120 :: render_num 16 v ++ tx_bin) with ((48 :: 120 :: render_num 16 v) ++ tx_bin).
  rewrite has_suffix_app. reflexivity.
Qed.

Lemma class_padhex v : classify (tx_biospad0x ++ render_num 16 v) = 10%nat.
Proof. generalize (render_num 16 v). intros X. reflexivity. Qed.

(* GUIDs *)
Lemma class_guid g : zlen g = 16 -> bytes_ok g = true -> classify (guid_string g) = 15%nat.
Proof.
  intros L B. destruct (guid_string_chars g L B) as (F & Len & N8 & c & r & E & Hc).
  rewrite E. rewrite classify_first by (apply is_up_first; exact Hc). rewrite <- E.
  unfold rest_class.
  rewrite (prefix0x_none is_guidc) by (auto; reflexivity).
  pose proof (fun H => nonempty_last (guid_string g) H) as NL.
  destruct NL as (a & l & El). { rewrite E. discriminate. }
  assert (Hl : is_guidc l = true) by (rewrite El in F; eapply forallb_last; eauto).
  rewrite El.
  change tx_ffs with ([46; 102; 102] ++ [115]). rewrite has_suffix_last by (unfold is_guidc, is_up, is_dec in Hl; lia).
  change tx_sec with ([46; 115; 101] ++ [99]). rewrite has_suffix_last by (unfold is_guidc, is_up, is_dec in Hl; lia).
  rewrite <- El, Len, N8. reflexivity.
Qed.

Lemma class_ffs g : zlen g = 16 -> bytes_ok g = true -> classify (guid_string g ++ tx_ffs) = 13%nat.
Proof.
  intros L B. destruct (guid_string_chars g L B) as (F & Len & N8 & c & r & E & Hc).
  rewrite E. cbn [app]. rewrite classify_first by (apply is_up_first; exact Hc).
  change (c :: r ++ tx_ffs) with ((c :: r) ++ tx_ffs). rewrite <- E.
  unfold rest_class.
  rewrite (prefix0x_none (fun x => negb (x =? 120))).
  2:{ apply forallb_app'; [|reflexivity]. eapply forallb_impl; [|exact F]. intros x Hx.
      unfold is_guidc, is_up, is_dec in Hx. lia. }
  2:{ reflexivity. }
  rewrite has_suffix_app. reflexivity.
Qed.

(* region type names *)
Lemma table_classes : forallb (fun p => Nat.eqb (classify (snd p)) 17) region_type_names = true.
Proof. vm_compute. reflexivity. Qed.

Lemma find_some_in {A} (f : A -> bool) l x : find f l = Some x -> In x l /\ f x = true.
Proof. apply find_some. Qed.

Lemma class_rawdir t : classify (region_type_string t) = 17%nat.
Proof.
  unfold region_type_string. destruct (find (fun p => fst p =? t) region_type_names) as [p|] eqn:E.
  - apply find_some in E. destruct E as [Hin _].
    pose proof table_classes as T. rewrite forallb_forall in T. specialize (T p Hin).
    apply Nat.eqb_eq in T. exact T.
  - change (tx_unknown ++ render_num 10 t ++ [41]) with (85 :: (tl tx_unknown ++ render_num 10 t) ++ [41]).
    rewrite classify_first by reflexivity. unfold rest_class.
    unfold tx_0x at 1. rewrite prefix_first_ne by lia.
    change (85 :: (tl tx_unknown ++ render_num 10 t) ++ [41]) with ((85 :: tl tx_unknown ++ render_num 10 t) ++ [41]).
    change tx_ffs with ([46; 102; 102] ++ [115]). rewrite has_suffix_last by lia.
    change tx_sec with ([46; 115; 101] ++ [99]). rewrite has_suffix_last by lia.
    generalize (render_num 10 t). intros X.
    change ((85 :: tl tx_unknown ++ X) ++ [41]) with (85 :: 110 :: 107 :: 110 :: 111 :: 119 :: 110 :: 32 :: 82 :: (skipn 9 tx_unknown ++ X) ++ [41]).
    cbn [nth forallb]. change (82 =? 45) with false. rewrite andb_false_r.
    change (is_dec 85) with false. reflexivity.
Qed.

Theorem classify_render c : valid_pc c -> classify (render_pc c) = tag c.
Proof.
  destruct c; cbn [valid_pc render_pc tag]; intros V;
    first [ apply class_hex; assumption | apply class_padhex | apply class_guid; tauto
          | apply class_dec; assumption | apply class_ffs; tauto | apply class_sec; assumption
          | apply class_rawdir | apply class_hexbin | reflexivity ].
Qed.




Lemma guid_string_inj g g' : zlen g = 16 -> bytes_ok g = true -> zlen g' = 16 -> bytes_ok g' = true ->
  guid_string g = guid_string g' -> g = g'.
Proof.
  intros L B L' B' H. pose proof (guid_text_roundtrip g L B) as R. pose proof (guid_text_roundtrip g' L' B') as R'.
  rewrite H in R. congruence.
Qed.

(* region type names: pairwise distinct keys and names, none starts like "Unknown Region (" *)
Fixpoint names_distinct (l : list (Z * bytes)) : bool :=
  match l with
  | [] => true
  | p :: r => forallb (fun q => negb (fst p =? fst q) && negb (bytes_eqb (snd p) (snd q))) r && names_distinct r
  end.
Lemma table_distinct : names_distinct region_type_names = true.
Proof. vm_compute. reflexivity. Qed.
Lemma table_not_unknown : forallb (fun p => negb (prefixb tx_unknown (snd p))) region_type_names = true.
Proof. vm_compute. reflexivity. Qed.

Lemma names_distinct_inj l : names_distinct l = true -> forall p q, In p l -> In q l -> snd p = snd q -> p = q.
Proof.
  induction l as [|x l IH]; intros D p q Hp Hq E; [destruct Hp|].
  cbn in D. apply andb_true_iff in D. destruct D as [D1 D2]. rewrite forallb_forall in D1.
  destruct Hp as [<-|Hp], Hq as [<-|Hq]; auto.
  - specialize (D1 q Hq). apply andb_true_iff in D1. destruct D1 as [_ D1].
    rewrite E in D1. replace (bytes_eqb (snd q) (snd q)) with true in D1 by (symmetry; apply bytes_eqb_eq; reflexivity).
    discriminate.
  - specialize (D1 p Hp). apply andb_true_iff in D1. destruct D1 as [_ D1].
    rewrite <- E in D1. replace (bytes_eqb (snd p) (snd p)) with true in D1 by (symmetry; apply bytes_eqb_eq; reflexivity).
    discriminate.
Qed.

Lemma region_type_string_inj t t' : region_type_string t = region_type_string t' -> t = t'.
Proof.
  unfold region_type_string.
  destruct (find (fun p => fst p =? t) region_type_names) as [p|] eqn:E,
           (find (fun p => fst p =? t') region_type_names) as [p'|] eqn:E'; intros H.
  - apply find_some in E, E'. destruct E as [Hp Ep], E' as [Hp' Ep'].
    assert (p = p') by (eapply names_distinct_inj; eauto; apply table_distinct). subst. lia.
  - exfalso. apply find_some in E. destruct E as [Hp _].
    pose proof table_not_unknown as T. rewrite forallb_forall in T. specialize (T p Hp).
    rewrite H, prefixb_app in T. discriminate.
  - exfalso. apply find_some in E'. destruct E' as [Hp _].
    pose proof table_not_unknown as T. rewrite forallb_forall in T. specialize (T p' Hp).
    rewrite <- H, prefixb_app in T. discriminate.
  - apply app_inv_head in H. apply app_inv_tail in H. eapply render_num_inj; [|exact H]. lia.
Qed.

Theorem render_pc_inj c c' : valid_pc c -> valid_pc c' -> render_pc c = render_pc c' -> c = c'.
Proof.
  intros V V' H.
  assert (T : tag c = tag c') by (rewrite <- !classify_render by assumption; rewrite H; reflexivity).
  destruct c, c'; cbn [tag] in T; try discriminate; try reflexivity; cbn [render_pc valid_pc] in *.
  - apply app_inv_head in H. f_equal. eapply render_num_inj; [|exact H]. lia.
  - apply app_inv_head in H. f_equal. eapply render_num_inj; [|exact H]. lia.
  - f_equal. apply guid_string_inj; tauto.
  - f_equal. eapply render_num_inj; [|exact H]. lia.
  - apply app_inv_tail in H. f_equal. apply guid_string_inj; tauto.
  - apply app_inv_tail in H. f_equal. eapply render_num_inj; [|exact H]. lia.
  - f_equal. apply region_type_string_inj; assumption.
  - apply app_inv_head in H. apply app_inv_tail in H. f_equal. eapply render_num_inj; [|exact H]. lia.
Qed.

(* ---------- no component contains the separator, none is empty ---------- *)
Definition noslash (s : bytes) : bool := forallb (fun c => negb (c =? 47)) s.

Lemma noslash_app a b : noslash a = true -> noslash b = true -> noslash (a ++ b) = true.
Proof. apply forallb_app'. Qed.

Lemma noslash_num base v : 2 <= base <= 16 -> noslash (render_num base v) = true.
Proof.
  intros Hb.
  assert (D : forall x, 0 <= x -> noslash (digits_of base x) = true).
  { intros x Hx. unfold noslash, digits_of. rewrite forallb_rev.
    eapply forallb_impl; [|apply (digits_chars base is_hex); try lia].
    - intros c Hc. unfold is_hex, is_dec in Hc. lia.
    - intros; apply digit_lc_hex; lia. }
  unfold render_num. destruct (v <? 0) eqn:E; [|apply D; lia].
  unfold noslash. cbn [forallb]. change (negb (45 =? 47)) with true. apply D. lia.
Qed.

Lemma table_noslash : forallb (fun p => noslash (snd p) && negb (zlen (snd p) =? 0)) region_type_names = true.
Proof. vm_compute. reflexivity. Qed.

Lemma render_pc_noslash c : valid_pc c -> noslash (render_pc c) = true /\ render_pc c <> [].
Proof.
  destruct c; cbn [valid_pc render_pc]; intros V;
    try (split; [reflexivity|discriminate]).
  - split; [apply noslash_app; [reflexivity|apply noslash_num; lia]|discriminate].
  - split; [apply noslash_app; [reflexivity|apply noslash_num; lia]|discriminate].
  - destruct V as [L B]. destruct (guid_string_chars g L B) as (F & _ & _ & c & r & E & _).
    split; [|rewrite E; discriminate].
    eapply forallb_impl; [|exact F]. intros x Hx. unfold is_guidc, is_up, is_dec in Hx. lia.
  - split; [apply noslash_num; lia|]. rewrite render_num_nonneg by assumption. apply digits_of_nonempty.
  - destruct V as [L B]. destruct (guid_string_chars g L B) as (F & _ & _ & c & r & E & _).
    split; [|rewrite E; discriminate].
    apply noslash_app; [|reflexivity].
    eapply forallb_impl; [|exact F]. intros x Hx. unfold is_guidc, is_up, is_dec in Hx. lia.
  - split; [apply noslash_app; [apply noslash_num; lia|reflexivity]|].
    intros H. apply app_eq_nil in H. destruct H; discriminate.
  - unfold region_type_string. destruct (find (fun p => fst p =? t) region_type_names) as [p|] eqn:E.
    + apply find_some in E. destruct E as [Hp _].
      pose proof table_noslash as T. rewrite forallb_forall in T. specialize (T p Hp).
      apply andb_true_iff in T. destruct T as [T1 T2]. split; [exact T1|].
      intros H. rewrite H in T2. discriminate.
    + split; [|discriminate].
      apply noslash_app; [reflexivity|]. apply noslash_app; [apply noslash_num; lia|reflexivity].
  - split; [|discriminate].
    apply noslash_app; [reflexivity|]. apply noslash_app; [apply noslash_num; lia|reflexivity].
Qed.

(* ---------- paths ---------- *)
Definition ptail (r : path) : bytes := match r with [] => [] | _ => 47 :: render_path r end.
Lemma render_path_cons c r : render_path (c :: r) = render_pc c ++ ptail r.
Proof. destruct r; cbn [render_path ptail]; [rewrite app_nil_r|]; reflexivity. Qed.

Lemma split_at_slash (a b x y : bytes) : noslash a = true -> noslash b = true ->
  (x = [] \/ exists x', x = 47 :: x') -> (y = [] \/ exists y', y = 47 :: y') ->
  a ++ x = b ++ y -> a = b /\ x = y.
Proof.
  revert b. induction a as [|c a IH]; intros b Na Nb Hx Hy H.
  - destruct b as [|d b]; [auto|]. exfalso. cbn in H, Nb.
    destruct Hx as [->|(x' & ->)]; [discriminate|]. inversion H; subst. cbn in Nb. discriminate.
  - destruct b as [|d b].
    + exfalso. cbn in H, Na. destruct Hy as [->|(y' & ->)]; [discriminate|]. inversion H; subst. cbn in Na. discriminate.
    + cbn in H. inversion H; subst. cbn in Na, Nb. apply andb_true_iff in Na, Nb.
      destruct (IH b) as [E1 E2]; try tauto. subst. auto.
Qed.

Lemma ptail_shape r : ptail r = [] \/ exists x', ptail r = 47 :: x'.
Proof. destruct r; cbn; eauto. Qed.

Theorem render_path_inj : forall p q, Forall valid_pc p -> Forall valid_pc q ->
  render_path p = render_path q -> p = q.
Proof.
  induction p as [|c p IH]; intros q Vp Vq H.
  - destruct q as [|c' q]; [reflexivity|]. exfalso. inversion Vq; subst.
    rewrite render_path_cons in H. cbn in H. symmetry in H. apply app_eq_nil in H. destruct H as [H _].
    destruct (render_pc_noslash c'); auto.
  - destruct q as [|c' q].
    + exfalso. inversion Vp; subst. rewrite render_path_cons in H. cbn in H. apply app_eq_nil in H. destruct H as [H _].
      destruct (render_pc_noslash c); auto.
    + inversion Vp; inversion Vq; subst. rewrite !render_path_cons in H.
      destruct (render_pc_noslash c) as [N1 _]; auto. destruct (render_pc_noslash c') as [N2 _]; auto.
      destruct (split_at_slash _ _ _ _ N1 N2 (ptail_shape p) (ptail_shape q) H) as [E1 E2].
      f_equal; [apply render_pc_inj; auto|].
      apply IH; auto.
      destruct p, q; cbn [ptail] in E2; try discriminate; [reflexivity|].
      apply (f_equal (@tl Z)) in E2. exact E2.
Qed.

(* distinct component lists give distinct texts *)
Theorem render_nodup (ps : list path) : Forall (Forall valid_pc) ps -> NoDup ps -> NoDup (map render_path ps).
Proof.
  induction ps as [|p ps IH]; intros V N; [constructor|].
  inversion V; inversion N; subst. cbn. constructor; [|apply IH; auto].
  intros Hin. apply in_map_iff in Hin. destruct Hin as (q & Eq & Hq).
  assert (q = p).
  { apply render_path_inj; auto. rewrite Forall_forall in H2. apply H2. exact Hq. }
  subst. contradiction.
Qed.




(* ---------- the parser produces non-negative offsets and section numbers ---------- *)
Lemma nn_sec h b k : nonneg_treeb (NSec h b k) = (0 <=? s_order h) && nonneg_treeb_list k.
Proof. reflexivity. Qed.
Lemma nn_file h b k : nonneg_treeb (NFile h b k) = nonneg_treeb_list k.
Proof. reflexivity. Qed.
Lemma nn_vol h b k : nonneg_treeb (NVol h b k) = (0 <=? v_fvoffset h) && nonneg_treeb_list k.
Proof. reflexivity. Qed.

Section NN.
Variable dec : Z -> bytes -> option bytes.
Variable u2s : bytes -> bytes.
Variable nvar : bytes -> option bytes.

Definition Nsec (f : Z -> bytes -> Z -> outcome (node * Z)) : Prop :=
  forall pol buf order n pol', 0 <= order -> f pol buf order = Ok (n, pol') -> nonneg_treeb n = true.
Definition Nfile (f : Z -> bytes -> outcome (option node * Z)) : Prop :=
  forall pol buf n pol', f pol buf = Ok (Some n, pol') -> nonneg_treeb n = true.
Definition vol_len (n : node) : Z := match n with NVol h _ _ => v_length h | _ => 0 end.
Definition Nfv (f : Z -> bytes -> Z -> bool -> outcome (node * Z)) : Prop :=
  forall pol data fvoff rs n pol', 0 <= fvoff -> f pol data fvoff rs = Ok (n, pol') ->
    nonneg_treeb n = true /\ 0 <= vol_len n.

Lemma sections_loop_nn rec_section : Nsec rec_section -> forall n b pol off i l pol',
  0 <= i -> sections_loop rec_section n b pol off i = Ok (l, pol') -> nonneg_treeb_list l = true.
Proof.
  intros HP. induction n as [|n IH]; intros b pol off i l pol' Hi H; [discriminate|].
  cbn [sections_loop] in H. repeat brk H; inversion H; subst; try reflexivity.
  cbn [nonneg_treeb_list].
  match goal with E : rec_section _ _ _ = Ok _ |- _ => rewrite (HP _ _ _ _ _ Hi E) end.
  match goal with E : sections_loop _ _ _ _ _ _ = Ok _ |- _ => rewrite (IH _ _ _ (i + 1) _ _ ltac:(lia) E) end.
  reflexivity.
Qed.

Lemma section_body_nn rec_section rec_fv : Nsec rec_section -> Nfv rec_fv ->
  Nsec (section_body dec u2s rec_section rec_fv).
Proof.
  intros HS HV pol buf order n pol' Ho H. unfold section_body in H.
  repeat brk H; inversion H; subst; clear H; rewrite nn_sec; cbn [s_order sec_default nonneg_treeb_list];
    replace (0 <=? order) with true by lia; try reflexivity.
  - match goal with E : sections_loop _ _ _ _ _ _ = Ok _ |- _ =>
      rewrite (sections_loop_nn _ HS _ _ _ _ 0 _ _ ltac:(lia) E) end. reflexivity.
  - match goal with E : rec_fv _ _ _ _ = Ok _ |- _ => destruct (HV _ _ 0 _ _ _ ltac:(lia) E) as [-> _] end. reflexivity.
Qed.

Lemma file_body_nn rec_section : Nsec rec_section -> Nfile (file_body nvar rec_section).
Proof.
  intros HS pol buf n pol' H. unfold file_body in H.
  repeat brk H; inversion H; subst; clear H; rewrite nn_file; try reflexivity.
  all: match goal with E : sections_loop _ _ _ _ _ _ = Ok _ |- _ =>
         exact (sections_loop_nn _ HS _ _ _ _ 0 _ _ ltac:(lia) E) end.
Qed.

Lemma files_loop_nn rec_file : Nfile rec_file -> forall n data length pol off l pol' fs,
  files_loop rec_file n data length pol off = Ok (l, pol', fs) -> nonneg_treeb_list l = true.
Proof.
  intros HP. induction n as [|n IH]; intros data length pol off l pol' fs H; [discriminate|].
  cbn [files_loop] in H. repeat brk H; inversion H; subst; clear H; try reflexivity.
  cbn [nonneg_treeb_list].
  match goal with E : rec_file _ _ = Ok (Some _, _) |- _ => rewrite (HP _ _ _ _ E) end.
  match goal with E : files_loop _ _ _ _ _ _ = Ok _ |- _ => rewrite (IH _ _ _ _ _ _ _ E) end.
  reflexivity.
Qed.

Lemma fv_body_nn rec_file : Nfile rec_file -> Nfv (fv_body rec_file).
Proof.
  intros HF pol data fvoff rs n pol' Ho H. unfold fv_body in H.
  repeat brk H; inversion H; subst; clear H; (split; [|cbn [vol_len v_length]; lia]);
    rewrite nn_vol; cbn [v_fvoffset nonneg_treeb_list];
    replace (0 <=? fvoff) with true by lia; try reflexivity.
  match goal with E : files_loop _ _ _ _ _ _ = Ok _ |- _ => rewrite (files_loop_nn _ HF _ _ _ _ _ _ _ _ E) end.
  reflexivity.
Qed.

Theorem parse_nn : forall d,
  Nsec (parse_section dec u2s nvar d) /\ Nfile (parse_file dec u2s nvar d) /\ Nfv (parse_fv dec u2s nvar d).
Proof.
  induction d as [|d (IS & IF & IV)].
  - repeat split; intros; discriminate.
  - split; [|split].
    + change (parse_section dec u2s nvar (S d)) with
        (section_body dec u2s (parse_section dec u2s nvar d) (parse_fv dec u2s nvar d)).
      apply section_body_nn; assumption.
    + change (parse_file dec u2s nvar (S d)) with (file_body nvar (parse_section dec u2s nvar d)).
      apply file_body_nn; assumption.
    + change (parse_fv dec u2s nvar (S d)) with (fv_body (parse_file dec u2s nvar d)).
      apply fv_body_nn; assumption.
Qed.

Lemma parse_bios_nn d : forall n pol buf abs l pol', 0 <= abs ->
  parse_bios dec u2s nvar d n pol buf abs = Ok (l, pol') -> nonneg_treeb_list l = true.
Proof.
  destruct (parse_nn d) as (_ & _ & HV).
  induction n as [|n IH]; intros pol buf abs l pol' Ha H; [discriminate|].
  cbn [parse_bios] in H. cbv zeta in H. repeat brk H; inversion H; subst; clear H.
  - destruct (zlen buf =? 0); cbn; [reflexivity|]. lia.
  - set (offset := find_fv_offset buf) in *.
    match goal with E : parse_fv _ _ _ _ _ _ _ _ = Ok _ |- _ =>
      destruct (HV _ _ (abs + offset) _ _ _ ltac:(lia) E) as [Nv Hlen] end.
    fold (vol_len n0) in *.
    match goal with E : parse_bios _ _ _ _ _ _ _ _ = Ok _ |- _ =>
      pose proof (IH _ _ (abs + offset + vol_len n0) _ _ ltac:(lia) E) as Nr end.
    destruct (0 <? offset); cbn [app nonneg_treeb_list nonneg_treeb]; rewrite Nv, Nr; cbn; lia.
Qed.
End NN.




Definition rbase (sl : list fregion) (r : region) : Z := base_off (region_fr sl r).

(* regions that follow each other without gap have strictly increasing base offsets *)
Lemma chain_bases sl rs : forall off e, Forall (geo sl) rs -> chain sl rs off = Some e ->
  Forall (fun r => off <= rbase sl r) rs /\ NoDup (map (rbase sl) rs).
Proof.
  induction rs as [|r rs IH]; intros off e G C; [split; constructor|].
  inversion G as [|? ? Gr Grs]; subst. cbn [chain] in C.
  destruct (base_off (region_fr sl r) =? off) eqn:E; [|discriminate].
  destruct (IH _ _ Grs C) as [L N].
  pose proof (geo_le sl r Gr) as LT.
  split.
  - constructor; [unfold rbase; lia|].
    eapply Forall_impl; [|exact L]. intros x Hx. unfold rbase in *. lia.
  - cbn [map]. constructor; [|exact N].
    intros Hin. apply in_map_iff in Hin. destruct Hin as (x & Hx & Hin).
    rewrite Forall_forall in L. specialize (L x Hin). unfold rbase in *. lia.
Qed.

Lemma is_bios_region_fr sl r : is_bios_region r = true -> region_fr sl r = slot sl ifd_type_bios.
Proof. destruct r; cbn; try discriminate. intros H. apply Z.eqb_eq in H. subst. reflexivity. Qed.

(* two regions that are not the BIOS region and write the same file start at the same offset *)
Lemma region_path_base sl r r' : is_bios_region r = false -> is_bios_region r' = false ->
  region_path sl r = region_path sl r' -> rbase sl r = rbase sl r'.
Proof.
  unfold rbase. destruct r, r'; cbn; intros B B' H; try discriminate; try reflexivity;
    inversion H; subst; try reflexivity; try assumption.
Qed.

Definition bios_paths (bf : fs) : Prop := forall p, In p (map fst bf) -> exists q, p = C_bios :: q.

Lemma region_path_not_bios sl r q : is_bios_region r = false ->
  (forall els len, r <> RBios els len) -> region_path sl r <> C_bios :: q.
Proof. destruct r; cbn; intros _ H; try discriminate. exfalso. eapply H; reflexivity. Qed.

Definition no_rbios (rs : list region) : Prop := forall r els len, In r rs -> r <> RBios els len.

Lemma geo_no_rbios sl rs : Forall (geo sl) rs -> no_rbios rs.
Proof.
  intros G r els len Hin E. rewrite Forall_forall in G. destruct (G r Hin) as (_ & _ & _ & B).
  subst. discriminate.
Qed.

Lemma region_files_in sl bf rs p : In p (map fst (region_files sl bf rs)) ->
  (In p (map fst bf) /\ exists r, In r rs /\ is_bios_region r = true) \/
  (exists r, In r rs /\ is_bios_region r = false /\ p = region_path sl r).
Proof.
  induction rs as [|r rs IH]; cbn [region_files]; intros H; [destruct H|].
  rewrite map_app in H. apply in_app_or in H. destruct H as [H|H].
  - destruct (is_bios_region r) eqn:B.
    + left. split; [assumption|]. exists r. split; [left; reflexivity|assumption].
    + right. cbn in H. destruct H as [H|[]]. exists r. split; [left; reflexivity|]. split; auto.
  - destruct (IH H) as [(H1 & r' & Hr & Hb)|(r' & Hr & Hb & Hp)].
    + left. split; [assumption|]. exists r'. split; [right; assumption|assumption].
    + right. exists r'. split; [right; assumption|]. split; assumption.
Qed.

Lemma region_files_nodup sl bf rs : NoDup (map (rbase sl) rs) -> no_rbios rs ->
  NoDup (map fst bf) -> bios_paths bf -> NoDup (map fst (region_files sl bf rs)).
Proof.
  intros N. induction rs as [|r rs IH]; intros NB Nbf BP; [constructor|].
  cbn [region_files map] in *. inversion N as [|? ? Nr Nrs]; subst.
  assert (NB' : no_rbios rs) by (intros x els len Hin; apply NB; right; assumption).
  rewrite map_app. apply NoDup_app_disjoint.
  - destruct (is_bios_region r); [assumption|]. cbn. constructor; [intros []|constructor].
  - apply IH; assumption.
  - intros p Hp1 Hp2.
    destruct (region_files_in sl bf rs p Hp2) as [(Hb & r' & Hr' & Br')|(r' & Hr' & Br' & Ep)].
    + destruct (is_bios_region r) eqn:B.
      * apply Nr. apply in_map_iff. exists r'. split; [|assumption].
        unfold rbase. rewrite (is_bios_region_fr sl r B), (is_bios_region_fr sl r' Br'). reflexivity.
      * cbn in Hp1. destruct Hp1 as [E|[]]. destruct (BP p Hb) as [q Eq]. subst p.
        eapply region_path_not_bios; [exact B| |exact Eq]. intros els len. apply NB. left. reflexivity.
    + destruct (is_bios_region r) eqn:B.
      * destruct (BP p Hp1) as [q Eq]. subst p.
        eapply region_path_not_bios; [exact Br'| |exact Eq]. intros els len. apply NB. right. assumption.
      * cbn in Hp1. destruct Hp1 as [E|[]]. subst p.
        apply Nr. apply in_map_iff. exists r'. split; [|assumption].
        symmetry. apply region_path_base; auto.
Qed.

Lemma region_files_heads sl bf rs p : no_rbios rs -> bios_paths bf ->
  In p (map fst (region_files sl bf rs)) -> p <> ifd_path.
Proof.
  intros NB BP H E. subst p.
  destruct (region_files_in sl bf rs _ H) as [(Hb & _)|(r & Hr & Br & Ep)].
  - destruct (BP _ Hb) as [q Eq]. discriminate.
  - destruct r; cbn in Ep; discriminate.
Qed.

Theorem flash_files_nodup t bf off e : Forall (geo (t_slots t)) (t_regions t) ->
  chain (t_slots t) (t_regions t) off = Some e -> NoDup (map fst bf) -> bios_paths bf ->
  NoDup (map fst (flash_files t bf)).
Proof.
  intros G C Nbf BP. unfold flash_files. cbn [map fst].
  destruct (chain_bases _ _ _ _ G C) as [_ N].
  pose proof (geo_no_rbios _ _ G) as NB.
  constructor.
  - intros H. eapply region_files_heads; eauto.
  - apply region_files_nodup; assumption.
Qed.




(* the flash-level JSON projection loses nothing the model carries *)
Lemma proj_region_id r : (forall els len, r <> RBios els len) -> proj_region r (region_buf r) = r.
Proof. destruct r; cbn; intros H; reflexivity. Qed.

Lemma proj_tree_id t : proj_tree t (t_ifd t) (t_regions t) = t.
Proof. destruct t; reflexivity. Qed.

Lemma extract_region_bios_paths B elems js p bf : extract_region B elems = Ok (js, p, bf) -> bios_paths bf.
Proof.
  unfold extract_region. destruct elems as [|x l]; intros H.
  - inversion H; subst. intros q [E|[]]. subst. eexists; reflexivity.
  - destruct (extract_list [C_bios] 0 (x :: l)) as [[[js' f'] i']| | |] eqn:E; cbn [bind] in H; try discriminate.
    inversion H; subst. destruct (extract_list_shape (x :: l) _ _ _ _ _ E) as (_ & T & _).
    intros q Hq. rewrite Forall_forall in T. destruct (T q Hq) as [(g & i & r & _ & Eq)|(k & r & _ & _ & Eq)];
      subst; cbn; eexists; reflexivity.
Qed.

Section Flash.
Variable dec : Z -> bytes -> option bytes.
Variable enc : Z -> bytes -> option bytes.
Variable u2s : bytes -> bytes.
Variable s2u : bytes -> bytes.
Variable nvar : bytes -> option bytes.
Variable mangle3 : Z -> Z.
Variable d : nat.
Hypothesis dec_ok : forall k p e, dec k p = Some e -> bytes_ok e = true.

Lemma reload_regions_id F sl bf rs : NoDup (map fst F) -> no_rbios rs ->
  (forall x, In x (region_files sl bf rs) -> In x F) ->
  reload_regions F sl rs = Ok rs.
Proof.
  intros ND. induction rs as [|r rs IH]; intros NB Hin; [reflexivity|].
  cbn [reload_regions region_files] in *.
  assert (NB' : no_rbios rs) by (intros x els len Hx; apply NB; right; assumption).
  assert (Hin' : forall x, In x (region_files sl bf rs) -> In x F) by (intros x Hx; apply Hin, in_or_app; auto).
  destruct (is_bios_region r) eqn:B.
  - cbn [bind]. rewrite (IH NB' Hin'). reflexivity.
  - assert (R : read_file F (match r with RME _ _ _ => sv_me_path | _ => sv_raw_path end) (region_path sl r)
                = Ok (region_buf r)).
    { assert (Hf : fs_read F (region_path sl r) = Some (region_buf r)).
      { apply fs_read_in; auto. apply Hin. apply in_or_app. left. left. reflexivity. }
      unfold read_file, read_buf.
      destruct r; cbv beta iota delta [sv_me_path sv_raw_path]; rewrite Hf; reflexivity. }
    rewrite R. cbn [bind]. rewrite proj_region_id by (intros els len; apply NB; left; reflexivity).
    rewrite (IH NB' Hin'). reflexivity.
Qed.

Lemma flash_pass_congr t k1 k2 len st : Forall2 rel k1 k2 ->
  out_rel (fun a b => fst (fst (fst a)) = fst (fst (fst b)) /\
                      match snd (fst (fst a)), snd (fst (fst b)) with
                      | Some (e1, l1), Some (e2, l2) => Forall2 orel e1 e2 /\ l1 = l2
                      | None, None => True
                      | _, _ => False
                      end /\
                      snd (fst a) = snd (fst b) /\ snd a = snd b)
          (flash_pass enc s2u t (Some (k1, len)) st) (flash_pass enc s2u t (Some (k2, len)) st).
Proof.
  intros H. unfold flash_pass.
  eapply out_rel_bind with (R := fun a b => fst (fst a) = fst (fst b) /\
                      match snd (fst a), snd (fst b) with
                      | Some (e1, l1), Some (e2, l2) => Forall2 orel e1 e2 /\ l1 = l2
                      | None, None => True
                      | _, _ => False
                      end /\ snd a = snd b).
  - eapply out_rel_bind; [apply (asm_bios_congr enc s2u k1 k2 len st H)|].
    intros [[e1 b1] s1] [[e2 b2] s2] (He & Hb & Hs); cbn [fst snd] in *; subst. cbn. repeat split; auto.
  - intros [[t1 o1] s1] [[t2 o2] s2] (Ht & Ho & Hs); cbn [fst snd] in *; subst.
    destruct (save erase_polarity_poison t2); cbn; auto.
Qed.

Lemma flash_save_twice_congr t k1 k2 len : Forall2 rel k1 k2 ->
  flash_save_twice enc s2u t (Some (k1, len)) = flash_save_twice enc s2u t (Some (k2, len)).
Proof.
  intros H. unfold flash_save_twice. apply out_rel_eq.
  eapply out_rel_bind; [apply (flash_pass_congr t k1 k2 len (240, false) H)|].
  intros [[[t1 o1] b1] s1] [[[t2 o2] b2] s2] (Ht & Ho & Hb & Hs); cbn [fst snd] in *; subst.
  destruct o1 as [[e1 l1]|], o2 as [[e2 l2]|]; try contradiction.
  - destruct Ho as [He ->].
    eapply out_rel_bind; [apply (flash_pass_congr t2 e1 e2 l2 (fst s2, false)); apply Forall2_orel_rel; assumption|].
    intros [[[t1' o1'] b1'] s1'] [[[t2' o2'] b2'] s2'] (_ & _ & Hb' & _); cbn [fst snd] in *; subst. reflexivity.
  - apply out_rel_refl. reflexivity.
Qed.

Lemma bios_bytes_in rs B : bios_bytes rs = Some B -> exists r, In r rs /\ is_bios_region r = true /\ region_buf r = B.
Proof.
  induction rs as [|r rs IH]; cbn; intros H; [discriminate|].
  destruct (is_bios_region r) eqn:E.
  - inversion H. exists r. auto.
  - destruct (IH H) as (x & Hx & Hb & Hr). exists x. auto.
Qed.

(* the directory route on a flash image = the two passes on the parsed image *)
Theorem flash_dir_save_eq img : good_img img ->
  flash_dir_save dec enc u2s s2u nvar mangle3 d img = flash_save_twice_image dec enc u2s s2u nvar d img.
Proof.
  intros G. unfold flash_dir_save, flash_save_twice_image.
  destruct (find_signature img); try (apply image_dir_save; [exact dec_ok|destruct G as [OKI _]; exact OKI]).
  destruct (flash_layout img) as [t| | |] eqn:L; cbn [bind]; try reflexivity.
  destruct (flash_layout_inv img t G L) as (GEO & CH & _ & EI & EB & _).
  unfold bios_tree.
  destruct (bios_bytes (t_regions t)) as [B|] eqn:BB; cbn [bind].
  - (* with a BIOS region *)
    destruct (parse_region dec u2s nvar d B) as [[elems pol]| | |] eqn:P; cbn [bind]; try reflexivity.
    assert (OKB : bytes_ok B = true).
    { destruct (bios_bytes_in _ _ BB) as (r & Hr & _ & <-).
      destruct G as (OKI & _). 
      assert (bytes_ok (concat (map region_buf (t_regions t))) = true) by (rewrite EB; apply bytes_ok_skipn; exact OKI).
      clear -H Hr. induction (t_regions t) as [|x l IH]; [destruct Hr|].
      cbn in H. rewrite bytes_ok_app in H. apply andb_true_iff in H. destruct H. destruct Hr; subst; auto. }
    destruct (parse_region_inv dec u2s nvar dec_ok d B elems pol OKB P) as [W PO].
    unfold flash_extract.
    assert (EX : exists js p bf, extract_region B elems = Ok (js, p, bf)).
    { unfold extract_region. destruct elems as [|x l]; [do 3 eexists; reflexivity|].
      destruct (extract_list_ok (x :: l) W [C_bios] 0) as [[[js f] i'] E]. rewrite E. do 3 eexists; reflexivity. }
    destruct EX as (js & p & bf & EX). rewrite EX. cbn [bind].
    pose proof (extract_paths_nodup B elems js p bf PO EX) as NDb.
    pose proof (extract_region_bios_paths _ _ _ _ _ EX) as BP.
    pose proof (flash_files_nodup t bf _ _ GEO CH NDb BP) as ND.
    set (F := flash_files t bf) in *.
    assert (R1 : read_file F sv_fd_path ifd_path = Ok (t_ifd t)).
    { unfold read_file, read_buf. cbv beta iota delta [sv_fd_path].
      rewrite (fs_read_in F ND ifd_path (t_ifd t)); [reflexivity|]. left. reflexivity. }
    rewrite R1. cbn [bind].
    rewrite (reload_regions_id F (t_slots t) bf (t_regions t) ND (geo_no_rbios _ _ GEO))
      by (intros x Hx; right; exact Hx).
    cbn [bind].
    assert (HB : holds F bf).
    { intros q b Hq. apply fs_read_in; auto. right.
      destruct (bios_bytes_in _ _ BB) as (r & Hr & Br & _).
      clear -Hq Hr Br. induction (t_regions t) as [|x l IH]; [destruct Hr|].
      cbn [region_files]. apply in_or_app. destruct Hr as [->|Hr]; [left; rewrite Br; assumption|right; auto]. }
    assert (RL : reload_list mangle3 F js = Ok (map (json_project mangle3) elems)).
    { unfold extract_region in EX. destruct elems as [|x l].
      - inversion EX; subst. reflexivity.
      - destruct (extract_list [C_bios] 0 (x :: l)) as [[[js' f'] i']| | |] eqn:E; cbn [bind] in EX; try discriminate.
        inversion EX; subst. eapply reload_extract_list; eauto. }
    change (if sv_reg_elems then js else []) with js. rewrite RL. cbn [bind].
    change (if sv_reg_length then zlen B else 0) with (zlen B).
    rewrite proj_tree_id.
    apply flash_save_twice_congr. apply project_list_rel. exact W.
  - (* no BIOS region node *)
    unfold flash_extract. cbn [bind].
    assert (BP : bios_paths []) by (intros q []).
    pose proof (flash_files_nodup t [] _ _ GEO CH (NoDup_nil _) BP) as ND.
    set (F := flash_files t []) in *.
    assert (R1 : read_file F sv_fd_path ifd_path = Ok (t_ifd t)).
    { unfold read_file, read_buf. cbv beta iota delta [sv_fd_path].
      rewrite (fs_read_in F ND ifd_path (t_ifd t)); [reflexivity|]. left. reflexivity. }
    rewrite R1. cbn [bind].
    rewrite (reload_regions_id F (t_slots t) [] (t_regions t) ND (geo_no_rbios _ _ GEO))
      by (intros x Hx; right; exact Hx).
    cbn [bind]. rewrite proj_tree_id. reflexivity.
Qed.

(* the files "extract" writes for a flash image have pairwise distinct paths *)
Theorem flash_paths_nodup img ps : good_img img ->
  flash_extract_paths dec u2s nvar d img = Ok ps -> NoDup ps.
Proof.
  intros G. unfold flash_extract_paths.
  destruct (find_signature img); try (apply image_paths_nodup; [exact dec_ok|destruct G as [OKI _]; exact OKI]).
  intros H.
  destruct (flash_layout img) as [t| | |] eqn:L; cbn [bind] in H; try discriminate.
  destruct (flash_layout_inv img t G L) as (GEO & CH & _ & EI & EB & _).
  unfold bios_tree in H.
  destruct (bios_bytes (t_regions t)) as [B|] eqn:BB; cbn [bind] in H.
  - destruct (parse_region dec u2s nvar d B) as [[elems pol]| | |] eqn:P; cbn [bind] in H; try discriminate.
    assert (OKB : bytes_ok B = true).
    { destruct (bios_bytes_in _ _ BB) as (r & Hr & _ & <-).
      destruct G as (OKI & _).
      assert (Hc : bytes_ok (concat (map region_buf (t_regions t))) = true) by (rewrite EB; apply bytes_ok_skipn; exact OKI).
      clear -Hc Hr. induction (t_regions t) as [|x l IH]; [destruct Hr|].
      cbn in Hc. rewrite bytes_ok_app in Hc. apply andb_true_iff in Hc. destruct Hc. destruct Hr; subst; auto. }
    destruct (parse_region_inv dec u2s nvar dec_ok d B elems pol OKB P) as [W PO].
    unfold flash_extract in H.
    destruct (extract_region B elems) as [[[js p] bf]| | |] eqn:EX; cbn [bind] in H; try discriminate.
    inversion H; subst.
    eapply flash_files_nodup; eauto.
    + eapply extract_paths_nodup; eauto.
    + eapply extract_region_bios_paths; eauto.
  - unfold flash_extract in H. cbn [bind] in H. inversion H; subst.
    eapply flash_files_nodup; eauto; [constructor|intros q []].
Qed.

End Flash.




(* ---------- every component Extract produces for such a tree is valid ---------- *)
Definition vpaths_at (n : node) : Prop :=
  forall dir idx j f i', extract dir idx n = Ok (j, f, i') -> Forall valid_pc dir -> 0 <= idx ->
    wf_treeb n = true -> nonneg_treeb n = true -> Forall (Forall valid_pc) (map fst f).
Definition lvpaths_at (l : list node) : Prop :=
  forall dir idx js f i', extract_list dir idx l = Ok (js, f, i') -> Forall valid_pc dir -> 0 <= idx ->
    wf_treeb_list l = true -> nonneg_treeb_list l = true -> Forall (Forall valid_pc) (map fst f).

Lemma lvpaths_of_Forall l : Forall vpaths_at l -> lvpaths_at l.
Proof.
  induction 1 as [|x l Hx Hl IH]; intros dir idx js f i' H Vd Hi W N.
  - cbn in H. inversion H; subst. constructor.
  - rewrite extract_list_cons in H.
    destruct (extract dir idx x) as [[[j f1] i1]| | |] eqn:E1; cbn [bind] in H; try discriminate.
    destruct (extract_list dir i1 l) as [[[js' f2] i2]| | |] eqn:E2; cbn [bind] in H; try discriminate.
    inversion H; subst. cbn in W, N. apply andb_true_iff in W, N. destruct W as [W1 W2], N as [N1 N2].
    destruct (extract_shape x _ _ _ _ _ E1) as (L1 & _).
    rewrite map_app. apply Forall_app. split.
    + eapply Hx; eauto.
    + eapply IH; eauto. lia.
Qed.

Lemma valid1 c : valid_pc c -> Forall valid_pc [c].
Proof. intros; constructor; [assumption|constructor]. Qed.
Lemma valid2 c c' : valid_pc c -> valid_pc c' -> Forall valid_pc [c; c'].
Proof. intros; constructor; [assumption|apply valid1; assumption]. Qed.

Lemma valid_app a b : Forall valid_pc a -> Forall valid_pc b -> Forall valid_pc (a ++ b).
Proof. intros. apply Forall_app. auto. Qed.

Theorem extract_valid : forall n, vpaths_at n.
Proof.
  induction n as [o b|h b k IH|h b k IH|h b k IH] using node_ind2; intros dir idx j f i' H Vd Hi W N.
  - rewrite extract_pad in H. inversion H; subst. cbn in N. cbn [map fst].
    constructor; [|constructor]. apply valid_app; [assumption|]. apply valid2; cbn; [lia|exact I].
  - rewrite extract_sec in H. cbv zeta in H.
    rewrite wf_sec in W. rewrite nn_sec in N. apply andb_true_iff in W, N. destruct W as [_ W], N as [N1 N2].
    assert (Vd' : Forall valid_pc (dir ++ [C_dec (s_order h)])).
    { apply valid_app; [assumption|]. apply valid1. cbn. lia. }
    destruct (extract_list _ idx k) as [[[js f2] i2]| | |] eqn:E; cbn [bind] in H; try discriminate.
    inversion H; subst. rewrite map_app. apply Forall_app. split.
    + unfold sec_own. destruct k; cbn; [|constructor]. constructor; [|constructor].
      apply valid_app; [assumption|]. apply valid1. cbn. lia.
    + eapply (lvpaths_of_Forall k IH); eauto.
  - rewrite extract_file in H. cbv zeta in H.
    rewrite wf_file in W. rewrite nn_file in N. apply andb_true_iff in W. destruct W as [W0 W].
    apply andb_true_iff in W0. destruct W0 as [Wl Wb].
    assert (Vg : zlen (f_guid h) = 16 /\ bytes_ok (f_guid h) = true) by (split; [lia|assumption]).
    assert (Vd' : Forall valid_pc (dir ++ [C_guid (f_guid h); C_dec idx])).
    { apply valid_app; [assumption|]. apply valid2; cbn; [tauto|lia]. }
    destruct (extract_list _ (idx + 1) k) as [[[js f2] i2]| | |] eqn:E; cbn [bind] in H; try discriminate.
    inversion H; subst. rewrite map_app. apply Forall_app. split.
    + unfold file_own. destruct k, (f_nvar h); cbn; try apply Forall_nil.
      constructor; [|constructor]. apply valid_app; [assumption|]. apply valid1. cbn. tauto.
    + eapply (lvpaths_of_Forall k IH); eauto. lia.
  - rewrite extract_vol in H. cbv zeta in H.
    rewrite wf_vol in W. rewrite nn_vol in N. apply andb_true_iff in W, N. destruct W as [_ W], N as [N1 N2].
    assert (Vd' : Forall valid_pc (dir ++ [C_hex (v_fvoffset h)])).
    { apply valid_app; [assumption|]. apply valid1. cbn. lia. }
    destruct (vol_own _ h b k) as [own| | |] eqn:O; cbn [bind] in H; try discriminate.
    destruct (extract_list _ idx k) as [[[js f2] i2]| | |] eqn:E; cbn [bind] in H; try discriminate.
    inversion H; subst. cbn [map]. constructor.
    + unfold vol_own in O. destruct k.
      * inversion O; subst. cbn. apply valid_app; [assumption|]. apply valid1. exact I.
      * destruct (slice 0 (v_dataoff h) b); cbn in O; inversion O; subst. cbn.
        apply valid_app; [assumption|]. apply valid1. exact I.
    + eapply (lvpaths_of_Forall k IH); eauto.
Qed.

Lemma extract_region_valid B elems js p f : extract_region B elems = Ok (js, p, f) ->
  wf_treeb_list elems = true -> nonneg_treeb_list elems = true -> Forall (Forall valid_pc) (map fst f).
Proof.
  unfold extract_region. destruct elems as [|x l]; intros H W N.
  - inversion H; subst. repeat constructor.
  - destruct (extract_list [C_bios] 0 (x :: l)) as [[[js' f'] i']| | |] eqn:E; cbn [bind] in H; try discriminate.
    inversion H; subst.
    eapply (lvpaths_of_Forall (x :: l)); eauto; try lia.
    + apply Forall_forall. intros y _. apply extract_valid.
    + repeat constructor.
Qed.

Section Images.
Variable dec : Z -> bytes -> option bytes.
Variable u2s : bytes -> bytes.
Variable nvar : bytes -> option bytes.
Variable d : nat.
Hypothesis dec_ok : forall k p e, dec k p = Some e -> bytes_ok e = true.

(* for every image without flash descriptor: the TEXTS of the extract paths are pairwise distinct *)
Theorem image_path_texts_nodup img ps : bytes_ok img = true ->
  extract_paths dec u2s nvar d img = Ok ps -> NoDup (map render_path ps).
Proof.
  intros Hb H. pose proof (image_paths_nodup dec u2s nvar dec_ok d img ps Hb H) as ND.
  apply render_nodup; [|exact ND].
  unfold extract_paths in H.
  destruct (parse_region dec u2s nvar d img) as [[elems pol]| | |] eqn:P; cbn [bind] in H; try discriminate.
  destruct (parse_region_inv dec u2s nvar dec_ok d img elems pol Hb P) as [W _].
  destruct (extract_region img elems) as [[[js p] f]| | |] eqn:E; cbn [bind] in H; try discriminate.
  inversion H; subst. eapply extract_region_valid; eauto.
  unfold parse_region in P. eapply parse_bios_nn; [|exact P]. lia.
Qed.

Lemma region_files_valid sl bf rs : Forall (geo sl) rs -> Forall (Forall valid_pc) (map fst bf) ->
  Forall (Forall valid_pc) (map fst (region_files sl bf rs)).
Proof.
  intros G Vb. induction G as [|r rs Gr Grs IH]; [constructor|].
  cbn [region_files]. rewrite map_app. apply Forall_app. split; [|exact IH].
  destruct (is_bios_region r); [exact Vb|]. cbn. constructor; [|constructor].
  destruct Gr as (OK & _). apply fr_ok_spec in OK. unfold base_off in *.
  destruct r; cbn [region_path region_fr] in *; apply valid2; cbn [valid_pc]; try exact I; unfold base_off; change ifd_block with 4096; lia.
Qed.

(* the same for Intel flash images *)
Theorem flash_path_texts_nodup img ps : good_img img ->
  flash_extract_paths dec u2s nvar d img = Ok ps -> NoDup (map render_path ps).
Proof.
  intros G H. pose proof (flash_paths_nodup dec u2s nvar d dec_ok img ps G H) as ND.
  apply render_nodup; [|exact ND].
  unfold flash_extract_paths in H.
  destruct (find_signature img) eqn:FS.
  2-4: (assert (Forall (Forall valid_pc) ps); [|assumption]).
  2-4: (destruct G as [Hb _]; unfold extract_paths in H;
        destruct (parse_region dec u2s nvar d img) as [[elems pol]| | |] eqn:P; cbn [bind] in H; try discriminate;
        destruct (parse_region_inv dec u2s nvar dec_ok d img elems pol Hb P) as [W _];
        destruct (extract_region img elems) as [[[js p] f]| | |] eqn:E; cbn [bind] in H; try discriminate;
        inversion H; subst; eapply extract_region_valid; eauto;
        unfold parse_region in P; eapply parse_bios_nn; [|exact P]; lia).
  destruct (flash_layout img) as [t| | |] eqn:L; cbn [bind] in H; try discriminate.
  destruct (flash_layout_inv img t G L) as (GEO & CH & _ & EI & EB & _).
  unfold bios_tree in H.
  destruct (bios_bytes (t_regions t)) as [B|] eqn:BB; cbn [bind] in H.
  - destruct (parse_region dec u2s nvar d B) as [[elems pol]| | |] eqn:P; cbn [bind] in H; try discriminate.
    assert (OKB : bytes_ok B = true).
    { destruct (bios_bytes_in _ _ BB) as (r & Hr & _ & <-).
      destruct G as (OKI & _).
      assert (Hc : bytes_ok (concat (map region_buf (t_regions t))) = true) by (rewrite EB; apply bytes_ok_skipn; exact OKI).
      clear -Hc Hr. induction (t_regions t) as [|x l IH]; [destruct Hr|].
      cbn in Hc. rewrite bytes_ok_app in Hc. apply andb_true_iff in Hc. destruct Hc. destruct Hr; subst; auto. }
    destruct (parse_region_inv dec u2s nvar dec_ok d B elems pol OKB P) as [W PO].
    unfold flash_extract in H.
    destruct (extract_region B elems) as [[[js p] bf]| | |] eqn:EX; cbn [bind] in H; try discriminate.
    inversion H; subst. unfold flash_files. cbn [map fst]. constructor; [repeat constructor|].
    apply region_files_valid; [exact GEO|].
    eapply extract_region_valid; eauto.
    unfold parse_region in P. eapply parse_bios_nn; [|exact P]. lia.
  - unfold flash_extract in H. cbn [bind] in H. inversion H; subst.
    unfold flash_files. cbn [map fst]. constructor; [repeat constructor|].
    apply region_files_valid; [exact GEO|constructor].
Qed.

End Images.
