(* Proofs/FramingProofs.v — framing theorems over codec oracles. *)
From Fiano Require Import Base.Bytes Base.BytesLemmas Gen.Consts Model.Bcj Model.Framing Proofs.BcjProofs.
From Coq Require Import ZifyBool ZifyNat.
Open Scope Z_scope.

Lemma repeatz_length x n : length (repeatz x n) = n.
Proof. induction n as [|n IH]; cbn [repeatz length]; auto. Qed.

Lemma zlen_zrepeat x n : 0 <= n -> zlen (zrepeat x n) = n.
Proof. intros H. unfold zlen, zrepeat. rewrite repeatz_length. lia. Qed.

Lemma u32_range x : 0 <= u32 x < 2^32.
Proof. unfold u32. apply Z.mod_pos_bound. reflexivity. Qed.

Lemma zlib_consts_ok : 0 <= zlib_size_offset /\ zlib_size_offset + 4 <= zlib_header_size.
Proof. vm_compute. split; discriminate. Qed.

Lemma zlen_zlib_header n : zlen (zlib_header n) = zlib_header_size.
Proof.
  pose proof zlib_consts_ok as [H0 H1]. unfold zlib_header.
  rewrite zlen_splice; rewrite ?zlen_zrepeat, ?le4; try lia.
Qed.

Lemma zlib_header_field n : sub zlib_size_offset 4 (zlib_header n) = le_enc 4 (u32 n).
Proof.
  pose proof zlib_consts_ok as [H0 H1]. unfold zlib_header.
  rewrite <- (le4 (u32 n)) at 1. apply sub_splice; rewrite ?zlen_zrepeat, ?le4; lia.
Qed.

Lemma nth_error_repeatz x n i : (i < n)%nat -> nth_error (repeatz x n) i = Some x.
Proof.
  revert i; induction n as [|n IH]; intros i H; [lia|].
  destruct i as [|i]; [reflexivity|]. cbn [repeatz nth_error]. apply IH. lia.
Qed.

(* every header byte outside the size field is zero *)
Lemma zlib_header_zero n i : 0 <= i < zlib_header_size ->
  ~ (zlib_size_offset <= i < zlib_size_offset + 4) -> index i (zlib_header n) = Some 0.
Proof.
  intros Hi Hn. pose proof zlib_consts_ok as [H0 H1].
  unfold index. rewrite zlen_zlib_header.
  replace ((0 <=? i) && (i <? zlib_header_size)) with true by lia.
  unfold zlib_header.
  assert (Z.of_nat (Z.to_nat i) = i) as Ei by lia.
  destruct (Z_lt_le_dec i zlib_size_offset) as [Hlo|Hhi].
  - rewrite nth_error_splice_lo; rewrite ?zlen_zrepeat, ?le4; try lia.
    apply nth_error_repeatz. lia.
  - rewrite nth_error_splice_hi; rewrite ?zlen_zrepeat, ?le4; try lia.
    apply nth_error_repeatz. lia.
Qed.

(* the codec cores are explicit function parameters of every lemma *)

  (* ---- ZLIB ---- *)

  Lemma zlib_frame_header_l (zl_enc : bytes -> bytes) x :
    exists h, zlib_encode zl_enc x = Ok (h ++ zl_enc x) /\ zlen h = zlib_header_size /\
      rd zlib_size_offset 4 h = zlen (zl_enc x) mod 2^32 /\
      (forall i, 0 <= i < zlib_header_size ->
         ~ (zlib_size_offset <= i < zlib_size_offset + 4) -> index i h = Some 0).
  Proof.
    exists (zlib_header (zlen (zl_enc x))). split; [reflexivity|]. split; [apply zlen_zlib_header|].
    split; [|apply zlib_header_zero].
    unfold rd. change (Z.of_nat 4) with 4. rewrite zlib_header_field.
    apply le_dec_enc. change (256 ^ Z.of_nat 4) with (2^32). apply u32_range.
  Qed.

  Lemma zlib_decode_frame (zl_dec : bytes -> outcome bytes) h c : zlen h = zlib_header_size ->
    rd zlib_size_offset 4 h = zlen c mod 2^32 ->
    zlib_decode zl_dec (h ++ c) = zl_dec c.
  Proof.
    intros Hh Hf. pose proof zlib_consts_ok as [H0 H1]. pose proof (zlen_nonneg c) as Hc.
    unfold zlib_decode. rewrite zlen_app, Hh.
    replace (zlib_header_size + zlen c <? zlib_header_size) with false by lia.
    rewrite slice_ok by (rewrite ?zlen_app; lia). cbn [of_opt bind].
    replace (zlib_size_offset + 4 - zlib_size_offset) with 4 by lia.
    assert (Es : sub zlib_size_offset 4 (h ++ c) = sub zlib_size_offset 4 h).
    { unfold sub, zfirstn, zskipn. rewrite skipn_app.
      rewrite firstn_app.
      replace (4 - _)%nat with 0%nat.
      2:{ rewrite skipn_length. unfold zlen in *. change (Z.to_nat 4) with 4%nat. lia. }
      cbn [firstn]. rewrite app_nil_r. reflexivity. }
    rewrite Es. unfold rd in Hf. change (Z.of_nat 4) with 4 in Hf. rewrite Hf.
    replace (zlib_header_size + zlen c - zlib_header_size) with (zlen c) by lia.
    unfold u32. rewrite Z.eqb_refl. cbn [negb].
    rewrite slice_ok by (rewrite ?zlen_app; lia). cbn [of_opt bind].
    unfold sub. rewrite <- Hh. rewrite zskipn_app_exact.
    replace (zlen h + zlen c - zlen h) with (zlen c) by lia.
    unfold zfirstn, zlen. rewrite Nat2Z.id, firstn_all. reflexivity.
  Qed.

  Lemma zlib_frame_roundtrip_l (zl_enc : bytes -> bytes) (zl_dec : bytes -> outcome bytes) x : zl_dec (zl_enc x) = Ok x ->
    bind (zlib_encode zl_enc x) (zlib_decode zl_dec) = Ok x.
  Proof.
    intros H. destruct (zlib_frame_header_l zl_enc x) as (h & E & Lh & F & _).
    rewrite E. cbn [bind]. rewrite zlib_decode_frame by assumption. exact H.
  Qed.

  (* Decode refuses anything whose length is not header + the recorded size *)
  Lemma zlib_decode_rejects_l (zl_dec : bytes -> outcome bytes) e :
    (zlen e < zlib_header_size -> zlib_decode zl_dec e = Err E_ZLIB_NOHEADER) /\
    (zlib_header_size <= zlen e ->
       rd zlib_size_offset 4 e <> (zlen e - zlib_header_size) mod 2^32 ->
       zlib_decode zl_dec e = Err E_ZLIB_SIZE).
  Proof.
    pose proof zlib_consts_ok as [H0 H1]. unfold zlib_decode. split; intros H.
    - replace (zlen e <? zlib_header_size) with true by lia. reflexivity.
    - intros Hne. replace (zlen e <? zlib_header_size) with false by lia.
      rewrite slice_ok by lia. cbn [of_opt bind].
      replace (zlib_size_offset + 4 - zlib_size_offset) with 4 by lia.
      unfold rd in Hne. change (Z.of_nat 4) with 4 in Hne. unfold u32.
      replace (le_dec (sub zlib_size_offset 4 e) =? (zlen e - zlib_header_size) mod 2 ^ 32)
        with false by lia.
      reflexivity.
  Qed.

  (* ---- LZMA / SystemLZMA: the size field is written by fiano itself ---- *)

  Lemma patch_size_l x e : lzma_header_len <= zlen e -> zlen x < 2^64 ->
    exists e', patch_size x e = Ok e' /\ zlen e' = zlen e /\
      rd lzma_size_off 8 e' = zlen x /\
      (forall i, (Z.of_nat i < lzma_size_off \/ lzma_header_len <= Z.of_nat i) ->
         nth_error e' i = nth_error e i).
  Proof.
    intros Hl Hs. unfold patch_size.
    replace (zlen e <? lzma_header_len) with false by lia.
    unfold lzma_header_len, lzma_size_off in *.
    pose proof (zlen_nonneg x) as Hx0.
    eexists. split; [reflexivity|].
    split; [apply zlen_splice; rewrite ?le8; lia|].
    split.
    - unfold rd. change (Z.of_nat 8) with 8.
      rewrite <- (le8 (zlen x mod 2^64)) at 1.
      rewrite sub_splice by (rewrite ?le8; lia).
      rewrite le_dec_enc.
      + apply Z.mod_small. lia.
      + change (256 ^ Z.of_nat 8) with (2^64). apply Z.mod_pos_bound. lia.
    - intros i [Hi | Hi].
      + apply nth_error_splice_lo; rewrite ?le8; lia.
      + apply nth_error_splice_hi; rewrite ?le8; lia.
  Qed.

  Lemma syslzma_header_l (xz_run : bytes -> outcome bytes) x e : xz_run x = Ok e -> lzma_header_len <= zlen e -> zlen x < 2^64 ->
    exists e', syslzma_encode xz_run x = Ok e' /\ zlen e' = zlen e /\
      rd lzma_size_off 8 e' = zlen x /\
      (forall i, (Z.of_nat i < lzma_size_off \/ lzma_header_len <= Z.of_nat i) ->
         nth_error e' i = nth_error e i).
  Proof.
    intros Hx Hl Hs. unfold syslzma_encode. rewrite Hx. cbn [bind]. apply patch_size_l; assumption.
  Qed.

  Lemma lzma_header_l (lz_run : bool -> bytes -> outcome bytes) x e : lz_run (zlen x =? 0) x = Ok e -> lzma_header_len <= zlen e ->
    zlen x < 2^64 ->
    exists e', lzma_encode lz_run x = Ok e' /\ zlen e' = zlen e /\
      rd lzma_size_off 8 e' = zlen x /\
      (forall i, (Z.of_nat i < lzma_size_off \/ lzma_header_len <= Z.of_nat i) ->
         nth_error e' i = nth_error e i).
  Proof.
    intros Hx Hl Hs. unfold lzma_encode. rewrite Hx. cbn [bind]. apply patch_size_l; assumption.
  Qed.

  (* ---- LZMAX86 = branch filter around any lossless inner codec ---- *)

  Lemma lzmax86_roundtrip_l (c_enc c_dec : bytes -> outcome bytes) x : bytes_ok x = true ->
    (forall y, bytes_ok y = true -> bind (c_enc y) c_dec = Ok y) ->
    bind (lzmax86_encode c_enc x) (lzmax86_decode c_dec) = Ok x.
  Proof.
    intros Hok Hc. unfold lzmax86_encode, lzmax86_decode.
    destruct (x86_convert_run true 0 0 x) as (s1 & r1 & E1). rewrite E1. cbn [bind].
    set (y := run true (u32 (0 + 5)) 0 (Z.land 0 7) x) in *.
    assert (Hy : bytes_ok y = true).
    { apply (run_bytes_ok_n true _ (length x)); auto. vm_compute. split; discriminate. }
    specialize (Hc y Hy).
    destruct (c_enc y) as [e| | |] eqn:Ee; cbn [bind] in Hc |- *; try discriminate Hc.
    rewrite Hc. cbn [bind].
    destruct (x86_convert_roundtrip 0 0 x y s1 r1 Hok E1) as (s2 & r2 & E2).
    rewrite E2. reflexivity.
  Qed.

(* ---- the size field of the filtered codec: LZMAX86.Encode hands the FILTERED copy to the
   inner encoder, whose size field therefore speaks of the filtered data; the filter keeps
   the length, so the header of LZMAX86 output carries the length of the original input. ---- *)

Lemma patch_size_inv x e e' : zlen x < 2^64 -> patch_size x e = Ok e' ->
  lzma_header_len <= zlen e' /\ rd lzma_size_off 8 e' = zlen x.
Proof.
  intros Hs H. unfold patch_size in H.
  destruct (zlen e <? lzma_header_len) eqn:El; [discriminate H|].
  assert (Hl : lzma_header_len <= zlen e) by lia.
  destruct (patch_size_l x e Hl Hs) as (e2 & E2 & Hlen & Hrd & _).
  unfold patch_size in E2. rewrite El in E2. rewrite H in E2. inversion E2; subst e2.
  split; [lia | exact Hrd].
Qed.

Lemma lzma_encode_sized (lz_run : bool -> bytes -> outcome bytes) :
  forall y e, zlen y < 2^64 -> lzma_encode lz_run y = Ok e ->
  lzma_header_len <= zlen e /\ rd lzma_size_off 8 e = zlen y.
Proof.
  intros y e Hs H. unfold lzma_encode in H.
  destruct (lz_run (zlen y =? 0) y) as [r| | |]; cbn [bind] in H; try discriminate H.
  exact (patch_size_inv y r e Hs H).
Qed.

Lemma syslzma_encode_sized (xz_run : bytes -> outcome bytes) :
  forall y e, zlen y < 2^64 -> syslzma_encode xz_run y = Ok e ->
  lzma_header_len <= zlen e /\ rd lzma_size_off 8 e = zlen y.
Proof.
  intros y e Hs H. unfold syslzma_encode in H.
  destruct (xz_run y) as [r| | |]; cbn [bind] in H; try discriminate H.
  exact (patch_size_inv y r e Hs H).
Qed.

Lemma lzmax86_header_l (c_enc : bytes -> outcome bytes) x e :
  (forall y r, zlen y = zlen x -> c_enc y = Ok r ->
     lzma_header_len <= zlen r /\ rd lzma_size_off 8 r = zlen y) ->
  lzmax86_encode c_enc x = Ok e ->
  lzma_header_len <= zlen e /\ rd lzma_size_off 8 e = zlen x.
Proof.
  intros Hc H. unfold lzmax86_encode in H.
  destruct (x86_convert_total true 0 0 x) as (d & st' & ret & E & Hlen).
  rewrite E in H. cbn [bind] in H.
  destruct (Hc d e Hlen H) as [H1 H2]. split; [exact H1|]. rewrite H2. exact Hlen.
Qed.

Lemma lzmax86_lzma_header_l (lz_run : bool -> bytes -> outcome bytes) x e : zlen x < 2^64 ->
  lzmax86_encode (lzma_encode lz_run) x = Ok e ->
  lzma_header_len <= zlen e /\ rd lzma_size_off 8 e = zlen x.
Proof.
  intros Hs. apply lzmax86_header_l. intros y r Hy. apply lzma_encode_sized. lia.
Qed.

Lemma lzmax86_syslzma_header_l (xz_run : bytes -> outcome bytes) x e : zlen x < 2^64 ->
  lzmax86_encode (syslzma_encode xz_run) x = Ok e ->
  lzma_header_len <= zlen e /\ rd lzma_size_off 8 e = zlen x.
Proof.
  intros Hs. apply lzmax86_header_l. intros y r Hy. apply syslzma_encode_sized. lia.
Qed.

(* ---- histories: result i depends on argument i only ---- *)

Lemma call_history_nth {A B : Type} (f : A -> B) xs i x :
  nth_error xs i = Some x -> nth_error (call_history f xs) i = Some (f x).
Proof. intros H. unfold call_history. apply map_nth_error. exact H. Qed.

Lemma call_history_independent {A B : Type} (f : A -> B) xs ys i x :
  nth_error xs i = Some x -> nth_error ys i = Some x ->
  length (call_history f xs) = length xs /\
  nth_error (call_history f xs) i = nth_error (call_history f ys) i.
Proof.
  intros H1 H2. split; [apply map_length|].
  rewrite (call_history_nth f xs i x H1), (call_history_nth f ys i x H2). reflexivity.
Qed.
