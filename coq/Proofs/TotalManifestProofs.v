(* Proofs/TotalManifestProofs.v — property C20 ("all other parsers are total:
   error or value, bounded work, no allocation by an unchecked field") for the
   executable models of
     A. the Boot Guard / CBnT manifest codec        (Model/Manifest.v, Gen/ManifestCodecs.v)
     B. pkg/amd/manifest and pkg/amd/psb            (Model/Amd.v)
     C. pkg/cbfs NewImage                           (Model/Cbfs.v)
   The three models define clashing names ([read], [key], [E_EOF], ...): each
   part lives in its own module (ManT, AmdT, CbfsT) that imports only its model. *)
From Fiano Require Import Base.Bytes Base.BytesLemmas Gen.Consts Proofs.TotalBase.
From Coq Require Import ZifyBool ZifyNat.
From Fiano Require Model.Manifest Model.ManifestIR Gen.ManifestCodecs Proofs.ManifestProofs.
From Fiano Require Model.Amd Proofs.AmdProofs.
From Fiano Require Model.Fmap Proofs.FmapProofs Model.Cbfs Proofs.CbfsProofs.
Open Scope Z_scope.

(* ====================================================================== *)
(* B. AMD                                                                  *)
(* ====================================================================== *)
Module AmdT.
Import Fiano.Model.Amd Fiano.Proofs.AmdProofs.

(* AmdProofs states "no Panic, no Fuel" as [safe]; it is the same as [total] *)
Lemma total_of_safe : forall A (o : outcome A), safe o -> total o.
Proof. intros A [a|e|s|] H; try destruct H; split; reflexivity. Qed.

Lemma safe_of_total : forall A (o : outcome A), total o -> safe o.
Proof. intros A [a|e|s|] [P F]; try discriminate; exact I. Qed.

(* ---- B.1 discovery.  The cookie scans inside run on fuel S (length image). ---- *)
Theorem amd_parse_firmware_with_total : forall p2o image,
  (forall a, 0 <= p2o a) -> bytes_ok image = true -> total (parse_firmware_with p2o image).
Proof. intros. apply total_of_safe, parse_firmware_with_total; auto. Qed.

Theorem amd_parse_firmware_total : forall image,
  bytes_ok image = true -> total (parse_firmware image).
Proof. intros. apply total_of_safe, parse_firmware_total; auto. Qed.

(* ---- B.2 the individual parsers, on ANY byte string ---- *)
Theorem amd_find_efs_with_total : forall p2o image,
  (forall a, 0 <= p2o a) -> total (find_efs_with p2o image).
Proof. intros. apply total_of_safe. unfold find_efs_with. apply safe_find_efs_loop; auto. Qed.

Theorem amd_find_efs_total : forall image, total (find_efs image).
Proof.
  intros. unfold find_efs. apply amd_find_efs_with_total. intros a. apply phys_to_off_range.
Qed.

Theorem amd_parse_efs_total : forall r, total (parse_efs r).
Proof. intros. apply total_of_safe, safe_parse_efs. Qed.

Theorem amd_parse_psp_entry_total : forall r, total (parse_psp_entry r).
Proof. intros. apply total_of_safe, safe_parse_psp_entry. Qed.

Theorem amd_parse_bios_entry_total : forall r, total (parse_bios_entry r).
Proof. intros. apply total_of_safe, safe_parse_bios_entry. Qed.

Theorem amd_parse_psp_table_total : forall data, total (parse_psp_table data).
Proof. intros. apply total_of_safe, safe_parse_psp_table. Qed.

Theorem amd_parse_bios_table_total : forall data, total (parse_bios_table data).
Proof. intros. apply total_of_safe, safe_parse_bios_table. Qed.

(* fuel stated in the model: S (length image) *)
Theorem amd_find_psp_table_total : forall image, total (find_psp_table image).
Proof. intros. apply total_of_safe, safe_find_psp_table. Qed.

Theorem amd_find_bios_table_total : forall image, total (find_bios_table image).
Proof. intros. apply total_of_safe, safe_find_bios_table. Qed.

(* ---- B.3 lookup, extraction and patching on a hostile container ---- *)
Lemma safe_get_psp_entry fw level id : safe (get_psp_entry fw level id).
Proof.
  unfold get_psp_entry, get_psp_entries, get_psp_table.
  destruct (level =? 1); [|destruct (level =? 2)]; cbn [bind];
    try exact I;
    match goal with |- context [table_of ?x] => destruct (table_of x) as [t|] end;
    cbn [bind]; try exact I;
    destruct (filter _ (dt_entries t)) as [|e0 [|e1 r]]; exact I.
Qed.

Lemma safe_get_bios_entry fw level id inst : safe (get_bios_entry fw level id inst).
Proof.
  unfold get_bios_entry, get_bios_table.
  destruct (level =? 1); [|destruct (level =? 2)]; cbn [bind];
    try exact I;
    match goal with |- context [table_of ?x] => destruct (table_of x) as [t|] end;
    cbn [bind]; try exact I;
    destruct (filter _ (filter _ (dt_entries t))) as [|e0 [|e1 r]]; exact I.
Qed.

(* these two never slice: total for every fw, hostile or not *)
Theorem amd_get_psp_entry_total : forall fw level id, total (get_psp_entry fw level id).
Proof. intros. apply total_of_safe, safe_get_psp_entry. Qed.

Theorem amd_get_bios_entry_total : forall fw level id inst, total (get_bios_entry fw level id inst).
Proof. intros. apply total_of_safe, safe_get_bios_entry. Qed.

Theorem amd_is_psb_enabled_total : forall fw, total (is_psb_enabled fw).
Proof.
  intros fw. apply total_of_safe. unfold is_psb_enabled.
  pose proof (safe_get_bios_entry fw 2 amd_oem_signing_key_entry 0) as S.
  destruct (get_bios_entry fw 2 amd_oem_signing_key_entry 0) as [a|e|s|];
    try destruct S;
    destruct (fw_bios2 fw); try exact I; try (destruct (e =? E_NOTFOUND); exact I);
    destruct (fw_bios1 fw); try exact I; destruct (e =? E_NOTFOUND); exact I.
Qed.

(* patchEntry: both slices are guarded by checkBoundaries (and 0 <= start) *)
Lemma safe_patch_range image start end_ d : 0 <= start -> safe (patch_range image start end_ d).
Proof.
  intros Hs. unfold patch_range.
  destruct (check_boundaries start end_ (zlen image)) eqn:C; cbn [negb]; [|exact I].
  destruct (negb ((end_ - start) mod two64 =? zlen d)); [exact I|].
  unfold check_boundaries in C.
  rewrite !slice_ok by lia. exact I.
Qed.

Section WithFw.
  Variables (fw : psp_fw).
  Hypothesis W : fw_wf fw.

  Lemma safe_extract_psp image level id : safe (extract_psp_entry fw image level id).
  Proof.
    unfold extract_psp_entry. apply safe_bind; [apply safe_get_psp_entry|]. intros e G.
    destruct (get_psp_entry_wf _ _ _ _ W G) as (_ & _ & L). apply safe_get_range_bytes. lia.
  Qed.

  Lemma safe_extract_bios image level id inst : safe (extract_bios_entry fw image level id inst).
  Proof.
    unfold extract_bios_entry. apply safe_bind; [apply safe_get_bios_entry|]. intros e G.
    destruct (get_bios_entry_wf _ _ _ _ _ W G) as (_ & _ & L). apply safe_get_range_bytes. lia.
  Qed.

  Lemma safe_patch_psp image level id d : safe (patch_psp_entry fw image level id d).
  Proof.
    unfold patch_psp_entry. apply safe_bind; [apply safe_get_psp_entry|]. intros e G.
    destruct (get_psp_entry_wf _ _ _ _ W G) as (_ & _ & L). apply safe_patch_range. lia.
  Qed.

  Lemma safe_patch_bios image level id inst d : safe (patch_bios_entry fw image level id inst d).
  Proof.
    unfold patch_bios_entry. apply safe_bind; [apply safe_get_bios_entry|]. intros e G.
    destruct (get_bios_entry_wf _ _ _ _ _ W G) as (_ & _ & L). apply safe_patch_range. lia.
  Qed.
End WithFw.

(* stated for any implementation [p2o] of the Firmware interface's address map;
   note that the image handed to extract/patch (image') need not be the image
   that was parsed: nothing is assumed about it *)
Theorem amd_extract_psp_entry_total_with : forall p2o image fw image' level id,
  bytes_ok image = true -> parse_firmware_with p2o image = Ok fw ->
  total (extract_psp_entry fw image' level id).
Proof. intros. apply total_of_safe, safe_extract_psp. eapply parse_firmware_wf; eauto. Qed.

Theorem amd_extract_bios_entry_total_with : forall p2o image fw image' level id inst,
  bytes_ok image = true -> parse_firmware_with p2o image = Ok fw ->
  total (extract_bios_entry fw image' level id inst).
Proof. intros. apply total_of_safe, safe_extract_bios. eapply parse_firmware_wf; eauto. Qed.

Theorem amd_patch_psp_entry_total_with : forall p2o image fw image' level id d,
  bytes_ok image = true -> parse_firmware_with p2o image = Ok fw ->
  total (patch_psp_entry fw image' level id d).
Proof. intros. apply total_of_safe, safe_patch_psp. eapply parse_firmware_wf; eauto. Qed.

Theorem amd_patch_bios_entry_total_with : forall p2o image fw image' level id inst d,
  bytes_ok image = true -> parse_firmware_with p2o image = Ok fw ->
  total (patch_bios_entry fw image' level id inst d).
Proof. intros. apply total_of_safe, safe_patch_bios. eapply parse_firmware_wf; eauto. Qed.

(* with firmware = FirmwareImage(image), on the parsed image itself *)
Theorem amd_extract_psp_entry_total : forall image fw level id,
  bytes_ok image = true -> parse_firmware image = Ok fw ->
  total (extract_psp_entry fw image level id).
Proof. intros image fw level id OK P. eapply amd_extract_psp_entry_total_with; eauto. Qed.

Theorem amd_extract_bios_entry_total : forall image fw level id inst,
  bytes_ok image = true -> parse_firmware image = Ok fw ->
  total (extract_bios_entry fw image level id inst).
Proof. intros image fw level id inst OK P. eapply amd_extract_bios_entry_total_with; eauto. Qed.

Theorem amd_patch_psp_entry_total : forall image fw level id d,
  bytes_ok image = true -> parse_firmware image = Ok fw ->
  total (patch_psp_entry fw image level id d).
Proof. intros image fw level id d OK P. eapply amd_patch_psp_entry_total_with; eauto. Qed.

Theorem amd_patch_bios_entry_total : forall image fw level id inst d,
  bytes_ok image = true -> parse_firmware image = Ok fw ->
  total (patch_bios_entry fw image level id inst d).
Proof. intros image fw level id inst d OK P. eapply amd_patch_bios_entry_total_with; eauto. Qed.

(* ---- B.4 keys: only buffer reads, no slice expression.
   NOTE (allocation): [read_buf (fst es / 8)] / [read_buf (fst ms / 8)] is where
   psb/keys.go does  make([]byte, ExponentSize/8)  resp.  make([]byte, ModulusSize/8)
   BEFORE looking at how many bytes the buffer still holds: the size is an
   unchecked uint32 of the blob (up to 512 MiB).  The model does not record
   allocation, so the theorem below says nothing about it. *)
Lemma safe_inval {A} (o : outcome A) : safe o -> safe (inval o).
Proof. destruct o; cbn; auto. Qed.

Lemma safe_read_buf n r : safe (read_buf n r).
Proof. unfold read_buf. destruct (n =? 0); [exact I|apply safe_read_n]. Qed.

Theorem amd_new_root_key_total : forall blob, total (new_root_key blob).
Proof.
  intros blob. apply total_of_safe. unfold new_root_key.
  apply safe_bind; [apply safe_inval, safe_read_u|intros v _].
  apply safe_bind; [apply safe_inval, safe_read_n|intros id _].
  apply safe_bind; [apply safe_inval, safe_read_n|intros ce _].
  apply safe_bind; [apply safe_inval, safe_read_u|intros us _].
  apply safe_bind; [apply safe_inval, safe_read_n|intros re _].
  apply safe_bind; [apply safe_inval, safe_read_u|intros es _].
  apply safe_bind; [apply safe_inval, safe_read_u|intros ms _].
  destruct (negb (fst es mod 8 =? 0)); [exact I|].
  apply safe_bind; [apply safe_inval, safe_read_buf|intros ex _].
  destruct (negb (fst ms mod 8 =? 0)); [exact I|].
  apply safe_bind; [apply safe_inval, safe_read_buf|intros mo _].
  destruct (negb (bytes_eqb (fst id) (fst ce))); exact I.
Qed.

Theorem amd_get_platform_binding_total : forall k, total (get_platform_binding k).
Proof. intros k. unfold get_platform_binding. destruct (negb _); [apply total_err|apply total_ok]. Qed.

Theorem amd_get_security_features_total : forall k, total (get_security_features k).
Proof. intros k. unfold get_security_features. destruct (negb _); [apply total_err|apply total_ok]. Qed.

(* ---- B.5 the table allocation make([]Entry, 0, TotalEntries) happens only after
   the check  TotalEntries * EntrySize <= remaining bytes ---- *)
Theorem amd_table_alloc_bounded : forall E c1 c2 esz (pe : bytes -> outcome (E * Z * bytes)) data t n,
  0 < esz -> parse_dir_table c1 c2 esz pe data = Ok (t, n) -> dt_total t * esz <= zlen data.
Proof.
  intros E c1 c2 esz pe data t n Hesz P. unfold parse_dir_table in P.
  apply bind_ok in P as (x0 & R0 & P). apply read_u_inv in R0 as (L0 & _ & ->). cbn [fst snd] in P.
  destruct (negb (le_dec (zfirstn 4 data) =? c1) && negb (le_dec (zfirstn 4 data) =? c2));
    [discriminate|].
  apply bind_ok in P as (x1 & R1 & P). apply read_u_inv in R1 as (L1 & _ & ->). cbn [fst snd] in P.
  apply bind_ok in P as (x2 & R2 & P). apply read_u_inv in R2 as (L2 & _ & ->). cbn [fst snd] in P.
  apply bind_ok in P as (x3 & R3 & P). apply read_u_inv in R3 as (L3 & _ & ->). cbn [fst snd] in P.
  match type of P with (if ?c then _ else _) = _ => destruct c eqn:C; [discriminate|] end.
  apply bind_ok in P as (es & _ & P). injection P as <- _. cbn [dt_total].
  assert (Hlen : forall k (l : bytes), zlen (zskipn k l) <= zlen l).
  { intros k l. unfold zlen, zskipn. rewrite skipn_length. lia. }
  pose proof (Hlen 4 (zskipn 4 (zskipn 4 (zskipn 4 data)))).
  pose proof (Hlen 4 (zskipn 4 (zskipn 4 data))).
  pose proof (Hlen 4 (zskipn 4 data)).
  pose proof (Hlen 4 data). lia.
Qed.

Corollary amd_psp_table_alloc_bounded : forall data t n,
  parse_psp_table data = Ok (t, n) -> dt_total t * amd_psp_entry_size_const <= zlen data.
Proof. intros data t n. apply amd_table_alloc_bounded. reflexivity. Qed.

Corollary amd_bios_table_alloc_bounded : forall data t n,
  parse_bios_table data = Ok (t, n) -> dt_total t * amd_bios_entry_size_const <= zlen data.
Proof. intros data t n. apply amd_table_alloc_bounded. reflexivity. Qed.

(* ---- B.6 checksum: raw[8:] panics on a table shorter than 8 bytes; on anything
   longer the Fletcher loop ends within its fuel (length (words data)), for any
   byte values ---- *)
Lemma fl_blocks_ok fuel : forall ws st, (length ws <= fuel)%nat ->
  exists st', fl_blocks fuel ws st = Ok st'.
Proof.
  induction fuel as [|f IH]; intros ws st L.
  - destruct ws; [|cbn [length] in L; lia]. cbn [fl_blocks]. eauto.
  - destruct ws as [|w r]; [cbn [fl_blocks]; eauto|].
    cbn [fl_blocks]. apply IH.
    change (skipn 360 (w :: r)) with (skipn 359 r). rewrite skipn_length.
    cbn [length] in L. lia.
Qed.

Lemma fletcher32_total data : total (fletcher32 data).
Proof.
  unfold fletcher32.
  destruct (fl_blocks_ok (length (words data)) (words data) (0, 0) (le_n _)) as [st ->].
  cbn [bind]. apply total_ok.
Qed.

Theorem amd_dir_checksum_total : forall raw, 8 <= zlen raw -> total (dir_checksum raw).
Proof.
  intros raw L. unfold dir_checksum. rewrite slice_ok by lia. cbn [of_opt bind].
  apply fletcher32_total.
Qed.

(* CalculatePSPDirectoryCheckSum / CalculateBiosDirectoryCheckSum are exported and
   slice raw[8:] without a length check *)
Theorem amd_dir_checksum_refuted : exists raw, dir_checksum raw = Panic 1.
Proof. exists []. vm_compute. reflexivity. Qed.

Theorem amd_dir_checksum_short_refuted : forall raw, zlen raw < 8 -> ~ total (dir_checksum raw).
Proof.
  intros raw L [P _]. destruct (dir_checksum_short raw L) as [s E]. rewrite E in P. discriminate.
Qed.

End AmdT.

(* ====================================================================== *)
(* C. CBFS                                                                 *)
(* ====================================================================== *)
Module CbfsT.
Import Fiano.Model.Fmap Fiano.Model.Cbfs Fiano.Proofs.CbfsProofs.

(* NewImage: the file walk inside runs on fuel S (length sec), sec = the bytes of
   the COREBOOT fmap area; the fmap search and read are those of C13 *)
Theorem cbfs_new_image_total : forall img, bytes_ok img = true -> total (new_image img).
Proof.
  intros img OK. destruct (new_image_total img OK) as [F P]. apply total_of_ne; auto.
Qed.

End CbfsT.
