(* Proofs/TotalManifestProofs.v — property C20 ("all other parsers are total:
   error or value, bounded work, no allocation by an unchecked field") for the
   executable models of
     A. the Boot Guard / CBnT manifest codec        (Model/Manifest.v, Gen/ManifestCodecs.v)
     B. pkg/amd/manifest and pkg/amd/psb            (Model/Amd.v)
     C. pkg/cbfs NewImage                           (Model/Cbfs.v)
   The three models define clashing names ([read], [key], [E_EOF], ...): each
   part lives in its own module (ManT, AmdT, CbfsT) that imports only its model. *)
From Fiano Require Import Base.Bytes Base.BytesLemmas Gen.Consts Proofs.TotalBase.
From Coq Require Import ZifyBool ZifyNat.
From Fiano Require Model.Manifest Model.ManifestIR Gen.ManifestCodecs Proofs.ManifestProofs.
From Fiano Require Model.Amd Proofs.AmdProofs.
From Fiano Require Model.Fmap Proofs.FmapProofs Model.Cbfs Proofs.CbfsProofs.
Open Scope Z_scope.

(* ====================================================================== *)
(* A. Boot Guard / CBnT manifests.  [dec_s]/[dec_f] return an option (any error
   = None), are structurally recursive on the schema (list loops on the decoded
   count) and have no Panic: an error or a value by construction.  Proved here:
   the reader stays inside its input, what it would allocate is bounded by the
   16-bit count types, the container loop ends within its fuel.              *)
(* ====================================================================== *)
Module ManT.
Import Fiano.Model.Manifest Fiano.Gen.ManifestCodecs Fiano.Proofs.ManifestProofs.

(* ---- A.1 bounded reader ---- *)
Definition suffix_goal_s (s : schema) := forall en b v r,
  dec_s s en b = Some (v, r) -> exists pre, b = pre ++ r.
Definition suffix_goal_f (t : fty) := forall en b v r,
  dec_f t en b = Some (v, r) -> exists pre, b = pre ++ r.

Lemma take_suffix n b h r : take n b = Some (h, r) -> exists pre, b = pre ++ r.
Proof. intros T. apply take_some in T as (E & _ & _). eauto. Qed.

Lemma suffix_trans (b b1 r : bytes) :
  (exists p, b = p ++ b1) -> (exists q, b1 = q ++ r) -> exists pre, b = pre ++ r.
Proof. intros [p ->] [q ->]. exists (p ++ q). now rewrite app_assoc. Qed.

Lemma suffix_list s (IH : suffix_goal_s s) : forall k b v r,
  dec_list s k b = Some (v, r) -> exists pre, b = pre ++ r.
Proof.
  induction k as [|k IHk]; intros b v r D; cbn [dec_list] in D.
  - inversion D; subst. exists []. reflexivity.
  - fold (dec_list s) in D.
    destruct (dec_s s [] b) as [[x b1]|] eqn:D1; [|discriminate].
    destruct (dec_list s k b1) as [[xs b2]|] eqn:D2; [|discriminate].
    inversion D; subst v r. clear D.
    eapply suffix_trans; [eapply IH; eauto|eapply IHk; eauto].
Qed.

Lemma suffix_ints w : forall k b v r,
  dec_ints w k b = Some (v, r) -> exists pre, b = pre ++ r.
Proof.
  induction k as [|k IHk]; intros b v r D; cbn [dec_ints] in D.
  - inversion D; subst. exists []. reflexivity.
  - fold (dec_ints w) in D.
    destruct (take (Z.of_nat w) b) as [[h1 b1]|] eqn:T1; [|discriminate].
    destruct (dec_ints w k b1) as [[xs b2]|] eqn:D2; [|discriminate].
    inversion D; subst v r. clear D.
    eapply suffix_trans; [eapply take_suffix; eauto|eapply IHk; eauto].
Qed.

Lemma suffix_mut : (forall s, suffix_goal_s s) /\ (forall t, suffix_goal_f t).
Proof.
  apply schema_fty_ind; unfold suffix_goal_s, suffix_goal_f.
  - intros en b v r D. cbn [dec_s] in D. inversion D; subst. exists []. reflexivity.
  - intros name t IHt rest IHr en b v r D. cbn [dec_s] in D.
    destruct (dec_f t en b) as [[x b1]|] eqn:D1; [|discriminate].
    destruct (dec_s rest (en ++ [x]) b1) as [[xs b2]|] eqn:D2; [|discriminate].
    inversion D; subst v r. clear D.
    eapply suffix_trans; [eapply IHt; eauto|eapply IHr; eauto].
  - intros w en b v r D. cbn [dec_f] in D.
    destruct (take (Z.of_nat w) b) as [[h r']|] eqn:T; [|discriminate]. inversion D; subst v r'.
    eapply take_suffix; eauto.
  - intros n en b v r D. cbn [dec_f] in D.
    destruct (take (Z.of_nat n) b) as [[h r']|] eqn:T; [|discriminate]. inversion D; subst v r'.
    eapply take_suffix; eauto.
  - intros s IH rh en b v r D. cbn [dec_f] in D. eapply IH; eauto.
  - intros cw s IH rh en b v r D. rewrite dec_f_list in D.
    destruct (take (Z.of_nat cw) b) as [[h r']|] eqn:T; [|discriminate].
    eapply suffix_trans; [eapply take_suffix; eauto|eapply suffix_list; eauto].
  - intros cw w en b v r D. rewrite dec_f_ints in D.
    destruct (take (Z.of_nat cw) b) as [[h r']|] eqn:T; [|discriminate].
    eapply suffix_trans; [eapply take_suffix; eauto|eapply suffix_ints; eauto].
  - intros cw en b v r D. cbn [dec_f] in D.
    destruct (take (Z.of_nat cw) b) as [[h r']|] eqn:T; [|discriminate].
    destruct (take (le_dec h) r') as [[d r'']|] eqn:T2; [|discriminate].
    inversion D; subst v r''. clear D.
    eapply suffix_trans; eapply take_suffix; eauto.
  - intros cw e en b v r D. cbn [dec_f] in D.
    destruct (take (ceval e en mod wmax cw) b) as [[d r']|] eqn:T; [|discriminate].
    inversion D; subst v r'. eapply take_suffix; eauto.
Qed.

(* a successful read returns a suffix of its input as the unread rest: nothing
   outside the given bytes is looked at, and the rest is never longer *)
Theorem manifest_read_suffix : forall s en b v r,
  dec_s s en b = Some (v, r) -> exists pre, b = pre ++ r.
Proof. exact (proj1 suffix_mut). Qed.

Theorem manifest_read_suffix_f : forall t en b v r,
  dec_f t en b = Some (v, r) -> exists pre, b = pre ++ r.
Proof. exact (proj2 suffix_mut). Qed.

Corollary manifest_read_rest_le : forall s en b v r,
  dec_s s en b = Some (v, r) -> zlen r <= zlen b.
Proof.
  intros s en b v r D. destruct (manifest_read_suffix _ _ _ _ _ D) as [pre ->].
  rewrite zlen_app. pose proof (zlen_nonneg pre). lia.
Qed.

Corollary manifest_read_desc_suffix : forall d b v r,
  read d b = Some (v, r) -> (exists pre, b = pre ++ r) /\ zlen r <= zlen b.
Proof.
  intros d b v r D. unfold read in D. split.
  - eapply manifest_read_suffix; eauto.
  - eapply manifest_read_rest_le; eauto.
Qed.

(* ---- A.2 allocation: every count type is at most 16 bits ---- *)

(* every countType of a dynamic field (list count, blob size), recursively, is at
   most 2 bytes wide *)
Fixpoint counts16_s (s : schema) : bool :=
  match s with
  | SNil => true
  | SCons _ t rest => counts16_f t && counts16_s rest
  end
with counts16_f (t : fty) : bool :=
  match t with
  | FInt _ => true
  | FArr _ => true
  | FSub s _ => counts16_s s
  | FList cw s _ => (cw <=? 2)%nat && counts16_s s
  | FListInt cw _ => (cw <=? 2)%nat
  | FBytesP cw => (cw <=? 2)%nat
  | FBytesC cw _ => (cw <=? 2)%nat
  end.

Lemma all_structs_counts16 :
  forallb (fun x => counts16_s (sd_schema (snd (fst x)))) all_structs = true.
Proof. vm_compute. reflexivity. Qed.

Definition counts16_c (c : cdesc) : bool :=
  counts16_s (cd_hdr c) && forallb (fun e => counts16_s (sd_schema (ce_desc e))) (cd_elems c).

Lemma all_containers_counts16 :
  forallb (fun x => counts16_c (snd (fst x))) all_containers = true.
Proof. vm_compute. reflexivity. Qed.

Lemma wmax_le16 cw : (cw <=? 2)%nat = true -> wmax cw <= 65536.
Proof.
  intros H. destruct cw as [|[|[|cw]]]; try (cbn in H; discriminate);
    unfold wmax; cbn; lia.
Qed.

(* the number the generated Go decoder passes to make() for a dynamic field,
   computed from the bytes seen so far, whether or not the rest of the read
   succeeds: the decoded count prefix, resp. countType(countValue) *)
Definition req_f (t : fty) (en : env) (b : bytes) : option Z :=
  match t with
  | FBytesP cw | FList cw _ _ | FListInt cw _ =>
    match take (Z.of_nat cw) b with Some (h, _) => Some (le_dec h) | None => None end
  | FBytesC cw e => Some ((ceval e en) mod wmax cw)
  | _ => None
  end.

Theorem req_f_bound : forall t en b n,
  counts16_f t = true -> bytes_ok b = true -> req_f t en b = Some n -> 0 <= n < 65536.
Proof.
  intros t en b n C B R.
  destruct t as [w|k|s rh|cw s rh|cw w|cw|cw e]; cbn [req_f] in R; try discriminate;
    cbn [counts16_f] in C; try (apply andb_prop in C as [C _]);
    pose proof (wmax_le16 cw C) as W.
  1-3: destruct (take (Z.of_nat cw) b) as [[h r]|] eqn:T; [|discriminate];
       injection R as <-; pose proof (le_dec_take_bound _ _ _ _ B T); lia.
  injection R as <-. pose proof (Z.mod_pos_bound (ceval e en) (wmax cw) (wmax_pos cw)). lia.
Qed.

(* dec_f really sizes its result by that number (these are the defining equations) *)
Lemma dec_f_bytesP_req cw en b :
  dec_f (FBytesP cw) en b =
  match req_f (FBytesP cw) en b, take (Z.of_nat cw) b with
  | Some n, Some (_, r) =>
    match take n r with Some (d, r') => Some (VBytes d, r') | None => None end
  | _, _ => None
  end.
Proof. cbn [dec_f req_f]. destruct (take (Z.of_nat cw) b) as [[h r]|]; reflexivity. Qed.

Lemma dec_f_bytesC_req cw e en b :
  dec_f (FBytesC cw e) en b =
  match req_f (FBytesC cw e) en b with
  | Some n => match take n b with Some (d, r') => Some (VBytes d, r') | None => None end
  | None => None
  end.
Proof. reflexivity. Qed.

Lemma dec_f_list_req cw s rh en b :
  dec_f (FList cw s rh) en b =
  match req_f (FList cw s rh) en b, take (Z.of_nat cw) b with
  | Some n, Some (_, r) => dec_list s (Z.to_nat n) r
  | _, _ => None
  end.
Proof. rewrite dec_f_list. cbn [req_f]. destruct (take (Z.of_nat cw) b) as [[h r]|]; reflexivity. Qed.

Lemma dec_f_ints_req cw w en b :
  dec_f (FListInt cw w) en b =
  match req_f (FListInt cw w) en b, take (Z.of_nat cw) b with
  | Some n, Some (_, r) => dec_ints w (Z.to_nat n) r
  | _, _ => None
  end.
Proof. rewrite dec_f_ints. cbn [req_f]. destruct (take (Z.of_nat cw) b) as [[h r]|]; reflexivity. Qed.

Lemma dec_list_vlen s : forall k b v r, dec_list s k b = Some (v, r) -> vlen v = Z.of_nat k.
Proof.
  induction k as [|k IHk]; intros b v r D; cbn [dec_list] in D.
  - inversion D; subst. reflexivity.
  - fold (dec_list s) in D.
    destruct (dec_s s [] b) as [[x b1]|]; [|discriminate].
    destruct (dec_list s k b1) as [[xs b2]|] eqn:D2; [|discriminate].
    inversion D; subst v r. cbn [vlen]. rewrite (IHk _ _ _ D2). lia.
Qed.

Lemma dec_ints_vlen w : forall k b v r, dec_ints w k b = Some (v, r) -> vlen v = Z.of_nat k.
Proof.
  induction k as [|k IHk]; intros b v r D; cbn [dec_ints] in D.
  - inversion D; subst. reflexivity.
  - fold (dec_ints w) in D.
    destruct (take (Z.of_nat w) b) as [[h1 b1]|]; [|discriminate].
    destruct (dec_ints w k b1) as [[xs b2]|] eqn:D2; [|discriminate].
    inversion D; subst v r. cbn [vlen]. rewrite (IHk _ _ _ D2). lia.
Qed.

(* size of a decoded dynamic field: blob length / number of list items *)
Definition vsize (v : value) : Z :=
  match v with VBytes d => zlen d | _ => vlen v end.

(* what a dynamic field decodes to has exactly the requested size *)
Theorem req_f_is_size : forall t en b n v r,
  bytes_ok b = true -> req_f t en b = Some n -> dec_f t en b = Some (v, r) -> vsize v = n.
Proof.
  intros t en b n v r B R D.
  destruct t as [w|k|s rh|cw s rh|cw w|cw|cw e]; cbn [req_f] in R; try discriminate.
  - rewrite dec_f_list in D.
    destruct (take (Z.of_nat cw) b) as [[h r']|] eqn:T; [|discriminate]. injection R as <-.
    pose proof (le_dec_take_bound _ _ _ _ B T) as Bd.
    pose proof (dec_list_vlen _ _ _ _ _ D) as L.
    destruct v; cbn [vsize]; try (cbn [vlen] in *; lia).
    exfalso. destruct (Z.to_nat (le_dec h)); cbn [dec_list] in D; [discriminate|].
    fold (dec_list s) in D. destruct (dec_s s [] r') as [[x b1]|]; [|discriminate].
    destruct (dec_list s n b1) as [[xs b2]|]; discriminate.
  - rewrite dec_f_ints in D.
    destruct (take (Z.of_nat cw) b) as [[h r']|] eqn:T; [|discriminate]. injection R as <-.
    pose proof (le_dec_take_bound _ _ _ _ B T) as Bd.
    pose proof (dec_ints_vlen _ _ _ _ _ D) as L.
    destruct v; cbn [vsize]; try (cbn [vlen] in *; lia).
    exfalso. destruct (Z.to_nat (le_dec h)); cbn [dec_ints] in D; [discriminate|].
    fold (dec_ints w) in D. destruct (take (Z.of_nat w) r') as [[x b1]|]; [|discriminate].
    destruct (dec_ints w n b1) as [[xs b2]|]; discriminate.
  - cbn [dec_f] in D.
    destruct (take (Z.of_nat cw) b) as [[h r']|] eqn:T; [|discriminate]. injection R as <-.
    destruct (take (le_dec h) r') as [[d r'']|] eqn:T2; [|discriminate].
    inversion D; subst v r''. apply take_some in T2 as (_ & L & _). exact L.
  - cbn [dec_f] in D. injection R as <-.
    destruct (take (ceval e en mod wmax cw) b) as [[d r']|] eqn:T; [|discriminate].
    inversion D; subst v r'. apply take_some in T as (_ & L & _). exact L.
Qed.

(* result side, following the schema: every list has < 65536 items, every
   dynamically sized blob has < 65536 bytes, recursively *)
Fixpoint size_bounded_s (s : schema) (v : value) {struct s} : bool :=
  match s, v with
  | SNil, _ => true
  | SCons _ t rest, VCons x xs => size_bounded_f t x && size_bounded_s rest xs
  | _, _ => false
  end
with size_bounded_f (t : fty) (v : value) {struct t} : bool :=
  match t with
  | FInt _ => true
  | FArr _ => true
  | FSub s _ => size_bounded_s s v
  | FList _ s _ =>
      (vlen v <? 65536) &&
      (fix go (l : value) : bool :=
         match l with VCons x xs => size_bounded_s s x && go xs | _ => true end) v
  | FListInt _ _ => vlen v <? 65536
  | FBytesP _ => match v with VBytes b => zlen b <? 65536 | _ => false end
  | FBytesC _ _ => match v with VBytes b => zlen b <? 65536 | _ => false end
  end.

Definition bounded_list (s : schema) : value -> bool :=
  fix go (l : value) : bool :=
    match l with VCons x xs => size_bounded_s s x && go xs | _ => true end.

Lemma size_bounded_f_list cw s rh v :
  size_bounded_f (FList cw s rh) v = (vlen v <? 65536) && bounded_list s v.
Proof. reflexivity. Qed.

Definition bounded_goal_s (s : schema) := forall en b v r,
  counts16_s s = true -> bytes_ok b = true -> dec_s s en b = Some (v, r) ->
  size_bounded_s s v = true.
Definition bounded_goal_f (t : fty) := forall en b v r,
  counts16_f t = true -> bytes_ok b = true -> dec_f t en b = Some (v, r) ->
  size_bounded_f t v = true.

Lemma bounded_dec_list s (C : counts16_s s = true) (IH : bounded_goal_s s) : forall k b v r,
  bytes_ok b = true -> dec_list s k b = Some (v, r) -> bounded_list s v = true.
Proof.
  induction k as [|k IHk]; intros b v r B D; cbn [dec_list] in D.
  - inversion D; subst. reflexivity.
  - fold (dec_list s) in D.
    destruct (dec_s s [] b) as [[x b1]|] eqn:D1; [|discriminate].
    destruct (dec_list s k b1) as [[xs b2]|] eqn:D2; [|discriminate].
    inversion D; subst v r. clear D.
    destruct (codec_reencode_s _ _ _ _ _ B D1) as (_ & _ & B1).
    cbn [bounded_list]. fold (bounded_list s).
    rewrite (IH _ _ _ _ C B D1), (IHk _ _ _ B1 D2). reflexivity.
Qed.

Lemma bounded_mut : (forall s, bounded_goal_s s) /\ (forall t, bounded_goal_f t).
Proof.
  apply schema_fty_ind; unfold bounded_goal_s, bounded_goal_f.
  - intros en b v r C B D. reflexivity.
  - intros name t IHt rest IHr en b v r C B D. cbn [dec_s] in D.
    cbn [counts16_s] in C. apply andb_prop in C as [C1 C2].
    destruct (dec_f t en b) as [[x b1]|] eqn:D1; [|discriminate].
    destruct (dec_s rest (en ++ [x]) b1) as [[xs b2]|] eqn:D2; [|discriminate].
    inversion D; subst v r. clear D.
    destruct (proj2 reenc_mut t _ _ _ _ B D1) as (_ & _ & B1).
    cbn [size_bounded_s]. rewrite (IHt _ _ _ _ C1 B D1), (IHr _ _ _ _ C2 B1 D2). reflexivity.
  - intros; reflexivity.
  - intros; reflexivity.
  - intros s IH rh en b v r C B D. cbn [dec_f] in D. cbn [counts16_f] in C.
    cbn [size_bounded_f]. eapply IH; eauto.
  - intros cw s IH rh en b v r C B D. cbn [counts16_f] in C. apply andb_prop in C as [C1 C2].
    rewrite dec_f_list in D.
    destruct (take (Z.of_nat cw) b) as [[h r']|] eqn:T; [|discriminate].
    destruct (bytes_ok_take _ _ _ _ B T) as [Bh Br].
    pose proof (le_dec_take_bound _ _ _ _ B T) as Bd. pose proof (wmax_le16 cw C1) as W.
    rewrite size_bounded_f_list, (bounded_dec_list s C2 IH _ _ _ _ Br D).
    rewrite (dec_list_vlen _ _ _ _ _ D). apply andb_true_intro. split; [lia|reflexivity].
  - intros cw w en b v r C B D. cbn [counts16_f] in C.
    rewrite dec_f_ints in D.
    destruct (take (Z.of_nat cw) b) as [[h r']|] eqn:T; [|discriminate].
    pose proof (le_dec_take_bound _ _ _ _ B T) as Bd. pose proof (wmax_le16 cw C) as W.
    cbn [size_bounded_f]. rewrite (dec_ints_vlen _ _ _ _ _ D). lia.
  - intros cw en b v r C B D. cbn [counts16_f] in C. cbn [dec_f] in D.
    destruct (take (Z.of_nat cw) b) as [[h r']|] eqn:T; [|discriminate].
    destruct (take (le_dec h) r') as [[d r'']|] eqn:T2; [|discriminate].
    inversion D; subst v r''. clear D.
    pose proof (le_dec_take_bound _ _ _ _ B T) as Bd. pose proof (wmax_le16 cw C) as W.
    apply take_some in T2 as (_ & L & _). cbn [size_bounded_f]. lia.
  - intros cw e en b v r C B D. cbn [counts16_f] in C. cbn [dec_f] in D.
    destruct (take (ceval e en mod wmax cw) b) as [[d r']|] eqn:T; [|discriminate].
    inversion D; subst v r'. clear D. pose proof (wmax_le16 cw C) as W.
    pose proof (Z.mod_pos_bound (ceval e en) (wmax cw) (wmax_pos cw)).
    apply take_some in T as (_ & L & _). cbn [size_bounded_f]. lia.
Qed.

Theorem manifest_value_bounded : forall s en b v r,
  counts16_s s = true -> bytes_ok b = true -> dec_s s en b = Some (v, r) ->
  size_bounded_s s v = true.
Proof. exact (proj1 bounded_mut). Qed.

Theorem manifest_value_bounded_f : forall t en b v r,
  counts16_f t = true -> bytes_ok b = true -> dec_f t en b = Some (v, r) ->
  size_bounded_f t v = true.
Proof. exact (proj2 bounded_mut). Qed.

(* for every structure of the generated table *)
Corollary manifest_read_bounded_all : forall nm d ir b v r,
  In (nm, d, ir) all_structs -> bytes_ok b = true -> read d b = Some (v, r) ->
  size_bounded_s (sd_schema d) v = true.
Proof.
  intros nm d ir b v r I B D. unfold read in D.
  eapply manifest_value_bounded; eauto.
  exact (proj1 (forallb_forall _ _) all_structs_counts16 (nm, d, ir) I).
Qed.


(* ---- A.3 containers: the StructInfo loop ends within fuel S (length b) ---- *)

(* one successful header read consumes at least one byte: the header schema
   starts with a fixed-size field of positive size (the 8-byte structure ID) *)
Definition hdr_consumes (c : cdesc) : bool :=
  match cd_hdr c with
  | SCons _ (FArr n) _ => (0 <? n)%nat
  | SCons _ (FInt n) _ => (0 <? n)%nat
  | _ => false
  end.

Lemma all_containers_hdr_consumes :
  forallb (fun x => hdr_consumes (snd (fst x))) all_containers = true.
Proof. vm_compute. reflexivity. Qed.

Lemma hdr_progress c b h b1 : hdr_consumes c = true ->
  dec_s (cd_hdr c) [] b = Some (h, b1) -> zlen b1 < zlen b.
Proof.
  unfold hdr_consumes. intros H D.
  destruct (cd_hdr c) as [|nm t rest]; [discriminate|].
  cbn [dec_s] in D.
  destruct (dec_f t [] b) as [[x r1]|] eqn:D1; [|discriminate].
  destruct (dec_s rest ([] ++ [x]) r1) as [[xs b2]|] eqn:D2; [|discriminate].
  inversion D; subst h b1. clear D.
  pose proof (manifest_read_rest_le _ _ _ _ _ D2) as L2.
  assert (L1 : zlen r1 < zlen b).
  { destruct t as [n|n| | | | | ]; try discriminate; cbn [dec_f] in D1;
      (destruct (take (Z.of_nat n) b) as [[hh rr]|] eqn:T; [|discriminate]);
      inversion D1; subst x rr; apply take_some in T as (E & Lh & _); subst b;
      rewrite zlen_app; lia. }
  lia.
Qed.

Lemma cdec_loop_total c (H : hdr_consumes c = true) : forall fuel slots seen prev n b,
  (length b < fuel)%nat -> total (cdec_loop fuel c slots seen prev n b).
Proof.
  induction fuel as [|f IH]; intros slots seen prev n b L; [lia|].
  cbn [cdec_loop].
  destruct (dec_s (cd_hdr c) [] b) as [[h b1]|] eqn:D; [|apply total_ok].
  pose proof (hdr_progress c b h b1 H D) as P1.
  destruct (vnth h 0) as [[z|id| |hd tl]|]; try apply total_err.
  destruct (find_elem (cd_elems c) id) as [i|].
  2:{ apply IH. unfold zlen in P1. lia. }
  destruct (Z.of_nat i <? prev); [apply total_err|].
  destruct (nth_error (cd_elems c) i) as [e|]; [|apply total_err].
  destruct (negb _ && (Z.of_nat i =? prev)); [apply total_err|].
  destruct (dec_s (data_schema (ce_desc e)) [h] b1) as [[d b2]|] eqn:D2; [|apply total_err].
  pose proof (manifest_read_rest_le _ _ _ _ _ D2) as P2.
  apply IH. unfold zlen in *. lia.
Qed.

(* container ReadFrom on ANY byte string: an error or a value; the loop over the
   StructInfo headers finishes within the fuel S (length b) the model states *)
Theorem manifest_cread_total : forall c b, hdr_consumes c = true -> total (cread c b).
Proof.
  intros c b H. unfold cread.
  pose proof (cdec_loop_total c H (S (length b)) (empty_slots (cd_elems c))
                (map (fun _ => false) (cd_elems c)) (-1) 0 b (Nat.lt_succ_diag_r _)) as [P F].
  destruct (cdec_loop _ c _ _ _ _ b) as [[[[slots seen] n] rest]|e|s|]; try discriminate.
  - destruct (required_seen (cd_elems c) seen); [apply total_ok|apply total_err].
  - apply total_err.
Qed.

Corollary manifest_cread_total_all : forall nm c ir b,
  In (nm, c, ir) all_containers -> total (cread c b).
Proof.
  intros nm c ir b I. apply manifest_cread_total.
  exact (proj1 (forallb_forall _ _) all_containers_hdr_consumes (nm, c, ir) I).
Qed.

(* the element bodies read by the container loop ([dec_s (data_schema d) [h] b1])
   fall under manifest_value_bounded as well *)
Lemma counts16_data_schema d : counts16_s (sd_schema d) = true -> counts16_s (data_schema d) = true.
Proof.
  unfold data_schema. destruct (sd_schema d) as [|nm t rest]; [reflexivity|].
  cbn [counts16_s]. intros H. apply andb_prop in H as [_ H]. exact H.
Qed.

End ManT.

(* ====================================================================== *)
(* B. AMD                                                                  *)
(* ====================================================================== *)
Module AmdT.
Import Fiano.Model.Amd Fiano.Proofs.AmdProofs.

(* AmdProofs states "no Panic, no Fuel" as [safe]; it is the same as [total] *)
Lemma total_of_safe : forall A (o : outcome A), safe o -> total o.
Proof. intros A [a|e|s|] H; try destruct H; split; reflexivity. Qed.

Lemma safe_of_total : forall A (o : outcome A), total o -> safe o.
Proof. intros A [a|e|s|] [P F]; try discriminate; exact I. Qed.

(* ---- B.1 discovery.  The cookie scans inside run on fuel S (length image). ---- *)
Theorem amd_parse_firmware_with_total : forall p2o image,
  (forall a, 0 <= p2o a) -> bytes_ok image = true -> total (parse_firmware_with p2o image).
Proof. intros. apply total_of_safe, parse_firmware_with_total; auto. Qed.

Theorem amd_parse_firmware_total : forall image,
  bytes_ok image = true -> total (parse_firmware image).
Proof. intros. apply total_of_safe, parse_firmware_total; auto. Qed.

(* ---- B.2 the individual parsers, on ANY byte string ---- *)
Theorem amd_find_efs_with_total : forall p2o image,
  (forall a, 0 <= p2o a) -> total (find_efs_with p2o image).
Proof. intros. apply total_of_safe. unfold find_efs_with. apply safe_find_efs_loop; auto. Qed.

Theorem amd_find_efs_total : forall image, total (find_efs image).
Proof.
  intros. unfold find_efs. apply amd_find_efs_with_total. intros a. apply phys_to_off_range.
Qed.

Theorem amd_parse_efs_total : forall r, total (parse_efs r).
Proof. intros. apply total_of_safe, safe_parse_efs. Qed.

Theorem amd_parse_psp_entry_total : forall r, total (parse_psp_entry r).
Proof. intros. apply total_of_safe, safe_parse_psp_entry. Qed.

Theorem amd_parse_bios_entry_total : forall r, total (parse_bios_entry r).
Proof. intros. apply total_of_safe, safe_parse_bios_entry. Qed.

Theorem amd_parse_psp_table_total : forall data, total (parse_psp_table data).
Proof. intros. apply total_of_safe, safe_parse_psp_table. Qed.

Theorem amd_parse_bios_table_total : forall data, total (parse_bios_table data).
Proof. intros. apply total_of_safe, safe_parse_bios_table. Qed.

(* fuel stated in the model: S (length image) *)
Theorem amd_find_psp_table_total : forall image, total (find_psp_table image).
Proof. intros. apply total_of_safe, safe_find_psp_table. Qed.

Theorem amd_find_bios_table_total : forall image, total (find_bios_table image).
Proof. intros. apply total_of_safe, safe_find_bios_table. Qed.

(* ---- B.3 lookup, extraction and patching on a hostile container ---- *)
Lemma safe_get_psp_entry fw level id : safe (get_psp_entry fw level id).
Proof.
  unfold get_psp_entry, get_psp_entries, get_psp_table.
  destruct (level =? 1); [|destruct (level =? 2)]; cbn [bind];
    try exact I;
    match goal with |- context [table_of ?x] => destruct (table_of x) as [t|] end;
    cbn [bind]; try exact I;
    destruct (filter _ (dt_entries t)) as [|e0 [|e1 r]]; exact I.
Qed.

Lemma safe_get_bios_entry fw level id inst : safe (get_bios_entry fw level id inst).
Proof.
  unfold get_bios_entry, get_bios_table.
  destruct (level =? 1); [|destruct (level =? 2)]; cbn [bind];
    try exact I;
    match goal with |- context [table_of ?x] => destruct (table_of x) as [t|] end;
    cbn [bind]; try exact I;
    destruct (filter _ (filter _ (dt_entries t))) as [|e0 [|e1 r]]; exact I.
Qed.

(* these two never slice: total for every fw, hostile or not *)
Theorem amd_get_psp_entry_total : forall fw level id, total (get_psp_entry fw level id).
Proof. intros. apply total_of_safe, safe_get_psp_entry. Qed.

Theorem amd_get_bios_entry_total : forall fw level id inst, total (get_bios_entry fw level id inst).
Proof. intros. apply total_of_safe, safe_get_bios_entry. Qed.

Theorem amd_is_psb_enabled_total : forall fw, total (is_psb_enabled fw).
Proof.
  intros fw. apply total_of_safe. unfold is_psb_enabled.
  pose proof (safe_get_bios_entry fw 2 amd_oem_signing_key_entry 0) as S.
  destruct (get_bios_entry fw 2 amd_oem_signing_key_entry 0) as [a|e|s|];
    try destruct S;
    destruct (fw_bios2 fw); try exact I; try (destruct (e =? E_NOTFOUND); exact I);
    destruct (fw_bios1 fw); try exact I; destruct (e =? E_NOTFOUND); exact I.
Qed.

(* patchEntry: both slices are guarded by checkBoundaries (and 0 <= start) *)
Lemma safe_patch_range image start end_ d : 0 <= start -> safe (patch_range image start end_ d).
Proof.
  intros Hs. unfold patch_range.
  destruct (check_boundaries start end_ (zlen image)) eqn:C; cbn [negb]; [|exact I].
  destruct (negb ((end_ - start) mod two64 =? zlen d)); [exact I|].
  unfold check_boundaries in C.
  rewrite !slice_ok by lia. exact I.
Qed.

Section WithFw.
  Variables (fw : psp_fw).
  Hypothesis W : fw_wf fw.

  Lemma safe_extract_psp image level id : safe (extract_psp_entry fw image level id).
  Proof.
    unfold extract_psp_entry. apply safe_bind; [apply safe_get_psp_entry|]. intros e G.
    destruct (get_psp_entry_wf _ _ _ _ W G) as (_ & _ & L). apply safe_get_range_bytes. lia.
  Qed.

  Lemma safe_extract_bios image level id inst : safe (extract_bios_entry fw image level id inst).
  Proof.
    unfold extract_bios_entry. apply safe_bind; [apply safe_get_bios_entry|]. intros e G.
    destruct (get_bios_entry_wf _ _ _ _ _ W G) as (_ & _ & L). apply safe_get_range_bytes. lia.
  Qed.

  Lemma safe_patch_psp image level id d : safe (patch_psp_entry fw image level id d).
  Proof.
    unfold patch_psp_entry. apply safe_bind; [apply safe_get_psp_entry|]. intros e G.
    destruct (get_psp_entry_wf _ _ _ _ W G) as (_ & _ & L). apply safe_patch_range. lia.
  Qed.

  Lemma safe_patch_bios image level id inst d : safe (patch_bios_entry fw image level id inst d).
  Proof.
    unfold patch_bios_entry. apply safe_bind; [apply safe_get_bios_entry|]. intros e G.
    destruct (get_bios_entry_wf _ _ _ _ _ W G) as (_ & _ & L). apply safe_patch_range. lia.
  Qed.
End WithFw.

(* stated for any implementation [p2o] of the Firmware interface's address map;
   note that the image handed to extract/patch (image') need not be the image
   that was parsed: nothing is assumed about it *)
Theorem amd_extract_psp_entry_total_with : forall p2o image fw image' level id,
  bytes_ok image = true -> parse_firmware_with p2o image = Ok fw ->
  total (extract_psp_entry fw image' level id).
Proof. intros. apply total_of_safe, safe_extract_psp. eapply parse_firmware_wf; eauto. Qed.

Theorem amd_extract_bios_entry_total_with : forall p2o image fw image' level id inst,
  bytes_ok image = true -> parse_firmware_with p2o image = Ok fw ->
  total (extract_bios_entry fw image' level id inst).
Proof. intros. apply total_of_safe, safe_extract_bios. eapply parse_firmware_wf; eauto. Qed.

Theorem amd_patch_psp_entry_total_with : forall p2o image fw image' level id d,
  bytes_ok image = true -> parse_firmware_with p2o image = Ok fw ->
  total (patch_psp_entry fw image' level id d).
Proof. intros. apply total_of_safe, safe_patch_psp. eapply parse_firmware_wf; eauto. Qed.

Theorem amd_patch_bios_entry_total_with : forall p2o image fw image' level id inst d,
  bytes_ok image = true -> parse_firmware_with p2o image = Ok fw ->
  total (patch_bios_entry fw image' level id inst d).
Proof. intros. apply total_of_safe, safe_patch_bios. eapply parse_firmware_wf; eauto. Qed.

(* with firmware = FirmwareImage(image), on the parsed image itself *)
Theorem amd_extract_psp_entry_total : forall image fw level id,
  bytes_ok image = true -> parse_firmware image = Ok fw ->
  total (extract_psp_entry fw image level id).
Proof.
  intros image fw level id OK P.
  exact (amd_extract_psp_entry_total_with (phys_to_off (zlen image)) image fw image level id OK P).
Qed.

Theorem amd_extract_bios_entry_total : forall image fw level id inst,
  bytes_ok image = true -> parse_firmware image = Ok fw ->
  total (extract_bios_entry fw image level id inst).
Proof.
  intros image fw level id inst OK P.
  exact (amd_extract_bios_entry_total_with (phys_to_off (zlen image)) image fw image level id inst OK P).
Qed.

Theorem amd_patch_psp_entry_total : forall image fw level id d,
  bytes_ok image = true -> parse_firmware image = Ok fw ->
  total (patch_psp_entry fw image level id d).
Proof.
  intros image fw level id d OK P.
  exact (amd_patch_psp_entry_total_with (phys_to_off (zlen image)) image fw image level id d OK P).
Qed.

Theorem amd_patch_bios_entry_total : forall image fw level id inst d,
  bytes_ok image = true -> parse_firmware image = Ok fw ->
  total (patch_bios_entry fw image level id inst d).
Proof.
  intros image fw level id inst d OK P.
  exact (amd_patch_bios_entry_total_with (phys_to_off (zlen image)) image fw image level id inst d OK P).
Qed.

(* ---- B.4 keys: only buffer reads, no slice expression.
   NOTE (allocation): [read_buf (fst es / 8)] / [read_buf (fst ms / 8)] is where
   psb/keys.go does  make([]byte, ExponentSize/8)  resp.  make([]byte, ModulusSize/8)
   BEFORE looking at how many bytes the buffer still holds: the size is an
   unchecked uint32 of the blob (up to 512 MiB).  The model does not record
   allocation, so the theorem below says nothing about it. *)
Lemma safe_inval {A} (o : outcome A) : safe o -> safe (inval o).
Proof. destruct o; cbn; auto. Qed.

Lemma safe_read_buf n r : safe (read_buf n r).
Proof. unfold read_buf. destruct (n =? 0); [exact I|apply safe_read_n]. Qed.

Theorem amd_new_root_key_total : forall blob, total (new_root_key blob).
Proof.
  intros blob. apply total_of_safe. unfold new_root_key.
  apply safe_bind; [apply safe_inval, safe_read_u|intros v _].
  apply safe_bind; [apply safe_inval, safe_read_n|intros id _].
  apply safe_bind; [apply safe_inval, safe_read_n|intros ce _].
  apply safe_bind; [apply safe_inval, safe_read_u|intros us _].
  apply safe_bind; [apply safe_inval, safe_read_n|intros re _].
  apply safe_bind; [apply safe_inval, safe_read_u|intros es _].
  apply safe_bind; [apply safe_inval, safe_read_u|intros ms _].
  destruct (negb (fst es mod 8 =? 0)); [exact I|].
  apply safe_bind; [apply safe_inval, safe_read_buf|intros ex _].
  destruct (negb (fst ms mod 8 =? 0)); [exact I|].
  apply safe_bind; [apply safe_inval, safe_read_buf|intros mo _].
  destruct (negb (bytes_eqb (fst id) (fst ce))); exact I.
Qed.

Theorem amd_get_platform_binding_total : forall k, total (get_platform_binding k).
Proof. intros k. unfold get_platform_binding. destruct (negb _); [apply total_err|apply total_ok]. Qed.

Theorem amd_get_security_features_total : forall k, total (get_security_features k).
Proof. intros k. unfold get_security_features. destruct (negb _); [apply total_err|apply total_ok]. Qed.

(* ---- B.5 the table allocation make([]Entry, 0, TotalEntries) happens only after
   the check  TotalEntries * EntrySize <= remaining bytes ---- *)
Theorem amd_table_alloc_bounded : forall E c1 c2 esz (pe : bytes -> outcome (E * Z * bytes)) data t n,
  0 < esz -> parse_dir_table c1 c2 esz pe data = Ok (t, n) -> dt_total t * esz <= zlen data.
Proof.
  intros E c1 c2 esz pe data t n Hesz P. unfold parse_dir_table in P.
  apply bind_ok in P as (x0 & R0 & P). apply read_u_inv in R0 as (L0 & _ & ->). cbn [fst snd] in P.
  destruct (negb (le_dec (zfirstn 4 data) =? c1) && negb (le_dec (zfirstn 4 data) =? c2));
    [discriminate|].
  apply bind_ok in P as (x1 & R1 & P). apply read_u_inv in R1 as (L1 & _ & ->). cbn [fst snd] in P.
  apply bind_ok in P as (x2 & R2 & P). apply read_u_inv in R2 as (L2 & _ & ->). cbn [fst snd] in P.
  apply bind_ok in P as (x3 & R3 & P). apply read_u_inv in R3 as (L3 & _ & ->). cbn [fst snd] in P.
  match type of P with (if ?c then _ else _) = _ => destruct c eqn:C; [discriminate|] end.
  apply bind_ok in P as (es & _ & P). injection P as <- _. cbn [dt_total].
  assert (Hlen : forall k (l : bytes), zlen (zskipn k l) <= zlen l).
  { intros k l. unfold zlen, zskipn. rewrite skipn_length. lia. }
  pose proof (Hlen 4 (zskipn 4 (zskipn 4 (zskipn 4 data)))).
  pose proof (Hlen 4 (zskipn 4 (zskipn 4 data))).
  pose proof (Hlen 4 (zskipn 4 data)).
  pose proof (Hlen 4 data). lia.
Qed.

Corollary amd_psp_table_alloc_bounded : forall data t n,
  parse_psp_table data = Ok (t, n) -> dt_total t * amd_psp_entry_size_const <= zlen data.
Proof. intros data t n. apply amd_table_alloc_bounded. reflexivity. Qed.

Corollary amd_bios_table_alloc_bounded : forall data t n,
  parse_bios_table data = Ok (t, n) -> dt_total t * amd_bios_entry_size_const <= zlen data.
Proof. intros data t n. apply amd_table_alloc_bounded. reflexivity. Qed.

(* ---- B.6 checksum: raw[8:] panics on a table shorter than 8 bytes; on anything
   longer the Fletcher loop ends within its fuel (length (words data)), for any
   byte values ---- *)
Lemma fl_blocks_ok fuel : forall ws st, (length ws <= fuel)%nat ->
  exists st', fl_blocks fuel ws st = Ok st'.
Proof.
  induction fuel as [|f IH]; intros ws st L.
  - destruct ws; [|cbn [length] in L; lia]. cbn [fl_blocks]. eauto.
  - destruct ws as [|w r]; [cbn [fl_blocks]; eauto|].
    cbn [fl_blocks]. apply IH.
    change (skipn 360 (w :: r)) with (skipn 359 r). rewrite skipn_length.
    cbn [length] in L. lia.
Qed.

Lemma fletcher32_total data : total (fletcher32 data).
Proof.
  unfold fletcher32.
  destruct (fl_blocks_ok (length (words data)) (words data) (0, 0) (le_n _)) as [st ->].
  cbn [bind]. apply total_ok.
Qed.

Theorem amd_dir_checksum_total : forall raw, 8 <= zlen raw -> total (dir_checksum raw).
Proof.
  intros raw L. unfold dir_checksum. rewrite slice_ok by lia. cbn [of_opt bind].
  apply fletcher32_total.
Qed.

(* CalculatePSPDirectoryCheckSum / CalculateBiosDirectoryCheckSum are exported and
   slice raw[8:] without a length check *)
Theorem amd_dir_checksum_refuted : exists raw, dir_checksum raw = Panic 1.
Proof. exists []. vm_compute. reflexivity. Qed.

Theorem amd_dir_checksum_short_refuted : forall raw, zlen raw < 8 -> ~ total (dir_checksum raw).
Proof.
  intros raw L [P _]. destruct (dir_checksum_short raw L) as [s E]. rewrite E in P. discriminate.
Qed.

End AmdT.

(* ====================================================================== *)
(* C. CBFS                                                                 *)
(* ====================================================================== *)
Module CbfsT.
Import Fiano.Model.Fmap Fiano.Model.Cbfs Fiano.Proofs.CbfsProofs.

(* NewImage: the file walk inside runs on fuel S (length sec), sec = the bytes of
   the COREBOOT fmap area; the fmap search and read are those of C13 *)
Theorem cbfs_new_image_total : forall img, bytes_ok img = true -> total (new_image img).
Proof.
  intros img OK. destruct (new_image_total img OK) as [F P]. apply total_of_ne; auto.
Qed.

End CbfsT.
