(* Proofs/FfsSaveProofs.v — property C01: parsing a well-formed image and assembling it again
   reproduces the bytes.  Built bottom-up as composable "ok" predicates (section, file, volume). *)
From Fiano Require Import Base.Bytes Base.BytesLemmas Model.Ffs Model.FfsSpec.
From Coq Require Import ZifyBool ZifyNat.
Open Scope Z_scope.

Section Save.
Variable dec : Z -> bytes -> option bytes.
Variable enc : Z -> bytes -> option bytes.
Variable u2s s2u : bytes -> bytes.
Variable nvar : bytes -> option bytes.

Notation parse_section := (parse_section dec u2s nvar).
Notation parse_file := (parse_file dec u2s nvar).
Notation parse_fv := (parse_fv dec u2s nvar).
Notation asm := (asm enc s2u).
Notation asm_elems := (asm_elems enc s2u).

(* ---------- unfolding equations ---------- *)

Lemma parse_section_S d pol buf o :
  parse_section (S d) pol buf o = section_body dec u2s (parse_section d) (parse_fv d) pol buf o.
Proof. reflexivity. Qed.
Lemma parse_file_S d pol buf :
  parse_file (S d) pol buf = file_body nvar (parse_section d) pol buf.
Proof. reflexivity. Qed.
Lemma parse_fv_S d pol data off r :
  parse_fv (S d) pol data off r = fv_body (parse_file d) pol data off r.
Proof. reflexivity. Qed.

Lemma asm_list_elems kids st :
  (fix asm_list (l : list node) (st : ast) : outcome (list node * ast) :=
     match l with
     | [] => Ok ([], st)
     | x :: r =>
       do xs <- asm x st; let '(x', st1) := xs in
       do rs <- asm_list r st1; let '(r', st2) := rs in
       Ok (x' :: r', st2)
     end) kids st = asm_elems kids st.
Proof.
  reflexivity.
Qed.

Lemma asm_NSec h buf kids st :
  asm (NSec h buf kids) st =
  do ks <- asm_elems kids st; let '(kids', st1) := ks in sec_asm enc s2u h buf kids' st1.
Proof. reflexivity. Qed.

Lemma asm_NFile h buf kids st :
  asm (NFile h buf kids) st =
  do ks <- asm_elems kids st; let '(kids', st1) := ks in file_asm h buf kids' st1.
Proof. reflexivity. Qed.

Lemma asm_NVol h buf kids st :
  asm (NVol h buf kids) st =
  match set_polarity (fst st) (fv_polarity (v_attrs h)) with
  | None => Err E_POLARITY
  | Some pol0 =>
    do ks <- asm_elems kids (pol0, false); let '(kids', st1) := ks in
    do r <- vol_asm h buf kids' st1; let '(n', st2) := r in Ok (n', (fst st2, snd st))
  end.
Proof. reflexivity. Qed.


(* ---------- the "ok" predicates: what the C01 theorem says about one grammar element ---------- *)

(* a section: self-delimiting, parses to a node holding exactly its bytes, and assembling that
   node gives the same bytes back; all at erase polarity 0xFF and with the FFS3 flag untouched *)
Definition sec_ok (sb : bytes) : Prop :=
  bytes_ok sb = true /\ 4 <= zlen sb /\
  exists d0, forall d, (d0 <= d)%nat -> forall rest order,
    exists h kids, parse_section d 255 (sb ++ rest) order = Ok (NSec h sb kids, 255) /\
      s_ext h = zlen sb /\
      exists h' kids', asm (NSec h sb kids) (255, false) = Ok (NSec h' sb kids', (255, false)).

(* ---------- facts about the bytes of a section ---------- *)

Lemma zlen_sec_bytes t body : zlen (sec_bytes t body) = 4 + zlen body.
Proof. unfold sec_bytes. rewrite !zlen_app, zlen_le_enc, zlen_cons, zlen_nil. lia. Qed.

Lemma bytes_ok_sec_bytes t body : 0 <= t < 256 -> bytes_ok body = true ->
  bytes_ok (sec_bytes t body) = true.
Proof.
  intros Ht Hb. unfold sec_bytes. rewrite !bytes_ok_app, le_enc_ok, Hb. cbn [bytes_ok forallb].
  replace (byte_ok t) with true by (unfold byte_ok; lia). reflexivity.
Qed.

Lemma le3 v : zlen (le_enc 3 v) = 3. Proof. exact (zlen_le_enc 3 v). Qed.

Lemma sec_size3 t body rest : 4 + zlen body < 16777216 ->
  rd 0 3 (sec_bytes t body ++ rest) = 4 + zlen body.
Proof.
  intros H. unfold sec_bytes. rewrite <- app_assoc. rewrite rd_app_here by apply le3.
  apply le_dec_enc. pose proof (zlen_nonneg body). change (256 ^ Z.of_nat 3) with 16777216. lia.
Qed.

Lemma sec_type t body rest : 0 <= t < 256 -> rd 3 1 (sec_bytes t body ++ rest) = t.
Proof.
  intros H. unfold sec_bytes. rewrite <- app_assoc.
  rewrite (rd_app_skip _ _ 3 1 3) by (try apply le3; lia). change (3 - 3) with 0.
  rewrite <- app_assoc. change ([t] ++ body ++ rest) with ([t] ++ (body ++ rest)).
  rewrite rd_app_here by reflexivity. cbn [le_dec]. lia.
Qed.

Lemma sec_sub t body rest :
  sub 0 (4 + zlen body) (sec_bytes t body ++ rest) = sec_bytes t body.
Proof. apply sub_app_here. apply zlen_sec_bytes. Qed.

Lemma sec_body_skip t body : zskipn 4 (sec_bytes t body) = body.
Proof.
  unfold sec_bytes. rewrite app_assoc.
  assert (L : zlen (le_enc 3 (4 + zlen body) ++ [t]) = 4) by (rewrite zlen_app, le3; reflexivity).
  rewrite <- L. apply zskipn_app_exact.
Qed.

(* ---------- R1: leaf sections ---------- *)

Lemma leaf_type_tests t : leaf_type t = true ->
  (t =? 2) = false /\ (t =? 21) = false /\ (t =? 20) = false /\ (t =? 23) = false /\
  ((t =? 19) || (t =? 27) || (t =? 28)) = false.
Proof. unfold leaf_type. intros H. repeat split; lia. Qed.

(* the common prefix of section_body on the bytes of a section *)
Ltac sec_start t body rest :=
  unfold section_body;
  pose proof (zlen_nonneg body); pose proof (zlen_nonneg rest);
  rewrite !zlen_app, !zlen_sec_bytes;
  replace (4 + zlen body + zlen rest <? 4) with false by lia;
  rewrite !sec_size3 by lia; rewrite !sec_type by lia;
  replace (4 + zlen body =? 16777215) with false by lia;
  rewrite Z.min_l by lia;
  replace (if known_section t then Ok (4, 4 + zlen body) else Ok (4, 4 + zlen body))
    with (@Ok (Z * Z) (4, 4 + zlen body)) by (destruct (known_section t); reflexivity);
  cbn [bind];
  replace (4 + zlen body + zlen rest <? 4 + zlen body) with false by lia;
  replace (4 + zlen body <? 4) with false by lia;
  rewrite !sec_sub.

Lemma sec_ok_leaf t body : leaf_type t = true -> 0 <= t < 256 -> bytes_ok body = true ->
  4 + zlen body < 16777215 -> sec_ok (sec_bytes t body).
Proof.
  intros Hl Ht Hb Hn. pose proof (zlen_nonneg body) as Hnn.
  destruct (leaf_type_tests t Hl) as (T2 & T21 & T20 & T23 & T19).
  split; [apply bytes_ok_sec_bytes; auto|]. split; [rewrite zlen_sec_bytes; lia|].
  exists 1%nat. intros d Hd rest order. destruct d as [|d]; [lia|].
  rewrite parse_section_S.
  eexists; eexists. split; [|split].
  - sec_start t body rest. rewrite T2, T21, T20, T23, T19. reflexivity.
  - cbn [s_ext sec_default]. rewrite zlen_sec_bytes. reflexivity.
  - rewrite asm_NSec. cbn [Ffs.asm_elems bind]. unfold sec_asm. cbn [s_type sec_default].
    rewrite T21, T20, T19. cbn [bind]. eexists; eexists; reflexivity.
Qed.

(* leaf sections with the extended common header (sections of 16 MiB and more; any size that
   fits 32 bits): only types the parser knows can use that form *)
Lemma zlen_sec_bytes_large t body : zlen (sec_bytes_large t body) = 8 + zlen body.
Proof.
  unfold sec_bytes_large. rewrite !zlen_app, le3, (zlen_le_enc 4). change (zlen [t]) with 1. lia.
Qed.

Lemma sec_ok_leaf_large t body : leaf_type t = true -> known_section t = true -> 0 <= t < 256 ->
  bytes_ok body = true -> 8 + zlen body < 4294967295 -> sec_ok (sec_bytes_large t body).
Proof.
  intros Hl Hk Ht Hb Hn. pose proof (zlen_nonneg body) as Hnn.
  destruct (leaf_type_tests t Hl) as (T2 & T21 & T20 & T23 & T19).
  assert (Ob : bytes_ok (sec_bytes_large t body) = true).
  { unfold sec_bytes_large. rewrite !bytes_ok_app, !le_enc_ok, Hb. cbn [bytes_ok forallb].
    replace (byte_ok t) with true by (unfold byte_ok; lia). reflexivity. }
  split; [exact Ob|]. split; [rewrite zlen_sec_bytes_large; lia|].
  exists 1%nat. intros d Hd rest order. destruct d as [|d]; [lia|].
  rewrite parse_section_S.
  pose proof (zlen_nonneg rest) as Hr.
  assert (F0 : rd 0 3 (sec_bytes_large t body ++ rest) = 16777215).
  { unfold sec_bytes_large. rewrite <- app_assoc. rewrite rd_app_here by apply le3.
    apply le_dec_enc. change (256 ^ Z.of_nat 3) with 16777216. lia. }
  assert (F3 : rd 3 1 (sec_bytes_large t body ++ rest) = t).
  { unfold sec_bytes_large. rewrite <- app_assoc.
    rewrite (rd_app_skip _ _ 3 1 3) by (try apply le3; lia). change (3 - 3) with 0.
    rewrite <- app_assoc. rewrite (rd_app_here [t]) by reflexivity. cbn [le_dec]. lia. }
  assert (F4 : rd 4 4 (sec_bytes_large t body ++ rest) = 8 + zlen body).
  { unfold sec_bytes_large. rewrite <- app_assoc.
    rewrite (rd_app_skip _ _ 4 4 3) by (try apply le3; lia). change (4 - 3) with 1.
    rewrite <- app_assoc. rewrite (rd_app_skip [t] _ 1 4 1) by (try reflexivity; lia). change (1 - 1) with 0.
    rewrite <- app_assoc. rewrite rd_app_here by apply (zlen_le_enc 4).
    apply le_dec_enc. change (256 ^ Z.of_nat 4) with 4294967296. lia. }
  assert (Esub : sub 0 (8 + zlen body) (sec_bytes_large t body ++ rest) = sec_bytes_large t body).
  { apply sub_app_here. apply zlen_sec_bytes_large. }
  eexists; eexists. split; [|split].
  - unfold section_body. rewrite !zlen_app, !zlen_sec_bytes_large.
    replace (8 + zlen body + zlen rest <? 4) with false by lia.
    rewrite F0, F3, F4, Hk. change (16777215 =? 16777215) with true. cbv iota.
    replace (8 + zlen body + zlen rest <? 8) with false by lia.
    replace (8 + zlen body =? 4294967295) with false by lia. cbn [bind].
    replace (8 + zlen body + zlen rest <? 8 + zlen body) with false by lia.
    replace (8 + zlen body <? 8) with false by lia.
    rewrite Esub. rewrite T2, T21, T20, T23, T19. reflexivity.
  - cbn [s_ext sec_default]. rewrite zlen_sec_bytes_large. reflexivity.
  - rewrite asm_NSec. cbn [Ffs.asm_elems bind]. unfold sec_asm. cbn [s_type sec_default].
    rewrite T21, T20, T19. cbn [bind]. eexists; eexists; reflexivity.
Qed.

(* ---------- regenerated section headers ---------- *)

Lemma gen_sec_header_plain h body : s_gd h = None -> 4 + zlen body < 16777215 ->
  snd (gen_sec_header h body) = sec_bytes (s_type h) body /\
  s_ext (fst (gen_sec_header h body)) = 4 + zlen body.
Proof.
  intros Hg Hn. pose proof (zlen_nonneg body). unfold gen_sec_header. rewrite Hg.
  change (4 + 0) with 4.
  assert (E0 : (zlen body + 4) mod U32 = 4 + zlen body).
  { unfold U32. rewrite Z.mod_small; [lia|]. change (2 ^ 32) with 4294967296. lia. }
  rewrite E0.
  replace (16777215 <=? 4 + zlen body) with false by lia.
  cbn [fst snd s_ext]. split; [|reflexivity].
  unfold write3. replace (16777215 <=? 4 + zlen body) with false by lia.
  unfold sec_bytes. rewrite app_nil_r. cbn [app]. rewrite <- app_assoc. reflexivity.
Qed.

(* ---------- R3 / R4: user-interface and version sections ---------- *)

Lemma sec_ok_ui p : s2u (u2s p) = p -> 0 < zlen p -> bytes_ok p = true ->
  4 + zlen p < 16777215 -> sec_ok (sec_bytes 21 p).
Proof.
  intros Hr Hp Hb Hn.
  split; [apply bytes_ok_sec_bytes; auto; lia|]. split; [rewrite zlen_sec_bytes; lia|].
  exists 1%nat. intros d Hd rest order. destruct d as [|d]; [lia|].
  rewrite parse_section_S.
  eexists; eexists. split; [|split].
  - sec_start 21 p rest. change (21 =? 2) with false. change (21 =? 21) with true. cbv iota.
    rewrite zlen_sec_bytes. replace (4 + zlen p <=? 4) with false by lia.
    rewrite sec_body_skip. reflexivity.
  - cbn [s_ext]. rewrite zlen_sec_bytes. reflexivity.
  - rewrite asm_NSec. cbn [Ffs.asm_elems bind]. unfold sec_asm. cbn [s_type s_name].
    change (21 =? 21) with true. cbv iota. cbn [bind]. rewrite Hr.
    match goal with |- context [gen_sec_header ?h p] =>
      destruct (gen_sec_header_plain h p eq_refl Hn) as [E1 E2];
      destruct (gen_sec_header h p) as [h' nb] eqn:G end.
    cbn [fst snd] in E1, E2. rewrite E1, E2. cbn [s_type].
    replace (16777215 <? 4 + zlen p) with false by lia. eexists; eexists; reflexivity.
Qed.

Lemma sec_ok_version build p : 0 <= build < 65536 -> s2u (u2s p) = p -> 0 < zlen p ->
  bytes_ok p = true -> 6 + zlen p < 16777215 -> sec_ok (sec_bytes 20 (le_enc 2 build ++ p)).
Proof.
  intros Hbu Hr Hp Hb Hn.
  assert (Lb : zlen (le_enc 2 build ++ p) = 2 + zlen p) by (rewrite zlen_app, zlen_le_enc; reflexivity).
  assert (Ob : bytes_ok (le_enc 2 build ++ p) = true) by (rewrite bytes_ok_app, le_enc_ok, Hb; reflexivity).
  split; [apply bytes_ok_sec_bytes; auto; lia|]. split; [rewrite zlen_sec_bytes; lia|].
  exists 1%nat. intros d Hd rest order. destruct d as [|d]; [lia|].
  rewrite parse_section_S.
  eexists; eexists. split; [|split].
  - sec_start 20 (le_enc 2 build ++ p) rest. change (20 =? 2) with false. change (20 =? 21) with false.
    change (20 =? 20) with true. cbv iota.
    rewrite zlen_sec_bytes. replace (4 + zlen (le_enc 2 build ++ p) <=? 4 + 2) with false by lia.
    reflexivity.
  - cbn [s_ext]. rewrite zlen_sec_bytes. reflexivity.
  - rewrite asm_NSec. cbn [Ffs.asm_elems bind]. unfold sec_asm. cbn [s_type s_build s_version].
    change (20 =? 21) with false. change (20 =? 20) with true. cbv iota. cbn [bind].
    (* the parsed fields give back the body *)
    assert (Ebody : le_enc 2 (rd 4 2 (sec_bytes 20 (le_enc 2 build ++ p))) ++
                    s2u (u2s (zskipn (4 + 2) (sec_bytes 20 (le_enc 2 build ++ p)))) = le_enc 2 build ++ p).
    { unfold sec_bytes at 1.
      rewrite (rd_app_skip _ _ 4 2 3) by (try apply le3; lia). change (4 - 3) with 1.
      change ([20] ++ (le_enc 2 build ++ p)) with ([20] ++ (le_enc 2 build ++ p)).
      rewrite (rd_app_skip [20] _ 1 2 1) by (try reflexivity; lia). change (1 - 1) with 0.
      rewrite rd_app_here by apply (zlen_le_enc 2).
      rewrite le_dec_enc by (change (256 ^ Z.of_nat 2) with 65536; lia).
      f_equal.
      replace (zskipn (4 + 2) (sec_bytes 20 (le_enc 2 build ++ p))) with p; [exact Hr|].
      rewrite <- (zskipn_zskipn 2 4) by lia. rewrite sec_body_skip.
      symmetry. rewrite <- (zlen_le_enc 2 build) at 1. apply zskipn_app_exact. }
    rewrite Ebody.
    assert (Hn' : 4 + zlen (le_enc 2 build ++ p) < 16777215) by lia.
    match goal with |- context [gen_sec_header ?h ?b] =>
      destruct (gen_sec_header_plain h b eq_refl Hn') as [E1 E2];
      destruct (gen_sec_header h b) as [h' nb] eqn:G end.
    cbn [fst snd] in E1, E2. rewrite E1, E2. cbn [s_type].
    replace (16777215 <? 4 + zlen (le_enc 2 build ++ p)) with false by lia.
    eexists; eexists; reflexivity.
Qed.

(* ---------- R5: dependency-expression sections ---------- *)

Lemma depex_op_ok_spec op g : depex_op_ok (op, g) = true ->
  0 <= op <= 9 /\ op <> 8 /\
  ((op <= 2 /\ exists gb, g = Some gb /\ zlen gb = 16 /\ bytes_ok gb = true) \/ (2 < op /\ g = None)).
Proof.
  unfold depex_op_ok. intros H.
  apply andb_true_iff in H as [H H4]. apply andb_true_iff in H as [H H3].
  apply andb_true_iff in H as [H1 H2].
  split; [lia|]. split; [lia|].
  destruct (op <=? 2) eqn:E.
  - left. split; [lia|]. destruct g as [gb|]; [|discriminate].
    apply andb_true_iff in H4 as [L O]. exists gb. repeat split; auto; lia.
  - right. split; [lia|]. destruct g; [discriminate|reflexivity].
Qed.

Lemma parse_depex_emit ops : forallb depex_op_ok ops = true ->
  forall fuel, (length (depex_bytes ops) < fuel)%nat ->
  parse_depex fuel (depex_bytes ops) = Some (ops ++ [(8, None)]).
Proof.
  induction ops as [|[op g] r IH]; intros Hok fuel Hf.
  - destruct fuel as [|k]; [cbn in Hf; lia|]. reflexivity.
  - cbn [forallb] in Hok. apply andb_true_iff in Hok as [Ho Hr].
    destruct (depex_op_ok_spec op g Ho) as (R & N8 & [[L2 (gb & -> & Lg & Og)]|[G2 ->]]).
    + cbn [depex_bytes] in *. destruct fuel as [|k]; [lia|]. cbn [parse_depex].
      replace ((op <=? 9) && (0 <=? op)) with true by lia.
      replace (op <=? 2) with true by lia.
      rewrite zlen_app. pose proof (zlen_nonneg (depex_bytes r)).
      replace (zlen gb + zlen (depex_bytes r) <? 16) with false by lia.
      rewrite <- Lg. rewrite zskipn_app_exact, zfirstn_app_exact.
      rewrite IH; auto. cbn [length] in Hf. rewrite app_length in Hf. lia.
    + cbn [depex_bytes] in *. destruct fuel as [|k]; [lia|]. cbn [parse_depex app].
      replace ((op <=? 9) && (0 <=? op)) with true by lia.
      replace (op <=? 2) with false by lia. replace (op =? 8) with false by lia.
      rewrite IH; auto. cbn [length app] in Hf. lia.
Qed.

Lemma emit_depex_spec ops : forallb depex_op_ok ops = true ->
  emit_depex (ops ++ [(8, None)]) = Ok (depex_bytes ops).
Proof.
  induction ops as [|[op g] r IH]; intros Hok; [reflexivity|].
  cbn [forallb] in Hok. apply andb_true_iff in Hok as [Ho Hr].
  cbn [app emit_depex]. rewrite IH by auto. cbn [bind].
  destruct (depex_op_ok_spec op g Ho) as (R & N8 & [[L2 (gb & -> & Lg & Og)]|[G2 ->]]).
  - replace (op <=? 2) with true by lia. reflexivity.
  - replace (op <=? 2) with false by lia. reflexivity.
Qed.

Lemma bytes_ok_depex ops : forallb depex_op_ok ops = true -> bytes_ok (depex_bytes ops) = true.
Proof.
  induction ops as [|[op g] r IH]; intros Hok; [reflexivity|].
  cbn [forallb] in Hok. apply andb_true_iff in Hok as [Ho Hr].
  destruct (depex_op_ok_spec op g Ho) as (R & N8 & [[L2 (gb & -> & Lg & Og)]|[G2 ->]]);
    cbn [depex_bytes]; rewrite bytes_ok_cons, ?bytes_ok_app, ?Og, IH by auto;
    replace (byte_ok op) with true by (unfold byte_ok; lia); reflexivity.
Qed.

Lemma sec_ok_depex t ops : (t = 19 \/ t = 27 \/ t = 28) -> forallb depex_op_ok ops = true ->
  4 + zlen (depex_bytes ops) < 16777215 -> sec_ok (sec_bytes t (depex_bytes ops)).
Proof.
  intros Ht Hok Hn. set (body := depex_bytes ops) in *.
  assert (Hb : bytes_ok body = true) by (apply bytes_ok_depex; auto).
  assert (Hpos : 0 < zlen body).
  { unfold body. destruct ops as [|[op g] r]; cbn [depex_bytes]; rewrite zlen_cons.
    - pose proof (zlen_nonneg (@nil Z)). lia.
    - pose proof (zlen_nonneg (match g with Some gb => gb | None => [] end ++ depex_bytes r)). lia. }
  assert (T : (t =? 2) = false /\ (t =? 21) = false /\ (t =? 20) = false /\ (t =? 23) = false /\
              ((t =? 19) || (t =? 27) || (t =? 28)) = true) by (repeat split; lia).
  destruct T as (T2 & T21 & T20 & T23 & T19).
  split; [apply bytes_ok_sec_bytes; auto; lia|]. split; [rewrite zlen_sec_bytes; lia|].
  exists 1%nat. intros d Hd rest order. destruct d as [|d]; [lia|].
  rewrite parse_section_S.
  eexists; eexists. split; [|split].
  - sec_start t body rest. rewrite T2, T21, T20, T23, T19.
    rewrite zlen_sec_bytes. replace (4 + zlen body <=? 4) with false by lia.
    rewrite sec_body_skip. unfold body at 3 4.
    rewrite parse_depex_emit by (auto; lia). reflexivity.
  - cbn [s_ext]. rewrite zlen_sec_bytes. reflexivity.
  - rewrite asm_NSec. cbn [Ffs.asm_elems bind]. unfold sec_asm. cbn [s_type s_depex].
    rewrite T21, T20, T19. rewrite emit_depex_spec by auto. cbn [bind]. fold body.
    match goal with |- context [gen_sec_header ?h body] =>
      destruct (gen_sec_header_plain h body eq_refl Hn) as [E1 E2];
      destruct (gen_sec_header h body) as [h' nb] eqn:G end.
    cbn [fst snd] in E1, E2. rewrite E1, E2. cbn [s_type].
    replace (16777215 <? 4 + zlen body) with false by lia. eexists; eexists; reflexivity.
Qed.

(* ---------- R2: GUID-defined sections that fiano does not decode ---------- *)

Lemma sec_field_sub t body off len :
  4 <= off -> sub off len (sec_bytes t body) = sub (off - 4) len body.
Proof.
  intros H. unfold sec_bytes. rewrite app_assoc.
  apply sub_app_skip; [rewrite zlen_app, le3; reflexivity | lia].
Qed.

Lemma sec_field_rd t body off w :
  4 <= off -> rd off w (sec_bytes t body) = rd (off - 4) w body.
Proof. intros H. unfold rd. f_equal. apply sec_field_sub; auto. Qed.

Lemma sec_ok_guid_opaque g attrs extra payload :
  zlen g = 16 -> bytes_ok g = true -> 0 <= attrs < 65536 ->
  (Z.land attrs 1 = 0 \/ codec_kind g = 0) ->
  bytes_ok extra = true -> bytes_ok payload = true -> 24 + zlen extra < 65536 ->
  4 + zlen (gd_body g attrs extra payload) < 16777215 ->
  sec_ok (sec_bytes 2 (gd_body g attrs extra payload)).
Proof.
  intros Lg Og Ha Hk Oe Op Hd Hn. set (body := gd_body g attrs extra payload) in *.
  pose proof (zlen_nonneg extra). pose proof (zlen_nonneg payload).
  assert (Lb : zlen body = 20 + zlen extra + zlen payload).
  { unfold body, gd_body. rewrite !zlen_app, !zlen_le_enc, Lg. lia. }
  assert (Ob : bytes_ok body = true).
  { unfold body, gd_body. rewrite !bytes_ok_app, !le_enc_ok, Og, Oe, Op. reflexivity. }
  assert (Fg : sub 4 16 (sec_bytes 2 body) = g).
  { rewrite sec_field_sub by lia. change (4 - 4) with 0. unfold body, gd_body. apply sub_app_here; auto. }
  assert (Fd : rd (4 + 16) 2 (sec_bytes 2 body) = 24 + zlen extra).
  { rewrite sec_field_rd by lia. change (4 + 16 - 4) with 16. unfold body, gd_body.
    rewrite (rd_app_skip _ _ 16 2 16) by (auto; lia). change (16 - 16) with 0.
    rewrite rd_app_here by apply (zlen_le_enc 2). apply le_dec_enc.
    change (256 ^ Z.of_nat 2) with 65536. lia. }
  assert (Fa : rd (4 + 18) 2 (sec_bytes 2 body) = attrs).
  { rewrite sec_field_rd by lia. change (4 + 18 - 4) with 18. unfold body, gd_body.
    rewrite (rd_app_skip _ _ 18 2 16) by (auto; lia). change (18 - 16) with 2.
    rewrite (rd_app_skip _ _ 2 2 2) by (try apply (zlen_le_enc 2); lia). change (2 - 2) with 0.
    rewrite rd_app_here by apply (zlen_le_enc 2). apply le_dec_enc.
    change (256 ^ Z.of_nat 2) with 65536. lia. }
  split; [apply bytes_ok_sec_bytes; auto; lia|]. split; [rewrite zlen_sec_bytes; lia|].
  exists 1%nat. intros d Hd' rest order. destruct d as [|d]; [lia|].
  rewrite parse_section_S.
  eexists; eexists. split; [|split].
  - sec_start 2 body rest. change (2 =? 2) with true. cbv iota.
    rewrite zlen_sec_bytes. replace (4 + zlen body <? 4 + 20) with false by lia.
    rewrite Fg, Fd, Fa. replace (4 + zlen body <? 24 + zlen extra) with false by lia.
    replace (if negb (Z.land attrs 1 =? 0) then codec_kind g else 0) with 0
      by (destruct Hk as [-> | ->]; [reflexivity | destruct (negb _); reflexivity]).
    change (0 =? 0) with true. cbv iota. cbn [bind zlen length sections_loop Z.to_nat Nat.add].
    change (Z.to_nat (Z.of_nat 0) + 1)%nat with 1%nat. cbn [sections_loop].
    change (0 <? zlen (@nil Z)) with false. cbv iota. cbn [bind]. reflexivity.
  - cbn [s_ext]. rewrite zlen_sec_bytes. reflexivity.
  - rewrite asm_NSec. cbn [Ffs.asm_elems bind]. unfold sec_asm. cbn [s_type].
    change (2 =? 21) with false. change (2 =? 20) with false.
    change ((2 =? 19) || (2 =? 27) || (2 =? 28)) with false. cbv iota. cbn [bind].
    eexists; eexists; reflexivity.
Qed.

(* ---------- files ---------- *)

Definition file_ok (fb : bytes) : Prop :=
  bytes_ok fb = true /\ 24 <= zlen fb /\
  exists d0, forall d, (d0 <= d)%nat -> forall rest,
    exists h kids, parse_file d 255 (fb ++ rest) = Ok (Some (NFile h fb kids), 255) /\
      f_ext h = zlen fb /\ f_attr h = rd 19 1 fb /\
      exists h' kids', asm (NFile h fb kids) (255, false) = Ok (NFile h' fb kids', (255, false)) /\
                       f_attr h' = f_attr h.

Lemma zlen_raw_file g ckh ckf t attr state body : zlen g = 16 ->
  zlen (raw_file_bytes g ckh ckf t attr state body) = 24 + zlen body.
Proof.
  intros Lg. unfold raw_file_bytes. rewrite !zlen_app, le3, Lg.
  change (zlen [ckh; ckf; t; attr]) with 4. change (zlen [state]) with 1. lia.
Qed.

Lemma bytes_ok_raw_file g ckh ckf t attr state body :
  bytes_ok g = true -> 0 <= ckh < 256 -> 0 <= ckf < 256 -> 0 <= t < 256 -> 0 <= attr < 256 ->
  0 <= state < 256 -> bytes_ok body = true ->
  bytes_ok (raw_file_bytes g ckh ckf t attr state body) = true.
Proof.
  intros Og Hh Hf Ht Ha Hs Ob. unfold raw_file_bytes. rewrite !bytes_ok_app, le_enc_ok, Og, Ob.
  cbn [bytes_ok forallb]. unfold byte_ok. lia.
Qed.

Lemma rd_cons_skip (x : Z) l off w : 1 <= off -> rd off w (x :: l) = rd (off - 1) w l.
Proof. intros H. change (x :: l) with ([x] ++ l). apply rd_app_skip; [reflexivity|lia]. Qed.

Lemma rd_cons_here (x : Z) l : rd 0 1 (x :: l) = x.
Proof.
  change (x :: l) with ([x] ++ l). rewrite rd_app_here by reflexivity. cbn [le_dec]. lia.
Qed.

(* the header fields of a file, read back from its bytes *)
Lemma raw_file_fields g ckh ckf t attr state body rest :
  zlen g = 16 -> 24 + zlen body < 16777216 ->
  let b := raw_file_bytes g ckh ckf t attr state body ++ rest in
  sub 0 16 b = g /\ rd 16 1 b = ckh /\ rd 17 1 b = ckf /\ rd 18 1 b = t /\ rd 19 1 b = attr /\
  rd 20 3 b = 24 + zlen body /\ rd 23 1 b = state.
Proof.
  intros Lg Hn b. unfold b, raw_file_bytes. rewrite <- !app_assoc.
  pose proof (zlen_nonneg body).
  repeat split.
  - apply sub_app_here; auto.
  - rewrite (rd_app_skip _ _ 16 1 16) by (auto; lia). change (16 - 16) with 0.
    cbn [app]. apply rd_cons_here.
  - rewrite (rd_app_skip _ _ 17 1 16) by (auto; lia). change (17 - 16) with 1. cbn [app].
    rewrite rd_cons_skip by lia. apply rd_cons_here.
  - rewrite (rd_app_skip _ _ 18 1 16) by (auto; lia). change (18 - 16) with 2. cbn [app].
    rewrite !rd_cons_skip by lia. apply rd_cons_here.
  - rewrite (rd_app_skip _ _ 19 1 16) by (auto; lia). change (19 - 16) with 3. cbn [app].
    rewrite rd_cons_skip by lia. change (3 - 1) with 2. rewrite rd_cons_skip by lia.
    change (2 - 1) with 1. rewrite rd_cons_skip by lia. apply rd_cons_here.
  - rewrite (rd_app_skip _ _ 20 3 16) by (auto; lia). change (20 - 16) with 4. cbn [app].
    rewrite rd_cons_skip by lia. change (4 - 1) with 3. rewrite rd_cons_skip by lia.
    change (3 - 1) with 2. rewrite rd_cons_skip by lia. change (2 - 1) with 1.
    rewrite rd_cons_skip by lia. change (1 - 1) with 0.
    rewrite rd_app_here by apply le3. apply le_dec_enc. change (256 ^ Z.of_nat 3) with 16777216. lia.
  - rewrite (rd_app_skip _ _ 23 1 16) by (auto; lia). change (23 - 16) with 7. cbn [app].
    rewrite rd_cons_skip by lia. change (7 - 1) with 6. rewrite rd_cons_skip by lia.
    change (6 - 1) with 5. rewrite rd_cons_skip by lia. change (5 - 1) with 4.
    rewrite rd_cons_skip by lia. change (4 - 1) with 3.
    rewrite (rd_app_skip _ _ 3 1 3) by (try apply le3; lia). change (3 - 3) with 0.
    apply rd_cons_here.
Qed.

Lemma sections_loop_done rs n b pol offset i : zlen b <= offset ->
  sections_loop rs (S n) b pol offset i = Ok ([], pol).
Proof. intros H. cbn [sections_loop]. replace (offset <? zlen b) with false by lia. reflexivity. Qed.

Lemma sections_loop_step rs n b pol offset i : offset < zlen b ->
  sections_loop rs (S n) b pol offset i =
    do sp <- rs pol (zskipn offset b) i;
    let '(s, pol') := sp in
    if sec_ext s =? 0 then Err E_ZEROLEN else
    do rp <- sections_loop rs n b pol' (align4 (offset + sec_ext s)) (i + 1);
    let '(r, pol'') := rp in Ok (s :: r, pol'').
Proof. intros H. cbn [sections_loop]. replace (offset <? zlen b) with true by lia. reflexivity. Qed.

(* the common prefix of file_body on the bytes of a file *)
Lemma file_body_start rs g ckh ckf t attr state body rest :
  zlen g = 16 -> 24 + zlen body < 16777215 -> (t =? 1) && bytes_eqb g NVAR_GUID = false ->
  let fb := raw_file_bytes g ckh ckf t attr state body in
  file_body nvar rs 255 (fb ++ rest) =
    let h := mkFile g ckh ckf t attr (24 + zlen body) state (24 + zlen body) 24 None in
    if negb (supported_file t) then Ok (Some (NFile h fb []), 255) else
    do kp <- sections_loop rs (Z.to_nat (24 + zlen body) + 1) fb 255 24 0;
    let '(kids, pol') := kp in
    Ok (Some (NFile h fb kids), pol').
Proof.
  intros Lg Hn Hnv fb.
  destruct (raw_file_fields g ckh ckf t attr state body rest Lg ltac:(lia))
    as (F0 & F16 & F17 & F18 & F19 & F20 & F23).
  fold fb in F0, F16, F17, F18, F19, F20, F23.
  pose proof (zlen_nonneg body). pose proof (zlen_nonneg rest).
  assert (Lf : zlen fb = 24 + zlen body) by (apply zlen_raw_file; auto).
  unfold file_body. rewrite !zlen_app, Lf.
  replace (24 + zlen body + zlen rest <? 24) with false by lia.
  rewrite F0, F16, F17, F18, F19, F20, F23.
  replace (24 + zlen body =? 16777215) with false by lia. cbn [bind andb].
  replace (24 + zlen body + zlen rest <? 24 + zlen body) with false by lia.
  replace (24 + zlen body <? 24) with false by lia.
  rewrite Hnv. cbn [bind].
  rewrite <- Lf. rewrite (sub_app_here fb rest (zlen fb) eq_refl). rewrite Lf.
  reflexivity.
Qed.

Lemma file_ok_opaque g ckh ckf t attr state body :
  zlen g = 16 -> bytes_ok g = true -> 0 <= ckh < 256 -> 0 <= ckf < 256 -> 0 <= t < 256 ->
  0 <= attr < 256 -> 0 <= state < 256 -> bytes_ok body = true -> 24 + zlen body < 16777215 ->
  (t =? 1) && bytes_eqb g NVAR_GUID = false ->
  (supported_file t = false \/ body = []) ->
  file_ok (raw_file_bytes g ckh ckf t attr state body).
Proof.
  intros Lg Og Hh Hf Ht Ha Hs Ob Hn Hnv Hop. pose proof (zlen_nonneg body).
  split; [apply bytes_ok_raw_file; auto|]. split; [rewrite zlen_raw_file by auto; lia|].
  exists 1%nat. intros d Hd rest. destruct d as [|d]; [lia|].
  rewrite parse_file_S. rewrite file_body_start by auto. cbv zeta.
  destruct (raw_file_fields g ckh ckf t attr state body [] Lg ltac:(lia)) as (_ & _ & _ & _ & F19 & _).
  rewrite app_nil_r in F19.
  assert (Easm : forall h, f_nvar h = None ->
            asm (NFile h (raw_file_bytes g ckh ckf t attr state body) []) (255, false) =
            Ok (NFile h (raw_file_bytes g ckh ckf t attr state body) [], (255, false))).
  { intros h Hv. rewrite asm_NFile. cbn [Ffs.asm_elems bind]. unfold file_asm. rewrite Hv. reflexivity. }
  destruct (supported_file t) eqn:Sup; cbn [negb].
  - destruct Hop as [Hop|Hop]; [discriminate|]. subst body.
    change (zlen (@nil Z)) with 0. change (24 + 0) with 24.
    change (Z.to_nat 24 + 1)%nat with 25%nat.
    rewrite sections_loop_done by (rewrite zlen_raw_file by auto; change (zlen (@nil Z)) with 0; lia).
    cbn [bind].
    eexists; eexists. split; [reflexivity|]. cbn [f_ext f_attr]. rewrite zlen_raw_file by auto.
    split; [reflexivity|]. split; [symmetry; exact F19|].
    eexists; eexists. split; [apply Easm; reflexivity|reflexivity].
  - eexists; eexists. split; [reflexivity|]. cbn [f_ext f_attr]. rewrite zlen_raw_file by auto.
    split; [reflexivity|]. split; [symmetry; exact F19|].
    eexists; eexists. split; [apply Easm; reflexivity|reflexivity].
Qed.

(* ---------- alignment and the layout of consecutive sections ---------- *)

Lemma align4_spec v : 0 <= v -> v <= align4 v < v + 4 /\ (align4 v) mod 4 = 0.
Proof.
  intros Hv. unfold align4, align.
  pose proof (Z.div_mod (v + 4 - 1) 4 ltac:(lia)) as D.
  pose proof (Z.mod_pos_bound (v + 4 - 1) 4 ltac:(lia)) as B.
  split; [lia|]. apply Z.mod_mul. lia.
Qed.

Lemma align4_fix v : 0 <= v -> v mod 4 = 0 -> align4 v = v.
Proof.
  intros Hv Hm. unfold align4, align.
  pose proof (Z.div_mod v 4 ltac:(lia)) as D. rewrite Hm in D.
  replace (v + 4 - 1) with (3 + (v / 4) * 4) by lia.
  rewrite Z.div_add by lia. rewrite (Z.div_small 3 4) by lia. lia.
Qed.

Lemma align4_add a v : 0 <= a -> 0 <= v -> a mod 4 = 0 -> align4 (a + v) = a + align4 v.
Proof.
  intros Ha Hv Hm. unfold align4, align.
  pose proof (Z.div_mod a 4 ltac:(lia)) as D. rewrite Hm in D.
  replace (a + v + 4 - 1) with ((v + 4 - 1) + (a / 4) * 4) by lia.
  rewrite Z.div_add by lia. lia.
Qed.

(* sections laid out from a 4-aligned position: zero padding between, none after the last *)
Fixpoint lay (l : list bytes) : bytes :=
  match l with
  | [] => []
  | s :: r =>
    s ++ match r with [] => [] | _ => zrepeat 0 (align4 (zlen s) - zlen s) ++ lay r end
  end.

Lemma zlen_zrepeat x n : 0 <= n -> zlen (zrepeat x n) = n.
Proof.
  intros H. unfold zrepeat, zlen.
  assert (L : forall k, length (repeatz x k) = k) by (induction k; simpl; auto).
  rewrite L. lia.
Qed.

Lemma join4_lay acc l : (zlen acc) mod 4 = 0 \/ l = [] \/ True ->
  join4 acc l =
  acc ++ match l with [] => [] | _ => zrepeat 0 (align4 (zlen acc) - zlen acc) ++ lay l end.
Proof.
  intros _. revert acc. induction l as [|s r IH]; intros acc.
  - cbn [join4]. rewrite app_nil_r. reflexivity.
  - cbn [join4]. rewrite IH. cbn [lay].
    pose proof (zlen_nonneg acc) as Ha. pose proof (zlen_nonneg s) as Hs.
    destruct (align4_spec (zlen acc) Ha) as [B M].
    rewrite <- !app_assoc. f_equal. f_equal. f_equal.
    destruct r as [|s2 r2]; [reflexivity|].
    rewrite !zlen_app, zlen_zrepeat by lia.
    replace (zlen acc + (align4 (zlen acc) - zlen acc + zlen s)) with (align4 (zlen acc) + zlen s) by lia.
    rewrite align4_add by lia.
    replace (align4 (zlen acc) + align4 (zlen s) - (align4 (zlen acc) + zlen s))
      with (align4 (zlen s) - zlen s) by lia.
    reflexivity.
Qed.

Lemma sections_bytes_lay l : sections_bytes l = lay l.
Proof.
  unfold sections_bytes. rewrite join4_lay by auto. cbn [app].
  destruct l; [reflexivity|]. change (zlen (@nil Z)) with 0.
  change (align4 0 - 0) with 0. reflexivity.
Qed.

(* ---------- the section loop over a well-formed sequence ---------- *)

Definition sec_ok_at (d : nat) (sb : bytes) : Prop :=
  bytes_ok sb = true /\ 4 <= zlen sb /\
  forall rest order,
    exists h kids, parse_section d 255 (sb ++ rest) order = Ok (NSec h sb kids, 255) /\
      s_ext h = zlen sb /\
      exists h' kids', asm (NSec h sb kids) (255, false) = Ok (NSec h' sb kids', (255, false)).

Lemma sec_ok_at_of sb : sec_ok sb -> exists d0, forall d, (d0 <= d)%nat -> sec_ok_at d sb.
Proof.
  intros (Ob & Hl & d0 & H). exists d0. intros d Hd. split; [exact Ob|]. split; [exact Hl|].
  intros rest order. apply H; exact Hd.
Qed.

Lemma Forall_sec_ok_at l : Forall sec_ok l ->
  exists d0, forall d, (d0 <= d)%nat -> Forall (sec_ok_at d) l.
Proof.
  induction 1 as [|s r Hs Hr (d1 & IH)].
  - exists 0%nat. intros; constructor.
  - destruct (sec_ok_at_of s Hs) as (d2 & H2). exists (Nat.max d1 d2). intros d Hd.
    constructor; [apply H2; lia | apply IH; lia].
Qed.

Lemma zlen_lay_cons s r : zlen s <= zlen (lay (s :: r)).
Proof.
  cbn [lay]. rewrite zlen_app.
  match goal with |- _ <= _ + zlen ?x => pose proof (zlen_nonneg x) end. lia.
Qed.

Lemma sections_loop_lay d l : Forall (sec_ok_at d) l ->
  forall P n i, (zlen P) mod 4 = 0 -> (length l < n)%nat ->
  exists kids, sections_loop (parse_section d) n (P ++ lay l) 255 (zlen P) i = Ok (kids, 255) /\
    exists kids', asm_elems kids (255, false) = Ok (kids', (255, false)) /\ map node_buf kids' = l.
Proof.
  induction 1 as [|s r Hs Hr IH]; intros P n i HP Hn.
  - destruct n as [|n]; [cbn in Hn; lia|]. cbn [lay]. rewrite app_nil_r.
    rewrite sections_loop_done by lia. exists []. split; [reflexivity|].
    exists []. split; reflexivity.
  - destruct n as [|n]; [cbn in Hn; lia|]. cbn [length] in Hn.
    destruct Hs as (Ob & Hl & Hp).
    pose proof (zlen_nonneg P) as HPn.
    pose proof (zlen_lay_cons s r) as Hlay.
    assert (Hlt : zlen P < zlen (P ++ lay (s :: r))).
    { rewrite zlen_app.
      match goal with |- _ < _ + ?y => assert (Hy : zlen s <= y) by apply zlen_lay_cons end. lia. }
    rewrite sections_loop_step by exact Hlt.
    rewrite zskipn_app_exact. cbn [lay].
    destruct (Hp (match r with [] => [] | _ => zrepeat 0 (align4 (zlen s) - zlen s) ++ lay r end) i)
      as (h & ks & Ep & Ee & h' & ks' & Ea).
    rewrite Ep. cbn [bind sec_ext]. rewrite Ee.
    replace (zlen s =? 0) with false by lia.
    destruct (align4_spec (zlen s) ltac:(lia)) as [Bs Ms].
    rewrite align4_add by lia.
    destruct r as [|s2 r2].
    + (* last section *)
      rewrite app_nil_r.
      destruct n as [|n]; [lia|].
      rewrite sections_loop_done by (rewrite zlen_app; lia). cbn [bind].
      exists [NSec h s ks]. split; [reflexivity|].
      cbn [Ffs.asm_elems]. rewrite Ea. cbn [bind]. exists [NSec h' s ks']. split; reflexivity.
    + set (pad := zrepeat 0 (align4 (zlen s) - zlen s)).
      assert (Lpad : zlen pad = align4 (zlen s) - zlen s) by (apply zlen_zrepeat; lia).
      replace (P ++ s ++ pad ++ lay (s2 :: r2)) with ((P ++ s ++ pad) ++ lay (s2 :: r2))
        by (rewrite <- !app_assoc; reflexivity).
      replace (zlen P + align4 (zlen s)) with (zlen (P ++ s ++ pad))
        by (rewrite !zlen_app, Lpad; lia).
      destruct (IH (P ++ s ++ pad) n (i + 1)) as (kids & El & kids' & Ek & Em).
      * rewrite !zlen_app, Lpad. replace (zlen P + (zlen s + (align4 (zlen s) - zlen s)))
          with (zlen P + align4 (zlen s)) by lia.
        rewrite Z.add_mod by lia. rewrite HP, Ms. reflexivity.
      * cbn [length] in *. lia.
      * rewrite El. cbn [bind]. exists (NSec h s ks :: kids). split; [reflexivity|].
        cbn [Ffs.asm_elems]. rewrite Ea. cbn [bind]. rewrite Ek. cbn [bind].
        exists (NSec h' s ks' :: kids'). split; [reflexivity|]. cbn [map node_buf]. rewrite Em. reflexivity.
Qed.

(* ---------- checksums of a regenerated file header ---------- *)

Lemma sum_list_app a b : sum_list (a ++ b) = sum_list a + sum_list b.
Proof.
  induction a as [|x a IH]; [reflexivity|]. unfold sum_list in *. cbn [app fold_right]. rewrite IH. lia.
Qed.

Lemma ck_fix S c k s : c = (0 - S) mod 256 ->
  (c - (((S + c + k + s) mod 256 - k - s) mod 256)) mod 256 = c.
Proof.
  intros ->.
  assert (E : ((S + (0 - S) mod 256 + k + s) mod 256 - k - s) mod 256 = 0).
  { rewrite Zminus_mod, (Zminus_mod ((S + (0 - S) mod 256 + k + s) mod 256) k).
    rewrite Z.mod_mod by lia. rewrite <- (Zminus_mod (S + (0 - S) mod 256 + k + s) k).
    rewrite <- Zminus_mod.
    replace (S + (0 - S) mod 256 + k + s - k - s) with (S + (0 - S) mod 256) by lia.
    rewrite Zplus_mod_idemp_r. replace (S + (0 - S)) with 0 by lia. reflexivity. }
  rewrite E. rewrite Z.sub_0_r. apply Z.mod_mod. lia.
Qed.

Lemma byte_land_254 a : 0 <= a < 256 -> Z.land a 1 = 0 -> Z.land a 254 = a.
Proof.
  intros Ha H1.
  assert (F : forallb (fun n => negb (Z.land (Z.of_nat n) 1 =? 0) || (Z.land (Z.of_nat n) 254 =? Z.of_nat n))
                      (seq 0 256) = true) by (vm_compute; reflexivity).
  rewrite forallb_forall in F. specialize (F (Z.to_nat a)).
  rewrite Z2Nat.id in F by lia. rewrite H1 in F. cbn [negb orb] in F.
  change (0 =? 0) with true in F. cbn [negb orb] in F.
  apply Z.eqb_eq. apply F. apply in_seq. lia.
Qed.

Lemma file_bytes_raw g t attr state body :
  file_bytes g t attr state body =
  raw_file_bytes g ((0 - (sum_list g + t + attr + sum_list (le_enc 3 (24 + zlen body)))) mod 256)
                 (if attr_checksum attr then (0 - sum_list body) mod 256 else 170) t attr state body.
Proof. reflexivity. Qed.

Lemma checksum_and_assemble_id h g t attr state data :
  zlen g = 16 -> 0 <= attr < 256 -> Z.land attr 1 = 0 -> 24 + zlen data < 16777215 ->
  f_guid h = g -> f_type h = t -> f_state h = state ->
  f_ckh h = (0 - (sum_list g + t + attr + sum_list (le_enc 3 (24 + zlen data)))) mod 256 ->
  snd (checksum_and_assemble h (24 + zlen data) attr data) = file_bytes g t attr state data /\
  f_attr (fst (checksum_and_assemble h (24 + zlen data) attr data)) = attr.
Proof.
  intros Lg Ha Hl Hn Eg Et Es Eh. pose proof (zlen_nonneg data).
  unfold checksum_and_assemble. cbn [fst snd f_attr]. split; [|reflexivity].
  unfold attr_large. rewrite Hl. change (negb (0 =? 0)) with false. cbv iota.
  unfold write3. replace (16777215 <=? 24 + zlen data) with false by lia.
  rewrite Eg, Et, Es.
  set (sz := le_enc 3 (24 + zlen data)).
  assert (F24 : zfirstn 24 (file_header_bytes g (f_ckh h) (f_ckf h) t attr (24 + zlen data) state (24 + zlen data) true)
                = g ++ [f_ckh h; f_ckf h; t; attr] ++ sz ++ [state]).
  { unfold file_header_bytes. fold sz.
    replace (g ++ [f_ckh h; f_ckf h; t; attr] ++ sz ++ [state] ++ le_enc 8 (24 + zlen data))
      with ((g ++ [f_ckh h; f_ckf h; t; attr] ++ sz ++ [state]) ++ le_enc 8 (24 + zlen data))
      by (rewrite <- !app_assoc; reflexivity).
    assert (L : zlen (g ++ [f_ckh h; f_ckf h; t; attr] ++ sz ++ [state]) = 24).
    { rewrite !zlen_app, Lg. unfold sz. rewrite le3. reflexivity. }
    rewrite <- L. apply zfirstn_app_exact. }
  rewrite F24. unfold sum8. rewrite !sum_list_app.
  change (sum_list [f_ckh h; f_ckf h; t; attr]) with (f_ckh h + (f_ckf h + (t + (attr + 0)))).
  change (sum_list [state]) with (state + 0).
  set (S := sum_list g + t + attr + sum_list sz).
  replace (sum_list g + (f_ckh h + (f_ckf h + (t + (attr + 0))) + (sum_list sz + (state + 0))))
    with (S + f_ckh h + f_ckf h + state) by (unfold S; lia).
  rewrite (ck_fix S (f_ckh h) (f_ckf h) state) by (rewrite Eh; reflexivity).
  unfold file_bytes, file_header_bytes. fold sz. rewrite Eh. fold S.
  rewrite app_nil_r.
  replace ((0 - sum_list data mod 256) mod 256) with ((0 - sum_list data) mod 256).
  - rewrite <- !app_assoc. reflexivity.
  - rewrite (Zminus_mod 0 (sum_list data mod 256)), Z.mod_mod by lia. rewrite <- Zminus_mod. reflexivity.
Qed.

Lemma zlen_lay_ge l : Forall (fun s => 4 <= zlen s) l -> 4 * Z.of_nat (length l) <= zlen (lay l).
Proof.
  induction 1 as [|s r Hs Hr IH]; [cbn; unfold zlen; cbn; lia|].
  cbn [lay length]. rewrite zlen_app. destruct r as [|s2 r2].
  - cbn [length] in *. change (zlen (@nil Z)) with 0. lia.
  - rewrite zlen_app.
    match goal with |- _ <= _ + (zlen ?p + _) => pose proof (zlen_nonneg p) end. lia.
Qed.

Lemma bytes_ok_lay l : Forall (fun s => bytes_ok s = true) l -> bytes_ok (lay l) = true.
Proof.
  induction 1 as [|s r Hs Hr IH]; [reflexivity|].
  cbn [lay]. rewrite bytes_ok_app, Hs. destruct r as [|s2 r2]; [reflexivity|].
  rewrite bytes_ok_app, IH, andb_true_r. cbn [andb].
  unfold zrepeat. generalize (Z.to_nat (align4 (zlen s) - zlen s)). intros k.
  induction k; cbn; auto.
Qed.

(* ---------- R8: files rebuilt from their sections ---------- *)

Lemma file_ok_sections g t attr state secs :
  zlen g = 16 -> bytes_ok g = true -> 0 <= t < 256 -> 0 <= attr < 256 -> 0 <= state < 256 ->
  Z.land attr 1 = 0 -> supported_file t = true -> secs <> [] -> Forall sec_ok secs ->
  24 + zlen (sections_bytes secs) < 16777215 ->
  file_ok (file_bytes g t attr state (sections_bytes secs)).
Proof.
  intros Lg Og Ht Ha Hs Hl Hsup Hne Hok Hn.
  rewrite sections_bytes_lay in *. set (body := lay secs) in *.
  pose proof (zlen_nonneg body) as Hbn.
  assert (Obody : bytes_ok body = true).
  { apply bytes_ok_lay. eapply Forall_impl; [|exact Hok]. intros a (O & _); exact O. }
  assert (Hnv : (t =? 1) && bytes_eqb g NVAR_GUID = false).
  { destruct (t =? 1) eqn:E; [|reflexivity]. apply Z.eqb_eq in E. subst t. discriminate. }
  rewrite file_bytes_raw.
  set (ckh := (0 - (sum_list g + t + attr + sum_list (le_enc 3 (24 + zlen body)))) mod 256).
  set (ckf := if attr_checksum attr then (0 - sum_list body) mod 256 else 170).
  assert (Hckh : 0 <= ckh < 256) by (apply Z.mod_pos_bound; lia).
  assert (Hckf : 0 <= ckf < 256) by (unfold ckf; destruct (attr_checksum attr); [apply Z.mod_pos_bound|]; lia).
  split; [apply bytes_ok_raw_file; auto|]. split; [rewrite zlen_raw_file by auto; lia|].
  destruct (Forall_sec_ok_at secs Hok) as (d1 & Hd1).
  exists (S d1). intros d Hd rest. destruct d as [|d]; [lia|].
  rewrite parse_file_S. rewrite file_body_start by auto. cbv zeta. rewrite Hsup. cbn [negb].
  (* the file buffer is a 24-byte header followed by the laid-out sections *)
  set (hdr := g ++ [ckh; ckf; t; attr] ++ le_enc 3 (24 + zlen body) ++ [state]).
  assert (Lh : zlen hdr = 24) by (unfold hdr; rewrite !zlen_app, Lg, le3; reflexivity).
  assert (Efb : raw_file_bytes g ckh ckf t attr state body = hdr ++ lay secs).
  { unfold raw_file_bytes, hdr. fold body. rewrite <- !app_assoc. reflexivity. }
  assert (Hfuel : (length secs < Z.to_nat (24 + zlen body) + 1)%nat).
  { assert (G : 4 * Z.of_nat (length secs) <= zlen (lay secs)).
    { apply zlen_lay_ge. eapply Forall_impl; [|exact Hok]. intros a (_ & L & _). lia. }
    fold body in G. lia. }
  destruct (sections_loop_lay d secs (Hd1 d ltac:(lia)) hdr (Z.to_nat (24 + zlen body) + 1)%nat 0)
    as (kids & El & kids' & Ek & Em); [rewrite Lh; reflexivity | exact Hfuel |].
  rewrite Lh in El. rewrite Efb. rewrite El. cbn [bind].
  destruct (raw_file_fields g ckh ckf t attr state body [] Lg ltac:(lia)) as (_ & _ & _ & _ & F19 & _).
  rewrite app_nil_r in F19. rewrite <- Efb.
  eexists; eexists. split; [reflexivity|]. cbn [f_ext f_attr]. rewrite zlen_raw_file by auto.
  split; [reflexivity|]. split; [symmetry; exact F19|].
  rewrite asm_NFile. rewrite Ek. cbn [bind]. unfold file_asm. cbn [f_nvar].
  destruct kids' as [|k0 kr] eqn:Ekids.
  { exfalso. cbn in Em. apply Hne. symmetry. exact Em. }
  rewrite <- Ekids in *. rewrite Em.
  replace (join4 [] secs) with body by (symmetry; apply sections_bytes_lay).
  destruct kids' as [|k0' kr']; [discriminate|].
  unfold set_size. replace (16777215 <=? 24 + zlen body) with false by lia.
  unfold set_large. cbn [f_attr]. rewrite byte_land_254 by auto.
  match goal with |- context [checksum_and_assemble ?h _ _ _] =>
    destruct (checksum_and_assemble_id h g t attr state body Lg Ha Hl Hn eq_refl eq_refl eq_refl eq_refl)
      as [E1 E2];
    destruct (checksum_and_assemble h (24 + zlen body) attr body) as [h' nb] eqn:G end.
  cbn [fst snd] in E1, E2. rewrite E1. rewrite file_bytes_raw. fold ckh ckf.
  replace (16777215 <? 24 + zlen body) with false by lia.
  eexists; eexists. split; [reflexivity|]. exact E2.
Qed.

(* ---------- volumes: erased bytes ---------- *)

Lemma repeatz_app x a b : repeatz x a ++ repeatz x b = repeatz x (a + b).
Proof. induction a as [|a IH]; cbn [repeatz app Nat.add]; [reflexivity|]. rewrite IH. reflexivity. Qed.

Lemma zrepeat_app x a b : 0 <= a -> 0 <= b -> zrepeat x a ++ zrepeat x b = zrepeat x (a + b).
Proof. intros. unfold zrepeat. rewrite repeatz_app. f_equal. lia. Qed.

Lemma firstn_repeatz x k n : (k <= n)%nat -> firstn k (repeatz x n) = repeatz x k.
Proof.
  revert n; induction k as [|k IH]; intros n H; [reflexivity|].
  destruct n as [|n]; [lia|]. cbn [repeatz firstn]. rewrite IH by lia. reflexivity.
Qed.

Lemma skipn_repeatz x k n : skipn k (repeatz x n) = repeatz x (n - k).
Proof.
  revert n; induction k as [|k IH]; intros n; [rewrite Nat.sub_0_r; reflexivity|].
  destruct n as [|n]; [reflexivity|]. cbn [repeatz skipn]. apply IH.
Qed.

Lemma sub_zrepeat x off len n : 0 <= off -> 0 <= len -> off + len <= n ->
  sub off len (zrepeat x n) = zrepeat x len.
Proof.
  intros. unfold sub, zfirstn, zskipn, zrepeat. rewrite skipn_repeatz. apply firstn_repeatz. lia.
Qed.

Lemma forallb_repeatz (f : Z -> bool) x n : f x = true -> forallb f (repeatz x n) = true.
Proof. intros H. induction n; cbn [repeatz forallb]; [reflexivity|]. rewrite H, IHn. reflexivity. Qed.

Lemma bytes_ok_zrepeat x n : 0 <= x < 256 -> bytes_ok (zrepeat x n) = true.
Proof. intros. apply forallb_repeatz. unfold byte_ok. lia. Qed.

Lemma rd_zrepeat x off w n : 0 <= off -> off + Z.of_nat w <= n ->
  rd off w (zrepeat x n) = le_dec (zrepeat x (Z.of_nat w)).
Proof. intros. unfold rd. rewrite sub_zrepeat by lia. reflexivity. Qed.

(* erased free space of at least a header's length parses as "no more files" *)
Lemma parse_free d n : 24 <= n -> parse_file (S d) 255 (zrepeat 255 n) = Ok (None, 255).
Proof.
  intros Hn. rewrite parse_file_S. unfold file_body.
  rewrite zlen_zrepeat by lia. replace (n <? 24) with false by lia.
  rewrite !(rd_zrepeat 255 20 3) by (change (Z.of_nat 3) with 3; lia).
  change (le_dec (zrepeat 255 (Z.of_nat 3))) with 16777215.
  change (16777215 =? 16777215) with true. cbv iota.
  destruct (n <? 32) eqn:E.
  - unfold zrepeat at 1. rewrite (forallb_repeatz (fun x => x =? 255)) by reflexivity. cbn [bind andb].
    change (U64 - 1 =? U64 - 1) with true. reflexivity.
  - rewrite !(rd_zrepeat 255 24 8) by (change (Z.of_nat 8) with 8; lia).
    change (le_dec (zrepeat 255 (Z.of_nat 8))) with (U64 - 1). cbn [bind andb].
    change (U64 - 1 =? U64 - 1) with true. reflexivity.
Qed.

(* ---------- volumes: the file loop ---------- *)

Lemma align8_spec v : 0 <= v -> v <= align8 v < v + 8 /\ (align8 v) mod 8 = 0.
Proof.
  intros Hv. unfold align8, align.
  pose proof (Z.div_mod (v + 8 - 1) 8 ltac:(lia)) as D.
  pose proof (Z.mod_pos_bound (v + 8 - 1) 8 ltac:(lia)) as B.
  split; [lia|]. apply Z.mod_mul. lia.
Qed.

Lemma align8_unique u a : 0 <= u -> u <= a < u + 8 -> a mod 8 = 0 -> align8 u = a.
Proof.
  intros Hu Ha Hm. destruct (align8_spec u Hu) as [B M].
  pose proof (Z.div_mod a 8 ltac:(lia)) as Da. rewrite Hm in Da.
  pose proof (Z.div_mod (align8 u) 8 ltac:(lia)) as Db. rewrite M in Db. lia.
Qed.

Lemma align8_add a v : 0 <= a -> 0 <= v -> a mod 8 = 0 -> align8 (a + v) = a + align8 v.
Proof.
  intros Ha Hv Hm. unfold align8, align.
  pose proof (Z.div_mod a 8 ltac:(lia)) as D. rewrite Hm in D.
  replace (a + v + 8 - 1) with ((v + 8 - 1) + (a / 8) * 8) by lia.
  rewrite Z.div_add by lia. lia.
Qed.

Definition file_ok_at (d : nat) (fb : bytes) : Prop :=
  bytes_ok fb = true /\ 24 <= zlen fb /\
  forall rest,
    exists h kids, parse_file d 255 (fb ++ rest) = Ok (Some (NFile h fb kids), 255) /\
      f_ext h = zlen fb /\ f_attr h = rd 19 1 fb /\
      exists h' kids', asm (NFile h fb kids) (255, false) = Ok (NFile h' fb kids', (255, false)) /\
                       f_attr h' = f_attr h.

Lemma Forall_file_ok_at l : Forall file_ok l ->
  exists d0, forall d, (d0 <= d)%nat -> Forall (file_ok_at d) l.
Proof.
  induction 1 as [|f r Hf Hr (d1 & IH)].
  - exists 0%nat. intros; constructor.
  - destruct Hf as (Ob & Hl & d2 & H2). exists (Nat.max d1 d2). intros d Hd.
    constructor; [|apply IH; lia]. split; [exact Ob|]. split; [exact Hl|].
    intros rest. apply H2. lia.
Qed.

Definition node_attr (n : node) : Z := match n with NFile h _ _ => f_attr h | _ => 0 end.

Lemma zlen_flay_cons f r :
  zlen (flay (f :: r)) = align8 (zlen f) + zlen (flay r).
Proof.
  cbn [flay]. pose proof (zlen_nonneg f) as Hf. destruct (align8_spec (zlen f) Hf) as [B _].
  rewrite !zlen_app, zlen_zrepeat by lia. lia.
Qed.

Lemma files_loop_flay d files : Forall (file_ok_at (S d)) files ->
  forall free rest P u n, 0 <= free -> 0 <= u -> u <= zlen P < u + 8 -> (zlen P) mod 8 = 0 ->
  (length files < n)%nat ->
  exists kids fs,
    files_loop (parse_file (S d)) n (P ++ flay files ++ zrepeat 255 free ++ rest)
               (zlen P + zlen (flay files) + free) 255 u = Ok (kids, 255, fs) /\
    exists kids', asm_elems kids (255, false) = Ok (kids', (255, false)) /\
      map node_buf kids' = files /\ map node_attr kids' = map (rd 19 1) files.
Proof.
  induction 1 as [|f r Hf Hr IH]; intros free rest P u n Hfree Hu HP HM Hn.
  - destruct n as [|n]; [cbn in Hn; lia|]. cbn [flay app]. change (zlen (@nil Z)) with 0.
    cbn [files_loop].
    rewrite (align8_unique u (zlen P)) by lia.
    destruct (u + 24 <=? zlen P + 0 + free) eqn:E1.
    + destruct (zlen P + 0 + free <? zlen P + 24) eqn:E2.
      * exists [], 0. split; [reflexivity|]. exists []. repeat split; reflexivity.
      * replace (zlen P + 0 + free - zlen P) with free by lia.
        assert (Es : sub (zlen P) free (P ++ zrepeat 255 free ++ rest) = zrepeat 255 free).
        { rewrite (sub_app_skip P _ (zlen P) free (zlen P)) by lia. rewrite Z.sub_diag.
          apply sub_app_here. apply zlen_zrepeat; lia. }
        rewrite Es. rewrite parse_free by lia. cbn [bind].
        eexists [], _. split; [reflexivity|]. exists []. repeat split; reflexivity.
    + exists [], 0. split; [reflexivity|]. exists []. repeat split; reflexivity.
  - destruct n as [|n]; [cbn in Hn; lia|]. cbn [length] in Hn.
    destruct Hf as (Ob & Hl & Hp).
    pose proof (zlen_nonneg f) as Hfn. destruct (align8_spec (zlen f) Hfn) as [Bf Mf].
    pose proof (zlen_nonneg (flay r)) as Hrn.
    rewrite zlen_flay_cons.
    set (len := zlen P + (align8 (zlen f) + zlen (flay r)) + free).
    cbn [files_loop].
    replace (u + 24 <=? len) with true by (unfold len; lia).
    rewrite (align8_unique u (zlen P)) by lia.
    replace (len <? zlen P + 24) with false by (unfold len; lia).
    (* the bytes handed to the file parser: the rest of the volume *)
    set (pad := zrepeat 255 (align8 (zlen f) - zlen f)).
    assert (Lpad : zlen pad = align8 (zlen f) - zlen f) by (apply zlen_zrepeat; lia).
    assert (Es : sub (zlen P) (len - zlen P) (P ++ flay (f :: r) ++ zrepeat 255 free ++ rest)
                 = f ++ (pad ++ flay r ++ zrepeat 255 free)).
    { rewrite (sub_app_skip P _ (zlen P) _ (zlen P)) by lia. rewrite Z.sub_diag.
      cbn [flay]. fold pad.
      replace ((f ++ pad ++ flay r) ++ zrepeat 255 free ++ rest)
        with ((f ++ pad ++ flay r ++ zrepeat 255 free) ++ rest) by (rewrite <- !app_assoc; reflexivity).
      apply sub_app_here. rewrite !zlen_app, Lpad, zlen_zrepeat by lia. unfold len. lia. }
    rewrite Es.
    destruct (Hp (pad ++ flay r ++ zrepeat 255 free)) as (h & ks & Ep & Ee & Eat & h' & ks' & Ea & Eat').
    rewrite Ep. cbn [bind file_ext]. rewrite Ee. replace (zlen f =? 0) with false by lia.
    (* next iteration: P' = P ++ f ++ pad *)
    destruct (IH free rest (P ++ f ++ pad) (zlen P + zlen f) n) as (kids & fs & El & kids' & Ek & Em & Eattr);
      try lia.
    { rewrite !zlen_app, Lpad. lia. }
    { rewrite !zlen_app, Lpad. replace (zlen P + (zlen f + (align8 (zlen f) - zlen f)))
        with (zlen P + align8 (zlen f)) by lia.
      rewrite Z.add_mod by lia. rewrite HM, Mf. reflexivity. }
    replace ((P ++ f ++ pad) ++ flay r ++ zrepeat 255 free ++ rest)
      with (P ++ flay (f :: r) ++ zrepeat 255 free ++ rest) in El
      by (cbn [flay]; fold pad; rewrite <- !app_assoc; reflexivity).
    replace (zlen (P ++ f ++ pad) + zlen (flay r) + free) with len in El
      by (rewrite !zlen_app, Lpad; unfold len; lia).
    rewrite El. cbn [bind].
    exists (NFile h f ks :: kids), fs. split; [reflexivity|].
    cbn [Ffs.asm_elems]. rewrite Ea. cbn [bind]. rewrite Ek. cbn [bind].
    exists (NFile h' f ks' :: kids'). split; [reflexivity|].
    cbn [map node_buf node_attr]. rewrite Em, Eattr, Eat', Eat. split; reflexivity.
Qed.

(* ---------- volumes: placing the files again ---------- *)

Lemma align_fix x b : 0 < b -> 0 <= x -> x mod b = 0 -> align x b = x.
Proof.
  intros Hb Hx Hm. unfold align.
  pose proof (Z.div_mod x b ltac:(lia)) as D. rewrite Hm in D.
  replace (x + b - 1) with ((b - 1) + (x / b) * b) by lia.
  rewrite Z.div_add by lia. rewrite (Z.div_small (b - 1) b) by lia. lia.
Qed.

Lemma attr_align_pos a : 0 < attr_align a.
Proof.
  unfold attr_align.
  set (v := Z.lor _ _). generalize (Z.to_nat v). intros k.
  assert (F : Forall (fun x => 0 < x) file_alignments) by (repeat constructor).
  revert k. generalize file_alignments F. clear. intros l F.
  induction F as [|x l Hx Hl IH]; intros [|k]; cbn [nth]; try lia; auto.
Qed.

(* what place_files appends: before each file, erased bytes up to the next 8-byte boundary *)
Fixpoint play (u : Z) (files : list bytes) : bytes :=
  match files with
  | [] => []
  | f :: r => zrepeat 255 (align8 u - u) ++ f ++ play (align8 u + zlen f) r
  end.

Lemma place_files_play kids : forall limit acc,
  Forall (fun k => 0 < zlen (node_buf k)) kids ->
  files_aligned (align8 (zlen acc)) (map node_buf kids) = true ->
  map node_attr kids = map (rd 19 1) (map node_buf kids) ->
  (match limit with Some l => zlen acc + zlen (play (zlen acc) (map node_buf kids)) <= l | None => True end) ->
  place_files 255 limit acc (zlen acc) kids = Ok (acc ++ play (zlen acc) (map node_buf kids)).
Proof.
  induction kids as [|k r IH]; intros limit acc Hpos Hal Hattr Hlim.
  - cbn [place_files map play]. rewrite app_nil_r. reflexivity.
  - cbn [map] in *. inversion Hpos as [|? ? Hk Hr]; subst.
    cbn [files_aligned] in Hal. apply andb_true_iff in Hal as [Ha1 Ha2].
    injection Hattr as Eattr Hattr'.
    pose proof (zlen_nonneg acc) as Hacc. destruct (align8_spec (zlen acc) Hacc) as [B8 M8].
    set (u := zlen acc) in *. set (a := align8 u) in *. set (fb := node_buf k) in *.
    cbn [place_files play]. fold fb.
    replace (match k with NFile h _ _ => f_attr h | _ => 0 end) with (node_attr k) by reflexivity.
    rewrite Eattr. fold u a.
    replace (zlen fb =? 0) with false by lia.
    (* alignment holds at the natural position: no pad file is inserted *)
    match goal with |- context [if attr_align (rd 19 1 fb) =? 1 then a else ?e] =>
      replace (if attr_align (rd 19 1 fb) =? 1 then a else e) with a end.
    2:{ unfold file_aligned in Ha1. destruct (attr_align (rd 19 1 fb) =? 1) eqn:E1; [reflexivity|].
      cbn [orb] in Ha1. apply Z.eqb_eq in Ha1.
      assert (0 <= file_hlen (rd 19 1 fb)) by (unfold file_hlen; destruct (attr_large _); lia).
      rewrite align_fix by (auto using attr_align_pos; lia).
      replace (a + file_hlen (rd 19 1 fb) - file_hlen (rd 19 1 fb) - a) with 0 by lia.
      change ((8 <=? 0) && (0 <? 24)) with false. cbv iota. lia. }
    cbn [play] in Hlim. fold u a fb in Hlim.
    assert (Lp : zlen (zrepeat 255 (a - u)) = a - u) by (apply zlen_zrepeat; lia).
    pose proof (zlen_nonneg (play (a + zlen fb) (map node_buf r))) as Hpl.
    replace (match limit with Some l => l <? a + zlen fb | None => false end) with false.
    2:{ destruct limit as [l|]; [|reflexivity]. rewrite !zlen_app, Lp in Hlim. lia. }
    replace (a =? a) with true by lia. cbn [bind].
    unfold insert_file. fold u. replace (a <? u) with false by lia.
    replace (zlen fb =? 0) with false by lia. cbn [bind].
    set (acc' := acc ++ zrepeat 255 (a - u) ++ fb).
    assert (La : zlen acc' = a + zlen fb) by (unfold acc'; rewrite !zlen_app, Lp; fold u; lia).
    rewrite <- La. rewrite IH; auto.
    + rewrite La. unfold acc'. rewrite <- !app_assoc. reflexivity.
    + rewrite La. replace (align8 (a + zlen fb)) with (a + align8 (zlen fb)); [exact Ha2|].
      symmetry. apply align8_add; lia.
    + destruct limit as [l|]; [|exact I]. rewrite La. rewrite !zlen_app, Lp in Hlim. lia.
Qed.

Lemma play_flay files : forall acc free, 0 <= free ->
  acc ++ zrepeat 255 (align8 (zlen acc) - zlen acc) ++ flay files ++ zrepeat 255 free =
  (acc ++ play (zlen acc) files) ++
  zrepeat 255 (align8 (zlen acc) + zlen (flay files) + free - zlen (acc ++ play (zlen acc) files)).
Proof.
  induction files as [|f r IH]; intros acc free Hfree.
  - cbn [flay play app]. rewrite app_nil_r. change (zlen (@nil Z)) with 0.
    pose proof (zlen_nonneg acc) as Ha. destruct (align8_spec (zlen acc) Ha) as [B _].
    rewrite zrepeat_app by lia. f_equal. f_equal. lia.
  - pose proof (zlen_nonneg acc) as Ha. destruct (align8_spec (zlen acc) Ha) as [B M].
    pose proof (zlen_nonneg f) as Hf. destruct (align8_spec (zlen f) Hf) as [Bf Mf].
    set (u := zlen acc) in *. set (a := align8 u) in *.
    cbn [flay play]. fold u a.
    set (acc' := acc ++ zrepeat 255 (a - u) ++ f).
    assert (La : zlen acc' = a + zlen f).
    { unfold acc'. rewrite !zlen_app, zlen_zrepeat by lia. fold u. lia. }
    assert (Ea : align8 (zlen acc') = a + align8 (zlen f)) by (rewrite La; apply align8_add; lia).
    specialize (IH acc' free Hfree). rewrite Ea, La in IH.
    replace (a + align8 (zlen f) - (a + zlen f)) with (align8 (zlen f) - zlen f) in IH by lia.
    replace (acc ++ zrepeat 255 (a - u) ++ (f ++ zrepeat 255 (align8 (zlen f) - zlen f) ++ flay r) ++ zrepeat 255 free)
      with (acc' ++ zrepeat 255 (align8 (zlen f) - zlen f) ++ flay r ++ zrepeat 255 free)
      by (unfold acc'; rewrite <- !app_assoc; reflexivity).
    rewrite IH.
    replace (acc ++ zrepeat 255 (a - u) ++ f ++ play (a + zlen f) r) with (acc' ++ play (a + zlen f) r)
      by (unfold acc'; rewrite <- !app_assoc; reflexivity).
    f_equal. f_equal. rewrite !zlen_app. rewrite (zlen_zrepeat 255 (align8 (zlen f) - zlen f)) by lia. lia.
Qed.

(* ---------- volumes: the header ---------- *)

Lemma le1' v : zlen (le_enc 1 v) = 1. Proof. exact (zlen_le_enc 1 v). Qed.
Lemma le2' v : zlen (le_enc 2 v) = 2. Proof. exact (zlen_le_enc 2 v). Qed.
Lemma le4' v : zlen (le_enc 4 v) = 4. Proof. exact (zlen_le_enc 4 v). Qed.
Lemma le8' v : zlen (le_enc 8 v) = 8. Proof. exact (zlen_le_enc 8 v). Qed.

Lemma zlen_blocks_bytes more : zlen (blocks_bytes more) = 8 * Z.of_nat (length more).
Proof.
  induction more as [|[c s] r IH]; [reflexivity|].
  cbn [blocks_bytes length]. rewrite !zlen_app, !le4', IH. lia.
Qed.

Lemma bytes_ok_blocks_bytes more : bytes_ok (blocks_bytes more) = true.
Proof.
  induction more as [|[c s] r IH]; [reflexivity|].
  cbn [blocks_bytes]. rewrite !bytes_ok_app, !le_enc_ok, IH. reflexivity.
Qed.

Lemma fv_hlen_ge more : 72 <= fv_hlen more.
Proof. unfold fv_hlen. lia. Qed.

Lemma fv_hlen_mod8 more : fv_hlen more mod 8 = 0.
Proof.
  unfold fv_hlen. replace (72 + 8 * Z.of_nat (length more)) with ((9 + Z.of_nat (length more)) * 8) by lia.
  apply Z.mod_mul. lia.
Qed.

Lemma fv_hlen_even more : Z.even (fv_hlen more) = true.
Proof.
  unfold fv_hlen. replace (72 + 8 * Z.of_nat (length more)) with (2 * (36 + 4 * Z.of_nat (length more))) by lia.
  apply Z.even_mul.
Qed.

Lemma zlen_fv_header zero g len attrs ck eo reserved rev count bsize more :
  zlen zero = 16 -> zlen g = 16 ->
  zlen (fv_header zero g len attrs ck eo reserved rev count bsize more) = fv_hlen more.
Proof.
  intros Lz Lg. unfold fv_header, fv_hlen.
  rewrite !zlen_app, Lz, Lg, !le8', !le4', !le2', zlen_blocks_bytes, zlen_zrepeat by lia.
  change (zlen [95; 70; 86; 72]) with 4. change (zlen [reserved; rev]) with 2. lia.
Qed.

Lemma fv_header_fields zero g len attrs ck eo reserved rev count bsize more tail :
  zlen zero = 16 -> zlen g = 16 -> 0 <= len < 2 ^ 64 -> 0 <= attrs < 2 ^ 32 -> 0 <= ck < 65536 ->
  0 <= eo < 65536 -> fv_hlen more < 65536 ->
  let b := fv_header zero g len attrs ck eo reserved rev count bsize more ++ tail in
  sub 0 16 b = zero /\ sub 16 16 b = g /\ rd 32 8 b = len /\ rd 40 4 b = 1213613663 /\
  rd 44 4 b = attrs /\ rd 48 2 b = fv_hlen more /\ rd 50 2 b = ck /\ rd 52 2 b = eo /\
  rd 54 1 b = reserved /\ rd 55 1 b = rev /\
  zskipn 56 b = le_enc 4 count ++ le_enc 4 bsize ++ blocks_bytes more ++ zrepeat 0 8 ++ tail.
Proof.
  intros Lz Lg Hlen Hat Hck Heo Hhl b. pose proof (fv_hlen_ge more) as Hhg.
  unfold b, fv_header. rewrite <- !app_assoc.
  repeat split.
  - apply sub_app_here; auto.
  - rewrite (sub_app_skip _ _ 16 16 16) by (auto; lia). change (16 - 16) with 0. apply sub_app_here; auto.
  - rewrite (rd_app_skip _ _ 32 8 16) by (auto; lia). change (32 - 16) with 16.
    rewrite (rd_app_skip _ _ 16 8 16) by (auto; lia). change (16 - 16) with 0.
    rewrite rd_app_here by apply le8'. apply le_dec_enc. change (256 ^ Z.of_nat 8) with (2 ^ 64). lia.
  - rewrite (rd_app_skip _ _ 40 4 16) by (auto; lia). change (40 - 16) with 24.
    rewrite (rd_app_skip _ _ 24 4 16) by (auto; lia). change (24 - 16) with 8.
    rewrite (rd_app_skip _ _ 8 4 8) by (try apply le8'; lia). change (8 - 8) with 0.
    rewrite (rd_app_here [95; 70; 86; 72]) by reflexivity. reflexivity.
  - rewrite (rd_app_skip _ _ 44 4 16) by (auto; lia). change (44 - 16) with 28.
    rewrite (rd_app_skip _ _ 28 4 16) by (auto; lia). change (28 - 16) with 12.
    rewrite (rd_app_skip _ _ 12 4 8) by (try apply le8'; lia). change (12 - 8) with 4.
    rewrite (rd_app_skip [95; 70; 86; 72] _ 4 4 4) by (try reflexivity; lia). change (4 - 4) with 0.
    rewrite rd_app_here by apply le4'. apply le_dec_enc. change (256 ^ Z.of_nat 4) with (2 ^ 32). lia.
  - rewrite (rd_app_skip _ _ 48 2 16) by (auto; lia). change (48 - 16) with 32.
    rewrite (rd_app_skip _ _ 32 2 16) by (auto; lia). change (32 - 16) with 16.
    rewrite (rd_app_skip _ _ 16 2 8) by (try apply le8'; lia). change (16 - 8) with 8.
    rewrite (rd_app_skip [95; 70; 86; 72] _ 8 2 4) by (try reflexivity; lia). change (8 - 4) with 4.
    rewrite (rd_app_skip _ _ 4 2 4) by (try apply le4'; lia). change (4 - 4) with 0.
    rewrite rd_app_here by apply le2'. apply le_dec_enc. change (256 ^ Z.of_nat 2) with 65536. lia.
  - rewrite (rd_app_skip _ _ 50 2 16) by (auto; lia). change (50 - 16) with 34.
    rewrite (rd_app_skip _ _ 34 2 16) by (auto; lia). change (34 - 16) with 18.
    rewrite (rd_app_skip _ _ 18 2 8) by (try apply le8'; lia). change (18 - 8) with 10.
    rewrite (rd_app_skip [95; 70; 86; 72] _ 10 2 4) by (try reflexivity; lia). change (10 - 4) with 6.
    rewrite (rd_app_skip _ _ 6 2 4) by (try apply le4'; lia). change (6 - 4) with 2.
    rewrite (rd_app_skip _ _ 2 2 2) by (try apply le2'; lia). change (2 - 2) with 0.
    rewrite rd_app_here by apply le2'. apply le_dec_enc. change (256 ^ Z.of_nat 2) with 65536. lia.
  - rewrite (rd_app_skip _ _ 52 2 16) by (auto; lia). change (52 - 16) with 36.
    rewrite (rd_app_skip _ _ 36 2 16) by (auto; lia). change (36 - 16) with 20.
    rewrite (rd_app_skip _ _ 20 2 8) by (try apply le8'; lia). change (20 - 8) with 12.
    rewrite (rd_app_skip [95; 70; 86; 72] _ 12 2 4) by (try reflexivity; lia). change (12 - 4) with 8.
    rewrite (rd_app_skip _ _ 8 2 4) by (try apply le4'; lia). change (8 - 4) with 4.
    rewrite (rd_app_skip _ _ 4 2 2) by (try apply le2'; lia). change (4 - 2) with 2.
    rewrite (rd_app_skip _ _ 2 2 2) by (try apply le2'; lia). change (2 - 2) with 0.
    rewrite rd_app_here by apply le2'. apply le_dec_enc. change (256 ^ Z.of_nat 2) with 65536. lia.
  - rewrite (rd_app_skip _ _ 54 1 16) by (auto; lia). change (54 - 16) with 38.
    rewrite (rd_app_skip _ _ 38 1 16) by (auto; lia). change (38 - 16) with 22.
    rewrite (rd_app_skip _ _ 22 1 8) by (try apply le8'; lia). change (22 - 8) with 14.
    rewrite (rd_app_skip [95; 70; 86; 72] _ 14 1 4) by (try reflexivity; lia). change (14 - 4) with 10.
    rewrite (rd_app_skip _ _ 10 1 4) by (try apply le4'; lia). change (10 - 4) with 6.
    rewrite (rd_app_skip _ _ 6 1 2) by (try apply le2'; lia). change (6 - 2) with 4.
    rewrite (rd_app_skip _ _ 4 1 2) by (try apply le2'; lia). change (4 - 2) with 2.
    rewrite (rd_app_skip _ _ 2 1 2) by (try apply le2'; lia). change (2 - 2) with 0.
    cbn [app]. apply rd_cons_here.
  - rewrite (rd_app_skip _ _ 55 1 16) by (auto; lia). change (55 - 16) with 39.
    rewrite (rd_app_skip _ _ 39 1 16) by (auto; lia). change (39 - 16) with 23.
    rewrite (rd_app_skip _ _ 23 1 8) by (try apply le8'; lia). change (23 - 8) with 15.
    rewrite (rd_app_skip [95; 70; 86; 72] _ 15 1 4) by (try reflexivity; lia). change (15 - 4) with 11.
    rewrite (rd_app_skip _ _ 11 1 4) by (try apply le4'; lia). change (11 - 4) with 7.
    rewrite (rd_app_skip _ _ 7 1 2) by (try apply le2'; lia). change (7 - 2) with 5.
    rewrite (rd_app_skip _ _ 5 1 2) by (try apply le2'; lia). change (5 - 2) with 3.
    rewrite (rd_app_skip _ _ 3 1 2) by (try apply le2'; lia). change (3 - 2) with 1.
    cbn [app]. rewrite rd_cons_skip by lia. apply rd_cons_here.
  - set (fixed := zero ++ g ++ le_enc 8 len ++ [95; 70; 86; 72] ++ le_enc 4 attrs ++ le_enc 2 (fv_hlen more) ++
                  le_enc 2 ck ++ le_enc 2 eo ++ [reserved; rev]).
    assert (L : zlen fixed = 56).
    { unfold fixed. rewrite !zlen_app, Lz, Lg, le8', le4', !le2'. reflexivity. }
    replace (zero ++ g ++ le_enc 8 len ++ [95; 70; 86; 72] ++ le_enc 4 attrs ++ le_enc 2 (fv_hlen more) ++
             le_enc 2 ck ++ le_enc 2 eo ++ [reserved; rev] ++ le_enc 4 count ++ le_enc 4 bsize ++
             blocks_bytes more ++ zrepeat 0 8 ++ tail)
      with (fixed ++ le_enc 4 count ++ le_enc 4 bsize ++ blocks_bytes more ++ zrepeat 0 8 ++ tail)
      by (unfold fixed; rewrite <- !app_assoc; reflexivity).
    rewrite <- L. apply zskipn_app_exact.
Qed.

Definition block_ok (cs : Z * Z) : bool :=
  (0 <=? fst cs) && (fst cs <? 2 ^ 32) && (0 <=? snd cs) && (snd cs <? 2 ^ 32) &&
  negb ((fst cs =? 0) && (snd cs =? 0)).

Lemma parse_blocks_list more tail n : forallb block_ok more = true -> (length more + 1 <= n)%nat ->
  parse_blocks n (blocks_bytes more ++ zrepeat 0 8 ++ tail) = Ok more.
Proof.
  revert n. induction more as [|[c s] r IH]; intros n Hok Hn.
  - destruct n as [|n]; [cbn [length] in Hn; lia|].
    pose proof (zlen_nonneg tail).
    cbn [blocks_bytes app parse_blocks].
    change (zrepeat 0 8) with ([0; 0; 0; 0] ++ [0; 0; 0; 0]). rewrite <- app_assoc.
    rewrite !zlen_app. change (zlen [0; 0; 0; 0]) with 4.
    replace (4 + (4 + zlen tail) <? 8) with false by lia.
    rewrite (rd_app_here [0; 0; 0; 0]) by reflexivity.
    rewrite (rd_app_skip [0; 0; 0; 0] _ 4 4 4) by (try reflexivity; lia). change (4 - 4) with 0.
    rewrite (rd_app_here [0; 0; 0; 0]) by reflexivity.
    change (le_dec [0; 0; 0; 0]) with 0. reflexivity.
  - destruct n as [|n]; [cbn [length] in Hn; lia|].
    cbn [forallb] in Hok. apply andb_true_iff in Hok as [Hcs Hr].
    unfold block_ok in Hcs. cbn [fst snd] in Hcs.
    pose proof (zlen_nonneg tail). pose proof (zlen_nonneg (blocks_bytes r)).
    cbn [blocks_bytes parse_blocks]. rewrite <- !app_assoc.
    rewrite !zlen_app, !le4', zlen_zrepeat by lia.
    replace (4 + (4 + (zlen (blocks_bytes r) + (8 + zlen tail))) <? 8) with false by lia.
    rewrite rd_app_here by apply le4'.
    rewrite (rd_app_skip _ _ 4 4 4) by (try apply le4'; lia). change (4 - 4) with 0.
    rewrite rd_app_here by apply le4'.
    rewrite !le_dec_enc by (change (256 ^ Z.of_nat 4) with (2 ^ 32); lia).
    replace ((c =? 0) && (s =? 0)) with false by lia.
    replace (zskipn 8 (le_enc 4 c ++ le_enc 4 s ++ blocks_bytes r ++ zrepeat 0 8 ++ tail))
      with (blocks_bytes r ++ zrepeat 0 8 ++ tail).
    2:{ rewrite (app_assoc (le_enc 4 c)). symmetry.
        assert (L : zlen (le_enc 4 c ++ le_enc 4 s) = 8) by (rewrite zlen_app, !le4'; reflexivity).
        rewrite <- L. apply zskipn_app_exact. }
    rewrite IH by (auto; cbn [length] in Hn; lia). reflexivity.
Qed.

Lemma parse_blocks_one count bsize more tail n : 0 <= count < 2 ^ 32 -> 0 <= bsize < 2 ^ 32 ->
  (count =? 0) && (bsize =? 0) = false -> forallb block_ok more = true -> (length more + 2 <= n)%nat ->
  parse_blocks n (le_enc 4 count ++ le_enc 4 bsize ++ blocks_bytes more ++ zrepeat 0 8 ++ tail) =
    Ok ((count, bsize) :: more).
Proof.
  intros Hc Hs Hnz Hm Hn.
  apply (parse_blocks_list ((count, bsize) :: more) tail n); [|cbn [length]; lia].
  cbn [forallb]. rewrite Hm. unfold block_ok. cbn [fst snd]. rewrite Hnz. lia.
Qed.

(* ---------- volumes: header fix-ups are the identity on a well-formed header ---------- *)

Lemma splice_mid A d d' C : zlen d = zlen d' -> splice (zlen A) d (A ++ d' ++ C) = A ++ d ++ C.
Proof.
  intros L. unfold splice. rewrite zfirstn_app_exact. f_equal. f_equal.
  rewrite L. rewrite app_assoc. rewrite <- zlen_app. apply zskipn_app_exact.
Qed.

Lemma zlen_flay_ge files : Forall (fun f => 24 <= zlen f) files ->
  24 * Z.of_nat (length files) <= zlen (flay files).
Proof.
  induction 1 as [|f r Hf Hr IH]; [cbn; unfold zlen; cbn; lia|].
  rewrite zlen_flay_cons. cbn [length]. pose proof (zlen_nonneg f) as Hn.
  destruct (align8_spec (zlen f) Hn) as [B _]. lia.
Qed.

Lemma bytes_ok_flay files : Forall (fun f => bytes_ok f = true) files -> bytes_ok (flay files) = true.
Proof.
  induction 1 as [|f r Hf Hr IH]; [reflexivity|].
  cbn [flay]. rewrite !bytes_ok_app, Hf, IH, bytes_ok_zrepeat by lia. reflexivity.
Qed.

Lemma zlen_play_le files : forall u, 0 <= u ->
  zlen (play u files) <= (align8 u - u) + zlen (flay files).
Proof.
  induction files as [|f r IH]; intros u Hu.
  - cbn [play flay]. change (zlen (@nil Z)) with 0. destruct (align8_spec u Hu). lia.
  - cbn [play]. rewrite zlen_flay_cons. destruct (align8_spec u Hu) as [B M].
    pose proof (zlen_nonneg f) as Hf. destruct (align8_spec (zlen f) Hf) as [Bf Mf].
    rewrite !zlen_app, zlen_zrepeat by lia.
    specialize (IH (align8 u + zlen f) ltac:(lia)).
    rewrite align8_add in IH by lia. lia.
Qed.

Definition vol_ok (vb : bytes) : Prop :=
  bytes_ok vb = true /\ 72 <= zlen vb /\
  exists d0, forall d, (d0 <= d)%nat -> forall pol rest off rz, (pol = 240 \/ pol = 255) ->
    exists h kids, parse_fv d pol (vb ++ rest) off rz = Ok (NVol h vb kids, 255) /\
      v_length h = zlen vb /\
      forall ffs, exists h' kids',
        asm (NVol h vb kids) (255, ffs) = Ok (NVol h' vb kids', (255, ffs)) /\
        fv_polarity (v_attrs h') = 255.

(* ---------- files in the FFSv3 large form (32-byte header, 64-bit size) ---------- *)

Lemma zlen_raw_file_large g ckh ckf t attr state body : zlen g = 16 ->
  zlen (raw_file_bytes_large g ckh ckf t attr state body) = 32 + zlen body.
Proof.
  intros Lg. unfold raw_file_bytes_large. rewrite !zlen_app, le3, le8', Lg.
  change (zlen [ckh; ckf; t; attr]) with 4. change (zlen [state]) with 1. lia.
Qed.

Lemma raw_file_large_as_raw g ckh ckf t attr state body :
  raw_file_bytes_large g ckh ckf t attr state body =
  g ++ [ckh; ckf; t; attr] ++ le_enc 3 16777215 ++ [state] ++ (le_enc 8 (32 + zlen body) ++ body).
Proof. reflexivity. Qed.

Lemma raw_file_large_fields g ckh ckf t attr state body rest :
  zlen g = 16 -> 32 + zlen body < 2 ^ 64 ->
  let b := raw_file_bytes_large g ckh ckf t attr state body ++ rest in
  sub 0 16 b = g /\ rd 16 1 b = ckh /\ rd 17 1 b = ckf /\ rd 18 1 b = t /\ rd 19 1 b = attr /\
  rd 20 3 b = 16777215 /\ rd 23 1 b = state /\ rd 24 8 b = 32 + zlen body.
Proof.
  intros Lg Hn b. unfold b, raw_file_bytes_large. rewrite <- !app_assoc.
  pose proof (zlen_nonneg body).
  repeat split.
  - apply sub_app_here; auto.
  - rewrite (rd_app_skip _ _ 16 1 16) by (auto; lia). change (16 - 16) with 0.
    cbn [app]. apply rd_cons_here.
  - rewrite (rd_app_skip _ _ 17 1 16) by (auto; lia). change (17 - 16) with 1. cbn [app].
    rewrite rd_cons_skip by lia. apply rd_cons_here.
  - rewrite (rd_app_skip _ _ 18 1 16) by (auto; lia). change (18 - 16) with 2. cbn [app].
    rewrite !rd_cons_skip by lia. apply rd_cons_here.
  - rewrite (rd_app_skip _ _ 19 1 16) by (auto; lia). change (19 - 16) with 3. cbn [app].
    rewrite rd_cons_skip by lia. change (3 - 1) with 2. rewrite rd_cons_skip by lia.
    change (2 - 1) with 1. rewrite rd_cons_skip by lia. apply rd_cons_here.
  - rewrite (rd_app_skip _ _ 20 3 16) by (auto; lia). change (20 - 16) with 4. cbn [app].
    rewrite rd_cons_skip by lia. change (4 - 1) with 3. rewrite rd_cons_skip by lia.
    change (3 - 1) with 2. rewrite rd_cons_skip by lia. change (2 - 1) with 1.
    rewrite rd_cons_skip by lia. change (1 - 1) with 0.
    rewrite rd_app_here by apply le3. apply le_dec_enc. change (256 ^ Z.of_nat 3) with 16777216. lia.
  - rewrite (rd_app_skip _ _ 23 1 16) by (auto; lia). change (23 - 16) with 7. cbn [app].
    rewrite rd_cons_skip by lia. change (7 - 1) with 6. rewrite rd_cons_skip by lia.
    change (6 - 1) with 5. rewrite rd_cons_skip by lia. change (5 - 1) with 4.
    rewrite rd_cons_skip by lia. change (4 - 1) with 3.
    rewrite (rd_app_skip _ _ 3 1 3) by (try apply le3; lia). change (3 - 3) with 0.
    apply rd_cons_here.
  - rewrite (rd_app_skip _ _ 24 8 16) by (auto; lia). change (24 - 16) with 8. cbn [app].
    rewrite rd_cons_skip by lia. change (8 - 1) with 7. rewrite rd_cons_skip by lia.
    change (7 - 1) with 6. rewrite rd_cons_skip by lia. change (6 - 1) with 5.
    rewrite rd_cons_skip by lia. change (5 - 1) with 4.
    rewrite (rd_app_skip _ _ 4 8 3) by (try apply le3; lia). change (4 - 3) with 1.
    rewrite rd_cons_skip by lia. change (1 - 1) with 0.
    rewrite rd_app_here by apply le8'. apply le_dec_enc. change (256 ^ Z.of_nat 8) with (2 ^ 64). lia.
Qed.

Lemma bytes_ok_raw_file_large g ckh ckf t attr state body :
  bytes_ok g = true -> 0 <= ckh < 256 -> 0 <= ckf < 256 -> 0 <= t < 256 -> 0 <= attr < 256 ->
  0 <= state < 256 -> bytes_ok body = true ->
  bytes_ok (raw_file_bytes_large g ckh ckf t attr state body) = true.
Proof.
  intros Og Hh Hf Ht Ha Hs Ob. unfold raw_file_bytes_large. rewrite !bytes_ok_app, !le_enc_ok, Og, Ob.
  cbn [bytes_ok forallb]. unfold byte_ok. lia.
Qed.

(* a file in the large form whose content fiano keeps as it is (a type it does not decompose, or no
   body): the 64-bit size is the file's extent, nothing is rebuilt.  No bound on the size below
   2^64 - 1 (the value the parser reads as erased space) *)
Lemma file_ok_opaque_large g ckh ckf t attr state body :
  zlen g = 16 -> bytes_ok g = true -> 0 <= ckh < 256 -> 0 <= ckf < 256 -> 0 <= t < 256 ->
  0 <= attr < 256 -> 0 <= state < 256 -> bytes_ok body = true -> 32 + zlen body < 2 ^ 64 - 1 ->
  (t =? 1) && bytes_eqb g NVAR_GUID = false ->
  (supported_file t = false \/ body = []) ->
  file_ok (raw_file_bytes_large g ckh ckf t attr state body).
Proof.
  intros Lg Og Hh Hf Ht Ha Hs Ob Hn Hnv Hop. pose proof (zlen_nonneg body) as Hb.
  set (fb := raw_file_bytes_large g ckh ckf t attr state body).
  assert (Lf : zlen fb = 32 + zlen body) by (apply zlen_raw_file_large; auto).
  split; [apply bytes_ok_raw_file_large; auto|]. split; [lia|].
  exists 1%nat. intros d Hd rest. destruct d as [|d]; [lia|].
  rewrite parse_file_S.
  destruct (raw_file_large_fields g ckh ckf t attr state body rest Lg ltac:(lia))
    as (F0 & F16 & F17 & F18 & F19 & F20 & F23 & F24).
  fold fb in F0, F16, F17, F18, F19, F20, F23, F24.
  destruct (raw_file_large_fields g ckh ckf t attr state body [] Lg ltac:(lia)) as (_ & _ & _ & _ & F19' & _).
  fold fb in F19'. rewrite app_nil_r in F19'.
  pose proof (zlen_nonneg rest) as Hr.
  unfold file_body. rewrite !zlen_app, Lf.
  replace (32 + zlen body + zlen rest <? 24) with false by lia.
  rewrite F0, F16, F17, F18, F19, F20, F23, F24.
  change (16777215 =? 16777215) with true. cbv iota.
  replace (32 + zlen body + zlen rest <? 32) with false by lia. cbn [bind andb].
  replace (32 + zlen body =? U64 - 1) with false by (unfold U64; lia).
  replace (32 + zlen body + zlen rest <? 32 + zlen body) with false by lia.
  replace (32 + zlen body <? 32) with false by lia.
  rewrite Hnv. cbn [bind].
  rewrite <- Lf. rewrite (sub_app_here fb rest (zlen fb) eq_refl). rewrite Lf.
  assert (Easm : forall h, f_nvar h = None ->
            asm (NFile h fb []) (255, false) = Ok (NFile h fb [], (255, false))).
  { intros h Hv. rewrite asm_NFile. cbn [Ffs.asm_elems bind]. unfold file_asm. rewrite Hv. reflexivity. }
  destruct (supported_file t) eqn:Sup; cbn [negb].
  - destruct Hop as [Hop|Hop]; [discriminate|]. subst body.
    change (zlen (@nil Z)) with 0 in *. change (32 + 0) with 32 in *.
    change (Z.to_nat 32 + 1)%nat with 33%nat.
    rewrite sections_loop_done by lia.
    cbn [bind].
    eexists; eexists. split; [reflexivity|]. cbn [f_ext f_attr].
    split; [lia|]. split; [symmetry; exact F19'|].
    eexists; eexists. split; [apply Easm; reflexivity|reflexivity].
  - eexists; eexists. split; [reflexivity|]. cbn [f_ext f_attr].
    split; [lia|]. split; [symmetry; exact F19'|].
    eexists; eexists. split; [apply Easm; reflexivity|reflexivity].
Qed.


(* ====================================================================================== *)
(* Files rebuilt from their sections whose size reaches 16 MiB (FFSv3 large form).  Assembling
   such a file raises the "use FFSv3" flag of the enclosing volume; the flag is only ever
   accumulated, so everything proved from the cleared flag carries over ([asm_flag]). *)

Definition lift {A} (fl : bool) (o : outcome (A * ast)) : outcome (A * ast) :=
  match o with
  | Ok (a, (p, f)) => Ok (a, (p, fl || f))
  | Err e => Err e
  | Panic s => Panic s
  | Fuel => Fuel
  end.

Ltac crush_flag :=
  repeat (cbn [bind lift];
          match goal with
          | |- context [match ?x with _ => _ end] =>
            lazymatch x with
            | context [lift] => fail
            | _ => destruct x eqn:?
            end
          | |- context [bind ?x _] =>
            lazymatch x with
            | context [lift] => fail
            | context [bind] => fail
            | _ => destruct x eqn:?
            end
          end);
  cbn [bind lift]; rewrite ?orb_false_r; try reflexivity.

Lemma sec_asm_flag h buf kids pol fl :
  sec_asm enc s2u h buf kids (pol, fl) = lift fl (sec_asm enc s2u h buf kids (pol, false)).
Proof. unfold sec_asm. crush_flag. Qed.

Lemma file_asm_flag h buf kids pol fl :
  file_asm h buf kids (pol, fl) = lift fl (file_asm h buf kids (pol, false)).
Proof. unfold file_asm. crush_flag. Qed.

Lemma lift_lift {A} a b (o : outcome (A * ast)) : lift a (lift b o) = lift (a || b) o.
Proof. destruct o as [[x [p f]]| | |]; cbn [lift]; try reflexivity. rewrite orb_assoc. reflexivity. Qed.

Fixpoint asm_flag (n : node) {struct n} : forall pol fl,
  asm n (pol, fl) = lift fl (asm n (pol, false)).
Proof.
  destruct n as [h buf kids|h buf kids|h buf kids|off b]; intros pol fl.
  - rewrite !asm_NSec.
    assert (K : forall pol fl, asm_elems kids (pol, fl) = lift fl (asm_elems kids (pol, false))).
    { clear pol fl. induction kids as [|x r IH]; intros pol fl;
        [cbn [Ffs.asm_elems lift]; rewrite orb_false_r; reflexivity|].
      cbn [Ffs.asm_elems]. rewrite (asm_flag x pol fl).
      destruct (asm x (pol, false)) as [[x' [p1 f1]]| | |]; cbn [lift bind]; try reflexivity.
      rewrite (IH p1 (fl || f1)), (IH p1 f1).
      destruct (asm_elems r (p1, false)) as [[r' [p2 f2]]| | |]; cbn [lift bind]; try reflexivity.
      rewrite orb_assoc. reflexivity. }
    rewrite (K pol fl).
    destruct (asm_elems kids (pol, false)) as [[k' [p1 f1]]| | |]; cbn [lift bind]; try reflexivity.
    rewrite (sec_asm_flag h buf k' p1 (fl || f1)), (sec_asm_flag h buf k' p1 f1), lift_lift. reflexivity.
  - rewrite !asm_NFile.
    assert (K : forall pol fl, asm_elems kids (pol, fl) = lift fl (asm_elems kids (pol, false))).
    { clear pol fl. induction kids as [|x r IH]; intros pol fl;
        [cbn [Ffs.asm_elems lift]; rewrite orb_false_r; reflexivity|].
      cbn [Ffs.asm_elems]. rewrite (asm_flag x pol fl).
      destruct (asm x (pol, false)) as [[x' [p1 f1]]| | |]; cbn [lift bind]; try reflexivity.
      rewrite (IH p1 (fl || f1)), (IH p1 f1).
      destruct (asm_elems r (p1, false)) as [[r' [p2 f2]]| | |]; cbn [lift bind]; try reflexivity.
      rewrite orb_assoc. reflexivity. }
    rewrite (K pol fl).
    destruct (asm_elems kids (pol, false)) as [[k' [p1 f1]]| | |]; cbn [lift bind]; try reflexivity.
    rewrite (file_asm_flag h buf k' p1 (fl || f1)), (file_asm_flag h buf k' p1 f1), lift_lift. reflexivity.
  - rewrite !asm_NVol. cbn [fst snd].
    destruct (set_polarity pol (fv_polarity (v_attrs h))) as [pol0|]; [|reflexivity].
    destruct (asm_elems kids (pol0, false)) as [[k' st1]| | |]; cbn [lift bind]; try reflexivity.
    destruct (vol_asm h buf k' st1) as [[n' [p2 f2]]| | |]; cbn [lift bind fst]; try reflexivity.
    rewrite orb_false_r. reflexivity.
  - cbn [Ffs.asm lift]. rewrite orb_false_r. reflexivity.
Qed.

Lemma asm_elems_flag kids pol fl :
  asm_elems kids (pol, fl) = lift fl (asm_elems kids (pol, false)).
Proof.
  revert pol fl. induction kids as [|x r IH]; intros pol fl;
    [cbn [Ffs.asm_elems lift]; rewrite orb_false_r; reflexivity|].
  cbn [Ffs.asm_elems]. rewrite (asm_flag x pol fl).
  destruct (asm x (pol, false)) as [[x' [p1 f1]]| | |]; cbn [lift bind]; try reflexivity.
  rewrite (IH p1 (fl || f1)), (IH p1 f1).
  destruct (asm_elems r (p1, false)) as [[r' [p2 f2]]| | |]; cbn [lift bind]; try reflexivity.
  rewrite orb_assoc. reflexivity.
Qed.


(* ---------- R8L: files rebuilt from their sections, 16 MiB and more ---------- *)

Definition file_okL (fb : bytes) : Prop :=
  bytes_ok fb = true /\ 32 <= zlen fb /\
  exists d0, forall d, (d0 <= d)%nat -> forall rest,
    exists h kids, parse_file d 255 (fb ++ rest) = Ok (Some (NFile h fb kids), 255) /\
      f_ext h = zlen fb /\ f_attr h = rd 19 1 fb /\
      exists h' kids', asm (NFile h fb kids) (255, false) = Ok (NFile h' fb kids', (255, true)) /\
                       f_attr h' = f_attr h.

Lemma byte_lor_1 a : 0 <= a < 256 -> Z.land a 1 = 1 -> Z.lor a 1 = a.
Proof.
  intros Ha H1.
  assert (F : forallb (fun n => negb (Z.land (Z.of_nat n) 1 =? 1) || (Z.lor (Z.of_nat n) 1 =? Z.of_nat n))
                      (seq 0 256) = true) by (vm_compute; reflexivity).
  rewrite forallb_forall in F. specialize (F (Z.to_nat a)).
  rewrite Z2Nat.id in F by lia. rewrite H1 in F. change (1 =? 1) with true in F. cbn [negb orb] in F.
  apply Z.eqb_eq. apply F. apply in_seq. lia.
Qed.

Lemma file_bytes_large_raw g t attr state body :
  file_bytes_large g t attr state body =
  raw_file_bytes_large g
    ((0 - (sum_list g + t + attr + sum_list (le_enc 3 16777215) + sum_list (le_enc 8 (32 + zlen body)))) mod 256)
    (if attr_checksum attr then (0 - sum_list body) mod 256 else 170) t attr state body.
Proof. reflexivity. Qed.

Lemma checksum_and_assemble_large_id h g t attr state data :
  zlen g = 16 -> 0 <= attr < 256 -> Z.land attr 1 = 1 -> 16777215 <= 32 + zlen data ->
  f_guid h = g -> f_type h = t -> f_state h = state ->
  f_ckh h = (0 - (sum_list g + t + attr + sum_list (le_enc 3 16777215) +
                  sum_list (le_enc 8 (32 + zlen data)))) mod 256 ->
  snd (checksum_and_assemble h (32 + zlen data) attr data) = file_bytes_large g t attr state data /\
  f_attr (fst (checksum_and_assemble h (32 + zlen data) attr data)) = attr.
Proof.
  intros Lg Ha Hl Hn Eg Et Es Eh. pose proof (zlen_nonneg data).
  unfold checksum_and_assemble. cbn [fst snd f_attr]. split; [|reflexivity].
  unfold attr_large. rewrite Hl. change (negb (1 =? 0)) with true. cbv iota.
  unfold write3. replace (16777215 <=? 32 + zlen data) with true by lia.
  rewrite Eg, Et, Es.
  set (sz := le_enc 3 16777215). set (xs := le_enc 8 (32 + zlen data)).
  assert (F32 : zfirstn 32 (file_header_bytes g (f_ckh h) (f_ckf h) t attr 16777215 state (32 + zlen data) true)
                = g ++ [f_ckh h; f_ckf h; t; attr] ++ sz ++ [state] ++ xs).
  { unfold file_header_bytes. fold sz xs.
    assert (L : zlen (g ++ [f_ckh h; f_ckf h; t; attr] ++ sz ++ [state] ++ xs) = 32).
    { rewrite !zlen_app, Lg. unfold sz, xs. rewrite le3, le8'. reflexivity. }
    rewrite <- L. rewrite <- (app_nil_r (g ++ [f_ckh h; f_ckf h; t; attr] ++ sz ++ [state] ++ xs)) at 2.
    apply zfirstn_app_exact. }
  rewrite F32. unfold sum8. rewrite !sum_list_app.
  change (sum_list [f_ckh h; f_ckf h; t; attr]) with (f_ckh h + (f_ckf h + (t + (attr + 0)))).
  change (sum_list [state]) with (state + 0).
  set (S := sum_list g + t + attr + sum_list sz + sum_list xs).
  replace (sum_list g + (f_ckh h + (f_ckf h + (t + (attr + 0))) + (sum_list sz + (state + 0 + sum_list xs))))
    with (S + f_ckh h + f_ckf h + state) by (unfold S; lia).
  rewrite (ck_fix S (f_ckh h) (f_ckf h) state) by (rewrite Eh; reflexivity).
  rewrite file_bytes_large_raw. unfold raw_file_bytes_large, file_header_bytes. fold sz xs. rewrite Eh. fold S.
  replace ((0 - sum_list data mod 256) mod 256) with ((0 - sum_list data) mod 256).
  - rewrite <- !app_assoc. reflexivity.
  - rewrite (Zminus_mod 0 (sum_list data mod 256)), Z.mod_mod by lia. rewrite <- Zminus_mod. reflexivity.
Qed.

Lemma file_okL_sections g t attr state secs :
  zlen g = 16 -> bytes_ok g = true -> 0 <= t < 256 -> 0 <= attr < 256 -> 0 <= state < 256 ->
  Z.land attr 1 = 1 -> supported_file t = true -> secs <> [] -> Forall sec_ok secs ->
  16777215 <= 24 + zlen (sections_bytes secs) -> 32 + zlen (sections_bytes secs) < 2 ^ 64 - 1 ->
  file_okL (file_bytes_large g t attr state (sections_bytes secs)).
Proof.
  intros Lg Og Ht Ha Hs Hl Hsup Hne Hok Hbig Hn.
  rewrite sections_bytes_lay in *. set (body := lay secs) in *.
  pose proof (zlen_nonneg body) as Hbn.
  assert (Obody : bytes_ok body = true).
  { apply bytes_ok_lay. eapply Forall_impl; [|exact Hok]. intros a (O & _); exact O. }
  assert (Hnv : (t =? 1) && bytes_eqb g NVAR_GUID = false).
  { destruct (t =? 1) eqn:E; [|reflexivity]. apply Z.eqb_eq in E. subst t. discriminate. }
  rewrite file_bytes_large_raw.
  set (ckh := (0 - (sum_list g + t + attr + sum_list (le_enc 3 16777215) +
                    sum_list (le_enc 8 (32 + zlen body)))) mod 256).
  set (ckf := if attr_checksum attr then (0 - sum_list body) mod 256 else 170).
  assert (Hckh : 0 <= ckh < 256) by (apply Z.mod_pos_bound; lia).
  assert (Hckf : 0 <= ckf < 256) by (unfold ckf; destruct (attr_checksum attr); [apply Z.mod_pos_bound|]; lia).
  set (fb := raw_file_bytes_large g ckh ckf t attr state body).
  assert (Lf : zlen fb = 32 + zlen body) by (apply zlen_raw_file_large; auto).
  split; [apply bytes_ok_raw_file_large; auto|]. split; [lia|].
  destruct (Forall_sec_ok_at secs Hok) as (d1 & Hd1).
  exists (S d1). intros d Hd rest. destruct d as [|d]; [lia|].
  rewrite parse_file_S.
  destruct (raw_file_large_fields g ckh ckf t attr state body rest Lg ltac:(lia))
    as (F0 & F16 & F17 & F18 & F19 & F20 & F23 & F24).
  fold fb in F0, F16, F17, F18, F19, F20, F23, F24.
  destruct (raw_file_large_fields g ckh ckf t attr state body [] Lg ltac:(lia)) as (_ & _ & _ & _ & F19' & _).
  fold fb in F19'. rewrite app_nil_r in F19'.
  pose proof (zlen_nonneg rest) as Hr.
  unfold file_body. rewrite !zlen_app, Lf.
  replace (32 + zlen body + zlen rest <? 24) with false by lia.
  rewrite F0, F16, F17, F18, F19, F20, F23, F24.
  change (16777215 =? 16777215) with true. cbv iota.
  replace (32 + zlen body + zlen rest <? 32) with false by lia. cbn [bind andb].
  replace (32 + zlen body =? U64 - 1) with false by (unfold U64; lia).
  replace (32 + zlen body + zlen rest <? 32 + zlen body) with false by lia.
  replace (32 + zlen body <? 32) with false by lia.
  rewrite Hnv. cbn [bind].
  rewrite <- Lf. rewrite (sub_app_here fb rest (zlen fb) eq_refl). rewrite Lf.
  rewrite Hsup. cbn [negb].
  (* the file buffer is a 32-byte header followed by the laid-out sections *)
  set (hdr := g ++ [ckh; ckf; t; attr] ++ le_enc 3 16777215 ++ [state] ++ le_enc 8 (32 + zlen body)).
  assert (Lh : zlen hdr = 32) by (unfold hdr; rewrite !zlen_app, Lg, le3, le8'; reflexivity).
  assert (Efb : fb = hdr ++ lay secs).
  { unfold fb, raw_file_bytes_large, hdr. fold body. rewrite <- !app_assoc. reflexivity. }
  assert (Hfuel : (length secs < Z.to_nat (32 + zlen body) + 1)%nat).
  { assert (G : 4 * Z.of_nat (length secs) <= zlen (lay secs)).
    { apply zlen_lay_ge. eapply Forall_impl; [|exact Hok]. intros a (_ & L & _). lia. }
    fold body in G. lia. }
  destruct (sections_loop_lay d secs (Hd1 d ltac:(lia)) hdr (Z.to_nat (32 + zlen body) + 1)%nat 0)
    as (kids & El & kids' & Ek & Em); [rewrite Lh; reflexivity | exact Hfuel |].
  rewrite Lh in El. rewrite Efb. rewrite El. cbn [bind]. rewrite <- Efb.
  eexists; eexists. split; [reflexivity|]. cbn [f_ext f_attr].
  split; [lia|]. split; [symmetry; exact F19'|].
  rewrite asm_NFile. rewrite Ek. cbn [bind]. unfold file_asm. cbn [f_nvar].
  destruct kids' as [|k0 kr] eqn:Ekids.
  { exfalso. cbn in Em. apply Hne. symmetry. exact Em. }
  rewrite <- Ekids in *. rewrite Em.
  replace (join4 [] secs) with body by (symmetry; apply sections_bytes_lay).
  destruct kids' as [|k0' kr']; [discriminate|].
  unfold set_size. replace (16777215 <=? 24 + zlen body) with true by lia.
  unfold set_large. cbn [f_attr]. rewrite byte_lor_1 by auto.
  replace (24 + zlen body + 8) with (32 + zlen body) by lia.
  match goal with |- context [checksum_and_assemble ?h _ _ _] =>
    destruct (checksum_and_assemble_large_id h g t attr state body Lg Ha Hl ltac:(lia) eq_refl eq_refl eq_refl eq_refl)
      as [E1 E2];
    destruct (checksum_and_assemble h (32 + zlen body) attr body) as [h' nb] eqn:G end.
  cbn [fst snd] in E1, E2. rewrite E1. rewrite file_bytes_large_raw. fold ckh ckf. fold fb.
  replace (16777215 <? 32 + zlen body) with true by lia. cbn [orb].
  eexists; eexists. split; [reflexivity|]. exact E2.
Qed.



(* ---------- files with a given resulting "use FFSv3" flag ---------- *)

Definition file_ok_b (b : bool) (fb : bytes) : Prop :=
  bytes_ok fb = true /\ 24 <= zlen fb /\
  exists d0, forall d, (d0 <= d)%nat -> forall rest,
    exists h kids, parse_file d 255 (fb ++ rest) = Ok (Some (NFile h fb kids), 255) /\
      f_ext h = zlen fb /\ f_attr h = rd 19 1 fb /\
      exists h' kids', asm (NFile h fb kids) (255, false) = Ok (NFile h' fb kids', (255, b)) /\
                       f_attr h' = f_attr h.

Definition file_ok_at_b (b : bool) (d : nat) (fb : bytes) : Prop :=
  bytes_ok fb = true /\ 24 <= zlen fb /\
  forall rest,
    exists h kids, parse_file d 255 (fb ++ rest) = Ok (Some (NFile h fb kids), 255) /\
      f_ext h = zlen fb /\ f_attr h = rd 19 1 fb /\
      exists h' kids', asm (NFile h fb kids) (255, false) = Ok (NFile h' fb kids', (255, b)) /\
                       f_attr h' = f_attr h.

Lemma file_ok_b_false fb : file_ok fb -> file_ok_b false fb.
Proof. intros H. exact H. Qed.

Lemma file_okL_b_true fb : file_okL fb -> file_ok_b true fb.
Proof.
  intros (O & L & d0 & H). split; [exact O|]. split; [lia|]. exists d0. exact H.
Qed.

Lemma Forall2_file_ok_at flags files : Forall2 file_ok_b flags files ->
  exists d0, forall d, (d0 <= d)%nat -> Forall2 (fun b f => file_ok_at_b b d f) flags files.
Proof.
  induction 1 as [|b f bs r Hf Hr (d1 & IH)].
  - exists 0%nat. intros; constructor.
  - destruct Hf as (Ob & Hl & d2 & H2). exists (Nat.max d1 d2). intros d Hd.
    constructor; [|apply IH; lia]. split; [exact Ob|]. split; [exact Hl|].
    intros rest. apply H2. lia.
Qed.

Lemma files_loop_flay_gen d flags files : Forall2 (fun b f => file_ok_at_b b (S d) f) flags files ->
  forall free rest P u n, 0 <= free -> 0 <= u -> u <= zlen P < u + 8 -> (zlen P) mod 8 = 0 ->
  (length files < n)%nat ->
  exists kids fs,
    files_loop (parse_file (S d)) n (P ++ flay files ++ zrepeat 255 free ++ rest)
               (zlen P + zlen (flay files) + free) 255 u = Ok (kids, 255, fs) /\
    exists kids', asm_elems kids (255, false) = Ok (kids', (255, existsb (fun b => b) flags)) /\
      map node_buf kids' = files /\ map node_attr kids' = map (rd 19 1) files.
Proof.
  induction 1 as [|b f bs r Hf Hr IH]; intros free rest P u n Hfree Hu HP HM Hn.
  - destruct n as [|n]; [cbn in Hn; lia|]. cbn [flay app]. change (zlen (@nil Z)) with 0.
    cbn [files_loop].
    rewrite (align8_unique u (zlen P)) by lia.
    destruct (u + 24 <=? zlen P + 0 + free) eqn:E1.
    + destruct (zlen P + 0 + free <? zlen P + 24) eqn:E2.
      * exists [], 0. split; [reflexivity|]. exists []. repeat split; reflexivity.
      * replace (zlen P + 0 + free - zlen P) with free by lia.
        assert (Es : sub (zlen P) free (P ++ zrepeat 255 free ++ rest) = zrepeat 255 free).
        { rewrite (sub_app_skip P _ (zlen P) free (zlen P)) by lia. rewrite Z.sub_diag.
          apply sub_app_here. apply zlen_zrepeat; lia. }
        rewrite Es. rewrite parse_free by lia. cbn [bind].
        eexists [], _. split; [reflexivity|]. exists []. repeat split; reflexivity.
    + exists [], 0. split; [reflexivity|]. exists []. repeat split; reflexivity.
  - destruct n as [|n]; [cbn in Hn; lia|]. cbn [length] in Hn.
    destruct Hf as (Ob & Hl & Hp).
    pose proof (zlen_nonneg f) as Hfn. destruct (align8_spec (zlen f) Hfn) as [Bf Mf].
    pose proof (zlen_nonneg (flay r)) as Hrn.
    rewrite zlen_flay_cons.
    set (len := zlen P + (align8 (zlen f) + zlen (flay r)) + free).
    cbn [files_loop].
    replace (u + 24 <=? len) with true by (unfold len; lia).
    rewrite (align8_unique u (zlen P)) by lia.
    replace (len <? zlen P + 24) with false by (unfold len; lia).
    set (pad := zrepeat 255 (align8 (zlen f) - zlen f)).
    assert (Lpad : zlen pad = align8 (zlen f) - zlen f) by (apply zlen_zrepeat; lia).
    assert (Es : sub (zlen P) (len - zlen P) (P ++ flay (f :: r) ++ zrepeat 255 free ++ rest)
                 = f ++ (pad ++ flay r ++ zrepeat 255 free)).
    { rewrite (sub_app_skip P _ (zlen P) _ (zlen P)) by lia. rewrite Z.sub_diag.
      cbn [flay]. fold pad.
      replace ((f ++ pad ++ flay r) ++ zrepeat 255 free ++ rest)
        with ((f ++ pad ++ flay r ++ zrepeat 255 free) ++ rest) by (rewrite <- !app_assoc; reflexivity).
      apply sub_app_here. rewrite !zlen_app, Lpad, zlen_zrepeat by lia. unfold len. lia. }
    rewrite Es.
    destruct (Hp (pad ++ flay r ++ zrepeat 255 free)) as (h & ks & Ep & Ee & Eat & h' & ks' & Ea & Eat').
    rewrite Ep. cbn [bind file_ext]. rewrite Ee. replace (zlen f =? 0) with false by lia.
    destruct (IH free rest (P ++ f ++ pad) (zlen P + zlen f) n) as (kids & fs & El & kids' & Ek & Em & Eattr);
      try lia.
    { rewrite !zlen_app, Lpad. lia. }
    { rewrite !zlen_app, Lpad. replace (zlen P + (zlen f + (align8 (zlen f) - zlen f)))
        with (zlen P + align8 (zlen f)) by lia.
      rewrite Z.add_mod by lia. rewrite HM, Mf. reflexivity. }
    replace ((P ++ f ++ pad) ++ flay r ++ zrepeat 255 free ++ rest)
      with (P ++ flay (f :: r) ++ zrepeat 255 free ++ rest) in El
      by (cbn [flay]; fold pad; rewrite <- !app_assoc; reflexivity).
    replace (zlen (P ++ f ++ pad) + zlen (flay r) + free) with len in El
      by (rewrite !zlen_app, Lpad; unfold len; lia).
    rewrite El. cbn [bind].
    exists (NFile h f ks :: kids), fs. split; [reflexivity|].
    cbn [Ffs.asm_elems]. rewrite Ea. cbn [bind]. rewrite (asm_elems_flag kids 255 b), Ek. cbn [lift bind].
    exists (NFile h' f ks' :: kids'). split; [reflexivity|].
    cbn [map node_buf node_attr]. rewrite Em, Eattr, Eat', Eat. split; reflexivity.
Qed.

Lemma Forall2_right {A B} (P : A -> B -> Prop) (Q : B -> Prop) la lb :
  Forall2 P la lb -> (forall a b, P a b -> Q b) -> Forall Q lb.
Proof. induction 1; intros H'; constructor; eauto. Qed.

(* ---------- R9: a volume of files ---------- *)

(* the region between the 72-byte header and the first file: nothing (eo = 0), or an extended
   header at offset 72 followed by the bytes up to the next 8-byte boundary *)
Definition ext_ok (hl eo : Z) (ext : bytes) : Prop :=
  (eo = 0 /\ ext = []) \/
  (exists pre name edata gap, eo = hl + zlen pre /\ ext = pre ++ ext_bytes name edata gap /\
     bytes_ok pre = true /\ zlen name = 16 /\
     bytes_ok name = true /\ bytes_ok edata = true /\ bytes_ok gap = true /\
     20 + zlen edata < 2 ^ 32 /\ zlen gap < 8 /\ eo < 65536 /\ 0 < zlen edata + zlen gap /\
     (hl + zlen ext) mod 8 = 0).

Theorem vol_ok_files_flags zero g attrs reserved rev count bsize more eo ext flags files free :
  zlen zero = 16 -> bytes_ok zero = true -> (g = FFS2 \/ g = FFS3) ->
  0 <= attrs < 2 ^ 32 -> Z.land attrs 2048 <> 0 ->
  0 <= reserved < 256 -> 0 <= rev < 256 ->
  0 <= count < 2 ^ 32 -> 0 <= bsize < 2 ^ 32 -> (count =? 0) && (bsize =? 0) = false ->
  forallb block_ok more = true -> fv_hlen more < 65536 ->
  ext_ok (fv_hlen more) eo ext ->
  Forall2 file_ok_b flags files -> (existsb (fun b => b) flags = true -> g = FFS3) ->
  files_aligned (fv_hlen more + zlen ext) files = true -> 0 <= free ->
  fv_hlen more + zlen ext + zlen (flay files) + free < 2 ^ 64 ->
  vol_ok (vol_bytes_x zero g attrs reserved rev count bsize more eo ext files free).
Proof.
  intros Lz Oz Hg Hat Hpol Hres Hrev Hc Hs Hnz Hmore Hhl Hext Hfiles Hflag Hal Hfree Hlen.
  pose proof (zlen_nonneg ext) as Hextn.
  pose proof (fv_hlen_ge more) as Hhg. pose proof (fv_hlen_mod8 more) as Hh8.
  set (HL := fv_hlen more) in *.
  set (D := HL + zlen ext) in *.
  assert (HD8 : D mod 8 = 0).
  { destruct Hext as [(-> & ->)|(pre & name & edata & gap & _ & _ & _ & _ & _ & _ & _ & _ & _ & _ & _ & M)]; [|exact M].
    unfold D. change (zlen (@nil Z)) with 0. rewrite Z.add_0_r. exact Hh8. }
  assert (Heo : 0 <= eo < 65536).
  { destruct Hext as [(-> & _)|(pre & name & edata & gap & -> & _ & _ & _ & _ & _ & _ & _ & _ & Heo & _)]; [lia|].
    pose proof (zlen_nonneg pre). lia. }
  assert (Oext : bytes_ok ext = true).
  { destruct Hext as [(_ & ->)|(pre & name & edata & gap & _ & -> & Op & _ & On & Oe & Og' & _)]; [reflexivity|].
    unfold ext_bytes. rewrite !bytes_ok_app, Op, On, Oe, Og', le_enc_ok. reflexivity. }
  assert (AD : align8 D = D) by (apply align8_unique; lia).
  assert (Lg : zlen g = 16) by (destruct Hg as [-> | ->]; reflexivity).
  assert (Og : bytes_ok g = true) by (destruct Hg as [-> | ->]; reflexivity).
  assert (Sg : supported_fv g = true) by (destruct Hg as [-> | ->]; reflexivity).
  pose proof (zlen_nonneg (flay files)) as Hfl.
  unfold vol_bytes_x. fold HL.
  set (len := HL + zlen ext + zlen (flay files) + free) in *.
  set (ck := fv_cksum zero g len attrs eo reserved rev count bsize more).
  assert (Hck : 0 <= ck < 65536) by (apply Z.mod_pos_bound; lia).
  set (hdr := fv_header zero g len attrs ck eo reserved rev count bsize more).
  set (tail := ext ++ flay files ++ zrepeat 255 free).
  assert (Lh : zlen hdr = HL) by (apply zlen_fv_header; auto).
  assert (Lt : zlen tail = zlen ext + zlen (flay files) + free) by (unfold tail; rewrite !zlen_app, zlen_zrepeat by lia; lia).
  assert (Lv : zlen (hdr ++ tail) = len) by (rewrite zlen_app, Lh, Lt; unfold len; lia).
  assert (Hfb : Forall (fun f => bytes_ok f = true) files)
    by (eapply Forall2_right; [exact Hfiles|]; intros b0 a (O & _); exact O).
  assert (Hf24 : Forall (fun f => 24 <= zlen f) files)
    by (eapply Forall2_right; [exact Hfiles|]; intros b0 a (_ & L & _); lia).
  replace (hdr ++ ext ++ flay files ++ zrepeat 255 free) with (hdr ++ tail) by reflexivity.
  split.
  { rewrite bytes_ok_app. unfold tail. rewrite !bytes_ok_app, Oext, bytes_ok_flay, bytes_ok_zrepeat by (auto; lia).
    unfold hdr, fv_header. rewrite !bytes_ok_app, Oz, Og, !le_enc_ok, bytes_ok_blocks_bytes, bytes_ok_zrepeat by lia.
    cbn [bytes_ok forallb]. unfold byte_ok. lia. }
  split; [lia|].
  destruct (Forall2_file_ok_at flags files Hfiles) as (d1 & Hd1).
  exists (S (S d1)). intros d Hd pol rest off rz Hpol0.
  destruct d as [|[|d]]; try lia.
  (* ---- parse ---- *)
  destruct (fv_header_fields zero g len attrs ck eo reserved rev count bsize more (tail ++ rest) Lz Lg
              ltac:(lia) Hat Hck Heo Hhl) as (F0 & F16 & F32 & F40 & F44 & F48 & F50 & F52 & F54 & F55 & F56).
  fold hdr in F0, F16, F32, F40, F44, F48, F50, F52, F54, F55, F56.
  fold HL in F48.
  rewrite app_assoc in F0, F16, F32, F40, F44, F48, F50, F52, F54, F55, F56.
  set (data := (hdr ++ tail) ++ rest) in *.
  pose proof (zlen_nonneg rest) as Hrest.
  assert (Ld : zlen data = len + zlen rest) by (unfold data; rewrite zlen_app, Lv; reflexivity).
  assert (Epol : fv_polarity attrs = 255).
  { unfold fv_polarity. destruct (Z.land attrs 2048 =? 0) eqn:E; [lia|reflexivity]. }
  assert (Esp : set_polarity pol 255 = Some 255) by (destruct Hpol0 as [-> | ->]; reflexivity).
  assert (Eparse : exists kids fs en es,
     parse_fv (S (S d)) pol data off rz =
       Ok (NVol (mkVol zero g len 1213613663 attrs HL ck eo reserved rev ((count, bsize) :: more) en es D off rz fs)
                (hdr ++ tail) kids, 255) /\
     exists kids', asm_elems kids (255, false) = Ok (kids', (255, existsb (fun b => b) flags)) /\
       map node_buf kids' = files /\ map node_attr kids' = map (rd 19 1) files).
  { rewrite parse_fv_S. unfold fv_body. rewrite Ld.
    replace (len + zlen rest <? 64) with false by lia.
    rewrite F0, F16, F32, F40, F44, F48, F50, F52, F54, F55, F56.
    rewrite parse_blocks_one by (auto; unfold HL, fv_hlen in *; lia). cbn [bind].
    rewrite Epol, Esp.
    replace (len + zlen rest <? len) with false by lia.
    replace (len <? 64) with false by lia.
    (* the data offset: after the header, or after the extended header, rounded up to 8 *)
    cbv zeta.
    set (hb := negb (eo =? 0) && (20 <=? len) && (eo <? len - 20)).
    assert (Edoff : align8 (if hb then eo + (if hb then rd (eo + 16) 4 data else 0) else HL) = D).
    { destruct Hext as [(-> & ->)|(pre & name & edata & gap & Eeo & Ee & _ & Ln & _ & _ & _ & Hes & Hg8 & _ & Hpos & _)].
      - unfold hb. change (negb (0 =? 0)) with false. cbn [andb]. cbv iota. unfold D.
        change (zlen (@nil Z)) with 0. rewrite Z.add_0_r. apply align8_unique; lia.
      - assert (Le : zlen ext = zlen pre + 16 + 4 + zlen edata + zlen gap).
        { rewrite Ee. unfold ext_bytes. rewrite !zlen_app, Ln, le4'. lia. }
        pose proof (zlen_nonneg edata). pose proof (zlen_nonneg gap). pose proof (zlen_nonneg pre).
        replace hb with true by (unfold hb, len; lia).
        assert (Esz : rd (eo + 16) 4 data = 20 + zlen edata).
        { unfold data, tail. rewrite <- !app_assoc.
          rewrite (rd_app_skip hdr _ (eo + 16) 4 HL) by (auto; lia).
          replace (eo + 16 - HL) with (zlen pre + 16) by lia.
          rewrite Ee. unfold ext_bytes. rewrite <- !app_assoc.
          rewrite (rd_app_skip pre _ (zlen pre + 16) 4 (zlen pre)) by (auto; lia).
          replace (zlen pre + 16 - zlen pre) with 16 by lia.
          rewrite (rd_app_skip name _ 16 4 16) by (auto; lia). change (16 - 16) with 0.
          rewrite rd_app_here by apply le4'. apply le_dec_enc. change (256 ^ Z.of_nat 4) with (2 ^ 32). lia. }
        rewrite Esz. apply align8_unique; unfold D; lia. }
    rewrite Edoff.
    assert (Esub : sub 0 len data = hdr ++ tail) by (unfold data; apply sub_app_here; exact Lv).
    rewrite Esub. rewrite Sg. cbn [negb]. cbv iota.
    assert (LP : zlen (hdr ++ ext) = D) by (rewrite zlen_app, Lh; reflexivity).
    assert (G1 : D <= zlen (hdr ++ ext) < D + 8) by lia.
    assert (G2 : zlen (hdr ++ ext) mod 8 = 0) by (rewrite LP; exact HD8).
    assert (G3 : (length files < Z.to_nat (len + zlen rest) + 1)%nat).
    { pose proof (zlen_flay_ge files Hf24) as HG. unfold len. unfold bytes in *. lia. }
    destruct (files_loop_flay_gen d flags files (Hd1 (S d) ltac:(lia)) free rest (hdr ++ ext) D
                (Z.to_nat (len + zlen rest) + 1)%nat Hfree ltac:(lia) G1 G2 G3)
      as (kids & fs & El & kids' & Ek & Em & Eattr).
    rewrite LP in El.
    replace ((hdr ++ ext) ++ flay files ++ zrepeat 255 free ++ rest) with ((hdr ++ tail) ++ rest) in El
      by (unfold tail; rewrite <- !app_assoc; reflexivity).
    replace (D + zlen (flay files) + free) with len in El by (unfold len, D; lia).
    fold data in El. rewrite El. cbn [bind].
    eexists kids, fs, _, _. split; [reflexivity|]. exists kids'. auto. }
  destruct Eparse as (kids & fs & en & es & Ep & kids' & Ek & Em & Eattr).
  eexists; eexists. split; [exact Ep|]. cbn [v_length]. split; [symmetry; exact Lv|].
  (* ---- assemble ---- *)
  intros ffs. rewrite asm_NVol. cbn [fst snd v_attrs]. rewrite Epol.
  change (set_polarity 255 255) with (Some 255). cbv beta iota. rewrite Ek. cbn [bind].
  unfold vol_asm. unfold asm_vol.
  cbn [v_length v_blocks v_dataoff v_hdrlen v_resizable v_guid].
  rewrite Sg. cbn [negb]. rewrite andb_false_r. cbv beta iota.
  rewrite Lv. replace (len <? len) with false by lia. replace (D <? HL) with false by lia. cbv iota.
  replace (len <? D) with false by (unfold len, D; lia).
  rewrite slice_ok by (unfold len, D in *; lia). rewrite Z.sub_0_r. cbn [of_opt bind].
  assert (LP : zlen (hdr ++ ext) = D) by (rewrite zlen_app, Lh; reflexivity).
  assert (Esl : sub 0 D (hdr ++ tail) = hdr ++ ext).
  { unfold tail. rewrite app_assoc. apply sub_app_here. exact LP. }
  rewrite Esl.
  (* placing the files *)
  assert (Hpos : Forall (fun k => 0 < zlen (node_buf k)) kids').
  { rewrite Forall_forall. intros k Hk. apply (in_map node_buf) in Hk. rewrite Em in Hk.
    rewrite Forall_forall in Hf24. specialize (Hf24 _ Hk). lia. }
  pose proof (zlen_play_le files D ltac:(lia)) as Hple. rewrite AD, Z.sub_diag in Hple.
  assert (PP : place_files 255 (if rz then None else Some len) (hdr ++ ext) (zlen (hdr ++ ext)) kids' =
               Ok ((hdr ++ ext) ++ play (zlen (hdr ++ ext)) (map node_buf kids'))).
  { apply place_files_play; auto.
    - rewrite LP, Em, AD. exact Hal.
    - rewrite Em. exact Eattr.
    - rewrite LP, Em. destruct rz; [exact I|]. unfold len, D in *. lia. }
  rewrite LP, Em in PP. rewrite PP. cbn [bind].
  set (b1 := (hdr ++ ext) ++ play D files).
  assert (Lb1 : zlen b1 = D + zlen (play D files)) by (unfold b1; rewrite zlen_app, LP; reflexivity).
  pose proof (zlen_nonneg (play D files)) as Hpl.
  replace ((len <? zlen b1) && negb rz) with false by (unfold len, D in *; lia).
  replace (len <? zlen b1) with false by (unfold len, D in *; lia). cbn [bind].
  (* erased fill: back to the original bytes *)
  assert (Eb2 : (if zlen b1 <? len then b1 ++ zrepeat 255 (len - zlen b1) else b1) = hdr ++ tail).
  { pose proof (play_flay files (hdr ++ ext) free Hfree) as PF. rewrite LP in PF.
    rewrite AD, Z.sub_diag in PF. change (zrepeat 255 0) with (@nil Z) in PF.
    cbn [app] in PF. fold b1 in PF.
    replace (D + zlen (flay files) + free) with len in PF by (unfold len, D; lia).
    replace ((hdr ++ ext) ++ flay files ++ zrepeat 255 free) with (hdr ++ tail) in PF
      by (unfold tail; rewrite <- !app_assoc; reflexivity).
    rewrite PF. destruct (zlen b1 <? len) eqn:E; [reflexivity|].
    replace (len - zlen b1) with 0 by (unfold len, D in *; lia). change (zrepeat 255 0) with (@nil Z). rewrite app_nil_r. reflexivity. }
  rewrite Eb2. rewrite Lv.
  replace (len <? 40) with false by (unfold len; lia). replace (len <? 60) with false by (unfold len; lia).
  replace (existsb (fun b => b) flags && bytes_eqb g FFS2) with false
    by (destruct (existsb (fun b => b) flags) eqn:X; [rewrite (Hflag eq_refl); reflexivity|reflexivity]).
  cbv iota.
  (* the three header writes *)
  set (A32 := zero ++ g).
  set (A50 := A32 ++ le_enc 8 len ++ [95; 70; 86; 72] ++ le_enc 4 attrs ++ le_enc 2 HL).
  set (A56 := A50 ++ le_enc 2 ck ++ le_enc 2 eo ++ [reserved; rev]).
  set (R56 := le_enc 4 bsize ++ blocks_bytes more ++ zrepeat 0 8 ++ tail).
  assert (L32 : zlen A32 = 32) by (unfold A32; rewrite zlen_app, Lz, Lg; reflexivity).
  assert (L50 : zlen A50 = 50) by (unfold A50; rewrite !zlen_app, L32, le8', le4', le2'; reflexivity).
  assert (L56 : zlen A56 = 56) by (unfold A56; rewrite !zlen_app, L50, !le2'; reflexivity).
  assert (E32 : hdr ++ tail = A32 ++ le_enc 8 len ++
                  ([95; 70; 86; 72] ++ le_enc 4 attrs ++ le_enc 2 HL ++ le_enc 2 ck ++ le_enc 2 eo ++
                   [reserved; rev] ++ le_enc 4 count ++ R56)).
  { unfold hdr, fv_header, A32, R56. rewrite <- !app_assoc. reflexivity. }
  assert (E56 : hdr ++ tail = A56 ++ le_enc 4 count ++ R56).
  { unfold hdr, fv_header, A56, A50, A32, R56. rewrite <- !app_assoc. reflexivity. }
  assert (E50 : forall c, fv_header zero g len attrs c eo reserved rev count bsize more ++ tail =
                          A50 ++ le_enc 2 c ++ (le_enc 2 eo ++ [reserved; rev] ++ le_enc 4 count ++ R56)).
  { intros c. unfold fv_header, A50, A32, R56. rewrite <- !app_assoc. reflexivity. }
  assert (S32 : splice 32 (le_enc 8 len) (hdr ++ tail) = hdr ++ tail).
  { rewrite E32 at 1. rewrite <- L32. rewrite splice_mid by reflexivity. symmetry. exact E32. }
  rewrite S32. rewrite ?Lv. replace (len <? 60) with false by (unfold len; lia). cbv beta iota.
  assert (S56 : splice 56 (le_enc 4 count) (hdr ++ tail) = hdr ++ tail).
  { rewrite E56 at 1. rewrite <- L56. rewrite splice_mid by reflexivity. symmetry. exact E56. }
  rewrite S56.
  assert (S50 : splice 50 [0; 0] (hdr ++ tail) =
                fv_header zero g len attrs 0 eo reserved rev count bsize more ++ tail).
  { unfold hdr. rewrite (E50 ck), (E50 0). rewrite <- L50.
    change [0; 0] with (le_enc 2 0) at 1. apply splice_mid. rewrite !le2'. reflexivity. }
  rewrite S50.
  set (hdr0 := fv_header zero g len attrs 0 eo reserved rev count bsize more).
  assert (Lh0 : zlen hdr0 = HL) by (apply zlen_fv_header; auto).
  rewrite slice_ok by (rewrite ?zlen_app, ?Lh0; pose proof (zlen_nonneg tail); lia).
  rewrite Z.sub_0_r.
  assert (Esl0 : sub 0 HL (hdr0 ++ tail) = hdr0) by (apply sub_app_here; exact Lh0).
  rewrite Esl0.
  unfold HL at 1. rewrite fv_hlen_even. cbn [negb]. cbv iota.
  change ((0 - sum16 hdr0) mod 65536) with ck.
  assert (S50' : splice 50 (le_enc 2 ck) (hdr0 ++ tail) = hdr ++ tail).
  { unfold hdr0, hdr. rewrite (E50 0), (E50 ck). rewrite <- L50. apply splice_mid. rewrite !le2'. reflexivity. }
  rewrite S50'. cbn [bind]. cbv beta iota. cbn [bind fst snd].
  eexists; eexists. split; [reflexivity|exact Epol].
Qed.

Theorem vol_ok_files_x zero g attrs reserved rev count bsize more eo ext files free :
  zlen zero = 16 -> bytes_ok zero = true -> (g = FFS2 \/ g = FFS3) ->
  0 <= attrs < 2 ^ 32 -> Z.land attrs 2048 <> 0 ->
  0 <= reserved < 256 -> 0 <= rev < 256 ->
  0 <= count < 2 ^ 32 -> 0 <= bsize < 2 ^ 32 -> (count =? 0) && (bsize =? 0) = false ->
  forallb block_ok more = true -> fv_hlen more < 65536 ->
  ext_ok (fv_hlen more) eo ext ->
  Forall file_ok files -> files_aligned (fv_hlen more + zlen ext) files = true -> 0 <= free ->
  fv_hlen more + zlen ext + zlen (flay files) + free < 2 ^ 64 ->
  vol_ok (vol_bytes_x zero g attrs reserved rev count bsize more eo ext files free).
Proof.
  intros Lz Oz Hg Hat Hpol Hres Hrev Hc Hs Hnz Hmore Hhl Hext Hfiles Hal Hfree Hlen.
  apply (vol_ok_files_flags zero g attrs reserved rev count bsize more eo ext (map (fun _ => false) files));
    auto.
  - clear - Hfiles. induction Hfiles as [|f r Hf Hr IH]; cbn [map]; constructor; auto.
  - intros X. exfalso. clear - X. induction files as [|f r IH]; cbn in X; [discriminate|auto].
Qed.

(* an FFSv3 volume may also hold files rebuilt from their sections whose size reaches 16 MiB *)
Theorem vol_ok_files_ffs3 zero attrs reserved rev count bsize more eo ext files free :
  zlen zero = 16 -> bytes_ok zero = true ->
  0 <= attrs < 2 ^ 32 -> Z.land attrs 2048 <> 0 ->
  0 <= reserved < 256 -> 0 <= rev < 256 ->
  0 <= count < 2 ^ 32 -> 0 <= bsize < 2 ^ 32 -> (count =? 0) && (bsize =? 0) = false ->
  forallb block_ok more = true -> fv_hlen more < 65536 ->
  ext_ok (fv_hlen more) eo ext ->
  Forall (fun f => file_ok f \/ file_okL f) files ->
  files_aligned (fv_hlen more + zlen ext) files = true -> 0 <= free ->
  fv_hlen more + zlen ext + zlen (flay files) + free < 2 ^ 64 ->
  vol_ok (vol_bytes_x zero FFS3 attrs reserved rev count bsize more eo ext files free).
Proof.
  intros Lz Oz Hat Hpol Hres Hrev Hc Hs Hnz Hmore Hhl Hext Hfiles Hal Hfree Hlen.
  assert (F : exists flags, Forall2 file_ok_b flags files).
  { clear - Hfiles. induction Hfiles as [|f r Hf Hr (fl & IH)]; [exists []; constructor|].
    destruct Hf as [Hf|Hf].
    - exists (false :: fl). constructor; [apply file_ok_b_false; exact Hf|exact IH].
    - exists (true :: fl). constructor; [apply file_okL_b_true; exact Hf|exact IH]. }
  destruct F as (flags & F).
  apply (vol_ok_files_flags zero FFS3 attrs reserved rev count bsize more eo ext flags); auto.
Qed.

Theorem vol_ok_files zero g attrs reserved rev count bsize files free :
  zlen zero = 16 -> bytes_ok zero = true -> (g = FFS2 \/ g = FFS3) ->
  0 <= attrs < 2 ^ 32 -> Z.land attrs 2048 <> 0 ->
  0 <= reserved < 256 -> 0 <= rev < 256 ->
  0 <= count < 2 ^ 32 -> 0 <= bsize < 2 ^ 32 -> (count =? 0) && (bsize =? 0) = false ->
  Forall file_ok files -> files_aligned 72 files = true -> 0 <= free ->
  72 + zlen (flay files) + free < 2 ^ 64 ->
  vol_ok (vol_bytes zero g attrs reserved rev count bsize files free).
Proof.
  intros. unfold vol_bytes. apply vol_ok_files_x; auto.
  - reflexivity.
  - left; split; reflexivity.
Qed.


(* ---------- R6: firmware-volume-image sections (nesting) ---------- *)

Lemma sec_ok_fv vb : vol_ok vb -> 4 + zlen vb < 16777215 -> sec_ok (sec_bytes 23 vb).
Proof.
  intros (Ob & Hl & d0 & Hv) Hn.
  split; [apply bytes_ok_sec_bytes; auto; lia|]. split; [rewrite zlen_sec_bytes; lia|].
  exists (S d0). intros d Hd rest order. destruct d as [|d]; [lia|].
  rewrite parse_section_S.
  destruct (Hv d ltac:(lia) 255 [] 0 true (or_intror eq_refl)) as (h & kids & Ep & El & Ea).
  rewrite app_nil_r in Ep.
  destruct (Ea false) as (h' & kids' & Ea' & _).
  eexists; eexists. split; [|split].
  - sec_start 23 vb rest. change (23 =? 2) with false. change (23 =? 21) with false.
    change (23 =? 20) with false. change (23 =? 23) with true. cbv iota.
    rewrite zlen_sec_bytes. replace (4 + zlen vb <=? 4) with false by lia.
    rewrite sec_body_skip. rewrite Ep. cbn [bind]. reflexivity.
  - cbn [s_ext sec_default]. rewrite zlen_sec_bytes. reflexivity.
  - rewrite asm_NSec. cbn [Ffs.asm_elems]. rewrite Ea'. cbn [bind]. unfold sec_asm.
    cbn [map node_buf join4 s_type sec_default s_gd app].
    change (zlen (@nil Z)) with 0. change (align4 0 - 0) with 0. change (zrepeat 0 0) with (@nil Z).
    cbn [app]. change (23 =? 2) with false. cbv iota. cbn [bind].
    match goal with |- context [gen_sec_header ?hh vb] =>
      destruct (gen_sec_header_plain hh vb eq_refl Hn) as [E1 E2];
      destruct (gen_sec_header hh vb) as [h2 nb] eqn:G end.
    cbn [fst snd] in E1, E2. rewrite E1, E2. cbn [s_type sec_default].
    replace (16777215 <? 4 + zlen vb) with false by lia. eexists; eexists; reflexivity.
Qed.

(* ---------- R10: BIOS regions ---------- *)

(* copying the elements over the erased buffer rebuilds their concatenation *)
Lemma copy_elems_concat pol elems : forall done k,
  0 <= k -> zlen (concat (map node_buf elems)) <= k ->
  copy_elems (done ++ zrepeat pol k) (zlen done) elems =
  Ok (done ++ concat (map node_buf elems) ++ zrepeat pol (k - zlen (concat (map node_buf elems)))).
Proof.
  induction elems as [|e r IH]; intros done k Hk Hle.
  - cbn [map concat copy_elems app]. change (zlen (@nil Z)) with 0. rewrite Z.sub_0_r. reflexivity.
  - cbn [map concat copy_elems]. cbn [map concat] in Hle. set (eb := node_buf e) in *.
    rewrite zlen_app in Hle. pose proof (zlen_nonneg eb) as He.
    pose proof (zlen_nonneg (concat (map node_buf r))) as Hr.
    pose proof (zlen_nonneg done) as Hd.
    rewrite zlen_app, zlen_zrepeat by lia.
    replace (zlen done + k <? zlen done + zlen eb) with false by lia.
    (* the splice writes eb over the first zlen eb erased bytes *)
    assert (Es : splice (zlen done) eb (done ++ zrepeat pol k) = (done ++ eb) ++ zrepeat pol (k - zlen eb)).
    { replace (zrepeat pol k) with (zrepeat pol (zlen eb) ++ zrepeat pol (k - zlen eb))
        by (rewrite zrepeat_app by lia; f_equal; lia).
      rewrite splice_mid by (rewrite zlen_zrepeat by lia; reflexivity).
      rewrite <- app_assoc. reflexivity. }
    rewrite Es. replace (zlen done + zlen eb) with (zlen (done ++ eb)) by (rewrite zlen_app; reflexivity).
    rewrite IH by (unfold bytes in *; lia). rewrite zlen_app. rewrite <- !app_assoc.
    replace (k - zlen eb - zlen (concat (map node_buf r))) with (k - (zlen eb + zlen (concat (map node_buf r))))
      by (unfold bytes in *; lia).
    reflexivity.
Qed.

Definition vol_node_of (n : node) : bool := match n with NVol _ _ _ => true | _ => false end.
Definition vol_pol_ok (n : node) : Prop :=
  match n with NVol h _ _ => fv_polarity (v_attrs h) = 255 | _ => True end.

(* what the region-level theorem needs of one (padding, volume) pair and of the trailing padding:
   the 8-byte-stepped signature scan finds the volume exactly after the padding, whatever follows *)
Definition pair_scan_ok (p v : bytes) : Prop :=
  forall rest, find_fv_offset (p ++ v ++ rest) = zlen p.

Lemma parse_bios_region d l trail :
  Forall (fun pv => pair_scan_ok (fst pv) (snd pv) /\ bytes_ok (fst pv) = true /\
                    (forall pol rest off rz, (pol = 240 \/ pol = 255) ->
                       exists h kids, parse_fv d pol (snd pv ++ rest) off rz = Ok (NVol h (snd pv) kids, 255) /\
                         v_length h = zlen (snd pv) /\
                         forall ffs, exists h' kids',
                           asm (NVol h (snd pv) kids) (255, ffs) = Ok (NVol h' (snd pv) kids', (255, ffs)) /\
                           fv_polarity (v_attrs h') = 255) /\
                    72 <= zlen (snd pv)) l ->
  find_fv_offset trail < 0 ->
  forall n abs pol, (pol = 240 \/ pol = 255) -> (length l < n)%nat ->
  exists elems, parse_bios dec u2s nvar d n pol (region_bytes l trail) abs =
                  Ok (elems, match l with [] => pol | _ => 255 end) /\
    concat (map node_buf elems) = region_bytes l trail /\
    (existsb vol_node_of elems = match l with [] => false | _ => true end) /\
    forall ffs, exists elems', asm_elems elems (255, ffs) = Ok (elems', (255, ffs)) /\
      map node_buf elems' = map node_buf elems /\ map vol_node_of elems' = map vol_node_of elems /\
      Forall vol_pol_ok elems'.
Proof.
  induction 1 as [|[p v] r (Hscan & Obp & Hvol & Hl72) Hr IH]; intros Htrail n abs pol Hpol Hn.
  - destruct n as [|n]; [cbn in Hn; lia|]. cbn [region_bytes parse_bios].
    replace (find_fv_offset trail <? 0) with true by lia.
    destruct (zlen trail =? 0) eqn:E.
    + exists []. split; [reflexivity|]. split.
      { cbn [map concat]. destruct trail; [reflexivity|]. rewrite zlen_cons in E. pose proof (zlen_nonneg trail). lia. }
      split; [reflexivity|]. intros ffs. exists []. repeat split; try reflexivity. constructor.
    + exists [NPad abs trail]. split; [reflexivity|]. split; [cbn [map concat node_buf]; apply app_nil_r|].
      split; [reflexivity|]. intros ffs. exists [NPad abs trail]. repeat split; try reflexivity.
      constructor; [exact I|constructor].
  - destruct n as [|n]; [cbn in Hn; lia|]. cbn [length] in Hn. cbn [fst snd] in *.
    cbn [region_bytes parse_bios].
    rewrite (Hscan (region_bytes r trail)).
    pose proof (zlen_nonneg p) as Hp.
    replace (zlen p <? 0) with false by lia.
    rewrite zskipn_app_exact.
    destruct (Hvol pol (region_bytes r trail) (abs + zlen p) false Hpol) as (h & kids & Ep & El & Ea).
    rewrite Ep. cbn [bind]. rewrite El. replace (zlen v =? 0) with false by lia.
    replace (zskipn (zlen p + zlen v) (p ++ v ++ region_bytes r trail)) with (region_bytes r trail).
    2:{ rewrite app_assoc. rewrite <- zlen_app. symmetry. apply zskipn_app_exact. }
    destruct (IH Htrail n (abs + zlen p + zlen v) 255 (or_intror eq_refl) ltac:(lia))
      as (elems & Eb & Ec & Ex & Easm).
    rewrite Eb. cbn [bind].
    replace (match r with [] => 255 | _ :: _ => 255 end) with 255 by (destruct r; reflexivity).
    eexists. split; [reflexivity|].
    assert (Ezf : zfirstn (zlen p) (p ++ v ++ region_bytes r trail) = p) by apply zfirstn_app_exact.
    rewrite Ezf.
    split.
    { destruct (0 <? zlen p) eqn:E0.
      - cbn [app map concat node_buf]. rewrite Ec. reflexivity.
      - assert (p = []) by (destruct p; [reflexivity|rewrite zlen_cons in E0; pose proof (zlen_nonneg p); lia]).
        subst p. cbn [app map concat node_buf]. rewrite Ec. reflexivity. }
    split.
    { destruct (0 <? zlen p); cbn [app existsb vol_node_of orb]; reflexivity. }
    intros ffs. destruct (Ea ffs) as (h' & kids' & Ea' & Epol'). destruct (Easm ffs) as (elems' & Ee & Em & Ev & Efp).
    assert (Econs : forall x l st, asm_elems (x :: l) st =
              do xs <- asm x st; let '(x', st1) := xs in
              do rs <- asm_elems l st1; let '(r', st2) := rs in Ok (x' :: r', st2)) by reflexivity.
    assert (Epad : forall o b st, asm (NPad o b) st = Ok (NPad o b, st)) by reflexivity.
    destruct (0 <? zlen p); cbn [app]; rewrite ?Econs, ?Epad; cbn [bind]; rewrite ?Econs, Ea'; cbn [bind];
      rewrite Ee; cbn [bind];
      eexists; (split; [reflexivity|]); cbn [map node_buf vol_node_of]; rewrite Em, Ev;
      (split; [reflexivity|]); (split; [reflexivity|]); repeat (constructor; try exact I; try exact Epol'); exact Efp.
Qed.

Lemma zlen_region_ge l trail : Forall (fun pv : bytes * bytes => 72 <= zlen (snd pv)) l ->
  72 * Z.of_nat (length l) <= zlen (region_bytes l trail).
Proof.
  induction 1 as [|[p v] r Hv Hr IH]; [cbn [length region_bytes]; pose proof (zlen_nonneg trail); lia|].
  cbn [length region_bytes snd] in *. rewrite !zlen_app. pose proof (zlen_nonneg p). lia.
Qed.

Lemma first_fv_exists elems : existsb vol_node_of elems = true -> Forall vol_pol_ok elems ->
  exists vh, first_fv elems = Some vh /\ fv_polarity (v_attrs vh) = 255.
Proof.
  induction elems as [|e r IH]; intros Hex Hf; [discriminate|].
  inversion Hf as [|? ? He Hr]; subst. destruct e; cbn [existsb vol_node_of orb first_fv] in *;
    try (apply IH; assumption). eexists; split; [reflexivity|exact He].
Qed.

(* the whole pipeline of C01 on a bare BIOS region: Parse, then Save *)
Theorem region_save_identity l trail :
  l <> [] ->
  Forall (fun pv => pair_scan_ok (fst pv) (snd pv) /\ bytes_ok (fst pv) = true /\ vol_ok (snd pv)) l ->
  find_fv_offset trail < 0 ->
  exists d0, forall d, (d0 <= d)%nat ->
    save_region dec enc u2s s2u nvar d (region_bytes l trail) = Ok (region_bytes l trail).
Proof.
  intros Hne Hl Htrail.
  (* one depth that suits every volume *)
  assert (Hd : exists d0, forall d, (d0 <= d)%nat ->
     Forall (fun pv => pair_scan_ok (fst pv) (snd pv) /\ bytes_ok (fst pv) = true /\
                    (forall pol rest off rz, (pol = 240 \/ pol = 255) ->
                       exists h kids, parse_fv d pol (snd pv ++ rest) off rz = Ok (NVol h (snd pv) kids, 255) /\
                         v_length h = zlen (snd pv) /\
                         forall ffs, exists h' kids',
                           asm (NVol h (snd pv) kids) (255, ffs) = Ok (NVol h' (snd pv) kids', (255, ffs)) /\
                           fv_polarity (v_attrs h') = 255) /\
                    72 <= zlen (snd pv)) l).
  { clear Hne. induction Hl as [|[p v] r (Hs & Ob & (Ov & L72 & d2 & Hv)) Hr (d1 & IH)].
    - exists 0%nat. intros; constructor.
    - exists (Nat.max d1 d2). intros d Hd. constructor; [|apply IH; lia].
      cbn [fst snd]. repeat split; auto. intros pol rest off rz Hp. apply Hv; auto. lia. }
  destruct Hd as (d0 & Hd). exists d0. intros d Hdd. specialize (Hd d Hdd).
  assert (H72 : Forall (fun pv : bytes * bytes => 72 <= zlen (snd pv)) l)
    by (eapply Forall_impl; [|exact Hd]; intros a (_ & _ & _ & L); exact L).
  pose proof (zlen_region_ge l trail H72) as Hlen.
  set (buf := region_bytes l trail) in *.
  unfold save_region, parse_region.
  destruct (parse_bios_region d l trail Hd Htrail (Z.to_nat (zlen buf) + 1)%nat 0 240 (or_introl eq_refl))
    as (elems & Ep & Ec & Ex & Easm); [unfold bytes in *; lia|].
  fold buf in Ep, Ec. rewrite Ep. cbn [bind].
  destruct l as [|pv0 l0]; [congruence|].
  destruct (Easm false) as (elems' & Ee & Em & Ev & Efp).
  unfold asm_bios. rewrite Ee. cbn [bind].
  assert (Hex' : existsb vol_node_of elems' = true).
  { assert (G : forall a b, map vol_node_of a = map vol_node_of b -> existsb vol_node_of a = existsb vol_node_of b).
    { induction a as [|x a IHa]; intros [|y b] E; try discriminate; [reflexivity|].
      cbn [map] in E. injection E as E1 E2. cbn [existsb]. rewrite E1, (IHa b E2). reflexivity. }
    rewrite (G _ _ Ev). exact Ex. }
  destruct (first_fv_exists elems' Hex' Efp) as (vh & Ef & Epol).
  rewrite Ef. cbn [fst snd]. rewrite Epol. change (set_polarity 255 255) with (Some 255). cbv beta iota.
  pose proof (copy_elems_concat 255 elems' [] (zlen buf) (zlen_nonneg buf)) as CC.
  cbn [app] in CC. change (zlen (@nil Z)) with 0 in CC.
  rewrite Em, Ec in CC. rewrite CC by lia. cbn [bind].
  rewrite Z.sub_diag. change (zrepeat 255 0) with (@nil Z). rewrite app_nil_r. reflexivity.
Qed.

(* ---------- the signature scan: sufficient conditions for [pair_scan_ok] ---------- *)

Lemma find_fvh_skip k : forall data o fuel, scan_clear k data o = true ->
  o + 8 * Z.of_nat k + 4 < zlen data -> 0 <= o -> (k <= fuel)%nat ->
  find_fvh fuel data o = find_fvh (fuel - k) data (o + 8 * Z.of_nat k).
Proof.
  induction k as [|k IH]; intros data o fuel Hs Hlen Ho Hf.
  - rewrite Nat.sub_0_r. f_equal. lia.
  - cbn [scan_clear] in Hs. apply andb_true_iff in Hs as [H1 H2].
    destruct fuel as [|fuel]; [lia|]. cbn [find_fvh].
    replace (o + 4 <? zlen data) with true by lia.
    replace (bytes_eqb (sub o 4 data) [95; 70; 86; 72]) with false
      by (symmetry; apply negb_true_iff; exact H1).
    rewrite IH by (auto; lia). cbn [Nat.sub]. f_equal. lia.
Qed.

Lemma sub_prefix (a b : bytes) o len : 0 <= o -> 0 <= len -> o + len <= zlen a ->
  sub o len (a ++ b) = sub o len a.
Proof.
  intros Ho Hl Hle. unfold sub, zfirstn, zskipn.
  rewrite skipn_app. rewrite firstn_app.
  replace (Z.to_nat len - length (skipn (Z.to_nat o) a))%nat with 0%nat
    by (rewrite skipn_length; unfold zlen in *; lia).
  cbn [firstn]. apply app_nil_r.
Qed.

Lemma scan_clear_prefix k : forall (a b : bytes) o, 0 <= o -> o + 8 * Z.of_nat k - 4 <= zlen a ->
  scan_clear k (a ++ b) o = scan_clear k a o.
Proof.
  induction k as [|k IH]; intros a b o Ho Hle; [reflexivity|].
  cbn [scan_clear]. rewrite sub_prefix by lia. rewrite IH by lia. reflexivity.
Qed.

(* a volume that starts after 8-aligned padding is found by the scan if no earlier window —
   in the padding or in the first 40 bytes of the volume header — reads "_FVH" *)
Lemma pair_scan_ok_intro p v :
  (zlen p) mod 8 = 0 -> 72 <= zlen v -> sub 40 4 v = FVH ->
  scan_clear (Z.to_nat (zlen p / 8) + 1) (p ++ v) 32 = true ->
  pair_scan_ok p v.
Proof.
  intros Hm Hv Hsig Hclear rest.
  pose proof (zlen_nonneg p) as Hp. pose proof (zlen_nonneg rest) as Hr.
  pose proof (Z.div_mod (zlen p) 8 ltac:(lia)) as D. rewrite Hm in D.
  set (k := (Z.to_nat (zlen p / 8) + 1)%nat) in *.
  assert (Ek : 8 * Z.of_nat k = zlen p + 8) by (unfold k; lia).
  unfold find_fv_offset. rewrite !zlen_app.
  replace (zlen p + (zlen v + zlen rest) <? 32) with false by lia.
  set (data := p ++ v ++ rest).
  assert (Ld : zlen data = zlen p + zlen v + zlen rest) by (unfold data; rewrite !zlen_app; lia).
  assert (Hc : scan_clear k data 32 = true).
  { unfold data. rewrite app_assoc. rewrite scan_clear_prefix by (rewrite ?zlen_app; lia). exact Hclear. }
  set (fuel := (Z.to_nat ((zlen p + (zlen v + zlen rest)) / 8) + 1)%nat).
  assert (Hfuel : (k < fuel)%nat).
  { unfold fuel, k.
    assert ((zlen p / 8) + 9 <= (zlen p + (zlen v + zlen rest)) / 8).
    { apply Z.div_le_lower_bound; lia. }
    lia. }
  rewrite (find_fvh_skip k data 32 fuel Hc) by lia.
  destruct (fuel - k)%nat as [|f'] eqn:Ef; [lia|]. cbn [find_fvh].
  replace (32 + 8 * Z.of_nat k + 4 <? zlen data) with true by lia.
  replace (32 + 8 * Z.of_nat k) with (zlen p + 40) by lia.
  assert (Es : sub (zlen p + 40) 4 data = FVH).
  { unfold data. rewrite (sub_app_skip p _ (zlen p + 40) 4 (zlen p)) by lia.
    replace (zlen p + 40 - zlen p) with 40 by lia. rewrite sub_prefix by lia. exact Hsig. }
  rewrite Es. change (bytes_eqb FVH [95; 70; 86; 72]) with true. cbv iota. lia.
Qed.

(* trailing padding in which no window reads "_FVH" *)
Lemma trail_scan_ok_intro trail :
  scan_clear (Z.to_nat (zlen trail / 8) + 1) trail 32 = true -> find_fv_offset trail < 0.
Proof.
  intros Hc. unfold find_fv_offset. destruct (zlen trail <? 32) eqn:E; [lia|].
  generalize dependent (Z.to_nat (zlen trail / 8) + 1)%nat. intros n.
  assert (G : forall n o, 0 <= o -> scan_clear n trail o = true -> find_fvh n trail o < 0).
  { clear. induction n as [|n IH]; intros o Ho Hs; cbn [find_fvh]; [lia|].
    cbn [scan_clear] in Hs. apply andb_true_iff in Hs as [H1 H2].
    destruct (o + 4 <? zlen trail); [|lia].
    replace (bytes_eqb (sub o 4 trail) [95; 70; 86; 72]) with false
      by (symmetry; apply negb_true_iff; exact H1).
    apply IH; [lia|exact H2]. }
  intros Hs. apply G; [lia|exact Hs].
Qed.

(* a volume built by the grammar carries the signature at offset 40 *)
Lemma vol_bytes_sig zero g attrs reserved rev count bsize more eo ext files free :
  zlen zero = 16 -> zlen g = 16 ->
  sub 40 4 (vol_bytes_x zero g attrs reserved rev count bsize more eo ext files free) = FVH.
Proof.
  intros Lz Lg. unfold vol_bytes_x, fv_header. rewrite <- !app_assoc.
  rewrite (sub_app_skip _ _ 40 4 16) by (auto; lia). change (40 - 16) with 24.
  rewrite (sub_app_skip _ _ 24 4 16) by (auto; lia). change (24 - 16) with 8.
  rewrite (sub_app_skip _ _ 8 4 8) by (try apply le8'; lia). change (8 - 8) with 0.
  apply (sub_app_here [95; 70; 86; 72]). reflexivity.
Qed.

End Save.
