(* Proofs/FfsSaveProofs.v — property C01: parsing a well-formed image and assembling it again
   reproduces the bytes.  Built bottom-up as composable "ok" predicates (section, file, volume). *)
From Fiano Require Import Base.Bytes Base.BytesLemmas Model.Ffs Model.FfsSpec.
From Coq Require Import ZifyBool ZifyNat.
Open Scope Z_scope.

Section Save.
Variable dec : Z -> bytes -> option bytes.
Variable enc : Z -> bytes -> option bytes.
Variable u2s s2u : bytes -> bytes.
Variable nvar : bytes -> option bytes.

Notation parse_section := (parse_section dec u2s nvar).
Notation parse_file := (parse_file dec u2s nvar).
Notation parse_fv := (parse_fv dec u2s nvar).
Notation asm := (asm enc s2u).
Notation asm_elems := (asm_elems enc s2u).

(* ---------- unfolding equations ---------- *)

Lemma parse_section_S d pol buf o :
  parse_section (S d) pol buf o = section_body dec u2s (parse_section d) (parse_fv d) pol buf o.
Proof. reflexivity. Qed.
Lemma parse_file_S d pol buf :
  parse_file (S d) pol buf = file_body nvar (parse_section d) pol buf.
Proof. reflexivity. Qed.
Lemma parse_fv_S d pol data off r :
  parse_fv (S d) pol data off r = fv_body (parse_file d) pol data off r.
Proof. reflexivity. Qed.

Lemma asm_list_elems kids st :
  (fix asm_list (l : list node) (st : ast) : outcome (list node * ast) :=
     match l with
     | [] => Ok ([], st)
     | x :: r =>
       do xs <- asm x st; let '(x', st1) := xs in
       do rs <- asm_list r st1; let '(r', st2) := rs in
       Ok (x' :: r', st2)
     end) kids st = asm_elems kids st.
Proof.
  reflexivity.
Qed.

Lemma asm_NSec h buf kids st :
  asm (NSec h buf kids) st =
  do ks <- asm_elems kids st; let '(kids', st1) := ks in sec_asm enc s2u h buf kids' st1.
Proof. reflexivity. Qed.

Lemma asm_NFile h buf kids st :
  asm (NFile h buf kids) st =
  do ks <- asm_elems kids st; let '(kids', st1) := ks in file_asm h buf kids' st1.
Proof. reflexivity. Qed.

Lemma asm_NVol h buf kids st :
  asm (NVol h buf kids) st =
  match set_polarity (fst st) (fv_polarity (v_attrs h)) with
  | None => Err E_POLARITY
  | Some pol0 =>
    do ks <- asm_elems kids (pol0, snd st); let '(kids', st1) := ks in vol_asm h buf kids' st1
  end.
Proof. reflexivity. Qed.


(* ---------- the "ok" predicates: what the C01 theorem says about one grammar element ---------- *)

(* a section: self-delimiting, parses to a node holding exactly its bytes, and assembling that
   node gives the same bytes back; all at erase polarity 0xFF and with the FFS3 flag untouched *)
Definition sec_ok (sb : bytes) : Prop :=
  bytes_ok sb = true /\ 4 <= zlen sb < 16777215 /\
  exists d0, forall d, (d0 <= d)%nat -> forall rest order,
    exists h kids, parse_section d 255 (sb ++ rest) order = Ok (NSec h sb kids, 255) /\
      s_ext h = zlen sb /\
      exists h' kids', asm (NSec h sb kids) (255, false) = Ok (NSec h' sb kids', (255, false)).

(* ---------- facts about the bytes of a section ---------- *)

Lemma zlen_sec_bytes t body : zlen (sec_bytes t body) = 4 + zlen body.
Proof. unfold sec_bytes. rewrite !zlen_app, zlen_le_enc, zlen_cons, zlen_nil. lia. Qed.

Lemma bytes_ok_sec_bytes t body : 0 <= t < 256 -> bytes_ok body = true ->
  bytes_ok (sec_bytes t body) = true.
Proof.
  intros Ht Hb. unfold sec_bytes. rewrite !bytes_ok_app, le_enc_ok, Hb. cbn [bytes_ok forallb].
  replace (byte_ok t) with true by (unfold byte_ok; lia). reflexivity.
Qed.

Lemma le3 v : zlen (le_enc 3 v) = 3. Proof. exact (zlen_le_enc 3 v). Qed.

Lemma sec_size3 t body rest : 4 + zlen body < 16777216 ->
  rd 0 3 (sec_bytes t body ++ rest) = 4 + zlen body.
Proof.
  intros H. unfold sec_bytes. rewrite <- app_assoc. rewrite rd_app_here by apply le3.
  apply le_dec_enc. pose proof (zlen_nonneg body). change (256 ^ Z.of_nat 3) with 16777216. lia.
Qed.

Lemma sec_type t body rest : 0 <= t < 256 -> rd 3 1 (sec_bytes t body ++ rest) = t.
Proof.
  intros H. unfold sec_bytes. rewrite <- app_assoc.
  rewrite (rd_app_skip _ _ 3 1 3) by (try apply le3; lia). change (3 - 3) with 0.
  rewrite <- app_assoc. change ([t] ++ body ++ rest) with ([t] ++ (body ++ rest)).
  rewrite rd_app_here by reflexivity. cbn [le_dec]. lia.
Qed.

Lemma sec_sub t body rest :
  sub 0 (4 + zlen body) (sec_bytes t body ++ rest) = sec_bytes t body.
Proof. apply sub_app_here. apply zlen_sec_bytes. Qed.

Lemma sec_body_skip t body : zskipn 4 (sec_bytes t body) = body.
Proof.
  unfold sec_bytes. rewrite app_assoc.
  assert (L : zlen (le_enc 3 (4 + zlen body) ++ [t]) = 4) by (rewrite zlen_app, le3; reflexivity).
  rewrite <- L. apply zskipn_app_exact.
Qed.

(* ---------- R1: leaf sections ---------- *)

Lemma leaf_type_tests t : leaf_type t = true ->
  (t =? 2) = false /\ (t =? 21) = false /\ (t =? 20) = false /\ (t =? 23) = false /\
  ((t =? 19) || (t =? 27) || (t =? 28)) = false.
Proof. unfold leaf_type. intros H. repeat split; lia. Qed.

(* the common prefix of section_body on the bytes of a section *)
Ltac sec_start t body rest :=
  unfold section_body;
  pose proof (zlen_nonneg body); pose proof (zlen_nonneg rest);
  rewrite !zlen_app, !zlen_sec_bytes;
  replace (4 + zlen body + zlen rest <? 4) with false by lia;
  rewrite !sec_size3 by lia; rewrite !sec_type by lia;
  replace (4 + zlen body =? 16777215) with false by lia;
  rewrite Z.min_l by lia;
  replace (if known_section t then Ok (4, 4 + zlen body) else Ok (4, 4 + zlen body))
    with (@Ok (Z * Z) (4, 4 + zlen body)) by (destruct (known_section t); reflexivity);
  cbn [bind];
  replace (4 + zlen body + zlen rest <? 4 + zlen body) with false by lia;
  rewrite !sec_sub.

Lemma sec_ok_leaf t body : leaf_type t = true -> 0 <= t < 256 -> bytes_ok body = true ->
  4 + zlen body < 16777215 -> sec_ok (sec_bytes t body).
Proof.
  intros Hl Ht Hb Hn. pose proof (zlen_nonneg body) as Hnn.
  destruct (leaf_type_tests t Hl) as (T2 & T21 & T20 & T23 & T19).
  split; [apply bytes_ok_sec_bytes; auto|]. split; [rewrite zlen_sec_bytes; lia|].
  exists 1%nat. intros d Hd rest order. destruct d as [|d]; [lia|].
  rewrite parse_section_S.
  eexists; eexists. split; [|split].
  - sec_start t body rest. rewrite T2, T21, T20, T23, T19. reflexivity.
  - cbn [s_ext sec_default]. rewrite zlen_sec_bytes. reflexivity.
  - rewrite asm_NSec. cbn [Ffs.asm_elems bind]. unfold sec_asm. cbn [s_type sec_default].
    rewrite T21, T20, T19. cbn [bind]. eexists; eexists; reflexivity.
Qed.

(* ---------- regenerated section headers ---------- *)

Lemma gen_sec_header_plain h body : s_gd h = None -> 4 + zlen body < 16777215 ->
  snd (gen_sec_header h body) = sec_bytes (s_type h) body /\
  s_ext (fst (gen_sec_header h body)) = 4 + zlen body.
Proof.
  intros Hg Hn. pose proof (zlen_nonneg body). unfold gen_sec_header. rewrite Hg.
  change (4 + 0) with 4.
  assert (E0 : (zlen body + 4) mod U32 = 4 + zlen body).
  { unfold U32. rewrite Z.mod_small; [lia|]. change (2 ^ 32) with 4294967296. lia. }
  rewrite E0.
  replace (16777215 <=? 4 + zlen body) with false by lia.
  cbn [fst snd s_ext]. split; [|reflexivity].
  unfold write3. replace (16777215 <=? 4 + zlen body) with false by lia.
  unfold sec_bytes. rewrite app_nil_r. cbn [app]. rewrite <- app_assoc. reflexivity.
Qed.

(* ---------- R3 / R4: user-interface and version sections ---------- *)

Lemma sec_ok_ui p : s2u (u2s p) = p -> 0 < zlen p -> bytes_ok p = true ->
  4 + zlen p < 16777215 -> sec_ok (sec_bytes 21 p).
Proof.
  intros Hr Hp Hb Hn.
  split; [apply bytes_ok_sec_bytes; auto; lia|]. split; [rewrite zlen_sec_bytes; lia|].
  exists 1%nat. intros d Hd rest order. destruct d as [|d]; [lia|].
  rewrite parse_section_S.
  eexists; eexists. split; [|split].
  - sec_start 21 p rest. change (21 =? 2) with false. change (21 =? 21) with true. cbv iota.
    rewrite zlen_sec_bytes. replace (4 + zlen p <=? 4) with false by lia.
    rewrite sec_body_skip. reflexivity.
  - cbn [s_ext]. rewrite zlen_sec_bytes. reflexivity.
  - rewrite asm_NSec. cbn [Ffs.asm_elems bind]. unfold sec_asm. cbn [s_type s_name].
    change (21 =? 21) with true. cbv iota. cbn [bind]. rewrite Hr.
    match goal with |- context [gen_sec_header ?h p] =>
      destruct (gen_sec_header_plain h p eq_refl Hn) as [E1 E2];
      destruct (gen_sec_header h p) as [h' nb] eqn:G end.
    cbn [fst snd] in E1, E2. rewrite E1, E2. cbn [s_type].
    replace (16777215 <? 4 + zlen p) with false by lia. eexists; eexists; reflexivity.
Qed.

Lemma sec_ok_version build p : 0 <= build < 65536 -> s2u (u2s p) = p -> 0 < zlen p ->
  bytes_ok p = true -> 6 + zlen p < 16777215 -> sec_ok (sec_bytes 20 (le_enc 2 build ++ p)).
Proof.
  intros Hbu Hr Hp Hb Hn.
  assert (Lb : zlen (le_enc 2 build ++ p) = 2 + zlen p) by (rewrite zlen_app, zlen_le_enc; reflexivity).
  assert (Ob : bytes_ok (le_enc 2 build ++ p) = true) by (rewrite bytes_ok_app, le_enc_ok, Hb; reflexivity).
  split; [apply bytes_ok_sec_bytes; auto; lia|]. split; [rewrite zlen_sec_bytes; lia|].
  exists 1%nat. intros d Hd rest order. destruct d as [|d]; [lia|].
  rewrite parse_section_S.
  eexists; eexists. split; [|split].
  - sec_start 20 (le_enc 2 build ++ p) rest. change (20 =? 2) with false. change (20 =? 21) with false.
    change (20 =? 20) with true. cbv iota.
    rewrite zlen_sec_bytes. replace (4 + zlen (le_enc 2 build ++ p) <=? 4 + 2) with false by lia.
    reflexivity.
  - cbn [s_ext]. rewrite zlen_sec_bytes. reflexivity.
  - rewrite asm_NSec. cbn [Ffs.asm_elems bind]. unfold sec_asm. cbn [s_type s_build s_version].
    change (20 =? 21) with false. change (20 =? 20) with true. cbv iota. cbn [bind].
    (* the parsed fields give back the body *)
    assert (Ebody : le_enc 2 (rd 4 2 (sec_bytes 20 (le_enc 2 build ++ p))) ++
                    s2u (u2s (zskipn (4 + 2) (sec_bytes 20 (le_enc 2 build ++ p)))) = le_enc 2 build ++ p).
    { unfold sec_bytes at 1.
      rewrite (rd_app_skip _ _ 4 2 3) by (try apply le3; lia). change (4 - 3) with 1.
      change ([20] ++ (le_enc 2 build ++ p)) with ([20] ++ (le_enc 2 build ++ p)).
      rewrite (rd_app_skip [20] _ 1 2 1) by (try reflexivity; lia). change (1 - 1) with 0.
      rewrite rd_app_here by apply (zlen_le_enc 2).
      rewrite le_dec_enc by (change (256 ^ Z.of_nat 2) with 65536; lia).
      f_equal.
      replace (zskipn (4 + 2) (sec_bytes 20 (le_enc 2 build ++ p))) with p; [exact Hr|].
      rewrite <- (zskipn_zskipn 2 4) by lia. rewrite sec_body_skip.
      symmetry. rewrite <- (zlen_le_enc 2 build) at 1. apply zskipn_app_exact. }
    rewrite Ebody.
    assert (Hn' : 4 + zlen (le_enc 2 build ++ p) < 16777215) by lia.
    match goal with |- context [gen_sec_header ?h ?b] =>
      destruct (gen_sec_header_plain h b eq_refl Hn') as [E1 E2];
      destruct (gen_sec_header h b) as [h' nb] eqn:G end.
    cbn [fst snd] in E1, E2. rewrite E1, E2. cbn [s_type].
    replace (16777215 <? 4 + zlen (le_enc 2 build ++ p)) with false by lia.
    eexists; eexists; reflexivity.
Qed.

(* ---------- R5: dependency-expression sections ---------- *)

Lemma depex_op_ok_spec op g : depex_op_ok (op, g) = true ->
  0 <= op <= 9 /\ op <> 8 /\
  ((op <= 2 /\ exists gb, g = Some gb /\ zlen gb = 16 /\ bytes_ok gb = true) \/ (2 < op /\ g = None)).
Proof.
  unfold depex_op_ok. intros H.
  apply andb_true_iff in H as [H H4]. apply andb_true_iff in H as [H H3].
  apply andb_true_iff in H as [H1 H2].
  split; [lia|]. split; [lia|].
  destruct (op <=? 2) eqn:E.
  - left. split; [lia|]. destruct g as [gb|]; [|discriminate].
    apply andb_true_iff in H4 as [L O]. exists gb. repeat split; auto; lia.
  - right. split; [lia|]. destruct g; [discriminate|reflexivity].
Qed.

Lemma parse_depex_emit ops : forallb depex_op_ok ops = true ->
  forall fuel, (length (depex_bytes ops) < fuel)%nat ->
  parse_depex fuel (depex_bytes ops) = Some (ops ++ [(8, None)]).
Proof.
  induction ops as [|[op g] r IH]; intros Hok fuel Hf.
  - destruct fuel as [|k]; [cbn in Hf; lia|]. reflexivity.
  - cbn [forallb] in Hok. apply andb_true_iff in Hok as [Ho Hr].
    destruct (depex_op_ok_spec op g Ho) as (R & N8 & [[L2 (gb & -> & Lg & Og)]|[G2 ->]]).
    + cbn [depex_bytes] in *. destruct fuel as [|k]; [lia|]. cbn [parse_depex].
      replace ((op <=? 9) && (0 <=? op)) with true by lia.
      replace (op <=? 2) with true by lia.
      rewrite zlen_app. pose proof (zlen_nonneg (depex_bytes r)).
      replace (zlen gb + zlen (depex_bytes r) <? 16) with false by lia.
      rewrite <- Lg. rewrite zskipn_app_exact, zfirstn_app_exact.
      rewrite IH; auto. cbn [length] in Hf. rewrite app_length in Hf. lia.
    + cbn [depex_bytes] in *. destruct fuel as [|k]; [lia|]. cbn [parse_depex app].
      replace ((op <=? 9) && (0 <=? op)) with true by lia.
      replace (op <=? 2) with false by lia. replace (op =? 8) with false by lia.
      rewrite IH; auto. cbn [length app] in Hf. lia.
Qed.

Lemma emit_depex_spec ops : forallb depex_op_ok ops = true ->
  emit_depex (ops ++ [(8, None)]) = Ok (depex_bytes ops).
Proof.
  induction ops as [|[op g] r IH]; intros Hok; [reflexivity|].
  cbn [forallb] in Hok. apply andb_true_iff in Hok as [Ho Hr].
  cbn [app emit_depex]. rewrite IH by auto. cbn [bind].
  destruct (depex_op_ok_spec op g Ho) as (R & N8 & [[L2 (gb & -> & Lg & Og)]|[G2 ->]]).
  - replace (op <=? 2) with true by lia. reflexivity.
  - replace (op <=? 2) with false by lia. reflexivity.
Qed.

Lemma bytes_ok_depex ops : forallb depex_op_ok ops = true -> bytes_ok (depex_bytes ops) = true.
Proof.
  induction ops as [|[op g] r IH]; intros Hok; [reflexivity|].
  cbn [forallb] in Hok. apply andb_true_iff in Hok as [Ho Hr].
  destruct (depex_op_ok_spec op g Ho) as (R & N8 & [[L2 (gb & -> & Lg & Og)]|[G2 ->]]);
    cbn [depex_bytes]; rewrite bytes_ok_cons, ?bytes_ok_app, ?Og, IH by auto;
    replace (byte_ok op) with true by (unfold byte_ok; lia); reflexivity.
Qed.

Lemma sec_ok_depex t ops : (t = 19 \/ t = 27 \/ t = 28) -> forallb depex_op_ok ops = true ->
  4 + zlen (depex_bytes ops) < 16777215 -> sec_ok (sec_bytes t (depex_bytes ops)).
Proof.
  intros Ht Hok Hn. set (body := depex_bytes ops) in *.
  assert (Hb : bytes_ok body = true) by (apply bytes_ok_depex; auto).
  assert (Hpos : 0 < zlen body).
  { unfold body. destruct ops as [|[op g] r]; cbn [depex_bytes]; rewrite zlen_cons.
    - pose proof (zlen_nonneg (@nil Z)). lia.
    - pose proof (zlen_nonneg (match g with Some gb => gb | None => [] end ++ depex_bytes r)). lia. }
  assert (T : (t =? 2) = false /\ (t =? 21) = false /\ (t =? 20) = false /\ (t =? 23) = false /\
              ((t =? 19) || (t =? 27) || (t =? 28)) = true) by (repeat split; lia).
  destruct T as (T2 & T21 & T20 & T23 & T19).
  split; [apply bytes_ok_sec_bytes; auto; lia|]. split; [rewrite zlen_sec_bytes; lia|].
  exists 1%nat. intros d Hd rest order. destruct d as [|d]; [lia|].
  rewrite parse_section_S.
  eexists; eexists. split; [|split].
  - sec_start t body rest. rewrite T2, T21, T20, T23, T19.
    rewrite zlen_sec_bytes. replace (4 + zlen body <=? 4) with false by lia.
    rewrite sec_body_skip. unfold body at 3 4.
    rewrite parse_depex_emit by (auto; lia). reflexivity.
  - cbn [s_ext]. rewrite zlen_sec_bytes. reflexivity.
  - rewrite asm_NSec. cbn [Ffs.asm_elems bind]. unfold sec_asm. cbn [s_type s_depex].
    rewrite T21, T20, T19. rewrite emit_depex_spec by auto. cbn [bind]. fold body.
    match goal with |- context [gen_sec_header ?h body] =>
      destruct (gen_sec_header_plain h body eq_refl Hn) as [E1 E2];
      destruct (gen_sec_header h body) as [h' nb] eqn:G end.
    cbn [fst snd] in E1, E2. rewrite E1, E2. cbn [s_type].
    replace (16777215 <? 4 + zlen body) with false by lia. eexists; eexists; reflexivity.
Qed.

(* ---------- R2: GUID-defined sections that fiano does not decode ---------- *)

Lemma sec_field_sub t body off len :
  4 <= off -> sub off len (sec_bytes t body) = sub (off - 4) len body.
Proof.
  intros H. unfold sec_bytes. rewrite app_assoc.
  apply sub_app_skip; [rewrite zlen_app, le3; reflexivity | lia].
Qed.

Lemma sec_field_rd t body off w :
  4 <= off -> rd off w (sec_bytes t body) = rd (off - 4) w body.
Proof. intros H. unfold rd. f_equal. apply sec_field_sub; auto. Qed.

Lemma sec_ok_guid_opaque g attrs extra payload :
  zlen g = 16 -> bytes_ok g = true -> 0 <= attrs < 65536 ->
  (Z.land attrs 1 = 0 \/ codec_kind g = 0) ->
  bytes_ok extra = true -> bytes_ok payload = true -> 24 + zlen extra < 65536 ->
  4 + zlen (gd_body g attrs extra payload) < 16777215 ->
  sec_ok (sec_bytes 2 (gd_body g attrs extra payload)).
Proof.
  intros Lg Og Ha Hk Oe Op Hd Hn. set (body := gd_body g attrs extra payload) in *.
  pose proof (zlen_nonneg extra). pose proof (zlen_nonneg payload).
  assert (Lb : zlen body = 20 + zlen extra + zlen payload).
  { unfold body, gd_body. rewrite !zlen_app, !zlen_le_enc, Lg. lia. }
  assert (Ob : bytes_ok body = true).
  { unfold body, gd_body. rewrite !bytes_ok_app, !le_enc_ok, Og, Oe, Op. reflexivity. }
  assert (Fg : sub 4 16 (sec_bytes 2 body) = g).
  { rewrite sec_field_sub by lia. change (4 - 4) with 0. unfold body, gd_body. apply sub_app_here; auto. }
  assert (Fd : rd (4 + 16) 2 (sec_bytes 2 body) = 24 + zlen extra).
  { rewrite sec_field_rd by lia. change (4 + 16 - 4) with 16. unfold body, gd_body.
    rewrite (rd_app_skip _ _ 16 2 16) by (auto; lia). change (16 - 16) with 0.
    rewrite rd_app_here by apply (zlen_le_enc 2). apply le_dec_enc.
    change (256 ^ Z.of_nat 2) with 65536. lia. }
  assert (Fa : rd (4 + 18) 2 (sec_bytes 2 body) = attrs).
  { rewrite sec_field_rd by lia. change (4 + 18 - 4) with 18. unfold body, gd_body.
    rewrite (rd_app_skip _ _ 18 2 16) by (auto; lia). change (18 - 16) with 2.
    rewrite (rd_app_skip _ _ 2 2 2) by (try apply (zlen_le_enc 2); lia). change (2 - 2) with 0.
    rewrite rd_app_here by apply (zlen_le_enc 2). apply le_dec_enc.
    change (256 ^ Z.of_nat 2) with 65536. lia. }
  split; [apply bytes_ok_sec_bytes; auto; lia|]. split; [rewrite zlen_sec_bytes; lia|].
  exists 1%nat. intros d Hd' rest order. destruct d as [|d]; [lia|].
  rewrite parse_section_S.
  eexists; eexists. split; [|split].
  - sec_start 2 body rest. change (2 =? 2) with true. cbv iota.
    rewrite zlen_sec_bytes. replace (4 + zlen body <? 4 + 20) with false by lia.
    rewrite Fg, Fd, Fa. replace (4 + zlen body <? 24 + zlen extra) with false by lia.
    replace (if negb (Z.land attrs 1 =? 0) then codec_kind g else 0) with 0
      by (destruct Hk as [-> | ->]; [reflexivity | destruct (negb _); reflexivity]).
    change (0 =? 0) with true. cbv iota. cbn [bind zlen length sections_loop Z.to_nat Nat.add].
    change (Z.to_nat (Z.of_nat 0) + 1)%nat with 1%nat. cbn [sections_loop].
    change (0 <? zlen (@nil Z)) with false. cbv iota. cbn [bind]. reflexivity.
  - cbn [s_ext]. rewrite zlen_sec_bytes. reflexivity.
  - rewrite asm_NSec. cbn [Ffs.asm_elems bind]. unfold sec_asm. cbn [s_type].
    change (2 =? 21) with false. change (2 =? 20) with false.
    change ((2 =? 19) || (2 =? 27) || (2 =? 28)) with false. cbv iota. cbn [bind].
    eexists; eexists; reflexivity.
Qed.

(* ---------- files ---------- *)

Definition file_ok (fb : bytes) : Prop :=
  bytes_ok fb = true /\ 24 <= zlen fb < 16777215 /\
  exists d0, forall d, (d0 <= d)%nat -> forall rest,
    exists h kids, parse_file d 255 (fb ++ rest) = Ok (Some (NFile h fb kids), 255) /\
      f_ext h = zlen fb /\ f_attr h = rd 19 1 fb /\
      exists h' kids', asm (NFile h fb kids) (255, false) = Ok (NFile h' fb kids', (255, false)) /\
                       f_attr h' = f_attr h.

Lemma zlen_raw_file g ckh ckf t attr state body : zlen g = 16 ->
  zlen (raw_file_bytes g ckh ckf t attr state body) = 24 + zlen body.
Proof.
  intros Lg. unfold raw_file_bytes. rewrite !zlen_app, le3, Lg.
  change (zlen [ckh; ckf; t; attr]) with 4. change (zlen [state]) with 1. lia.
Qed.

Lemma bytes_ok_raw_file g ckh ckf t attr state body :
  bytes_ok g = true -> 0 <= ckh < 256 -> 0 <= ckf < 256 -> 0 <= t < 256 -> 0 <= attr < 256 ->
  0 <= state < 256 -> bytes_ok body = true ->
  bytes_ok (raw_file_bytes g ckh ckf t attr state body) = true.
Proof.
  intros Og Hh Hf Ht Ha Hs Ob. unfold raw_file_bytes. rewrite !bytes_ok_app, le_enc_ok, Og, Ob.
  cbn [bytes_ok forallb]. unfold byte_ok. lia.
Qed.

Lemma rd_cons_skip (x : Z) l off w : 1 <= off -> rd off w (x :: l) = rd (off - 1) w l.
Proof. intros H. change (x :: l) with ([x] ++ l). apply rd_app_skip; [reflexivity|lia]. Qed.

Lemma rd_cons_here (x : Z) l : rd 0 1 (x :: l) = x.
Proof.
  change (x :: l) with ([x] ++ l). rewrite rd_app_here by reflexivity. cbn [le_dec]. lia.
Qed.

(* the header fields of a file, read back from its bytes *)
Lemma raw_file_fields g ckh ckf t attr state body rest :
  zlen g = 16 -> 24 + zlen body < 16777216 ->
  let b := raw_file_bytes g ckh ckf t attr state body ++ rest in
  sub 0 16 b = g /\ rd 16 1 b = ckh /\ rd 17 1 b = ckf /\ rd 18 1 b = t /\ rd 19 1 b = attr /\
  rd 20 3 b = 24 + zlen body /\ rd 23 1 b = state.
Proof.
  intros Lg Hn b. unfold b, raw_file_bytes. rewrite <- !app_assoc.
  pose proof (zlen_nonneg body).
  repeat split.
  - apply sub_app_here; auto.
  - rewrite (rd_app_skip _ _ 16 1 16) by (auto; lia). change (16 - 16) with 0.
    cbn [app]. apply rd_cons_here.
  - rewrite (rd_app_skip _ _ 17 1 16) by (auto; lia). change (17 - 16) with 1. cbn [app].
    rewrite rd_cons_skip by lia. apply rd_cons_here.
  - rewrite (rd_app_skip _ _ 18 1 16) by (auto; lia). change (18 - 16) with 2. cbn [app].
    rewrite !rd_cons_skip by lia. apply rd_cons_here.
  - rewrite (rd_app_skip _ _ 19 1 16) by (auto; lia). change (19 - 16) with 3. cbn [app].
    rewrite rd_cons_skip by lia. change (3 - 1) with 2. rewrite rd_cons_skip by lia.
    change (2 - 1) with 1. rewrite rd_cons_skip by lia. apply rd_cons_here.
  - rewrite (rd_app_skip _ _ 20 3 16) by (auto; lia). change (20 - 16) with 4. cbn [app].
    rewrite rd_cons_skip by lia. change (4 - 1) with 3. rewrite rd_cons_skip by lia.
    change (3 - 1) with 2. rewrite rd_cons_skip by lia. change (2 - 1) with 1.
    rewrite rd_cons_skip by lia. change (1 - 1) with 0.
    rewrite rd_app_here by apply le3. apply le_dec_enc. change (256 ^ Z.of_nat 3) with 16777216. lia.
  - rewrite (rd_app_skip _ _ 23 1 16) by (auto; lia). change (23 - 16) with 7. cbn [app].
    rewrite rd_cons_skip by lia. change (7 - 1) with 6. rewrite rd_cons_skip by lia.
    change (6 - 1) with 5. rewrite rd_cons_skip by lia. change (5 - 1) with 4.
    rewrite rd_cons_skip by lia. change (4 - 1) with 3.
    rewrite (rd_app_skip _ _ 3 1 3) by (try apply le3; lia). change (3 - 3) with 0.
    apply rd_cons_here.
Qed.

Lemma sections_loop_done rs n b pol offset i : zlen b <= offset ->
  sections_loop rs (S n) b pol offset i = Ok ([], pol).
Proof. intros H. cbn [sections_loop]. replace (offset <? zlen b) with false by lia. reflexivity. Qed.

Lemma sections_loop_step rs n b pol offset i : offset < zlen b ->
  sections_loop rs (S n) b pol offset i =
    do sp <- rs pol (zskipn offset b) i;
    let '(s, pol') := sp in
    if sec_ext s =? 0 then Err E_ZEROLEN else
    do rp <- sections_loop rs n b pol' (align4 (offset + sec_ext s)) (i + 1);
    let '(r, pol'') := rp in Ok (s :: r, pol'').
Proof. intros H. cbn [sections_loop]. replace (offset <? zlen b) with true by lia. reflexivity. Qed.

(* the common prefix of file_body on the bytes of a file *)
Lemma file_body_start rs g ckh ckf t attr state body rest :
  zlen g = 16 -> 24 + zlen body < 16777215 -> (t =? 1) && bytes_eqb g NVAR_GUID = false ->
  let fb := raw_file_bytes g ckh ckf t attr state body in
  file_body nvar rs 255 (fb ++ rest) =
    let h := mkFile g ckh ckf t attr (24 + zlen body) state (24 + zlen body) 24 None in
    if negb (supported_file t) then Ok (Some (NFile h fb []), 255) else
    do kp <- sections_loop rs (Z.to_nat (24 + zlen body) + 1) fb 255 24 0;
    let '(kids, pol') := kp in
    Ok (Some (NFile h fb kids), pol').
Proof.
  intros Lg Hn Hnv fb.
  destruct (raw_file_fields g ckh ckf t attr state body rest Lg ltac:(lia))
    as (F0 & F16 & F17 & F18 & F19 & F20 & F23).
  fold fb in F0, F16, F17, F18, F19, F20, F23.
  pose proof (zlen_nonneg body). pose proof (zlen_nonneg rest).
  assert (Lf : zlen fb = 24 + zlen body) by (apply zlen_raw_file; auto).
  unfold file_body. rewrite !zlen_app, Lf.
  replace (24 + zlen body + zlen rest <? 24) with false by lia.
  rewrite F0, F16, F17, F18, F19, F20, F23.
  replace (24 + zlen body =? 16777215) with false by lia. cbn [bind andb].
  replace (24 + zlen body + zlen rest <? 24 + zlen body) with false by lia.
  rewrite Hnv. cbn [bind].
  rewrite <- Lf. rewrite (sub_app_here fb rest (zlen fb) eq_refl). rewrite Lf.
  reflexivity.
Qed.

Lemma file_ok_opaque g ckh ckf t attr state body :
  zlen g = 16 -> bytes_ok g = true -> 0 <= ckh < 256 -> 0 <= ckf < 256 -> 0 <= t < 256 ->
  0 <= attr < 256 -> 0 <= state < 256 -> bytes_ok body = true -> 24 + zlen body < 16777215 ->
  (t =? 1) && bytes_eqb g NVAR_GUID = false ->
  (supported_file t = false \/ body = []) ->
  file_ok (raw_file_bytes g ckh ckf t attr state body).
Proof.
  intros Lg Og Hh Hf Ht Ha Hs Ob Hn Hnv Hop. pose proof (zlen_nonneg body).
  split; [apply bytes_ok_raw_file; auto|]. split; [rewrite zlen_raw_file by auto; lia|].
  exists 1%nat. intros d Hd rest. destruct d as [|d]; [lia|].
  rewrite parse_file_S. rewrite file_body_start by auto. cbv zeta.
  destruct (raw_file_fields g ckh ckf t attr state body [] Lg ltac:(lia)) as (_ & _ & _ & _ & F19 & _).
  rewrite app_nil_r in F19.
  assert (Easm : forall h, f_nvar h = None ->
            asm (NFile h (raw_file_bytes g ckh ckf t attr state body) []) (255, false) =
            Ok (NFile h (raw_file_bytes g ckh ckf t attr state body) [], (255, false))).
  { intros h Hv. rewrite asm_NFile. cbn [Ffs.asm_elems bind]. unfold file_asm. rewrite Hv. reflexivity. }
  destruct (supported_file t) eqn:Sup; cbn [negb].
  - destruct Hop as [Hop|Hop]; [discriminate|]. subst body.
    change (zlen (@nil Z)) with 0. change (24 + 0) with 24.
    change (Z.to_nat 24 + 1)%nat with 25%nat.
    rewrite sections_loop_done by (rewrite zlen_raw_file by auto; change (zlen (@nil Z)) with 0; lia).
    cbn [bind].
    eexists; eexists. split; [reflexivity|]. cbn [f_ext f_attr]. rewrite zlen_raw_file by auto.
    split; [reflexivity|]. split; [symmetry; exact F19|].
    eexists; eexists. split; [apply Easm; reflexivity|reflexivity].
  - eexists; eexists. split; [reflexivity|]. cbn [f_ext f_attr]. rewrite zlen_raw_file by auto.
    split; [reflexivity|]. split; [symmetry; exact F19|].
    eexists; eexists. split; [apply Easm; reflexivity|reflexivity].
Qed.

(* ---------- alignment and the layout of consecutive sections ---------- *)

Lemma align4_spec v : 0 <= v -> v <= align4 v < v + 4 /\ (align4 v) mod 4 = 0.
Proof.
  intros Hv. unfold align4, align.
  pose proof (Z.div_mod (v + 4 - 1) 4 ltac:(lia)) as D.
  pose proof (Z.mod_pos_bound (v + 4 - 1) 4 ltac:(lia)) as B.
  split; [lia|]. apply Z.mod_mul. lia.
Qed.

Lemma align4_fix v : 0 <= v -> v mod 4 = 0 -> align4 v = v.
Proof.
  intros Hv Hm. unfold align4, align.
  pose proof (Z.div_mod v 4 ltac:(lia)) as D. rewrite Hm in D.
  replace (v + 4 - 1) with (3 + (v / 4) * 4) by lia.
  rewrite Z.div_add by lia. rewrite (Z.div_small 3 4) by lia. lia.
Qed.

Lemma align4_add a v : 0 <= a -> 0 <= v -> a mod 4 = 0 -> align4 (a + v) = a + align4 v.
Proof.
  intros Ha Hv Hm. unfold align4, align.
  pose proof (Z.div_mod a 4 ltac:(lia)) as D. rewrite Hm in D.
  replace (a + v + 4 - 1) with ((v + 4 - 1) + (a / 4) * 4) by lia.
  rewrite Z.div_add by lia. lia.
Qed.

(* sections laid out from a 4-aligned position: zero padding between, none after the last *)
Fixpoint lay (l : list bytes) : bytes :=
  match l with
  | [] => []
  | s :: r =>
    s ++ match r with [] => [] | _ => zrepeat 0 (align4 (zlen s) - zlen s) ++ lay r end
  end.

Lemma zlen_zrepeat x n : 0 <= n -> zlen (zrepeat x n) = n.
Proof.
  intros H. unfold zrepeat, zlen.
  assert (L : forall k, length (repeatz x k) = k) by (induction k; simpl; auto).
  rewrite L. lia.
Qed.

Lemma join4_lay acc l : (zlen acc) mod 4 = 0 \/ l = [] \/ True ->
  join4 acc l =
  acc ++ match l with [] => [] | _ => zrepeat 0 (align4 (zlen acc) - zlen acc) ++ lay l end.
Proof.
  intros _. revert acc. induction l as [|s r IH]; intros acc.
  - cbn [join4]. rewrite app_nil_r. reflexivity.
  - cbn [join4]. rewrite IH. cbn [lay].
    pose proof (zlen_nonneg acc) as Ha. pose proof (zlen_nonneg s) as Hs.
    destruct (align4_spec (zlen acc) Ha) as [B M].
    rewrite <- !app_assoc. f_equal. f_equal. f_equal.
    destruct r as [|s2 r2]; [reflexivity|].
    rewrite !zlen_app, zlen_zrepeat by lia.
    replace (zlen acc + (align4 (zlen acc) - zlen acc + zlen s)) with (align4 (zlen acc) + zlen s) by lia.
    rewrite align4_add by lia.
    replace (align4 (zlen acc) + align4 (zlen s) - (align4 (zlen acc) + zlen s))
      with (align4 (zlen s) - zlen s) by lia.
    reflexivity.
Qed.

Lemma sections_bytes_lay l : sections_bytes l = lay l.
Proof.
  unfold sections_bytes. rewrite join4_lay by auto. cbn [app].
  destruct l; [reflexivity|]. change (zlen (@nil Z)) with 0.
  change (align4 0 - 0) with 0. reflexivity.
Qed.

(* ---------- the section loop over a well-formed sequence ---------- *)

Definition sec_ok_at (d : nat) (sb : bytes) : Prop :=
  bytes_ok sb = true /\ 4 <= zlen sb < 16777215 /\
  forall rest order,
    exists h kids, parse_section d 255 (sb ++ rest) order = Ok (NSec h sb kids, 255) /\
      s_ext h = zlen sb /\
      exists h' kids', asm (NSec h sb kids) (255, false) = Ok (NSec h' sb kids', (255, false)).

Lemma sec_ok_at_of sb : sec_ok sb -> exists d0, forall d, (d0 <= d)%nat -> sec_ok_at d sb.
Proof.
  intros (Ob & Hl & d0 & H). exists d0. intros d Hd. split; [exact Ob|]. split; [exact Hl|].
  intros rest order. apply H; exact Hd.
Qed.

Lemma Forall_sec_ok_at l : Forall sec_ok l ->
  exists d0, forall d, (d0 <= d)%nat -> Forall (sec_ok_at d) l.
Proof.
  induction 1 as [|s r Hs Hr (d1 & IH)].
  - exists 0%nat. intros; constructor.
  - destruct (sec_ok_at_of s Hs) as (d2 & H2). exists (Nat.max d1 d2). intros d Hd.
    constructor; [apply H2; lia | apply IH; lia].
Qed.

Lemma zlen_lay_cons s r : zlen s <= zlen (lay (s :: r)).
Proof.
  cbn [lay]. rewrite zlen_app.
  match goal with |- _ <= _ + zlen ?x => pose proof (zlen_nonneg x) end. lia.
Qed.

Lemma sections_loop_lay d l : Forall (sec_ok_at d) l ->
  forall P n i, (zlen P) mod 4 = 0 -> (length l < n)%nat ->
  exists kids, sections_loop (parse_section d) n (P ++ lay l) 255 (zlen P) i = Ok (kids, 255) /\
    exists kids', asm_elems kids (255, false) = Ok (kids', (255, false)) /\ map node_buf kids' = l.
Proof.
  induction 1 as [|s r Hs Hr IH]; intros P n i HP Hn.
  - destruct n as [|n]; [cbn in Hn; lia|]. cbn [lay]. rewrite app_nil_r.
    rewrite sections_loop_done by lia. exists []. split; [reflexivity|].
    exists []. split; reflexivity.
  - destruct n as [|n]; [cbn in Hn; lia|]. cbn [length] in Hn.
    destruct Hs as (Ob & Hl & Hp).
    pose proof (zlen_nonneg P) as HPn.
    pose proof (zlen_lay_cons s r) as Hlay.
    assert (Hlt : zlen P < zlen (P ++ lay (s :: r))).
    { rewrite zlen_app.
      match goal with |- _ < _ + ?y => assert (Hy : zlen s <= y) by apply zlen_lay_cons end. lia. }
    rewrite sections_loop_step by exact Hlt.
    rewrite zskipn_app_exact. cbn [lay].
    destruct (Hp (match r with [] => [] | _ => zrepeat 0 (align4 (zlen s) - zlen s) ++ lay r end) i)
      as (h & ks & Ep & Ee & h' & ks' & Ea).
    rewrite Ep. cbn [bind sec_ext]. rewrite Ee.
    replace (zlen s =? 0) with false by lia.
    destruct (align4_spec (zlen s) ltac:(lia)) as [Bs Ms].
    rewrite align4_add by lia.
    destruct r as [|s2 r2].
    + (* last section *)
      rewrite app_nil_r.
      destruct n as [|n]; [lia|].
      rewrite sections_loop_done by (rewrite zlen_app; lia). cbn [bind].
      exists [NSec h s ks]. split; [reflexivity|].
      cbn [Ffs.asm_elems]. rewrite Ea. cbn [bind]. exists [NSec h' s ks']. split; reflexivity.
    + set (pad := zrepeat 0 (align4 (zlen s) - zlen s)).
      assert (Lpad : zlen pad = align4 (zlen s) - zlen s) by (apply zlen_zrepeat; lia).
      replace (P ++ s ++ pad ++ lay (s2 :: r2)) with ((P ++ s ++ pad) ++ lay (s2 :: r2))
        by (rewrite <- !app_assoc; reflexivity).
      replace (zlen P + align4 (zlen s)) with (zlen (P ++ s ++ pad))
        by (rewrite !zlen_app, Lpad; lia).
      destruct (IH (P ++ s ++ pad) n (i + 1)) as (kids & El & kids' & Ek & Em).
      * rewrite !zlen_app, Lpad. replace (zlen P + (zlen s + (align4 (zlen s) - zlen s)))
          with (zlen P + align4 (zlen s)) by lia.
        rewrite Z.add_mod by lia. rewrite HP, Ms. reflexivity.
      * cbn [length] in *. lia.
      * rewrite El. cbn [bind]. exists (NSec h s ks :: kids). split; [reflexivity|].
        cbn [Ffs.asm_elems]. rewrite Ea. cbn [bind]. rewrite Ek. cbn [bind].
        exists (NSec h' s ks' :: kids'). split; [reflexivity|]. cbn [map node_buf]. rewrite Em. reflexivity.
Qed.

(* ---------- checksums of a regenerated file header ---------- *)

Lemma sum_list_app a b : sum_list (a ++ b) = sum_list a + sum_list b.
Proof.
  induction a as [|x a IH]; [reflexivity|]. unfold sum_list in *. cbn [app fold_right]. rewrite IH. lia.
Qed.

Lemma ck_fix S c k s : c = (0 - S) mod 256 ->
  (c - (((S + c + k + s) mod 256 - k - s) mod 256)) mod 256 = c.
Proof.
  intros ->.
  assert (E : ((S + (0 - S) mod 256 + k + s) mod 256 - k - s) mod 256 = 0).
  { rewrite Zminus_mod, (Zminus_mod ((S + (0 - S) mod 256 + k + s) mod 256) k).
    rewrite Z.mod_mod by lia. rewrite <- (Zminus_mod (S + (0 - S) mod 256 + k + s) k).
    rewrite <- Zminus_mod.
    replace (S + (0 - S) mod 256 + k + s - k - s) with (S + (0 - S) mod 256) by lia.
    rewrite Zplus_mod_idemp_r. replace (S + (0 - S)) with 0 by lia. reflexivity. }
  rewrite E. rewrite Z.sub_0_r. apply Z.mod_mod. lia.
Qed.

Lemma byte_land_254 a : 0 <= a < 256 -> Z.land a 1 = 0 -> Z.land a 254 = a.
Proof.
  intros Ha H1.
  assert (F : forallb (fun n => negb (Z.land (Z.of_nat n) 1 =? 0) || (Z.land (Z.of_nat n) 254 =? Z.of_nat n))
                      (seq 0 256) = true) by (vm_compute; reflexivity).
  rewrite forallb_forall in F. specialize (F (Z.to_nat a)).
  rewrite Z2Nat.id in F by lia. rewrite H1 in F. cbn [negb orb] in F.
  change (0 =? 0) with true in F. cbn [negb orb] in F.
  apply Z.eqb_eq. apply F. apply in_seq. lia.
Qed.

Lemma file_bytes_raw g t attr state body :
  file_bytes g t attr state body =
  raw_file_bytes g ((0 - (sum_list g + t + attr + sum_list (le_enc 3 (24 + zlen body)))) mod 256)
                 (if attr_checksum attr then (0 - sum_list body) mod 256 else 170) t attr state body.
Proof. reflexivity. Qed.

Lemma checksum_and_assemble_id h g t attr state data :
  zlen g = 16 -> 0 <= attr < 256 -> Z.land attr 1 = 0 -> 24 + zlen data < 16777215 ->
  f_guid h = g -> f_type h = t -> f_state h = state ->
  f_ckh h = (0 - (sum_list g + t + attr + sum_list (le_enc 3 (24 + zlen data)))) mod 256 ->
  snd (checksum_and_assemble h (24 + zlen data) attr data) = file_bytes g t attr state data /\
  f_attr (fst (checksum_and_assemble h (24 + zlen data) attr data)) = attr.
Proof.
  intros Lg Ha Hl Hn Eg Et Es Eh. pose proof (zlen_nonneg data).
  unfold checksum_and_assemble. cbn [fst snd f_attr]. split; [|reflexivity].
  unfold attr_large. rewrite Hl. change (negb (0 =? 0)) with false. cbv iota.
  unfold write3. replace (16777215 <=? 24 + zlen data) with false by lia.
  rewrite Eg, Et, Es.
  set (sz := le_enc 3 (24 + zlen data)).
  assert (F24 : zfirstn 24 (file_header_bytes g (f_ckh h) (f_ckf h) t attr (24 + zlen data) state (24 + zlen data) true)
                = g ++ [f_ckh h; f_ckf h; t; attr] ++ sz ++ [state]).
  { unfold file_header_bytes. fold sz.
    replace (g ++ [f_ckh h; f_ckf h; t; attr] ++ sz ++ [state] ++ le_enc 8 (24 + zlen data))
      with ((g ++ [f_ckh h; f_ckf h; t; attr] ++ sz ++ [state]) ++ le_enc 8 (24 + zlen data))
      by (rewrite <- !app_assoc; reflexivity).
    assert (L : zlen (g ++ [f_ckh h; f_ckf h; t; attr] ++ sz ++ [state]) = 24).
    { rewrite !zlen_app, Lg. unfold sz. rewrite le3. reflexivity. }
    rewrite <- L. apply zfirstn_app_exact. }
  rewrite F24. unfold sum8. rewrite !sum_list_app.
  change (sum_list [f_ckh h; f_ckf h; t; attr]) with (f_ckh h + (f_ckf h + (t + (attr + 0)))).
  change (sum_list [state]) with (state + 0).
  set (S := sum_list g + t + attr + sum_list sz).
  replace (sum_list g + (f_ckh h + (f_ckf h + (t + (attr + 0))) + (sum_list sz + (state + 0))))
    with (S + f_ckh h + f_ckf h + state) by (unfold S; lia).
  rewrite (ck_fix S (f_ckh h) (f_ckf h) state) by (rewrite Eh; reflexivity).
  unfold file_bytes, file_header_bytes. fold sz. rewrite Eh. fold S.
  rewrite app_nil_r.
  replace ((0 - sum_list data mod 256) mod 256) with ((0 - sum_list data) mod 256).
  - rewrite <- !app_assoc. reflexivity.
  - rewrite (Zminus_mod 0 (sum_list data mod 256)), Z.mod_mod by lia. rewrite <- Zminus_mod. reflexivity.
Qed.

Lemma zlen_lay_ge l : Forall (fun s => 4 <= zlen s) l -> 4 * Z.of_nat (length l) <= zlen (lay l).
Proof.
  induction 1 as [|s r Hs Hr IH]; [cbn; unfold zlen; cbn; lia|].
  cbn [lay length]. rewrite zlen_app. destruct r as [|s2 r2].
  - cbn [length] in *. change (zlen (@nil Z)) with 0. lia.
  - rewrite zlen_app.
    match goal with |- _ <= _ + (zlen ?p + _) => pose proof (zlen_nonneg p) end. lia.
Qed.

Lemma bytes_ok_lay l : Forall (fun s => bytes_ok s = true) l -> bytes_ok (lay l) = true.
Proof.
  induction 1 as [|s r Hs Hr IH]; [reflexivity|].
  cbn [lay]. rewrite bytes_ok_app, Hs. destruct r as [|s2 r2]; [reflexivity|].
  rewrite bytes_ok_app, IH, andb_true_r. cbn [andb].
  unfold zrepeat. generalize (Z.to_nat (align4 (zlen s) - zlen s)). intros k.
  induction k; cbn; auto.
Qed.

(* ---------- R8: files rebuilt from their sections ---------- *)

Lemma file_ok_sections g t attr state secs :
  zlen g = 16 -> bytes_ok g = true -> 0 <= t < 256 -> 0 <= attr < 256 -> 0 <= state < 256 ->
  Z.land attr 1 = 0 -> supported_file t = true -> secs <> [] -> Forall sec_ok secs ->
  24 + zlen (sections_bytes secs) < 16777215 ->
  file_ok (file_bytes g t attr state (sections_bytes secs)).
Proof.
  intros Lg Og Ht Ha Hs Hl Hsup Hne Hok Hn.
  rewrite sections_bytes_lay in *. set (body := lay secs) in *.
  pose proof (zlen_nonneg body) as Hbn.
  assert (Obody : bytes_ok body = true).
  { apply bytes_ok_lay. eapply Forall_impl; [|exact Hok]. intros a (O & _); exact O. }
  assert (Hnv : (t =? 1) && bytes_eqb g NVAR_GUID = false).
  { destruct (t =? 1) eqn:E; [|reflexivity]. apply Z.eqb_eq in E. subst t. discriminate. }
  rewrite file_bytes_raw.
  set (ckh := (0 - (sum_list g + t + attr + sum_list (le_enc 3 (24 + zlen body)))) mod 256).
  set (ckf := if attr_checksum attr then (0 - sum_list body) mod 256 else 170).
  assert (Hckh : 0 <= ckh < 256) by (apply Z.mod_pos_bound; lia).
  assert (Hckf : 0 <= ckf < 256) by (unfold ckf; destruct (attr_checksum attr); [apply Z.mod_pos_bound|]; lia).
  split; [apply bytes_ok_raw_file; auto|]. split; [rewrite zlen_raw_file by auto; lia|].
  destruct (Forall_sec_ok_at secs Hok) as (d1 & Hd1).
  exists (S d1). intros d Hd rest. destruct d as [|d]; [lia|].
  rewrite parse_file_S. rewrite file_body_start by auto. cbv zeta. rewrite Hsup. cbn [negb].
  (* the file buffer is a 24-byte header followed by the laid-out sections *)
  set (hdr := g ++ [ckh; ckf; t; attr] ++ le_enc 3 (24 + zlen body) ++ [state]).
  assert (Lh : zlen hdr = 24) by (unfold hdr; rewrite !zlen_app, Lg, le3; reflexivity).
  assert (Efb : raw_file_bytes g ckh ckf t attr state body = hdr ++ lay secs).
  { unfold raw_file_bytes, hdr. fold body. rewrite <- !app_assoc. reflexivity. }
  assert (Hfuel : (length secs < Z.to_nat (24 + zlen body) + 1)%nat).
  { assert (G : 4 * Z.of_nat (length secs) <= zlen (lay secs)).
    { apply zlen_lay_ge. eapply Forall_impl; [|exact Hok]. intros a (_ & L & _). lia. }
    fold body in G. lia. }
  destruct (sections_loop_lay d secs (Hd1 d ltac:(lia)) hdr (Z.to_nat (24 + zlen body) + 1)%nat 0)
    as (kids & El & kids' & Ek & Em); [rewrite Lh; reflexivity | exact Hfuel |].
  rewrite Lh in El. rewrite Efb. rewrite El. cbn [bind].
  destruct (raw_file_fields g ckh ckf t attr state body [] Lg ltac:(lia)) as (_ & _ & _ & _ & F19 & _).
  rewrite app_nil_r in F19. rewrite <- Efb.
  eexists; eexists. split; [reflexivity|]. cbn [f_ext f_attr]. rewrite zlen_raw_file by auto.
  split; [reflexivity|]. split; [symmetry; exact F19|].
  rewrite asm_NFile. rewrite Ek. cbn [bind]. unfold file_asm. cbn [f_nvar].
  destruct kids' as [|k0 kr] eqn:Ekids.
  { exfalso. cbn in Em. apply Hne. symmetry. exact Em. }
  rewrite <- Ekids in *. rewrite Em.
  replace (join4 [] secs) with body by (symmetry; apply sections_bytes_lay).
  destruct kids' as [|k0' kr']; [discriminate|].
  unfold set_size. replace (16777215 <=? 24 + zlen body) with false by lia.
  unfold set_large. cbn [f_attr]. rewrite byte_land_254 by auto.
  match goal with |- context [checksum_and_assemble ?h _ _ _] =>
    destruct (checksum_and_assemble_id h g t attr state body Lg Ha Hl Hn eq_refl eq_refl eq_refl eq_refl)
      as [E1 E2];
    destruct (checksum_and_assemble h (24 + zlen body) attr body) as [h' nb] eqn:G end.
  cbn [fst snd] in E1, E2. rewrite E1. rewrite file_bytes_raw. fold ckh ckf.
  replace (16777215 <? 24 + zlen body) with false by lia.
  eexists; eexists. split; [reflexivity|]. exact E2.
Qed.

End Save.
