(* Proofs/ApcbPropProofs.v — the statements of property C18, derived from the byte-level
   refinement (ApcbProofs) and the abstraction lemmas (ApcbDecProofs). *)
From Fiano Require Import Base.Bytes Base.BytesLemmas Gen.Consts Model.Apcb Proofs.ApcbProofs Proofs.ApcbDecProofs.
From Coq Require Import ZifyBool ZifyNat.
Open Scope Z_scope.

(* ---- abs ---- *)

Lemma abs_some b G : abs b = Some G ->
  exists s, dec_blob b = Some s /\ bl_groups s = G /\ enc_blob s = b /\ wf_blob s = true.
Proof.
  unfold abs. destruct (dec_blob b) as [s|] eqn:D; [|discriminate]. intros [= <-].
  destruct (enc_blob_dec b s D) as (E & W). exists s. auto.
Qed.

Lemma abs_enc s : wf_blob s = true -> abs (enc_blob s) = Some (bl_groups s).
Proof. intros W. unfold abs. rewrite dec_blob_enc by auto. reflexivity. Qed.

Lemma upsert_blob_groups k pm bm kind nv s : snd (upsert_blob k pm bm kind nv s) = 0 ->
  bl_groups (fst (upsert_blob k pm bm kind nv s)) = upsert_spec k pm bm kind nv (bl_groups s).
Proof.
  unfold upsert_blob.
  destruct (any_changes kind pm bm k (bl_groups s)); [reflexivity|].
  destruct (last_group_match_full kind pm bm (bl_groups s)) as [[|]|]; cbn [snd fst];
    try (intros; discriminate);
    (destruct (_ >? zlen (bl_slack s)); cbn [snd fst bl_groups]; [intros; discriminate|reflexivity]).
Qed.

Lemma upsert_blob_fail k pm bm kind nv s : snd (upsert_blob k pm bm kind nv s) <> 0 ->
  fst (upsert_blob k pm bm kind nv s) = s /\
  (snd (upsert_blob k pm bm kind nv s) = E_NOROOM \/ snd (upsert_blob k pm bm kind nv s) = E_TYPE_FULL).
Proof.
  unfold upsert_blob.
  destruct (any_changes kind pm bm k (bl_groups s)); [cbn [snd]; congruence|].
  destruct (last_group_match_full kind pm bm (bl_groups s)) as [[|]|]; cbn [snd fst];
    try (intros; split; [reflexivity|right; reflexivity]);
    (destruct (_ >? zlen (bl_slack s)); cbn [snd fst]; [intros; split; [reflexivity|left; reflexivity]|congruence]).
Qed.

(* the call, on every blob that has an abstraction *)
Theorem upsert_characterised k pm bm kind nv b G :
  abs b = Some G -> args_ok k pm bm kind nv -> zlen b + 40 < 2 ^ 32 ->
  exists s, dec_blob b = Some s /\ bl_groups s = G /\
    upsert k pm bm kind nv b =
      Ok (enc_blob (fst (upsert_blob k pm bm kind nv s)), snd (upsert_blob k pm bm kind nv s)) /\
    wf_blob (fst (upsert_blob k pm bm kind nv s)) = true.
Proof.
  intros A Ar Hbig. destruct (abs_some b G A) as (s & D & EG & E & W). exists s. repeat split; auto.
  - rewrite <- E at 1. apply upsert_enc; auto. rewrite E. exact Hbig.
  - apply upsert_blob_wf; auto. rewrite E. exact Hbig.
Qed.

Theorem upsert_refines k pm bm kind nv b G b' :
  abs b = Some G -> args_ok k pm bm kind nv -> zlen b + 40 < 2 ^ 32 ->
  upsert k pm bm kind nv b = Ok (b', 0) ->
  abs b' = Some (upsert_spec k pm bm kind nv G).
Proof.
  intros A Ar Hbig U. destruct (upsert_characterised k pm bm kind nv b G A Ar Hbig) as (s & D & EG & U' & W').
  rewrite U' in U. injection U as <- E0. rewrite abs_enc by auto. rewrite upsert_blob_groups by auto.
  rewrite EG. reflexivity.
Qed.

(* on a blob with an abstraction the call returns (never panics, never runs out of fuel); it
   fails only for lack of room or a full type, and then the buffer is as it was *)
Theorem upsert_total k pm bm kind nv b G :
  abs b = Some G -> args_ok k pm bm kind nv -> zlen b + 40 < 2 ^ 32 ->
  exists b' e, upsert k pm bm kind nv b = Ok (b', e) /\
    (e = 0 \/ (b' = b /\ (e = E_NOROOM \/ e = E_TYPE_FULL))).
Proof.
  intros A Ar Hbig. destruct (upsert_characterised k pm bm kind nv b G A Ar Hbig) as (s & D & EG & U' & W').
  destruct (abs_some b G A) as (s0 & D0 & _ & E & _). rewrite D in D0. injection D0 as <-.
  eexists. eexists. split; [exact U'|].
  destruct (Z.eq_dec (snd (upsert_blob k pm bm kind nv s)) 0) as [Z0|NZ]; [left; exact Z0|right].
  destruct (upsert_blob_fail k pm bm kind nv s NZ) as (F & C). rewrite F. auto.
Qed.

Theorem upsert_fail_unchanged k pm bm kind nv b G b' e :
  abs b = Some G -> args_ok k pm bm kind nv -> zlen b + 40 < 2 ^ 32 ->
  upsert k pm bm kind nv b = Ok (b', e) -> e <> 0 -> b' = b.
Proof.
  intros A Ar Hbig U NE. destruct (upsert_total k pm bm kind nv b G A Ar Hbig) as (b2 & e2 & U2 & C).
  rewrite U2 in U. injection U as <- <-. destruct C as [C|[C _]]; [congruence|exact C].
Qed.

Lemma spec_added k pm bm kind nv G : any_changes kind pm bm k G = false ->
  let d := groups_size (upsert_spec k pm bm kind nv G) - groups_size G in d = 8 \/ d = 24 \/ d = 40.
Proof.
  intros CH d. unfold d, upsert_spec. rewrite CH.
  destruct (existsb (gmatch kind pm bm) G) eqn:GM.
  - destruct (gmatch_split kind pm bm G GM) as (G1 & sg & vr & ex & T1 & t & T2 & G2 & -> & M & N & N2).
    rewrite ins_last_group_split by auto. left.
    rewrite !groups_size_app, !groups_size_cons. cbn [group_size].
    rewrite !types_size_app, !types_size_cons, ins_tok_size. lia.
  - rewrite ins_last_group_none by auto.
    destruct (existsb is_tok G) eqn:TK.
    + destruct (tok_split G TK) as (G1 & g & G2 & -> & T & F).
      destruct g as [sg vr ex tys|]; [|discriminate].
      rewrite add_type_last_split by auto. right; left.
      rewrite !groups_size_app, !groups_size_cons. cbn [group_size].
      rewrite !types_size_app, !types_size_cons. rewrite new_type_size_spec. change (types_size []) with 0. lia.
    + rewrite add_type_last_none by (apply no_tok_forallb; auto). right; right.
      rewrite groups_size_app, groups_size_cons. change (groups_size []) with 0. unfold new_group. cbn [group_size].
      rewrite types_size_cons, new_type_size_spec. change (types_size []) with 0. change (zlen (@nil Z)) with 0. lia.
Qed.

Lemma zlen_upsert_blob k pm bm kind nv s : wf_blob s = true -> args_ok k pm bm kind nv ->
  zlen (enc_blob s) + 40 < 2 ^ 32 ->
  zlen (enc_blob (fst (upsert_blob k pm bm kind nv s))) = zlen (enc_blob s).
Proof.
  intros W Ar Hbig. pose proof (upsert_blob_wf k pm bm kind nv s W Ar Hbig) as W'.
  rewrite !zlen_enc_blob by auto. destruct (blob_size_bounds s W) as (_ & _ & B3).
  unfold upsert_blob in *.
  destruct (any_changes kind pm bm k (bl_groups s)) eqn:CH; cbn [fst] in *.
  - unfold blob_size. cbn [bl_groups bl_slack]. unfold upsert_spec. rewrite CH, groups_size_upd. reflexivity.
  - destruct (match last_group_match_full kind pm bm (bl_groups s) with Some true => true | _ => false end);
      cbn [fst] in *; [reflexivity|].
    pose proof (spec_added k pm bm kind nv (bl_groups s) CH) as AD. cbn zeta in AD.
    destruct (_ >? zlen (bl_slack s)) eqn:R; cbn [fst] in *; [reflexivity|].
    unfold blob_size. cbn [bl_groups bl_slack].
    rewrite zlen_zskipn by (clear W W'; lia). clear W W'. lia.
Qed.

(* nested sizes consistent and within the buffer after a successful call *)
Theorem upsert_sizes_consistent k pm bm kind nv b G b' :
  abs b = Some G -> args_ok k pm bm kind nv -> zlen b + 40 < 2 ^ 32 ->
  upsert k pm bm kind nv b = Ok (b', 0) ->
  exists s', b' = enc_blob s' /\ wf_blob s' = true /\
    hdr_sizeof_apcb b' = 128 + groups_size (bl_groups s') /\
    hdr_sizeof_apcb b' + zlen (bl_slack s') = zlen b' /\ zlen b' = zlen b.
Proof.
  intros A Ar Hbig U. destruct (upsert_characterised k pm bm kind nv b G A Ar Hbig) as (s & D & EG & U' & W').
  destruct (abs_some b G A) as (s0 & D0 & _ & E & W). rewrite D in D0. injection D0 as <-.
  rewrite U' in U. injection U as <- E0.
  exists (fst (upsert_blob k pm bm kind nv s)). repeat split; auto.
  - pose proof (parse_header_enc _ W') as PH. apply parse_header_ok in PH as (_ & _ & _ & SZ & _).
    unfold hdr_sizeof_apcb, apcb_hdr_off_size. rewrite <- SZ. reflexivity.
  - pose proof (parse_header_enc _ W') as PH. apply parse_header_ok in PH as (_ & _ & _ & SZ & _).
    unfold hdr_sizeof_apcb, apcb_hdr_off_size. rewrite <- SZ. rewrite zlen_enc_blob by auto. reflexivity.
  - rewrite <- E. apply zlen_upsert_blob; auto. rewrite E. exact Hbig.
Qed.

(* updating an existing token always succeeds and changes neither the buffer length nor SizeOfAPCB *)
Theorem upsert_update_keeps_length k pm bm kind nv b G :
  abs b = Some G -> args_ok k pm bm kind nv -> zlen b + 40 < 2 ^ 32 ->
  any_changes kind pm bm k G = true ->
  exists b', upsert k pm bm kind nv b = Ok (b', 0) /\ zlen b' = zlen b /\
             hdr_sizeof_apcb b' = hdr_sizeof_apcb b.
Proof.
  intros A Ar Hbig CH. destruct (upsert_characterised k pm bm kind nv b G A Ar Hbig) as (s & D & EG & U' & W').
  destruct (abs_some b G A) as (s0 & D0 & _ & E & W). rewrite D in D0. injection D0 as <-.
  assert (E0 : snd (upsert_blob k pm bm kind nv s) = 0) by (unfold upsert_blob; rewrite EG, CH; reflexivity).
  rewrite E0 in U'. eexists. split; [exact U'|]. split.
  - rewrite <- E. apply zlen_upsert_blob; auto. rewrite E. exact Hbig.
  - pose proof (parse_header_enc _ W') as PH. apply parse_header_ok in PH as (_ & _ & _ & SZ & _).
    pose proof (parse_header_enc _ W) as PH0. apply parse_header_ok in PH0 as (_ & _ & _ & SZ0 & _).
    unfold hdr_sizeof_apcb, apcb_hdr_off_size. rewrite <- SZ. rewrite <- E. rewrite <- SZ0.
    unfold upsert_blob. rewrite EG, CH. cbn [fst]. unfold blob_size. cbn [bl_groups].
    unfold upsert_spec. rewrite CH, groups_size_upd, EG. reflexivity.
Qed.

(* the listing of the real parser is the listing of the abstraction *)
Theorem parse_abs b G : abs b = Some G -> parse_tokens b = show_all (all_tokens G).
Proof.
  intros A. destruct (abs_some b G A) as (s & D & EG & E & W). rewrite <- E, <- EG. apply parse_tokens_enc; auto.
Qed.

(* ---- what the listing shows after the call: stated on the abstraction ---- *)

(* the tokens the request speaks of: same id, under a type entry of the requested kind whose masks
   both intersect the requested masks *)
Definition affected (kind pm bm k : Z) (t : token) : bool :=
  (tk_id t =? k) && ((tk_kind t =? kind) && negb (Z.land (tk_board t) bm =? 0) && negb (Z.land (tk_prio t) pm =? 0)).

Definition set_val (nv : Z) (t : token) : token := mkToken (tk_id t) (tk_prio t) (tk_board t) (tk_kind t) nv.

Lemma all_tokens_app a b : all_tokens (a ++ b) = all_tokens a ++ all_tokens b.
Proof. unfold all_tokens. rewrite map_app, concat_app. reflexivity. Qed.

Lemma all_tokens_cons g l : all_tokens (g :: l) = group_tokens g ++ all_tokens l.
Proof. reflexivity. Qed.

Lemma type_tokens_upd kind pm bm k nv t :
  type_tokens (upd_type kind pm bm k nv t) =
  map (fun x => if affected kind pm bm k x then set_val nv x else x) (type_tokens t).
Proof.
  unfold upd_type, type_tokens, ty_matches. 
  destruct ((ty_kind t =? kind) && negb (Z.land (ty_board t) bm =? 0) && negb (Z.land (ty_prio t) pm =? 0)) eqn:M.
  - cbn [ty_toks]. unfold ty_kind, ty_prio, ty_board in *. cbn [ty_h1 ty_h2]. unfold upd_toks. rewrite !map_map.
    apply map_ext. intros p. unfold affected, set_val. cbn [tk_id tk_kind tk_board tk_prio tk_val]. rewrite M, andb_true_r.
    destruct (fst p =? k); reflexivity.
  - rewrite map_map. apply map_ext. intros p. unfold affected. cbn [tk_id tk_kind tk_board tk_prio tk_val].
    rewrite M, andb_false_r. reflexivity.
Qed.

Lemma all_tokens_upd kind pm bm k nv G :
  all_tokens (map (upd_group kind pm bm k nv) G) =
  map (fun x => if affected kind pm bm k x then set_val nv x else x) (all_tokens G).
Proof.
  induction G as [|g r IH]; [reflexivity|].
  cbn [map]. rewrite !all_tokens_cons, map_app, IH. f_equal.
  destruct g as [sg vr ex tys|]; [|reflexivity]. cbn [upd_group group_tokens].
  induction tys as [|t l IHl]; [reflexivity|].
  cbn [map concat]. rewrite map_app, IHl, type_tokens_upd. reflexivity.
Qed.

Lemma any_changes_affected kind pm bm k G :
  any_changes kind pm bm k G = existsb (affected kind pm bm k) (all_tokens G).
Proof.
  induction G as [|g r IH]; [reflexivity|].
  rewrite all_tokens_cons, existsb_app. cbn [any_changes existsb]. fold (any_changes kind pm bm k r). rewrite IH. f_equal.
  destruct g as [sg vr ex tys|]; [|reflexivity]. cbn [group_changes group_tokens].
  induction tys as [|t l IHl]; [reflexivity|].
  cbn [existsb map concat]. rewrite existsb_app, IHl. f_equal.
  unfold type_changes, type_tokens, has_tok, ty_matches.
  destruct ((ty_kind t =? kind) && negb (Z.land (ty_board t) bm =? 0) && negb (Z.land (ty_prio t) pm =? 0)) eqn:M.
  - cbn [andb]. induction (ty_toks t) as [|p q IHq]; [reflexivity|]. cbn [existsb map]. rewrite IHq. f_equal.
    unfold affected. cbn [tk_id tk_kind tk_board tk_prio]. rewrite M, andb_true_r. reflexivity.
  - cbn [andb]. induction (ty_toks t) as [|p q IHq]; [reflexivity|]. cbn [existsb map]. rewrite <- IHq.
    unfold affected. cbn [tk_id tk_kind tk_board tk_prio]. rewrite M, andb_false_r. reflexivity.
Qed.

Lemma new_type_fields kind pm bm k nv : args_ok k pm bm kind nv ->
  ty_kind (new_type kind pm bm k nv) = kind /\ ty_prio (new_type kind pm bm k nv) = pm /\
  ty_board (new_type kind pm bm k nv) = bm.
Proof.
  intros (K & Hk & Hnv & Hpm & Hbm). apply kind_ok_spec in K.
  unfold ty_kind, ty_prio, ty_board, new_type. cbn [ty_h1 ty_h2]. repeat split.
  - rewrite (rd_app_skip _ _ 2 2 2) by (try apply le2; lia). simpl Z.sub. apply rd_le_enc. pw. lia.
  - rewrite (rd_app_skip _ _ 5 1 2) by (try apply le2; lia). simpl Z.sub.
    rewrite rd_app_l by (unfold zlen; cbn [length]; lia). unfold rd, sub, zskipn, zfirstn.
    change (Z.to_nat 3) with 3%nat. change (Z.to_nat (Z.of_nat 1)) with 1%nat. cbn [skipn firstn le_dec]. lia.
  - rewrite (rd_app_skip _ _ 8 2 2) by (try apply le2; lia). simpl Z.sub.
    rewrite (rd_app_skip [2; 1; 8; pm; 4; 0] _ 6 2 6) by (try reflexivity; lia). simpl Z.sub.
    apply rd_le_enc. pw. lia.
Qed.

Lemma type_tokens_ins k nv t :
  type_tokens (ins_tok k nv t) =
    firstn (ins_pos k (ty_toks t)) (type_tokens t) ++
    mkToken k (ty_prio t) (ty_board t) (ty_kind t) nv :: skipn (ins_pos k (ty_toks t)) (type_tokens t).
Proof.
  unfold type_tokens, ins_tok. cbn [ty_toks]. unfold ty_prio, ty_board, ty_kind. cbn [ty_h1 ty_h2].
  rewrite map_app. cbn [map fst snd]. rewrite firstn_map, skipn_map. reflexivity.
Qed.

(* Every other token keeps its id, value and masks, in the same order.
   Either the token existed (in one or several matching types): exactly the affected tokens get
   the new value; or it did not: exactly one token is added, under masks that both intersect the
   request (or are the requested masks themselves, when a new type had to be created). *)
Theorem upsert_others_unchanged k pm bm kind nv G : args_ok k pm bm kind nv ->
  let G' := upsert_spec k pm bm kind nv G in
  (any_changes kind pm bm k G = true /\
   all_tokens G' = map (fun x => if affected kind pm bm k x then set_val nv x else x) (all_tokens G))
  \/
  (any_changes kind pm bm k G = false /\
   exists l1 l2 p bd, all_tokens G = l1 ++ l2 /\ all_tokens G' = l1 ++ mkToken k p bd kind nv :: l2 /\
     ((Z.land bd bm <> 0 /\ Z.land p pm <> 0) \/ (p = pm /\ bd = bm))).
Proof.
  intros Ar G'. unfold G', upsert_spec.
  destruct (any_changes kind pm bm k G) eqn:CH.
  - left. split; [reflexivity|]. apply all_tokens_upd.
  - right. split; [reflexivity|].
    destruct (new_type_fields kind pm bm k nv Ar) as (NK & NP & NB).
    destruct (existsb (gmatch kind pm bm) G) eqn:GM.
    + destruct (gmatch_split kind pm bm G GM) as (G1 & sg & vr & ex & T1 & t & T2 & G2 & -> & M & N & N2).
      rewrite ins_last_group_split by auto.
      unfold ty_matches in M. apply andb_true_iff in M as [M M3]. apply andb_true_iff in M as [M1 M2].
      set (p := ins_pos k (ty_toks t)).
      exists (all_tokens G1 ++ concat (map type_tokens T1) ++ firstn p (type_tokens t)),
             (skipn p (type_tokens t) ++ concat (map type_tokens T2) ++ all_tokens G2),
             (ty_prio t), (ty_board t).
      split; [|split].
      * rewrite all_tokens_app, all_tokens_cons. cbn [group_tokens]. rewrite map_app, concat_app. cbn [map concat].
        rewrite <- (firstn_skipn p (type_tokens t)) at 1. rewrite <- !app_assoc. reflexivity.
      * rewrite all_tokens_app, all_tokens_cons. cbn [group_tokens]. rewrite map_app, concat_app. cbn [map concat].
        rewrite type_tokens_ins. fold p. replace (ty_kind t) with kind by lia. rewrite <- !app_assoc. reflexivity.
      * left. lia.
    + rewrite ins_last_group_none by auto.
      destruct (existsb is_tok G) eqn:TK.
      * destruct (tok_split G TK) as (G1 & g & G2 & -> & T & F).
        destruct g as [sg vr ex tys|]; [|discriminate].
        rewrite add_type_last_split by auto.
        exists (all_tokens G1 ++ concat (map type_tokens tys)), (all_tokens G2), pm, bm.
        split; [|split].
        -- rewrite all_tokens_app, all_tokens_cons. cbn [group_tokens]. rewrite <- !app_assoc. reflexivity.
        -- rewrite all_tokens_app, all_tokens_cons. cbn [group_tokens]. rewrite map_app, concat_app. cbn [map concat].
           unfold type_tokens at 2. rewrite NK, NP, NB. cbn [new_type ty_toks map fst snd app].
           rewrite <- !app_assoc. reflexivity.
        -- right. auto.
      * rewrite add_type_last_none by (apply no_tok_forallb; auto).
        exists (all_tokens G), [], pm, bm. split; [|split].
        -- rewrite app_nil_r. reflexivity.
        -- rewrite all_tokens_app. f_equal. unfold all_tokens, new_group. cbn [map concat group_tokens].
           unfold type_tokens. rewrite NK, NP, NB. reflexivity.
        -- right. auto.
Qed.

(* after a successful call the token is there with the new value, under masks as requested *)
Theorem upsert_sets_token k pm bm kind nv G : args_ok k pm bm kind nv ->
  exists p bd, In (mkToken k p bd kind nv) (all_tokens (upsert_spec k pm bm kind nv G)) /\
    ((Z.land bd bm <> 0 /\ Z.land p pm <> 0) \/ (p = pm /\ bd = bm)).
Proof.
  intros Ar. destruct (upsert_others_unchanged k pm bm kind nv G Ar) as [(CH & E)|(CH & l1 & l2 & p & bd & E1 & E2 & M)].
  - rewrite any_changes_affected in CH. apply existsb_exists in CH as (t & I & A).
    exists (tk_prio t), (tk_board t). split.
    + cbv zeta in E. rewrite E. apply in_map_iff. exists t. split; auto. rewrite A.
      unfold affected in A. unfold set_val. f_equal; lia.
    + left. unfold affected in A. lia.
  - exists p, bd. split; auto. cbv zeta in E2. rewrite E2. apply in_or_app. right. left. reflexivity.
Qed.

(* and every token the request speaks of carries the new value *)
Theorem upsert_all_affected_set k pm bm kind nv G : args_ok k pm bm kind nv ->
  forall t, In t (all_tokens (upsert_spec k pm bm kind nv G)) -> affected kind pm bm k t = true ->
  any_changes kind pm bm k G = true -> tk_val t = nv.
Proof.
  intros Ar t I A CH.
  destruct (upsert_others_unchanged k pm bm kind nv G Ar) as [(_ & E)|(CH' & _)]; [|congruence].
  cbv zeta in E. rewrite E in I. apply in_map_iff in I as (x & <- & Ix).
  destruct (affected kind pm bm k x) eqn:Ax; [reflexivity|]. rewrite Ax in A. discriminate.
Qed.

(* ---- no room: the caller's buffer is as it was, for every buffer ---- *)

Lemma write_fixed_code off avail d buf :
  snd (write_fixed off avail d buf) = 0 \/ snd (write_fixed off avail d buf) = E_WRITE.
Proof. unfold write_fixed. destruct (zlen d <=? avail); cbn [snd]; auto. Qed.

Lemma write_chunks_code chunks : forall off avail buf,
  snd (write_chunks off avail chunks buf) = 0 \/ snd (write_chunks off avail chunks buf) = E_WRITE.
Proof.
  induction chunks as [|d r IH]; intros off avail buf; cbn [write_chunks snd]; auto.
  pose proof (write_fixed_code off avail d buf) as C.
  destruct (write_fixed off avail d buf) as [b1 e]. cbn [snd] in C.
  destruct (negb (e =? 0)) eqn:E; cbn [snd]; [destruct C; auto|]. apply IH.
Qed.

Lemma scan_pairs_mono n : forall i tb tl k nv st st' e,
  scan_pairs n i tb tl k nv st = Ok (st', e) ->
  (s_changed st = true -> s_changed st' = true) /\ e <> E_NOROOM /\
  (e = 0 -> s_changed st' = false -> s_buf st' = s_buf st).
Proof.
  induction n as [|n IH]; intros i tb tl k nv st st' e H.
  - cbn [scan_pairs] in H. injection H as <- <-. repeat split; auto. discriminate.
  - cbn [scan_pairs] in H.
    set (st1 := if rd (tb + i * PS + apcb_pair_off_id) 4 (s_buf st) <=? k
                then mkS (s_buf st) (s_mg st) (s_mt st) (u32 (i * PS + PS)) (s_changed st) else st) in *.
    assert (E1 : s_buf st1 = s_buf st /\ s_changed st1 = s_changed st) by (unfold st1; destruct (_ <=? k); auto).
    destruct E1 as (Eb & Ec).
    destruct (negb (rd (tb + i * PS + apcb_pair_off_id) 4 (s_buf st) =? k)).
    + apply IH in H as (M & NE & U). rewrite Eb, Ec in *. auto.
    + destruct (i * PS >? tl); [discriminate|].
      pose proof (write_fixed_code (tb + i * PS) (tl - i * PS)
                    (le_enc 4 (rd (tb + i * PS + apcb_pair_off_id) 4 (s_buf st)) ++ le_enc 4 nv) (s_buf st1)) as C.
      destruct (write_fixed _ _ _ (s_buf st1)) as [buf1 e1]. cbn [snd] in C.
      destruct (negb (e1 =? 0)) eqn:E.
      * injection H as <- <-. cbn [s_changed s_buf]. rewrite Ec. repeat split; auto.
        -- destruct C as [C|C]; rewrite C; discriminate.
        -- intros Z0. rewrite Z0 in E. discriminate.
      * apply IH in H as (M & NE & U). cbn [s_changed] in M. repeat split; auto.
        intros Z0 F. rewrite M in F by reflexivity. discriminate.
Qed.

Lemma scan_types_mono fuel : forall gb gl off kind pm bm k nv gh goff st st' e,
  scan_types fuel gb gl off kind pm bm k nv gh goff st = Ok (st', e) ->
  (s_changed st = true -> s_changed st' = true) /\ e <> E_NOROOM /\
  (e = 0 -> s_changed st' = false -> s_buf st' = s_buf st).
Proof.
  induction fuel as [|f IH]; intros gb gl off kind pm bm k nv gh goff st st' e H; [discriminate|].
  cbn [scan_types] in H.
  destruct (gl - off <=? 0); [injection H as <- <-; repeat split; auto; discriminate|].
  destruct (gl - off <? TS); [injection H as <- <-; repeat split; auto; discriminate|].
  set (th := sub (gb + off) TS (s_buf st)) in *.
  destruct (typ_sizeof th <? TS); [injection H as <- <-; repeat split; auto; discriminate|].
  destruct (typ_sizeof th >? gl - off); [injection H as <- <-; repeat split; auto; discriminate|].
  destruct (negb (type_matches kind pm bm th)).
  - cbn [Z.eqb negb] in H. apply IH in H. exact H.
  - destruct (negb ((0 <=? off + TS) && (off + TS <=? off + typ_sizeof th) && (off + typ_sizeof th <=? gl)));
      [discriminate|].
    destruct (negb ((typ_sizeof th - TS) mod PS =? 0)).
    + cbn [Z.eqb negb] in H. injection H as <- <-. cbn [s_changed s_buf]. repeat split; auto; discriminate.
    + destruct (scan_pairs _ 0 _ _ k nv _) as [[st1 e1]| | |] eqn:SP; try discriminate.
      apply scan_pairs_mono in SP as (M1 & NE1 & U1). cbn [s_changed s_buf] in *.
      destruct (negb (e1 =? 0)) eqn:E.
      * injection H as <- <-. repeat split; auto; try (intros Z0; rewrite Z0 in E; discriminate).
      * apply IH in H as (M & NE & U). repeat split; auto.
        intros Z0 F. rewrite U by auto. apply U1; [lia|].
        destruct (s_changed st1) eqn:C1; auto. rewrite M in F by reflexivity. discriminate.
Qed.

Lemma scan_groups_mono fuel : forall tf size off kind pm bm k nv st st' e,
  scan_groups fuel tf size off kind pm bm k nv st = Ok (st', e) ->
  (s_changed st = true -> s_changed st' = true) /\ e <> E_NOROOM /\
  (e = 0 -> s_changed st' = false -> s_buf st' = s_buf st).
Proof.
  induction fuel as [|f IH]; intros tf size off kind pm bm k nv st st' e H; [discriminate|].
  cbn [scan_groups] in H.
  destruct (size - HS - off <=? 0); [injection H as <- <-; repeat split; auto; discriminate|].
  destruct (size - HS - off <? GS); [injection H as <- <-; repeat split; auto; discriminate|].
  set (gh := sub (HS + off) GS (s_buf st)) in *.
  destruct (grp_sizeof gh <? GS); [injection H as <- <-; repeat split; auto; discriminate|].
  destruct (grp_sizeof gh >? size - HS - off); [injection H as <- <-; repeat split; auto; discriminate|].
  destruct (grp_id gh =? apcb_tokens_group_id).
  - destruct ((grp_hsize gh <? GS) || (grp_hsize gh >? grp_sizeof gh));
      [injection H as <- <-; repeat split; auto; discriminate|].
    set (st0 := match s_mt st with
                | None => mkS (s_buf st) (Some (gh, off)) (s_mt st) (s_tok st) (s_changed st)
                | Some _ => st end) in *.
    assert (E0 : s_buf st0 = s_buf st /\ s_changed st0 = s_changed st) by (unfold st0; destruct (s_mt st); auto).
    destruct E0 as (Eb & Ec).
    destruct (negb _); [discriminate|].
    destruct (scan_types tf _ _ 0 kind pm bm k nv gh off st0) as [[st1 e1]| | |] eqn:ST; try discriminate.
    apply scan_types_mono in ST as (M1 & NE1 & U1). rewrite Eb, Ec in *.
    destruct (negb (e1 =? 0)) eqn:E.
    + injection H as <- <-. repeat split; auto; try (intros Z0; rewrite Z0 in E; discriminate).
    + apply IH in H as (M & NE & U). repeat split; auto.
      intros Z0 F. rewrite U by auto. apply U1; [lia|].
      destruct (s_changed st1) eqn:C1; auto. rewrite M in F by reflexivity. discriminate.
  - cbn [Z.eqb negb] in H. apply IH in H. exact H.
Qed.

Ltac nr_step H :=
  match type of H with
  | Panic _ = Ok _ => discriminate H
  | Err _ = Ok _ => discriminate H
  | Fuel = Ok _ => discriminate H
  | Ok (_, ?c) = Ok (_, E_NOROOM) =>
      first [ discriminate H
            | (injection H as H; subst; reflexivity)
            | (injection H as H ?; subst; reflexivity) ]
  | context [write_chunks ?a ?b ?c ?d] =>
      let C := fresh "C" in
      pose proof (write_chunks_code c a b d) as C;
      destruct (write_chunks a b c d) as [? ?]; cbn [snd] in C
  | context [write_fixed ?a ?b ?c ?d] =>
      let C := fresh "C" in
      pose proof (write_fixed_code a b c d) as C;
      destruct (write_fixed a b c d) as [? ?]; cbn [snd] in C
  | context [if ?c then _ else _] => destruct c eqn:?
  | context [match ?x with _ => _ end] => destruct x eqn:?
  end.

Lemma upsert_insert_noroom k pm bm kind nv size hdr st b' :
  upsert_insert k pm bm kind nv size hdr st = Ok (b', E_NOROOM) -> b' = s_buf st.
Proof.
  unfold upsert_insert. intros H.
  destruct (s_mt st) as [[th to]|]; destruct (s_mg st) as [[gh go]|];
    repeat (nr_step H);
    try (match goal with C : _ = 0 \/ _ = E_WRITE |- _ => destruct C; subst; try discriminate end).
  all: try (unfold E_WRITE, E_NOROOM in *; repeat match goal with
        | C : ?z = 0 \/ ?z = 20 |- _ => destruct C; subst
        | H : Ok (_, _) = Ok (_, 19) |- _ => try discriminate H; injection H as ? ?; subst
        end; try discriminate; try lia; try reflexivity).
Qed.

(* for every buffer whatsoever: if the call reports "no room", the buffer is untouched *)
Theorem upsert_noroom_unchanged k pm bm kind nv b b' :
  upsert k pm bm kind nv b = Ok (b', E_NOROOM) -> b' = b.
Proof.
  unfold upsert. intros H.
  destruct (negb (kind_ok kind)); [discriminate H|].
  destruct (parse_header b) as [size|e| |]; try discriminate H.
  2:{ injection H as <- _. reflexivity. }
  destruct (scan_groups _ _ size 0 kind pm bm k nv _) as [[st e]| | |] eqn:SG; try discriminate H.
  apply scan_groups_mono in SG as (_ & NE & U). cbn [s_buf s_changed] in *.
  destruct (negb (e =? 0)) eqn:E.
  - injection H as _ Ee. congruence.
  - destruct (s_changed st) eqn:CH; [discriminate H|].
    apply upsert_insert_noroom in H. rewrite H. apply U; [lia|reflexivity].
Qed.

(* ---- the insert position is the sorted one ---- *)

Fixpoint ascending (l : list (Z * Z)) : bool :=
  match l with
  | [] => true
  | p :: r => (match r with [] => true | q :: _ => fst p <? fst q end) && ascending r
  end.

Fixpoint sorted_ins (k nv : Z) (l : list (Z * Z)) : list (Z * Z) :=
  match l with
  | [] => [(k, nv)]
  | p :: r => if fst p <? k then p :: sorted_ins k nv r else (k, nv) :: p :: r
  end.

Fixpoint last_le (k : Z) (l : list (Z * Z)) : option nat :=
  match l with
  | [] => None
  | p :: r =>
    match last_le k r with
    | Some j => Some (S j)
    | None => if fst p <=? k then Some O else None
    end
  end.

Lemma ins_pos_from_last_le k l : forall i acc,
  ins_pos_from k l i acc = match last_le k l with Some j => (i + S j)%nat | None => acc end.
Proof.
  induction l as [|p r IH]; intros i acc; [reflexivity|].
  cbn [ins_pos_from last_le]. rewrite IH. destruct (last_le k r) as [j|]; [lia|].
  destruct (fst p <=? k); lia.
Qed.

Lemma ascending_above k p r : ascending (p :: r) = true -> k < fst p -> last_le k r = None.
Proof.
  revert p; induction r as [|q r IH]; intros p A H; [reflexivity|].
  cbn [ascending] in A. apply andb_true_iff in A as [A1 A2].
  cbn [last_le]. rewrite (IH q) by (auto; lia). replace (fst q <=? k) with false by lia. reflexivity.
Qed.

Lemma ins_is_sorted_ins k nv l : ascending l = true -> has_tok k l = false ->
  firstn (ins_pos k l) l ++ (k, nv) :: skipn (ins_pos k l) l = sorted_ins k nv l.
Proof.
  unfold ins_pos. induction l as [|p r IH]; intros A N; [reflexivity|].
  cbn [has_tok existsb] in N. apply orb_false_iff in N as [N1 N2].
  assert (Ar : ascending r = true) by (cbn [ascending] in A; apply andb_true_iff in A as [_ A]; exact A).
  rewrite ins_pos_from_last_le in *. cbn [last_le sorted_ins].
  destruct (fst p <? k) eqn:Lt.
  - specialize (IH Ar N2).
    destruct (last_le k r) as [j|].
    + cbn [Nat.add firstn skipn app] in *. rewrite IH. reflexivity.
    + replace (fst p <=? k) with true by lia. cbn [Nat.add firstn skipn app] in *. rewrite IH. reflexivity.
  - rewrite (ascending_above k p r A) by lia. replace (fst p <=? k) with false by lia. reflexivity.
Qed.

Lemma sorted_ins_ascending k nv l : ascending l = true -> has_tok k l = false ->
  ascending (sorted_ins k nv l) = true.
Proof.
  induction l as [|p r IH]; intros A N; [reflexivity|].
  cbn [has_tok existsb] in N. apply orb_false_iff in N as [N1 N2].
  cbn [ascending] in A. apply andb_true_iff in A as [A1 A2].
  cbn [sorted_ins]. destruct (fst p <? k) eqn:Lt.
  - specialize (IH A2 N2). cbn [ascending]. rewrite IH, andb_true_r.
    destruct r as [|q r']; cbn [sorted_ins fst]; [lia|].
    destruct (fst q <? k); cbn [fst]; lia.
  - cbn [ascending fst]. rewrite A2, andb_true_r. destruct r as [|q r']; lia.
Qed.

(* a new token goes to the sorted position of an ascending type, which stays ascending *)
Theorem ins_tok_ascending k nv t : ascending (ty_toks t) = true -> has_tok k (ty_toks t) = false ->
  ty_toks (ins_tok k nv t) = sorted_ins k nv (ty_toks t) /\ ascending (ty_toks (ins_tok k nv t)) = true.
Proof.
  intros A N. unfold ins_tok. cbn [ty_toks]. rewrite ins_is_sorted_ins by auto.
  split; [reflexivity|]. apply sorted_ins_ascending; auto.
Qed.

(* ---- sequences of upserts on one buffer (quantifier of C18: 'all sequences of upserts') ---- *)
From Coq Require Import List.
Import ListNotations.


(* a request: token id, priority mask, board mask, kind, value *)
Definition request : Type := (Z * Z * Z * Z * Z)%type.
Definition request_ok (q : request) : Prop :=
  let '(k, pm, bm, kind, nv) := q in args_ok k pm bm kind nv.

(* the calls one after the other on the caller's buffer, whatever each of them returns; the result is the
   buffer after the last call and, per call, whether it reported success *)
Fixpoint upsert_seq (qs : list request) (b : bytes) : outcome (bytes * list bool) :=
  match qs with
  | [] => Ok (b, [])
  | (k, pm, bm, kind, nv) :: r =>
    match upsert k pm bm kind nv b with
    | Ok (b1, e) =>
      match upsert_seq r b1 with
      | Ok (b', oks) => Ok (b', (e =? 0) :: oks)
      | Err x => Err x | Panic x => Panic x | Fuel => Fuel
      end
    | Err x => Err x | Panic x => Panic x | Fuel => Fuel
    end
  end.

(* the intended effect of the calls that reported success, in order *)
Fixpoint spec_seq (qs : list request) (oks : list bool) (G : list group) : list group :=
  match qs, oks with
  | (k, pm, bm, kind, nv) :: r, ok :: oks' =>
    spec_seq r oks' (if ok then upsert_spec k pm bm kind nv G else G)
  | _, _ => G
  end.

Theorem upsert_seq_refines : forall qs b G,
  abs b = Some G -> Forall request_ok qs -> zlen b + 40 < 2 ^ 32 ->
  exists b' oks, upsert_seq qs b = Ok (b', oks) /\ length oks = length qs /\
    abs b' = Some (spec_seq qs oks G) /\ zlen b' = zlen b.
Proof.
  induction qs as [|q r IH]; intros b G A F Hbig.
  - exists b, []. cbn. auto.
  - destruct q as [[[[k pm] bm] kind] nv]. inversion F as [|? ? Hq Fr]; subst. cbn in Hq.
    destruct (upsert_total k pm bm kind nv b G A Hq Hbig) as (b1 & e & U & Hcase).
    cbn [upsert_seq]. rewrite U.
    destruct Hcase as [-> | (-> & He)].
    + pose proof (upsert_refines k pm bm kind nv b G b1 A Hq Hbig U) as A1.
      destruct (upsert_sizes_consistent k pm bm kind nv b G b1 A Hq Hbig U) as (_ & _ & _ & _ & _ & L).
      assert (Hbig1 : zlen b1 + 40 < 2 ^ 32) by (rewrite L; exact Hbig).
      destruct (IH b1 _ A1 Fr Hbig1) as (b' & oks & S & Ln & A' & L').
      rewrite S. exists b', (true :: oks). cbn. repeat split; auto; try congruence.
    + destruct (IH b G A Fr Hbig) as (b' & oks & S & Ln & A' & L').
      rewrite S. assert (e =? 0 = false) as -> by (destruct He as [-> | ->]; reflexivity).
      exists b', (false :: oks). cbn. repeat split; auto.
Qed.
