(* Proofs/FfsParseProofs.v — lemmas about the parsing half of Model/Ffs.v
   (properties C04: the tree is a faithful partition; C05: parsing is total).

   Structure: helper facts on [rd]/[sub]/[align]; then, for each one-level body of the model
   ([section_body], [file_body], [fv_body], the loops [sections_loop]/[files_loop]) a lemma that is
   generic in the abstracted recursive calls; then the lift to [parse_section]/[parse_file]/
   [parse_fv] by induction on the depth fuel, and [parse_bios]/[parse_region]. *)
From Fiano Require Import Base.Bytes Base.BytesLemmas Model.Ffs.
From Coq Require Import ZifyBool ZifyNat.
Open Scope Z_scope.

(* ------------------------------------------------------------------ *)
(* helpers                                                            *)
(* ------------------------------------------------------------------ *)

Lemma align4_bounds x : x <= align4 x < x + 4.
Proof. unfold align4, align. Z.div_mod_to_equations. lia. Qed.

Lemma align8_bounds x : x <= align8 x < x + 8.
Proof. unfold align8, align. Z.div_mod_to_equations. lia. Qed.

Lemma align4_mod x : align4 x mod 4 = 0.
Proof. unfold align4, align. apply Z_mod_mult. Qed.

Lemma align8_mod x : align8 x mod 8 = 0.
Proof. unfold align8, align. apply Z_mod_mult. Qed.

Lemma zskipn_0 {A} (l : list A) : zskipn 0 l = l.
Proof. reflexivity. Qed.

Lemma zlen_zskipn_gen {A} n (l : list A) : 0 <= n -> zlen (zskipn n l) = Z.max 0 (zlen l - n).
Proof. intros. unfold zlen, zskipn. rewrite skipn_length. lia. Qed.

Lemma zlen_zfirstn_gen {A} n (l : list A) : zlen (zfirstn n l) = Z.min (Z.max 0 n) (zlen l).
Proof. unfold zlen, zfirstn. rewrite firstn_length. lia. Qed.

Lemma zlen_sub_gen off len b : 0 <= off ->
  zlen (sub off len b) = Z.min (Z.max 0 len) (Z.max 0 (zlen b - off)).
Proof. intros. unfold sub. rewrite zlen_zfirstn_gen, zlen_zskipn_gen by lia. reflexivity. Qed.

Lemma zlen_sub0 len b : len <= zlen b -> zlen (sub 0 len b) = Z.max 0 len.
Proof. intros. rewrite zlen_sub_gen by lia. pose proof (zlen_nonneg b). lia. Qed.

Lemma sub_0_zskipn off len (b : bytes) : sub 0 len (zskipn off b) = sub off len b.
Proof. reflexivity. Qed.

Lemma firstn_firstn_le {A} (i j : nat) (l : list A) : (i <= j)%nat ->
  firstn i (firstn j l) = firstn i l.
Proof. intros. rewrite firstn_firstn. f_equal. lia. Qed.

(* a window of a window is a window *)
Lemma sub_sub o1 l1 o2 l2 (b : bytes) : 0 <= o1 -> 0 <= o2 -> o2 + l2 <= l1 ->
  sub o2 l2 (sub o1 l1 b) = sub (o1 + o2) l2 b.
Proof.
  intros H1 H2 H3. unfold sub.
  replace (o1 + o2) with (o2 + o1) by lia.
  rewrite <- (zskipn_zskipn o2 o1) by lia.
  generalize (zskipn o1 b) as c. intros c.
  unfold zfirstn, zskipn.
  destruct (Z_le_gt_dec l2 0) as [Hn|Hp].
  - replace (Z.to_nat l2) with O by lia. reflexivity.
  - rewrite skipn_firstn_comm. apply firstn_firstn_le. lia.
Qed.

Lemma rd_sub o1 l1 o2 w (b : bytes) : 0 <= o1 -> 0 <= o2 -> o2 + Z.of_nat w <= l1 ->
  rd o2 w (sub o1 l1 b) = rd (o1 + o2) w b.
Proof. intros. unfold rd. f_equal. apply sub_sub; auto. Qed.

Lemma rd_sub0 l1 o2 w (b : bytes) : 0 <= o2 -> o2 + Z.of_nat w <= l1 ->
  rd o2 w (sub 0 l1 b) = rd o2 w b.
Proof. intros. rewrite rd_sub by lia. reflexivity. Qed.

Lemma zskipn_sub0 k len (b : bytes) : 0 <= k ->
  zskipn k (sub 0 len b) = sub k (len - k) b.
Proof.
  intros. unfold sub. rewrite zskipn_0. unfold zfirstn, zskipn.
  rewrite skipn_firstn_comm. f_equal. lia.
Qed.

Lemma le_dec_nonneg bs : bytes_ok bs = true -> 0 <= le_dec bs.
Proof. intros H. pose proof (le_dec_bound bs H). lia. Qed.

Lemma rd_nonneg off w b : bytes_ok b = true -> 0 <= rd off w b.
Proof. intros H. unfold rd. apply le_dec_nonneg, bytes_ok_sub, H. Qed.

Lemma bytes_ok_zskipn n b : bytes_ok b = true -> bytes_ok (zskipn n b) = true.
Proof. apply bytes_ok_skipn. Qed.

Lemma bytes_ok_zfirstn n b : bytes_ok b = true -> bytes_ok (zfirstn n b) = true.
Proof. apply bytes_ok_firstn. Qed.

(* ------------------------------------------------------------------ *)
(* outcomes: no-panic and refinement                                   *)
(* ------------------------------------------------------------------ *)

Definition np {A} (o : outcome A) : Prop := is_panic o = false.

Lemma np_bind {A B} (x : outcome A) (f : A -> outcome B) :
  np x -> (forall a, x = Ok a -> np (f a)) -> np (bind x f).
Proof. unfold np. destruct x; simpl; auto. Qed.

(* [refines x y]: [x] ran out of depth fuel, or it is the definite outcome [y] *)
Definition refines {A} (x y : outcome A) : Prop := x = Fuel \/ x = y.

Lemma refines_refl {A} (x : outcome A) : refines x x.
Proof. right; reflexivity. Qed.

Lemma refines_bind {A B} (x x' : outcome A) (f f' : A -> outcome B) :
  refines x x' -> (forall a, refines (f a) (f' a)) -> refines (bind x f) (bind x' f').
Proof.
  intros [->| <-] H; [left; reflexivity|].
  destruct x; simpl; auto; right; reflexivity.
Qed.

Lemma refines_trans {A} (x y z : outcome A) : refines x y -> refines y z -> refines x z.
Proof. intros [->| <-] H; [left; reflexivity|exact H]. Qed.

Lemma refines_ok {A} (x y : outcome A) a : refines x y -> x = Ok a -> y = Ok a.
Proof. intros [->| <-]; [discriminate|auto]. Qed.

Lemma refines_err {A} (x y : outcome A) e : refines x y -> x = Err e -> y = Err e.
Proof. intros [->| <-]; [discriminate|auto]. Qed.
(* ------------------------------------------------------------------ *)
(* one-level inversion lemmas                                          *)
(* ------------------------------------------------------------------ *)

Section InvSection.
Variable dec : Z -> bytes -> option bytes.
Variable u2s : bytes -> bytes.
Variable rs : Z -> bytes -> Z -> outcome (node * Z).
Variable rfv : Z -> bytes -> Z -> bool -> outcome (node * Z).

Definition sec_rest (pol p : Z) (h : sechdr) (sb : bytes) (kids : list node) : Prop :=
  let hl := s_hlen h in
  if s_type h =? 2 then
    hl + 20 <= zlen sb /\
    exists g, s_gd h = Some g /\ gd_guid g = sub hl 16 sb /\ gd_dataoff g = rd (hl + 16) 2 sb /\
      gd_attrs g = rd (hl + 18) 2 sb /\ gd_dataoff g <= zlen sb /\
      exists encap, sections_loop rs (Z.to_nat (zlen encap) + 1) encap pol 0 0 = Ok (kids, p) /\
        ((encap = [] /\ gd_kind g = 0) \/
         (gd_kind g <> 0 /\ 0 <= gd_dataoff g /\
          dec (gd_kind g) (sub (gd_dataoff g) (zlen sb - gd_dataoff g) sb) = Some encap))
  else
    s_gd h = None /\
    if s_type h =? 23 then
      hl < zlen sb /\ exists v, kids = [v] /\ rfv pol (zskipn hl sb) 0 true = Ok (v, p)
    else
      kids = [] /\ p = pol /\
      (s_type h = 21 -> hl < zlen sb /\ s_name h = u2s (zskipn hl sb)) /\
      (s_type h = 20 -> hl + 2 < zlen sb /\ s_build h = rd hl 2 sb /\ s_version h = u2s (zskipn (hl + 2) sb)).

Lemma section_body_inv pol buf i n p :
  section_body dec u2s rs rfv pol buf i = Ok (n, p) ->
  exists h kids, n = NSec h (sub 0 (s_ext h) buf) kids /\
    4 <= zlen buf /\ s_ext h <= zlen buf /\ s_hlen h <= s_ext h /\
    s_size3 h = rd 0 3 buf /\ s_type h = rd 3 1 buf /\ s_order h = i /\
    ((s_hlen h = 4 /\ (s_ext h = s_size3 h \/
                        (known_section (s_type h) = false /\ s_ext h = Z.min (s_size3 h) (zlen buf)))) \/
     (s_hlen h = 8 /\ 8 <= zlen buf /\ s_size3 h = 16777215 /\ s_ext h = rd 4 4 buf)) /\
    sec_rest pol p h (sub 0 (s_ext h) buf) kids.
Proof.
  unfold section_body.
  destruct (zlen buf <? 4) eqn:L4; [discriminate|].
  set (size3 := rd 0 3 buf). set (stype := rd 3 1 buf).
  intros H. apply bind_ok in H as ([hlen ext] & Hhe & H).
  assert (HL : (hlen = 4 /\ (ext = size3 \/ (known_section stype = false /\ ext = Z.min size3 (zlen buf)))) \/
               (hlen = 8 /\ 8 <= zlen buf /\ size3 = 16777215 /\ ext = rd 4 4 buf)).
  { destruct (known_section stype) eqn:KS.
    - destruct (size3 =? 16777215) eqn:E3.
      + destruct (zlen buf <? 8) eqn:L8; [discriminate|].
        destruct (rd 4 4 buf =? 4294967295); [discriminate|].
        injection Hhe as <- <-. right. lia.
      + injection Hhe as <- <-. left; auto.
    - injection Hhe as <- <-. left; auto. }
  clear Hhe.
  destruct (zlen buf <? ext) eqn:LE; [discriminate|].
  destruct (ext <? hlen) eqn:LH0; [discriminate|].
  set (sbuf := sub 0 ext buf) in *.
  assert (Common : forall h kids, n = NSec h sbuf kids -> s_size3 h = size3 -> s_type h = stype -> s_ext h = ext ->
            s_hlen h = hlen -> s_order h = i -> sec_rest pol p h sbuf kids ->
          exists h kids, n = NSec h (sub 0 (s_ext h) buf) kids /\
    4 <= zlen buf /\ s_ext h <= zlen buf /\ s_hlen h <= s_ext h /\
    s_size3 h = rd 0 3 buf /\ s_type h = rd 3 1 buf /\ s_order h = i /\
    ((s_hlen h = 4 /\ (s_ext h = s_size3 h \/
                        (known_section (s_type h) = false /\ s_ext h = Z.min (s_size3 h) (zlen buf)))) \/
     (s_hlen h = 8 /\ 8 <= zlen buf /\ s_size3 h = 16777215 /\ s_ext h = rd 4 4 buf)) /\
    sec_rest pol p h (sub 0 (s_ext h) buf) kids).
  { intros h kids -> E1 E2 E3 E4 E5 R. exists h, kids. rewrite E1, E2, E3, E4, E5.
    repeat split; auto; lia. }
  destruct (stype =? 2) eqn:T2.
  { destruct (zlen sbuf <? hlen + 20) eqn:L20; [discriminate|].
    destruct (zlen sbuf <? rd (hlen + 16) 2 sbuf) eqn:LD; [discriminate|].
    apply bind_ok in H as ([encap kind'] & Hek & H).
    apply bind_ok in H as ([kids pol'] & Hloop & H).
    injection H as <- <-.
    eapply Common; [reflexivity..|].
    unfold sec_rest; cbn [s_type s_hlen s_gd]. rewrite T2.
    split; [lia|]. eexists; split; [reflexivity|]. cbn [gd_guid gd_dataoff gd_attrs gd_kind].
    repeat split; try lia.
    exists encap. split; [exact Hloop|].
    set (kind := if negb (Z.land (rd (hlen + 18) 2 sbuf) 1 =? 0) then codec_kind (sub hlen 16 sbuf) else 0) in *.
    destruct (kind =? 0) eqn:K0.
    - injection Hek as <- <-. left; auto.
    - destruct (slice (rd (hlen + 16) 2 sbuf) (zlen sbuf) sbuf) as [payload|] eqn:SL; [|discriminate].
      apply slice_some in SL as (S1 & S2 & ->).
      destruct (dec kind _) as [e|] eqn:D.
      + injection Hek as <- <-. right. repeat split; try lia. exact D.
      + injection Hek as <- <-. left; auto. }
  assert (NG : forall h kids, s_gd h = None -> s_type h = stype ->
     (if s_type h =? 23 then
      s_hlen h < zlen sbuf /\ exists v, kids = [v] /\ rfv pol (zskipn (s_hlen h) sbuf) 0 true = Ok (v, p)
    else
      kids = [] /\ p = pol /\
      (s_type h = 21 -> s_hlen h < zlen sbuf /\ s_name h = u2s (zskipn (s_hlen h) sbuf)) /\
      (s_type h = 20 -> s_hlen h + 2 < zlen sbuf /\ s_build h = rd (s_hlen h) 2 sbuf /\ s_version h = u2s (zskipn (s_hlen h + 2) sbuf))) ->
     sec_rest pol p h sbuf kids).
  { intros h kids G T R. unfold sec_rest. rewrite T, T2. split; [exact G|]. rewrite T in R. exact R. }
  destruct (stype =? 21) eqn:T21.
  { destruct (zlen sbuf <=? hlen) eqn:LH; [discriminate|]. injection H as <- <-.
    eapply Common; [reflexivity..|]. apply NG; [reflexivity..|]. cbn [s_type s_hlen s_name s_build s_version].
    replace (stype =? 23) with false by lia. repeat split; try lia. }
  destruct (stype =? 20) eqn:T20.
  { destruct (zlen sbuf <=? hlen + 2) eqn:LH; [discriminate|]. injection H as <- <-.
    eapply Common; [reflexivity..|]. apply NG; [reflexivity..|]. cbn [s_type s_hlen s_name s_build s_version].
    replace (stype =? 23) with false by lia. repeat split; try lia. }
  destruct (stype =? 23) eqn:T23.
  { destruct (zlen sbuf <=? hlen) eqn:LH; [discriminate|].
    apply bind_ok in H as ([v pol'] & Hv & H). injection H as <- <-.
    eapply Common; [reflexivity..|]. apply NG; [reflexivity..|]. cbn [sec_default s_type s_hlen s_name s_build s_version].
    rewrite T23. split; [lia|]. exists v. split; auto. }
  destruct ((stype =? 19) || (stype =? 27) || (stype =? 28)) eqn:TD.
  { destruct (zlen sbuf <=? hlen) eqn:LH; [discriminate|]. injection H as <- <-.
    eapply Common; [reflexivity..|]. apply NG; [reflexivity..|]. cbn [s_type s_hlen s_name s_build s_version].
    rewrite T23. repeat split; try lia. }
  injection H as <- <-.
  eapply Common; [reflexivity..|]. apply NG; [reflexivity..|]. cbn [sec_default s_type s_hlen s_name s_build s_version].
  rewrite T23. repeat split; try lia.
Qed.


End InvSection.

Section InvFile.
Variable nvar : bytes -> option bytes.
Variable rs : Z -> bytes -> Z -> outcome (node * Z).

Definition file_hdr_from (h : filehdr) (buf : bytes) : Prop :=
  f_guid h = sub 0 16 buf /\ f_ckh h = rd 16 1 buf /\ f_ckf h = rd 17 1 buf /\
  f_type h = rd 18 1 buf /\ f_attr h = rd 19 1 buf /\ f_size3 h = rd 20 3 buf /\
  f_state h = rd 23 1 buf.

Lemma file_body_inv pol buf fo p :
  file_body nvar rs pol buf = Ok (fo, p) ->
  match fo with
  | None => p = pol
  | Some n =>
    exists h kids, n = NFile h (sub 0 (f_ext h) buf) kids /\
      24 <= zlen buf /\ f_ext h <= zlen buf /\ f_dataoff h <= f_ext h /\ file_hdr_from h buf /\
      ((f_dataoff h = 24 /\ f_ext h = f_size3 h) \/
       (f_dataoff h = 32 /\ f_size3 h = 16777215 /\ 32 <= zlen buf /\ f_ext h = rd 24 8 buf)) /\
      (if supported_file (f_type h)
       then sections_loop rs (Z.to_nat (f_ext h) + 1) (sub 0 (f_ext h) buf) pol (f_dataoff h) 0 = Ok (kids, p)
       else kids = [] /\ p = pol)
  end.
Proof.
  unfold file_body.
  destruct (zlen buf <? 24) eqn:L24; [discriminate|].
  intros H. apply bind_ok in H as ([ext doff] & Hed & H).
  set (size3 := rd 20 3 buf) in *.
  assert (HL : (doff = 24 /\ ext = size3) \/
               (doff = 32 /\ size3 = 16777215 /\ (32 <= zlen buf /\ ext = rd 24 8 buf \/ ext = U64 - 1))).
  { destruct (size3 =? 16777215) eqn:E3.
    - destruct (zlen buf <? 32) eqn:L32.
      + destruct (forallb _ buf); [|discriminate]. injection Hed as <- <-. right.
        split; [reflexivity|]. split; [lia|]. right; reflexivity.
      + injection Hed as <- <-. right. split; [reflexivity|]. split; [lia|]. left. split; [lia|reflexivity].
    - injection Hed as <- <-. left; auto. }
  clear Hed.
  destruct ((size3 =? 16777215) && (ext =? U64 - 1)) eqn:Free.
  { injection H as <- <-. reflexivity. }
  destruct (zlen buf <? ext) eqn:LE; [discriminate|].
  destruct (ext <? doff) eqn:LD0; [discriminate|].
  apply bind_ok in H as (nv & _ & H).
  set (fbuf := sub 0 ext buf) in *.
  assert (Common : forall h kids, fo = Some (NFile h fbuf kids) -> file_hdr_from h buf ->
     f_ext h = ext -> f_dataoff h = doff ->
     (if supported_file (f_type h)
       then sections_loop rs (Z.to_nat ext + 1) fbuf pol doff 0 = Ok (kids, p)
       else kids = [] /\ p = pol) ->
     match fo with
     | None => p = pol
     | Some n =>
    exists h kids, n = NFile h (sub 0 (f_ext h) buf) kids /\
      24 <= zlen buf /\ f_ext h <= zlen buf /\ f_dataoff h <= f_ext h /\ file_hdr_from h buf /\
      ((f_dataoff h = 24 /\ f_ext h = f_size3 h) \/
       (f_dataoff h = 32 /\ f_size3 h = 16777215 /\ 32 <= zlen buf /\ f_ext h = rd 24 8 buf)) /\
      (if supported_file (f_type h)
       then sections_loop rs (Z.to_nat (f_ext h) + 1) (sub 0 (f_ext h) buf) pol (f_dataoff h) 0 = Ok (kids, p)
       else kids = [] /\ p = pol) end).
  { intros h kids -> HF E1 E2 R. exists h, kids. rewrite E1, E2.
    destruct HF as (G1 & G2 & G3 & G4 & G5 & G6 & G7). rewrite G6. fold size3.
    repeat split; auto; try lia. }
  destruct (negb (supported_file (rd 18 1 buf))) eqn:SF.
  { injection H as <- <-. eapply Common; [reflexivity| |reflexivity..|].
    - repeat split.
    - cbn [f_type]. destruct (supported_file (rd 18 1 buf)); [discriminate|]. auto. }
  apply bind_ok in H as ([kids pol'] & Hloop & H). injection H as <- <-.
  eapply Common; [reflexivity| |reflexivity..|].
  - repeat split.
  - cbn [f_type]. destruct (supported_file (rd 18 1 buf)); [|discriminate]. exact Hloop.
Qed.

End InvFile.

Section InvVol.
Variable rf : Z -> bytes -> outcome (option node * Z).

Definition vol_has_ext (h : volhdr) : bool :=
  negb (v_exthdroff h =? 0) && (20 <=? v_length h) && (v_exthdroff h <? v_length h - 20).

Definition vol_hdr_from (h : volhdr) (data : bytes) : Prop :=
  v_zero h = sub 0 16 data /\ v_guid h = sub 16 16 data /\ v_length h = rd 32 8 data /\
  v_sig h = rd 40 4 data /\ v_attrs h = rd 44 4 data /\ v_hdrlen h = rd 48 2 data /\
  v_cksum h = rd 50 2 data /\ v_exthdroff h = rd 52 2 data /\ v_reserved h = rd 54 1 data /\
  v_rev h = rd 55 1 data /\
  v_extname h = (if vol_has_ext h then sub (v_exthdroff h) 16 data else []) /\
  v_extsize h = (if vol_has_ext h then rd (v_exthdroff h + 16) 4 data else 0) /\
  v_dataoff h = align8 (if vol_has_ext h then v_exthdroff h + v_extsize h else v_hdrlen h).

Lemma fv_body_inv pol data fvoff resizable n p :
  fv_body rf pol data fvoff resizable = Ok (n, p) ->
  exists h kids, n = NVol h (sub 0 (v_length h) data) kids /\
    64 <= v_length h <= zlen data /\ vol_hdr_from h data /\
    parse_blocks (Z.to_nat (zlen data) + 1) (zskipn 56 data) = Ok (v_blocks h) /\
    v_fvoffset h = fvoff /\ v_resizable h = resizable /\
    exists pol1, set_polarity pol (fv_polarity (v_attrs h)) = Some pol1 /\
      (if supported_fv (v_guid h)
       then files_loop rf (Z.to_nat (zlen data) + 1) data (v_length h) pol1 (v_dataoff h)
              = Ok (kids, p, v_freespace h)
       else kids = [] /\ p = pol1 /\ v_freespace h = 0).
Proof.
  unfold fv_body.
  destruct (zlen data <? 64) eqn:L64; [discriminate|].
  intros H. apply bind_ok in H as (blocks & Hb & H).
  destruct (set_polarity pol _) as [pol1|] eqn:SP; [|discriminate].
  destruct (zlen data <? rd 32 8 data) eqn:LL; [discriminate|].
  destruct (rd 32 8 data <? 64) eqn:L2; [discriminate|].
  destruct (negb (supported_fv (sub 16 16 data))) eqn:SF.
  - injection H as <- <-. match goal with |- exists h kids, NVol ?H _ ?K = _ /\ _ => exists H, K end. split; [reflexivity|].
    cbn [v_length v_blocks v_fvoffset v_resizable v_attrs v_guid v_dataoff v_freespace].
    split; [lia|]. split; [repeat split|]. split; [exact Hb|]. split; [reflexivity|]. split; [reflexivity|].
    exists pol1. split; [exact SP|]. destruct (supported_fv _); [discriminate|]. auto.
  - apply bind_ok in H as ([[files pol2] fs] & Hloop & H). injection H as <- <-.
    match goal with |- exists h kids, NVol ?H _ ?K = _ /\ _ => exists H, K end. split; [reflexivity|].
    cbn [v_length v_blocks v_fvoffset v_resizable v_attrs v_guid v_dataoff v_freespace].
    split; [lia|]. split; [repeat split|]. split; [exact Hb|]. split; [reflexivity|]. split; [reflexivity|].
    exists pol1. split; [exact SP|]. destruct (supported_fv _); [|discriminate]. exact Hloop.
Qed.

End InvVol.

(* ------------------------------------------------------------------ *)
(* C04: what a faithful tree is                                        *)
(* ------------------------------------------------------------------ *)

Section Spec.
Variable dec : Z -> bytes -> option bytes.
Variable u2s : bytes -> bytes.

Definition all_ok (P : node -> Prop) :=
  fix all (l : list node) : Prop :=
    match l with [] => True | k :: r => P k /\ all r end.

(* sections at consecutive 4-aligned offsets of [b], each one the window [off, off+ext) of [b] *)
Fixpoint secs_tile (b : bytes) (off : Z) (kids : list node) : Prop :=
  match kids with
  | [] => True
  | NSec h sb _ :: r =>
    0 <= off /\ off mod 4 = 0 /\ 0 < s_ext h /\ off + s_ext h <= zlen b /\
    sb = sub off (s_ext h) b /\ secs_tile b (align4 (off + s_ext h)) r
  | _ :: _ => False
  end.

(* files at consecutive 8-aligned offsets of the volume buffer [b] *)
Fixpoint files_tile (b : bytes) (off : Z) (kids : list node) : Prop :=
  match kids with
  | [] => True
  | NFile h fb _ :: r =>
    0 <= align8 off /\ 0 < f_ext h /\ align8 off + f_ext h <= zlen b /\
    fb = sub (align8 off) (f_ext h) b /\ files_tile b (align8 off + f_ext h) r
  | _ :: _ => False
  end.

(* header fields are the little-endian decode of the node's own bytes; a node is never shorter
   than its own header *)
Definition sec_fields (h : sechdr) (sb : bytes) : Prop :=
  zlen sb = s_ext h /\ (s_hlen h = 4 \/ s_hlen h = 8) /\ s_hlen h <= s_ext h /\
  s_size3 h = rd 0 3 sb /\ s_type h = rd 3 1 sb /\
  (s_hlen h = 8 -> s_size3 h = 16777215 /\ s_ext h = rd 4 4 sb) /\
  (s_hlen h = 4 -> s_ext h <= s_size3 h /\ (known_section (s_type h) = true -> s_ext h = s_size3 h)) /\
  match s_gd h with
  | Some g => s_type h = 2 /\ s_hlen h + 20 <= s_ext h /\
              gd_guid g = sub (s_hlen h) 16 sb /\ gd_dataoff g = rd (s_hlen h + 16) 2 sb /\
              gd_attrs g = rd (s_hlen h + 18) 2 sb /\ 0 <= gd_dataoff g <= s_ext h
  | None => s_type h <> 2
  end /\
  (s_type h = 21 -> s_hlen h < s_ext h /\ s_name h = u2s (zskipn (s_hlen h) sb)) /\
  (s_type h = 20 -> s_hlen h + 2 < s_ext h /\ s_build h = rd (s_hlen h) 2 sb /\
                    s_version h = u2s (zskipn (s_hlen h + 2) sb)).

Definition sec_kids_ok (h : sechdr) (sb : bytes) (kids : list node) : Prop :=
  if s_type h =? 2 then
    exists g encap, s_gd h = Some g /\ secs_tile encap 0 kids /\
      ((encap = [] /\ gd_kind g = 0) \/
       (gd_kind g <> 0 /\
        dec (gd_kind g) (sub (gd_dataoff g) (s_ext h - gd_dataoff g) sb) = Some encap))
  else if s_type h =? 23 then
    exists vh vk, kids = [NVol vh (sub (s_hlen h) (v_length vh) sb) vk] /\
                  s_hlen h + v_length vh <= s_ext h
  else kids = [].

Definition file_fields (h : filehdr) (fb : bytes) : Prop :=
  zlen fb = f_ext h /\ (f_dataoff h = 24 \/ f_dataoff h = 32) /\ f_dataoff h <= f_ext h /\
  file_hdr_from h fb /\
  (f_dataoff h = 24 -> f_ext h = f_size3 h) /\
  (f_dataoff h = 32 -> f_size3 h = 16777215 /\ f_ext h = rd 24 8 fb).

Definition vol_fields (h : volhdr) (vb : bytes) : Prop :=
  zlen vb = v_length h /\ 64 <= v_length h /\ vol_hdr_from h vb.

Fixpoint node_ok (n : node) : Prop :=
  match n with
  | NPad _ _ => True
  | NSec h sb kids =>
    bytes_ok sb = true /\ sec_fields h sb /\ sec_kids_ok h sb kids /\ all_ok node_ok kids
  | NFile h fb kids =>
    bytes_ok fb = true /\ file_fields h fb /\ secs_tile fb (f_dataoff h) kids /\ all_ok node_ok kids
  | NVol h vb kids =>
    bytes_ok vb = true /\ vol_fields h vb /\ files_tile vb (v_dataoff h) kids /\ all_ok node_ok kids
  end.

(* what each parser promises about its result, relative to the buffer it was given *)
Definition post_sec (buf : bytes) (n : node) : Prop :=
  exists h kids, n = NSec h (sub 0 (s_ext h) buf) kids /\ 0 <= s_ext h <= zlen buf /\ node_ok n.

Definition post_file (buf : bytes) (fo : option node) : Prop :=
  match fo with
  | None => True
  | Some n => exists h kids, n = NFile h (sub 0 (f_ext h) buf) kids /\
                0 <= f_ext h <= zlen buf /\ node_ok n
  end.

Definition post_fv (data : bytes) (n : node) : Prop :=
  exists h kids, n = NVol h (sub 0 (v_length h) data) kids /\
    64 <= v_length h <= zlen data /\ node_ok n.

Definition dec_ok : Prop :=
  forall k p e, bytes_ok p = true -> dec k p = Some e -> bytes_ok e = true.

Section LoopS.
Variable rs : Z -> bytes -> Z -> outcome (node * Z).
Hypothesis rs_post : forall pol b i n p, bytes_ok b = true -> rs pol b i = Ok (n, p) -> post_sec b n.

Lemma sections_loop_tile n : forall b pol off i kids p,
  bytes_ok b = true -> 0 <= off -> off mod 4 = 0 ->
  sections_loop rs n b pol off i = Ok (kids, p) ->
  secs_tile b off kids /\ all_ok node_ok kids.
Proof.
  induction n as [|n IH]; intros b pol off i kids p OK O0 OM; cbn [sections_loop]; [discriminate|].
  destruct (off <? zlen b) eqn:Lt.
  - intros H. apply bind_ok in H as ([s pol'] & Hs & H).
    destruct (rs_post _ _ _ _ _ (bytes_ok_zskipn off b OK) Hs) as (h & ks & -> & Hext & Hok).
    cbn [sec_ext] in H. destruct (s_ext h =? 0) eqn:E0; [discriminate|].
    apply bind_ok in H as ([r pol''] & Hr & H). injection H as <- <-.
    rewrite zlen_zskipn_gen in Hext by lia.
    pose proof (align4_bounds (off + s_ext h)).
    apply IH in Hr as [T A]; [| auto | lia | apply align4_mod].
    split.
    + cbn [secs_tile]. rewrite sub_0_zskipn. repeat split; auto; lia.
    + cbn [all_ok]. split; auto.
  - intros [= <- <-]. split; exact I.
Qed.

End LoopS.

Section LoopF.
Variable rf : Z -> bytes -> outcome (option node * Z).
Hypothesis rf_post : forall pol b fo p, bytes_ok b = true -> rf pol b = Ok (fo, p) -> post_file b fo.

Lemma files_loop_tile n : forall data length pol off kids p fs,
  bytes_ok data = true -> 0 <= off -> length <= zlen data ->
  files_loop rf n data length pol off = Ok (kids, p, fs) ->
  files_tile (sub 0 length data) off kids /\ all_ok node_ok kids.
Proof.
  induction n as [|n IH]; intros data length pol off kids p fs OK O0 LL; cbn [files_loop]; [discriminate|].
  destruct (off + 24 <=? length) eqn:Lt.
  - pose proof (align8_bounds off) as AB.
    destruct (length <? align8 off + 24) eqn:L2.
    { intros [= <- <- <-]. split; exact I. }
    intros H. apply bind_ok in H as ([fo pol'] & Hf & H).
    assert (OKs : bytes_ok (sub (align8 off) (length - align8 off) data) = true) by (apply bytes_ok_sub; auto).
    pose proof (rf_post _ _ _ _ OKs Hf) as PF.
    destruct fo as [f|]; [|injection H as <- <- <-; split; exact I].
    destruct PF as (h & ks & -> & Hext & Hok).
    cbn [file_ext] in H. destruct (f_ext h =? 0) eqn:E0; [discriminate|].
    apply bind_ok in H as ([[r pol''] fs'] & Hr & H). injection H as <- <- <-.
    rewrite zlen_sub_gen in Hext by lia.
    apply IH in Hr as [T A]; [| auto | lia | lia].
    split.
    + cbn [files_tile]. rewrite zlen_sub0 by lia.
      rewrite !sub_sub by lia. rewrite Z.add_0_r, Z.add_0_l.
      repeat split; auto; lia.
    + cbn [all_ok]. split; auto.
  - intros [= <- <- <-]. split; exact I.
Qed.

End LoopF.

Section Bodies.
Variable nvar : bytes -> option bytes.
Variable rs : Z -> bytes -> Z -> outcome (node * Z).
Variable rf : Z -> bytes -> outcome (option node * Z).
Variable rfv : Z -> bytes -> Z -> bool -> outcome (node * Z).
Hypothesis Hdec : dec_ok.
Hypothesis rs_post : forall pol b i n p, bytes_ok b = true -> rs pol b i = Ok (n, p) -> post_sec b n.
Hypothesis rf_post : forall pol b fo p, bytes_ok b = true -> rf pol b = Ok (fo, p) -> post_file b fo.
Hypothesis rfv_post : forall pol b o r n p, bytes_ok b = true -> rfv pol b o r = Ok (n, p) -> post_fv b n.

Lemma section_body_post pol buf i n p : bytes_ok buf = true ->
  section_body dec u2s rs rfv pol buf i = Ok (n, p) -> post_sec buf n.
Proof.
  intros OK H. apply section_body_inv in H as (h & kids & -> & L4 & LE & LH & F1 & F2 & F3 & HL & R).
  pose proof (zlen_nonneg buf) as ZB.
  assert (E0 : 0 <= s_ext h).
  { pose proof (rd_nonneg 0 3 buf OK). pose proof (rd_nonneg 4 4 buf OK). lia. }
  set (sb := sub 0 (s_ext h) buf) in *.
  assert (ZS : zlen sb = s_ext h) by (unfold sb; rewrite zlen_sub0; lia).
  assert (OKs : bytes_ok sb = true) by (apply bytes_ok_sub; auto).
  exists h, kids. split; [reflexivity|]. split; [lia|].
  cbn [node_ok]. unfold sec_rest in R. cbv zeta in R.
  assert (SF : sec_fields h sb /\ sec_kids_ok h sb kids /\ all_ok node_ok kids);
    [|tauto].
  assert (Base : zlen sb = s_ext h /\ (s_hlen h = 4 \/ s_hlen h = 8) /\ s_hlen h <= s_ext h /\
    s_size3 h = rd 0 3 sb /\ s_type h = rd 3 1 sb /\
    (s_hlen h = 8 -> s_size3 h = 16777215 /\ s_ext h = rd 4 4 sb) /\
    (s_hlen h = 4 -> s_ext h <= s_size3 h /\ (known_section (s_type h) = true -> s_ext h = s_size3 h))).
  { split; [exact ZS|]. split; [lia|]. split; [exact LH|].
    assert (4 <= s_ext h) by lia.
    split; [unfold sb; rewrite rd_sub0 by lia; auto|].
    split; [unfold sb; rewrite rd_sub0 by lia; auto|]. split.
    - intros G. split; [lia|]. unfold sb. rewrite rd_sub0 by lia. lia.
    - intros G. split; [lia|]. intros KS. destruct HL as [[_ [E|[KF _]]]|[? _]]; lia. }
  unfold sec_fields, sec_kids_ok.
  destruct (s_type h =? 2) eqn:T2.
  - destruct R as (L20 & g & G & G1 & G2 & G3 & G4 & encap & Hloop & Src).
    rewrite G.
    assert (D0 : 0 <= gd_dataoff g) by (rewrite G2; apply rd_nonneg; auto).
    assert (OKe : bytes_ok encap = true).
    { destruct Src as [[-> _]|(_ & _ & D)]; [reflexivity|].
      eapply Hdec; [|exact D]. apply bytes_ok_sub; auto. }
    apply (sections_loop_tile rs rs_post) in Hloop as [T A]; auto; [|reflexivity].
    split; [|split; [|exact A]].
    + repeat split; try tauto; try lia.
    + exists g, encap. split; [reflexivity|]. split; [exact T|].
      destruct Src as [?|(K & _ & D)]; [left; auto|right]. split; auto. rewrite <- ZS. exact D.
  - destruct R as (G & R). rewrite G.
    assert (Fields : forall X Y : Prop, X -> Y -> (zlen sb = s_ext h /\ (s_hlen h = 4 \/ s_hlen h = 8) /\ s_hlen h <= s_ext h /\
    s_size3 h = rd 0 3 sb /\ s_type h = rd 3 1 sb /\
    (s_hlen h = 8 -> s_size3 h = 16777215 /\ s_ext h = rd 4 4 sb) /\
    (s_hlen h = 4 -> s_ext h <= s_size3 h /\ (known_section (s_type h) = true -> s_ext h = s_size3 h)) /\
    s_type h <> 2 /\ X /\ Y)).
    { intros X Y HX HY. repeat split; try tauto; try lia. }
    destruct (s_type h =? 23) eqn:T23.
    + destruct R as (LHv & v & -> & Hv).
      apply rfv_post in Hv as (vh & vk & -> & VL & Vok); [|apply bytes_ok_zskipn; auto].
      rewrite zlen_zskipn_gen in VL by lia.
      rewrite sub_0_zskipn in *.
      split; [|split].
      * apply Fields; intros; lia.
      * exists vh, vk. split; [reflexivity|]. lia.
      * cbn [all_ok]. split; [exact Vok|exact I].
    + destruct R as (-> & -> & N1 & N2).
      split; [|split; [reflexivity|exact I]].
      apply Fields.
      * intros T. destruct (N1 T). split; [lia|auto].
      * intros T. destruct (N2 T) as (? & ? & ?). split; [lia|auto].
Qed.

Lemma file_hdr_from_sub h ext buf : 24 <= ext ->
  file_hdr_from h buf -> file_hdr_from h (sub 0 ext buf).
Proof.
  intros L (G1 & G2 & G3 & G4 & G5 & G6 & G7). unfold file_hdr_from.
  rewrite !rd_sub0 by lia. rewrite sub_sub by lia. repeat split; auto.
Qed.

Lemma file_body_post pol buf fo p : bytes_ok buf = true ->
  file_body nvar rs pol buf = Ok (fo, p) -> post_file buf fo.
Proof.
  intros OK H. apply file_body_inv in H. destruct fo as [n|]; [|exact I].
  destruct H as (h & kids & -> & L24 & LE & LD & HF & HL & R).
  assert (E0 : 0 <= f_ext h).
  { destruct HF as (_ & _ & _ & _ & _ & G6 & _).
    pose proof (rd_nonneg 20 3 buf OK). pose proof (rd_nonneg 24 8 buf OK). lia. }
  set (fb := sub 0 (f_ext h) buf) in *.
  assert (ZS : zlen fb = f_ext h) by (unfold fb; rewrite zlen_sub0; lia).
  assert (OKs : bytes_ok fb = true) by (apply bytes_ok_sub; auto).
  exists h, kids. split; [reflexivity|]. split; [lia|].
  cbn [node_ok].
  assert (FF : file_fields h fb).
  { unfold file_fields. split; [exact ZS|]. split; [lia|]. split; [exact LD|]. split; [|split].
    - apply file_hdr_from_sub; auto. lia.
    - lia.
    - intros G. split; [lia|]. unfold fb. rewrite rd_sub0 by lia. lia. }
  split; [exact OKs|]. split; [exact FF|].
  destruct (supported_file (f_type h)).
  - apply (sections_loop_tile rs rs_post) in R; auto; [lia|].
    destruct HL as [[-> _]|[-> _]]; reflexivity.
  - destruct R as [-> _]. split; exact I.
Qed.

Lemma vol_hdr_from_sub h data : bytes_ok data = true -> 64 <= v_length h ->
  vol_hdr_from h data -> vol_hdr_from h (sub 0 (v_length h) data).
Proof.
  intros OK L (G1 & G2 & G3 & G4 & G5 & G6 & G7 & G8 & G9 & G10 & G11 & G12 & G13).
  unfold vol_hdr_from.
  rewrite !rd_sub0 by lia. rewrite !sub_sub by lia. rewrite !Z.add_0_l.
  assert (0 <= v_exthdroff h) by (rewrite G8; apply rd_nonneg; auto).
  repeat (split; [assumption|]).
  destruct (vol_has_ext h) eqn:HE; [|auto].
  unfold vol_has_ext in HE.
  rewrite rd_sub0 by lia. rewrite sub_sub by lia. rewrite Z.add_0_l. auto.
Qed.

Lemma fv_body_post pol data fvoff r n p : bytes_ok data = true ->
  fv_body rf pol data fvoff r = Ok (n, p) -> post_fv data n.
Proof.
  intros OK H. apply fv_body_inv in H as (h & kids & -> & LL & HF & _ & _ & _ & pol1 & _ & R).
  exists h, kids. split; [reflexivity|]. split; [lia|].
  cbn [node_ok].
  set (vb := sub 0 (v_length h) data) in *.
  assert (ZS : zlen vb = v_length h) by (unfold vb; rewrite zlen_sub0; lia).
  split; [unfold vb; apply bytes_ok_sub; auto|].
  split; [split; [exact ZS|split; [lia|apply vol_hdr_from_sub; auto; lia]]|].
  destruct (supported_fv (v_guid h)).
  - apply (files_loop_tile rf rf_post) in R; auto; [|lia].
    destruct HF as (_ & _ & _ & _ & _ & G6 & _ & G8 & _ & _ & _ & G12 & G13).
    rewrite G13.
    pose proof (rd_nonneg 48 2 data OK). pose proof (rd_nonneg 52 2 data OK).
    assert (0 <= v_extsize h).
    { rewrite G12. destruct (vol_has_ext h); [apply rd_nonneg; auto|lia]. }
    match goal with |- 0 <= align8 ?x => pose proof (align8_bounds x) end.
    destruct (vol_has_ext h); lia.
  - destruct R as (-> & _). split; exact I.
Qed.

End Bodies.
End Spec.

(* ------------------------------------------------------------------ *)
(* lifting to the depth-fuelled parsers                                *)
(* ------------------------------------------------------------------ *)

Section Lift.
Variable dec : Z -> bytes -> option bytes.
Variable u2s : bytes -> bytes.
Variable nvar : bytes -> option bytes.

Notation psec := (parse_section dec u2s nvar).
Notation pfile := (parse_file dec u2s nvar).
Notation pfv := (parse_fv dec u2s nvar).

Lemma parse_section_S d pol b i :
  psec (S d) pol b i = section_body dec u2s (psec d) (pfv d) pol b i.
Proof. reflexivity. Qed.
Lemma parse_file_S d pol b : pfile (S d) pol b = file_body nvar (psec d) pol b.
Proof. reflexivity. Qed.
Lemma parse_fv_S d pol b o r : pfv (S d) pol b o r = fv_body (pfile d) pol b o r.
Proof. reflexivity. Qed.

Lemma parse_fv_inv d pol data o r n p : pfv d pol data o r = Ok (n, p) ->
  exists h kids, n = NVol h (sub 0 (v_length h) data) kids /\
    64 <= v_length h <= zlen data /\ vol_hdr_from h data /\ v_fvoffset h = o /\ v_resizable h = r.
Proof.
  destruct d as [|d]; [discriminate|]. rewrite parse_fv_S. intros H.
  apply fv_body_inv in H as (h & kids & -> & LL & HF & _ & O & R & _).
  exists h, kids. auto.
Qed.

Theorem parse_post (Hdec : dec_ok dec) d :
  (forall pol b i n p, bytes_ok b = true -> psec d pol b i = Ok (n, p) -> post_sec dec u2s b n) /\
  (forall pol b fo p, bytes_ok b = true -> pfile d pol b = Ok (fo, p) -> post_file dec u2s b fo) /\
  (forall pol b o r n p, bytes_ok b = true -> pfv d pol b o r = Ok (n, p) -> post_fv dec u2s b n).
Proof.
  induction d as [|d (IS & IF & IV)]; [split; [|split]; intros; discriminate|].
  split; [|split].
  - intros pol b i n p OK H. rewrite parse_section_S in H.
    eapply section_body_post; eauto.
  - intros pol b fo p OK H. rewrite parse_file_S in H.
    eapply file_body_post; eauto.
  - intros pol b o r n p OK H. rewrite parse_fv_S in H.
    eapply fv_body_post; eauto.
Qed.

(* ---- the BIOS region ---- *)

Lemma find_fvh_bound n : forall data off,
  find_fvh n data off = -1 \/ find_fvh n data off + 44 < zlen data.
Proof.
  induction n as [|n IH]; intros data off; cbn [find_fvh]; [left; reflexivity|].
  destruct (off + 4 <? zlen data) eqn:L; [|left; reflexivity].
  destruct (bytes_eqb _ _); [right; lia|apply IH].
Qed.

Lemma find_fv_offset_bound data :
  find_fv_offset data = -1 \/ find_fv_offset data + 44 < zlen data.
Proof.
  unfold find_fv_offset. destruct (zlen data <? 32); [left; reflexivity|apply find_fvh_bound].
Qed.

(* element offsets are the running sum of the preceding lengths *)
Fixpoint elems_at (abs : Z) (l : list node) : Prop :=
  match l with
  | [] => True
  | NPad o b :: r => o = abs /\ elems_at (abs + zlen b) r
  | NVol h b _ :: r => v_fvoffset h = abs /\ v_resizable h = false /\ zlen b = v_length h /\
                       elems_at (abs + zlen b) r
  | _ :: _ => False
  end.

Lemma parse_bios_partition d n : forall pol buf abs elems p,
  parse_bios dec u2s nvar d n pol buf abs = Ok (elems, p) ->
  concat (map node_buf elems) = buf /\ elems_at abs elems.
Proof.
  induction n as [|n IH]; intros pol buf abs elems p; cbn [parse_bios]; [discriminate|].
  destruct (find_fv_offset buf <? 0) eqn:L0.
  - intros [= <- <-]. destruct (zlen buf =? 0) eqn:Z0.
    + destruct buf; [split; [reflexivity|exact I]|rewrite zlen_cons in Z0; pose proof (zlen_nonneg buf); lia].
    + cbn. rewrite app_nil_r. auto.
  - set (offset := find_fv_offset buf) in *.
    pose proof (find_fv_offset_bound buf) as FB. fold offset in FB.
    pose proof (zlen_nonneg buf) as ZB.
    intros H. apply bind_ok in H as ([v pol'] & Hv & H).
    apply parse_fv_inv in Hv as (h & kids & -> & LL & _ & FO & RZ).
    rewrite zlen_zskipn_gen in LL by lia.
    destruct (v_length h =? 0) eqn:E0; [discriminate|].
    apply bind_ok in H as ([r pol''] & Hr & H). injection H as <- <-.
    apply IH in Hr as [C A].
    assert (ZV : zlen (sub 0 (v_length h) (zskipn offset buf)) = v_length h).
    { rewrite zlen_sub0; [lia|]. rewrite zlen_zskipn_gen; lia. }
    assert (CV : concat (map node_buf (NVol h (sub 0 (v_length h) (zskipn offset buf)) kids :: r))
                 = zskipn offset buf).
    { cbn [map concat node_buf]. rewrite C. unfold sub. rewrite zskipn_0.
      replace (offset + v_length h) with (v_length h + offset) by lia.
      rewrite <- (zskipn_zskipn (v_length h) offset) by lia. apply zfirstn_zskipn. }
    assert (AV : elems_at (abs + offset) (NVol h (sub 0 (v_length h) (zskipn offset buf)) kids :: r)).
    { cbn [elems_at]. rewrite ZV. repeat split; auto. }
    destruct (0 <? offset) eqn:P0.
    + split.
      * rewrite map_app, concat_app. rewrite CV. cbn. rewrite app_nil_r. apply zfirstn_zskipn.
      * cbn [app elems_at]. split; [reflexivity|]. rewrite zlen_zfirstn by lia. exact AV.
    + assert (offset = 0) by lia. cbn [app]. split.
      * rewrite CV. replace offset with 0 by lia. reflexivity.
      * replace (abs + offset) with abs in AV by lia. exact AV.
Qed.

Lemma parse_bios_nodes_ok (Hdec : dec_ok dec) d n : forall pol buf abs elems p,
  bytes_ok buf = true ->
  parse_bios dec u2s nvar d n pol buf abs = Ok (elems, p) ->
  all_ok (node_ok dec u2s) elems.
Proof.
  induction n as [|n IH]; intros pol buf abs elems p OK; cbn [parse_bios]; [discriminate|].
  destruct (find_fv_offset buf <? 0) eqn:L0.
  - intros [= <- <-]. destruct (zlen buf =? 0); cbn; auto.
  - intros H. apply bind_ok in H as ([v pol'] & Hv & H).
    apply (parse_post Hdec) in Hv as (h & kids & -> & LL & NO); [|apply bytes_ok_zskipn; auto].
    destruct (v_length h =? 0) eqn:E0; [discriminate|].
    apply bind_ok in H as ([r pol''] & Hr & H). injection H as <- <-.
    apply IH in Hr; [|apply bytes_ok_zskipn; auto].
    destruct (0 <? find_fv_offset buf); cbn [app all_ok]; auto.
    split; [exact I|]. auto.
Qed.

End Lift.

(* ------------------------------------------------------------------ *)
(* C05: no panic                                                       *)
(* ------------------------------------------------------------------ *)

Lemma np_ok {A} (a : A) : np (Ok a). Proof. reflexivity. Qed.
Lemma np_err {A} e : np (@Err A e). Proof. reflexivity. Qed.
Lemma np_fuel {A} : np (@Fuel A). Proof. reflexivity. Qed.
#[global] Hint Resolve np_ok np_err np_fuel : np.

Lemma parse_blocks_np n : forall b, zlen b < Z.of_nat n -> np (parse_blocks n b).
Proof.
  induction n as [|n IH]; intros b L; cbn [parse_blocks].
  - pose proof (zlen_nonneg b). lia.
  - destruct (zlen b <? 8) eqn:L8; [reflexivity|].
    destruct ((rd 0 4 b =? 0) && (rd 4 4 b =? 0)); [reflexivity|].
    apply np_bind; [|intros; reflexivity].
    apply IH. rewrite zlen_zskipn_gen by lia. lia.
Qed.

Section NPLoopS.
Variable rs : Z -> bytes -> Z -> outcome (node * Z).
Hypothesis rs_np : forall pol b i, bytes_ok b = true -> np (rs pol b i).
Hypothesis rs_ext : forall pol b i n p, bytes_ok b = true -> rs pol b i = Ok (n, p) -> 0 <= sec_ext n.

Lemma sections_loop_np n : forall b pol off i,
  bytes_ok b = true -> (0 < n)%nat -> zlen b - off < Z.of_nat n ->
  np (sections_loop rs n b pol off i).
Proof.
  induction n as [|n IH]; intros b pol off i OK N0 M; [lia|]. cbn [sections_loop].
  destruct (off <? zlen b) eqn:Lt; [|reflexivity].
  apply np_bind; [apply rs_np, bytes_ok_zskipn, OK|].
  intros [s pol'] Hs.
  pose proof (rs_ext _ _ _ _ _ (bytes_ok_zskipn off b OK) Hs) as E.
  destruct (sec_ext s =? 0) eqn:E0; [reflexivity|].
  apply np_bind; [|intros [r pol''] _; reflexivity].
  pose proof (align4_bounds (off + sec_ext s)).
  apply IH; auto; lia.
Qed.
End NPLoopS.

Section NPLoopF.
Variable rf : Z -> bytes -> outcome (option node * Z).
Hypothesis rf_np : forall pol b, bytes_ok b = true -> np (rf pol b).
Hypothesis rf_ext : forall pol b f p, bytes_ok b = true -> rf pol b = Ok (Some f, p) -> 0 <= file_ext f.

Lemma files_loop_np n : forall data length pol off,
  bytes_ok data = true -> (0 < n)%nat -> length - off < Z.of_nat n ->
  np (files_loop rf n data length pol off).
Proof.
  induction n as [|n IH]; intros data length pol off OK N0 M; [lia|]. cbn [files_loop].
  destruct (off + 24 <=? length) eqn:Lt; [|reflexivity].
  pose proof (align8_bounds off) as AB.
  destruct (length <? align8 off + 24); [reflexivity|].
  assert (OKs : bytes_ok (sub (align8 off) (length - align8 off) data) = true) by (apply bytes_ok_sub; auto).
  apply np_bind; [apply rf_np, OKs|].
  intros [[f|] pol'] Hf; [|reflexivity].
  pose proof (rf_ext _ _ _ _ OKs Hf) as E.
  destruct (file_ext f =? 0) eqn:E0; [reflexivity|].
  apply np_bind; [|intros [[r pol''] fs] _; reflexivity].
  apply IH; auto; lia.
Qed.
End NPLoopF.

Section NPSec.
Variable dec : Z -> bytes -> option bytes.
Variable u2s : bytes -> bytes.
Variable rs : Z -> bytes -> Z -> outcome (node * Z).
Variable rfv : Z -> bytes -> Z -> bool -> outcome (node * Z).
Hypothesis Hdec : dec_ok dec.
Hypothesis rs_np : forall pol b i, bytes_ok b = true -> np (rs pol b i).
Hypothesis rs_ext : forall pol b i n p, bytes_ok b = true -> rs pol b i = Ok (n, p) -> 0 <= sec_ext n.
Hypothesis rfv_np : forall pol b o r, bytes_ok b = true -> np (rfv pol b o r).

Lemma section_body_np pol buf i : bytes_ok buf = true ->
  np (section_body dec u2s rs rfv pol buf i).
Proof.
  intros OK. unfold section_body.
  destruct (zlen buf <? 4); [reflexivity|].
  apply np_bind.
  { destruct (known_section _); [|reflexivity].
    destruct (_ =? 16777215); [|reflexivity].
    destruct (zlen buf <? 8); [reflexivity|].
    destruct (_ =? 4294967295); reflexivity. }
  intros [hlen ext] _.
  destruct (zlen buf <? ext); [reflexivity|].
  destruct (ext <? hlen); [reflexivity|].
  set (sbuf := sub 0 ext buf).
  assert (OKs : bytes_ok sbuf = true) by (apply bytes_ok_sub; auto).
  destruct (rd 3 1 buf =? 2).
  { destruct (zlen sbuf <? hlen + 20); [reflexivity|].
    destruct (zlen sbuf <? rd (hlen + 16) 2 sbuf) eqn:LD; [reflexivity|].
    pose proof (rd_nonneg (hlen + 16) 2 sbuf OKs) as D0.
    set (kind := if negb (Z.land (rd (hlen + 18) 2 sbuf) 1 =? 0) then codec_kind (sub hlen 16 sbuf) else 0).
    apply np_bind.
    - destruct (kind =? 0); [reflexivity|].
      rewrite slice_ok by lia. destruct (dec kind _); reflexivity.
    - intros [encap kind'] Hek.
      assert (OKe : bytes_ok encap = true).
      { destruct (kind =? 0); [injection Hek as <- <-; reflexivity|].
        rewrite slice_ok in Hek by lia.
        destruct (dec kind _) as [e|] eqn:D; injection Hek as <- <-; [|reflexivity].
        eapply Hdec; [|exact D]. apply bytes_ok_sub; auto. }
      apply np_bind; [|intros [kids pol'] _; reflexivity].
      apply (sections_loop_np rs rs_np rs_ext); auto; lia. }
  destruct (rd 3 1 buf =? 21).
  { destruct (zlen sbuf <=? hlen); reflexivity. }
  destruct (rd 3 1 buf =? 20).
  { destruct (zlen sbuf <=? hlen + 2); reflexivity. }
  destruct (rd 3 1 buf =? 23).
  { destruct (zlen sbuf <=? hlen); [reflexivity|].
    apply np_bind; [apply rfv_np, bytes_ok_zskipn, OKs|intros [v pol'] _; reflexivity]. }
  destruct (_ || _).
  { destruct (zlen sbuf <=? hlen); reflexivity. }
  reflexivity.
Qed.

End NPSec.

Section NPFile.
Variable nvar : bytes -> option bytes.
Variable rs : Z -> bytes -> Z -> outcome (node * Z).
Hypothesis rs_np : forall pol b i, bytes_ok b = true -> np (rs pol b i).
Hypothesis rs_ext : forall pol b i n p, bytes_ok b = true -> rs pol b i = Ok (n, p) -> 0 <= sec_ext n.

Lemma file_body_np pol buf : bytes_ok buf = true -> np (file_body nvar rs pol buf).
Proof.
  intros OK. unfold file_body.
  destruct (zlen buf <? 24); [reflexivity|].
  apply np_bind.
  { destruct (_ =? 16777215); [|reflexivity].
    destruct (zlen buf <? 32); [|reflexivity].
    destruct (forallb _ _); reflexivity. }
  intros [ext doff] Hed.
  assert (D0 : 0 <= doff).
  { destruct (_ =? 16777215); [|injection Hed as <- <-; lia].
    destruct (zlen buf <? 32); [|injection Hed as <- <-; lia].
    destruct (forallb _ _); [injection Hed as <- <-; lia|discriminate]. }
  destruct (_ && _); [reflexivity|].
  destruct (zlen buf <? ext) eqn:LE; [reflexivity|].
  destruct (ext <? doff); [reflexivity|].
  apply np_bind.
  { destruct (_ && _); [|reflexivity]. destruct (_ <=? doff); reflexivity. }
  intros nv _.
  destruct (negb _); [reflexivity|].
  apply np_bind; [|intros [kids pol'] _; reflexivity].
  apply (sections_loop_np rs rs_np rs_ext); [apply bytes_ok_sub; auto|lia|].
  rewrite zlen_sub0 by lia. lia.
Qed.

End NPFile.

Section NPVol.
Variable rf : Z -> bytes -> outcome (option node * Z).
Hypothesis rf_np : forall pol b, bytes_ok b = true -> np (rf pol b).
Hypothesis rf_ext : forall pol b f p, bytes_ok b = true -> rf pol b = Ok (Some f, p) -> 0 <= file_ext f.

Lemma fv_body_np pol data o r : bytes_ok data = true -> np (fv_body rf pol data o r).
Proof.
  intros OK. unfold fv_body.
  destruct (zlen data <? 64) eqn:L64; [reflexivity|].
  apply np_bind.
  { apply parse_blocks_np. rewrite zlen_zskipn_gen by lia. pose proof (zlen_nonneg data). lia. }
  intros blocks _.
  destruct (set_polarity _ _) as [pol1|]; [|reflexivity].
  destruct (zlen data <? rd 32 8 data) eqn:LL; [reflexivity|].
  destruct (rd 32 8 data <? 64) eqn:L2; [reflexivity|].
  destruct (negb _); [reflexivity|].
  apply np_bind; [|intros [[files pol2] fs] _; reflexivity].
  apply (files_loop_np rf rf_np rf_ext); auto; [lia|].
  pose proof (rd_nonneg 48 2 data OK). pose proof (rd_nonneg 52 2 data OK).
  match goal with |- _ - align8 ?x < _ => pose proof (align8_bounds x); assert (0 <= x) end.
  { destruct (_ && _); [|lia]. pose proof (rd_nonneg (rd 52 2 data + 16) 4 data OK). lia. }
  lia.
Qed.

End NPVol.

Section NPLift.
Variable dec : Z -> bytes -> option bytes.
Variable u2s : bytes -> bytes.
Variable nvar : bytes -> option bytes.
Hypothesis Hdec : dec_ok dec.

Notation psec := (parse_section dec u2s nvar).
Notation pfile := (parse_file dec u2s nvar).
Notation pfv := (parse_fv dec u2s nvar).

Lemma psec_ext d pol b i n p : bytes_ok b = true -> psec d pol b i = Ok (n, p) -> 0 <= sec_ext n.
Proof.
  intros OK H. apply (parse_post dec u2s nvar Hdec d) in H as (h & kids & -> & E & _); auto.
  cbn [sec_ext]. lia.
Qed.

Lemma pfile_ext d pol b f p : bytes_ok b = true -> pfile d pol b = Ok (Some f, p) -> 0 <= file_ext f.
Proof.
  intros OK H. apply (parse_post dec u2s nvar Hdec d) in H as (h & kids & -> & E & _); auto.
  cbn [file_ext]. lia.
Qed.

Theorem parse_np d :
  (forall pol b i, bytes_ok b = true -> np (psec d pol b i)) /\
  (forall pol b, bytes_ok b = true -> np (pfile d pol b)) /\
  (forall pol b o r, bytes_ok b = true -> np (pfv d pol b o r)).
Proof.
  induction d as [|d (IS & IF & IV)]; [split; [|split]; intros; reflexivity|].
  split; [|split].
  - intros pol b i OK. rewrite parse_section_S.
    apply section_body_np; auto. intros; eapply psec_ext; eauto.
  - intros pol b OK. rewrite parse_file_S.
    apply file_body_np; auto. intros; eapply psec_ext; eauto.
  - intros pol b o r OK. rewrite parse_fv_S.
    apply fv_body_np; auto. intros; eapply pfile_ext; eauto.
Qed.

Lemma parse_bios_np d n : forall pol buf abs, bytes_ok buf = true -> zlen buf < Z.of_nat n ->
  np (parse_bios dec u2s nvar d n pol buf abs).
Proof.
  induction n as [|n IH]; intros pol buf abs OK M; cbn [parse_bios].
  - pose proof (zlen_nonneg buf). lia.
  - destruct (find_fv_offset buf <? 0) eqn:L0; [reflexivity|].
    apply np_bind; [apply parse_np, bytes_ok_zskipn, OK|].
    intros [v pol'] Hv.
    apply parse_fv_inv in Hv as (h & kids & -> & LL & _).
    rewrite zlen_zskipn_gen in LL by lia.
    destruct (v_length h =? 0); [reflexivity|].
    apply np_bind; [|intros [r pol''] _; reflexivity].
    apply IH; [apply bytes_ok_zskipn, OK|].
    rewrite zlen_zskipn_gen by lia. lia.
Qed.

Theorem parse_region_np d buf : bytes_ok buf = true -> np (parse_region dec u2s nvar d buf).
Proof.
  intros OK. unfold parse_region. apply parse_bios_np; auto. pose proof (zlen_nonneg buf). lia.
Qed.

End NPLift.

(* ------------------------------------------------------------------ *)
(* C05: Fuel comes from the depth only (outcomes are stable in d)      *)
(* ------------------------------------------------------------------ *)

Ltac ref_step :=
  match goal with
  | |- refines ?x ?x => apply refines_refl
  | |- refines (bind _ _) (bind _ _) => apply refines_bind; [|intros]
  | |- refines (if ?c then _ else _) (if ?c then _ else _) => destruct c
  | |- refines (match ?x with _ => _ end) (match ?x with _ => _ end) => destruct x
  end.

Section RefLoopS.
Variable rs rs' : Z -> bytes -> Z -> outcome (node * Z).
Hypothesis rs_ref : forall pol b i, refines (rs pol b i) (rs' pol b i).

Lemma sections_loop_refines n : forall b pol off i,
  refines (sections_loop rs n b pol off i) (sections_loop rs' n b pol off i).
Proof.
  induction n as [|n IH]; intros; cbn [sections_loop]; [apply refines_refl|].
  ref_step; [|apply refines_refl].
  apply refines_bind; [apply rs_ref|]. intros [s pol'].
  ref_step; [apply refines_refl|].
  apply refines_bind; [apply IH|]. intros; apply refines_refl.
Qed.

End RefLoopS.

Section RefLoopF.
Variable rf rf' : Z -> bytes -> outcome (option node * Z).
Hypothesis rf_ref : forall pol b, refines (rf pol b) (rf' pol b).

Lemma files_loop_refines n : forall data length pol off,
  refines (files_loop rf n data length pol off) (files_loop rf' n data length pol off).
Proof.
  induction n as [|n IH]; intros; cbn [files_loop]; [apply refines_refl|].
  ref_step; [|apply refines_refl].
  ref_step; [apply refines_refl|].
  apply refines_bind; [apply rf_ref|]. intros [[f|] pol']; [|apply refines_refl].
  ref_step; [apply refines_refl|].
  apply refines_bind; [apply IH|]. intros; apply refines_refl.
Qed.

Lemma fv_body_refines pol data o r :
  refines (fv_body rf pol data o r) (fv_body rf' pol data o r).
Proof.
  unfold fv_body. cbv zeta.
  ref_step; [apply refines_refl|].
  apply refines_bind; [apply refines_refl|]. intros blocks.
  ref_step; [|apply refines_refl].
  ref_step; [apply refines_refl|].
  ref_step; [apply refines_refl|].
  ref_step; [apply refines_refl|].
  apply refines_bind; [apply files_loop_refines|]. intros; apply refines_refl.
Qed.

End RefLoopF.

Section RefBodies.
Variable rs rs' : Z -> bytes -> Z -> outcome (node * Z).
Hypothesis rs_ref : forall pol b i, refines (rs pol b i) (rs' pol b i).
Variable dec : Z -> bytes -> option bytes.
Variable u2s : bytes -> bytes.
Variable nvar : bytes -> option bytes.

Lemma file_body_refines pol buf :
  refines (file_body nvar rs pol buf) (file_body nvar rs' pol buf).
Proof.
  unfold file_body. cbv zeta.
  ref_step; [apply refines_refl|].
  apply refines_bind; [apply refines_refl|]. intros [ext doff].
  ref_step; [apply refines_refl|].
  ref_step; [apply refines_refl|].
  ref_step; [apply refines_refl|].
  apply refines_bind; [apply refines_refl|]. intros nv.
  ref_step; [apply refines_refl|].
  apply refines_bind; [apply sections_loop_refines; auto|]. intros; apply refines_refl.
Qed.

Variable rfv rfv' : Z -> bytes -> Z -> bool -> outcome (node * Z).
Hypothesis rfv_ref : forall pol b o r, refines (rfv pol b o r) (rfv' pol b o r).

Lemma section_body_refines pol buf i :
  refines (section_body dec u2s rs rfv pol buf i) (section_body dec u2s rs' rfv' pol buf i).
Proof.
  unfold section_body. cbv zeta.
  ref_step; [apply refines_refl|].
  apply refines_bind; [apply refines_refl|]. intros [hlen ext].
  ref_step; [apply refines_refl|].
  ref_step; [apply refines_refl|].
  ref_step.
  { ref_step; [apply refines_refl|]. ref_step; [apply refines_refl|].
    apply refines_bind; [apply refines_refl|]. intros [encap kind'].
    apply refines_bind; [apply sections_loop_refines; auto|]. intros; apply refines_refl. }
  ref_step; [apply refines_refl|].
  ref_step; [apply refines_refl|].
  ref_step; [|apply refines_refl].
  ref_step; [apply refines_refl|].
  apply refines_bind; [apply rfv_ref|]. intros; apply refines_refl.
Qed.

End RefBodies.

Section RefLift.
Variable dec : Z -> bytes -> option bytes.
Variable u2s : bytes -> bytes.
Variable nvar : bytes -> option bytes.

Notation psec := (parse_section dec u2s nvar).
Notation pfile := (parse_file dec u2s nvar).
Notation pfv := (parse_fv dec u2s nvar).

Theorem parse_refines d :
  (forall pol b i, refines (psec d pol b i) (psec (S d) pol b i)) /\
  (forall pol b, refines (pfile d pol b) (pfile (S d) pol b)) /\
  (forall pol b o r, refines (pfv d pol b o r) (pfv (S d) pol b o r)).
Proof.
  induction d as [|d (IS & IF & IV)]; [split; [|split]; intros; left; reflexivity|].
  split; [|split]; intros.
  - rewrite (parse_section_S _ _ _ (S d)), (parse_section_S _ _ _ d).
    apply section_body_refines; auto.
  - rewrite (parse_file_S _ _ _ (S d)), (parse_file_S _ _ _ d).
    apply file_body_refines; auto.
  - rewrite (parse_fv_S _ _ _ (S d)), (parse_fv_S _ _ _ d).
    apply fv_body_refines; auto.
Qed.

Lemma parse_bios_refines d n : forall pol buf abs,
  refines (parse_bios dec u2s nvar d n pol buf abs) (parse_bios dec u2s nvar (S d) n pol buf abs).
Proof.
  induction n as [|n IH]; intros; cbn [parse_bios]; [apply refines_refl|].
  ref_step; [apply refines_refl|].
  apply refines_bind; [apply parse_refines|]. intros [v pol'].
  ref_step; [apply refines_refl|].
  apply refines_bind; [apply IH|]. intros; apply refines_refl.
Qed.

Theorem parse_region_refines d buf :
  refines (parse_region dec u2s nvar d buf) (parse_region dec u2s nvar (S d) buf).
Proof. apply parse_bios_refines. Qed.

End RefLift.

Section RefLe.
Variable dec : Z -> bytes -> option bytes.
Variable u2s : bytes -> bytes.
Variable nvar : bytes -> option bytes.

Lemma parse_region_refines_le d d' buf : (d <= d')%nat ->
  refines (parse_region dec u2s nvar d buf) (parse_region dec u2s nvar d' buf).
Proof.
  induction 1 as [|d' L IH]; [apply refines_refl|].
  eapply refines_trans; [exact IH|apply parse_region_refines].
Qed.

Lemma parse_section_refines_le d d' pol b i : (d <= d')%nat ->
  refines (parse_section dec u2s nvar d pol b i) (parse_section dec u2s nvar d' pol b i).
Proof.
  induction 1 as [|d' L IH]; [apply refines_refl|].
  eapply refines_trans; [exact IH|apply parse_refines].
Qed.

Lemma parse_file_refines_le d d' pol b : (d <= d')%nat ->
  refines (parse_file dec u2s nvar d pol b) (parse_file dec u2s nvar d' pol b).
Proof.
  induction 1 as [|d' L IH]; [apply refines_refl|].
  eapply refines_trans; [exact IH|apply parse_refines].
Qed.

Lemma parse_fv_refines_le d d' pol b o r : (d <= d')%nat ->
  refines (parse_fv dec u2s nvar d pol b o r) (parse_fv dec u2s nvar d' pol b o r).
Proof.
  induction 1 as [|d' L IH]; [apply refines_refl|].
  eapply refines_trans; [exact IH|apply parse_refines].
Qed.

End RefLe.

(* ------------------------------------------------------------------ *)
(* statements in the form used by Properties/C04.v and C05.v           *)
(* ------------------------------------------------------------------ *)

Section Statements.
Variable dec : Z -> bytes -> option bytes.
Variable u2s : bytes -> bytes.
Variable nvar : bytes -> option bytes.

Notation psec := (parse_section dec u2s nvar).
Notation pfile := (parse_file dec u2s nvar).
Notation pfv := (parse_fv dec u2s nvar).

Lemma section_buf d pol buf i n p : psec d pol buf i = Ok (n, p) ->
  exists h kids, n = NSec h (sub 0 (s_ext h) buf) kids /\
    s_hlen h <= s_ext h <= zlen buf /\
    s_size3 h = rd 0 3 buf /\ s_type h = rd 3 1 buf /\
    (s_hlen h = 4 \/ (s_hlen h = 8 /\ s_ext h = rd 4 4 buf)).
Proof.
  destruct d as [|d]; [discriminate|]. rewrite parse_section_S. intros H.
  apply section_body_inv in H as (h & kids & -> & L4 & LE & LH & F1 & F2 & _ & HL & _).
  exists h, kids. repeat split; auto. destruct HL as [[? _]|(? & ? & _ & ?)]; auto.
Qed.

Lemma section_fields (Hdec : dec_ok dec) d pol buf i h sb kids p : bytes_ok buf = true ->
  psec d pol buf i = Ok (NSec h sb kids, p) ->
  0 <= s_ext h /\ sec_fields u2s h sb /\ sec_kids_ok dec h sb kids /\
  all_ok (node_ok dec u2s) kids.
Proof.
  intros OK H. apply (parse_post dec u2s nvar Hdec d) in H as (h' & k' & E & L & NO); auto.
  injection E as -> -> ->. cbn [node_ok] in NO. destruct NO as (_ & NO). split; [lia|exact NO].
Qed.

Lemma file_buf d pol buf n p : pfile d pol buf = Ok (Some n, p) ->
  exists h kids, n = NFile h (sub 0 (f_ext h) buf) kids /\
    f_dataoff h <= f_ext h <= zlen buf /\ file_hdr_from h buf /\
    ((f_dataoff h = 24 /\ f_ext h = f_size3 h) \/
     (f_dataoff h = 32 /\ f_size3 h = 16777215 /\ f_ext h = rd 24 8 buf)).
Proof.
  destruct d as [|d]; [discriminate|]. rewrite parse_file_S. intros H.
  apply file_body_inv in H as (h & kids & -> & L & LE & LD & HF & HL & _).
  exists h, kids. split; [reflexivity|]. split; [lia|]. split; [exact HF|].
  destruct HL as [?|(? & ? & _ & ?)]; auto.
Qed.

Lemma file_fields_inside (Hdec : dec_ok dec) d pol buf h fb kids p : bytes_ok buf = true ->
  pfile d pol buf = Ok (Some (NFile h fb kids), p) ->
  0 <= f_ext h /\ file_fields h fb /\ secs_tile fb (f_dataoff h) kids /\
  all_ok (node_ok dec u2s) kids.
Proof.
  intros OK H. apply (parse_post dec u2s nvar Hdec d) in H as (h' & k' & E & L & NO); auto.
  injection E as -> -> ->. cbn [node_ok] in NO. destruct NO as (_ & NO). split; [lia|exact NO].
Qed.

Lemma fv_buf d pol data o r n p : pfv d pol data o r = Ok (n, p) ->
  exists h kids, n = NVol h (sub 0 (v_length h) data) kids /\
    64 <= v_length h <= zlen data /\ vol_hdr_from h data /\ v_fvoffset h = o /\ v_resizable h = r.
Proof. apply parse_fv_inv. Qed.

Lemma fv_fields_inside (Hdec : dec_ok dec) d pol data o r h vb kids p : bytes_ok data = true ->
  pfv d pol data o r = Ok (NVol h vb kids, p) ->
  vol_fields h vb /\ files_tile vb (v_dataoff h) kids /\ all_ok (node_ok dec u2s) kids.
Proof.
  intros OK H. apply (parse_post dec u2s nvar Hdec d) in H as (h' & k' & E & L & NO); [|exact OK].
  injection E as -> -> ->. cbn [node_ok] in NO. destruct NO as (_ & NO). exact NO.
Qed.

Lemma region_partition d buf elems p :
  parse_region dec u2s nvar d buf = Ok (elems, p) ->
  concat (map node_buf elems) = buf /\ elems_at 0 elems.
Proof. apply parse_bios_partition. Qed.

Lemma region_nodes_ok (Hdec : dec_ok dec) d buf elems p : bytes_ok buf = true ->
  parse_region dec u2s nvar d buf = Ok (elems, p) -> all_ok (node_ok dec u2s) elems.
Proof. apply parse_bios_nodes_ok; auto. Qed.

(* ---- C05 ---- *)

Lemma parsers_no_panic (Hdec : dec_ok dec) d pol buf : bytes_ok buf = true ->
  (forall i, is_panic (psec d pol buf i) = false) /\
  is_panic (pfile d pol buf) = false /\
  (forall o r, is_panic (pfv d pol buf o r) = false).
Proof.
  intros OK. destruct (parse_np dec u2s nvar Hdec d) as (A & B & C).
  split; [|split]; intros; [apply A|apply B|apply C]; auto.
Qed.

Lemma region_no_panic (Hdec : dec_ok dec) d buf : bytes_ok buf = true ->
  is_panic (parse_region dec u2s nvar d buf) = false.
Proof. apply parse_region_np; auto. Qed.

Lemma depth_stable d d' : (d <= d')%nat ->
  (forall pol b i, psec d pol b i = Fuel \/ psec d' pol b i = psec d pol b i) /\
  (forall pol b, pfile d pol b = Fuel \/ pfile d' pol b = pfile d pol b) /\
  (forall pol b o r, pfv d pol b o r = Fuel \/ pfv d' pol b o r = pfv d pol b o r) /\
  (forall b, parse_region dec u2s nvar d b = Fuel \/
             parse_region dec u2s nvar d' b = parse_region dec u2s nvar d b).
Proof.
  intros L. repeat split; intros.
  - destruct (parse_section_refines_le dec u2s nvar d d' pol b i L); auto.
  - destruct (parse_file_refines_le dec u2s nvar d d' pol b L); auto.
  - destruct (parse_fv_refines_le dec u2s nvar d d' pol b o r L); auto.
  - destruct (parse_region_refines_le dec u2s nvar d d' b L); auto.
Qed.

Lemma region_ok_stable d d' b r : (d <= d')%nat ->
  parse_region dec u2s nvar d b = Ok r -> parse_region dec u2s nvar d' b = Ok r.
Proof. intros L. apply refines_ok, parse_region_refines_le, L. Qed.

End Statements.

(* ------------------------------------------------------------------ *)
(* C05: a depth that suffices when nothing is decompressed             *)
(* ------------------------------------------------------------------ *)

Definition nf {A} (o : outcome A) : Prop := is_fuel o = false.

Lemma nf_bind {A B} (x : outcome A) (f : A -> outcome B) :
  nf x -> (forall a, x = Ok a -> nf (f a)) -> nf (bind x f).
Proof. unfold nf. destruct x; simpl; auto. Qed.

Lemma zlen_sub_le off len (b : bytes) : zlen (sub off len b) <= zlen b.
Proof.
  unfold sub. rewrite zlen_zfirstn_gen. unfold zlen, zskipn. rewrite skipn_length. lia.
Qed.

Lemma parse_blocks_nf n : forall b, nf (parse_blocks n b).
Proof.
  induction n as [|n IH]; intros b; cbn [parse_blocks]; [reflexivity|].
  destruct (zlen b <? 8); [reflexivity|]. destruct (_ && _); [reflexivity|].
  apply nf_bind; [apply IH|intros; reflexivity].
Qed.

Section NFLoopS.
Variable rs : Z -> bytes -> Z -> outcome (node * Z).
Variable M : Z.
Hypothesis rs_nf : forall pol b i, bytes_ok b = true -> zlen b <= M -> nf (rs pol b i).
Hypothesis rs_ext : forall pol b i n p, bytes_ok b = true -> rs pol b i = Ok (n, p) -> 0 <= sec_ext n.

Lemma sections_loop_nf n : forall b pol off i,
  bytes_ok b = true -> 0 <= off -> zlen b - off <= M ->
  nf (sections_loop rs n b pol off i).
Proof.
  induction n as [|n IH]; intros b pol off i OK O0 LM; [reflexivity|]. cbn [sections_loop].
  destruct (off <? zlen b) eqn:Lt; [|reflexivity].
  apply nf_bind.
  { apply rs_nf; [apply bytes_ok_zskipn, OK|]. rewrite zlen_zskipn_gen by lia. lia. }
  intros [s pol'] Hs.
  pose proof (rs_ext _ _ _ _ _ (bytes_ok_zskipn off b OK) Hs) as E.
  destruct (sec_ext s =? 0) eqn:E0; [reflexivity|].
  apply nf_bind; [|intros [r pol''] _; reflexivity].
  pose proof (align4_bounds (off + sec_ext s)).
  apply IH; auto; lia.
Qed.
End NFLoopS.

Section NFLoopF.
Variable rf : Z -> bytes -> outcome (option node * Z).
Variable M : Z.
Hypothesis rf_nf : forall pol b, bytes_ok b = true -> zlen b <= M -> nf (rf pol b).

Lemma files_loop_nf n : forall data length pol off,
  bytes_ok data = true -> zlen data <= M -> nf (files_loop rf n data length pol off).
Proof.
  induction n as [|n IH]; intros data length pol off OK LM; [reflexivity|]. cbn [files_loop].
  destruct (off + 24 <=? length); [|reflexivity].
  destruct (length <? align8 off + 24); [reflexivity|].
  apply nf_bind.
  { apply rf_nf; [apply bytes_ok_sub, OK|].
    pose proof (zlen_sub_le (align8 off) (length - align8 off) data). lia. }
  intros [[f|] pol'] _; [|reflexivity].
  destruct (file_ext f =? 0); [reflexivity|].
  apply nf_bind; [apply IH; auto|intros [[r pol''] fs] _; reflexivity].
Qed.

Lemma fv_body_nf pol data o r : bytes_ok data = true -> zlen data <= M ->
  nf (fv_body rf pol data o r).
Proof.
  intros OK LM. unfold fv_body.
  destruct (zlen data <? 64); [reflexivity|].
  apply nf_bind; [apply parse_blocks_nf|]. intros blocks _.
  destruct (set_polarity _ _); [|reflexivity].
  destruct (zlen data <? _); [reflexivity|]. destruct (_ <? 64); [reflexivity|].
  destruct (negb _); [reflexivity|].
  apply nf_bind; [apply files_loop_nf; auto|intros [[files pol2] fs] _; reflexivity].
Qed.
End NFLoopF.

Section NFFile.
Variable nvar : bytes -> option bytes.
Variable rs : Z -> bytes -> Z -> outcome (node * Z).
Variable M : Z.
Hypothesis rs_nf : forall pol b i, bytes_ok b = true -> zlen b <= M -> nf (rs pol b i).
Hypothesis rs_ext : forall pol b i n p, bytes_ok b = true -> rs pol b i = Ok (n, p) -> 0 <= sec_ext n.

Lemma file_body_nf pol buf : bytes_ok buf = true -> zlen buf <= M + 24 ->
  nf (file_body nvar rs pol buf).
Proof.
  intros OK LM. unfold file_body.
  destruct (zlen buf <? 24); [reflexivity|].
  apply nf_bind.
  { destruct (_ =? 16777215); [|reflexivity].
    destruct (zlen buf <? 32); [|reflexivity].
    destruct (forallb _ _); reflexivity. }
  intros [ext doff] Hed.
  assert (D0 : 24 <= doff).
  { destruct (_ =? 16777215); [|injection Hed as <- <-; lia].
    destruct (zlen buf <? 32); [|injection Hed as <- <-; lia].
    destruct (forallb _ _); [injection Hed as <- <-; lia|discriminate]. }
  destruct (_ && _); [reflexivity|].
  destruct (zlen buf <? ext) eqn:LE; [reflexivity|].
  destruct (ext <? doff); [reflexivity|].
  apply nf_bind.
  { destruct (_ && _); [|reflexivity]. destruct (_ <=? doff); reflexivity. }
  intros nv _.
  destruct (negb _); [reflexivity|].
  apply nf_bind; [|intros [kids pol'] _; reflexivity].
  apply (sections_loop_nf rs M rs_nf rs_ext); [apply bytes_ok_sub; auto|lia|].
  pose proof (zlen_sub_le 0 ext buf). lia.
Qed.
End NFFile.

Section NFSec.
Variable dec : Z -> bytes -> option bytes.
Variable u2s : bytes -> bytes.
Variable rs : Z -> bytes -> Z -> outcome (node * Z).
Variable rfv : Z -> bytes -> Z -> bool -> outcome (node * Z).
Variable M : Z.
Hypothesis nodec : forall k p, dec k p = None.
Hypothesis rfv_nf : forall pol b o r, bytes_ok b = true -> zlen b <= M -> nf (rfv pol b o r).

Lemma section_body_nf pol buf i : bytes_ok buf = true -> zlen buf <= M + 4 ->
  nf (section_body dec u2s rs rfv pol buf i).
Proof.
  intros OK LM. unfold section_body.
  destruct (zlen buf <? 4); [reflexivity|].
  apply nf_bind.
  { destruct (known_section _); [|reflexivity].
    destruct (_ =? 16777215); [|reflexivity].
    destruct (zlen buf <? 8); [reflexivity|].
    destruct (_ =? 4294967295); reflexivity. }
  intros [hlen ext] Hhe.
  assert (H4 : 4 <= hlen).
  { destruct (known_section _); [|injection Hhe as <- <-; lia].
    destruct (_ =? 16777215); [|injection Hhe as <- <-; lia].
    destruct (zlen buf <? 8); [discriminate|].
    destruct (_ =? 4294967295); [discriminate|injection Hhe as <- <-; lia]. }
  destruct (zlen buf <? ext); [reflexivity|].
  destruct (ext <? hlen); [reflexivity|].
  set (sbuf := sub 0 ext buf).
  assert (OKs : bytes_ok sbuf = true) by (apply bytes_ok_sub; auto).
  pose proof (zlen_sub_le 0 ext buf) as LS. fold sbuf in LS.
  destruct (rd 3 1 buf =? 2).
  { destruct (zlen sbuf <? hlen + 20); [reflexivity|].
    destruct (zlen sbuf <? rd (hlen + 16) 2 sbuf); [reflexivity|].
    set (kind := if negb (Z.land (rd (hlen + 18) 2 sbuf) 1 =? 0) then codec_kind (sub hlen 16 sbuf) else 0).
    apply nf_bind.
    - destruct (kind =? 0); [reflexivity|].
      destruct (slice _ _ _); [|reflexivity]. rewrite nodec. reflexivity.
    - intros [encap kind'] Hek.
      assert (encap = []).
      { destruct (kind =? 0); [injection Hek as <- <-; reflexivity|].
        destruct (slice _ _ _); [|discriminate]. rewrite nodec in Hek.
        injection Hek as <- <-; reflexivity. }
      subst encap. reflexivity. }
  destruct (rd 3 1 buf =? 21).
  { destruct (zlen sbuf <=? hlen); reflexivity. }
  destruct (rd 3 1 buf =? 20).
  { destruct (zlen sbuf <=? hlen + 2); reflexivity. }
  destruct (rd 3 1 buf =? 23).
  { destruct (zlen sbuf <=? hlen) eqn:LH; [reflexivity|].
    apply nf_bind; [|intros [v pol'] _; reflexivity].
    apply rfv_nf; [apply bytes_ok_zskipn, OKs|].
    rewrite zlen_zskipn_gen by lia. pose proof (zlen_nonneg buf). lia. }
  destruct (_ || _).
  { destruct (zlen sbuf <=? hlen); reflexivity. }
  reflexivity.
Qed.
End NFSec.

Section NFLift.
Variable dec : Z -> bytes -> option bytes.
Variable u2s : bytes -> bytes.
Variable nvar : bytes -> option bytes.
Hypothesis nodec : forall k p, dec k p = None.

Notation psec := (parse_section dec u2s nvar).
Notation pfile := (parse_file dec u2s nvar).
Notation pfv := (parse_fv dec u2s nvar).

Lemma nodec_dec_ok : dec_ok dec.
Proof. intros k p e _ H. rewrite nodec in H. discriminate. Qed.

Theorem parse_nf d :
  (forall pol b i, bytes_ok b = true -> zlen b < Z.of_nat d -> nf (psec d pol b i)) /\
  (forall pol b, bytes_ok b = true -> zlen b + 1 < Z.of_nat d -> nf (pfile d pol b)) /\
  (forall pol b o r, bytes_ok b = true -> zlen b + 2 < Z.of_nat d -> nf (pfv d pol b o r)).
Proof.
  induction d as [|d (IS & IF & IV)].
  { split; [|split]; intros; pose proof (zlen_nonneg b); lia. }
  split; [|split].
  - intros pol b i OK L. rewrite parse_section_S.
    apply (section_body_nf dec u2s _ _ (Z.of_nat d - 3)); auto; [|lia].
    intros. apply IV; auto. lia.
  - intros pol b OK L. rewrite parse_file_S.
    apply (file_body_nf nvar _ (Z.of_nat d - 1)); auto; [| |lia].
    + intros. apply IS; auto. lia.
    + intros. eapply psec_ext; eauto. apply nodec_dec_ok.
  - intros pol b o r OK L. rewrite parse_fv_S.
    apply (fv_body_nf _ (Z.of_nat d - 2)); auto; [|lia].
    intros. apply IF; auto. lia.
Qed.

Lemma parse_bios_nf d n : forall pol buf abs, bytes_ok buf = true -> zlen buf + 2 < Z.of_nat d ->
  nf (parse_bios dec u2s nvar d n pol buf abs).
Proof.
  induction n as [|n IH]; intros pol buf abs OK L; cbn [parse_bios]; [reflexivity|].
  destruct (find_fv_offset buf <? 0) eqn:L0; [reflexivity|].
  assert (ZS : forall k, 0 <= k -> zlen (zskipn k buf) <= zlen buf).
  { intros k Hk. rewrite zlen_zskipn_gen by lia. pose proof (zlen_nonneg buf). lia. }
  apply nf_bind.
  { apply parse_nf; [apply bytes_ok_zskipn, OK|]. specialize (ZS (find_fv_offset buf)). lia. }
  intros [v pol'] Hv.
  apply parse_fv_inv in Hv as (h & kids & -> & LL & _).
  destruct (v_length h =? 0); [reflexivity|].
  apply nf_bind; [|intros [r pol''] _; reflexivity].
  apply IH; [apply bytes_ok_zskipn, OK|]. specialize (ZS (find_fv_offset buf + v_length h)). lia.
Qed.

(* with decompression disabled (or nothing decodable), depth [length + 3] always suffices *)
Theorem parse_region_depth_suffices d buf : bytes_ok buf = true -> zlen buf + 2 < Z.of_nat d ->
  is_fuel (parse_region dec u2s nvar d buf) = false.
Proof. intros OK L. apply parse_bios_nf; auto. Qed.

End NFLift.

Lemma region_total_without_decompression dec u2s nvar : (forall k p, dec k p = None) ->
  forall d buf, bytes_ok buf = true -> zlen buf + 2 < Z.of_nat d ->
  (exists r, parse_region dec u2s nvar d buf = Ok r) \/
  (exists e, parse_region dec u2s nvar d buf = Err e).
Proof.
  intros ND d buf OK L.
  pose proof (parse_region_depth_suffices dec u2s nvar ND d buf OK L) as F.
  pose proof (region_no_panic dec u2s nvar (nodec_dec_ok dec ND) d buf OK) as P.
  destruct (parse_region dec u2s nvar d buf); try discriminate; eauto.
Qed.
