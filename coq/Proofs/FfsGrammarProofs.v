(* Proofs/FfsGrammarProofs.v — every well-formed element of the grammar datatype is "ok";
   hence Parse-then-Save is the identity on every well-formed region (property C01). *)
From Fiano Require Import Base.Bytes Base.BytesLemmas Model.Ffs Model.FfsSpec Model.FfsGrammar
  Proofs.FfsSaveProofs.
Open Scope Z_scope.

Section G.
Variable dec : Z -> bytes -> option bytes.
Variable enc : Z -> bytes -> option bytes.
Variable u2s s2u : bytes -> bytes.
Variable nvar : bytes -> option bytes.

Notation sec_ok := (sec_ok dec enc u2s s2u nvar).
Notation file_ok := (file_ok dec enc u2s s2u nvar).
Notation file_ok_b := (file_ok_b dec enc u2s s2u nvar).
Notation vol_ok := (vol_ok dec enc u2s s2u nvar).
Notation wf_s := (wf_s u2s s2u).
Notation wf_f := (wf_f u2s s2u).
Notation wf_v := (wf_v u2s s2u).

Lemma Forall_of_fold {A} (P : A -> Prop) (Q : A -> Prop) (l : list A) :
  (forall a, In a l -> P a -> Q a) -> fold_right and True (map P l) -> Forall Q l.
Proof.
  induction l as [|a l IH]; intros H F; [constructor|].
  cbn [map fold_right] in F. destruct F as [Fa Fl].
  constructor; [apply H; [left; reflexivity|exact Fa]|].
  apply IH; [|exact Fl]. intros b Hb. apply H. right. exact Hb.
Qed.

Fixpoint s_ok (s : sspec) : wf_s s -> sec_ok (emit_s s)
with f_ok (f : fspec) : wf_f f -> file_ok_b (is_big f) (emit_f f)
with v_ok (v : vspec) : wf_v v -> vol_ok (emit_v v).
Proof.
  - destruct s as [t body|t body|g attrs extra payload|p|build p|t ops|v]; cbn [wf_s emit_s FfsGrammar.wf_s];
      unfold in_range; intros W.
    + destruct W as (A & B & C & D). apply sec_ok_leaf; auto.
    + destruct W as (A & B & C & D & E). apply sec_ok_leaf_large; auto.
    + destruct W as (A & B & C & D & E & F & G & H). apply sec_ok_guid_opaque; auto.
    + destruct W as (A & B & C & D). apply sec_ok_ui; auto.
    + destruct W as (A & B & C & D & E). apply sec_ok_version; auto.
    + destruct W as (A & B & C). apply sec_ok_depex; auto.
    + destruct W as (A & B). apply sec_ok_fv; [apply v_ok; exact A|exact B].
  - destruct f as [g ckh ckf t attr state body|g ckh ckf t attr state body|g t attr state secs|g t attr state secs];
      cbn [wf_f emit_f FfsGrammar.wf_f is_big]; unfold in_range; intros W.
    + destruct W as (A & B & C & D & E & F & G & H & I & J & K).
      apply (file_ok_b_false dec enc u2s s2u nvar). apply file_ok_opaque; auto.
    + destruct W as (A & B & C & D & E & F & G & H & I & J & K).
      apply (file_ok_b_false dec enc u2s s2u nvar). apply file_ok_opaque_large; auto.
    + destruct W as (A & B & C & D & E & F & G & H & I & J).
      apply (file_ok_b_false dec enc u2s s2u nvar).
      apply file_ok_sections; auto.
      * intro Hn. apply H. destruct secs; [reflexivity|discriminate].
      * rewrite Forall_map. clear - s_ok I.
        induction secs as [|a r IH]; [constructor|]. cbn [map fold_right] in I. destruct I as [Ia Ir].
        constructor; [apply s_ok; exact Ia | apply IH; exact Ir].
    + destruct W as (A & B & C & D & E & F & G & H & I & J & K).
      apply (file_okL_b_true dec enc u2s s2u nvar).
      apply file_okL_sections; auto.
      * intro Hn. apply H. destruct secs; [reflexivity|discriminate].
      * rewrite Forall_map. clear - s_ok I.
        induction secs as [|a r IH]; [constructor|]. cbn [map fold_right] in I. destruct I as [Ia Ir].
        constructor; [apply s_ok; exact Ia | apply IH; exact Ir].
  - destruct v as [zero g attrs reserved rev count bsize more xh files free]; cbn [wf_v emit_v FfsGrammar.wf_v];
      unfold in_range; intros W.
    destruct W as (A & B & C & D & E & F & G & H & I & J & K & L & M & N & X & Y & Z0 & Z1).
    apply (vol_ok_files_flags dec enc u2s s2u nvar zero g attrs reserved rev count bsize more
             (xh_eo (fv_hlen more) xh) (xh_bytes xh) (map is_big files)); auto.
    { destruct xh as [[[[pre n] e] gp]|]; [right|left; split; reflexivity].
      exists pre, n, e, gp. cbn [wf_xh xh_bytes xh_eo] in *.
      destruct X as (X0 & X1 & X2 & X3 & X4 & X5 & X6 & X7 & X8 & X9). repeat split; auto. }
    { clear - f_ok K.
      induction files as [|a r IH]; [constructor|]. cbn [map fold_right] in K. destruct K as [Ka Kr].
      cbn [map]. constructor; [apply f_ok; exact Ka | apply IH; exact Kr]. }
    { intros E1. apply Z1. clear - E1. induction files as [|a r IH]; [discriminate|].
      cbn [map existsb] in *. destruct (is_big a); [reflexivity|]. cbn [orb] in *. apply IH. exact E1. }
Qed.

Lemma emit_v_sig v : wf_v v -> sub 40 4 (emit_v v) = FVH /\ 72 <= zlen (emit_v v).
Proof.
  intros W. pose proof (v_ok v W) as (_ & L & _).
  destruct v as [zero g attrs reserved rev count bsize more xh files free].
  cbn [FfsGrammar.wf_v] in W. destruct W as (A & B & C & _).
  split; [|exact L]. cbn [emit_v].
  apply (vol_bytes_sig dec enc u2s s2u nvar); auto. destruct C as [-> | ->]; reflexivity.
Qed.

(* the statement of C01 for bare BIOS regions, over the grammar datatype *)
Theorem grammar_save_identity l trail : wf_region u2s s2u l trail ->
  exists d0, forall d, (d0 <= d)%nat ->
    save_region dec enc u2s s2u nvar d (emit_region l trail) = Ok (emit_region l trail).
Proof.
  intros (Hne & Hl & Ht). unfold emit_region.
  apply (region_save_identity dec enc u2s s2u nvar).
  - intro E. apply Hne. destruct l; [reflexivity|discriminate].
  - rewrite Forall_map. clear Hne Ht.
    induction l as [|[p v] r IH]; [constructor|]. cbn [map fold_right] in Hl.
    destruct Hl as [(Hm & Ob & Wv & Hs) Hr]. constructor; [|apply IH; exact Hr].
    cbn [fst snd] in *.
    destruct (emit_v_sig v Wv) as (Hsig & L72).
    split; [|split; [exact Ob|apply v_ok; exact Wv]].
    apply (pair_scan_ok_intro dec enc u2s s2u nvar); auto.
  - apply (trail_scan_ok_intro dec enc u2s s2u nvar). exact Ht.
Qed.

End G.

(* ---------- the decidable check implies well-formedness ---------- *)
From Coq Require Import ZifyBool.
Section B.
Variable u2s s2u : bytes -> bytes.

Ltac split_andb H :=
  repeat match type of H with
         | _ && _ = true => let H1 := fresh "B" in apply andb_true_iff in H as [H H1]
         end.

Fixpoint wfb_s_sound (s : sspec) : wfb_s u2s s2u s = true -> wf_s u2s s2u s
with wfb_f_sound (f : fspec) : wfb_f u2s s2u f = true -> wf_f u2s s2u f
with wfb_v_sound (v : vspec) : wfb_v u2s s2u v = true -> wf_v u2s s2u v.
Proof.
  - destruct s as [t body|t body|g attrs extra payload|p|build p|t ops|v]; cbn [wfb_s wf_s]; unfold rng, in_range; intros H;
      split_andb H.
    + repeat split; auto; lia.
    + repeat split; auto; lia.
    + repeat match goal with |- _ /\ _ => split end; auto; try lia.
    + apply bytes_eqb_eq in H. repeat split; auto; lia.
    + apply bytes_eqb_eq in B2. repeat split; auto; lia.
    + repeat split; auto; lia.
    + split; [apply wfb_v_sound; exact H|lia].
  - destruct f as [g ckh ckf t attr state body|g ckh ckf t attr state body|g t attr state secs|g t attr state secs];
      cbn [wfb_f wf_f]; unfold rng, in_range; intros H; split_andb H.
    + repeat match goal with |- _ /\ _ => split end; auto; try lia.
      all: try (destruct ((t =? 1) && bytes_eqb g NVAR_GUID); [discriminate|reflexivity]).
      all: try (destruct (supported_file t); [right; destruct body; [reflexivity|discriminate]|left; reflexivity]).
    + repeat match goal with |- _ /\ _ => split end; auto; try lia.
      all: try (destruct ((t =? 1) && bytes_eqb g NVAR_GUID); [discriminate|reflexivity]).
      all: try (destruct (supported_file t); [right; destruct body; [reflexivity|discriminate]|left; reflexivity]).
    + assert (Hsecs : fold_right and True (map (wf_s u2s s2u) secs)).
      { match goal with Hx : forallb _ secs = true |- _ => revert Hx end.
        clear - wfb_s_sound. induction secs as [|a r IH]; intros Hx; [exact I|]. cbn [forallb] in Hx.
        apply andb_true_iff in Hx as [Ba Br]. cbn [map fold_right].
        split; [apply wfb_s_sound; exact Ba|apply IH; exact Br]. }
      repeat match goal with |- _ /\ _ => split end; auto; try lia.
      all: try (destruct secs; [discriminate|congruence]).
    + assert (Hsecs : fold_right and True (map (wf_s u2s s2u) secs)).
      { match goal with Hx : forallb _ secs = true |- _ => revert Hx end.
        clear - wfb_s_sound. induction secs as [|a r IH]; intros Hx; [exact I|]. cbn [forallb] in Hx.
        apply andb_true_iff in Hx as [Ba Br]. cbn [map fold_right].
        split; [apply wfb_s_sound; exact Ba|apply IH; exact Br]. }
      repeat match goal with |- _ /\ _ => split end; auto; try lia.
      all: try (destruct secs; [discriminate|congruence]).
  - destruct v as [zero g attrs reserved rev count bsize more xh files free]; cbn [wfb_v wf_v]; unfold rng, in_range; intros H;
      split_andb H.
    assert (Hxh : wf_xh (fv_hlen more) xh).
    { match goal with Hx : wfb_xh _ xh = true |- _ => revert Hx end. clear.
      destruct xh as [[[[pre n] e] gp]|]; cbn [wfb_xh wf_xh]; [|intros _; exact I]. intros Hx.
      split_andb Hx. repeat split; auto; lia. }
    assert (Hfiles : fold_right and True (map (wf_f u2s s2u) files)).
    { match goal with Hx : forallb _ files = true |- _ => revert Hx end.
      clear - wfb_f_sound. induction files as [|a r IH]; intros Hx; [exact I|]. cbn [forallb] in Hx.
      apply andb_true_iff in Hx as [Ba Br]. cbn [map fold_right].
      split; [apply wfb_f_sound; exact Ba|apply IH; exact Br]. }
    assert (Hg : g = FFS2 \/ g = FFS3).
    { match goal with Hx : bytes_eqb g FFS2 || bytes_eqb g FFS3 = true |- _ =>
        apply orb_true_iff in Hx as [E|E]; apply bytes_eqb_eq in E; auto end. }
    assert (Hbig : existsb is_big files = true -> g = FFS3).
    { intros E1. match goal with Hx : negb (existsb is_big files) || bytes_eqb g FFS3 = true |- _ =>
        rewrite E1 in Hx; cbn [negb orb] in Hx; apply bytes_eqb_eq in Hx; exact Hx end. }
    repeat match goal with |- _ /\ _ => split end; auto; try lia.
    all: try (destruct ((count =? 0) && (bsize =? 0)); [discriminate|reflexivity]).
Qed.

Lemma wfb_region_sound l trail : wfb_region u2s s2u l trail = true -> wf_region u2s s2u l trail.
Proof.
  unfold wfb_region, wf_region. intros H.
  apply andb_true_iff in H as [H Ht]. apply andb_true_iff in H as [Hn Hl].
  split; [destruct l; [discriminate|congruence]|]. split; [|exact Ht].
  clear Hn Ht. induction l as [|[p v] r IH]; [exact I|]. cbn [forallb] in Hl.
  apply andb_true_iff in Hl as [Ha Hr]. cbn [map fold_right]. split; [|apply IH; exact Hr].
  cbn [fst snd] in *. split_andb Ha. repeat split; auto; try lia. apply wfb_v_sound. exact B0.
Qed.

End B.

(* ---------- the domain of the theorem, decided on arbitrary bytes ---------- *)
From Fiano Require Import Model.FfsAbstract.

Theorem in_grammar_save_identity dec enc u2s s2u nvar d b :
  in_grammar dec u2s s2u nvar d b = true ->
  exists d0, forall d', (d0 <= d')%nat -> save_region dec enc u2s s2u nvar d' b = Ok b.
Proof.
  unfold in_grammar.
  destruct (abstract_region dec u2s nvar d b) as [[l trail]|]; [|discriminate].
  intros H. apply andb_true_iff in H as [W E]. apply bytes_eqb_eq in E. rewrite <- E.
  apply grammar_save_identity. apply wfb_region_sound. exact W.
Qed.
