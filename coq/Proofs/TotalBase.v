(* Proofs/TotalBase.v — the shape of every C20 statement and the glue lemmas that
   transport the totality facts of the other properties' proof files into it. *)
From Fiano Require Import Base.Bytes Base.BytesLemmas.
From Coq Require Import ZifyBool ZifyNat.
Open Scope Z_scope.

(* "returns a value or an error": the modelled Go function neither panics (no
   checked slice / index / conversion fails) nor exhausts the fuel its model states *)
Definition total {A} (o : outcome A) : Prop := is_panic o = false /\ is_fuel o = false.

Lemma total_ok {A} (a : A) : total (Ok a).
Proof. split; reflexivity. Qed.

Lemma total_err {A} e : total (@Err A e).
Proof. split; reflexivity. Qed.

Lemma total_bind {A B} (x : outcome A) (f : A -> outcome B) :
  total x -> (forall a, x = Ok a -> total (f a)) -> total (bind x f).
Proof.
  destruct x as [a|e|s|]; cbn [bind]; intros [P F] H; try discriminate.
  - apply H; reflexivity.
  - apply total_err.
Qed.

Lemma total_of_ne {A} (o : outcome A) : o <> Fuel -> (forall w, o <> Panic w) -> total o.
Proof.
  intros F P. destruct o as [a|e|s|]; split; try reflexivity.
  - exfalso. eapply P; reflexivity.
  - exfalso. apply F; reflexivity.
Qed.

Lemma total_inv {A} (o : outcome A) : total o -> (exists a, o = Ok a) \/ (exists e, o = Err e).
Proof. destruct o as [a|e|s|]; intros [P F]; try discriminate; eauto. Qed.

Lemma total_of_opt_some {A} site (o : option A) a : o = Some a -> total (of_opt site o).
Proof. intros ->. apply total_ok. Qed.

(* a checked slice under an established bound *)
Lemma total_slice site lo hi b : 0 <= lo <= hi -> hi <= zlen b -> total (of_opt site (slice lo hi b)).
Proof. intros. rewrite slice_ok by lia. apply total_ok. Qed.

Lemma total_if {A} (c : bool) (x y : outcome A) : total x -> total y -> total (if c then x else y).
Proof. destruct c; auto. Qed.
