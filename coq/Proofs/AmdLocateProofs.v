(* Proofs/AmdLocateProofs.v — which directory discovery reports (property C17):
   the BIOS level-1 directory through the four EFS pointer slots in their order or through the cookie
   scan, the level-2 directories through the first entry of the level-2 type, and the two directions of
   entry extraction that Proofs/AmdProofs.v leaves open (BIOS entries inside the image are extracted,
   entries that do not lie inside the image are refused). *)
From Fiano Require Import Base.Bytes Base.BytesLemmas Gen.Consts Model.Amd Proofs.AmdProofs.
From Coq Require Import ZifyBool ZifyNat.
Open Scope Z_scope.

(* a pointer slot of the EFS that parsePSPFirmware passes over: zero, beyond the image, or not a
   directory (the parser reports an error) *)
Definition slot_rejected (image : bytes) (q : Z) : Prop :=
  q = 0 \/ zlen image < q \/ (0 <= q <= zlen image /\ exists e, parse_bios_table (zskipn q image) = Err e).

Lemma table_at_ok {T} (parse : bytes -> outcome (T * Z)) site image p t len :
  0 <= p <= zlen image -> parse (zskipn p image) = Ok (t, len) ->
  table_at parse site image p = Ok (Some (t, p, len)).
Proof.
  intros B P. unfold table_at. rewrite slice_ok by lia. cbn [of_opt bind].
  rewrite zskipn_as_sub by lia. rewrite P. reflexivity.
Qed.

Lemma table_at_err {T} (parse : bytes -> outcome (T * Z)) site image p e :
  0 <= p <= zlen image -> parse (zskipn p image) = Err e ->
  table_at parse site image p = Ok None.
Proof.
  intros B P. unfold table_at. rewrite slice_ok by lia. cbn [of_opt bind].
  rewrite zskipn_as_sub by lia. rewrite P. reflexivity.
Qed.

Lemma bios_ptrs_skip image q rest : slot_rejected image q ->
  bios_level1_ptrs (q :: rest) image = bios_level1_ptrs rest image.
Proof.
  intros [-> | [H | (B & e & P)]]; cbn [bios_level1_ptrs].
  - reflexivity.
  - replace ((q =? 0) || (zlen image <? q)) with true by lia. reflexivity.
  - destruct ((q =? 0) || (zlen image <? q)); [reflexivity|].
    rewrite (table_at_err _ _ _ _ e) by auto. reflexivity.
Qed.

(* the slots are tried in order: the first one that is neither rejected nor empty decides *)
Lemma bios_level1_ptrs_first pre p post image t len :
  (forall q, In q pre -> slot_rejected image q) ->
  p <> 0 -> 0 <= p <= zlen image -> parse_bios_table (zskipn p image) = Ok (t, len) ->
  bios_level1_ptrs (pre ++ p :: post) image = Ok (Some (t, p, len)).
Proof.
  intros R N B P. induction pre as [|q pre IH]; cbn [app].
  - cbn [bios_level1_ptrs]. replace ((p =? 0) || (zlen image <? p)) with false by lia.
    rewrite (table_at_ok _ _ _ _ t len) by auto. reflexivity.
  - rewrite bios_ptrs_skip by (apply R; left; reflexivity).
    apply IH. intros q' I. apply R. right. exact I.
Qed.

Lemma bios_level1_ptrs_none ptrs image :
  (forall q, In q ptrs -> slot_rejected image q) -> bios_level1_ptrs ptrs image = Ok None.
Proof.
  induction ptrs as [|q ptrs IH]; intros R; [reflexivity|].
  rewrite bios_ptrs_skip by (apply R; left; reflexivity). apply IH. intros q' I. apply R. right. exact I.
Qed.

(* pointer-located BIOS level-1 directory: the four slots of the EFS in the order
   00h-0Fh, 10h-1Fh, 30h-3Fh, 60h-...; every slot in front of the deciding one is passed over *)
Theorem bios_level1_by_pointer image e pre p post t len :
  [efs_bios0 e; efs_bios1 e; efs_bios2 e; efs_bios3 e] = pre ++ p :: post ->
  (forall q, In q pre -> slot_rejected image q) ->
  p <> 0 -> 0 <= p <= zlen image -> parse_bios_table (zskipn p image) = Ok (t, len) ->
  bios_level1 image e = Ok (Some (t, p, len)).
Proof.
  intros E R N B P. unfold bios_level1. rewrite E.
  rewrite (bios_level1_ptrs_first pre p post image t len) by auto. reflexivity.
Qed.

(* scan-located: no slot is usable, the first "$BHD" whose table parses is reported *)
Theorem bios_level1_by_scan image e idx t len :
  (forall q, In q [efs_bios0 e; efs_bios1 e; efs_bios2 e; efs_bios3 e] -> slot_rejected image q) ->
  find_sub amd_bios_cookie_bytes image = Some idx ->
  parse_bios_table (zskipn idx image) = Ok (t, len) ->
  bios_level1 image e = Ok (Some (t, idx, len)).
Proof.
  intros R F P. unfold bios_level1. rewrite bios_level1_ptrs_none by auto. cbn [bind].
  unfold find_bios_table. rewrite (find_table_first _ _ _ _ 0 idx t len) by auto. reflexivity.
Qed.

(* level 2: the first entry of the level-2 type decides *)
Theorem psp_level2_by_entry image t e t2 len :
  find (fun e => pe_type e =? amd_psp_l2_entry_type) (dt_entries t) = Some e ->
  pe_loc e <> 0 -> 0 <= pe_loc e < zlen image ->
  parse_psp_table (zskipn (pe_loc e) image) = Ok (t2, len) ->
  psp_level2 image t = Ok (Some (t2, pe_loc e, len)).
Proof.
  intros F N B P. unfold psp_level2. rewrite F.
  replace (negb (pe_loc e =? 0) && (pe_loc e <? zlen image)) with true by lia.
  apply table_at_ok; auto; lia.
Qed.

Theorem psp_level2_absent image t :
  (find (fun e => pe_type e =? amd_psp_l2_entry_type) (dt_entries t) = None \/
   exists e, find (fun e => pe_type e =? amd_psp_l2_entry_type) (dt_entries t) = Some e /\
             (pe_loc e = 0 \/ zlen image <= pe_loc e)) ->
  psp_level2 image t = Ok None.
Proof.
  intros [F | (e & F & H)]; unfold psp_level2; rewrite F; [reflexivity|].
  replace (negb (pe_loc e =? 0) && (pe_loc e <? zlen image)) with false by lia. reflexivity.
Qed.

Theorem bios_level2_by_entry image t e t2 len :
  find (fun e => be_type e =? amd_bios_l2_entry_type) (dt_entries t) = Some e ->
  be_src e <> 0 -> 0 <= be_src e < zlen image ->
  parse_bios_table (zskipn (be_src e) image) = Ok (t2, len) ->
  bios_level2 image t = Ok (Some (t2, be_src e, len)).
Proof.
  intros F N B P. unfold bios_level2. rewrite F.
  replace (negb (be_src e =? 0) && (be_src e <? zlen image)) with true by lia.
  apply table_at_ok; auto; lia.
Qed.

Theorem bios_level2_absent image t :
  (find (fun e => be_type e =? amd_bios_l2_entry_type) (dt_entries t) = None \/
   exists e, find (fun e => be_type e =? amd_bios_l2_entry_type) (dt_entries t) = Some e /\
             (be_src e = 0 \/ zlen image <= be_src e)) ->
  bios_level2 image t = Ok None.
Proof.
  intros [F | (e & F & H)]; unfold bios_level2; rewrite F; [reflexivity|].
  replace (negb (be_src e =? 0) && (be_src e <? zlen image)) with false by lia. reflexivity.
Qed.

(* ---- extraction: the directions AmdProofs leaves open ---- *)

Theorem extract_bios_total fw image level id inst e : zlen image < two64 -> fw_wf fw ->
  get_bios_entry fw level id inst = Ok e -> be_src e + be_size e <= zlen image ->
  extract_bios_entry fw image level id inst = Ok (sub (be_src e) (be_size e) image).
Proof.
  intros Hi W G B. unfold extract_bios_entry. rewrite G. cbn [bind].
  destruct (get_bios_entry_wf _ _ _ _ _ W G) as (_ & Hs & Hl).
  apply get_range_bytes_total; lia.
Qed.

(* a range that does not lie inside the image is refused, whatever its 64-bit start (no wrap-around,
   no truncation) *)
Lemma get_range_bytes_refuses image start length :
  0 <= start < two64 -> 0 <= length < two32 -> zlen image < start + length ->
  get_range_bytes image start length = Err E_INVALID.
Proof.
  intros Hs Hl Ho. unfold get_range_bytes, check_boundaries.
  set (e := (start + length) mod two64).
  destruct (negb (zlen image <? start) && negb (zlen image <? e) && negb (e <? start)) eqn:C;
    [|reflexivity].
  exfalso.
  assert (E : e = start + length) by (unfold e; apply add_mod64_nowrap; auto; fold e; lia).
  lia.
Qed.

Theorem extract_outside_refused :
  (forall fw image level id e, fw_wf fw ->
    get_psp_entry fw level id = Ok e -> zlen image < pe_loc e + pe_size e ->
    extract_psp_entry fw image level id = Err E_INVALID) /\
  (forall fw image level id inst e, fw_wf fw ->
    get_bios_entry fw level id inst = Ok e -> zlen image < be_src e + be_size e ->
    extract_bios_entry fw image level id inst = Err E_INVALID).
Proof.
  split.
  - intros fw image level id e W G O. unfold extract_psp_entry. rewrite G. cbn [bind].
    destruct (get_psp_entry_wf _ _ _ _ W G) as (_ & Hs & Hl).
    apply get_range_bytes_refuses; auto.
  - intros fw image level id inst e W G O. unfold extract_bios_entry. rewrite G. cbn [bind].
    destruct (get_bios_entry_wf _ _ _ _ _ W G) as (_ & Hs & Hl).
    apply get_range_bytes_refuses; auto.
Qed.
