(* Proofs/ValidProofs.v — lemmas of property C02: what the assembler produces passes the checks of
   the independent reader (Model/Valid.v). *)
From Fiano Require Import Base.Bytes Base.BytesLemmas Gen.Consts Model.Ffs Model.Edit Model.Valid
  Proofs.EditProofs Proofs.AsmProofs.
From Coq Require Import ZifyBool ZifyNat.
Open Scope Z_scope.

(* ---------- same total size ---------- *)

Section Size.
Variable dec : Z -> bytes -> option bytes.
Variable enc : Z -> bytes -> option bytes.
Variable u2s : bytes -> bytes.
Variable s2u : bytes -> bytes.
Variable nvar : bytes -> option bytes.

Lemma asm_bios_size elems len st es b st' : 0 <= len ->
  asm_bios enc s2u elems len st = Ok (es, b, st') -> zlen b = len.
Proof.
  intros Hl H. unfold asm_bios in H.
  apply bind_ok in H as ([es1 st1] & He & H).
  destruct (first_fv es1); [|discriminate].
  destruct (set_polarity (fst st1) (fv_polarity (v_attrs v))); [|discriminate].
  apply bind_ok in H as (b1 & Hc & H). inversion H; subst.
  rewrite (copy_elems_len es _ 0 b ltac:(lia) Hc). apply zlen_zrepeat. exact Hl.
Qed.

(* the image that is written has the size of the image that was read *)
Lemma edit_and_save_size d ops img out :
  edit_and_save dec enc u2s s2u nvar d ops img = Ok out -> zlen out = zlen img.
Proof.
  unfold edit_and_save, edit_and_save_gen. intros H.
  apply bind_ok in H as ([cops pol0] & _ & H).
  apply bind_ok in H as ([elems pol] & _ & H).
  apply bind_ok in H as (elems' & _ & H).
  apply bind_ok in H as ([[es b] st'] & Ha & H). inversion H; subst.
  eapply asm_bios_size; [apply zlen_nonneg | exact Ha].
Qed.

(* an operation that fails stops the run: save is not reached, nothing is written *)
Lemma edit_error_no_output d ops img cops pol0 elems pol e :
  parse_cli dec u2s nvar d 240 ops = Ok (cops, pol0) ->
  parse_bios dec u2s nvar d (Z.to_nat (zlen img) + 1) pol0 img 0 = Ok (elems, pol) ->
  run_ops d pol cops elems = Err e ->
  edit_and_save dec enc u2s s2u nvar d ops img = Err e.
Proof. intros H1 H2 H3. unfold edit_and_save, edit_and_save_gen. rewrite H1. cbn [bind]. rewrite H2. cbn [bind]. rewrite H3. reflexivity. Qed.

End Size.

(* ---------- bytes of a file header ---------- *)

Lemma rd_seg (a d r : bytes) w k : zlen a = k -> zlen d = Z.of_nat w -> rd k w (a ++ d ++ r) = le_dec d.
Proof. intros <- Hd. unfold rd. rewrite <- Hd. rewrite sub_app_mid. reflexivity. Qed.

Lemma le_dec_one x : le_dec [x] = x.
Proof. cbn [le_dec]. lia. Qed.

Lemma sum_list_app a b : sum_list (a ++ b) = sum_list a + sum_list b.
Proof. unfold sum_list. induction a as [|x r IH]; cbn [app fold_right]; lia. Qed.

Lemma sum8_app a b : sum8 (a ++ b) = (sum8 a + sum8 b) mod 256.
Proof. unfold sum8. rewrite sum_list_app. rewrite <- Z.add_mod by lia. reflexivity. Qed.

Lemma sum8_cons x r : sum8 (x :: r) = (x + sum8 r) mod 256.
Proof. unfold sum8. cbn [sum_list fold_right]. rewrite Z.add_mod_idemp_r by lia. reflexivity. Qed.

Lemma sum8_range b : 0 <= sum8 b < 256.
Proof. unfold sum8. apply Z.mod_pos_bound. lia. Qed.

Lemma fhb_len g ckh ckf ftype attr size3 state ext large : zlen g = 16 ->
  zlen (file_header_bytes g ckh ckf ftype attr size3 state ext large) = if large then 32 else 24.
Proof.
  intros Hg. unfold file_header_bytes. rewrite !zlen_app, Hg, zlen_le_enc.
  destruct large; rewrite ?zlen_le_enc;
    repeat match goal with |- context [zlen (?a :: ?l)] => rewrite (zlen_cons a l) end;
    rewrite ?zlen_nil; lia.
Qed.

(* the sum of the header bytes in terms of its fields *)
Lemma fhb_sum g ckh ckf ftype attr size3 state ext large :
  sum_list (file_header_bytes g ckh ckf ftype attr size3 state ext large) =
  sum_list g + ckh + ckf + ftype + attr + sum_list (le_enc 3 size3) + state +
  (if large then sum_list (le_enc 8 ext) else 0).
Proof.
  unfold file_header_bytes. rewrite !sum_list_app.
  destruct large; unfold sum_list at 2 4; cbn [fold_right]; unfold sum_list; cbn [fold_right]; lia.
Qed.

Section Fhb.
Variables (g : bytes) (ckh ckf ftype attr size3 state ext : Z) (large : bool) (data : bytes).
Hypothesis Hg : zlen g = 16.
Let out := file_header_bytes g ckh ckf ftype attr size3 state ext large ++ data.

Lemma fhb_rd16 : rd 16 1 out = ckh.
Proof.
  unfold out, file_header_bytes. rewrite <- !app_assoc.
  change (g ++ [ckh; ckf; ftype; attr] ++ ?t) with (g ++ [ckh] ++ ([ckf; ftype; attr] ++ t)).
  rewrite (rd_seg g [ckh] _ 1 16 Hg eq_refl). apply le_dec_one.
Qed.

Lemma fhb_rd17 : rd 17 1 out = ckf.
Proof.
  unfold out, file_header_bytes. rewrite <- !app_assoc.
  change (g ++ [ckh; ckf; ftype; attr] ++ ?t) with (g ++ [ckh] ++ [ckf] ++ ([ftype; attr] ++ t)).
  rewrite (app_assoc g [ckh]).
  rewrite (rd_seg (g ++ [ckh]) [ckf] _ 1 17); [apply le_dec_one | rewrite zlen_app, Hg; reflexivity | reflexivity].
Qed.

Lemma fhb_rd18 : rd 18 1 out = ftype.
Proof.
  unfold out, file_header_bytes. rewrite <- !app_assoc.
  change (g ++ [ckh; ckf; ftype; attr] ++ ?t) with (g ++ [ckh; ckf] ++ [ftype] ++ ([attr] ++ t)).
  rewrite (app_assoc g [ckh; ckf]).
  rewrite (rd_seg (g ++ [ckh; ckf]) [ftype] _ 1 18); [apply le_dec_one | rewrite zlen_app, Hg; reflexivity | reflexivity].
Qed.

Lemma fhb_rd19 : rd 19 1 out = attr.
Proof.
  unfold out, file_header_bytes. rewrite <- !app_assoc.
  change (g ++ [ckh; ckf; ftype; attr] ++ ?t) with (g ++ [ckh; ckf; ftype] ++ [attr] ++ t).
  rewrite (app_assoc g [ckh; ckf; ftype]).
  rewrite (rd_seg (g ++ [ckh; ckf; ftype]) [attr] _ 1 19); [apply le_dec_one | rewrite zlen_app, Hg; reflexivity | reflexivity].
Qed.

Lemma fhb_rd20 : 0 <= size3 < 2 ^ 24 -> rd 20 3 out = size3.
Proof.
  intros Hs. unfold out, file_header_bytes. rewrite <- !app_assoc.
  rewrite (app_assoc g [ckh; ckf; ftype; attr]).
  rewrite (rd_seg (g ++ [ckh; ckf; ftype; attr]) (le_enc 3 size3) _ 3 20);
    [apply le_dec_enc; exact Hs | rewrite zlen_app, Hg; reflexivity | apply zlen_le_enc].
Qed.

Lemma fhb_rd23 : rd 23 1 out = state.
Proof.
  unfold out, file_header_bytes. rewrite <- !app_assoc.
  rewrite (app_assoc g [ckh; ckf; ftype; attr]).
  rewrite (app_assoc (g ++ [ckh; ckf; ftype; attr]) (le_enc 3 size3)).
  rewrite (rd_seg ((g ++ [ckh; ckf; ftype; attr]) ++ le_enc 3 size3) [state] _ 1 23);
    [apply le_dec_one | rewrite !zlen_app, Hg, zlen_le_enc; reflexivity | reflexivity].
Qed.

Lemma fhb_rd24 : large = true -> 0 <= ext < 2 ^ 64 -> rd 24 8 out = ext.
Proof.
  intros Hl He. unfold out, file_header_bytes. rewrite Hl. rewrite <- !app_assoc.
  rewrite (app_assoc g [ckh; ckf; ftype; attr]).
  rewrite (app_assoc (g ++ [ckh; ckf; ftype; attr]) (le_enc 3 size3)).
  rewrite (app_assoc ((g ++ [ckh; ckf; ftype; attr]) ++ le_enc 3 size3) [state]).
  rewrite (rd_seg (((g ++ [ckh; ckf; ftype; attr]) ++ le_enc 3 size3) ++ [state]) (le_enc 8 ext) _ 8 24);
    [apply le_dec_enc; exact He | rewrite !zlen_app, Hg, zlen_le_enc; reflexivity | apply zlen_le_enc].
Qed.

Lemma fhb_sub_hdr : sub 0 (if large then 32 else 24) out =
  file_header_bytes g ckh ckf ftype attr size3 state ext large.
Proof. unfold out. apply sub_app_here. apply fhb_len. exact Hg. Qed.

Lemma fhb_body : zskipn (if large then 32 else 24) out = data.
Proof. unfold out. rewrite <- (fhb_len g ckh ckf ftype attr size3 state ext large Hg). apply zskipn_app_exact. Qed.

End Fhb.

(* ---------- a file built by ChecksumAndAssemble passes the reader's per-file checks ---------- *)

Lemma ck_header_zero S c0 f0 st f' :
  ((S + ((c0 - ((S + c0 + f0 + st) mod 256 - f0 - st) mod 256) mod 256) + f' + st) mod 256 - f' - st) mod 256 = 0.
Proof. Z.div_mod_to_equations. lia. Qed.

Lemma ck_body_zero s : (s + (0 - s) mod 256) mod 256 = 0.
Proof. Z.div_mod_to_equations. lia. Qed.

Lemma fhb_true_firstn24 g ckh ckf ftype attr size3 state ext : zlen g = 16 ->
  zfirstn 24 (file_header_bytes g ckh ckf ftype attr size3 state ext true) =
  file_header_bytes g ckh ckf ftype attr size3 state ext false.
Proof.
  intros Hg. pose proof (fhb_len g ckh ckf ftype attr size3 state ext false Hg) as L. cbv iota in L.
  unfold file_header_bytes in *. rewrite app_nil_r in *.
  rewrite !app_assoc in *. rewrite <- L. apply zfirstn_app_exact.
Qed.

Lemma write3_is_marker ext : (write3 ext =? 16777215) = (16777215 <=? ext).
Proof. unfold write3. destruct (16777215 <=? ext) eqn:E; lia. Qed.

Section CaaValid.
Variable vfv : bytes -> bool.
Variable venc : bytes -> bool.
Variable dec : Z -> bytes -> option bytes.

Lemma caa_v_file_gen h ext attr data :
  zlen (f_guid h) = 16 -> 0 <= ext < 2 ^ 64 ->
  ext = file_hlen attr + zlen data -> attr_large attr = (16777215 <=? ext) ->
  (supported_file (f_type h) = true ->
   v_sections vfv venc dec (S (Z.to_nat ext)) (snd (checksum_and_assemble h ext attr data)) (file_hlen attr) = true) ->
  v_file vfv venc dec (snd (checksum_and_assemble h ext attr data)) = true.
Proof.
  intros Hg He Hext Hl Hsup.
  unfold checksum_and_assemble in *. cbn [snd] in *.
  set (large := attr_large attr) in *.
  set (size3 := write3 ext).
  set (hs := if large then 32 else 24).
  set (hb := file_header_bytes (f_guid h) (f_ckh h) (f_ckf h) (f_type h) attr size3 (f_state h) ext true).
  set (sum := (sum8 (zfirstn hs hb) - f_ckf h - f_state h) mod 256).
  set (ckh := (f_ckh h - sum) mod 256).
  set (ckf := if attr_checksum attr then (0 - sum8 data) mod 256 else 170).
  set (out := file_header_bytes (f_guid h) ckh ckf (f_type h) attr size3 (f_state h) ext large ++ data).
  assert (Hs3 : 0 <= size3 < 2 ^ 24) by (unfold size3, write3; destruct (16777215 <=? ext) eqn:E; lia).
  assert (R19 : rd 19 1 out = attr) by (apply fhb_rd19; exact Hg).
  assert (R20 : rd 20 3 out = size3) by (apply fhb_rd20; auto).
  assert (R17 : rd 17 1 out = ckf) by (apply fhb_rd17; exact Hg).
  assert (R18 : rd 18 1 out = f_type h) by (apply fhb_rd18; exact Hg).
  assert (R23 : rd 23 1 out = f_state h) by (apply fhb_rd23; exact Hg).
  assert (Lout : zlen out = ext).
  { unfold out. rewrite zlen_app, fhb_len by exact Hg. rewrite Hext. unfold file_hlen. fold large. reflexivity. }
  unfold v_file. rewrite R19, R20, R17, R18, R23. fold large.
  replace (if large then 32 else 24) with hs by reflexivity.
  assert (Hhs : hs = file_hlen attr) by (unfold hs, file_hlen; reflexivity).
  (* the six conjuncts *)
  assert (C1 : Bool.eqb large (size3 =? 16777215) = true).
  { unfold size3. rewrite write3_is_marker, <- Hl. apply Bool.eqb_reflx. }
  assert (C2 : (hs <=? zlen out) = true) by (pose proof (zlen_nonneg data); lia).
  assert (C3 : ((if large then rd 24 8 out else size3) =? zlen out) = true).
  { rewrite Lout. destruct large eqn:El.
    - unfold out. rewrite (fhb_rd24 _ _ _ _ _ _ _ _ _ _ Hg eq_refl He). lia.
    - unfold size3, write3. rewrite <- Hl. lia. }
  assert (C4 : ((sum8 (sub 0 hs out) - ckf - f_state h) mod 256 =? 0) = true).
  { unfold hs at 1. unfold out. rewrite (fhb_sub_hdr _ _ _ _ _ _ _ _ _ _ Hg).
    assert (Ez : sum8 (zfirstn hs hb) =
                 (sum_list (file_header_bytes (f_guid h) (f_ckh h) (f_ckf h) (f_type h) attr size3 (f_state h) ext large)) mod 256).
    { unfold hs, hb. destruct large.
      - rewrite <- (fhb_len (f_guid h) (f_ckh h) (f_ckf h) (f_type h) attr size3 (f_state h) ext true Hg).
        cbv iota. unfold zfirstn, zlen. rewrite Nat2Z.id, firstn_all. reflexivity.
      - rewrite fhb_true_firstn24 by exact Hg. reflexivity. }
    unfold sum8 at 1. rewrite !fhb_sum in *.
    set (S := sum_list (f_guid h) + f_type h + attr + sum_list (le_enc 3 size3) +
              (if large then sum_list (le_enc 8 ext) else 0)).
    unfold ckh, sum. rewrite Ez.
    replace (sum_list (f_guid h) + f_ckh h + f_ckf h + f_type h + attr + sum_list (le_enc 3 size3) + f_state h +
             (if large then sum_list (le_enc 8 ext) else 0)) with (S + f_ckh h + f_ckf h + f_state h) by (unfold S; lia).
    match goal with |- ((?X mod 256 - _ - _) mod 256 =? 0) = true =>
      replace X with (S + ((f_ckh h - ((S + f_ckh h + f_ckf h + f_state h) mod 256 - f_ckf h - f_state h) mod 256) mod 256) + ckf + f_state h)
        by (unfold S; lia) end.
    rewrite ck_header_zero. reflexivity. }
  assert (C5 : (if attr_checksum attr then (sum8 (zskipn hs out) + ckf) mod 256 =? 0 else ckf =? 170) = true).
  { unfold hs, out. rewrite (fhb_body _ _ _ _ _ _ _ _ _ _ Hg). unfold ckf.
    destruct (attr_checksum attr); [rewrite ck_body_zero|]; reflexivity. }
  rewrite C1, C2, C3, C4, C5. cbn [andb].
  destruct (supported_file (f_type h)); [|reflexivity].
  rewrite Lout. rewrite Hhs. apply Hsup. reflexivity.
Qed.

Lemma caa_v_file h ext attr data :
  zlen (f_guid h) = 16 -> 0 <= ext < 2 ^ 64 ->
  ext = file_hlen attr + zlen data -> attr_large attr = (16777215 <=? ext) ->
  supported_file (f_type h) = false ->
  v_file vfv venc dec (snd (checksum_and_assemble h ext attr data)) = true.
Proof. intros Hg He Hext Hl Hsup. apply caa_v_file_gen; auto. rewrite Hsup. discriminate. Qed.

End CaaValid.

(* ---------- pad files ---------- *)

Lemma all_eq_app v a b : all_eq v (a ++ b) = all_eq v a && all_eq v b.
Proof. unfold all_eq. apply forallb_app. Qed.

Lemma In_firstn' {A} (x : A) n l : In x (firstn n l) -> In x l.
Proof.
  revert l. induction n as [|n IH]; intros l H; [destruct H|]. destruct l; [exact H|].
  destruct H as [-> | H]; [left; reflexivity | right; apply IH; exact H].
Qed.
Lemma all_eq_firstn v n l : all_eq v l = true -> all_eq v (firstn n l) = true.
Proof.
  unfold all_eq. rewrite !forallb_forall. intros H x Hx. apply H. eapply In_firstn'; eauto.
Qed.
Lemma In_skipn {A} (x : A) n l : In x (skipn n l) -> In x l.
Proof. revert l. induction n as [|n IH]; intros l H; [exact H|]. destruct l; [exact H|]. right. apply IH. exact H. Qed.
Lemma all_eq_skipn v n l : all_eq v l = true -> all_eq v (skipn n l) = true.
Proof.
  unfold all_eq. rewrite !forallb_forall. intros H x Hx. apply H. eapply In_skipn; eauto.
Qed.
Lemma all_eq_zrepeat v n : all_eq v (zrepeat v n) = true.
Proof.
  unfold zrepeat. induction (Z.to_nat n) as [|k IH]; [reflexivity|].
  cbn [repeatz all_eq forallb]. rewrite Z.eqb_refl. exact IH.
Qed.

Lemma nth_error_split' {A} (l : list A) k x : nth_error l k = Some x ->
  exists l1 l2, l = l1 ++ x :: l2 /\ length l1 = k.
Proof. intros H. destruct (nth_error_split l k H) as (l1 & l2 & E & L). eauto. Qed.

Lemma skipn_app_len {A} (l1 r : list A) : skipn (length l1) (l1 ++ r) = r.
Proof. induction l1 as [|a l IH]; cbn; auto. Qed.

Lemma rd1_nth b k x : nth_error b k = Some x -> rd (Z.of_nat k) 1 b = x.
Proof.
  intros H. destruct (nth_error_split' b k x H) as (l1 & l2 & -> & L). subst k.
  unfold rd, sub, zskipn, zfirstn. rewrite !Nat2Z.id. rewrite skipn_app_len.
  cbn [firstn le_dec]. lia.
Qed.

(* the first n bytes are all v: so is byte k < n *)
Lemma all_eq_rd v b n k : all_eq v (sub 0 n b) = true -> 0 <= k < n -> n <= zlen b -> rd k 1 b = v.
Proof.
  intros H Hk Hn. unfold sub, zskipn, zfirstn in H. cbn [Z.to_nat skipn] in H.
  destruct (nth_error b (Z.to_nat k)) as [x|] eqn:E.
  - rewrite <- (Z2Nat.id k) by lia. rewrite (rd1_nth b _ x E).
    unfold all_eq in H. rewrite forallb_forall in H.
    assert (Hin : In x (firstn (Z.to_nat n) b)).
    { destruct (nth_error_split' b _ x E) as (l1 & l2 & -> & L).
      rewrite firstn_app. apply in_or_app. right.
      replace (Z.to_nat n - length l1)%nat with (S (Z.to_nat n - length l1 - 1)) by lia.
      left. reflexivity. }
    specialize (H x Hin). lia.
  - apply nth_error_None in E. unfold zlen in Hn. lia.
Qed.

Lemma set_size_large size : attr_large (snd (set_size 0 size false)) = (16777215 <=? size).
Proof. unfold set_size. destruct (16777215 <=? size); reflexivity. Qed.

Lemma pad_as_caa pol size b : create_pad_file pol size = Ok b ->
  exists attr, (attr = 0 \/ attr = 1) /\ attr_large attr = (16777215 <=? size) /\ 24 <= size /\
    (pol = 0 \/ pol = 255) /\
    b = snd (checksum_and_assemble
               (mkFile (zrepeat pol 16) 0 0 240 attr (write3 size) (Z.lxor 7 pol) size 24 None)
               size attr (zrepeat pol (size - file_hlen attr))).
Proof.
  unfold create_pad_file. destruct (size <? 24) eqn:E1; [discriminate|].
  destruct (negb ((pol =? 255) || (pol =? 0))) eqn:E2; [discriminate|].
  pose proof (set_size_large size) as L.
  unfold set_size in *. destruct (16777215 <=? size) eqn:E3; cbn [snd] in L.
  - change (set_large 0 true) with 1 in *. intros H. exists 1. repeat split; auto; try lia.
    inversion H. unfold file_hlen. rewrite L. reflexivity.
  - change (set_large 0 false) with 0 in *. intros H. exists 0. repeat split; auto; try lia.
    inversion H. unfold file_hlen. rewrite L. reflexivity.
Qed.

Lemma pad_v_file (vfv venc : bytes -> bool) (dec : Z -> bytes -> option bytes) pol size b :
  create_pad_file pol size = Ok b -> size < 2 ^ 64 -> v_file vfv venc dec b = true.
Proof.
  intros H Hs. destruct (pad_as_caa pol size b H) as (attr & Ha & Hl & H24 & Hp & ->).
  assert (Hh : file_hlen attr <= size) by (unfold file_hlen; destruct (attr_large attr); lia).
  apply caa_v_file.
  - cbn [f_guid]. apply zlen_zrepeat. lia.
  - lia.
  - rewrite zlen_zrepeat by lia. lia.
  - exact Hl.
  - reflexivity.
Qed.

Lemma pad_attr pol size b : create_pad_file pol size = Ok b ->
  attr_align (rd 19 1 b) = 1 /\ file_hlen (rd 19 1 b) <= size.
Proof.
  intros H. destruct (pad_as_caa pol size b H) as (attr & Ha & Hl & H24 & Hp & ->).
  unfold checksum_and_assemble. cbn [snd f_guid].
  rewrite fhb_rd19 by (apply zlen_zrepeat; lia).
  split.
  - destruct Ha as [-> | ->]; reflexivity.
  - unfold file_hlen. rewrite Hl. destruct (16777215 <=? size) eqn:E; lia.
Qed.

Lemma pad_not_free pol size b : create_pad_file pol size = Ok b -> all_eq pol (sub 0 24 b) = false.
Proof.
  intros H. destruct (all_eq pol (sub 0 24 b)) eqn:E; [|reflexivity]. exfalso.
  pose proof (create_pad_file_len pol size b H) as Lb.
  destruct (pad_as_caa pol size b H) as (attr & Ha & Hl & H24 & Hp & Eb).
  assert (R : rd 17 1 b = pol) by (eapply all_eq_rd; eauto; lia).
  rewrite Eb in R. unfold checksum_and_assemble in R. cbn [snd f_guid] in R.
  rewrite fhb_rd17 in R by (apply zlen_zrepeat; lia).
  assert (Hc : attr_checksum attr = false) by (destruct Ha as [-> | ->]; reflexivity).
  rewrite Hc in R. lia.
Qed.


(* ---------- the reader accepts the file area the file loop builds ---------- *)

Lemma zfirstn_app_le {A} n (a b : list A) : n <= zlen a -> zfirstn n (a ++ b) = zfirstn n a.
Proof.
  intros H. unfold zfirstn, zlen in *. rewrite firstn_app.
  replace (Z.to_nat n - length a)%nat with 0%nat by lia. cbn [firstn]. apply app_nil_r.
Qed.

Lemma zskipn_app_le {A} n (a b : list A) : n <= zlen a -> zskipn n (a ++ b) = zskipn n a ++ b.
Proof.
  intros H. unfold zskipn, zlen in *. rewrite skipn_app.
  replace (Z.to_nat n - length a)%nat with 0%nat by lia. reflexivity.
Qed.

Lemma sub_app_inl (a b : bytes) off len : 0 <= off -> 0 <= len -> off + len <= zlen a ->
  sub off len (a ++ b) = sub off len a.
Proof.
  intros H1 H2 H3. unfold sub. rewrite zskipn_app_le by lia.
  apply zfirstn_app_le. rewrite zlen_zskipn by lia. lia.
Qed.

(* a window inside the middle part of A ++ g ++ R *)
Lemma sub_mid (A g R : bytes) p k n : zlen A = p -> 0 <= k -> 0 <= n -> k + n <= zlen g ->
  sub (p + k) n (A ++ g ++ R) = sub k n g.
Proof.
  intros HA Hk Hn Hl. pose proof (zlen_nonneg A).
  rewrite (sub_app_skip A (g ++ R) (p + k) n p HA ltac:(lia)).
  replace (p + k - p) with k by lia. apply sub_app_inl; lia.
Qed.

Lemma rd_mid (A g R : bytes) p k w : zlen A = p -> 0 <= k -> k + Z.of_nat w <= zlen g ->
  rd (p + k) w (A ++ g ++ R) = rd k w g.
Proof. intros. unfold rd. f_equal. apply sub_mid; auto; lia. Qed.

Lemma all_eq_zskipn v n l : all_eq v l = true -> all_eq v (zskipn n l) = true.
Proof. apply all_eq_skipn. Qed.
Lemma all_eq_zfirstn v n l : all_eq v l = true -> all_eq v (zfirstn n l) = true.
Proof. apply all_eq_firstn. Qed.

Lemma end_of_ge : forall l off, 0 <= off -> off <= end_of off l.
Proof.
  induction l as [|f r IH]; intros off Hoff; cbn [end_of]; [lia|].
  destruct (align_gap_ok off f Hoff) as (G1 & _). pose proof (align8_ge off).
  pose proof (zlen_nonneg (node_buf f)).
  assert (0 <= file_end off f) by (unfold file_end; lia).
  specialize (IH (file_end off f) H1). unfold file_end in *. lia.
Qed.

Lemma align8_fix p : p mod 8 = 0 -> align8 p = p.
Proof. intros H. unfold align8, align. Z.div_mod_to_equations. lia. Qed.

Section FilesValid.
Variable vfv : bytes -> bool.
Variable venc : bytes -> bool.
Variable dec : Z -> bytes -> option bytes.
Variable pol : Z.

(* a file the reader accepts on its own, whose header cannot be mistaken for free space *)
Definition fok (g : bytes) : bool := v_file vfv venc dec g && negb (all_eq pol (sub 0 24 g)).

Lemma v_file_facts g : v_file vfv venc dec g = true ->
  file_hlen (rd 19 1 g) <= zlen g /\
  (if attr_large (rd 19 1 g) then rd 24 8 g else rd 20 3 g) = zlen g.
Proof.
  unfold v_file, file_hlen. intros H.
  repeat (apply andb_true_iff in H; destruct H as [H ?]).
  split; lia.
Qed.

(* one step of the reader over a file g that lies at the 8-aligned offset p *)
Lemma v_files_step k (A g R : bytes) p : zlen A = p -> 0 <= p ->
  fok g = true -> (p + file_hlen (rd 19 1 g)) mod attr_align (rd 19 1 g) = 0 ->
  v_files vfv venc dec (S k) pol (A ++ g ++ R) p = v_files vfv venc dec k pol (A ++ g ++ R) (align8 (p + zlen g)).
Proof.
  intros HA Hp Hok Hal. unfold fok in Hok. apply andb_true_iff in Hok as [Hv Hnf].
  destruct (v_file_facts g Hv) as [Hhl Hsz].
  assert (H24 : 24 <= zlen g) by (unfold file_hlen in Hhl; destruct (attr_large (rd 19 1 g)); lia).
  pose proof (zlen_nonneg R) as HR.
  set (V := A ++ g ++ R).
  assert (LV : zlen V = p + zlen g + zlen R) by (unfold V; rewrite !zlen_app; lia).
  cbn [v_files]. fold V.
  replace (zlen V <? p + 24) with false by lia.
  assert (S24 : sub p 24 V = sub 0 24 g).
  { unfold V. replace p with (p + 0) at 1 by lia. apply sub_mid; auto; lia. }
  rewrite S24. destruct (all_eq pol (sub 0 24 g)); [discriminate|]. clear Hnf.
  assert (R19 : rd (p + 19) 1 V = rd 19 1 g) by (unfold V; apply rd_mid; auto; lia).
  rewrite R19. set (attr := rd 19 1 g) in *.
  replace (zlen V <? p + file_hlen attr) with false by lia.
  assert (An : announced V p = zlen g).
  { unfold announced. rewrite R19. fold attr. rewrite <- Hsz.
    destruct (attr_large attr) eqn:El.
    - unfold V. unfold file_hlen in Hhl. rewrite El in Hhl. apply rd_mid; auto; cbn; lia.
    - unfold V. apply rd_mid; auto; cbn; lia. }
  rewrite An.
  replace (file_hlen attr <=? zlen g) with true by lia.
  replace (p + zlen g <=? zlen V) with true by lia.
  assert (Sg : sub p (zlen g) V = g) by (unfold V; rewrite <- HA; apply sub_app_mid).
  rewrite Sg, Hv, Hal. reflexivity.
Qed.

Lemma v_files_free k V p : all_eq pol (zskipn p V) = true -> v_files vfv venc dec (S k) pol V p = true.
Proof.
  intros H. cbn [v_files]. destruct (zlen V <? p + 24); [exact H|].
  unfold sub. rewrite (all_eq_zfirstn _ _ _ H). exact H.
Qed.

(* the whole loop *)
Lemma v_files_place limit : forall files buf off B,
  (pol = 0 \/ pol = 255) -> zlen buf = off -> 0 <= off ->
  Forall (fun f => fok (node_buf f) = true /\ rd 19 1 (node_buf f) = node_attr f) files ->
  (forall f, In f files -> zlen (node_buf f) < 2 ^ 64) -> end_of off files < 2 ^ 64 ->
  place_files pol limit buf off files = Ok B ->
  forall E fuel, all_eq pol E = true -> (2 * length files < fuel)%nat ->
    v_files vfv venc dec fuel pol (B ++ E) (align8 off) = true.
Proof.
  induction files as [|f r IH]; intros buf off B Hpol Hb Hoff Hok Hsz Hend H E fuel HE Hfuel; subst off.
  - cbn [place_files] in H. inversion H; subst B. destruct fuel as [|k]; [cbn in Hfuel; lia|].
    apply v_files_free. pose proof (align8_ge (zlen buf)).
    rewrite zskipn_app_ge by lia. apply all_eq_zskipn. exact HE.
  - inversion Hok as [|? ? [Hf Hattr] Hokr]; subst.
    pose proof H as H0.
    rewrite place_files_cons in H. cbv zeta in H.
    destruct (zlen (node_buf f) =? 0) eqn:Ez; [discriminate|].
    destruct (align_gap_ok (zlen buf) f Hoff) as (G1 & G2 & G3 & G4). pose proof (align8_ge (zlen buf)) as G8.
    pose proof (align8_mult (zlen buf)) as M8.
    set (no := file_start (zlen buf) f) in *. set (a0 := align8 (zlen buf)) in *.
    destruct (match limit with Some l => l <? no + zlen (node_buf f) | None => false end); [discriminate|].
    assert (Hpos : 0 <= no + zlen (node_buf f)) by (pose proof (zlen_nonneg (node_buf f)); lia).
    assert (Hszr : forall f0, In f0 r -> zlen (node_buf f0) < 2 ^ 64) by (intros; apply Hsz; right; auto).
    cbn [end_of] in Hend. unfold file_end in Hend. fold no in Hend.
    assert (Hfr : (2 * length r < fuel - 2)%nat) by (cbn [length] in Hfuel; lia).
    destruct (no =? a0) eqn:En.
    + (* no pad file *)
      cbn [bind] in H. apply bind_ok in H as (b2 & Hi & H).
      apply insert_file_ok in Hi as (I1 & I2 & I3).
      destruct (place_files_layout pol limit r b2 (no + zlen (node_buf f)) B I3 Hpos H) as (_ & (D & ED) & _).
      specialize (IH b2 (no + zlen (node_buf f)) B Hpol I3 Hpos Hokr Hszr Hend H E (fuel - 1)%nat HE ltac:(lia)).
      destruct fuel as [|k]; [lia|]. replace (S k - 1)%nat with k in IH by lia.
      assert (EB : B ++ E = (buf ++ zrepeat pol (no - zlen buf)) ++ node_buf f ++ (D ++ E)).
      { rewrite ED, I2. rewrite <- !app_assoc. reflexivity. }
      replace a0 with no by lia.
      rewrite EB. rewrite v_files_step.
      * rewrite <- EB. exact IH.
      * rewrite zlen_app, zlen_zrepeat by lia. lia.
      * lia.
      * exact Hf.
      * rewrite Hattr. exact G3.
    + (* a pad file first *)
      apply bind_ok in H as ([b1 a1] & Hs & H).
      apply bind_ok in Hs as (pf & Hp & Hs). apply bind_ok in Hs as (b & Hi & Hs). inversion Hs; subst b1 a1.
      pose proof (create_pad_file_len _ _ _ Hp) as Lp.
      apply insert_file_ok in Hi as (I1 & I2 & I3).
      apply bind_ok in H as (b2 & Hi2 & H).
      apply insert_file_ok in Hi2 as (J1 & J2 & J3).
      destruct (place_files_layout pol limit r b2 (no + zlen (node_buf f)) B J3 Hpos H) as (_ & (D & ED) & _).
      specialize (IH b2 (no + zlen (node_buf f)) B Hpol J3 Hpos Hokr Hszr Hend H E (fuel - 2)%nat HE Hfr).
      destruct fuel as [|[|k]]; try lia. replace (S (S k) - 2)%nat with k in IH by lia.
      assert (Z0 : no - zlen b = 0) by lia.
      assert (EB : B ++ E = (buf ++ zrepeat pol (a0 - zlen buf)) ++ pf ++ (node_buf f ++ D ++ E)).
      { rewrite ED, J2, Z0, I2. change (zrepeat pol 0) with (@nil Z). rewrite <- !app_assoc. reflexivity. }
      assert (EB2 : B ++ E = ((buf ++ zrepeat pol (a0 - zlen buf)) ++ pf) ++ node_buf f ++ (D ++ E)).
      { rewrite EB. rewrite <- !app_assoc. reflexivity. }
      destruct (pad_attr pol (no - a0) pf Hp) as [Pa Ph].
      rewrite EB. rewrite v_files_step.
      * rewrite Lp. replace (a0 + (no - a0)) with no by lia. rewrite (align8_fix no G2).
        rewrite <- EB, EB2. rewrite v_files_step.
        -- rewrite <- EB2. exact IH.
        -- rewrite !zlen_app, zlen_zrepeat by lia. lia.
        -- lia.
        -- exact Hf.
        -- rewrite Hattr. exact G3.
      * rewrite zlen_app, zlen_zrepeat by lia. lia.
      * lia.
      * unfold fok. rewrite (pad_v_file vfv venc dec pol (no - a0) pf Hp), (pad_not_free pol (no - a0) pf Hp); [reflexivity|].
        pose proof (zlen_nonneg (node_buf f)). pose proof (end_of_ge r _ Hpos). lia.
      * rewrite Pa. apply Z.mod_1_r.
Qed.

End FilesValid.

(* ---------- from the loop to the rebuilt volume ---------- *)

Lemma end_of_file_le : forall l off f, 0 <= off -> In f l -> zlen (node_buf f) <= end_of off l.
Proof.
  induction l as [|g r IH]; intros off f Hoff Hin; [destruct Hin|]. cbn [end_of].
  destruct (align_gap_ok off g Hoff) as (G1 & _). pose proof (align8_ge off).
  pose proof (zlen_nonneg (node_buf g)).
  assert (Hp : 0 <= file_end off g) by (unfold file_end; lia).
  destruct Hin as [-> | Hin].
  - pose proof (end_of_ge r _ Hp). unfold file_end in *. lia.
  - apply IH; auto.
Qed.

(* the bytes the loop appends do not depend on the bytes already in the buffer *)
Fixpoint layout (pol : Z) (limit : option Z) (off : Z) (files : list node) : outcome bytes :=
  match files with
  | [] => Ok []
  | f :: r =>
    let fb := node_buf f in
    if zlen fb =? 0 then Panic 201 else
    let a0 := align8 off in
    let no := file_start off f in
    if (match limit with Some l => l <? no + zlen fb | None => false end) then Err E_NOSPACE else
    do P <- (if no =? a0 then Ok [] else create_pad_file pol (no - a0));
    do D <- layout pol limit (no + zlen fb) r;
    Ok (zrepeat pol (a0 - off) ++ P ++ fb ++ D)
  end.

Lemma place_files_as_layout pol limit : forall files buf off, zlen buf = off -> 0 <= off ->
  place_files pol limit buf off files = (do D <- layout pol limit off files; Ok (buf ++ D)).
Proof.
  induction files as [|f r IH]; intros buf off Hb Hoff.
  - cbn [place_files layout bind]. rewrite app_nil_r. reflexivity.
  - rewrite place_files_cons. cbn [layout]. cbv zeta.
    destruct (zlen (node_buf f) =? 0) eqn:Ez; [reflexivity|].
    destruct (align_gap_ok off f Hoff) as (G1 & G2 & G3 & G4). pose proof (align8_ge off) as G8.
    set (no := file_start off f) in *. set (a0 := align8 off) in *.
    destruct (match limit with Some l => l <? no + zlen (node_buf f) | None => false end); [reflexivity|].
    pose proof (zlen_nonneg (node_buf f)) as Hfb.
    destruct (no =? a0) eqn:En.
    + cbn [bind]. unfold insert_file. replace (no <? zlen buf) with false by lia. rewrite Ez. cbn [bind].
      rewrite IH by (rewrite ?zlen_app, ?zlen_zrepeat by lia; lia).
      destruct (layout pol limit (no + zlen (node_buf f)) r); cbn [bind]; try reflexivity.
      replace (a0 - off) with (no - zlen buf) by lia. rewrite <- !app_assoc. reflexivity.
    + destruct (create_pad_file pol (no - a0)) as [pf| | |] eqn:Ep; cbn [bind]; try reflexivity.
      pose proof (create_pad_file_len _ _ _ Ep) as Lp.
      unfold insert_file at 1. replace (a0 <? zlen buf) with false by lia.
      replace (zlen pf =? 0) with false by lia. cbn [bind].
      unfold insert_file. rewrite !zlen_app, zlen_zrepeat by lia.
      replace (no <? zlen buf + (a0 - zlen buf + zlen pf)) with false by lia. rewrite Ez. cbn [bind].
      rewrite IH by (rewrite ?zlen_app, ?zlen_zrepeat by lia; lia).
      destruct (layout pol limit (no + zlen (node_buf f)) r); cbn [bind]; try reflexivity.
      replace (no - (zlen buf + (a0 - zlen buf + zlen pf))) with 0 by lia.
      change (zrepeat pol 0) with (@nil Z). subst off. rewrite <- !app_assoc. reflexivity.
Qed.

Lemma place_files_prefix pol limit files buf buf' off D : zlen buf = off -> zlen buf' = off -> 0 <= off ->
  place_files pol limit buf off files = Ok (buf ++ D) ->
  place_files pol limit buf' off files = Ok (buf' ++ D).
Proof.
  intros H1 H2 H3 H. rewrite place_files_as_layout in * by auto.
  destruct (layout pol limit off files) as [D'| | |]; cbn [bind] in *; try discriminate.
  inversion H as [E]. apply app_inv_head in E. subst D'. reflexivity.
Qed.

(* the reader accepts the file area of a rebuilt non-resizable volume *)
Lemma asm_vol_files_valid vfv venc dec pol ffs3 h buf files h' b :
  asm_vol pol ffs3 h buf files = Ok (h', b) ->
  vol_verbatim h files = false -> v_resizable h = false ->
  60 <= v_dataoff h -> v_dataoff h mod 8 = 0 -> (pol = 0 \/ pol = 255) -> v_length h < 2 ^ 64 ->
  Forall (fun f => fok vfv venc dec pol (node_buf f) = true /\ rd 19 1 (node_buf f) = node_attr f) files ->
  forall fuel, (2 * length files < fuel)%nat -> v_files vfv venc dec fuel pol b (v_dataoff h) = true.
Proof.
  intros H Hv Hr Hd Hm Hpol Hlen Hok fuel Hfuel.
  destruct (asm_vol_v_len _ _ _ _ _ _ _ H Hv Hr) as [Lb _].
  destruct (asm_vol_v_inv _ _ _ _ _ _ _ H Hv Hr)
    as (hdr & b1 & c & s & rest & hb & Hs & Hp & Hl & Hdo & He & Hb & Hz).
  cbv zeta in Hz. destruct Hz as (L60 & L4 & Hsl & Eb & _ & _).
  apply slice_len in Hs as (Lh & _ & _). rewrite Z.sub_0_r in Lh.
  destruct (place_files_layout pol _ files hdr (v_dataoff h) b1 Lh ltac:(lia) Hp) as (Le & (D & ED) & _ & _).
  set (b2 := if zlen b1 <? v_length h then b1 ++ zrepeat pol (v_length h - zlen b1) else b1) in *.
  set (E := if zlen b1 <? v_length h then zrepeat pol (v_length h - zlen b1) else []).
  assert (E2 : b2 = b1 ++ E) by (unfold b2, E; destruct (zlen b1 <? v_length h); [reflexivity | rewrite app_nil_r; reflexivity]).
  assert (HE : all_eq pol E = true) by (unfold E; destruct (zlen b1 <? v_length h); [apply all_eq_zrepeat | reflexivity]).
  assert (L2 : zlen b2 = v_length h).
  { unfold b2. destruct (zlen b1 <? v_length h) eqn:E0; [rewrite zlen_app, zlen_zrepeat by lia; lia | lia]. }
  (* the bytes from the data offset on are those of b2 *)
  assert (Sk : zskipn (v_dataoff h) b = zskipn (v_dataoff h) b2).
  { rewrite Eb.
    rewrite zskipn_splice_below; rewrite ?le2; try lia.
    2:{ rewrite !zlen_splice; rewrite ?le4, ?L4; try lia; change (zlen [0;0]) with 2; rewrite ?zlen_splice; rewrite ?le4, ?L4; lia. }
    rewrite zskipn_splice_below; change (zlen [0;0]) with 2; try lia.
    2:{ rewrite zlen_splice; rewrite ?le4, ?L4; lia. }
    rewrite zskipn_splice_below; rewrite ?le4, ?L4; try lia.
    destruct (ffs3 && bytes_eqb (v_guid h) FFS2).
    - rewrite zskipn_splice_below; change (zlen FFS3) with 16; try lia.
      2:{ rewrite zlen_splice; rewrite ?le8; lia. }
      rewrite zskipn_splice_below; rewrite ?le8; try lia. reflexivity.
    - rewrite zskipn_splice_below; rewrite ?le8; try lia. reflexivity. }
  set (H' := zfirstn (v_dataoff h) b).
  pose proof (end_of_ge files (v_dataoff h) ltac:(lia)) as Hge.
  assert (LH : zlen H' = v_dataoff h) by (unfold H'; apply zlen_zfirstn; lia).
  assert (Eb' : b = (H' ++ D) ++ E).
  { rewrite <- (zfirstn_zskipn (v_dataoff h) b). fold H'. rewrite Sk, E2, ED.
    rewrite <- Lh. rewrite <- !app_assoc. rewrite zskipn_app_exact. reflexivity. }
  assert (Hp' : place_files pol (Some (v_length h)) H' (v_dataoff h) files = Ok (H' ++ D)).
  { eapply place_files_prefix; [exact Lh | exact LH | lia | rewrite <- ED; exact Hp]. }
  rewrite Eb'. rewrite <- (align8_fix (v_dataoff h) Hm).
  eapply v_files_place; eauto; try lia.
  - intros f Hin. pose proof (end_of_file_le files (v_dataoff h) f ltac:(lia) Hin). lia.
Qed.

(* ---------- the header checksum of a rebuilt volume ---------- *)

Lemma words16_app_even b : forall n a, length a = (2 * n)%nat -> words16 (a ++ b) = words16 a ++ words16 b.
Proof.
  induction n as [|n IH]; intros a Ha.
  - destruct a; [reflexivity | discriminate].
  - destruct a as [|x [|y a]]; try (cbn in Ha; lia).
    cbn [app words16]. rewrite IH by (cbn in Ha; lia). reflexivity.
Qed.

Lemma sum16_splice50 hb x y : 52 <= zlen hb ->
  sum16 (splice 50 [x; y] hb) =
  (sum_list (words16 (zfirstn 50 hb)) + (x + 256 * y) + sum_list (words16 (zskipn 52 hb))) mod 65536.
Proof.
  intros Hl. unfold sum16, splice. change (50 + zlen [x; y]) with 52.
  assert (L50 : length (zfirstn 50 hb) = (2 * 25)%nat).
  { unfold zfirstn. rewrite firstn_length. unfold zlen in Hl. lia. }
  rewrite (words16_app_even _ 25 _ L50). cbn [app words16].
  rewrite sum_list_app. unfold sum_list at 2. cbn [fold_right]. fold (sum_list (words16 (zskipn 52 hb))).
  f_equal. lia.
Qed.

Lemma splice_sub_same hb : 52 <= zlen hb -> splice 50 (sub 50 2 hb) hb = hb.
Proof. intros H. apply splice_same; lia. Qed.

Lemma zfirstn_splice off d b n : 0 <= off -> off + zlen d <= n -> n <= zlen b ->
  zfirstn n (splice off d b) = splice off d (zfirstn n b).
Proof.
  intros H1 H2 H3. unfold splice, zfirstn, zskipn, zlen in *.
  set (o := Z.to_nat off). set (m := Z.to_nat n). set (k := length d).
  assert (Eo : Z.to_nat (off + Z.of_nat k) = (o + k)%nat) by (unfold o, k; lia).
  rewrite Eo.
  assert (Ho : (o + k <= m)%nat) by (unfold o, m, k; lia).
  assert (Hm : (m <= length b)%nat) by (unfold m; lia).
  assert (La : length (firstn o b) = o) by (rewrite firstn_length; lia).
  rewrite firstn_app, La. rewrite firstn_all2 by (rewrite La; lia).
  rewrite firstn_app. rewrite (firstn_all2 d) by (fold k; lia).
  rewrite firstn_firstn. replace (Nat.min o m) with o by lia.
  f_equal. f_equal. fold k.
  rewrite firstn_skipn_comm. f_equal. f_equal. lia.
Qed.

Lemma le_enc2_word s : 0 <= s < 65536 ->
  exists x y, le_enc 2 s = [x; y] /\ x + 256 * y = s.
Proof.
  intros Hs. exists (s mod 256), ((s / 256) mod 256). split; [reflexivity|].
  rewrite (Z.mod_small (s / 256)) by (split; [apply Z.div_pos; lia | apply Z.div_lt_upper_bound; lia]).
  pose proof (Z.div_mod s 256). lia.
Qed.

(* asm_vol: the 16-bit sum of the header of a rebuilt volume is zero *)
Lemma asm_vol_hdr_cksum pol ffs3 h buf files h' b :
  asm_vol pol ffs3 h buf files = Ok (h', b) ->
  vol_verbatim h files = false -> v_resizable h = false -> 52 <= v_hdrlen h ->
  sum16 (sub 0 (v_hdrlen h) b) = 0.
Proof.
  intros H Hv Hr H52.
  destruct (asm_vol_v_inv _ _ _ _ _ _ _ H Hv Hr)
    as (hdr & b1 & c & s & rest & hb & Hs & Hp & Hl & Hdo & He & Hb & Hz).
  cbv zeta in Hz. destruct Hz as (L60 & L4 & Hsl & Eb & _ & _).
  set (b2 := if zlen b1 <? v_length h then b1 ++ zrepeat pol (v_length h - zlen b1) else b1) in *.
  set (b3 := splice 32 (le_enc 8 (v_length h)) b2) in *.
  set (b4 := if ffs3 && bytes_eqb (v_guid h) FFS2 then splice 16 FFS3 b3 else b3) in *.
  set (b5 := splice 56 (le_enc 4 c) b4) in *.
  set (b6 := splice 50 [0; 0] b5) in *.
  assert (L5 : zlen b5 = zlen b2) by (unfold b5; rewrite zlen_splice; rewrite ?le4; lia).
  assert (L6 : zlen b6 = zlen b2) by (unfold b6; rewrite zlen_splice; change (zlen [0;0]) with 2; lia).
  pose proof (slice_len _ _ _ _ Hsl) as (Lhb & _ & Hhi). rewrite Z.sub_0_r in Lhb.
  apply slice0_eq in Hsl. 
  set (sm := (0 - sum16 hb) mod 65536) in *.
  assert (Hsm : 0 <= sm < 65536) by (unfold sm; apply Z.mod_pos_bound; lia).
  destruct (le_enc2_word sm Hsm) as (x & y & Exy & Sxy).
  rewrite Eb. unfold sub. change (zskipn 0 ?l) with l.
  rewrite zfirstn_splice; rewrite ?le2; try lia. rewrite <- Hsl. rewrite Exy.
  rewrite sum16_splice50 by lia.
  (* hb carries zeros at 50..51 *)
  assert (Z50 : sub 50 2 hb = [0; 0]).
  { rewrite Hsl. unfold sub. unfold zskipn, zfirstn.
    rewrite firstn_skipn_comm. rewrite firstn_firstn.
    replace (Nat.min (Z.to_nat 50 + Z.to_nat 2) (Z.to_nat (v_hdrlen h))) with (Z.to_nat 50 + Z.to_nat 2)%nat by lia.
    rewrite <- firstn_skipn_comm.
    change (firstn (Z.to_nat 2) (skipn (Z.to_nat 50) b6)) with (sub 50 (zlen [0; 0]) b6).
    unfold b6. apply sub_splice; change (zlen [0;0]) with 2; lia. }
  assert (Shb : sum16 hb =
                (sum_list (words16 (zfirstn 50 hb)) + (0 + 256 * 0) + sum_list (words16 (zskipn 52 hb))) mod 65536).
  { rewrite <- (splice_sub_same hb) at 1 by lia. rewrite Z50. apply sum16_splice50. lia. }
  rewrite Sxy. unfold sm. rewrite Shb.
  set (P := sum_list (words16 (zfirstn 50 hb))). set (Q := sum_list (words16 (zskipn 52 hb))).
  Z.div_mod_to_equations. lia.
Qed.

(* asm_fv_nospace at the volume: a file that would end beyond Length makes the rebuild fail *)
Lemma asm_vol_v_nospace pol ffs3 h buf files :
  vol_verbatim h files = false -> v_resizable h = false -> 0 <= v_dataoff h ->
  (exists k f s, nth_error files k = Some f /\ nth_error (file_starts (v_dataoff h) files) k = Some s /\
                 v_length h < s + zlen (node_buf f)) ->
  is_ok (asm_vol pol ffs3 h buf files) = false.
Proof.
  intros Hv Hr Hd Hex. unfold asm_vol. fold (vol_verbatim h files). rewrite Hv, Hr.
  destruct (v_length h <? zlen buf); [reflexivity|].
  destruct (v_blocks h) as [|[c s] rest]; [reflexivity|].
  destruct (v_dataoff h <? v_hdrlen h); [reflexivity|].
  destruct (zlen buf <? v_dataoff h); [reflexivity|].
  destruct (slice 0 (v_dataoff h) buf) as [hdr|] eqn:Es; [|reflexivity]. cbn [of_opt bind].
  apply slice_len in Es as (Lh & _ & _). rewrite Z.sub_0_r in Lh.
  pose proof (place_files_nospace pol (v_length h) files hdr (v_dataoff h) Lh Hd Hex) as Hn.
  destruct (place_files pol (Some (v_length h)) hdr (v_dataoff h) files); try discriminate; reflexivity.
Qed.

(* the volume-assembly core of C02 in one statement *)
Lemma asm_vol_valid_core vfv venc dec pol ffs3 h buf files h' b :
  asm_vol pol ffs3 h buf files = Ok (h', b) ->
  vol_verbatim h files = false -> v_resizable h = false ->
  60 <= v_dataoff h -> v_dataoff h mod 8 = 0 -> 52 <= v_hdrlen h ->
  (pol = 0 \/ pol = 255) -> v_length h < 2 ^ 64 ->
  Forall (fun f => fok vfv venc dec pol (node_buf f) = true /\ rd 19 1 (node_buf f) = node_attr f) files ->
  zlen b = v_length h /\ v_length h' = v_length h /\
  sum16 (sub 0 (v_hdrlen h) b) = 0 /\
  forall fuel, (2 * length files < fuel)%nat -> v_files vfv venc dec fuel pol b (v_dataoff h) = true.
Proof.
  intros H Hv Hr Hd Hm H52 Hp Hl Hok.
  destruct (asm_vol_v_len _ _ _ _ _ _ _ H Hv Hr) as [L1 L2].
  repeat split; auto.
  - eapply asm_vol_hdr_cksum; eauto.
  - eapply asm_vol_files_valid; eauto.
Qed.

Lemma pad_file_valid : forall vfv venc dec pol size b,
  create_pad_file pol size = Ok b -> size < 2 ^ 64 ->
  v_file vfv venc dec b = true /\ all_eq pol (sub 0 24 b) = false /\ zlen b = size.
Proof.
  intros vfv venc dec pol size b H Hs. split; [exact (pad_v_file vfv venc dec pol size b H Hs)|].
  split; [exact (pad_not_free pol size b H) | exact (create_pad_file_len pol size b H)].
Qed.
