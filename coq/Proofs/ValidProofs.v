(* Proofs/ValidProofs.v — lemmas of property C02: what the assembler produces passes the checks of
   the independent reader (Model/Valid.v). *)
From Fiano Require Import Base.Bytes Base.BytesLemmas Gen.Consts Model.Ffs Model.Edit Model.Valid
  Proofs.EditProofs Proofs.AsmProofs.
From Coq Require Import ZifyBool ZifyNat.
Open Scope Z_scope.

(* ---------- same total size ---------- *)

Section Size.
Variable dec : Z -> bytes -> option bytes.
Variable enc : Z -> bytes -> option bytes.
Variable u2s : bytes -> bytes.
Variable s2u : bytes -> bytes.
Variable nvar : bytes -> option bytes.

Lemma asm_bios_v_size fx elems len st es b st' : 0 <= len ->
  asm_bios_v enc s2u fx elems len st = Ok (es, b, st') -> zlen b = len.
Proof.
  intros Hl H. unfold asm_bios_v in H.
  apply bind_ok in H as ([es1 st1] & He & H).
  destruct (first_fv es1); [|discriminate].
  destruct (set_polarity (fst st1) (fv_polarity (v_attrs v))); [|discriminate].
  apply bind_ok in H as (b1 & Hc & H). inversion H; subst.
  rewrite (copy_elems_len es _ 0 b ltac:(lia) Hc). apply zlen_zrepeat. exact Hl.
Qed.

(* the image that is written has the size of the image that was read *)
Lemma edit_and_save_size fx d ops img out :
  edit_and_save dec enc u2s s2u nvar fx d ops img = Ok out -> zlen out = zlen img.
Proof.
  unfold edit_and_save. intros H.
  apply bind_ok in H as ([cops pol0] & _ & H).
  apply bind_ok in H as ([elems pol] & _ & H).
  apply bind_ok in H as (elems' & _ & H).
  apply bind_ok in H as ([[es b] st'] & Ha & H). inversion H; subst.
  eapply asm_bios_v_size; [apply zlen_nonneg | exact Ha].
Qed.

(* an operation that fails stops the run: save is not reached, nothing is written *)
Lemma edit_error_no_output fx d ops img cops pol0 elems pol e :
  parse_cli dec u2s nvar d 240 ops = Ok (cops, pol0) ->
  parse_bios dec u2s nvar d (Z.to_nat (zlen img) + 1) pol0 img 0 = Ok (elems, pol) ->
  run_ops d pol cops elems = Err e ->
  edit_and_save dec enc u2s s2u nvar fx d ops img = Err e.
Proof. intros H1 H2 H3. unfold edit_and_save. rewrite H1. cbn [bind]. rewrite H2. cbn [bind]. rewrite H3. reflexivity. Qed.

End Size.

(* ---------- bytes of a file header ---------- *)

Lemma rd_seg (a d r : bytes) w k : zlen a = k -> zlen d = Z.of_nat w -> rd k w (a ++ d ++ r) = le_dec d.
Proof. intros <- Hd. unfold rd. rewrite <- Hd. rewrite sub_app_mid. reflexivity. Qed.

Lemma le_dec_one x : le_dec [x] = x.
Proof. cbn [le_dec]. lia. Qed.

Lemma sum_list_app a b : sum_list (a ++ b) = sum_list a + sum_list b.
Proof. unfold sum_list. induction a as [|x r IH]; cbn [app fold_right]; lia. Qed.

Lemma sum8_app a b : sum8 (a ++ b) = (sum8 a + sum8 b) mod 256.
Proof. unfold sum8. rewrite sum_list_app. rewrite <- Z.add_mod by lia. reflexivity. Qed.

Lemma sum8_cons x r : sum8 (x :: r) = (x + sum8 r) mod 256.
Proof. unfold sum8. cbn [sum_list fold_right]. rewrite Z.add_mod_idemp_r by lia. reflexivity. Qed.

Lemma sum8_range b : 0 <= sum8 b < 256.
Proof. unfold sum8. apply Z.mod_pos_bound. lia. Qed.

Lemma fhb_len g ckh ckf ftype attr size3 state ext large : zlen g = 16 ->
  zlen (file_header_bytes g ckh ckf ftype attr size3 state ext large) = if large then 32 else 24.
Proof.
  intros Hg. unfold file_header_bytes. rewrite !zlen_app, Hg, zlen_le_enc.
  destruct large; rewrite ?zlen_le_enc;
    repeat match goal with |- context [zlen (?a :: ?l)] => rewrite (zlen_cons a l) end;
    rewrite ?zlen_nil; lia.
Qed.

(* the sum of the header bytes in terms of its fields *)
Lemma fhb_sum g ckh ckf ftype attr size3 state ext large :
  sum_list (file_header_bytes g ckh ckf ftype attr size3 state ext large) =
  sum_list g + ckh + ckf + ftype + attr + sum_list (le_enc 3 size3) + state +
  (if large then sum_list (le_enc 8 ext) else 0).
Proof.
  unfold file_header_bytes. rewrite !sum_list_app.
  destruct large; unfold sum_list at 2 4; cbn [fold_right]; unfold sum_list; cbn [fold_right]; lia.
Qed.

Section Fhb.
Variables (g : bytes) (ckh ckf ftype attr size3 state ext : Z) (large : bool) (data : bytes).
Hypothesis Hg : zlen g = 16.
Let out := file_header_bytes g ckh ckf ftype attr size3 state ext large ++ data.

Lemma fhb_rd16 : rd 16 1 out = ckh.
Proof.
  unfold out, file_header_bytes. rewrite <- !app_assoc.
  change (g ++ [ckh; ckf; ftype; attr] ++ ?t) with (g ++ [ckh] ++ ([ckf; ftype; attr] ++ t)).
  rewrite (rd_seg g [ckh] _ 1 16 Hg eq_refl). apply le_dec_one.
Qed.

Lemma fhb_rd17 : rd 17 1 out = ckf.
Proof.
  unfold out, file_header_bytes. rewrite <- !app_assoc.
  change (g ++ [ckh; ckf; ftype; attr] ++ ?t) with (g ++ [ckh] ++ [ckf] ++ ([ftype; attr] ++ t)).
  rewrite (app_assoc g [ckh]).
  rewrite (rd_seg (g ++ [ckh]) [ckf] _ 1 17); [apply le_dec_one | rewrite zlen_app, Hg; reflexivity | reflexivity].
Qed.

Lemma fhb_rd18 : rd 18 1 out = ftype.
Proof.
  unfold out, file_header_bytes. rewrite <- !app_assoc.
  change (g ++ [ckh; ckf; ftype; attr] ++ ?t) with (g ++ [ckh; ckf] ++ [ftype] ++ ([attr] ++ t)).
  rewrite (app_assoc g [ckh; ckf]).
  rewrite (rd_seg (g ++ [ckh; ckf]) [ftype] _ 1 18); [apply le_dec_one | rewrite zlen_app, Hg; reflexivity | reflexivity].
Qed.

Lemma fhb_rd19 : rd 19 1 out = attr.
Proof.
  unfold out, file_header_bytes. rewrite <- !app_assoc.
  change (g ++ [ckh; ckf; ftype; attr] ++ ?t) with (g ++ [ckh; ckf; ftype] ++ [attr] ++ t).
  rewrite (app_assoc g [ckh; ckf; ftype]).
  rewrite (rd_seg (g ++ [ckh; ckf; ftype]) [attr] _ 1 19); [apply le_dec_one | rewrite zlen_app, Hg; reflexivity | reflexivity].
Qed.

Lemma fhb_rd20 : 0 <= size3 < 2 ^ 24 -> rd 20 3 out = size3.
Proof.
  intros Hs. unfold out, file_header_bytes. rewrite <- !app_assoc.
  rewrite (app_assoc g [ckh; ckf; ftype; attr]).
  rewrite (rd_seg (g ++ [ckh; ckf; ftype; attr]) (le_enc 3 size3) _ 3 20);
    [apply le_dec_enc; exact Hs | rewrite zlen_app, Hg; reflexivity | apply zlen_le_enc].
Qed.

Lemma fhb_rd23 : rd 23 1 out = state.
Proof.
  unfold out, file_header_bytes. rewrite <- !app_assoc.
  rewrite (app_assoc g [ckh; ckf; ftype; attr]).
  rewrite (app_assoc (g ++ [ckh; ckf; ftype; attr]) (le_enc 3 size3)).
  rewrite (rd_seg ((g ++ [ckh; ckf; ftype; attr]) ++ le_enc 3 size3) [state] _ 1 23);
    [apply le_dec_one | rewrite !zlen_app, Hg, zlen_le_enc; reflexivity | reflexivity].
Qed.

Lemma fhb_rd24 : large = true -> 0 <= ext < 2 ^ 64 -> rd 24 8 out = ext.
Proof.
  intros Hl He. unfold out, file_header_bytes. rewrite Hl. rewrite <- !app_assoc.
  rewrite (app_assoc g [ckh; ckf; ftype; attr]).
  rewrite (app_assoc (g ++ [ckh; ckf; ftype; attr]) (le_enc 3 size3)).
  rewrite (app_assoc ((g ++ [ckh; ckf; ftype; attr]) ++ le_enc 3 size3) [state]).
  rewrite (rd_seg (((g ++ [ckh; ckf; ftype; attr]) ++ le_enc 3 size3) ++ [state]) (le_enc 8 ext) _ 8 24);
    [apply le_dec_enc; exact He | rewrite !zlen_app, Hg, zlen_le_enc; reflexivity | apply zlen_le_enc].
Qed.

Lemma fhb_sub_hdr : sub 0 (if large then 32 else 24) out =
  file_header_bytes g ckh ckf ftype attr size3 state ext large.
Proof. unfold out. apply sub_app_here. apply fhb_len. exact Hg. Qed.

Lemma fhb_body : zskipn (if large then 32 else 24) out = data.
Proof. unfold out. rewrite <- (fhb_len g ckh ckf ftype attr size3 state ext large Hg). apply zskipn_app_exact. Qed.

End Fhb.

(* ---------- a file built by ChecksumAndAssemble passes the reader's per-file checks ---------- *)

Lemma ck_header_zero S c0 f0 st f' :
  ((S + ((c0 - ((S + c0 + f0 + st) mod 256 - f0 - st) mod 256) mod 256) + f' + st) mod 256 - f' - st) mod 256 = 0.
Proof. Z.div_mod_to_equations. lia. Qed.

Lemma ck_body_zero s : (s + (0 - s) mod 256) mod 256 = 0.
Proof. Z.div_mod_to_equations. lia. Qed.

Lemma fhb_true_firstn24 g ckh ckf ftype attr size3 state ext : zlen g = 16 ->
  zfirstn 24 (file_header_bytes g ckh ckf ftype attr size3 state ext true) =
  file_header_bytes g ckh ckf ftype attr size3 state ext false.
Proof.
  intros Hg. pose proof (fhb_len g ckh ckf ftype attr size3 state ext false Hg) as L. cbv iota in L.
  unfold file_header_bytes in *. rewrite app_nil_r in *.
  rewrite !app_assoc in *. rewrite <- L. apply zfirstn_app_exact.
Qed.

Lemma write3_is_marker ext : (write3 ext =? 16777215) = (16777215 <=? ext).
Proof. unfold write3. destruct (16777215 <=? ext) eqn:E; lia. Qed.

Section CaaValid.
Variable vfv : bytes -> bool.

Lemma caa_v_file h ext attr data :
  zlen (f_guid h) = 16 -> 0 <= ext < 2 ^ 64 ->
  ext = file_hlen attr + zlen data -> attr_large attr = (16777215 <=? ext) ->
  supported_file (f_type h) = false ->
  v_file vfv (snd (checksum_and_assemble h ext attr data)) = true.
Proof.
  intros Hg He Hext Hl Hsup.
  unfold checksum_and_assemble. cbn [snd].
  set (large := attr_large attr) in *.
  set (size3 := write3 ext).
  set (hs := if large then 32 else 24).
  set (hb := file_header_bytes (f_guid h) (f_ckh h) (f_ckf h) (f_type h) attr size3 (f_state h) ext true).
  set (sum := (sum8 (zfirstn hs hb) - f_ckf h - f_state h) mod 256).
  set (ckh := (f_ckh h - sum) mod 256).
  set (ckf := if attr_checksum attr then (0 - sum8 data) mod 256 else 170).
  set (out := file_header_bytes (f_guid h) ckh ckf (f_type h) attr size3 (f_state h) ext large ++ data).
  assert (Hs3 : 0 <= size3 < 2 ^ 24) by (unfold size3, write3; destruct (16777215 <=? ext) eqn:E; lia).
  assert (R19 : rd 19 1 out = attr) by (apply fhb_rd19; exact Hg).
  assert (R20 : rd 20 3 out = size3) by (apply fhb_rd20; auto).
  assert (R17 : rd 17 1 out = ckf) by (apply fhb_rd17; exact Hg).
  assert (R18 : rd 18 1 out = f_type h) by (apply fhb_rd18; exact Hg).
  assert (R23 : rd 23 1 out = f_state h) by (apply fhb_rd23; exact Hg).
  assert (Lout : zlen out = ext).
  { unfold out. rewrite zlen_app, fhb_len by exact Hg. rewrite Hext. unfold file_hlen. fold large. reflexivity. }
  unfold v_file. rewrite R19, R20, R17, R18, R23. fold large.
  replace (if large then 32 else 24) with hs by reflexivity.
  assert (Hhs : hs = file_hlen attr) by (unfold hs, file_hlen; reflexivity).
  (* the six conjuncts *)
  assert (C1 : Bool.eqb large (size3 =? 16777215) = true).
  { unfold size3. rewrite write3_is_marker, <- Hl. apply Bool.eqb_reflx. }
  assert (C2 : (hs <=? zlen out) = true) by (pose proof (zlen_nonneg data); lia).
  assert (C3 : ((if large then rd 24 8 out else size3) =? zlen out) = true).
  { rewrite Lout. destruct large eqn:El.
    - unfold out. rewrite (fhb_rd24 _ _ _ _ _ _ _ _ _ _ Hg eq_refl He). lia.
    - unfold size3, write3. rewrite <- Hl. lia. }
  assert (C4 : ((sum8 (sub 0 hs out) - ckf - f_state h) mod 256 =? 0) = true).
  { unfold hs at 1. unfold out. rewrite (fhb_sub_hdr _ _ _ _ _ _ _ _ _ _ Hg).
    assert (Ez : sum8 (zfirstn hs hb) =
                 (sum_list (file_header_bytes (f_guid h) (f_ckh h) (f_ckf h) (f_type h) attr size3 (f_state h) ext large)) mod 256).
    { unfold hs, hb. destruct large.
      - rewrite <- (fhb_len (f_guid h) (f_ckh h) (f_ckf h) (f_type h) attr size3 (f_state h) ext true Hg).
        cbv iota. unfold zfirstn, zlen. rewrite Nat2Z.id, firstn_all. reflexivity.
      - rewrite fhb_true_firstn24 by exact Hg. reflexivity. }
    unfold sum8 at 1. rewrite !fhb_sum in *.
    set (S := sum_list (f_guid h) + f_type h + attr + sum_list (le_enc 3 size3) +
              (if large then sum_list (le_enc 8 ext) else 0)).
    unfold ckh, sum. rewrite Ez.
    replace (sum_list (f_guid h) + f_ckh h + f_ckf h + f_type h + attr + sum_list (le_enc 3 size3) + f_state h +
             (if large then sum_list (le_enc 8 ext) else 0)) with (S + f_ckh h + f_ckf h + f_state h) by (unfold S; lia).
    match goal with |- ((?X mod 256 - _ - _) mod 256 =? 0) = true =>
      replace X with (S + ((f_ckh h - ((S + f_ckh h + f_ckf h + f_state h) mod 256 - f_ckf h - f_state h) mod 256) mod 256) + ckf + f_state h)
        by (unfold S; lia) end.
    rewrite ck_header_zero. reflexivity. }
  assert (C5 : (if attr_checksum attr then (sum8 (zskipn hs out) + ckf) mod 256 =? 0 else ckf =? 170) = true).
  { unfold hs, out. rewrite (fhb_body _ _ _ _ _ _ _ _ _ _ Hg). unfold ckf.
    destruct (attr_checksum attr); [rewrite ck_body_zero|]; reflexivity. }
  rewrite C1, C2, C3, C4, C5, Hsup. reflexivity.
Qed.

End CaaValid.
