(* Proofs/FfsAsmTotalProofs.v — Assemble.Visit never panics on a tree the parser accepted
   (the assemble half of property C05).  The Panic sites 201-207 (volume), 301 (section), 401
   (BIOS region) of Model/Ffs.v are shown unreachable for trees satisfying [node_ok]
   (Proofs/FfsParseProofs.v), which every parsed tree does. *)
From Fiano Require Import Base.Bytes Base.BytesLemmas Model.Ffs Proofs.FfsParseProofs.
From Coq Require Import ZifyBool ZifyNat.
Open Scope Z_scope.

(* [okres o P]: [o] is not a panic, and if it is a value the value satisfies [P] *)
Definition okres {A} (o : outcome A) (P : A -> Prop) : Prop :=
  match o with Panic _ => False | Ok a => P a | _ => True end.

Lemma okres_bind {A B} (x : outcome A) (f : A -> outcome B) (P : A -> Prop) (Q : B -> Prop) :
  okres x P -> (forall a, P a -> okres (f a) Q) -> okres (bind x f) Q.
Proof. destruct x; simpl; auto. Qed.

Lemma okres_weaken {A} (x : outcome A) (P Q : A -> Prop) :
  okres x P -> (forall a, P a -> Q a) -> okres x Q.
Proof. destruct x; simpl; auto. Qed.

Lemma okres_np {A} (x : outcome A) P : okres x P -> is_panic x = false.
Proof. destruct x; simpl; auto; contradiction. Qed.

Lemma node_ind_all (P : node -> Prop) :
  (forall h b kids, all_ok P kids -> P (NSec h b kids)) ->
  (forall h b kids, all_ok P kids -> P (NFile h b kids)) ->
  (forall h b kids, all_ok P kids -> P (NVol h b kids)) ->
  (forall o b, P (NPad o b)) -> forall n, P n.
Proof.
  intros HS HF HV HP. fix IH 1. intros [h b kids|h b kids|h b kids|o b].
  - apply HS. induction kids as [|k r IHr]; [exact I|split; [apply IH|exact IHr]].
  - apply HF. induction kids as [|k r IHr]; [exact I|split; [apply IH|exact IHr]].
  - apply HV. induction kids as [|k r IHr]; [exact I|split; [apply IH|exact IHr]].
  - apply HP.
Qed.

Lemma zlen_zrepeat x n : 0 <= n -> zlen (zrepeat x n) = n.
Proof.
  intros H. unfold zrepeat, zlen.
  assert (E : forall k, length (repeatz x k) = k) by (induction k; simpl; auto).
  rewrite E. lia.
Qed.

Lemma zlen_zrepeat_gen x n : zlen (zrepeat x n) = Z.max 0 n.
Proof.
  unfold zrepeat, zlen.
  assert (E : forall k, length (repeatz x k) = k) by (induction k; simpl; auto).
  rewrite E. lia.
Qed.

(* ---- leaves of the assembler ---- *)

Lemma emit_depex_ok l : okres (emit_depex l) (fun _ => True).
Proof.
  induction l as [|[op g] r IH]; cbn [emit_depex]; [exact I|].
  eapply okres_bind; [exact IH|]. intros rest _.
  destruct (op <=? 2); destruct g; exact I.
Qed.

Lemma create_pad_file_ok pol size : okres (create_pad_file pol size) (fun _ => True).
Proof.
  unfold create_pad_file. destruct (size <? 24); [exact I|].
  destruct (negb _); [exact I|]. destruct (set_size 0 size false). exact I.
Qed.

Lemma insert_file_ok pol b a f : okres (insert_file pol b a f) (fun b' => zlen b <= zlen b').
Proof.
  unfold insert_file. destruct (a <? zlen b); [exact I|]. destruct (zlen f =? 0); [exact I|].
  cbn [okres]. rewrite !zlen_app. pose proof (zlen_nonneg (zrepeat pol (a - zlen b))).
  pose proof (zlen_nonneg f). lia.
Qed.

Lemma place_files_ok pol limit : forall files fvbuf off,
  Forall (fun f => 0 < zlen (node_buf f)) files ->
  okres (place_files pol limit fvbuf off files) (fun b => zlen fvbuf <= zlen b).
Proof.
  induction files as [|f r IH]; intros fvbuf off HF; cbn [place_files]; [cbn; lia|].
  inversion HF as [|? ? Hf Hr]; subst.
  destruct (zlen (node_buf f) =? 0) eqn:Z0; [lia|].
  match goal with |- okres (if ?c then _ else _) _ => destruct c; [exact I|] end.
  eapply okres_bind with (P := fun st => zlen fvbuf <= zlen (fst st)).
  - match goal with |- okres (if ?c then _ else _) _ => destruct c; [cbn; lia|] end.
    eapply okres_bind; [apply create_pad_file_ok|]. intros pf _.
    eapply okres_bind; [apply insert_file_ok|]. intros b Hb. exact Hb.
  - intros [fvbuf1 a1] H1. cbn [fst] in H1.
    eapply okres_bind; [apply insert_file_ok|]. intros b2 H2. cbv beta in H2.
    eapply okres_weaken; [apply IH; exact Hr|]. cbv beta. intros; lia.
Qed.

Lemma zlen_checksum_and_assemble h ext attr data :
  0 < zlen (snd (checksum_and_assemble h ext attr data)).
Proof.
  unfold checksum_and_assemble. cbv zeta. cbn [snd]. unfold file_header_bytes.
  rewrite !zlen_app, !zlen_cons.
  pose proof (zlen_nonneg (f_guid h)). pose proof (zlen_nonneg data).
  match goal with |- context [zlen (if ?c then ?a else ?b)] => pose proof (zlen_nonneg (if c then a else b)) end.
  pose proof (zlen_nonneg (le_enc 3 (write3 ext))). pose proof (@zlen_nonneg Z []). lia.
Qed.

Lemma zlen_FFS3 : zlen FFS3 = 16. Proof. reflexivity. Qed.

Lemma asm_vol_ok pol ffs3 h vb kids' :
  zlen vb = v_length h -> 64 <= v_length h -> 0 <= v_hdrlen h ->
  0 <= v_dataoff h ->
  Forall (fun f => 0 < zlen (node_buf f)) kids' ->
  okres (asm_vol pol ffs3 h vb kids') (fun r => v_resizable h = false -> zlen (snd r) = zlen vb).
Proof.
  intros ZV L64 H0 DO FP. unfold asm_vol.
  destruct (_ && _); [cbn; auto|].
  destruct (v_length h <? zlen vb); [exact I|].
  destruct (v_blocks h) as [|[c0 s0] rest] eqn:VB; [exact I|].
  destruct (v_dataoff h <? v_hdrlen h) eqn:DH; [exact I|].
  destruct (zlen vb <? v_dataoff h) eqn:DB; [exact I|].
  assert (DO' : 0 <= v_dataoff h <= zlen vb) by lia.
  eapply okres_bind with (P := fun hdr => hdr = sub 0 (v_dataoff h) vb).
  { rewrite slice_ok by lia. cbn. f_equal. lia. }
  intros hdr ->.
  eapply okres_bind; [apply place_files_ok; exact FP|].
  intros b1 Hb1. cbv beta in Hb1. rewrite zlen_sub0 in Hb1 by lia.
  set (newlen := zlen b1) in *.
  destruct ((v_length h <? newlen) && negb (v_resizable h)) eqn:NS; [exact I|].
  eapply okres_bind with
    (P := fun lb => snd lb <> [] /\ (v_length h < newlen \/ (fst lb = v_length h /\ newlen <= v_length h))).
  { destruct (v_length h <? newlen) eqn:LN.
    - destruct (s0 =? 0); [exact I|]. cbn. split; [discriminate|lia].
    - cbn. split; [discriminate|lia]. }
  intros [len blocks] (NB & Cases). cbn [fst snd] in NB, Cases.
  set (b2 := (if newlen <? len then b1 ++ zrepeat pol (len - newlen) else b1)).
  assert (Z2 : 64 <= zlen b2 /\ zlen b1 <= zlen b2 /\ (v_resizable h = false -> zlen b2 = zlen vb)).
  { subst b2. destruct Cases as [A|[-> B]].
    - destruct (newlen <? len); rewrite ?zlen_app;
        pose proof (zlen_nonneg (zrepeat pol (len - newlen))); subst newlen; lia.
    - destruct (newlen <? v_length h) eqn:LL.
      + rewrite zlen_app, zlen_zrepeat by lia. subst newlen. lia.
      + subst newlen. lia. }
  destruct Z2 as (Z2a & Z2b & Z2c).
  destruct (zlen b2 <? 40) eqn:L40; [lia|].
  set (b3 := splice 32 (le_enc 8 len) b2).
  assert (Z3 : zlen b3 = zlen b2) by (subst b3; apply zlen_splice; rewrite ?le8; lia).
  set (b4 := if ffs3 && bytes_eqb (v_guid h) FFS2 then splice 16 FFS3 b3 else b3).
  assert (Z4 : zlen b4 = zlen b2).
  { subst b4. destruct (ffs3 && _); [|exact Z3]. rewrite zlen_splice; rewrite ?zlen_FFS3; lia. }
  destruct blocks as [|[c s] bl]; [congruence|].
  destruct (zlen b4 <? 60) eqn:L60; [lia|].
  set (b5 := splice 56 (le_enc 4 c) b4).
  assert (Z5 : zlen b5 = zlen b2) by (subst b5; rewrite zlen_splice; rewrite ?le4; lia).
  set (b6 := splice 50 [0; 0] b5).
  assert (Z6 : zlen b6 = zlen b2).
  { subst b6. rewrite zlen_splice; [lia|lia|]. change (zlen [0; 0]) with 2. lia. }
  rewrite slice_ok by (subst newlen; lia).
  destruct (negb (Z.even (v_hdrlen h))); [exact I|].
  cbn [okres snd]. intros R.
  rewrite zlen_splice; rewrite ?le2; try lia.
Qed.

Section Asm.
Variable enc : Z -> bytes -> option bytes.
Variable s2u : bytes -> bytes.
Notation asm := (asm enc s2u).
Notation asm_elems := (asm_elems enc s2u).

Lemma asm_sec h buf kids st :
  asm (NSec h buf kids) st =
  bind (asm_elems kids st) (fun ks => let '(kids', st1) := ks in sec_asm enc s2u h buf kids' st1).
Proof. reflexivity. Qed.

Lemma asm_file h buf kids st :
  asm (NFile h buf kids) st =
  bind (asm_elems kids st) (fun ks => let '(kids', st1) := ks in file_asm h buf kids' st1).
Proof. reflexivity. Qed.

Lemma asm_volume h buf kids st :
  asm (NVol h buf kids) st =
  match set_polarity (fst st) (fv_polarity (v_attrs h)) with
  | None => Err E_POLARITY
  | Some pol0 =>
    bind (asm_elems kids (pol0, false))
         (fun ks => let '(kids', st1) := ks in
                    bind (vol_asm h buf kids' st1)
                         (fun r => let '(n', st2) := r in Ok (n', (fst st2, snd st))))
  end.
Proof. reflexivity. Qed.

Lemma sec_asm_ok h buf kids' st1 : (s_type h = 2 -> s_gd h <> None) ->
  okres (sec_asm enc s2u h buf kids' st1) (fun r => exists h' b' k', fst r = NSec h' b' k').
Proof.
  intros G. unfold sec_asm. destruct st1 as [pol ffs3].
  destruct kids' as [|k ks].
  - cbv zeta. eapply okres_bind with (P := fun _ => True).
    + destruct (_ =? 21); [exact I|]. destruct (_ =? 20); [exact I|].
      destruct (_ || _); [|exact I].
      eapply okres_bind; [apply emit_depex_ok|]. intros; exact I.
    + intros [b|] _; [|cbn; eauto]. destruct (gen_sec_header h b). cbn; eauto.
  - cbv zeta. eapply okres_bind with (P := fun _ => True).
    + destruct (s_type h =? 2) eqn:T2; [|exact I].
      destruct (s_gd h) as [g|] eqn:E; [|exfalso; apply G; [lia|reflexivity]].
      destruct (negb _); [|exact I]. destruct (_ =? 0); [exact I|]. destruct (enc _ _); exact I.
    + intros body _. destruct (gen_sec_header h body). cbn; eauto.
Qed.

Lemma file_asm_ok h buf kids' st1 :
  okres (file_asm h buf kids' st1)
        (fun r => exists h' b' k', fst r = NFile h' b' k' /\ (0 < zlen buf -> 0 < zlen b')).
Proof.
  unfold file_asm. destruct st1 as [pol ffs3].
  assert (B : forall data, okres
      (let '(ext, attr) := set_size (f_attr h) (24 + zlen data) true in
       let '(h', nb) := checksum_and_assemble h ext attr data in
       Ok (NFile h' nb kids', (pol, ffs3 || (16777215 <? ext))))
      (fun r => exists h' b' k', fst r = NFile h' b' k' /\ (0 < zlen buf -> 0 < zlen b'))).
  { intros data. destruct (set_size _ _ _) as [ext attr].
    pose proof (zlen_checksum_and_assemble h ext attr data) as L.
    destruct (checksum_and_assemble h ext attr data) as [h' nb]. cbn [snd] in L.
    cbn. eexists; eexists; eexists. split; [reflexivity|]. intros; exact L. }
  destruct kids' as [|k ks]; destruct (f_nvar h) as [nb|]; try apply B.
  cbn. eexists; eexists; eexists. split; [reflexivity|]. auto.
Qed.

End Asm.

(* ---- the whole tree ---- *)

Section AsmTree.
Variable dec : Z -> bytes -> option bytes.
Variable enc : Z -> bytes -> option bytes.
Variable u2s : bytes -> bytes.
Variable s2u : bytes -> bytes.
Notation asm := (asm enc s2u).
Notation asm_elems := (asm_elems enc s2u).
Notation node_ok := (node_ok dec u2s).

(* what assembling does to a node, as far as the parent's panic sites are concerned *)
Definition asm_post (n n' : node) : Prop :=
  match n, n' with
  | NPad _ b, NPad _ b' => b' = b
  | NSec _ _ _, NSec _ _ _ => True
  | NFile _ b _, NFile _ b' _ => 0 < zlen b -> 0 < zlen b'
  | NVol h b _, NVol _ b' _ => v_resizable h = false -> zlen b' = zlen b
  | _, _ => False
  end.

Definition good (n : node) : Prop :=
  node_ok n -> forall st, okres (asm n st) (fun r => asm_post n (fst r)).

Lemma asm_elems_ok kids : all_ok good kids -> all_ok node_ok kids ->
  forall st, okres (asm_elems kids st) (fun r => Forall2 asm_post kids (fst r)).
Proof.
  induction kids as [|k r IH]; intros G N st; cbn [Ffs.asm_elems].
  - cbn. constructor.
  - destruct G as [G Gs]. destruct N as [N Ns].
    eapply okres_bind; [apply G; exact N|]. intros [x' st1] Hx.
    eapply okres_bind; [apply IH; assumption|]. intros [r' st2] Hr.
    cbn in *. constructor; auto.
Qed.

Lemma files_tile_pos b : forall kids off, files_tile b off kids ->
  Forall (fun k => exists h fb ks, k = NFile h fb ks /\ 0 < zlen fb) kids /\
  (kids <> [] -> off <= zlen b).
Proof.
  induction kids as [|k r IH]; intros off T; [split; [constructor|congruence]|].
  cbn [files_tile] in T. destruct k as [| h fb ks | |]; try contradiction.
  destruct T as (A0 & E0 & LE & -> & T). apply IH in T as [T _].
  pose proof (align8_bounds off).
  split; [|intros _; lia].
  constructor; [|exact T]. eexists; eexists; eexists. split; [reflexivity|].
  rewrite zlen_sub by lia. exact E0.
Qed.

Lemma files_pos_after kids kids' :
  Forall (fun k => exists h fb ks, k = NFile h fb ks /\ 0 < zlen fb) kids ->
  Forall2 asm_post kids kids' -> Forall (fun f => 0 < zlen (node_buf f)) kids'.
Proof.
  intros F F2. induction F2 as [|k k' r r' P F2 IH]; [constructor|].
  inversion F as [|? ? (h & fb & ks & -> & L) Fr]; subst.
  constructor; [|apply IH; exact Fr].
  destruct k'; try contradiction. cbn in P |- *. auto.
Qed.

Theorem asm_node_ok : forall n, good n.
Proof.
  apply node_ind_all.
  - intros h b kids IH (OKb & SF & _ & AK) st. rewrite asm_sec.
    eapply okres_bind; [apply asm_elems_ok; assumption|]. intros [kids' st1] _.
    eapply okres_weaken; [apply sec_asm_ok|].
    + destruct SF as (_ & _ & _ & _ & _ & _ & _ & G & _). intros T E. rewrite E in G. contradiction.
    + intros r (h' & b' & k' & E). rewrite E. exact I.
  - intros h b kids IH (OKb & FF & _ & AK) st. rewrite asm_file.
    eapply okres_bind; [apply asm_elems_ok; assumption|]. intros [kids' st1] _.
    eapply okres_weaken; [apply file_asm_ok|].
    intros r (h' & b' & k' & E & L). rewrite E. exact L.
  - intros h b kids IH (OKb & (ZV & L64 & HF) & FT & AK) st. rewrite asm_volume.
    destruct (set_polarity _ _) as [pol0|]; [|exact I].
    eapply okres_bind; [apply asm_elems_ok; assumption|]. intros [kids' [pol ffs3]] F2.
    cbn [fst] in F2.
    apply files_tile_pos in FT as [FP DO].
    eapply okres_bind with (P := fun r => asm_post (NVol h b kids) (fst r));
      [|intros [n' st2] R; cbn in *; exact R].
    unfold vol_asm.
    eapply okres_bind.
    + apply asm_vol_ok; auto.
      * destruct HF as (_ & _ & _ & _ & _ & G6 & _). rewrite G6. apply rd_nonneg, OKb.
      * destruct HF as (_ & _ & _ & _ & _ & G6 & _ & G8 & _ & _ & _ & G12 & G13).
        rewrite G13.
        pose proof (rd_nonneg 48 2 b OKb). pose proof (rd_nonneg 52 2 b OKb).
        assert (0 <= v_extsize h).
        { rewrite G12. destruct (vol_has_ext h); [apply rd_nonneg; auto|lia]. }
        match goal with |- 0 <= align8 ?x => pose proof (align8_bounds x) end.
        destruct (vol_has_ext h); lia.
      * eapply files_pos_after; eauto.
    + intros [h' nb] R. cbn in *. exact R.
  - intros o b _ st. cbn. reflexivity.
Qed.

Lemma all_ok_all (P : node -> Prop) (H : forall n, P n) l : all_ok P l.
Proof. induction l; cbn; auto. Qed.

Lemma copy_elems_ok : forall l fbuf off, 0 <= off ->
  off + zlen (concat (map node_buf l)) <= zlen fbuf ->
  okres (copy_elems fbuf off l) (fun _ => True).
Proof.
  induction l as [|e r IH]; intros fbuf off O L; cbn [copy_elems]; [exact I|].
  cbn [map concat] in L. rewrite zlen_app in L.
  pose proof (zlen_nonneg (node_buf e)). pose proof (zlen_nonneg (concat (map node_buf r))).
  destruct (zlen fbuf <? off + zlen (node_buf e)) eqn:LT; [lia|].
  apply IH; [lia|]. rewrite zlen_splice by lia. lia.
Qed.

Lemma elems_len_after : forall elems elems' abs, elems_at abs elems ->
  Forall2 asm_post elems elems' ->
  zlen (concat (map node_buf elems')) = zlen (concat (map node_buf elems)).
Proof.
  intros elems elems' abs A F2. revert abs A.
  induction F2 as [|k k' r r' P F2 IH]; intros abs A; [reflexivity|].
  cbn [map concat]. rewrite !zlen_app.
  destruct k as [| | h b ks | o b]; cbn [elems_at] in A; try contradiction.
  - destruct A as (_ & RZ & _ & A). destruct k'; try contradiction. cbn in P |- *.
    rewrite (IH _ A), (P RZ). reflexivity.
  - destruct A as (_ & A). destruct k'; try contradiction. cbn in P |- *.
    rewrite (IH _ A), P. reflexivity.
Qed.

Theorem asm_bios_ok elems abs st :
  all_ok node_ok elems -> elems_at abs elems ->
  okres (asm_bios enc s2u elems (zlen (concat (map node_buf elems))) st) (fun _ => True).
Proof.
  intros N A. unfold asm_bios.
  eapply okres_bind; [apply asm_elems_ok; [apply all_ok_all, asm_node_ok|exact N]|].
  intros [elems' st1] F2. cbn [fst] in F2.
  destruct (first_fv elems'); [|exact I].
  destruct (set_polarity _ _) as [pol|]; [|exact I].
  eapply okres_bind; [|intros; exact I].
  apply copy_elems_ok; [lia|].
  rewrite (elems_len_after _ _ _ A F2).
  rewrite zlen_zrepeat by apply zlen_nonneg. lia.
Qed.

End AsmTree.

Section AsmParsed.
Variable dec : Z -> bytes -> option bytes.
Variable enc : Z -> bytes -> option bytes.
Variable u2s : bytes -> bytes.
Variable s2u : bytes -> bytes.
Variable nvar : bytes -> option bytes.
Hypothesis Hdec : dec_ok dec.

Theorem asm_no_panic_on_parsed d buf elems pol : bytes_ok buf = true ->
  parse_region dec u2s nvar d buf = Ok (elems, pol) ->
  is_panic (asm_bios enc s2u elems (zlen buf) (pol, false)) = false.
Proof.
  intros OK H.
  destruct (region_partition _ _ _ _ _ _ _ H) as [C A].
  pose proof (region_nodes_ok _ _ _ Hdec _ _ _ _ OK H) as N.
  rewrite <- C. eapply okres_np. eapply asm_bios_ok; eauto.
Qed.

Theorem save_region_no_panic d buf : bytes_ok buf = true ->
  is_panic (save_region dec enc u2s s2u nvar d buf) = false.
Proof.
  intros OK. unfold save_region.
  pose proof (region_no_panic dec u2s nvar Hdec d buf OK) as NP.
  destruct (parse_region dec u2s nvar d buf) as [[elems pol]| | |] eqn:P; try discriminate; try reflexivity.
  cbn [bind].
  pose proof (asm_no_panic_on_parsed d buf elems pol OK P) as NA.
  destruct (asm_bios _ _ _ _ _) as [[[e b] s]| | |]; try discriminate; reflexivity.
Qed.

End AsmParsed.
