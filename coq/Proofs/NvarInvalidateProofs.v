(* Proofs/NvarInvalidateProofs.v — invalidating a name removes exactly the chains
   with that name from what compaction sees, so the side condition compact_fits
   carries over from the store to the invalidated store (property C10). *)
From Fiano Require Import Base.Bytes Base.BytesLemmas Gen.Consts Model.Nvar Proofs.NvarProofs
     Proofs.NvarCompactProofs Proofs.NvarReparseProofs.
From Coq Require Import ZifyBool ZifyNat Sorting.Sorted.
Open Scope Z_scope.

Definition other (n : bytes) (v : nvar) : bool := negb (bytes_eqb (v_name v) n).

Lemma sorted_off_inj es : StronglySorted ltoff es ->
  forall a b, In a es -> In b es -> v_off a = v_off b -> a = b.
Proof.
  induction 1 as [|x r S IH F]; intros a b Ha Hb E; [destruct Ha|].
  rewrite Forall_forall in F. unfold ltoff in F.
  destruct Ha as [<-|Ha], Hb as [<-|Hb]; auto.
  - specialize (F b Hb). lia.
  - specialize (F a Ha). lia.
Qed.

Section Inv.
Variable n : bytes.
Variable es : list nvar.
Hypothesis CO : chains_ok es.

(* the two maps agree on every key a surviving entry will ever read *)
Definition agree (m m' : list (Z * nvar)) : Prop :=
  forall v, In v es -> is_valid v = true -> other n v = true -> lookup (v_off v) m' = lookup (v_off v) m.

Lemma pass1_invalidate R : forall P m m', es = P ++ R -> agree m m' ->
  snd (pass1 (map (inv_entry n) R) m') = filter (other n) (snd (pass1 R m)) /\
  agree (fst (pass1 R m)) (fst (pass1 (map (inv_entry n) R) m')).
Proof.
  destruct CO as [Hsorted _ Hlink _ _].
  induction R as [|w R' IH]; intros P m m' E A; [split; [reflexivity|exact A]|].
  assert (E' : es = (P ++ [w]) ++ R') by (rewrite <- app_assoc; exact E).
  assert (Hw : In w es) by (rewrite E; apply in_or_app; right; left; reflexivity).
  cbn [map pass1].
  destruct (is_valid w) eqn:V; cbn [negb].
  2:{ (* already invalid *)
    assert (V' : is_valid (inv_entry n w) = false).
    { unfold inv_entry. destruct (bytes_eqb (v_name w) n); [|exact V].
      unfold is_valid. destruct (set_type_fields nvar_type_invalid w) as (_ & _ & _ & _ & _ & _ & _ & _ & ->). reflexivity. }
    rewrite V'. cbn [negb]. apply (IH (P ++ [w])); auto. }
  destruct (bytes_eqb (v_name w) n) eqn:Nw.
  - (* carries the name: skipped in the invalidated store *)
    assert (V' : is_valid (inv_entry n w) = false).
    { unfold inv_entry. rewrite Nw. unfold is_valid.
      destruct (set_type_fields nvar_type_invalid w) as (_ & _ & _ & _ & _ & _ & _ & _ & ->). reflexivity. }
    rewrite V'. cbn [negb].
    set (h := match lookup (v_off w) m with Some h => h | None => w end).
    assert (A' : forall key, (if v_nextoff w =? 0 then key = v_off w else key = v_nextoff w) ->
                             agree ((key, h) :: m) m').
    { intros key Hkey v Hv Vv Ov. cbn [lookup].
      destruct (v_off v =? key) eqn:EK; [|apply A; auto]. exfalso.
      unfold other in Ov. apply negb_true_iff in Ov.
      destruct (v_nextoff w =? 0) eqn:N0.
      - assert (w = v) by (apply (sorted_off_inj es Hsorted); auto; lia). subst v. congruence.
      - destruct (Hlink w v Hw Hv V Vv ltac:(lia) ltac:(lia)) as [_ En]. congruence. }
    destruct (v_nextoff w =? 0) eqn:N0; cbn [negb].
    + specialize (IH (P ++ [w]) ((v_off w, h) :: m) m' E' (A' _ eq_refl)).
      fold h. destruct (pass1 R' ((v_off w, h) :: m)) as [mf keep]. cbn [fst snd] in *.
      destruct IH as [K Ag]. split; [|exact Ag].
      rewrite K. cbn [filter]. unfold other at 2. rewrite Nw. reflexivity.
    + specialize (IH (P ++ [w]) ((v_nextoff w, h) :: m) m' E' (A' _ eq_refl)). fold h. exact IH.
  - (* another name: processed identically *)
    assert (Iw : inv_entry n w = w) by (unfold inv_entry; rewrite Nw; reflexivity).
    rewrite Iw, V. cbn [negb].
    assert (Ow : other n w = true) by (unfold other; rewrite Nw; reflexivity).
    rewrite (A w Hw V Ow).
    set (h := match lookup (v_off w) m with Some h => h | None => w end).
    assert (A' : forall key, agree ((key, h) :: m) ((key, h) :: m')).
    { intros key v Hv Vv Ov. cbn [lookup]. destruct (v_off v =? key); [reflexivity|apply A; auto]. }
    destruct (v_nextoff w =? 0) eqn:N0; cbn [negb].
    + specialize (IH (P ++ [w]) ((v_off w, h) :: m) ((v_off w, h) :: m') E' (A' _)).
      destruct (pass1 R' ((v_off w, h) :: m)) as [mf keep].
      destruct (pass1 (map (inv_entry n) R') ((v_off w, h) :: m')) as [mf' keep']. cbn [fst snd] in *.
      destruct IH as [K Ag]. split; [|exact Ag]. rewrite K. cbn [filter]. rewrite Ow. reflexivity.
    + apply (IH (P ++ [w])); auto.
Qed.

(* the chains the invalidated store still has are the original ones with another name *)
Lemma heads_tails_invalidate :
  heads_tails (map (inv_entry n) es) = filter (fun ht => other n (snd ht)) (heads_tails es).
Proof.
  unfold heads_tails.
  destruct (pass1_invalidate es [] [] [] eq_refl ltac:(intros v _ _ _; reflexivity)) as [K Ag].
  pose proof (pass1_keep es []) as K0.
  destruct (pass1 es []) as [m keep]. destruct (pass1 (map (inv_entry n) es) []) as [m' keep'].
  cbn [fst snd] in *. subst keep'. subst keep.
  assert (FM : forall (f : nvar -> nvar) l,
             filter (fun ht : nvar * nvar => other n (snd ht)) (map (fun k => (f k, k)) l) =
             map (fun k => (f k, k)) (filter (other n) l)).
  { intros f l. induction l as [|k r IH]; [reflexivity|].
    cbn [map filter snd]. destruct (other n k); cbn [map]; rewrite IH; reflexivity. }
  rewrite FM. apply map_ext_in. intros k Hk.
  apply filter_In in Hk as [Hk Ok]. unfold tails in Hk. apply filter_In in Hk as [Hin Tk].
  unfold is_tail in Tk. apply andb_true_iff in Tk as [Vk _].
  rewrite (Ag k Hin Vk Ok). reflexivity.
Qed.

End Inv.

(* ---------- compact_fits carries over to a sub-list of the chains ---------- *)

Lemma gpos_none g store : gpos g store = None -> ~ In g store.
Proof.
  induction store as [|x r IH]; cbn [gpos]; [auto|].
  destruct (bytes_eqb g x) eqn:E; [discriminate|].
  destruct (gpos g r); [discriminate|]. intros _ [<-|H]; [|apply IH; auto].
  rewrite bytes_eqb_refl in E. discriminate.
Qed.

Lemma NoDup_snoc {A} (l : list A) a : NoDup l -> ~ In a l -> NoDup (l ++ [a]).
Proof.
  induction 1 as [|x l Hx ND IH]; intros Ha; [repeat constructor; auto|].
  cbn [app]. constructor.
  - intros H. apply in_app_or in H as [H|[<-|[]]]; [auto|]. apply Ha. left. reflexivity.
  - apply IH. intros H. apply Ha. right. exact H.
Qed.

Lemma assign_gidx_nodup hts : forall gstore, NoDup gstore -> NoDup (snd (assign_gidx hts gstore)).
Proof.
  induction hts as [|[h k] r IH]; intros gstore ND; [exact ND|].
  cbn [assign_gidx]. destruct (ATTR (v_attrs h) nvar_attr_guid).
  - specialize (IH gstore ND). destruct (assign_gidx r gstore). exact IH.
  - destruct (gpos (v_guid h) gstore) eqn:GP.
    + specialize (IH gstore ND). destruct (assign_gidx r gstore). exact IH.
    + assert (ND' : NoDup (gstore ++ [v_guid h])).
      { apply NoDup_snoc; [exact ND|apply gpos_none; exact GP]. }
      specialize (IH _ ND'). destruct (assign_gidx r (gstore ++ [v_guid h])). exact IH.
Qed.

Definition indexed (ht : nvar * nvar) : bool := negb (ATTR (v_attrs (fst ht)) nvar_attr_guid).

(* the table holds exactly the initial GUIDs and those of the indexed heads *)
Lemma assign_gidx_elems hts : forall gstore g,
  In g (snd (assign_gidx hts gstore)) <->
  In g gstore \/ exists ht, In ht hts /\ indexed ht = true /\ v_guid (fst ht) = g.
Proof.
  induction hts as [|[h k] r IH]; intros gstore g.
  - cbn. split; [auto|]. intros [H|(ht & [] & _)]. exact H.
  - cbn [assign_gidx]. unfold indexed at 1. 
    destruct (ATTR (v_attrs h) nvar_attr_guid) eqn:AG.
    + specialize (IH gstore g). destruct (assign_gidx r gstore). cbn [snd] in *. rewrite IH.
      split; intros [H|(ht & Hin & Ix & E)]; auto.
      * right. exists ht. split; [right; exact Hin|auto].
      * destruct Hin as [<-|Hin].
        -- unfold indexed in Ix. cbn [fst] in Ix. rewrite AG in Ix. discriminate.
        -- right. exists ht. auto.
    + destruct (gpos (v_guid h) gstore) as [i|] eqn:GP.
      * specialize (IH gstore g). destruct (assign_gidx r gstore). cbn [snd] in *. rewrite IH.
        split; intros [H|(ht & Hin & Ix & E)]; auto.
        -- right. exists ht. split; [right; exact Hin|auto].
        -- destruct Hin as [<-|Hin].
           ++ cbn [fst] in E. subst g. left.
              destruct (gpos_bound _ _ _ GP) as [B N]. rewrite <- N. apply nth_In. unfold zlen in B. lia.
           ++ right. exists ht. auto.
      * specialize (IH (gstore ++ [v_guid h]) g). destruct (assign_gidx r (gstore ++ [v_guid h])).
        cbn [snd] in *. rewrite IH. rewrite in_app_iff. cbn [In].
        split.
        -- intros [[H|[H|[]]]|(ht & Hin & Ix & E)]; auto.
           ++ right. exists (h, k). split; [left; reflexivity|]. unfold indexed. cbn [fst]. rewrite AG. auto.
           ++ right. exists ht. split; [right; exact Hin|auto].
        -- intros [H|(ht & [<-|Hin] & Ix & E)]; auto.
           right. exists ht. auto.
Qed.

Lemma filter_table_smaller (p : nvar * nvar -> bool) hts :
  (length (snd (assign_gidx (filter p hts) [])) <= length (snd (assign_gidx hts [])))%nat.
Proof.
  apply NoDup_incl_length.
  - apply assign_gidx_nodup. constructor.
  - intros g Hg. apply assign_gidx_elems in Hg as [[]|(ht & Hin & Ix & E)].
    apply assign_gidx_elems. right. exists ht. apply filter_In in Hin as [Hin _]. auto.
Qed.

Section Fits.
Variable enc16 : bytes -> bytes.

(* the rebuilt size does not depend on which index is assigned *)
Definition rsz (ht : nvar * nvar) : Z :=
  rebuilt_size enc16 (fst ht) (snd ht) (if ATTR (v_attrs (fst ht)) nvar_attr_guid then None else Some 0).

Definition kind_ok (ht : nvar * nvar) (gi : option Z) : Prop :=
  match gi with
  | Some _ => ATTR (v_attrs (fst ht)) nvar_attr_guid = false
  | None => ATTR (v_attrs (fst ht)) nvar_attr_guid = true
  end.

Lemma rsz_kind ht gi : kind_ok ht gi -> rebuilt_size enc16 (fst ht) (snd ht) gi = rsz ht.
Proof.
  unfold kind_ok, rsz, rebuilt_size, gpart_bytes. destruct gi as [i|]; intros ->; reflexivity.
Qed.

Lemma assign_gidx_kinds hts gstore : Forall2 kind_ok hts (fst (assign_gidx hts gstore)).
Proof.
  eapply Forall2_impl; [|apply assign_gidx_resolves].
  intros ht gi H. unfold kind_ok. destruct gi; [apply H|exact H].
Qed.

Lemma sizes_rsz pol hts : forall gis offset, Forall2 kind_ok hts gis ->
  map v_size (final_entries enc16 pol hts gis offset) = map rsz hts.
Proof.
  induction hts as [|[h k] r IH]; intros gis offset F; inversion F as [|? gi ? gr K Fr]; subst; [reflexivity|].
  cbn [final_entries map]. rewrite IH by exact Fr. f_equal.
  unfold final_entry. cbn [v_size]. apply (rsz_kind (h, k) gi K).
Qed.

Lemma Forall2_rsz hts gis (P : Z -> Prop) : Forall2 kind_ok hts gis ->
  (Forall2 (fun ht gi => P (rebuilt_size enc16 (fst ht) (snd ht) gi)) hts gis <-> Forall (fun ht => P (rsz ht)) hts).
Proof.
  intros F. induction F as [|ht gi r gr K _ IH]; [split; constructor|].
  split; intros H; inversion H; subst; constructor; try (apply IH; assumption).
  - rewrite <- (rsz_kind ht gi K). assumption.
  - rewrite (rsz_kind ht gi K). assumption.
Qed.

Lemma sum_filter_le (p : nvar * nvar -> bool) hts :
  sum_list (map rsz (filter p hts)) <= sum_list (map rsz hts).
Proof.
  induction hts as [|ht r IH]; [cbn; lia|].
  cbn [filter]. pose proof (rebuilt_size_pos enc16 (fst ht) (snd ht)
                              (if ATTR (v_attrs (fst ht)) nvar_attr_guid then None else Some 0)) as Pz.
  fold (rsz ht) in Pz.
  unfold sum_list in *. destruct (p ht); cbn [map fold_right]; lia.
Qed.

(* invalidating a name keeps the side condition *)
Lemma compact_fits_invalidate pol n s :
  chains_ok (s_entries s) -> compact_fits enc16 pol s -> compact_fits enc16 pol (invalidate n s).
Proof.
  intros CO FIT. unfold compact_fits in *.
  rewrite invalidate_entries, (heads_tails_invalidate n (s_entries s) CO).
  set (p := fun ht : nvar * nvar => other n (snd ht)).
  set (hts := heads_tails (s_entries s)) in *.
  pose proof (assign_gidx_kinds hts []) as K.
  pose proof (assign_gidx_kinds (filter p hts) []) as K'.
  pose proof (filter_table_smaller p hts) as TL.
  destruct (assign_gidx hts []) as [gis table]. destruct (assign_gidx (filter p hts) []) as [gis' table'].
  cbn [fst snd] in *.
  destruct FIT as (Hpol & Sz & Tl & Fit & Len).
  change (s_len (invalidate n s)) with (s_len s).
  rewrite (sizes_rsz pol hts gis 0 K) in Fit. rewrite (sizes_rsz pol _ gis' 0 K').
  pose proof (sum_filter_le p hts) as SL.
  split; [exact Hpol|]. split; [|unfold zlen in *; unfold nvar_guid_size in *; repeat split; lia].
  apply (Forall2_rsz _ _ (fun z => z < 2 ^ 16) K').
  apply (Forall2_rsz _ _ (fun z => z < 2 ^ 16) K) in Sz.
  rewrite Forall_forall in *. intros ht Hht. apply filter_In in Hht as [Hht _]. apply Sz. exact Hht.
Qed.

(* invalidating a variable by name before compaction removes exactly that variable
   (all its versions) and no other *)
Theorem invalidate_then_compact_full pol d' n s :
  chains_ok (s_entries s) -> compact_fits enc16 pol s ->
  exists st', compact_store enc16 pol (S d') (invalidate n s) = Ok st' /\
    s_len st' = s_len s /\
    live st' = filter (fun t => negb (bytes_eqb (snd (fst t)) n)) (live s) /\
    Forall full_tail (s_entries st').
Proof.
  intros CO FIT. apply invalidate_then_compact; [exact CO|].
  apply compact_fits_invalidate; auto.
Qed.

End Fits.

(* ---------- the statement read on bytes: parse, compact, re-parse, compact again ---------- *)
Section Pipeline.
Variables dec16 enc16 : bytes -> bytes.
Hypothesis codec_rt : forall u, bmp_ok u = true -> enc16 (dec16 u ++ [0]) = u ++ [0; 0].
Hypothesis codec_nz : forall u, bmp_ok u = true ->
  match last_byte (dec16 u) with Some l => l <> 0 | None => True end.

Lemma s_len_interp pol s : s_len (interp dec16 pol s) = zlen (emit pol s).
Proof. unfold interp. destruct (interp_entries _ _ _ _ _ _ _). reflexivity. Qed.

Theorem bytes_pipeline pol d' s :
  wf_store pol s = true ->
  let st := interp dec16 pol s in
  chains_ok (s_entries st) -> compact_fits enc16 pol st -> reparse_ok dec16 enc16 pol st ->
  parse_store dec16 pol (emit pol s) = Ok st /\
  exists st' st2,
    compact_store enc16 pol (S d') st = Ok st' /\
    zlen (s_buf st') = zlen (emit pol s) /\
    parse_store dec16 pol (s_buf st') = Ok st2 /\
    live st2 = live st /\ Forall full_tail (s_entries st2) /\
    exists st3, compact_store enc16 pol (S d') st2 = Ok st3 /\ s_buf st3 = s_buf st'.
Proof.
  intros W st CO FIT RP. split; [apply (parse_emit dec16 enc16 codec_rt codec_nz); exact W|].
  exists (compacted enc16 pol st).
  destruct (compact_idempotent dec16 enc16 codec_rt codec_nz pol d' st CO FIT RP) as (st2 & P2 & C2 & B2).
  destruct (compact_reparse dec16 enc16 codec_rt codec_nz pol st CO FIT RP) as (st2' & P2' & L2 & F2 & _).
  rewrite P2 in P2'. injection P2' as <-.
  exists st2. split; [apply compact_correct; auto|].
  split.
  { destruct (compact_spec enc16 pol d' st CO FIT) as (st' & C & _ & L & _).
    rewrite compact_correct in C by auto. injection C as <-. rewrite L. apply s_len_interp. }
  split; [exact P2|]. split; [exact L2|]. split; [exact F2|].
  exists (compacted enc16 pol st2). split; [exact C2|exact B2].
Qed.

End Pipeline.
