(* Proofs/TotalApcbProofs.v — C20 for pkg/amd/apcb: the model of Model/Apcb.v is total
   (no Panic, no Fuel) on ARBITRARY byte strings, not only on well-formed blobs. *)
From Fiano Require Import Base.Bytes Base.BytesLemmas Gen.Consts Model.Apcb Proofs.TotalBase.
From Coq Require Import ZifyBool ZifyNat.
From Fiano Require Import Proofs.ApcbProofs.
Open Scope Z_scope.

(* ---- small facts ---- *)

Lemma zlen_zfirstn_le {A} n (l : list A) : zlen (zfirstn n l) <= zlen l.
Proof. unfold zlen, zfirstn. rewrite firstn_length. lia. Qed.

Lemma zlen_zskipn_le' {A} n (l : list A) : zlen (zskipn n l) <= zlen l.
Proof. unfold zlen, zskipn. rewrite skipn_length. lia. Qed.

Lemma zlen_sub_le off len (b : bytes) : zlen (sub off len b) <= zlen b.
Proof.
  unfold sub. pose proof (zlen_zfirstn_le len (zskipn off b)). pose proof (zlen_zskipn_le' off b). lia.
Qed.

Lemma u32_small x : 0 <= x < 2 ^ 32 -> u32 x = x.
Proof. intros. unfold u32. apply Z.mod_small; auto. Qed.

Lemma total_panic_if {A} (c : bool) s (y : outcome A) : c = false -> total y -> total (if c then Panic s else y).
Proof. intros ->. auto. Qed.

(* ---- 1. parseAPCBHeader ---- *)

Lemma parse_header_cases b : zlen b < 2 ^ 32 ->
  (exists e, parse_header b = Err e) \/
  (exists size, parse_header b = Ok size /\ HS <= size <= zlen b).
Proof.
  intros LB. pose proof (zlen_nonneg b) as NN. unfold parse_header.
  destruct (zlen b <? HS) eqn:E0; [left; eauto|].
  destruct (negb (rd apcb_hdr_off_sig 4 b =? apcb_sig_v2)); [left; eauto|].
  destruct (negb (rd apcb_hdr_off_sig2 4 b =? apcb_sig_v3)); [left; eauto|].
  destruct (negb (rd apcb_hdr_off_sigend 4 b =? apcb_sig_end)); [left; eauto|].
  cbv zeta.
  destruct (hdr_sizeof_apcb b <? HS) eqn:E1; [left; eauto|].
  rewrite (u32_small (zlen b)) by lia.
  destruct (hdr_sizeof_apcb b >? zlen b) eqn:E2; [left; eauto|].
  right. exists (hdr_sizeof_apcb b).
  unfold HS, apcb_hdr_size in *.
  rewrite slice_ok by lia. split; [reflexivity|lia].
Qed.

Lemma apcb_parse_header_total : forall b, zlen b < 2 ^ 32 -> total (parse_header b).
Proof.
  intros b LB. destruct (parse_header_cases b LB) as [[e ->]|[s [-> _]]].
  - apply total_err.
  - apply total_ok.
Qed.

(* ---- 2. ParseAPCBBinaryTokens ---- *)

Lemma list_pairs_total n : forall td th, total (list_pairs n td th).
Proof.
  induction n as [|n IH]; intros td th; cbn [list_pairs].
  - apply total_ok.
  - destruct (process_value (typ_tid th) (rd apcb_pair_off_value 4 td)); [|apply total_err].
    apply total_bind; [apply IH|]. intros; apply total_ok.
Qed.

Lemma list_type_tokens_total td th : total (list_type_tokens td th).
Proof.
  unfold list_type_tokens. apply total_if; [apply total_err|apply list_pairs_total].
Qed.

Lemma list_types_total fuel : forall group off,
  0 <= off <= zlen group -> zlen group - off < Z.of_nat fuel -> total (list_types fuel group off).
Proof.
  induction fuel as [|f IH]; intros group off H0 HF.
  - exfalso. lia.
  - cbn [list_types]. cbv zeta.
    assert (E : zlen (zskipn off group) = Z.max 0 (zlen group - off)) by (apply zlen_zskipn_le; lia).
    set (remain := zskipn off group) in *.
    destruct (zlen remain <=? 0) eqn:C0; [apply total_ok|].
    destruct (zlen remain <? TS) eqn:C1; [apply total_err|].
    set (sot := typ_sizeof (zfirstn TS remain)) in *.
    destruct (sot <? TS) eqn:C2; [apply total_err|].
    destruct (sot >? zlen remain) eqn:C3; [apply total_err|].
    unfold TS, apcb_typ_size in *.
    apply total_bind; [apply total_slice; lia|]. intros td _.
    apply total_bind; [apply list_type_tokens_total|]. intros l _.
    apply total_bind; [apply total_slice; lia|]. intros x _.
    apply total_bind; [apply IH; lia|]. intros; apply total_ok.
Qed.

Lemma list_groups_total fuel tf : forall body off,
  0 <= off <= zlen body -> zlen body < 2 ^ 32 -> zlen body - off < Z.of_nat fuel -> zlen body < Z.of_nat tf ->
  total (list_groups fuel tf body off).
Proof.
  induction fuel as [|f IH]; intros body off H0 HB HF HT.
  - exfalso. lia.
  - cbn [list_groups]. cbv zeta.
    assert (E : zlen (zskipn off body) = Z.max 0 (zlen body - off)) by (apply zlen_zskipn_le; lia).
    set (remain := zskipn off body) in *.
    destruct (zlen remain <=? 0) eqn:C0; [apply total_ok|].
    destruct (zlen remain <? GS) eqn:C1; [apply total_err|].
    set (gh := zfirstn GS remain) in *.
    set (sog := grp_sizeof gh) in *.
    destruct (sog <? GS) eqn:C2; [apply total_err|].
    destruct (sog >? zlen remain) eqn:C3; [apply total_err|].
    unfold GS, apcb_grp_size in *.
    apply total_bind.
    { destruct (grp_id gh =? apcb_tokens_group_id); [|apply total_ok].
      set (soh := grp_hsize gh) in *.
      destruct ((soh <? 16) || (soh >? sog)) eqn:C4; [apply total_err|].
      rewrite !u32_small by lia.
      rewrite slice_ok by lia. cbn [of_opt bind].
      pose proof (zlen_nonneg (sub (off + soh) (off + sog - (off + soh)) body)).
      apply list_types_total; [lia|].
      pose proof (zlen_sub_le (off + soh) (off + sog - (off + soh)) body). lia. }
    intros l _.
    apply total_bind; [apply total_slice; lia|]. intros x _.
    apply total_bind; [apply IH; lia|]. intros; apply total_ok.
Qed.

Lemma apcb_parse_tokens_total_gen : forall b, zlen b < 2 ^ 32 -> total (parse_tokens b).
Proof.
  intros b LB. unfold parse_tokens.
  apply total_bind; [apply apcb_parse_header_total; auto|]. intros size _.
  pose proof (zlen_sub_le HS (size - HS) b) as L.
  pose proof (zlen_nonneg (sub HS (size - HS) b)).
  apply list_groups_total; unfold zlen in *; lia.
Qed.

Lemma apcb_parse_tokens_total : forall b, bytes_ok b = true -> zlen b < 2 ^ 32 -> total (parse_tokens b).
Proof. intros b _. apply apcb_parse_tokens_total_gen. Qed.

(* ---- 3. UpsertToken on a hostile container ---- *)

Lemma zlen_zfirstn_min {A} n (l : list A) : 0 <= n -> zlen (zfirstn n l) = Z.min n (zlen l).
Proof. intros. unfold zlen, zfirstn. rewrite firstn_length. lia. Qed.

(* a fixedSizeBuffer write never changes the length of the underlying buffer *)
Lemma write_fixed_len off avail d buf : 0 <= off -> 0 <= avail -> off + avail <= zlen buf ->
  zlen (fst (write_fixed off avail d buf)) = zlen buf.
Proof.
  intros H0 H1 H2. unfold write_fixed. destruct (zlen d <=? avail) eqn:E; cbn [fst].
  - apply zlen_splice; lia.
  - apply zlen_splice; [lia|]. rewrite zlen_zfirstn by lia. lia.
Qed.

Lemma write_fixed_snd off avail d buf : snd (write_fixed off avail d buf) = 0 -> zlen d <= avail.
Proof.
  unfold write_fixed. destruct (zlen d <=? avail) eqn:E; cbn [snd]; [lia|].
  unfold E_WRITE. discriminate.
Qed.

Lemma write_chunks_len chunks : forall off avail buf, 0 <= off -> 0 <= avail -> off + avail <= zlen buf ->
  zlen (fst (write_chunks off avail chunks buf)) = zlen buf.
Proof.
  induction chunks as [|d r IH]; intros off avail buf H0 H1 H2; cbn [write_chunks]; [reflexivity|].
  pose proof (write_fixed_len off avail d buf H0 H1 H2) as L1.
  pose proof (write_fixed_snd off avail d buf) as S1.
  destruct (write_fixed off avail d buf) as [buf1 e]. cbn [fst snd] in *.
  destruct (e =? 0) eqn:E; cbn [negb fst]; [|exact L1].
  pose proof (zlen_nonneg d). rewrite IH; lia.
Qed.

Section Scan.
Variables (size L kind pm bm k nv : Z).
Hypothesis HSz : HS <= size <= L.
Hypothesis HL : L < 2 ^ 32.

(* a recorded group header (as read when it was matched) lies inside the blob *)
Definition grp_fits (gh : bytes) (goff : Z) : Prop :=
  0 <= goff /\ GS <= grp_hsize gh <= grp_sizeof gh /\ goff + grp_sizeof gh <= size - HS.

(* ... and a recorded type header and token offset lie inside that group's data *)
Definition typ_fits (gh th : bytes) (toff tok : Z) : Prop :=
  0 <= toff /\ TS <= typ_sizeof th /\ toff + typ_sizeof th <= grp_sizeof gh - grp_hsize gh /\
  0 <= tok <= typ_sizeof th - TS.

Definition sel_ok (st : sstate) : Prop :=
  match s_mt st, s_mg st with
  | Some (th, toff), Some (gh, goff) => grp_fits gh goff /\ typ_fits gh th toff (s_tok st)
  | Some _, None => False
  | None, Some (gh, goff) => grp_fits gh goff
  | None, None => True
  end.

(* the invariant of the scan: the buffer keeps its length, the selection points inside the blob *)
Definition inv (st : sstate) : Prop := zlen (s_buf st) = L /\ sel_ok st.

Lemma scan_pairs_inv gh goff th toff tb tl :
  0 <= tb -> tb + tl <= L ->
  forall n i st, 0 <= i -> (i + Z.of_nat n) * PS <= tl ->
  zlen (s_buf st) = L -> s_mg st = Some (gh, goff) -> s_mt st = Some (th, toff) -> 0 <= s_tok st <= tl ->
  exists st' e, scan_pairs n i tb tl k nv st = Ok (st', e) /\
    zlen (s_buf st') = L /\ s_mg st' = Some (gh, goff) /\ s_mt st' = Some (th, toff) /\ 0 <= s_tok st' <= tl.
Proof.
  intros Htb Htl. induction n as [|n IH]; intros i st Hi Hn HLn Hmg Hmt Htok.
  - cbn [scan_pairs]. eauto 10.
  - cbn [scan_pairs]. cbv zeta.
    set (id := rd (tb + i * PS + apcb_pair_off_id) 4 (s_buf st)).
    match goal with |- context [if id <=? k then ?a else ?b] => set (st1 := if id <=? k then a else b) end.
    assert (P1 : zlen (s_buf st1) = L /\ s_mg st1 = Some (gh, goff) /\ s_mt st1 = Some (th, toff) /\
                 0 <= s_tok st1 <= tl).
    { subst st1. destruct (id <=? k); cbn [s_buf s_mg s_mt s_tok]; repeat split; auto; try lia;
        rewrite u32_small; unfold PS, apcb_pair_size in *; lia. }
    destruct P1 as (A1 & A2 & A3 & A4).
    destruct (negb (id =? k)).
    + apply IH; auto; lia.
    + destruct (i * PS >? tl) eqn:C; [exfalso; unfold PS, apcb_pair_size in *; lia|].
      assert (LD : zlen (le_enc 4 id ++ le_enc 4 nv) = 8) by (rewrite zlen_app, !le4; reflexivity).
      pose proof (write_fixed_len (tb + i * PS) (tl - i * PS) (le_enc 4 id ++ le_enc 4 nv) (s_buf st1)) as WL.
      destruct (write_fixed (tb + i * PS) (tl - i * PS) (le_enc 4 id ++ le_enc 4 nv) (s_buf st1)) as [buf1 e].
      cbn [fst] in WL. rewrite A1 in WL.
      assert (WL' : zlen buf1 = L) by (apply WL; unfold PS, apcb_pair_size in *; lia).
      destruct (negb (e =? 0)).
      * do 2 eexists. split; [reflexivity|]. cbn [s_buf s_mg s_mt s_tok]. auto.
      * apply IH; cbn [s_buf s_mg s_mt s_tok]; auto; lia.
Qed.

Lemma scan_types_inv gh goff gb gl :
  grp_fits gh goff -> gl = grp_sizeof gh - grp_hsize gh -> gb = HS + goff + grp_hsize gh ->
  forall fuel off st, 0 <= off <= gl -> gl - off < Z.of_nat fuel -> inv st ->
  exists st' e, scan_types fuel gb gl off kind pm bm k nv gh goff st = Ok (st', e) /\ inv st'.
Proof.
  intros GF Hgl Hgb. pose proof GF as (G1 & G2 & G3).
  induction fuel as [|f IH]; intros off st Hoff HF I; [exfalso; lia|].
  cbn [scan_types]. cbv zeta.
  destruct (gl - off <=? 0) eqn:C0; [eauto|].
  destruct (gl - off <? TS) eqn:C1; [eauto|].
  set (th := sub (gb + off) TS (s_buf st)).
  set (sot := typ_sizeof th).
  destruct (sot <? TS) eqn:C2; [eauto|].
  destruct (sot >? gl - off) eqn:C3; [eauto|].
  match goal with |- context [match ?X with Ok _ => _ | Err _ => _ | Panic _ => _ | Fuel => _ end] =>
    assert (R : exists st1 e1, X = Ok (st1, e1) /\ inv st1) end.
  { destruct (negb (type_matches kind pm bm th)); [eauto|].
    destruct (negb ((0 <=? off + TS) && (off + TS <=? off + sot) && (off + sot <=? gl))) eqn:C4;
      [exfalso; unfold TS, apcb_typ_size in *; lia|].
    destruct I as [IL IS].
    destruct (negb ((sot - TS) mod PS =? 0)).
    - do 2 eexists. split; [reflexivity|]. split; [exact IL|].
      unfold sel_ok; cbn [s_mt s_mg s_tok]. split; [exact GF|].
      unfold typ_fits. fold sot. unfold TS, apcb_typ_size in *. lia.
    - assert (NB : (0 + Z.of_nat (Z.to_nat ((sot - TS) / PS))) * PS <= sot - TS).
      { unfold PS, TS, apcb_pair_size, apcb_typ_size in *.
        pose proof (Z.mul_div_le (sot - 16) 8 ltac:(lia)).
        rewrite Z2Nat.id by (apply Z.div_pos; lia). lia. }
      assert (N1 : 0 <= gb + off + TS)
        by (unfold GS, TS, HS, apcb_grp_size, apcb_typ_size, apcb_hdr_size in *; lia).
      assert (N2 : gb + off + TS + (sot - TS) <= L)
        by (unfold GS, TS, HS, apcb_grp_size, apcb_typ_size, apcb_hdr_size in *; lia).
      assert (N3 : 0 <= 0 <= sot - TS) by (unfold TS, apcb_typ_size in *; lia).
      destruct (scan_pairs_inv gh goff th off (gb + off + TS) (sot - TS) N1 N2
                  (Z.to_nat ((sot - TS) / PS)) 0
                  (mkS (s_buf st) (Some (gh, goff)) (Some (th, off)) 0 (s_changed st))
                  ltac:(lia) NB IL eq_refl eq_refl N3)
        as (st1 & e1 & E1 & B1 & B2 & B3 & B4).
      exists st1, e1. split; [exact E1|]. split; [exact B1|].
      unfold sel_ok. rewrite B2, B3. split; [exact GF|].
      unfold typ_fits. fold sot. unfold TS, apcb_typ_size in *. lia. }
  destruct R as (st1 & e1 & -> & I1).
  destruct (negb (e1 =? 0)); [eauto|].
  apply IH; auto; unfold TS, apcb_typ_size in *; lia.
Qed.

Lemma scan_groups_inv tf : L < Z.of_nat tf ->
  forall fuel off st, 0 <= off <= size - HS -> size - HS - off < Z.of_nat fuel -> inv st ->
  exists st' e, scan_groups fuel tf size off kind pm bm k nv st = Ok (st', e) /\ inv st'.
Proof.
  intros HT.
  induction fuel as [|f IH]; intros off st Hoff HF I; [exfalso; lia|].
  cbn [scan_groups]. cbv zeta.
  destruct (size - HS - off <=? 0) eqn:C0; [eauto|].
  destruct (size - HS - off <? GS) eqn:C1; [eauto|].
  set (gh := sub (HS + off) GS (s_buf st)).
  set (sog := grp_sizeof gh).
  destruct (sog <? GS) eqn:C2; [eauto|].
  destruct (sog >? size - HS - off) eqn:C3; [eauto|].
  match goal with |- context [match ?X with Ok _ => _ | Err _ => _ | Panic _ => _ | Fuel => _ end] =>
    assert (R : exists st1 e1, X = Ok (st1, e1) /\ inv st1) end.
  { destruct (grp_id gh =? apcb_tokens_group_id); [|eauto].
    set (soh := grp_hsize gh).
    destruct ((soh <? GS) || (soh >? sog)) eqn:C4; [eauto|].
    assert (GF : grp_fits gh off).
    { unfold grp_fits. fold soh sog. unfold GS, apcb_grp_size in *. lia. }
    rewrite !u32_small by (unfold GS, HS, apcb_grp_size, apcb_hdr_size in *; lia).
    destruct (negb ((0 <=? off + soh) && (off + soh <=? off + sog) && (off + sog <=? size - HS))) eqn:C5;
      [exfalso; unfold GS, HS, apcb_grp_size, apcb_hdr_size in *; lia|].
    apply (scan_types_inv gh off); auto;
      try (unfold GS, HS, apcb_grp_size, apcb_hdr_size in *; fold soh sog; lia).
    destruct I as [IL IS].
    destruct (s_mt st) as [[th toff]|] eqn:MT.
    - split; [exact IL|exact IS].
    - split; [exact IL|]. unfold sel_ok. cbn [s_mt s_mg]. exact GF. }
  destruct R as (st1 & e1 & -> & I1).
  destruct (negb (e1 =? 0)); [eauto|].
  apply IH; auto; unfold GS, apcb_grp_size in *; lia.
Qed.

End Scan.

(* the part of upsert_insert after the insertion point has been chosen (verbatim from the model) *)
Definition ins_tail (mt mg : option (bytes * Z)) (mgoff mtoff size : Z) (hdr buf : bytes)
    (ins added : Z) (chunks : list bytes) : outcome (bytes * Z) :=
    if u32 (size + added) >? u32 (zlen buf) then Ok (buf, E_NOROOM) else
    match slice (u32 (ins + added)) (zlen buf) buf, slice ins size buf with
    | Some dst, Some src =>
      let n := Z.min (zlen dst) (zlen src) in
      let buf1 := splice (u32 (ins + added)) (zfirstn n src) buf in
      if ins >? zlen buf1 then Panic 8 else
      let '(buf2, e) := write_chunks ins (zlen buf1 - ins) chunks buf1 in
      if negb (e =? 0) then Ok (buf2, e) else
      match
        (match mt with
         | Some (th, _) =>
           let th' := splice apcb_typ_off_size (le_enc 2 (u16 (typ_sizeof th + u16 PS))) th in
           let o := u32 (mgoff + mtoff) in
           if o >? zlen buf2 then Panic 9 else Ok (write_fixed o (zlen buf2 - o) th' buf2)
         | None => Ok (buf2, 0)
         end)
      with
      | Ok (buf3, e3) =>
        if negb (e3 =? 0) then Ok (buf3, e3) else
        match
          (match mg with
           | Some (gh, _) =>
             let gh' := splice apcb_grp_off_size (le_enc 4 (u32 (grp_sizeof gh + added))) gh in
             if mgoff >? zlen buf3 then Panic 10 else Ok (write_fixed mgoff (zlen buf3 - mgoff) gh' buf3)
           | None => Ok (buf3, 0)
           end)
        with
        | Ok (buf4, e4) =>
          if negb (e4 =? 0) then Ok (buf4, e4) else
          let hdr' := splice apcb_hdr_off_size (le_enc 4 (u32 (size + added))) hdr in
          Ok (write_fixed 0 (zlen buf4) hdr' buf4)
        | o => o
        end
      | o => o
      end
    | _, _ => Panic 7
    end.

Lemma upsert_insert_eq k pm bm kind nv size hdr st :
  upsert_insert k pm bm kind nv size hdr st =
  let buf := s_buf st in
  let mgoff := u32 (match s_mg st with Some (_, o) => o | None => 0 end + HS) in
  let mtoff0 := match s_mt st with Some (_, o) => o | None => 0 end in
  let mtoff := match s_mg st with Some (gh, _) => u32 (mtoff0 + grp_hsize gh) | None => mtoff0 end in
  match
    (match s_mt st, s_mg st with
     | Some (th, _), _ =>
       if u32 (typ_sizeof th + PS) >? 65535 then inr E_TYPE_FULL
       else inl (u32 (mgoff + mtoff + TS + s_tok st), PS, [enc_pair (k, nv)])
     | None, Some (gh, _) =>
       inl (u32 (mgoff + grp_sizeof gh), new_type_size, [new_type_header kind pm bm; enc_pair (k, nv)])
     | None, None =>
       inl (size, new_group_size, [new_group_header; new_type_header kind pm bm; enc_pair (k, nv)])
     end)
  with
  | inr e => Ok (buf, e)
  | inl (ins, added, chunks) => ins_tail (s_mt st) (s_mg st) mgoff mtoff size hdr buf ins added chunks
  end.
Proof. reflexivity. Qed.

Lemma ins_tail_total mt mg mgoff mtoff size hdr buf ins added chunks :
  0 <= ins <= size -> size <= zlen buf -> zlen buf + 40 < 2 ^ 32 -> 0 <= added <= 40 ->
  (mt <> None -> u32 (mgoff + mtoff) <= zlen buf) ->
  (mg <> None -> 0 <= mgoff <= zlen buf) ->
  total (ins_tail mt mg mgoff mtoff size hdr buf ins added chunks).
Proof.
  intros Hins Hsz HL Hadd Hmt Hmg. unfold ins_tail.
  rewrite (u32_small (size + added)), (u32_small (zlen buf)), (u32_small (ins + added)) by lia.
  destruct (size + added >? zlen buf) eqn:R; [apply total_ok|].
  rewrite !slice_ok by lia. cbv zeta.
  set (dst := sub (ins + added) (zlen buf - (ins + added)) buf).
  set (src := sub ins (size - ins) buf).
  assert (Ld : zlen dst = zlen buf - (ins + added)) by (apply zlen_sub; lia).
  assert (Ls : zlen src = size - ins) by (apply zlen_sub; lia).
  set (buf1 := splice (ins + added) (zfirstn (Z.min (zlen dst) (zlen src)) src) buf).
  assert (L1 : zlen buf1 = zlen buf).
  { apply zlen_splice; [lia|]. rewrite zlen_zfirstn_min by lia. lia. }
  rewrite L1.
  destruct (ins >? zlen buf) eqn:C8; [exfalso; lia|].
  pose proof (write_chunks_len chunks ins (zlen buf - ins) buf1 ltac:(lia) ltac:(lia) ltac:(lia)) as L2.
  destruct (write_chunks ins (zlen buf - ins) chunks buf1) as [buf2 e]. cbn [fst] in L2.
  destruct (negb (e =? 0)); [apply total_ok|].
  assert (R3 : exists buf3 e3,
    match mt with
    | Some (th, _) =>
        if u32 (mgoff + mtoff) >? zlen buf2
        then Panic 9
        else Ok (write_fixed (u32 (mgoff + mtoff)) (zlen buf2 - u32 (mgoff + mtoff))
                   (splice apcb_typ_off_size (le_enc 2 (u16 (typ_sizeof th + u16 PS))) th) buf2)
    | None => Ok (buf2, 0)
    end = Ok (buf3, e3) /\ zlen buf3 = zlen buf).
  { destruct mt as [[th x]|]; [|do 2 eexists; split; [reflexivity|lia]].
    specialize (Hmt ltac:(discriminate)).
    assert (0 <= u32 (mgoff + mtoff)) by (unfold u32; apply Z.mod_pos_bound; lia).
    destruct (u32 (mgoff + mtoff) >? zlen buf2) eqn:C9; [exfalso; lia|].
    match goal with |- context [write_fixed ?o ?a ?d ?b] =>
      pose proof (write_fixed_len o a d b ltac:(lia) ltac:(lia) ltac:(lia)) as L3;
      destruct (write_fixed o a d b) as [buf3 e3] end.
    cbn [fst] in L3. do 2 eexists; split; [reflexivity|lia]. }
  destruct R3 as (buf3 & e3 & -> & L3).
  destruct (negb (e3 =? 0)); [apply total_ok|].
  assert (R4 : exists buf4 e4,
    match mg with
    | Some (gh, _) =>
        if mgoff >? zlen buf3
        then Panic 10
        else Ok (write_fixed mgoff (zlen buf3 - mgoff)
                   (splice apcb_grp_off_size (le_enc 4 (u32 (grp_sizeof gh + added))) gh) buf3)
    | None => Ok (buf3, 0)
    end = Ok (buf4, e4) /\ zlen buf4 = zlen buf).
  { destruct mg as [[gh x]|]; [|do 2 eexists; split; [reflexivity|lia]].
    specialize (Hmg ltac:(discriminate)).
    destruct (mgoff >? zlen buf3) eqn:C10; [exfalso; lia|].
    match goal with |- context [write_fixed ?o ?a ?d ?b] =>
      pose proof (write_fixed_len o a d b ltac:(lia) ltac:(lia) ltac:(lia)) as L4;
      destruct (write_fixed o a d b) as [buf4 e4] end.
    cbn [fst] in L4. do 2 eexists; split; [reflexivity|lia]. }
  destruct R4 as (buf4 & e4 & -> & L4).
  destruct (negb (e4 =? 0)); apply total_ok.
Qed.

Lemma upsert_insert_total k pm bm kind nv size L hdr st :
  HS <= size <= L -> L + 40 < 2 ^ 32 -> inv size L st ->
  total (upsert_insert k pm bm kind nv size hdr st).
Proof.
  intros HSz HL [IL IS]. rewrite upsert_insert_eq. cbv zeta.
  unfold sel_ok in IS.
  assert (A1 : 0 <= PS <= 40) by (unfold PS, apcb_pair_size; lia).
  assert (A2 : 0 <= new_type_size <= 40) by (vm_compute; split; discriminate).
  assert (A3 : 0 <= new_group_size <= 40) by (vm_compute; split; discriminate).
  destruct (s_mt st) as [[th toff]|]; destruct (s_mg st) as [[gh goff]|]; try contradiction.
  - destruct IS as ((G1 & G2 & G3) & (T1 & T2 & T3 & T4)).
    destruct (u32 (typ_sizeof th + PS) >? 65535); [apply total_ok|].
    unfold GS, TS, HS, apcb_grp_size, apcb_typ_size, apcb_hdr_size in *.
    rewrite (u32_small (goff + 128)) by lia.
    rewrite (u32_small (toff + grp_hsize gh)) by lia.
    rewrite (u32_small (goff + 128 + (toff + grp_hsize gh) + 16 + s_tok st)) by lia.
    apply ins_tail_total; try lia.
    + intros _. rewrite u32_small by lia. lia.
  - destruct IS as (G1 & G2 & G3).
    unfold GS, TS, HS, apcb_grp_size, apcb_typ_size, apcb_hdr_size in *.
    rewrite (u32_small (goff + 128)) by lia.
    rewrite (u32_small (goff + 128 + grp_sizeof gh)) by lia.
    apply ins_tail_total; try lia. intros C; exfalso; apply C; reflexivity.
  - unfold HS, apcb_hdr_size in *.
    apply ins_tail_total; try lia.
    + intros C; exfalso; apply C; reflexivity.
    + intros C; exfalso; apply C; reflexivity.
Qed.

Lemma apcb_upsert_total_gen : forall k pm bm kind nv b,
  zlen b + 40 < 2 ^ 32 -> total (upsert k pm bm kind nv b).
Proof.
  intros k pm bm kind nv b HL. unfold upsert.
  destruct (negb (kind_ok kind)); [apply total_ok|].
  destruct (parse_header_cases b ltac:(lia)) as [[e ->]|[size [-> HSz]]]; [apply total_ok|].
  destruct (scan_groups_inv size (zlen b) kind pm bm k nv HSz ltac:(lia) (S (length b))
              ltac:(unfold zlen; lia) (S (length b)) 0 (mkS b None None 0 false))
    as (st & e & -> & I).
  - unfold HS, apcb_hdr_size in *; lia.
  - unfold HS, apcb_hdr_size, zlen in *; lia.
  - split; [reflexivity|exact I].
  - destruct (negb (e =? 0)); [apply total_ok|].
    destruct (s_changed st); [apply total_ok|].
    apply (upsert_insert_total k pm bm kind nv size (zlen b)); auto.
Qed.

(* the statement in the shape the C18 theorems use *)
Lemma apcb_upsert_total : forall k pm bm kind nv b,
  bytes_ok b = true -> zlen b + 40 < 2 ^ 32 -> args_ok k pm bm kind nv ->
  total (upsert k pm bm kind nv b).
Proof. intros k pm bm kind nv b _ HL _. apply apcb_upsert_total_gen; exact HL. Qed.
