(* Proofs/TotalApcbProofs.v — C20 for pkg/amd/apcb: the model of Model/Apcb.v is total
   (no Panic, no Fuel) on ARBITRARY byte strings, not only on well-formed blobs. *)
From Fiano Require Import Base.Bytes Base.BytesLemmas Gen.Consts Model.Apcb Proofs.TotalBase.
From Coq Require Import ZifyBool ZifyNat.
From Fiano Require Import Proofs.ApcbProofs.
Open Scope Z_scope.

(* ---- small facts ---- *)

Lemma zlen_zfirstn_le {A} n (l : list A) : zlen (zfirstn n l) <= zlen l.
Proof. unfold zlen, zfirstn. rewrite firstn_length. lia. Qed.

Lemma zlen_zskipn_le' {A} n (l : list A) : zlen (zskipn n l) <= zlen l.
Proof. unfold zlen, zskipn. rewrite skipn_length. lia. Qed.

Lemma zlen_sub_le off len (b : bytes) : zlen (sub off len b) <= zlen b.
Proof.
  unfold sub. pose proof (zlen_zfirstn_le len (zskipn off b)). pose proof (zlen_zskipn_le' off b). lia.
Qed.

Lemma u32_small x : 0 <= x < 2 ^ 32 -> u32 x = x.
Proof. intros. unfold u32. apply Z.mod_small; auto. Qed.

Lemma total_panic_if {A} (c : bool) s (y : outcome A) : c = false -> total y -> total (if c then Panic s else y).
Proof. intros ->. auto. Qed.

(* ---- 1. parseAPCBHeader ---- *)

Lemma parse_header_cases b : zlen b < 2 ^ 32 ->
  (exists e, parse_header b = Err e) \/
  (exists size, parse_header b = Ok size /\ HS <= size <= zlen b).
Proof.
  intros LB. pose proof (zlen_nonneg b) as NN. unfold parse_header.
  destruct (zlen b <? HS) eqn:E0; [left; eauto|].
  destruct (negb (rd apcb_hdr_off_sig 4 b =? apcb_sig_v2)); [left; eauto|].
  destruct (negb (rd apcb_hdr_off_sig2 4 b =? apcb_sig_v3)); [left; eauto|].
  destruct (negb (rd apcb_hdr_off_sigend 4 b =? apcb_sig_end)); [left; eauto|].
  cbv zeta.
  destruct (hdr_sizeof_apcb b <? HS) eqn:E1; [left; eauto|].
  rewrite (u32_small (zlen b)) by lia.
  destruct (hdr_sizeof_apcb b >? zlen b) eqn:E2; [left; eauto|].
  right. exists (hdr_sizeof_apcb b).
  unfold HS, apcb_hdr_size in *.
  rewrite slice_ok by lia. split; [reflexivity|lia].
Qed.

Lemma apcb_parse_header_total : forall b, zlen b < 2 ^ 32 -> total (parse_header b).
Proof.
  intros b LB. destruct (parse_header_cases b LB) as [[e ->]|[s [-> _]]].
  - apply total_err.
  - apply total_ok.
Qed.

(* ---- 2. ParseAPCBBinaryTokens ---- *)

Lemma list_pairs_total n : forall td th, total (list_pairs n td th).
Proof.
  induction n as [|n IH]; intros td th; cbn [list_pairs].
  - apply total_ok.
  - destruct (process_value (typ_tid th) (rd apcb_pair_off_value 4 td)); [|apply total_err].
    apply total_bind; [apply IH|]. intros; apply total_ok.
Qed.

Lemma list_type_tokens_total td th : total (list_type_tokens td th).
Proof.
  unfold list_type_tokens. apply total_if; [apply total_err|apply list_pairs_total].
Qed.

Lemma list_types_total fuel : forall group off,
  0 <= off <= zlen group -> zlen group - off < Z.of_nat fuel -> total (list_types fuel group off).
Proof.
  induction fuel as [|f IH]; intros group off H0 HF.
  - exfalso. lia.
  - cbn [list_types]. cbv zeta.
    assert (E : zlen (zskipn off group) = Z.max 0 (zlen group - off)) by (apply zlen_zskipn_le; lia).
    set (remain := zskipn off group) in *.
    destruct (zlen remain <=? 0) eqn:C0; [apply total_ok|].
    destruct (zlen remain <? TS) eqn:C1; [apply total_err|].
    set (sot := typ_sizeof (zfirstn TS remain)) in *.
    destruct (sot <? TS) eqn:C2; [apply total_err|].
    destruct (sot >? zlen remain) eqn:C3; [apply total_err|].
    unfold TS, apcb_typ_size in *.
    apply total_bind; [apply total_slice; lia|]. intros td _.
    apply total_bind; [apply list_type_tokens_total|]. intros l _.
    apply total_bind; [apply total_slice; lia|]. intros x _.
    apply total_bind; [apply IH; lia|]. intros; apply total_ok.
Qed.

Lemma list_groups_total fuel tf : forall body off,
  0 <= off <= zlen body -> zlen body < 2 ^ 32 -> zlen body - off < Z.of_nat fuel -> zlen body < Z.of_nat tf ->
  total (list_groups fuel tf body off).
Proof.
  induction fuel as [|f IH]; intros body off H0 HB HF HT.
  - exfalso. lia.
  - cbn [list_groups]. cbv zeta.
    assert (E : zlen (zskipn off body) = Z.max 0 (zlen body - off)) by (apply zlen_zskipn_le; lia).
    set (remain := zskipn off body) in *.
    destruct (zlen remain <=? 0) eqn:C0; [apply total_ok|].
    destruct (zlen remain <? GS) eqn:C1; [apply total_err|].
    set (gh := zfirstn GS remain) in *.
    set (sog := grp_sizeof gh) in *.
    destruct (sog <? GS) eqn:C2; [apply total_err|].
    destruct (sog >? zlen remain) eqn:C3; [apply total_err|].
    unfold GS, apcb_grp_size in *.
    apply total_bind.
    { destruct (grp_id gh =? apcb_tokens_group_id); [|apply total_ok].
      set (soh := grp_hsize gh) in *.
      destruct ((soh <? 16) || (soh >? sog)) eqn:C4; [apply total_err|].
      rewrite !u32_small by lia.
      rewrite slice_ok by lia. cbn [of_opt bind].
      pose proof (zlen_nonneg (sub (off + soh) (off + sog - (off + soh)) body)).
      apply list_types_total; [lia|].
      pose proof (zlen_sub_le (off + soh) (off + sog - (off + soh)) body). lia. }
    intros l _.
    apply total_bind; [apply total_slice; lia|]. intros x _.
    apply total_bind; [apply IH; lia|]. intros; apply total_ok.
Qed.

Lemma apcb_parse_tokens_total_gen : forall b, zlen b < 2 ^ 32 -> total (parse_tokens b).
Proof.
  intros b LB. unfold parse_tokens.
  apply total_bind; [apply apcb_parse_header_total; auto|]. intros size _.
  pose proof (zlen_sub_le HS (size - HS) b) as L.
  pose proof (zlen_nonneg (sub HS (size - HS) b)).
  apply list_groups_total; unfold zlen in *; lia.
Qed.

Lemma apcb_parse_tokens_total : forall b, bytes_ok b = true -> zlen b < 2 ^ 32 -> total (parse_tokens b).
Proof. intros b _. apply apcb_parse_tokens_total_gen. Qed.

(* ---- 3. UpsertToken on a hostile container ---- *)

Lemma zlen_zfirstn_min {A} n (l : list A) : 0 <= n -> zlen (zfirstn n l) = Z.min n (zlen l).
Proof. intros. unfold zlen, zfirstn. rewrite firstn_length. lia. Qed.

(* a fixedSizeBuffer write never changes the length of the underlying buffer *)
Lemma write_fixed_len off avail d buf : 0 <= off -> 0 <= avail -> off + avail <= zlen buf ->
  zlen (fst (write_fixed off avail d buf)) = zlen buf.
Proof.
  intros H0 H1 H2. unfold write_fixed. destruct (zlen d <=? avail) eqn:E; cbn [fst].
  - apply zlen_splice; lia.
  - apply zlen_splice; [lia|]. rewrite zlen_zfirstn by lia. lia.
Qed.

Lemma write_fixed_snd off avail d buf : snd (write_fixed off avail d buf) = 0 -> zlen d <= avail.
Proof.
  unfold write_fixed. destruct (zlen d <=? avail) eqn:E; cbn [snd]; [lia|].
  unfold E_WRITE. discriminate.
Qed.

Lemma write_chunks_len chunks : forall off avail buf, 0 <= off -> 0 <= avail -> off + avail <= zlen buf ->
  zlen (fst (write_chunks off avail chunks buf)) = zlen buf.
Proof.
  induction chunks as [|d r IH]; intros off avail buf H0 H1 H2; cbn [write_chunks]; [reflexivity|].
  pose proof (write_fixed_len off avail d buf H0 H1 H2) as L1.
  pose proof (write_fixed_snd off avail d buf) as S1.
  destruct (write_fixed off avail d buf) as [buf1 e]. cbn [fst snd] in *.
  destruct (e =? 0) eqn:E; cbn [negb fst]; [|exact L1].
  pose proof (zlen_nonneg d). rewrite IH; lia.
Qed.

Section Scan.
Variables (size L kind pm bm k nv : Z).
Hypothesis HSz : HS <= size <= L.
Hypothesis HL : L < 2 ^ 32.

(* a recorded group header (as read when it was matched) lies inside the blob *)
Definition grp_fits (gh : bytes) (goff : Z) : Prop :=
  0 <= goff /\ GS <= grp_hsize gh <= grp_sizeof gh /\ goff + grp_sizeof gh <= size - HS.

(* ... and a recorded type header and token offset lie inside that group's data *)
Definition typ_fits (gh th : bytes) (toff tok : Z) : Prop :=
  0 <= toff /\ TS <= typ_sizeof th /\ toff + typ_sizeof th <= grp_sizeof gh - grp_hsize gh /\
  0 <= tok <= typ_sizeof th - TS.

Definition sel_ok (st : sstate) : Prop :=
  match s_mt st, s_mg st with
  | Some (th, toff), Some (gh, goff) => grp_fits gh goff /\ typ_fits gh th toff (s_tok st)
  | Some _, None => False
  | None, Some (gh, goff) => grp_fits gh goff
  | None, None => True
  end.

(* the invariant of the scan: the buffer keeps its length, the selection points inside the blob *)
Definition inv (st : sstate) : Prop := zlen (s_buf st) = L /\ sel_ok st.

Lemma scan_pairs_inv gh goff th toff tb tl :
  0 <= tb -> tb + tl <= L ->
  forall n i st, 0 <= i -> (i + Z.of_nat n) * PS <= tl ->
  zlen (s_buf st) = L -> s_mg st = Some (gh, goff) -> s_mt st = Some (th, toff) -> 0 <= s_tok st <= tl ->
  exists st' e, scan_pairs n i tb tl k nv st = Ok (st', e) /\
    zlen (s_buf st') = L /\ s_mg st' = Some (gh, goff) /\ s_mt st' = Some (th, toff) /\ 0 <= s_tok st' <= tl.
Proof.
  intros Htb Htl. induction n as [|n IH]; intros i st Hi Hn HLn Hmg Hmt Htok.
  - cbn [scan_pairs]. eauto 10.
  - cbn [scan_pairs]. cbv zeta.
    set (id := rd (tb + i * PS + apcb_pair_off_id) 4 (s_buf st)).
    match goal with |- context [if id <=? k then ?a else ?b] => set (st1 := if id <=? k then a else b) end.
    assert (P1 : zlen (s_buf st1) = L /\ s_mg st1 = Some (gh, goff) /\ s_mt st1 = Some (th, toff) /\
                 0 <= s_tok st1 <= tl).
    { subst st1. destruct (id <=? k); cbn [s_buf s_mg s_mt s_tok]; repeat split; auto; try lia;
        rewrite u32_small; unfold PS, apcb_pair_size in *; lia. }
    destruct P1 as (A1 & A2 & A3 & A4).
    destruct (negb (id =? k)).
    + apply IH; auto; lia.
    + destruct (i * PS >? tl) eqn:C; [exfalso; unfold PS, apcb_pair_size in *; lia|].
      assert (LD : zlen (le_enc 4 id ++ le_enc 4 nv) = 8) by (rewrite zlen_app, !le4; reflexivity).
      pose proof (write_fixed_len (tb + i * PS) (tl - i * PS) (le_enc 4 id ++ le_enc 4 nv) (s_buf st1)) as WL.
      destruct (write_fixed (tb + i * PS) (tl - i * PS) (le_enc 4 id ++ le_enc 4 nv) (s_buf st1)) as [buf1 e].
      cbn [fst] in WL. rewrite A1 in WL.
      assert (WL' : zlen buf1 = L) by (apply WL; unfold PS, apcb_pair_size in *; lia).
      destruct (negb (e =? 0)).
      * do 2 eexists. split; [reflexivity|]. cbn [s_buf s_mg s_mt s_tok]. auto.
      * apply IH; cbn [s_buf s_mg s_mt s_tok]; auto; lia.
Qed.

Lemma scan_types_inv gh goff gb gl :
  grp_fits gh goff -> gl = grp_sizeof gh - grp_hsize gh -> gb = HS + goff + grp_hsize gh ->
  forall fuel off st, 0 <= off <= gl -> gl - off < Z.of_nat fuel -> inv st ->
  exists st' e, scan_types fuel gb gl off kind pm bm k nv gh goff st = Ok (st', e) /\ inv st'.
Proof.
  intros GF Hgl Hgb. pose proof GF as (G1 & G2 & G3).
  induction fuel as [|f IH]; intros off st Hoff HF I; [exfalso; lia|].
  cbn [scan_types]. cbv zeta.
  destruct (gl - off <=? 0) eqn:C0; [eauto|].
  destruct (gl - off <? TS) eqn:C1; [eauto|].
  set (th := sub (gb + off) TS (s_buf st)).
  set (sot := typ_sizeof th).
  destruct (sot <? TS) eqn:C2; [eauto|].
  destruct (sot >? gl - off) eqn:C3; [eauto|].
  match goal with |- context [match ?X with Ok _ => _ | Err _ => _ | Panic _ => _ | Fuel => _ end] =>
    assert (R : exists st1 e1, X = Ok (st1, e1) /\ inv st1) end.
  { destruct (negb (type_matches kind pm bm th)); [eauto|].
    destruct (negb ((0 <=? off + TS) && (off + TS <=? off + sot) && (off + sot <=? gl))) eqn:C4;
      [exfalso; unfold TS, apcb_typ_size in *; lia|].
    destruct I as [IL IS].
    destruct (negb ((sot - TS) mod PS =? 0)).
    - do 2 eexists. split; [reflexivity|]. split; [exact IL|].
      unfold sel_ok; cbn [s_mt s_mg s_tok]. split; [exact GF|].
      unfold typ_fits. fold sot. unfold TS, apcb_typ_size in *. lia.
    - destruct (scan_pairs_inv gh goff th off (gb + off + TS) (sot - TS)) with
        (n := Z.to_nat ((sot - TS) / PS)) (i := 0)
        (st := mkS (s_buf st) (Some (gh, goff)) (Some (th, off)) 0 (s_changed st))
        as (st1 & e1 & E1 & B1 & B2 & B3 & B4); cbn [s_buf s_mg s_mt s_tok]; auto;
        try (unfold GS, TS, HS, apcb_grp_size, apcb_typ_size, apcb_hdr_size in *; lia).
      { unfold PS, TS, apcb_pair_size, apcb_typ_size in *.
        pose proof (Z.mul_div_le (sot - 16) 8 ltac:(lia)).
        rewrite Z2Nat.id by (apply Z.div_pos; lia). lia. }
      exists st1, e1. split; [exact E1|]. split; [exact B1|].
      unfold sel_ok. rewrite B2, B3. split; [exact GF|].
      unfold typ_fits. fold sot. unfold TS, apcb_typ_size in *. lia. }
  destruct R as (st1 & e1 & -> & I1).
  destruct (negb (e1 =? 0)); [eauto|].
  apply IH; auto; unfold TS, apcb_typ_size in *; lia.
Qed.

Lemma scan_groups_inv tf : L < Z.of_nat tf ->
  forall fuel off st, 0 <= off <= size - HS -> size - HS - off < Z.of_nat fuel -> inv st ->
  exists st' e, scan_groups fuel tf size off kind pm bm k nv st = Ok (st', e) /\ inv st'.
Proof.
  intros HT.
  induction fuel as [|f IH]; intros off st Hoff HF I; [exfalso; lia|].
  cbn [scan_groups]. cbv zeta.
  destruct (size - HS - off <=? 0) eqn:C0; [eauto|].
  destruct (size - HS - off <? GS) eqn:C1; [eauto|].
  set (gh := sub (HS + off) GS (s_buf st)).
  set (sog := grp_sizeof gh).
  destruct (sog <? GS) eqn:C2; [eauto|].
  destruct (sog >? size - HS - off) eqn:C3; [eauto|].
  match goal with |- context [match ?X with Ok _ => _ | Err _ => _ | Panic _ => _ | Fuel => _ end] =>
    assert (R : exists st1 e1, X = Ok (st1, e1) /\ inv st1) end.
  { destruct (grp_id gh =? apcb_tokens_group_id); [|eauto].
    set (soh := grp_hsize gh).
    destruct ((soh <? GS) || (soh >? sog)) eqn:C4; [eauto|].
    assert (GF : grp_fits gh off).
    { unfold grp_fits. fold soh sog. unfold GS, apcb_grp_size in *. lia. }
    rewrite !u32_small by (unfold GS, HS, apcb_grp_size, apcb_hdr_size in *; lia).
    destruct (negb ((0 <=? off + soh) && (off + soh <=? off + sog) && (off + sog <=? size - HS))) eqn:C5;
      [exfalso; unfold GS, HS, apcb_grp_size, apcb_hdr_size in *; lia|].
    apply (scan_types_inv gh off); auto;
      try (unfold GS, HS, apcb_grp_size, apcb_hdr_size in *; fold soh sog; lia).
    destruct I as [IL IS]. unfold sel_ok in IS.
    destruct (s_mt st) as [[th toff]|] eqn:MT.
    - split; [exact IL|]. unfold sel_ok. rewrite MT. exact IS.
    - split; [exact IL|]. unfold sel_ok. cbn [s_mt s_mg]. rewrite MT. exact GF. }
  destruct R as (st1 & e1 & -> & I1).
  destruct (negb (e1 =? 0)); [eauto|].
  apply IH; auto; unfold GS, apcb_grp_size in *; lia.
Qed.

End Scan.
