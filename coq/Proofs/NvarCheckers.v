(* Proofs/NvarCheckers.v — boolean versions of the side conditions of the
   compaction theorems, with soundness, so that they can be decided on a
   concrete parsed store by computation (property C10). *)
From Fiano Require Import Base.Bytes Base.BytesLemmas Gen.Consts Model.Nvar Proofs.NvarProofs
     Proofs.NvarCompactProofs Proofs.NvarReparseProofs.
From Coq Require Import ZifyBool ZifyNat Sorting.Sorted.
Open Scope Z_scope.

Fixpoint sortedb (es : list nvar) : bool :=
  match es with
  | a :: (b :: _) as r => (v_off a <? v_off b) && sortedb r
  | _ => true
  end.

Definition links_to (l v : nvar) : bool :=
  is_valid l && negb (v_nextoff l =? 0) && (v_nextoff l =? v_off v).

Definition chains_okb (es : list nvar) : bool :=
  sortedb es &&
  forallb (fun l => implb (is_valid l && negb (v_nextoff l =? 0)) (v_off l <? v_nextoff l)) es &&
  forallb (fun l => forallb (fun v => implb (links_to l v && is_valid v)
                                           (bytes_eqb (v_guid l) (v_guid v) && bytes_eqb (v_name l) (v_name v))) es) es &&
  forallb (fun v => implb (is_valid v && negb (existsb (fun l => links_to l v) es))
                          (negb (ATTR (v_attrs v) nvar_attr_dataonly))) es &&
  forallb (fun v => match v_sub v with None => true | Some _ => false end &&
                    (0 <=? v_dataoff v) && (v_dataoff v <=? zlen (v_buf v)) &&
                    (zlen (v_guid v) =? nvar_guid_size)) es.

Lemma sortedb_sound es : sortedb es = true -> StronglySorted ltoff es.
Proof.
  intros H. apply Sorted_StronglySorted.
  - intros a b c. unfold ltoff. lia.
  - induction es as [|a r IH]; [constructor|].
    destruct r as [|b r'].
    + constructor; constructor.
    + cbn [sortedb] in H. apply andb_true_iff in H as [H1 H2].
      constructor; [apply IH; exact H2|]. constructor. unfold ltoff. lia.
Qed.

Lemma chains_okb_sound es : chains_okb es = true -> chains_ok es.
Proof.
  unfold chains_okb. intros H.
  apply andb_true_iff in H as [H H5]. apply andb_true_iff in H as [H H4].
  apply andb_true_iff in H as [H H3]. apply andb_true_iff in H as [H1 H2].
  rewrite forallb_forall in H2, H3, H4, H5.
  constructor.
  - apply sortedb_sound. exact H1.
  - intros l Hl V N. specialize (H2 l Hl). rewrite V in H2.
    replace (negb (v_nextoff l =? 0)) with true in H2 by lia. cbn in H2. lia.
  - intros l v Hl Hv Vl Vv N E. specialize (H3 l Hl). rewrite forallb_forall in H3. specialize (H3 v Hv).
    unfold links_to in H3. rewrite Vl, Vv in H3.
    replace (negb (v_nextoff l =? 0)) with true in H3 by lia.
    replace (v_nextoff l =? v_off v) with true in H3 by lia. cbn in H3.
    apply andb_true_iff in H3 as [G Nm]. apply bytes_eqb_eq in G. apply bytes_eqb_eq in Nm. auto.
  - intros v Hv V No. specialize (H4 v Hv). rewrite V in H4.
    destruct (existsb (fun l => links_to l v) es) eqn:X.
    + apply existsb_exists in X as (l & Hl & Lk). unfold links_to in Lk.
      apply andb_true_iff in Lk as [Lk E]. apply andb_true_iff in Lk as [Vl N].
      exfalso. apply (No l Hl Vl); lia.
    + cbn in H4. apply negb_true_iff in H4. exact H4.
  - intros v Hv. specialize (H5 v Hv).
    apply andb_true_iff in H5 as [H5 G]. apply andb_true_iff in H5 as [H5 D2].
    apply andb_true_iff in H5 as [S D1]. destruct (v_sub v); [discriminate|]. repeat split; lia.
Qed.

Lemma forallb_combine_Forall2 {A B} (f : A -> B -> bool) l l' :
  length l = length l' -> forallb (fun p => f (fst p) (snd p)) (combine l l') = true ->
  Forall2 (fun a b => f a b = true) l l'.
Proof.
  revert l'. induction l as [|a l IH]; intros [|b l'] L H; try discriminate; constructor.
  - cbn in H. apply andb_true_iff in H as [H _]. exact H.
  - apply IH; [simpl in L; lia|]. cbn in H. apply andb_true_iff in H as [_ H]. exact H.
Qed.

Section Checkers.
Variables dec16 enc16 : bytes -> bytes.

Definition compact_fitsb (pol : Z) (s : nstore) : bool :=
  let hts := heads_tails (s_entries s) in
  let '(gis, table) := assign_gidx hts [] in
  ((pol =? 0) || (pol =? 255)) &&
  forallb (fun p => rebuilt_size enc16 (fst (fst p)) (snd (fst p)) (snd p) <? 2 ^ 16) (combine hts gis) &&
  (zlen table <=? 255) &&
  (sum_list (map v_size (final_entries enc16 pol hts gis 0)) + nvar_guid_size * zlen table <=? s_len s) &&
  (s_len s <? 2 ^ 47).

Lemma compact_fitsb_sound pol s : compact_fitsb pol s = true -> compact_fits enc16 pol s.
Proof.
  unfold compact_fitsb, compact_fits.
  pose proof (assign_gidx_length (heads_tails (s_entries s)) []) as GL.
  destruct (assign_gidx (heads_tails (s_entries s)) []) as [gis table]. cbn [fst] in GL.
  intros H. repeat (apply andb_true_iff in H as [H ?]).
  repeat split; try lia.
  eapply Forall2_impl; [|apply (forallb_combine_Forall2 (fun (ht : nvar * nvar) gi =>
                                   rebuilt_size enc16 (fst ht) (snd ht) gi <? 2 ^ 16)); [symmetry; exact GL|exact H3]].
  intros a b. cbn. lia.
Qed.

Definition name_okb (h : nvar) : bool :=
  if ATTR (v_attrs h) nvar_attr_ascii then nonzero_bytes (v_name h)
  else let u := ucs2_of_name enc16 (v_name h) in bmp_ok u && bytes_eqb (dec16 u) (v_name h).

Lemma name_okb_sound h : name_okb h = true -> name_ok dec16 h.
Proof.
  unfold name_okb, name_ok. destruct (ATTR (v_attrs h) nvar_attr_ascii); [auto|].
  intros H. apply andb_true_iff in H as [B E]. apply bytes_eqb_eq in E.
  exists (ucs2_of_name enc16 (v_name h)). auto.
Qed.

Definition reparse_okb (pol : Z) (s : nstore) : bool :=
  let hts := heads_tails (s_entries s) in
  let '(gis, table) := assign_gidx hts [] in
  forallb (fun p => let h := fst (fst p) in let k := snd (fst p) in let gi := snd p in
             (0 <=? v_attrs h) && (v_attrs h <? 256) && ATTR (v_attrs h) nvar_attr_valid && name_okb h &&
             bytes_ok (content k) && no_nested (content k) && bytes_ok (v_guid h) &&
             ext_ok (aentry_of enc16 pol h k gi)) (combine hts gis).

Lemma reparse_okb_sound pol s : reparse_okb pol s = true -> reparse_ok dec16 enc16 pol s.
Proof.
  unfold reparse_okb, reparse_ok.
  pose proof (assign_gidx_length (heads_tails (s_entries s)) []) as GL.
  destruct (assign_gidx (heads_tails (s_entries s)) []) as [gis table]. cbn [fst] in GL.
  intros H.
  eapply Forall2_impl; [|apply (forallb_combine_Forall2 (fun (ht : nvar * nvar) gi =>
       (0 <=? v_attrs (fst ht)) && (v_attrs (fst ht) <? 256) && ATTR (v_attrs (fst ht)) nvar_attr_valid &&
       name_okb (fst ht) && bytes_ok (content (snd ht)) && no_nested (content (snd ht)) &&
       bytes_ok (v_guid (fst ht)) && ext_ok (aentry_of enc16 pol (fst ht) (snd ht) gi)));
       [symmetry; exact GL|exact H]].
  intros [h k] gi X. cbn [fst snd] in *. repeat (apply andb_true_iff in X as [X ?]).
  cbv zeta. repeat split; auto; try lia. apply name_okb_sound. assumption.
Qed.

End Checkers.
