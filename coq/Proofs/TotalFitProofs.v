(* Proofs/TotalFitProofs.v — C20 ("all other parsers are total"), part a:
   pkg/fmap, pkg/intel/metadata/fit, the zlib / LZMAX86 framing of pkg/compression,
   and the PSB / manifest crypto helpers.  Every statement says that the existing
   executable model returns a value or an error ([total]: neither [Panic] nor
   [Fuel]) for ALL inputs; where the faithful model does panic, a witness is given
   instead ([..._refuted]). *)
From Fiano Require Import Base.Bytes Base.BytesLemmas Gen.Consts Proofs.TotalBase.
From Coq Require Import ZifyBool ZifyNat.
From Fiano Require Model.Fmap Model.Fit Model.Integrity Model.Framing Model.Bcj.
From Fiano Require Proofs.FmapProofs Proofs.FitProofs Proofs.FramingProofs Proofs.BcjProofs
  Proofs.IntegrityProofs.
Open Scope Z_scope.

(* ------------------------------------------------------------------ *)
(* A. pkg/fmap                                                          *)
(* ------------------------------------------------------------------ *)
Module FmapT.
Import Fiano.Model.Fmap Fiano.Proofs.FmapProofs.

Lemma fmap_read_total : forall b, total (read b).
Proof.
  intros b. unfold read. destruct (scan b 0) as [[|m [|m' l]]|]; split; reflexivity.
Qed.

Lemma rd_bound o w b : bytes_ok b = true -> 0 <= rd o w b < 256 ^ Z.of_nat w.
Proof.
  intros OK. unfold rd.
  pose proof (le_dec_bound (sub o (Z.of_nat w) b) (bytes_ok_sub _ _ _ OK)) as [L U].
  split; [exact L|]. eapply Z.lt_le_trans; [exact U|].
  apply Z.pow_le_mono_r; [lia|].
  unfold sub, zfirstn, zlen. rewrite firstn_length. lia.
Qed.

(* the area table Read allocates has exactly NAreas entries and NAreas is a uint16 *)
Lemma fmap_read_shape : forall b m p, bytes_ok b = true -> read b = Ok (m, p) ->
  h_nareas (f_hdr m) = zlen (f_areas m) /\ 0 <= h_nareas (f_hdr m) < 65536.
Proof.
  intros b m p OK R. apply read_ok_inv in R as (Hp & V & D & _).
  unfold valid_here in V. destruct (prefixb _ _); [|discriminate].
  destruct (dec_header (zskipn p b)) as [h|] eqn:DH; [|discriminate].
  destruct (header_valid h); [|discriminate]. injection V as V.
  unfold dec_header in DH. destruct (zlen (zskipn p b) <? hdr_len); [discriminate|].
  injection DH as DH.
  assert (B : 0 <= h_nareas (f_hdr m) < 65536).
  { rewrite <- V, <- DH. cbn [h_nareas].
    pose proof (rd_bound 54 2 (zskipn p b) (bytes_ok_skipn _ _ OK)) as B.
    change (256 ^ Z.of_nat 2) with 65536 in B. exact B. }
  split; [|exact B].
  apply dec_areas_length in D. unfold zlen. rewrite D. lia.
Qed.

Lemma read_at_total img o s : total (read_at img o s).
Proof. unfold read_at. destruct (_ && _); [apply total_ok|apply total_err]. Qed.

Lemma nth_area_some m i : h_nareas (f_hdr m) = zlen (f_areas m) ->
  (i <? 0) || (h_nareas (f_hdr m) <=? i) = false -> exists a, nth_area m i = Some a.
Proof.
  intros S E. unfold nth_area. replace (0 <=? i) with true by lia.
  destruct (nth_error (f_areas m) (Z.to_nat i)) as [a|] eqn:N; [eauto|].
  apply nth_error_None in N. unfold zlen in S. lia.
Qed.

Lemma fmap_read_area_total : forall b m p img i, bytes_ok b = true -> read b = Ok (m, p) ->
  total (read_area m img i).
Proof.
  intros b m p img i OK R. destruct (fmap_read_shape _ _ _ OK R) as (S & _).
  unfold read_area. destruct ((i <? 0) || (h_nareas (f_hdr m) <=? i)) eqn:E; [apply total_err|].
  destruct (nth_area_some m i S E) as (a & ->). apply read_at_total.
Qed.

Lemma fmap_write_area_total : forall b m p img i d, bytes_ok b = true -> read b = Ok (m, p) ->
  total (write_area m img i d).
Proof.
  intros b m p img i d OK R. destruct (fmap_read_shape _ _ _ OK R) as (S & _).
  unfold write_area. destruct ((i <? 0) || (h_nareas (f_hdr m) <=? i)) eqn:E; [apply total_err|].
  destruct (nth_area_some m i S E) as (a & ->).
  destruct (a_size a <? _); [apply total_err|apply total_ok].
Qed.

(* a hand-built FMap whose NAreas exceeds len(Areas): ReadArea indexes out of range *)
Lemma fmap_read_area_refuted : exists m img i, read_area m img i = Panic 1.
Proof.
  exists (mkFmap (mkHeader fmap_signature 1 0 0 1 [0] 1) []), [], 0. vm_compute. reflexivity.
Qed.

Lemma fmap_write_area_refuted : exists m img i d, write_area m img i d = Panic 2.
Proof.
  exists (mkFmap (mkHeader fmap_signature 1 0 0 1 [0] 1) []), [], 0, []. vm_compute. reflexivity.
Qed.

End FmapT.

(* ------------------------------------------------------------------ *)
(* B. pkg/intel/metadata/fit                                            *)
(* ------------------------------------------------------------------ *)
Module FitT.
Import Fiano.Model.Fit Fiano.Proofs.FitProofs.

(* check.BytesRange on the int views guards the slice expression *)
Lemma fit_slice_or_copy_total : forall img s e, 0 <= s < 2 ^ 64 -> 0 <= e < 2 ^ 64 ->
  total (slice_or_copy img s e).
Proof.
  intros img s e Hs He. unfold slice_or_copy.
  destruct (bytes_range (zlen img) (s64 s) (s64 e)) eqn:B; [|apply total_err].
  unfold bytes_range, s64 in B.
  destruct (s <? 2 ^ 63) eqn:E1; destruct (e <? 2 ^ 63) eqn:E2;
    try (apply total_slice; lia); exfalso; lia.
Qed.

Lemma table_range_u64 img a b : table_range img = Ok (a, b) ->
  0 <= a < 2 ^ 64 /\ 0 <= b < 2 ^ 64.
Proof.
  unfold table_range. cbv zeta.
  destruct (negb (bytes_range _ _ _)); [discriminate|].
  destruct (slice_or_copy _ _ _) as [pb| | |]; cbn [bind]; try discriminate.
  destruct (negb (bytes_range _ _ _)); [discriminate|].
  destruct (rws_seek _ _); [|discriminate].
  destruct (dec_hdr _); [|discriminate].
  destruct (negb (bytes_eqb _ _)); [discriminate|].
  destruct (negb (bytes_range _ _ _)); [discriminate|].
  intros [= <- <-]. split; apply w64_range.
Qed.

Lemma fit_table_range_total : forall img, total (table_range img).
Proof.
  intros img. unfold table_range. cbv zeta.
  destruct (negb (bytes_range _ _ _)); [apply total_err|].
  apply total_bind; [apply fit_slice_or_copy_total; apply w64_range|].
  intros pb _.
  destruct (negb (bytes_range _ _ _)); [apply total_err|].
  destruct (rws_seek _ _); [|apply total_err].
  destruct (dec_hdr _); [|apply total_err].
  destruct (negb (bytes_eqb _ _)); [apply total_err|].
  destruct (negb (bytes_range _ _ _)); [apply total_err|]. apply total_ok.
Qed.

(* every iteration of ParseTable consumes 16 bytes *)
Lemma parse_table_f_total : forall fuel b, (length b < fuel)%nat -> total (parse_table_f fuel b).
Proof.
  induction fuel as [|k IH]; intros b L; [lia|].
  cbn [parse_table_f]. destruct (zlen b =? 0) eqn:Z0; [apply total_ok|].
  destruct (dec_hdr b) as [h|] eqn:D; [|apply total_err].
  unfold dec_hdr in D. destruct (zlen b <? hdr_len) eqn:E; [discriminate|].
  apply total_bind.
  - apply IH. unfold zskipn. rewrite skipn_length.
    unfold hdr_len, fit_entry_headers_size, zlen in *. lia.
  - intros; apply total_ok.
Qed.

Lemma fit_parse_table_total : forall b, total (parse_table b).
Proof. intros b. unfold parse_table. apply parse_table_f_total. lia. Qed.

Lemma fit_get_table_total : forall img, total (get_table img).
Proof.
  intros img. unfold get_table.
  apply total_bind; [apply fit_table_range_total|]. intros [a b] R.
  apply table_range_u64 in R as (Ha & Hb). cbn [fst snd].
  apply total_bind; [apply fit_slice_or_copy_total; assumption|].
  intros tb _. apply fit_parse_table_total.
Qed.

Lemma sacm_size_total img off : total (sacm_size img off).
Proof.
  unfold sacm_size. cbv zeta. destruct (rws_seek _ _) as [p|]; [|apply total_err].
  destruct (zlen img <? p + 4); [apply total_err|apply total_ok].
Qed.

Lemma data_size_total k h img : total (data_size k h img).
Proof.
  unfold data_size.
  repeat match goal with |- total (if ?c then _ else _) => destruct c end;
    try apply total_ok; try apply total_err; apply sacm_size_total.
Qed.

Lemma fit_new_entry_total : forall h img, total (new_entry h img).
Proof.
  intros h img. unfold new_entry. cbv zeta.
  set (k := kind_of_type (htype h)). set (off := offset_of_phys (h_addr h) (zlen img)).
  pose proof (data_size_total k h img) as [T1 T2].
  destruct (data_size k h img) as [sz|c|s|]; try discriminate; [|apply total_ok].
  destruct (sz =? 0); [apply total_ok|].
  assert (Ho : 0 <= off < 2 ^ 64) by (unfold off, offset_of_phys; apply w64_range).
  pose proof (fit_slice_or_copy_total img off (w64 (off + sz)) Ho (w64_range _)) as [S1 S2].
  destruct (slice_or_copy img off (w64 (off + sz))); try discriminate; apply total_ok.
Qed.

Lemma entries_from_total hs img : total (entries_from hs img).
Proof.
  induction hs as [|h r IH]; cbn [entries_from]; [apply total_ok|].
  apply total_bind; [apply fit_new_entry_total|]. intros e _.
  apply total_bind; [exact IH|]. intros; apply total_ok.
Qed.

Lemma fit_get_entries_total : forall img, total (get_entries img).
Proof.
  intros img. unfold get_entries. apply total_bind; [apply fit_get_table_total|].
  intros t _. apply entries_from_total.
Qed.

(* the address conversions are uint64 arithmetic: no division, no conversion can fail *)
Lemma fit_addr_ranges : forall a s,
  0 <= offset_of_phys a s < 2 ^ 64 /\ 0 <= phys_of_offset a s < 2 ^ 64 /\
  0 <= tail_offset_of_phys a < 2 ^ 64.
Proof.
  intros a s. unfold offset_of_phys, phys_of_offset, tail_offset_of_phys. cbv zeta.
  repeat split; apply w64_range.
Qed.

(* ---- InjectTo never resizes the storage ---- *)

Lemma rws_seek_inv st p q : rws_seek st p = Some q -> q = p /\ 0 <= p <= zlen st.
Proof.
  unfold rws_seek. destruct ((p <? 0) || (zlen st <? p)) eqn:E; [discriminate|].
  intros [= <-]. lia.
Qed.

Lemma rws_write_len st pos d st' pos' ok : rws_write st pos d = (st', pos', ok) -> 0 <= pos ->
  zlen st' = zlen st /\ pos <= pos'.
Proof.
  unfold rws_write. destruct (zlen st <=? pos) eqn:E.
  - intros [= <- <- <-] _. lia.
  - cbv zeta. intros [= <- <- <-] Hp. pose proof (zlen_nonneg d).
    set (n := Z.min (zlen st - pos) (zlen d)).
    assert (Hn : 0 <= n <= zlen d) by (unfold n; lia).
    assert (Ln : zlen (zfirstn n d) = n) by (apply zlen_zfirstn; exact Hn).
    split; [|lia]. apply zlen_splice; [lia|]. rewrite Ln. unfold n. lia.
Qed.

Lemma write_headers_len hs : forall st pos st' pos' ok,
  write_headers st pos hs = (st', pos', ok) -> 0 <= pos -> zlen st' = zlen st.
Proof.
  induction hs as [|h r IH]; intros st pos st' pos' ok; cbn [write_headers].
  - intros [= <- <- <-] _. reflexivity.
  - destruct (rws_write st pos (enc_hdr h)) as [[st1 pos1] ok1] eqn:W.
    intros H Hp. destruct (rws_write_len _ _ _ _ _ _ W Hp) as (L1 & P1).
    destruct ok1.
    + rewrite (IH _ _ _ _ _ H) by lia. exact L1.
    + injection H as <- <- <-. exact L1.
Qed.

Lemma inject_data_len st e : zlen (fst (inject_data st e)) = zlen st.
Proof.
  unfold inject_data. destruct (zlen (e_data e) =? 0); [reflexivity|]. cbv zeta.
  destruct (rws_seek st _) as [p|] eqn:S; [|reflexivity].
  apply rws_seek_inv in S as (-> & Hp).
  destruct (rws_write st _ (e_data e)) as [[st1 pos1] ok1] eqn:W.
  cbn [fst]. apply rws_write_len in W as (L & _); [exact L|lia].
Qed.

Lemma inject_datas_len es : forall st, zlen (fst (inject_datas st es)) = zlen st.
Proof.
  induction es as [|e r IH]; intros st; cbn [inject_datas]; [reflexivity|].
  pose proof (inject_data_len st e) as L.
  destruct (inject_data st e) as [st1 c]. cbn [fst] in L.
  destruct (c =? 0); [rewrite IH; exact L|exact L].
Qed.

(* Entries.InjectTo on any storage, any entries, any offset: same length afterwards *)
Lemma fit_inject_length : forall img es off, zlen (fst (inject img es off)) = zlen img.
Proof.
  intros img es off. unfold inject.
  destruct (rws_seek img _) as [p|] eqn:S; [|reflexivity].
  apply rws_seek_inv in S as (-> & Hp).
  destruct (rws_write img _ _) as [[st1 pos1] ok1] eqn:W.
  apply rws_write_len in W as (L1 & _); [|lia].
  destruct (negb ok1); [exact L1|].
  destruct (rws_seek st1 (s64 off)) as [p2|] eqn:S2; [|exact L1].
  apply rws_seek_inv in S2 as (-> & Hp2).
  destruct (write_headers st1 _ _) as [[st2 pos2] ok2] eqn:WH.
  apply write_headers_len in WH; [|lia].
  destruct (negb ok2); cbn [fst]; [lia|]. rewrite inject_datas_len. lia.
Qed.

End FitT.

(* ------------------------------------------------------------------ *)
(* C. pkg/compression: the framing around the third-party codecs        *)
(* ------------------------------------------------------------------ *)
Module FramingT.
Import Fiano.Model.Bcj Fiano.Model.Framing Fiano.Proofs.BcjProofs Fiano.Proofs.FramingProofs.

(* ZLIB.Decode: the length check in front makes both slice expressions safe; the only
   other way out is through compress/zlib itself *)
Lemma zlib_decode_total : forall zl_dec e, (forall x, total (zl_dec x)) ->
  total (zlib_decode zl_dec e).
Proof.
  intros zl_dec e T. unfold zlib_decode. destruct zlib_consts_ok as (C1 & C2).
  destruct (zlen e <? zlib_header_size) eqn:E; [apply total_err|].
  apply total_bind; [apply total_slice; lia|]. intros f _.
  destruct (negb _); [apply total_err|].
  apply total_bind; [apply total_slice; lia|]. intros body _. apply T.
Qed.

(* LZMAX86.Decode: the branch filter runs to the end of any buffer *)
Lemma lzmax86_decode_total : forall c_dec e, (forall x, total (c_dec x)) ->
  total (lzmax86_decode c_dec e).
Proof.
  intros c_dec e T. unfold lzmax86_decode. apply total_bind; [apply T|]. intros d _.
  destruct (x86_convert_total false 0 0 d) as (d' & st' & ret & -> & _).
  cbn [bind]. apply total_ok.
Qed.

(* the encoder side of the same filter, for completeness *)
Lemma lzmax86_encode_total : forall c_enc x, (forall y, total (c_enc y)) ->
  total (lzmax86_encode c_enc x).
Proof.
  intros c_enc x T. unfold lzmax86_encode.
  destruct (x86_convert_total true 0 0 x) as (d' & st' & ret & -> & _).
  cbn [bind]. apply T.
Qed.

Lemma zlib_encode_total : forall zl_enc x, total (zlib_encode zl_enc x).
Proof. intros. unfold zlib_encode. apply total_ok. Qed.

End FramingT.

(* ------------------------------------------------------------------ *)
(* D. pkg/amd/psb and the cbnt / bg manifest crypto helpers             *)
(* ------------------------------------------------------------------ *)
Module IntegrityT.
Import Fiano.Model.Integrity Fiano.Proofs.IntegrityProofs.

Lemma psb_ranges_total : forall a b c d e, total (psp_ranges a b c d e).
Proof.
  intros a b c d e. unfold psp_ranges.
  match goal with |- total (let '(_, _) := ?x in _) => destruct x as [se im] end.
  destruct (im <=? e); [apply total_err|apply total_ok].
Qed.

Lemma new_signed_blob_total verify sg signed k : total (new_signed_blob verify sg signed k).
Proof.
  unfold new_signed_blob. destruct (negb (psb_key_valid k)); [apply total_err|].
  unfold psb_key_get.
  repeat match goal with |- total (if ?c then _ else _) => destruct c end;
    try apply total_ok; apply total_err.
Qed.

(* getSignedBlob: checkBoundaries guards both slice expressions; the start of the signature
   is positive because the image is larger than the signature *)
Lemma psb_get_signed_blob_total : forall verify ks raw, total (get_signed_blob verify ks raw).
Proof.
  intros verify ks raw. unfold get_signed_blob. cbv zeta.
  destruct (_ =? 0); [apply total_err|]. destruct (_ =? 0); [apply total_err|].
  destruct (get_key ks _) as [k|]; [|apply total_err].
  destruct (negb (_ =? _)); [apply total_err|].
  destruct (_ && _); [apply total_err|].
  apply total_bind; [apply psb_ranges_total|]. intros [se [ss sen]] R. cbn [fst snd].
  pose proof (psp_ranges_ok_nonneg _ _ _ _ _ _ _ _ R) as Hss.
  destruct (check_boundaries ss sen raw) eqn:B1; cbn [negb]; [|apply total_err].
  destruct (check_boundaries 0 se raw) eqn:B2; cbn [negb]; [|apply total_err].
  unfold check_boundaries in B1, B2.
  apply total_bind; [apply total_slice; lia|]. intros sg _.
  apply total_bind; [apply total_slice; lia|]. intros signed _.
  destruct (_ <=? _); [apply total_err|].
  apply total_bind; [apply new_signed_blob_total|]. intros; apply total_ok.
Qed.

Lemma psb_psp_validate_total : forall verify ks raw, total (psp_validate verify ks raw).
Proof.
  intros. unfold psp_validate.
  destruct (_ <? _); [apply total_err|apply psb_get_signed_blob_total].
Qed.

(* newTokenOrRootKey only reads after comparing with the remaining length *)
Lemma psb_parse_token_total : forall raw, total (parse_token_or_root raw).
Proof.
  intros raw. unfold parse_token_or_root. cbv zeta.
  repeat match goal with |- total (if ?c then _ else _) => destruct c end;
    try apply total_err; apply total_ok.
Qed.

Lemma psb_root_key_total : forall raw, total (root_key raw).
Proof.
  intros raw. unfold root_key. apply total_bind; [apply psb_parse_token_total|].
  intros kn _. destruct (bytes_eqb _ _); [apply total_ok|apply total_err].
Qed.

Lemma psb_token_key_total : forall verify ks raw, total (token_key verify ks raw).
Proof.
  intros verify ks raw. unfold token_key. apply total_bind; [apply psb_parse_token_total|].
  intros kn _. cbv zeta. destruct (get_key ks _) as [sk|]; [|apply total_err].
  destruct (negb _); [apply total_err|].
  destruct (_ <? _); [apply total_err|].
  destruct (zlen raw <? _) eqn:E; [apply total_err|].
  apply total_bind.
  - apply total_slice; [|lia]. split; [lia|]. unfold u32. apply Z.mod_pos_bound. lia.
  - intros signed _. apply total_bind; [apply new_signed_blob_total|]. intros; apply total_ok.
Qed.

(* ---- cbnt / bg Key, Signature, KeySignature ---- *)

(* Key.PubKey: KeySize is a uint16, so the expected size of an RSA key is at least 4 and
   Data[4:] is inside the slice once len(Data) has been compared with it *)
Lemma pub_key_total : forall k, 0 <= k_size k -> total (pub_key k).
Proof.
  intros k Hs. unfold pub_key. cbv zeta.
  assert (Hb : 0 <= in_bytes (k_size k)) by (unfold in_bytes; apply Z.div_pos; lia).
  pose proof (zlen_nonneg (k_data k)) as Hd.
  unfold key_data_size.
  destruct (k_alg k =? c16_alg_rsa) eqn:A.
  - destruct (_ <? 0); [apply total_err|].
    destruct (zlen (k_data k) =? in_bytes (k_size k) + 4) eqn:E; cbn [negb]; [|apply total_err].
    apply total_bind; [apply total_slice; lia|]. intros; apply total_ok.
  - destruct (true && _); cbn [negb].
    + destruct (_ <? 0); [apply total_err|].
      destruct (zlen (k_data k) =? in_bytes (k_size k) * 2) eqn:E; cbn [negb]; [|apply total_err].
      apply total_bind; [apply total_slice; lia|]. intros xb _.
      apply total_bind; [apply total_slice; lia|]. intros yb _.
      destruct (k_alg k =? c16_alg_ecc); apply total_ok.
    + replace (-1 <? 0) with true by reflexivity. apply total_err.
Qed.

Lemma bg_pub_key_total : forall k, 0 <= k_size k -> total (bg_pub_key k).
Proof.
  intros k Hs. unfold bg_pub_key. cbv zeta.
  assert (Hb : 0 <= in_bytes (k_size k)) by (unfold in_bytes; apply Z.div_pos; lia).
  unfold key_data_size.
  destruct (k_alg k =? c16_bg_alg_rsa) eqn:A.
  - destruct (_ <? 0); [apply total_err|].
    destruct (zlen (k_data k) =? in_bytes (k_size k) + 4) eqn:E; cbn [negb]; [|apply total_err].
    apply total_bind; [apply total_slice; lia|]. intros; apply total_ok.
  - cbn [andb]. replace (-1 <? 0) with true by reflexivity. apply total_err.
Qed.

(* without the uint16 range the model does reach the slice: KeySize = -8 "expects" 3 bytes *)
Lemma pub_key_negative_size_refuted : exists k, pub_key k = Panic 1.
Proof. exists (mkKey c16_alg_rsa 16 (-8) [0; 0; 0]). vm_compute. reflexivity. Qed.

Lemma decode_rs_total : forall d, total (decode_rs d).
Proof.
  intros d. unfold decode_rs. cbv zeta.
  destruct ((zlen d =? 64) || (zlen d =? 96)) eqn:E; cbn [negb]; [|apply total_err].
  assert (H : zlen d / 2 = 32 /\ zlen d = 64 \/ zlen d / 2 = 48 /\ zlen d = 96).
  { destruct (zlen d =? 64) eqn:E1.
    - left. assert (zlen d = 64) as -> by lia. split; reflexivity.
    - right. assert (zlen d = 96) as -> by lia. split; reflexivity. }
  apply total_bind; [apply total_slice; lia|]. intros a _.
  apply total_bind; [apply total_slice; lia|]. intros b _. apply total_ok.
Qed.

Lemma signature_data_total : forall m, total (signature_data m).
Proof.
  intros m. unfold signature_data.
  destruct (_ =? _); [apply total_ok|]. destruct (_ =? _); [apply total_ok|].
  destruct (_ =? _); [apply total_bind; [apply decode_rs_total|intros; apply total_ok]|].
  destruct (_ =? _); [apply total_bind; [apply decode_rs_total|intros; apply total_ok]|].
  apply total_err.
Qed.

Lemma bg_signature_data_total : forall m, total (bg_signature_data m).
Proof. intros m. unfold bg_signature_data. destruct (_ =? _); [apply total_ok|apply total_err]. Qed.

Lemma sig_verify_total verify sd pk ha data : total (sig_verify verify sd pk ha data).
Proof.
  unfold sig_verify. destruct sd; try apply total_err;
    (destruct pk; try apply total_err;
     destruct (cbnt_hash_size ha); [|apply total_err];
     destruct (_ || _); [|apply total_err];
     destruct (verify _ _ _ _ _); [apply total_ok|apply total_err]).
Qed.

Lemma ks_verify_total : forall verify ks data, 0 <= k_size (ks_key ks) ->
  total (ks_verify verify ks data).
Proof.
  intros verify ks data Hs. unfold ks_verify.
  pose proof (signature_data_total (ks_sig ks)) as [S1 S2].
  destruct (signature_data (ks_sig ks)) as [sd|c|s|]; try discriminate; [|apply total_err].
  pose proof (pub_key_total (ks_key ks) Hs) as [P1 P2].
  destruct (pub_key (ks_key ks)) as [pk|c|s|]; try discriminate; [|apply total_err].
  apply sig_verify_total.
Qed.

Lemma bg_ks_verify_total : forall verify ks data, 0 <= k_size (ks_key ks) ->
  total (bg_ks_verify verify ks data).
Proof.
  intros verify ks data Hs. unfold bg_ks_verify.
  pose proof (bg_signature_data_total (ks_sig ks)) as [S1 S2].
  destruct (bg_signature_data (ks_sig ks)) as [sd|c|s|]; try discriminate; [|apply total_err].
  destruct sd; try apply total_err.
  pose proof (bg_pub_key_total (ks_key ks) Hs) as [P1 P2].
  destruct (bg_pub_key (ks_key ks)) as [pk|c|s|]; try discriminate; [|apply total_err].
  destruct (verify _ _ _ _ _); [apply total_ok|apply total_err].
Qed.

(* ---- panics the faithful models do reach ---- *)

(* ValidateBPMKey slices Key.Data[4:] without looking at its length *)
Lemma validate_bpm_key_refuted : forall hash, exists l k, validate_bpm_key hash l k = Panic 21.
Proof. exact bpm_key_unchecked_slice. Qed.

Lemma bg_validate_bpm_key_refuted : forall hash, exists alg buf k,
  bg_validate_bpm_key hash alg buf k = Panic 22.
Proof.
  intros hash. exists c16_alg_sha256, (zrepeat 0 32), (mkKey c16_bg_alg_rsa 16 0 [1; 0; 1]).
  reflexivity.
Qed.

(* ValidateIBB reads bpm.SE[0] of a manifest without SE elements *)
Lemma validate_ibb_refuted : forall hash fw, validate_ibb hash [] fw = Panic 10.
Proof. reflexivity. Qed.

Lemma bg_validate_ibb_refuted : forall hash fw, bg_validate_ibb hash [] fw = Panic 10.
Proof. reflexivity. Qed.

(* ... and slices the firmware with ranges it never compares with its length *)
Lemma validate_ibb_range_refuted : forall hash, exists ses fw, validate_ibb hash ses fw = Panic 11.
Proof.
  intros hash.
  exists [mkSE [(c16_alg_sha256, zrepeat 0 32)] [mkSeg 0 0 1]], []. reflexivity.
Qed.

Lemma bg_validate_ibb_range_refuted : forall hash, exists ses fw,
  bg_validate_ibb hash ses fw = Panic 11.
Proof.
  intros hash. exists [((c16_alg_sha256, zrepeat 0 32), [mkSeg 0 0 1])], []. reflexivity.
Qed.

(* in bounds, the IBB stream is total: the only panic is the one above *)
Lemma ibb_stream_total rs fw :
  forallb (in_bounds fw) (map (fun r => (fst r, range_end r)) rs) = true ->
  total (ibb_stream rs fw).
Proof.
  induction rs as [|r rest IH]; cbn [ibb_stream map forallb]; [intros; apply total_ok|].
  intros H. apply andb_true_iff in H as [H1 H2]. unfold in_bounds in H1. cbn [fst snd] in H1.
  apply total_bind; [apply total_slice; lia|]. intros x _.
  apply total_bind; [apply IH; exact H2|]. intros; apply total_ok.
Qed.

End IntegrityT.
