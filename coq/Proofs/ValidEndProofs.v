(* Proofs/ValidEndProofs.v — property C02 end to end for "flat" trees: the checkable invariant
   [vtb_elems] on the parsed tree (every leaf that Assemble copies verbatim is valid for the reader,
   volume headers are the reader-accepted input headers, paddings are free of signature hits) is
   kept by the edit operations and makes the saved region valid for the independent reader. *)
From Fiano Require Import Base.Bytes Base.BytesLemmas Gen.Consts Model.Ffs Model.Edit Model.Valid Model.ValidInv
  Proofs.EditProofs Proofs.AsmProofs Proofs.ValidProofs Proofs.ValidTreeProofs.
From Coq Require Import ZifyBool ZifyNat.
Open Scope Z_scope.

(* ---------- the invariant, as booleans ---------- *)

Lemma vhdr_inb_spec h vb : vhdr_inb h vb = true -> vhdr_in h vb.
Proof.
  unfold vhdr_inb, vhdr_in. intros H.
  repeat match type of H with _ && _ = true => let X := fresh "B" in apply andb_true_iff in H as [H X] end.
  repeat split; try lia; auto.
  - destruct (v_blocks h) as [|[c s] rest]; [discriminate|]. exists c, s, rest. split; [reflexivity | lia].
  - intros Hne. destruct (rd 52 2 vb =? 0) eqn:E; lia.
Qed.

Lemma vtb_sec_spec n : vtb_sec n = true ->
  exists h sb, n = NSec h sb [] /\ gd_wf h /\ (regen_type (s_type h) = true \/ v_sec0 sb = true).
Proof.
  destruct n as [h sb kids | | |]; try discriminate. destruct kids; [|discriminate]. cbn [vtb_sec].
  intros H. apply andb_true_iff in H as [Hg Hr]. exists h, sb. split; [reflexivity|]. split.
  - unfold gd_wf, gd_wfb in *. destruct (s_gd h); [lia | exact I].
  - apply orb_true_iff in Hr. exact Hr.
Qed.

(* ---------- a leaf section as Assemble leaves it ---------- *)

Lemma regen_type_cases t : regen_type t = true -> t <> 23 /\ t <> 2.
Proof. unfold regen_type. intros H. lia. Qed.

Section SecLeaf.
Variable enc : Z -> bytes -> option bytes.
Variable s2u : bytes -> bytes.

Lemma asm_sec_leaf_valid n st n' st' : vtb_sec n = true ->
  asm enc s2u n st = Ok (n', st') -> zlen (node_buf n') + 32 < 4294967296 ->
  v_sec0 (node_buf n') = true.
Proof.
  intros Hv H Hsz. destruct (vtb_sec_spec n Hv) as (h & sb & -> & Hg & Hr).
  rewrite asm_sec in H. cbn [asm_elems bind] in H.
  unfold sec_asm in H. destruct st as [p ffs3].
  apply bind_ok in H as (body & Hb & H). destruct body as [b|].
  - destruct (gen_sec_header h b) as [h' nb] eqn:Eg. inversion H; subst. cbn [node_buf] in *.
    replace nb with (snd (gen_sec_header h b)) in * by (rewrite Eg; reflexivity).
    assert (Hreg : regen_type (s_type h) = true).
    { unfold regen_type.
      destruct (s_type h =? 21); [reflexivity|]. destruct (s_type h =? 20); [reflexivity|].
      destruct ((s_type h =? 19) || (s_type h =? 27) || (s_type h =? 28)) eqn:E; [lia | discriminate Hb]. }
    destruct (regen_type_cases _ Hreg) as [T1 T2].
    apply gsh_v_sec0; auto. pose proof (gsh_len_ge h b). lia.
  - inversion H; subst. cbn [node_buf].
    destruct Hr as [Hr | Hv0]; [|exact Hv0]. exfalso.
    unfold regen_type in Hr.
    destruct (s_type h =? 21); [discriminate|]. destruct (s_type h =? 20); [discriminate|].
    destruct ((s_type h =? 19) || (s_type h =? 27) || (s_type h =? 28)) eqn:E.
    + apply bind_ok in Hb as (x & _ & Hb). discriminate.
    + lia.
Qed.

End SecLeaf.

(* ---------- a file node as Assemble leaves it ---------- *)

Section FileNode.
Variable enc : Z -> bytes -> option bytes.
Variable s2u : bytes -> bytes.
Variable dec : Z -> bytes -> option bytes.
Variable d : nat.
Variable pol : Z.

Lemma secs_forall2 l l' :
  Forall2 (fun k k' => exists s s', asm enc s2u k s = Ok (k', s')) l l' ->
  (forall k, In k l -> vtb_sec k = true) ->
  (forall k', In k' l' -> zlen (node_buf k') + 32 < 4294967296) ->
  Forall (fun k' => v_sec0 (node_buf k') = true) l'.
Proof.
  induction 1 as [|k k' r r' (s & s' & Hk) F2 IH]; intros Hv Hb; [constructor|].
  constructor.
  - eapply asm_sec_leaf_valid; eauto; [apply Hv | apply Hb]; left; reflexivity.
  - apply IH; intros x Hx; [apply Hv | apply Hb]; right; exact Hx.
Qed.

Lemma asm_file_b n st n' st' : vtb_file dec d pol n = true -> (pol = 0 \/ pol = 255) ->
  asm enc s2u n st = Ok (n', st') -> zlen (node_buf n') + 32 < 4294967296 ->
  fok (valid_fv dec d true) (valid_enc dec d) dec pol (node_buf n') = true /\
  rd 19 1 (node_buf n') = node_attr n' /\ is_filen n' = true.
Proof.
  intros Hv Hpol H Hsz. destruct n as [| h fb kids | |]; try discriminate.
  rewrite asm_file in H. apply bind_ok in H as ([kids' st1] & Ek & H).
  pose proof (asm_elems_v_length enc s2u _ _ _ _ Ek) as Lk.
  cbn [vtb_file] in Hv. apply andb_true_iff in Hv as [_ Hv].
  destruct kids as [|k0 kr] eqn:Ekids; [destruct (f_nvar h) eqn:Env|].
  - (* an NVAR store: rebuilt *)
    destruct kids'; [|discriminate].
    repeat (apply andb_true_iff in Hv; destruct Hv as [Hv ?]).
    apply (file_asm_valid _ _ _ pol h fb [] st1 n' st' H); try lia; auto;
      try (right; congruence);
      try (intros Hsup; rewrite Hsup in *; rewrite Env in *; discriminate).
  - (* a leaf: verbatim *)
    destruct kids'; [|discriminate]. apply andb_true_iff in Hv as [Hf Ha].
    unfold file_asm in H. destruct st1. rewrite Env in H. inversion H; subst.
    cbn [node_buf node_attr is_filen]. repeat split; auto. lia.
  - (* rebuilt from its sections *)
    assert (Hv' : (zlen (f_guid h) =? 16) && (0 <? f_type h) && (f_type h <? 255) && forallb vtb_sec (k0 :: kr) &&
                  (if supported_file (f_type h) then (match f_nvar h with None => true | Some _ => false end)
                   else true) = true) by (destruct (f_nvar h); exact Hv).
    clear Hv. apply andb_true_iff in Hv' as [Hv' Hnv]. apply andb_true_iff in Hv' as [Hv' Hks].
    repeat (apply andb_true_iff in Hv'; destruct Hv' as [Hv' ?]).
    assert (Hne : kids' <> []) by (intros E; subst kids'; discriminate Lk).
    apply (file_asm_valid _ _ _ pol h fb kids' st1 n' st' H); try lia; auto.
    intros Hsup. rewrite Hsup in *.
    split; [destruct (f_nvar h); [discriminate | reflexivity]|].
    assert (Nv : f_nvar h = None) by (destruct (f_nvar h); [discriminate | reflexivity]).
    pose proof (asm_elems_forall2 enc s2u _ _ _ _ Ek) as F2.
    assert (Hbound : forall k', In k' kids' -> zlen (node_buf k') <= zlen (node_buf n')).
    { intros k' Hin. unfold file_asm in H. destruct st1 as [p f]. rewrite Nv in H.
      destruct kids' as [|c0 cr]; [destruct Hin|].
      destruct (set_size (f_attr h) (24 + zlen (join4 [] (map node_buf (c0 :: cr)))) true) as [ext attr].
      destruct (checksum_and_assemble h ext attr (join4 [] (map node_buf (c0 :: cr)))) as [h' nb] eqn:Ec.
      inversion H; subst. cbn [node_buf].
      replace nb with (snd (checksum_and_assemble h ext attr (join4 [] (map node_buf (c0 :: cr)))))
        by (rewrite Ec; reflexivity).
      rewrite caa_buf_len by lia.
      pose proof (join4_elem_le (map node_buf (c0 :: cr)) [] (node_buf k') (in_map node_buf _ _ Hin)).
      destruct (file_hlen_cases attr) as [-> | ->]; lia. }
    rewrite forallb_forall in Hks.
    apply (secs_forall2 _ _ F2 Hks). intros k' Hin. specialize (Hbound k' Hin). lia.
Qed.

End FileNode.

(* ---------- a top-level volume as Assemble leaves it ---------- *)

Section VolElem.
Variable enc : Z -> bytes -> option bytes.
Variable s2u : bytes -> bytes.
Variable dec : Z -> bytes -> option bytes.
Variable d : nat.
Variable pol : Z.

Lemma files_forall2 l l' :
  Forall2 (fun k k' => exists s s', asm enc s2u k s = Ok (k', s')) l l' ->
  (pol = 0 \/ pol = 255) ->
  (forall k, In k l -> vtb_file dec d pol k = true) ->
  (forall k', In k' l' -> zlen (node_buf k') + 32 < 4294967296) ->
  Forall (fun f => fok (valid_fv dec d true) (valid_enc dec d) dec pol (node_buf f) = true /\
                   rd 19 1 (node_buf f) = node_attr f) l'.
Proof.
  induction 1 as [|k k' r r' (s & s' & Hk) F2 IH]; intros Hp Hv Hb; [constructor|].
  constructor.
  - destruct (asm_file_b enc s2u dec d pol k s k' s') as (A & B & _); auto;
      [apply Hv | apply Hb]; left; reflexivity.
  - apply IH; auto; intros x Hx; [apply Hv | apply Hb]; right; exact Hx.
Qed.

(* what the region-level scan needs to know of the first 44 bytes of a volume *)
Definition hdr44_same (vb b : bytes) : Prop :=
  zlen b = zlen vb /\ rd 40 4 b = 1213613663 /\ rd 32 8 b = zlen b /\
  (forall i : nat, (Z.of_nat i < 16 \/ 32 <= Z.of_nat i < 44) -> nth_error b i = nth_error vb i) /\
  (sub 16 16 b = sub 16 16 vb \/ sub 16 16 b = FFS3).

Lemma asm_vol_elem h vb kids f n' st' : vtb_vol dec d pol h vb kids = true ->
  asm enc s2u (NVol h vb kids) (pol, f) = Ok (n', st') ->
  exists h' b kids', n' = NVol h' b kids' /\ st' = (pol, f) /\
    valid_fv dec (S d) true b = true /\ hdr44_same vb b.
Proof.
  intros Hv H. unfold vtb_vol in Hv.
  apply andb_true_iff in Hv as [Hv Hunsup]. apply andb_true_iff in Hv as [Hv Hfiles].
  apply andb_true_iff in Hv as [Hv Hin].
  repeat match type of Hv with _ && _ = true => let X := fresh "B" in apply andb_true_iff in Hv as [Hv X] end.
  assert (Hr : v_resizable h = false) by (destruct (v_resizable h); [discriminate | reflexivity]).
  assert (Hpol : pol = 0 \/ pol = 255).
  { assert (E : fv_polarity (v_attrs h) = pol) by lia. rewrite <- E. unfold fv_polarity.
    destruct (Z.land (v_attrs h) 2048 =? 0); auto. }
  rewrite asm_vol_eq in H. cbn [fst snd] in H.
  assert (Esp : set_polarity pol (fv_polarity (v_attrs h)) = Some pol).
  { unfold set_polarity. replace (fv_polarity (v_attrs h)) with pol by lia.
    rewrite Z.eqb_refl. destruct (pol =? 240); reflexivity. }
  rewrite Esp in H.
  apply bind_ok in H as ([kids' st1] & Ek & H). apply bind_ok in H as ([n2 st2] & Ev & H).
  inversion H; subst n' st'. clear H.
  pose proof (asm_elems_v_length enc s2u _ _ _ _ Ek) as Lk.
  assert (P1 : fst st1 = pol).
  { apply (asm_elems_v_pol enc s2u kids (pol, false) kids' st1); [cbn; lia | exact Ek]. }
  unfold vol_asm in Ev. destruct st1 as [p1 ffs3]. cbn [fst] in P1. subst p1.
  apply bind_ok in Ev as ([h' nb] & Ea & Ev). inversion Ev; subst n2 st2. clear Ev.
  exists h', nb, kids'. split; [reflexivity|]. split; [reflexivity|].
  assert (Evb : vol_verbatim h kids' = vol_verbatim h kids).
  { unfold vol_verbatim. destruct kids, kids'; try discriminate Lk; reflexivity. }
  destruct (vol_verbatim h kids) eqn:Ever.
  - (* emitted verbatim *)
    unfold asm_vol in Ea. fold (vol_verbatim h kids') in Ea. rewrite Evb in Ea. inversion Ea; subst h' nb.
    assert (Hval : valid_fv dec (S d) true vb = true).
    { unfold vol_verbatim in Ever. apply andb_true_iff in Ever as [_ Hns].
      destruct (supported_fv (v_guid h)); [discriminate | exact Hunsup]. }
    split; [exact Hval|]. unfold hdr44_same. repeat split; auto; lia.
  - (* rebuilt *)
    apply vhdr_inb_spec in Hin.
    assert (Hvk : vol_verbatim h kids' = false) by (rewrite Evb; reflexivity).
    destruct (asm_vol_v_inv _ _ _ _ _ _ _ Ea Hvk Hr)
      as (hdr & b1 & c & s & rest & hb & Hs & Hp & Hl & Hdo & He & Hb & _).
    pose proof (slice_len _ _ _ _ Hs) as (Lh & Hd0 & _). rewrite Z.sub_0_r in Lh.
    destruct (place_files_layout pol _ kids' hdr (v_dataoff h) b1 Lh ltac:(lia) Hp) as (Le & _ & _ & _).
    assert (Hfk : Forall (fun f0 => fok (valid_fv dec d true) (valid_enc dec d) dec pol (node_buf f0) = true /\
                                    rd 19 1 (node_buf f0) = node_attr f0) kids').
    { apply (files_forall2 kids kids'); auto.
      - eapply asm_elems_forall2; eauto.
      - rewrite forallb_forall in Hfiles. exact Hfiles.
      - intros k' Hin'. pose proof (end_of_file_le kids' (v_dataoff h) k' ltac:(lia) Hin'). lia. }
    split.
    + eapply asm_vol_valid_fv; eauto; lia.
    + destruct (hagree_asm_vol _ _ _ _ _ _ _ Ea Hvk Hr Hin) as ((Lz & Hn) & Hg & _).
      destruct Hin as (_ & Lvb & Hh & R32 & R48 & _ & Hdoff & _ & _).
      assert (K64 : 64 <= v_dataoff h).
      { unfold fv_hdr_ok in Hh. cbv zeta in Hh.
        repeat (apply andb_true_iff in Hh; destruct Hh as [Hh ?]). lia. }
      unfold hdr44_same. split; [lia|].
      assert (HA : hagree (v_dataoff h) vb nb) by (split; auto).
      split; [|split; [|split; [|exact Hg]]].
      * rewrite <- (hagree_rd _ _ _ 40 4 HA); [lia | change (Z.of_nat 4) with 4; lia | lia].
      * rewrite <- (hagree_rd _ _ _ 32 8 HA); [lia | change (Z.of_nat 8) with 8; lia | lia].
      * intros i Hi. symmetry. apply Hn; lia.
Qed.

End VolElem.

(* ---------- the region-level scan ---------- *)

Lemma rd_app_l' (a b : bytes) off w : 0 <= off -> off + Z.of_nat w <= zlen a ->
  rd off w (a ++ b) = rd off w a.
Proof. intros H1 H2. unfold rd. f_equal. apply sub_app_inl; lia. Qed.

Lemma v_blocks_sum_app R : forall fuel V off t e, 0 <= off ->
  v_blocks_sum fuel V off = Some (t, e) ->
  forall fuel', (fuel <= fuel')%nat -> v_blocks_sum fuel' (V ++ R) off = Some (t, e).
Proof.
  induction fuel as [|k IH]; intros V off t e Ho H fuel' Hf; [discriminate|].
  destruct fuel' as [|k']; [lia|]. cbn [v_blocks_sum] in *.
  destruct (zlen V <? off + 8) eqn:E1; [discriminate|].
  pose proof (zlen_nonneg R). rewrite zlen_app.
  replace (zlen V + zlen R <? off + 8) with false by lia.
  rewrite !rd_app_l' by (change (Z.of_nat 4) with 4; lia).
  destruct ((rd off 4 V =? 0) && (rd (off + 4) 4 V =? 0)); [exact H|].
  destruct (v_blocks_sum k V (off + 8)) as [[t' e']|] eqn:Er; [|discriminate].
  rewrite (IH V (off + 8) t' e' ltac:(lia) Er k' ltac:(lia)). exact H.
Qed.

Section Region.
Variable dec : Z -> bytes -> option bytes.
Variable d : nat.

(* a volume that is valid on its own is found valid at the head of a longer buffer *)
Lemma valid_fv_prefix b R : valid_fv dec (S d) true b = true -> valid_fv dec (S d) false (b ++ R) = true.
Proof.
  rewrite !valid_fv_S. intros H. apply andb_true_iff in H as [Hh Hf].
  unfold fv_hdr_ok in Hh. cbv zeta in Hh. apply andb_true_iff in Hh as [A0 Hh].
  repeat match type of Hh with _ && _ = true => let X := fresh "A" in apply andb_true_iff in Hh as [Hh X] end.
  pose proof (zlen_nonneg R) as HR.
  assert (Lb : zlen b = rd 32 8 b) by lia.
  assert (Q32 : rd 32 8 (b ++ R) = rd 32 8 b) by (apply rd_app_l'; change (Z.of_nat 8) with 8; lia).
  assert (Q48 : rd 48 2 (b ++ R) = rd 48 2 b) by (apply rd_app_l'; change (Z.of_nat 2) with 2; lia).
  assert (Q40 : rd 40 4 (b ++ R) = rd 40 4 b) by (apply rd_app_l'; change (Z.of_nat 4) with 4; lia).
  assert (Q44 : rd 44 4 (b ++ R) = rd 44 4 b) by (apply rd_app_l'; change (Z.of_nat 4) with 4; lia).
  assert (Q52 : rd 52 2 (b ++ R) = rd 52 2 b) by (apply rd_app_l'; change (Z.of_nat 2) with 2; lia).
  assert (Qe : rd 52 2 b <> 0 -> rd (rd 52 2 b + 16) 4 (b ++ R) = rd (rd 52 2 b + 16) 4 b).
  { intros Hne. destruct (rd 52 2 b =? 0) eqn:E; [lia|].
    apply rd_app_l'; change (Z.of_nat 4) with 4; lia. }
  assert (Qd : fv_doff (b ++ R) = fv_doff b).
  { unfold fv_doff. cbv zeta. rewrite Q52, Q48. destruct (rd 52 2 b =? 0) eqn:E; [reflexivity|].
    rewrite Qe by lia. reflexivity. }
  assert (Q16 : sub 16 16 (b ++ R) = sub 16 16 b) by (apply sub_app_inl; lia).
  assert (Qs : sub 0 (rd 32 8 b) (b ++ R) = sub 0 (rd 32 8 b) b) by (apply sub_app_inl; lia).
  assert (Qh : sub 0 (rd 48 2 b) (b ++ R) = sub 0 (rd 48 2 b) b) by (apply sub_app_inl; lia).
  apply andb_true_iff. split.
  - unfold fv_hdr_ok. cbv zeta. rewrite Q32, Q48, Q40, Q52, Qh, zlen_app.
    destruct (v_blocks_sum (S (Z.to_nat (zlen b))) b 56) as [[t e]|] eqn:Eb; [|discriminate A1].
    rewrite (v_blocks_sum_app R _ b 56 t e ltac:(lia) Eb (S (Z.to_nat (zlen b + zlen R))) ltac:(lia)).
    destruct (rd 52 2 b =? 0) eqn:E52; lia.
  - rewrite Q16, Q32, Qd, Q44, Qs. exact Hf.
Qed.

(* k steps of the scan over positions without a signature *)
Lemma v_region_skip B : forall k o fuel, 0 <= o ->
  (forall j, (j < k)%nat -> rd (o + 8 * Z.of_nat j + 40) 4 B <> FVH /\ o + 8 * Z.of_nat j + 44 <= zlen B) ->
  v_region dec (S d) (k + fuel) B o = v_region dec (S d) fuel B (o + 8 * Z.of_nat k).
Proof.
  induction k as [|k IH]; intros o fuel Ho H.
  - cbn [Nat.add]. f_equal. lia.
  - change (S k + fuel)%nat with (S (k + fuel)). cbn [v_region].
    destruct (H 0%nat ltac:(lia)) as [H0 L0]. rewrite Z.mul_0_r, Z.add_0_r in H0, L0.
    replace (zlen B <? o + 44) with false by lia.
    unfold FVH in H0. replace (rd (o + 40) 4 B =? 1213613663) with false by lia.
    rewrite IH; [f_equal; lia | lia |].
    intros j Hj. specialize (H (S j) ltac:(lia)).
    replace (o + 8 + 8 * Z.of_nat j) with (o + 8 * Z.of_nat (S j)) by lia. exact H.
Qed.

Lemma clearb_spec c k : clearb c k = true -> forall j, (j < k)%nat -> rd (8 * Z.of_nat j + 40) 4 c <> FVH.
Proof.
  unfold clearb. rewrite forallb_forall. intros H j Hj.
  specialize (H j ltac:(apply in_seq; lia)). lia.
Qed.

(* an element of the parsed region and what Assemble makes of it *)
Definition elem_rel (pol : Z) (x x' : node) : Prop :=
  match x, x' with
  | NPad _ p, NPad _ p' => p' = p
  | NVol _ vb _, NVol _ b _ => valid_fv dec (S d) true b = true /\ hdr44_same vb b
  | _, _ => False
  end.

Lemma sub36_split (x : bytes) : 36 <= zlen x -> sub 0 36 x = sub 0 16 x ++ sub 16 16 x ++ sub 32 4 x.
Proof.
  intros H. unfold sub.
  pose proof (window_glue x 16 16 4 ltac:(lia) ltac:(lia) ltac:(lia)) as G2.
  change (16 + 16) with 32 in G2. rewrite G2.
  pose proof (window_glue x 0 16 20 ltac:(lia) ltac:(lia) ltac:(lia)) as G1.
  change (0 + 16) with 16 in G1. change (16 + 4) with 20. rewrite G1. reflexivity.
Qed.

Lemma hdr36_cases vb b : 36 <= zlen vb -> hdr44_same vb b ->
  sub 0 36 b = sub 0 36 vb \/ sub 0 36 b = hdr36_ffs3 vb.
Proof.
  intros Hl (Lz & _ & _ & Hn & Hg).
  assert (S0 : sub 0 16 b = sub 0 16 vb) by (apply sub_agree; try lia; intros i Hi; apply Hn; lia).
  assert (S32 : sub 32 4 b = sub 32 4 vb) by (apply sub_agree; try lia; intros i Hi; apply Hn; lia).
  rewrite (sub36_split b) by lia. rewrite S0, S32.
  destruct Hg as [-> | ->]; [left; symmetry; apply sub36_split; lia | right; reflexivity].
Qed.

Lemma valid_fv_len b : valid_fv dec (S d) true b = true -> 64 <= zlen b /\ rd 32 8 b = zlen b.
Proof.
  rewrite valid_fv_S. intros H. apply andb_true_iff in H as [Hh _].
  unfold fv_hdr_ok in Hh. cbv zeta in Hh.
  repeat (apply andb_true_iff in Hh; destruct Hh as [Hh ?]). lia.
Qed.

Lemma total_len_concat l : zlen (concat (map node_buf l)) = total_len l.
Proof.
  unfold total_len. induction l as [|x r IH]; [reflexivity|].
  cbn [map concat length elems_len]. rewrite zlen_app, IH. reflexivity.
Qed.

(* the saved region: paddings as they were, every volume valid - the reader accepts it *)
Lemma region_valid pol : forall elems elems', Forall2 (elem_rel pol) elems elems' ->
  scan_ok elems = true ->
  forall X fuel, zlen (concat (map node_buf elems')) < Z.of_nat fuel ->
    v_region dec (S d) fuel (X ++ concat (map node_buf elems')) (zlen X) = true.
Proof.
  induction 1 as [|x x' r r' Hx Hr IH]; intros Hs X fuel Hf.
  - cbn [map concat]. rewrite app_nil_r. destruct fuel as [|k]; [cbn in Hf; lia|]. cbn [v_region].
    replace (zlen X <? zlen X + 44) with true by lia. reflexivity.
  - pose proof (zlen_nonneg X) as HX.
    destruct x as [| | h vb kids | o p], x' as [| | h' b kids' | o' p']; try contradiction; cbn [scan_ok] in Hs.
    + (* a volume *)
      destruct Hx as (Hv & Hh). pose proof Hh as (Lz & R40 & R32 & _ & _).
      destruct (valid_fv_len b Hv) as [L64 _].
      cbn [map concat node_buf] in *. set (C := concat (map node_buf r')) in *.
      pose proof (zlen_nonneg C) as HC. rewrite zlen_app in Hf.
      destruct fuel as [|k]; [lia|]. cbn [v_region].
      rewrite !zlen_app. replace (zlen X + (zlen b + zlen C) <? zlen X + 44) with false by lia.
      rewrite (rd_app_skip X (b ++ C) _ 4 (zlen X) eq_refl) by lia.
      replace (zlen X + 40 - zlen X) with 40 by lia.
      rewrite rd_app_l' by (change (Z.of_nat 4) with 4; lia). rewrite R40. cbn [Z.eqb Pos.eqb].
      rewrite zskipn_app_exact. rewrite (valid_fv_prefix b C Hv). cbn [andb].
      rewrite (rd_app_skip X (b ++ C) _ 8 (zlen X) eq_refl) by lia.
      replace (zlen X + 32 - zlen X) with 32 by lia.
      rewrite rd_app_l' by (change (Z.of_nat 8) with 8; lia). rewrite R32.
      replace (X ++ b ++ C) with ((X ++ b) ++ C) by (rewrite <- app_assoc; reflexivity).
      rewrite <- zlen_app. apply IH; [exact Hs | lia].
    + (* a padding *)
      cbn in Hx. subst p'. apply andb_true_iff in Hs as [Hs Hsr]. apply andb_true_iff in Hs as [Hm Hc].
      cbn [map concat node_buf] in *. set (C := concat (map node_buf r')) in *.
      pose proof (zlen_nonneg C) as HC. pose proof (zlen_nonneg p) as Hp. rewrite zlen_app in Hf.
      destruct r as [|y ry].
      * (* the last element *)
        inversion Hr; subst. cbn [map concat] in *. unfold C in *. cbn [map concat] in *. rewrite app_nil_r in *.
        cbn [pad_clear] in Hc.
        set (k := if zlen p <? 44 then 0%nat else (Z.to_nat ((zlen p - 44) / 8) + 1)%nat) in *.
        assert (Hk : (k <= fuel - 1)%nat /\ zlen p < 8 * Z.of_nat k + 44 /\
                     (forall j, (j < k)%nat -> 8 * Z.of_nat j + 44 <= zlen p)).
        { unfold k. destruct (zlen p <? 44) eqn:E.
          - split; [lia|]. split; [lia|]. intros j Hj. lia.
          - pose proof (Z.div_mod (zlen p - 44) 8 ltac:(lia)).
            pose proof (Z.mod_pos_bound (zlen p - 44) 8 ltac:(lia)).
            assert (0 <= (zlen p - 44) / 8) by (apply Z.div_pos; lia).
            split; [lia|]. split; [lia|]. intros j Hj. lia. }
        destruct Hk as (Kf & Kend & Kin).
        replace fuel with (k + (fuel - k))%nat by lia.
        rewrite v_region_skip; [|lia|].
        -- destruct (fuel - k)%nat as [|m] eqn:Em; [lia|]. cbn [v_region].
           rewrite zlen_app. replace (zlen X + zlen p <? zlen X + 8 * Z.of_nat k + 44) with true by lia.
           reflexivity.
        -- intros j Hj. split.
           ++ rewrite (rd_app_skip X p _ 4 (zlen X) eq_refl) by lia.
              replace (zlen X + 8 * Z.of_nat j + 40 - zlen X) with (8 * Z.of_nat j + 40) by lia.
              apply (clearb_spec _ _ Hc). exact Hj.
           ++ rewrite zlen_app. specialize (Kin j Hj). lia.
      * (* a volume follows *)
        inversion Hr as [|? y' ? ry' Hy Hry]; subst.
        destruct y as [| | h vb kids | ]; try discriminate Hc.
        destruct y' as [| | h' b kids' | ]; try contradiction.
        destruct Hy as (Hv & Hh). cbn [pad_clear] in Hc. apply andb_true_iff in Hc as [Hc1 Hc2].
        destruct (valid_fv_len b Hv) as [L64 _].
        assert (Lvb : zlen vb = zlen b) by (destruct Hh as (Lz & _); lia).
        destruct (hdr36_cases vb b ltac:(lia) Hh) as [H36 | H36].
        -- set (k := Z.to_nat (zlen p / 8)) in *.
           assert (Hk8 : zlen p = 8 * Z.of_nat k).
           { unfold k. pose proof (Z.div_mod (zlen p) 8 ltac:(lia)).
             assert (0 <= zlen p / 8) by (apply Z.div_pos; lia). lia. }
           unfold C in *. cbn [map concat node_buf] in *. set (C2 := concat (map node_buf ry')) in *.
           pose proof (zlen_nonneg C2) as HC2. rewrite zlen_app in Hf.
           replace fuel with (k + (fuel - k))%nat by lia.
           rewrite v_region_skip; [|lia|].
           ++ replace (zlen X + 8 * Z.of_nat k) with (zlen (X ++ p)) by (rewrite zlen_app; lia).
              replace (X ++ p ++ b ++ C2) with ((X ++ p) ++ b ++ C2) by (rewrite <- app_assoc; reflexivity).
              apply (IH Hsr (X ++ p) (fuel - k)%nat). cbn [map concat node_buf]. rewrite zlen_app. fold C2. lia.
           ++ intros j Hj. split.
              ** rewrite (rd_app_skip X (p ++ b ++ C2) _ 4 (zlen X) eq_refl) by lia.
                 replace (zlen X + 8 * Z.of_nat j + 40 - zlen X) with (8 * Z.of_nat j + 40) by lia.
                 replace (p ++ b ++ C2) with ((p ++ sub 0 36 b) ++ (zskipn 36 b ++ C2)).
                 --- rewrite rd_app_l'.
                     +++ rewrite H36. apply (clearb_spec _ _ Hc1). exact Hj.
                     +++ lia.
                     +++ rewrite zlen_app, zlen_sub by lia. change (Z.of_nat 4) with 4. lia.
                 --- rewrite <- !app_assoc. f_equal. rewrite app_assoc. f_equal.
                     unfold sub. change (zskipn 0 b) with b. apply zfirstn_zskipn.
              ** rewrite !zlen_app. lia.
        -- set (k := Z.to_nat (zlen p / 8)) in *.
           assert (Hk8 : zlen p = 8 * Z.of_nat k).
           { unfold k. pose proof (Z.div_mod (zlen p) 8 ltac:(lia)).
             assert (0 <= zlen p / 8) by (apply Z.div_pos; lia). lia. }
           unfold C in *. cbn [map concat node_buf] in *. set (C2 := concat (map node_buf ry')) in *.
           pose proof (zlen_nonneg C2) as HC2. rewrite zlen_app in Hf.
           replace fuel with (k + (fuel - k))%nat by lia.
           rewrite v_region_skip; [|lia|].
           ++ replace (zlen X + 8 * Z.of_nat k) with (zlen (X ++ p)) by (rewrite zlen_app; lia).
              replace (X ++ p ++ b ++ C2) with ((X ++ p) ++ b ++ C2) by (rewrite <- app_assoc; reflexivity).
              apply (IH Hsr (X ++ p) (fuel - k)%nat). cbn [map concat node_buf]. rewrite zlen_app. fold C2. lia.
           ++ intros j Hj. split.
              ** rewrite (rd_app_skip X (p ++ b ++ C2) _ 4 (zlen X) eq_refl) by lia.
                 replace (zlen X + 8 * Z.of_nat j + 40 - zlen X) with (8 * Z.of_nat j + 40) by lia.
                 replace (p ++ b ++ C2) with ((p ++ sub 0 36 b) ++ (zskipn 36 b ++ C2)).
                 --- rewrite rd_app_l'.
                     +++ rewrite H36. apply (clearb_spec _ _ Hc2). exact Hj.
                     +++ lia.
                     +++ rewrite zlen_app, zlen_sub by lia. change (Z.of_nat 4) with 4. lia.
                 --- rewrite <- !app_assoc. f_equal. rewrite app_assoc. f_equal.
                     unfold sub. change (zskipn 0 b) with b. apply zfirstn_zskipn.
              ** rewrite !zlen_app. lia.
Qed.

End Region.
