(* Proofs/BcjProofs.v — the x86 branch filter's decode inverts its encode.
   Structure:
     1. word arithmetic (xor with low ones, residues mod 2^25, byte extraction)
     2. the operand rewrite [conv]: decode inverts encode on one window; the
        [sh] step keeps the protected byte away from 00/FF
     3. [run]: the filter as a left-to-right transducer on the remaining
        suffix; lemmas F1 (head unchanged), F2 (the byte a pending opcode will
        be judged by keeps its 00/FF class), length; lock-step round trip
     4. refinement: the array/fuel model [x86_convert] of Model/Bcj.v computes
        [run]; hence it never panics and the round trip holds for it. *)
From Fiano Require Import Base.Bytes Base.BytesLemmas Model.Bcj.
From Coq Require Import ZifyBool ZifyNat Zdiv.
Open Scope Z_scope.

(* ------------------------------------------------------------------ *)
(* 1. word arithmetic                                                  *)
(* ------------------------------------------------------------------ *)

Lemma lxor_low_ones : forall lo L, 0 < L -> 0 <= lo < 2^L ->
  Z.lxor lo (Z.ones L) = Z.ones L - lo.
Proof.
  intros lo L HL Hlo.
  assert (Hd : Z.ldiff lo (Z.ones L) = 0).
  { apply Z.ldiff_ones_r_low; [lia|].
    destruct (Z.eq_dec lo 0) as [->|Hn]; [simpl; lia|].
    assert (0 < lo) by lia. apply (proj1 (Z.log2_lt_pow2 lo L H)). lia. }
  rewrite Z.sub_nocarry_ldiff by exact Hd.
  apply Z.bits_inj'. intros n Hn.
  rewrite Z.lxor_spec, Z.ldiff_spec.
  assert (Hb : Z.testbit lo n && negb (Z.testbit (Z.ones L) n) = false).
  { rewrite <- Z.ldiff_spec, Hd. apply Z.bits_0. }
  destruct (Z.testbit lo n), (Z.testbit (Z.ones L) n); simpl in *; congruence.
Qed.

Lemma lxor_ones_split : forall w L, 0 < L -> 0 <= w ->
  Z.lxor w (Z.ones L) = (w / 2^L) * 2^L + (Z.ones L - w mod 2^L).
Proof.
  intros w L HL Hw.
  assert (Hp : 0 < 2^L) by (apply Z.pow_pos_nonneg; lia).
  pose proof (Z.mod_pos_bound w (2^L) Hp) as Hm.
  set (lo := w mod 2^L) in *. set (hi := w / 2^L).
  assert (Hx : 0 <= Z.ones L - lo < 2^L) by (rewrite Z.ones_equiv; lia).
  apply Z.bits_inj'. intros n Hn.
  rewrite Z.lxor_spec.
  destruct (Z_lt_le_dec n L) as [Hlt|Hge].
  - rewrite Z.ones_spec_low by lia.
    assert (E1 : Z.testbit w n = Z.testbit lo n).
    { unfold lo. rewrite Z.mod_pow2_bits_low by lia. reflexivity. }
    assert (E2 : Z.testbit (hi * 2^L + (Z.ones L - lo)) n = Z.testbit (Z.ones L - lo) n).
    { rewrite <- (Z.mod_pow2_bits_low (hi * 2^L + (Z.ones L - lo)) L n) by lia.
      rewrite Z.add_comm, Z.mod_add by lia.
      rewrite Z.mod_small by lia. reflexivity. }
    rewrite E1, E2.
    rewrite <- (lxor_low_ones lo L) by lia.
    rewrite Z.lxor_spec, Z.ones_spec_low by lia. reflexivity.
  - rewrite Z.ones_spec_high by lia. rewrite Bool.xorb_false_r.
    replace n with ((n - L) + L) by lia.
    rewrite <- !Z.div_pow2_bits by lia.
    f_equal. fold hi.
    rewrite Z.div_add_l by lia.
    rewrite (Z.div_small (Z.ones L - lo)) by lia. lia.
Qed.

Definition byte_at (sh w : Z) : Z := (w / 2^sh) mod 256.

Lemma mod_of_mod_mul : forall x B K, 0 < B -> 0 < K -> (x mod (B*K)) mod B = x mod B.
Proof.
  intros x B K HB HK. rewrite Z.rem_mul_r by lia.
  rewrite (Z.mul_comm B ((x / B) mod K)), Z.mod_add by lia. apply Z.mod_mod. lia.
Qed.

Lemma sh_step_low : forall v cur B K, 0 < B -> 0 < K -> 0 <= v ->
  let Mw := B*K in
  let w1 := (v + cur) mod Mw in
  forall hi,
  ((hi * B + (B - 1 - w1 mod B)) + cur) mod Mw mod B = B - 1 - v mod B.
Proof.
  intros v cur B K HB HK Hv Mw w1 hi.
  unfold Mw. rewrite mod_of_mod_mul by lia.
  unfold w1, Mw. rewrite mod_of_mod_mul by lia.
  replace (hi * B + (B - 1 - (v + cur) mod B) + cur)
     with ((B - 1 - (v + cur) mod B + cur) + hi * B) by ring.
  rewrite Z.mod_add by lia.
  pose proof (Z.div_mod (v+cur) B ltac:(lia)) as E1.
  pose proof (Z.mod_pos_bound (v+cur) B HB) as B1.
  pose proof (Z.div_mod v B ltac:(lia)) as E2.
  pose proof (Z.mod_pos_bound v B HB) as B2.
  set (r := (v+cur) mod B) in *. set (q := (v+cur)/B) in *.
  set (r2 := v mod B) in *. set (q2 := v / B) in *.
  replace (B - 1 - r + cur) with ((B - 1 - r2) + (q - q2) * B) by nia.
  rewrite Z.mod_add by lia. apply Z.mod_small. lia.
Qed.

Lemma byte_at_low : forall x P, 0 < P -> (x / P) mod 256 = (x mod (P*256)) / P.
Proof.
  intros x P HP. rewrite Z.rem_mul_r by lia.
  rewrite Z.add_comm, (Z.mul_comm P ((x / P) mod 256)), Z.div_add_l by lia.
  rewrite (Z.div_small (x mod P)) by (apply Z.mod_pos_bound; lia). lia.
Qed.

Lemma compl_div : forall y P, 0 < P -> 0 <= y < P*256 -> (P*256 - 1 - y) / P = 255 - y / P.
Proof.
  intros y P HP Hy.
  pose proof (Z.div_mod y P ltac:(lia)) as E. pose proof (Z.mod_pos_bound y P HP) as Bd.
  set (a := y / P) in *. set (b := y mod P) in *.
  replace (P*256 - 1 - y) with ((255 - a) * P + (P - 1 - b)) by nia.
  rewrite Z.div_add_l by lia. rewrite Z.div_small by lia. lia.
Qed.

Definition Wd : Z := 2^32.

(* the arithmetic key of the [sh] step (encoder side): after
   v -> v+cur -> xor low ones -> +cur, the byte at [sh] is the complement of
   the byte the input had there *)
Lemma sh_step_byte : forall v cur sh, 0 <= v < Wd -> 0 <= cur < Wd ->
  (sh = 0 \/ sh = 8 \/ sh = 16 \/ sh = 24) ->
  let L := sh + 8 in
  let w1 := (v + cur) mod Wd in
  let w2 := (Z.lxor w1 (Z.ones L) + cur) mod Wd in
  byte_at sh w2 = 255 - byte_at sh v.
Proof.
  intros v cur sh Hv Hc Hsh L w1 w2.
  assert (Hw1 : 0 <= w1 < Wd) by (apply Z.mod_pos_bound; reflexivity).
  set (P := 2^sh). set (B := P * 256). set (K := 2^(24 - sh)).
  assert (HP : 0 < P) by (apply Z.pow_pos_nonneg; lia).
  assert (HK : 0 < K) by (apply Z.pow_pos_nonneg; lia).
  assert (HB : 2^L = B).
  { unfold B, P, L. rewrite Z.pow_add_r by lia. reflexivity. }
  assert (HM : Wd = B * K).
  { unfold B, P, K, Wd. rewrite <- Z.mul_assoc, (Z.mul_comm 256), Z.mul_assoc, <- Z.pow_add_r by lia.
    replace (sh + (24 - sh)) with 24 by lia. reflexivity. }
  unfold byte_at. rewrite !byte_at_low by exact HP. fold B.
  unfold w2. rewrite lxor_ones_split by lia. rewrite Z.ones_equiv, HB.
  replace (Z.pred B - w1 mod B) with (B - 1 - w1 mod B) by lia.
  unfold w1. rewrite HM.
  rewrite (sh_step_low v cur B K) by lia.
  assert (HBpos : 0 < B) by (unfold B; lia).
  apply compl_div; [exact HP|]. pose proof (Z.mod_pos_bound v B HBpos) as Hb. unfold B in Hb |- *. exact Hb.
Qed.

(* byte [sh] of a word is decided by the word's residue mod 2^sh * 256 * K *)
Lemma byte_at_mod : forall w sh K, 0 <= sh -> 0 < K ->
  byte_at sh (w mod (2^sh * 256 * K)) = byte_at sh w.
Proof.
  intros w sh K Hsh HK. unfold byte_at.
  assert (HP : 0 < 2^sh) by (apply Z.pow_pos_nonneg; lia).
  set (P := 2^sh) in *.
  rewrite !byte_at_low by exact HP.
  f_equal. replace (P * 256 * K) with ((P * 256) * K) by ring.
  apply mod_of_mod_mul; lia.
Qed.

(* xor with L low ones commutes with reduction mod 2^n, L <= n *)
Lemma lxor_ones_mod : forall w L n, 0 <= L <= n ->
  (Z.lxor w (Z.ones L)) mod 2^n = Z.lxor (w mod 2^n) (Z.ones L).
Proof.
  intros w L n H. apply Z.bits_inj'. intros k Hk.
  destruct (Z_lt_le_dec k n) as [Hlt|Hge].
  - rewrite Z.mod_pow2_bits_low by lia. rewrite !Z.lxor_spec.
    rewrite Z.mod_pow2_bits_low by lia. reflexivity.
  - rewrite Z.mod_pow2_bits_high by lia. rewrite Z.lxor_spec.
    rewrite Z.mod_pow2_bits_high by lia. rewrite Z.ones_spec_high by lia. reflexivity.
Qed.

Lemma lxor_ones_invol : forall w L, Z.lxor (Z.lxor w (Z.ones L)) (Z.ones L) = w.
Proof. intros. rewrite Z.lxor_assoc, Z.lxor_nilpotent, Z.lxor_0_r. reflexivity. Qed.

Lemma lxor_ones_nonneg : forall w L, 0 <= w -> 0 <= L -> 0 <= Z.lxor w (Z.ones L).
Proof.
  intros w L Hw HL. apply Z.lxor_nonneg. split; intros _; auto.
  rewrite Z.ones_equiv. pose proof (Z.pow_pos_nonneg 2 L ltac:(lia) HL). lia.
Qed.

(* the byte at [sh] of (w xor ones(sh+8)) is the complement of w's *)
Lemma byte_at_lxor : forall w sh, 0 <= w -> 0 <= sh ->
  byte_at sh (Z.lxor w (Z.ones (sh + 8))) = 255 - byte_at sh w.
Proof.
  intros w sh Hw Hsh. unfold byte_at.
  assert (HP : 0 < 2^sh) by (apply Z.pow_pos_nonneg; lia).
  rewrite lxor_ones_split by lia.
  rewrite Z.ones_equiv. rewrite Z.pow_add_r by lia.
  set (P := 2^sh) in *. change (2^8) with 256.
  rewrite !byte_at_low by exact HP.
  assert (HB : 0 < P * 256) by lia.
  set (B := P * 256) in *.
  replace (w / B * B + (Z.pred B - w mod B)) with ((B - 1 - w mod B) + (w / B) * B) by lia.
  rewrite Z.mod_add by lia.
  pose proof (Z.mod_pos_bound w B HB) as Hb.
  rewrite Z.mod_small by lia.
  unfold B in *. apply compl_div; lia.
Qed.

(* ------------------------------------------------------------------ *)
(* 2. one operand                                                      *)
(* ------------------------------------------------------------------ *)

Definition all_bytes : list Z := map Z.of_nat (seq 0 256).

Lemma all_bytes_in b : 0 <= b < 256 -> In b all_bytes.
Proof.
  intros H. unfold all_bytes. apply in_map_iff. exists (Z.to_nat b). split; [lia|].
  apply in_seq. lia.
Qed.

Lemma test86_spec b : 0 <= b < 256 -> test86 b = (b =? 0) || (b =? 255).
Proof.
  intros H.
  assert (A : forallb (fun b => Bool.eqb (test86 b) ((b =? 0) || (b =? 255))) all_bytes = true)
    by (vm_compute; reflexivity).
  rewrite forallb_forall in A. specialize (A b (all_bytes_in b H)).
  apply Bool.eqb_prop in A. exact A.
Qed.

Lemma test86_compl b : 0 <= b < 256 -> test86 (255 - b) = test86 b.
Proof. intros H. rewrite !test86_spec by lia. lia. Qed.

Definition word (b1 b2 b3 b4 : Z) : Z := b1 + 256 * b2 + 65536 * b3 + 16777216 * b4.

Definition isbyte (b : Z) : Prop := 0 <= b < 256.

(* what is stored back, as a function of the final word *)
Definition out_of (v : Z) : Z * Z * Z * Z :=
  (byte_at 0 v, byte_at 8 v, byte_at 16 v, (0 - (v / 2^24) mod 2) mod 256).

Definition stepw (enc : bool) (cur w : Z) : Z := if enc then (w + cur) mod Wd else (w - cur) mod Wd.

Definition sh_of (mask : Z) : Z := if mask =? 1 then 0 else if mask =? 2 then 8 else 16.

(* [conv] in plain arithmetic, for the masks that reach it *)
Definition conv_word (enc : bool) (cur mask v : Z) : Z :=
  let v1 := stepw enc cur v in
  if mask =? 0 then v1
  else if test86 (byte_at (sh_of mask) v1)
       then stepw enc cur (Z.lxor v1 (Z.ones (sh_of mask + 8)))
       else v1.

Lemma word_bound b1 b2 b3 b4 : isbyte b1 -> isbyte b2 -> isbyte b3 -> isbyte b4 ->
  0 <= word b1 b2 b3 b4 < Wd.
Proof. unfold isbyte, word, Wd. change (2^32) with 4294967296. lia. Qed.

Lemma u8_shiftr w sh : 0 <= sh -> u8 (Z.shiftr w sh) = byte_at sh w.
Proof. intros. unfold u8, byte_at. rewrite Z.shiftr_div_pow2 by lia. reflexivity. Qed.

Lemma conv_out_eq w :
  (u8 w, u8 (Z.shiftr w 8), u8 (Z.shiftr w 16), u8 (0 - Z.land (Z.shiftr w 24) 1)) = out_of w.
Proof.
  unfold out_of. rewrite !u8_shiftr by lia.
  replace (u8 w) with (byte_at 0 w) by (unfold u8, byte_at; rewrite Z.div_1_r; reflexivity).
  rewrite Z.shiftr_div_pow2 by lia.
  rewrite (Z.land_ones _ 1) by lia. reflexivity.
Qed.

Lemma conv_eq enc cur mask b1 b2 b3 b4 :
  isbyte b1 -> isbyte b2 -> isbyte b3 -> isbyte b4 ->
  (mask = 0 \/ mask = 1 \/ mask = 2 \/ mask = 4) ->
  conv enc cur mask b1 b2 b3 b4 = out_of (conv_word enc cur mask (word b1 b2 b3 b4)).
Proof.
  intros H1 H2 H3 H4 Hm. unfold isbyte in *.
  unfold conv.
  assert (Ev : u32 (u32 (u32 (u32 (Z.shiftl b4 24) + u32 (Z.shiftl b3 16)) + u32 (Z.shiftl b2 8)) + b1)
               = word b1 b2 b3 b4).
  { rewrite !Z.shiftl_mul_pow2 by lia. unfold u32, word.
    change (2^32) with 4294967296. change (2^24) with 16777216.
    change (2^16) with 65536. change (2^8) with 256.
    rewrite (Z.mod_small (b4 * 16777216)) by lia.
    rewrite (Z.mod_small (b3 * 65536)) by lia.
    rewrite (Z.mod_small (b2 * 256)) by lia.
    rewrite (Z.mod_small (b4 * 16777216 + b3 * 65536)) by lia.
    rewrite (Z.mod_small (b4 * 16777216 + b3 * 65536 + b2 * 256)) by lia.
    rewrite Z.mod_small by lia. lia. }
  rewrite Ev. set (v := word b1 b2 b3 b4). clearbody v. clear Ev.
  cbv zeta beta.
  destruct Hm as [-> | [-> | [-> | ->]]].
  - change (0 =? 0) with true. cbv iota. rewrite conv_out_eq. reflexivity.
  - change (1 =? 0) with false. cbv iota.
    change (Z.shiftl (Z.land 1 6) 2) with 0.
    change (u32 (u32 (Z.shiftl 256 0) - 1)) with (Z.ones 8).
    rewrite conv_out_eq, u8_shiftr by lia. reflexivity.
  - change (2 =? 0) with false. cbv iota.
    change (Z.shiftl (Z.land 2 6) 2) with 8.
    change (u32 (u32 (Z.shiftl 256 8) - 1)) with (Z.ones 16).
    rewrite conv_out_eq, u8_shiftr by lia. reflexivity.
  - change (4 =? 0) with false. cbv iota.
    change (Z.shiftl (Z.land 4 6) 2) with 16.
    change (u32 (u32 (Z.shiftl 256 16) - 1)) with (Z.ones 24).
    rewrite conv_out_eq, u8_shiftr by lia. reflexivity.
Qed.

Definition N25 : Z := 2^25.

(* congruence mod 2^25, as an opaque relation for setoid rewriting *)
Inductive eqN (a b : Z) : Prop := EqN : a mod N25 = b mod N25 -> eqN a b.

Lemma eqN_eq a b : eqN a b -> a mod N25 = b mod N25.
Proof. intros [H]; exact H. Qed.

#[local] Instance eqN_equiv : RelationClasses.Equivalence eqN.
Proof.
  split.
  - intros a. constructor. reflexivity.
  - intros a b [H]. constructor. congruence.
  - intros a b c [H1] [H2]. constructor. congruence.
Qed.

#[local] Instance eqN_add : Morphisms.Proper (Morphisms.respectful eqN (Morphisms.respectful eqN eqN)) Z.add.
Proof.
  intros a b [H1] c d [H2]. constructor.
  rewrite (Z.add_mod a c), (Z.add_mod b d) by (unfold N25; lia). rewrite H1, H2. reflexivity.
Qed.

#[local] Instance eqN_sub : Morphisms.Proper (Morphisms.respectful eqN (Morphisms.respectful eqN eqN)) Z.sub.
Proof.
  intros a b [H1] c d [H2]. constructor.
  rewrite (Zminus_mod a c), (Zminus_mod b d). rewrite H1, H2. reflexivity.
Qed.

Lemma modW_N x : eqN (x mod Wd) x.
Proof.
  constructor. change Wd with (N25 * 128). apply mod_of_mod_mul; reflexivity.
Qed.

Lemma div_mod_low : forall x P Q, 0 < P -> 0 < Q -> (x / P) mod Q = (x mod (P*Q)) / P.
Proof.
  intros x P Q HP HQ. rewrite Z.rem_mul_r by lia.
  rewrite Z.add_comm, (Z.mul_comm P ((x / P) mod Q)), Z.div_add_l by lia.
  rewrite (Z.div_small (x mod P)) by (apply Z.mod_pos_bound; lia). lia.
Qed.

Lemma byte_at_N25 sh w : (sh = 0 \/ sh = 8 \/ sh = 16) -> byte_at sh (w mod N25) = byte_at sh w.
Proof.
  intros [-> | [-> | ->]].
  - change N25 with (2^0 * 256 * 2^17). apply byte_at_mod; lia.
  - change N25 with (2^8 * 256 * 2^9). apply byte_at_mod; lia.
  - change N25 with (2^16 * 256 * 2^1). apply byte_at_mod; lia.
Qed.

Lemma byte_at_eqm sh a b : (sh = 0 \/ sh = 8 \/ sh = 16) -> eqN a b -> byte_at sh a = byte_at sh b.
Proof.
  intros Hs E. rewrite <- (byte_at_N25 sh a), <- (byte_at_N25 sh b) by exact Hs.
  apply eqN_eq in E. rewrite E. reflexivity.
Qed.

Lemma bit24_eqm a b : eqN a b -> (a / 2^24) mod 2 = (b / 2^24) mod 2.
Proof.
  intros E. rewrite !div_mod_low by lia. change (2^24 * 2) with N25.
  apply eqN_eq in E. rewrite E. reflexivity.
Qed.

Lemma out_of_eqm a b : eqN a b -> out_of a = out_of b.
Proof.
  intros E. unfold out_of.
  rewrite (byte_at_eqm 0 a b), (byte_at_eqm 8 a b), (byte_at_eqm 16 a b), (bit24_eqm a b) by (auto; lia).
  reflexivity.
Qed.

Lemma byte_at_isbyte sh w : isbyte (byte_at sh w).
Proof. unfold isbyte, byte_at. apply Z.mod_pos_bound. lia. Qed.

Lemma lxor_ones_eqm a b L : 0 <= L <= 25 -> eqN a b ->
  eqN (Z.lxor a (Z.ones L)) (Z.lxor b (Z.ones L)).
Proof.
  intros HL E. apply eqN_eq in E. constructor. unfold N25 in *. rewrite !lxor_ones_mod by lia. rewrite E. reflexivity.
Qed.

Lemma sh_of_cases mask : sh_of mask = 0 \/ sh_of mask = 8 \/ sh_of mask = 16.
Proof. unfold sh_of. destruct (mask =? 1); auto. destruct (mask =? 2); auto. Qed.

(* decode inverts encode on one operand word, up to the 25 bits that are stored *)
Lemma conv_word_inverse v cur mask o :
  0 <= v -> 0 <= o ->
  (mask <> 0 -> test86 (byte_at (sh_of mask) v) = false) ->
  eqN o (conv_word true cur mask v) ->
  eqN (conv_word false cur mask o) v.
Proof.
  intros Hv Ho Hm E. unfold conv_word in *. cbn [stepw] in *.
  set (v1 := (v + cur) mod Wd) in *.
  assert (Hv1 : 0 <= v1) by (apply Z.mod_pos_bound; reflexivity).
  assert (E1 : eqN v1 (v + cur)) by apply modW_N.
  destruct (mask =? 0) eqn:M0.
  - (* no mask *)
    rewrite modW_N, E, E1. replace (v + cur - cur) with v by ring. reflexivity.
  - assert (Hm' : test86 (byte_at (sh_of mask) v) = false) by (apply Hm; lia).
    pose proof (sh_of_cases mask) as Hsh.
    set (sh := sh_of mask) in *.
    destruct (test86 (byte_at sh v1)) eqn:T1.
    + (* the encoder re-encoded *)
      set (x1 := Z.lxor v1 (Z.ones (sh + 8))) in *.
      assert (Ez1 : eqN ((o - cur) mod Wd) x1).
      { rewrite modW_N, E, modW_N. replace (x1 + cur - cur) with x1 by ring. reflexivity. }
      assert (Tz : test86 (byte_at sh ((o - cur) mod Wd)) = true).
      { rewrite (byte_at_eqm sh _ _ Hsh Ez1). unfold x1.
        rewrite byte_at_lxor by lia. rewrite test86_compl by apply byte_at_isbyte. exact T1. }
      rewrite Tz. rewrite modW_N.
      assert (Ex : eqN (Z.lxor ((o - cur) mod Wd) (Z.ones (sh + 8))) v1).
      { rewrite (lxor_ones_eqm _ _ (sh + 8) ltac:(lia) Ez1). unfold x1.
        rewrite lxor_ones_invol. reflexivity. }
      rewrite Ex, E1. replace (v + cur - cur) with v by ring. reflexivity.
    + (* it did not *)
      assert (Ez1 : eqN ((o - cur) mod Wd) v).
      { rewrite modW_N, E, E1. replace (v + cur - cur) with v by ring. reflexivity. }
      rewrite (byte_at_eqm sh _ _ Hsh Ez1), Hm'. exact Ez1.
Qed.

(* the stored bytes of a word [w] re-read as a word agree with [w] mod 2^25 *)
Lemma word_out_eqN w : 0 <= w ->
  let '(c1, c2, c3, c4) := out_of w in eqN (word c1 c2 c3 c4) w.
Proof.
  intros Hw. unfold out_of, byte_at, word. constructor. unfold N25.
  change (2^0) with 1. change (2^8) with 256. change (2^16) with 65536.
  change (2^24) with 16777216. change (2^25) with 33554432.
  rewrite Z.div_1_r.
  pose proof (Z.div_mod w 256 ltac:(lia)) as E0. pose proof (Z.mod_pos_bound w 256 ltac:(lia)) as B0.
  set (q0 := w / 256) in *. set (r0 := w mod 256) in *.
  assert (E1q : w / 65536 = q0 / 256).
  { unfold q0. rewrite Z.div_div by lia. reflexivity. }
  assert (E2q : w / 16777216 = q0 / 256 / 256).
  { unfold q0. rewrite !Z.div_div by lia. reflexivity. }
  rewrite E1q, E2q.
  pose proof (Z.div_mod q0 256 ltac:(lia)) as E1. pose proof (Z.mod_pos_bound q0 256 ltac:(lia)) as B1.
  set (q1 := q0 / 256) in *. set (r1 := q0 mod 256) in *.
  pose proof (Z.div_mod q1 256 ltac:(lia)) as E2. pose proof (Z.mod_pos_bound q1 256 ltac:(lia)) as B2.
  set (q2 := q1 / 256) in *. set (r2 := q1 mod 256) in *.
  pose proof (Z.div_mod q2 2 ltac:(lia)) as E3. pose proof (Z.mod_pos_bound q2 2 ltac:(lia)) as B3.
  set (q3 := q2 / 2) in *. set (r3 := q2 mod 2) in *.
  assert (Ew : w = (r0 + 256 * r1 + 65536 * r2 + 16777216 * r3) + q3 * 33554432) by lia.
  rewrite Ew at 1. rewrite Z.mod_add by lia.
  assert (C : r3 = 0 \/ r3 = 1) by lia.
  destruct C as [C | C]; rewrite C.
  - change ((0 - 0) mod 256) with 0. reflexivity.
  - change ((0 - 1) mod 256) with 255.
    replace (r0 + 256 * r1 + 65536 * r2 + 16777216 * 255)
      with ((r0 + 256 * r1 + 65536 * r2 + 16777216 * 1) + 127 * 33554432) by lia.
    rewrite Z.mod_add by lia. reflexivity.
Qed.

Lemma out_of_bytes w : let '(c1, c2, c3, c4) := out_of w in
  isbyte c1 /\ isbyte c2 /\ isbyte c3 /\ isbyte c4 /\ test86 c4 = true.
Proof.
  unfold out_of. repeat split; try apply byte_at_isbyte; try (apply Z.mod_pos_bound; lia).
  pose proof (Z.mod_pos_bound (w / 2^24) 2 ltac:(lia)) as B.
  assert (C : (w / 2^24) mod 2 = 0 \/ (w / 2^24) mod 2 = 1) by lia.
  destruct C as [C | C]; rewrite C; reflexivity.
Qed.

Lemma out_of_word b1 b2 b3 b4 : isbyte b1 -> isbyte b2 -> isbyte b3 -> isbyte b4 ->
  test86 b4 = true -> out_of (word b1 b2 b3 b4) = (b1, b2, b3, b4).
Proof.
  intros H1 H2 H3 H4 T. unfold isbyte in *.
  rewrite test86_spec in T by lia.
  unfold out_of, byte_at, word.
  change (2^0) with 1. change (2^8) with 256. change (2^16) with 65536. change (2^24) with 16777216.
  rewrite Z.div_1_r.
  assert (A1 : (b1 + 256 * b2 + 65536 * b3 + 16777216 * b4) mod 256 = b1).
  { replace (b1 + 256 * b2 + 65536 * b3 + 16777216 * b4) with (b1 + (b2 + 256 * b3 + 65536 * b4) * 256) by lia.
    rewrite Z.mod_add by lia. apply Z.mod_small; lia. }
  assert (A2 : ((b1 + 256 * b2 + 65536 * b3 + 16777216 * b4) / 256) mod 256 = b2).
  { replace (b1 + 256 * b2 + 65536 * b3 + 16777216 * b4) with (b1 + (b2 + 256 * b3 + 65536 * b4) * 256) by lia.
    rewrite Z.div_add by lia. rewrite (Z.div_small b1) by lia.
    replace (0 + (b2 + 256 * b3 + 65536 * b4)) with (b2 + (b3 + 256 * b4) * 256) by lia.
    rewrite Z.mod_add by lia. apply Z.mod_small; lia. }
  assert (A3 : ((b1 + 256 * b2 + 65536 * b3 + 16777216 * b4) / 65536) mod 256 = b3).
  { replace (b1 + 256 * b2 + 65536 * b3 + 16777216 * b4) with ((b1 + 256 * b2) + (b3 + 256 * b4) * 65536) by lia.
    rewrite Z.div_add by lia. rewrite (Z.div_small (b1 + 256 * b2)) by lia.
    replace (0 + (b3 + 256 * b4)) with (b3 + b4 * 256) by lia.
    rewrite Z.mod_add by lia. apply Z.mod_small; lia. }
  assert (A4 : (b1 + 256 * b2 + 65536 * b3 + 16777216 * b4) / 16777216 = b4).
  { replace (b1 + 256 * b2 + 65536 * b3 + 16777216 * b4) with ((b1 + 256 * b2 + 65536 * b3) + b4 * 16777216) by lia.
    rewrite Z.div_add by lia. rewrite Z.div_small by lia. lia. }
  rewrite A1, A2, A3, A4.
  assert (C : b4 = 0 \/ b4 = 255) by lia.
  destruct C as [-> | ->]; reflexivity.
Qed.

(* ---- the three facts about [conv] the simulation uses ---- *)

Definition mask_conv (mask : Z) : Prop := mask = 0 \/ mask = 1 \/ mask = 2 \/ mask = 4.

(* the byte of the window a pending opcode (recorded in mask) will be judged by *)
Definition prot (mask b1 b2 b3 : Z) : Z := if mask =? 1 then b1 else if mask =? 2 then b2 else b3.

Lemma prot_byte_at mask b1 b2 b3 b4 : isbyte b1 -> isbyte b2 -> isbyte b3 -> isbyte b4 ->
  test86 b4 = true ->
  byte_at (sh_of mask) (word b1 b2 b3 b4) = prot mask b1 b2 b3.
Proof.
  intros H1 H2 H3 H4 T. pose proof (out_of_word b1 b2 b3 b4 H1 H2 H3 H4 T) as E.
  unfold out_of in E. injection E as E1 E2 E3 _.
  unfold sh_of, prot. destruct (mask =? 1); auto. destruct (mask =? 2); auto.
Qed.

Lemma prot_out mask w :
  let '(c1, c2, c3, c4) := out_of w in prot mask c1 c2 c3 = byte_at (sh_of mask) w.
Proof.
  unfold out_of, prot, sh_of. destruct (mask =? 1); auto. destruct (mask =? 2); auto.
Qed.

Lemma conv_bytes enc cur mask b1 b2 b3 b4 c1 c2 c3 c4 :
  isbyte b1 -> isbyte b2 -> isbyte b3 -> isbyte b4 -> mask_conv mask ->
  conv enc cur mask b1 b2 b3 b4 = (c1, c2, c3, c4) ->
  isbyte c1 /\ isbyte c2 /\ isbyte c3 /\ isbyte c4 /\ test86 c4 = true.
Proof.
  intros H1 H2 H3 H4 Hm E. rewrite conv_eq in E by assumption.
  pose proof (out_of_bytes (conv_word enc cur mask (word b1 b2 b3 b4))) as B.
  rewrite E in B. exact B.
Qed.

(* the [sh] step: the encoder never leaves 00/FF in the byte a pending opcode is judged by *)
Lemma conv_protect cur mask b1 b2 b3 b4 c1 c2 c3 c4 :
  isbyte b1 -> isbyte b2 -> isbyte b3 -> isbyte b4 -> test86 b4 = true ->
  0 <= cur < Wd ->
  (mask = 1 \/ mask = 2 \/ mask = 4) ->
  test86 (prot mask b1 b2 b3) = false ->
  conv true cur mask b1 b2 b3 b4 = (c1, c2, c3, c4) ->
  test86 (prot mask c1 c2 c3) = false.
Proof.
  intros H1 H2 H3 H4 T4 Hc Hm Tp E.
  rewrite conv_eq in E by (auto; unfold mask_conv; lia).
  pose proof (prot_out mask (conv_word true cur mask (word b1 b2 b3 b4))) as P.
  rewrite E in P. rewrite P. clear P E.
  rewrite <- (prot_byte_at mask b1 b2 b3 b4) in Tp by assumption.
  pose proof (word_bound b1 b2 b3 b4 H1 H2 H3 H4) as Hv.
  set (v := word b1 b2 b3 b4) in *.
  unfold conv_word. replace (mask =? 0) with false by lia. cbn [stepw].
  destruct (test86 (byte_at (sh_of mask) ((v + cur) mod Wd))) eqn:T1; [|exact T1].
  pose proof (sh_of_cases mask) as Hsh.
  rewrite (sh_step_byte v cur (sh_of mask) Hv Hc ltac:(lia)).
  rewrite test86_compl by apply byte_at_isbyte. exact Tp.
Qed.

(* single-window inversion *)
Lemma conv_inverse cur mask b1 b2 b3 b4 :
  isbyte b1 -> isbyte b2 -> isbyte b3 -> isbyte b4 -> test86 b4 = true ->
  mask_conv mask ->
  (mask <> 0 -> test86 (prot mask b1 b2 b3) = false) ->
  let '(c1, c2, c3, c4) := conv true cur mask b1 b2 b3 b4 in
  conv false cur mask c1 c2 c3 c4 = (b1, b2, b3, b4).
Proof.
  intros H1 H2 H3 H4 T4 Hm Tp.
  destruct (conv true cur mask b1 b2 b3 b4) as [[[c1 c2] c3] c4] eqn:E.
  destruct (conv_bytes _ _ _ _ _ _ _ _ _ _ _ H1 H2 H3 H4 Hm E) as (C1 & C2 & C3 & C4 & TC).
  rewrite conv_eq in E by assumption.
  rewrite conv_eq by assumption.
  pose proof (word_bound b1 b2 b3 b4 H1 H2 H3 H4) as Hv.
  pose proof (word_bound c1 c2 c3 c4 C1 C2 C3 C4) as Ho.
  set (v := word b1 b2 b3 b4) in *.
  assert (V2 : 0 <= conv_word true cur mask v).
  { unfold conv_word, stepw.
    assert (Q : forall x, 0 <= x mod Wd) by (intros x; apply Z.mod_pos_bound; reflexivity).
    destruct (mask =? 0); [apply Q|].
    match goal with |- 0 <= (if ?c then _ else _) => destruct c end; apply Q. }
  pose proof (word_out_eqN (conv_word true cur mask v) V2) as WO. rewrite E in WO.
  assert (I : eqN (conv_word false cur mask (word c1 c2 c3 c4)) v).
  { apply conv_word_inverse; try lia; [|exact WO].
    intros Hn. unfold v. rewrite prot_byte_at by assumption. auto. }
  rewrite (out_of_eqm _ _ I). unfold v. apply out_of_word; assumption.
Qed.

(* ------------------------------------------------------------------ *)
(* 3. the filter as a left-to-right transducer                         *)
(* ------------------------------------------------------------------ *)

Definition curw (ip pos : Z) : Z := u32 (ip + u32 pos).

Definition skip_cond (mask b1 b2 b3 : Z) : bool :=
  if mask =? 0 then false
  else if (4 <? mask) || (mask =? 3) then true
  else test86 (prot mask b1 b2 b3).

Definition nmask (mask : Z) : Z := Z.lor (Z.shiftr mask 1) 4.

(* [run enc ip pos mask s]: [s] is data[pos:], [mask] the state on arrival at
   [pos]; the result is what data[pos:] finally holds.  One byte per step;
   a byte with fewer than four successors is never an opcode position. *)
Fixpoint run (enc : bool) (ip pos mask : Z) (s : bytes) {struct s} : bytes :=
  match s with
  | b :: r =>
    match r with
    | b1 :: b2 :: b3 :: b4 :: r' =>
      if is_branch b then
        if skip_cond mask b1 b2 b3 then b :: run enc ip (pos + 1) (nmask mask) r
        else if test86 b4 then
          let '(c1, c2, c3, c4) := conv enc (curw ip pos) mask b1 b2 b3 b4 in
          b :: c1 :: c2 :: c3 :: c4 :: run enc ip (pos + 5) 0 r'
        else b :: run enc ip (pos + 1) (nmask mask) r
      else b :: run enc ip (pos + 1) (Z.shiftr mask 1) r
    | _ => s
    end
  | [] => []
  end.

Lemma run_cons5 enc ip pos mask b b1 b2 b3 b4 r' :
  run enc ip pos mask (b :: b1 :: b2 :: b3 :: b4 :: r') =
  if is_branch b then
    if skip_cond mask b1 b2 b3 then b :: run enc ip (pos + 1) (nmask mask) (b1 :: b2 :: b3 :: b4 :: r')
    else if test86 b4 then
      let '(c1, c2, c3, c4) := conv enc (curw ip pos) mask b1 b2 b3 b4 in
      b :: c1 :: c2 :: c3 :: c4 :: run enc ip (pos + 5) 0 r'
    else b :: run enc ip (pos + 1) (nmask mask) (b1 :: b2 :: b3 :: b4 :: r')
  else b :: run enc ip (pos + 1) (Z.shiftr mask 1) (b1 :: b2 :: b3 :: b4 :: r').
Proof. reflexivity. Qed.

Lemma run_short enc ip pos mask s : (length s < 5)%nat -> run enc ip pos mask s = s.
Proof.
  intros H. destruct s as [|b [|b1 [|b2 [|b3 [|b4 r']]]]]; try reflexivity.
  simpl in H. lia.
Qed.

Lemma run_unfold enc ip pos mask b r : (4 <= length r)%nat ->
  run enc ip pos mask (b :: r) =
  if is_branch b then
    if skip_cond mask (nth 0 r 0) (nth 1 r 0) (nth 2 r 0) then b :: run enc ip (pos + 1) (nmask mask) r
    else if test86 (nth 3 r 0) then
      let '(c1, c2, c3, c4) := conv enc (curw ip pos) mask (nth 0 r 0) (nth 1 r 0) (nth 2 r 0) (nth 3 r 0) in
      b :: c1 :: c2 :: c3 :: c4 :: run enc ip (pos + 5) 0 (skipn 4 r)
    else b :: run enc ip (pos + 1) (nmask mask) r
  else b :: run enc ip (pos + 1) (Z.shiftr mask 1) r.
Proof.
  intros H. destruct r as [|b1 [|b2 [|b3 [|b4 r']]]]; try (simpl in H; lia).
  apply run_cons5.
Qed.

Lemma run_length enc ip : forall n s, (length s <= n)%nat -> forall pos mask,
  length (run enc ip pos mask s) = length s.
Proof.
  induction n as [|n IH]; intros s Hn pos mask.
  - destruct s; [reflexivity | simpl in Hn; lia].
  - destruct s as [|b [|b1 [|b2 [|b3 [|b4 r']]]]]; try reflexivity.
    rewrite run_cons5.
    assert (L1 : forall p m, length (run enc ip p m (b1 :: b2 :: b3 :: b4 :: r')) = S (S (S (S (length r'))))).
    { intros p m. rewrite IH by (cbn [length] in *; lia). reflexivity. }
    destruct (is_branch b); [|cbn [length]; rewrite L1; reflexivity].
    destruct (skip_cond mask b1 b2 b3); [cbn [length]; rewrite L1; reflexivity|].
    destruct (test86 b4); [|cbn [length]; rewrite L1; reflexivity].
    destruct (conv enc (curw ip pos) mask b1 b2 b3 b4) as [[[c1 c2] c3] c4].
    cbn [length]. rewrite IH by (cbn [length] in *; lia). reflexivity.
Qed.

Lemma run_len enc ip pos mask s : length (run enc ip pos mask s) = length s.
Proof. apply (run_length enc ip (length s)); lia. Qed.

(* F1: the first byte of the suffix is never changed *)
Lemma run_head enc ip pos mask s : nth 0 (run enc ip pos mask s) 0 = nth 0 s 0.
Proof.
  destruct s as [|b [|b1 [|b2 [|b3 [|b4 r']]]]]; try reflexivity.
  rewrite run_cons5.
  destruct (is_branch b); [|reflexivity].
  destruct (skip_cond mask b1 b2 b3); [reflexivity|].
  destruct (test86 b4); [|reflexivity].
  destruct (conv enc (curw ip pos) mask b1 b2 b3 b4) as [[[c1 c2] c3] c4]. reflexivity.
Qed.

Lemma skip_cond_0 x y z : skip_cond 0 x y z = false. Proof. reflexivity. Qed.
Lemma skip_cond_1 x y z : skip_cond 1 x y z = test86 x. Proof. reflexivity. Qed.
Lemma skip_cond_2 x y z : skip_cond 2 x y z = test86 y. Proof. reflexivity. Qed.
Lemma skip_cond_3 x y z : skip_cond 3 x y z = true. Proof. reflexivity. Qed.
Lemma skip_cond_4 x y z : skip_cond 4 x y z = test86 z. Proof. reflexivity. Qed.
Lemma skip_cond_5 x y z : skip_cond 5 x y z = true. Proof. reflexivity. Qed.
Lemma skip_cond_6 x y z : skip_cond 6 x y z = true. Proof. reflexivity. Qed.
Lemma skip_cond_7 x y z : skip_cond 7 x y z = true. Proof. reflexivity. Qed.

Lemma mask_cases m : 0 <= m <= 7 ->
  m = 0 \/ m = 1 \/ m = 2 \/ m = 3 \/ m = 4 \/ m = 5 \/ m = 6 \/ m = 7.
Proof. lia. Qed.

Lemma curw_bound ip pos : 0 <= curw ip pos < Wd.
Proof. unfold curw, u32. apply Z.mod_pos_bound. reflexivity. Qed.

Lemma bytes_ok_cons_inv x l : bytes_ok (x :: l) = true -> isbyte x /\ bytes_ok l = true.
Proof.
  rewrite bytes_ok_cons. intros H. apply andb_true_iff in H as [H1 H2].
  apply byte_ok_iff in H1. auto.
Qed.

Ltac ok5 H :=
  let A := fresh "Hb" in let A1 := fresh "Hb1" in let A2 := fresh "Hb2" in
  let A3 := fresh "Hb3" in let A4 := fresh "Hb4" in let R := fresh "Hr'" in
  let T := fresh "Ht" in
  pose proof H as T;
  apply bytes_ok_cons_inv in T as [A T]; apply bytes_ok_cons_inv in T as [A1 T];
  apply bytes_ok_cons_inv in T as [A2 T]; apply bytes_ok_cons_inv in T as [A3 T];
  apply bytes_ok_cons_inv in T as [A4 R].

(* F2: a pending unconverted opcode recorded in bit k of the mask is judged by
   the byte at index 3-k... of the suffix; the encoder's further run keeps
   that byte's 00/FF class. *)
Lemma F2_0 ip s pos mask : bytes_ok s = true ->
  (mask = 1 \/ mask = 3 \/ mask = 5 \/ mask = 7) ->
  test86 (nth 1 (run true ip pos mask s) 0) = test86 (nth 1 s 0).
Proof.
  intros Hok Hm.
  destruct s as [|b [|b1 [|b2 [|b3 [|b4 r']]]]]; try reflexivity.
  ok5 Hok.
  rewrite run_cons5.
  destruct (is_branch b); [|cbn [nth]; rewrite run_head; reflexivity].
  destruct (skip_cond mask b1 b2 b3) eqn:SK; [cbn [nth]; rewrite run_head; reflexivity|].
  destruct (test86 b4) eqn:T4; [|cbn [nth]; rewrite run_head; reflexivity].
  destruct (conv true (curw ip pos) mask b1 b2 b3 b4) as [[[c1 c2] c3] c4] eqn:E.
  cbn [nth].
  destruct Hm as [-> | [-> | [-> | ->]]]; try discriminate SK.
  rewrite skip_cond_1 in SK. rewrite SK.
  apply (conv_protect (curw ip pos) 1 b1 b2 b3 b4 c1 c2 c3 c4); auto using curw_bound.
Qed.

Lemma F2_1 ip s pos mask : bytes_ok s = true ->
  (mask = 2 \/ mask = 3 \/ mask = 6 \/ mask = 7) ->
  test86 (nth 2 (run true ip pos mask s) 0) = test86 (nth 2 s 0).
Proof.
  intros Hok Hm.
  destruct s as [|b [|b1 [|b2 [|b3 [|b4 r']]]]]; try reflexivity.
  ok5 Hok.
  assert (Hr : bytes_ok (b1 :: b2 :: b3 :: b4 :: r') = true).
  { apply bytes_ok_cons_inv in Hok as [_ Hok]. exact Hok. }
  rewrite run_cons5.
  assert (N1 : nmask mask = 5 \/ nmask mask = 7)
    by (destruct Hm as [-> | [-> | [-> | ->]]]; vm_compute; auto).
  assert (N2 : Z.shiftr mask 1 = 1 \/ Z.shiftr mask 1 = 3)
    by (destruct Hm as [-> | [-> | [-> | ->]]]; vm_compute; auto).
  destruct (is_branch b);
    [|cbn [nth]; rewrite F2_0 by (auto; lia); reflexivity].
  destruct (skip_cond mask b1 b2 b3) eqn:SK;
    [cbn [nth]; rewrite F2_0 by (auto; lia); reflexivity|].
  destruct (test86 b4) eqn:T4;
    [|cbn [nth]; rewrite F2_0 by (auto; lia); reflexivity].
  destruct (conv true (curw ip pos) mask b1 b2 b3 b4) as [[[c1 c2] c3] c4] eqn:E.
  cbn [nth].
  destruct Hm as [-> | [-> | [-> | ->]]]; try discriminate SK.
  rewrite skip_cond_2 in SK. rewrite SK.
  apply (conv_protect (curw ip pos) 2 b1 b2 b3 b4 c1 c2 c3 c4); auto using curw_bound.
Qed.

Lemma F2_2 ip s pos mask : bytes_ok s = true ->
  (mask = 4 \/ mask = 5 \/ mask = 6 \/ mask = 7) ->
  test86 (nth 3 (run true ip pos mask s) 0) = test86 (nth 3 s 0).
Proof.
  intros Hok Hm.
  destruct s as [|b [|b1 [|b2 [|b3 [|b4 r']]]]]; try reflexivity.
  ok5 Hok.
  assert (Hr : bytes_ok (b1 :: b2 :: b3 :: b4 :: r') = true).
  { apply bytes_ok_cons_inv in Hok as [_ Hok]. exact Hok. }
  rewrite run_cons5.
  assert (N1 : nmask mask = 6 \/ nmask mask = 7)
    by (destruct Hm as [-> | [-> | [-> | ->]]]; vm_compute; auto).
  assert (N2 : Z.shiftr mask 1 = 2 \/ Z.shiftr mask 1 = 3)
    by (destruct Hm as [-> | [-> | [-> | ->]]]; vm_compute; auto).
  destruct (is_branch b);
    [|cbn [nth]; rewrite F2_1 by (auto; lia); reflexivity].
  destruct (skip_cond mask b1 b2 b3) eqn:SK;
    [cbn [nth]; rewrite F2_1 by (auto; lia); reflexivity|].
  destruct (test86 b4) eqn:T4;
    [|cbn [nth]; rewrite F2_1 by (auto; lia); reflexivity].
  destruct (conv true (curw ip pos) mask b1 b2 b3 b4) as [[[c1 c2] c3] c4] eqn:E.
  cbn [nth].
  destruct Hm as [-> | [-> | [-> | ->]]]; try discriminate SK.
  rewrite skip_cond_4 in SK. rewrite SK.
  apply (conv_protect (curw ip pos) 4 b1 b2 b3 b4 c1 c2 c3 c4); auto using curw_bound.
Qed.

Lemma nmask_range m : 0 <= m <= 7 -> 4 <= nmask m <= 7.
Proof.
  intros H. destruct (mask_cases m H) as [-> | [-> | [-> | [-> | [-> | [-> | [-> | ->]]]]]]];
    vm_compute; split; discriminate.
Qed.

Lemma shr1_range m : 0 <= m <= 7 -> 0 <= Z.shiftr m 1 <= 7.
Proof.
  intros H. destruct (mask_cases m H) as [-> | [-> | [-> | [-> | [-> | [-> | [-> | ->]]]]]]];
    vm_compute; split; discriminate.
Qed.

(* the decoder, looking at what the encoder's further run leaves behind an
   unconverted opcode, takes the decisions the encoder took *)
Lemma skip_cond_after ip pos' mask b1 b2 b3 b4 r' :
  0 <= mask <= 7 -> bytes_ok (b1 :: b2 :: b3 :: b4 :: r') = true ->
  let R := run true ip pos' (nmask mask) (b1 :: b2 :: b3 :: b4 :: r') in
  skip_cond mask (nth 0 R 0) (nth 1 R 0) (nth 2 R 0) = skip_cond mask b1 b2 b3 /\
  test86 (nth 3 R 0) = test86 b4.
Proof.
  intros Hm Hok R. split.
  - destruct (mask_cases mask Hm) as [-> | [-> | [-> | [-> | [-> | [-> | [-> | ->]]]]]]];
      try reflexivity.
    + rewrite !skip_cond_1. unfold R. rewrite run_head. reflexivity.
    + rewrite !skip_cond_2. unfold R. rewrite F2_0; [reflexivity|exact Hok|vm_compute; auto].
    + rewrite !skip_cond_4. unfold R. rewrite F2_1; [reflexivity|exact Hok|vm_compute; auto].
  - unfold R. rewrite F2_2; [reflexivity|exact Hok|].
    pose proof (nmask_range mask Hm). lia.
Qed.

Lemma skip_cond_false_inv mask b1 b2 b3 : 0 <= mask <= 7 ->
  skip_cond mask b1 b2 b3 = false ->
  mask_conv mask /\ (mask <> 0 -> test86 (prot mask b1 b2 b3) = false).
Proof.
  intros Hm SK. unfold mask_conv.
  destruct (mask_cases mask Hm) as [-> | [-> | [-> | [-> | [-> | [-> | [-> | ->]]]]]]];
    try discriminate SK; split; auto; intros Hn; try exact SK; contradiction.
Qed.

Lemma skip_cond_conv mask c1 c2 c3 : mask_conv mask ->
  (mask <> 0 -> test86 (prot mask c1 c2 c3) = false) -> skip_cond mask c1 c2 c3 = false.
Proof.
  intros [-> | [-> | [-> | ->]]] H; try reflexivity; apply H; discriminate.
Qed.

(* lock-step simulation: the decoder run on the encoder's output restores the input *)
Lemma run_roundtrip_n ip : forall n s, (length s <= n)%nat -> forall pos mask,
  0 <= mask <= 7 -> bytes_ok s = true ->
  run false ip pos mask (run true ip pos mask s) = s.
Proof.
  induction n as [|n IH]; intros s Hn pos mask Hm Hok.
  - destruct s; [reflexivity | cbn [length] in Hn; lia].
  - destruct s as [|b [|b1 [|b2 [|b3 [|b4 r']]]]]; try reflexivity.
    ok5 Hok.
    assert (Hr : bytes_ok (b1 :: b2 :: b3 :: b4 :: r') = true).
    { apply bytes_ok_cons_inv in Hok as [_ Hok]. exact Hok. }
    assert (Ln : (length (b1 :: b2 :: b3 :: b4 :: r') <= n)%nat) by (cbn [length] in *; lia).
    assert (Ln' : (length r' <= n)%nat) by (cbn [length] in *; lia).
    pose proof (nmask_range mask Hm) as Hnm.
    pose proof (shr1_range mask Hm) as Hsm.
    rewrite run_cons5.
    set (r := b1 :: b2 :: b3 :: b4 :: r') in *.
    assert (L4 : forall p m, (4 <= length (run true ip p m r))%nat).
    { intros p m. rewrite run_len. unfold r. cbn [length]. lia. }
    destruct (is_branch b) eqn:OP.
    2:{ rewrite run_unfold by apply L4. rewrite OP. f_equal. apply IH; auto. }
    destruct (skip_cond_after ip (pos + 1) mask b1 b2 b3 b4 r' Hm Hr) as [SA TA].
    fold r in SA, TA.
    destruct (skip_cond mask b1 b2 b3) eqn:SK.
    { rewrite run_unfold by apply L4. rewrite OP, SA. f_equal. apply IH; auto; lia. }
    destruct (test86 b4) eqn:T4.
    2:{ rewrite run_unfold by apply L4. rewrite OP, SA, TA. f_equal. apply IH; auto; lia. }
    (* the operand is converted *)
    destruct (skip_cond_false_inv mask b1 b2 b3 Hm SK) as [Hmc Hp].
    pose proof (conv_inverse (curw ip pos) mask b1 b2 b3 b4 Hb1 Hb2 Hb3 Hb4 T4 Hmc Hp) as CI.
    destruct (conv true (curw ip pos) mask b1 b2 b3 b4) as [[[c1 c2] c3] c4] eqn:E.
    destruct (conv_bytes _ _ _ _ _ _ _ _ _ _ _ Hb1 Hb2 Hb3 Hb4 Hmc E) as (C1 & C2 & C3 & C4 & TC).
    rewrite run_cons5. rewrite OP.
    assert (SC : skip_cond mask c1 c2 c3 = false).
    { apply skip_cond_conv; [exact Hmc|]. intros Hn0.
      apply (conv_protect (curw ip pos) mask b1 b2 b3 b4 c1 c2 c3 c4); auto using curw_bound.
      destruct Hmc as [? | ?]; [contradiction | assumption]. }
    rewrite SC, TC, CI. unfold r. do 5 f_equal. apply IH; auto; lia.
Qed.

Theorem run_roundtrip ip pos mask s : 0 <= mask <= 7 -> bytes_ok s = true ->
  run false ip pos mask (run true ip pos mask s) = s.
Proof. intros. apply (run_roundtrip_n ip (length s)); auto. Qed.

(* ------------------------------------------------------------------ *)
(* 4. the array/fuel model of Model/Bcj.v computes [run]               *)
(* ------------------------------------------------------------------ *)

Lemma index_nth (s : bytes) k : (k < length s)%nat -> index (Z.of_nat k) s = nth_error s k.
Proof.
  intros H. unfold index, zlen.
  replace ((0 <=? Z.of_nat k) && (Z.of_nat k <? Z.of_nat (length s))) with true by lia.
  rewrite Nat2Z.id. reflexivity.
Qed.

Lemma index_app (done s : bytes) k : (k < length s)%nat ->
  index (zlen done + Z.of_nat k) (done ++ s) = nth_error s k.
Proof.
  intros H. unfold index, zlen. rewrite app_length.
  replace ((0 <=? Z.of_nat (length done) + Z.of_nat k) &&
           (Z.of_nat (length done) + Z.of_nat k <? Z.of_nat (length done + length s))) with true by lia.
  replace (Z.to_nat (Z.of_nat (length done) + Z.of_nat k)) with (length done + k)%nat by lia.
  rewrite nth_error_app2 by lia. f_equal. lia.
Qed.

(* number of bytes the inner for-loop steps over *)
Fixpoint nskip (s : bytes) : nat :=
  match s with
  | b :: r => if (4 <=? length r)%nat && negb (is_branch b) then S (nskip r) else O
  | [] => O
  end.

Lemma scan_nskip : forall s done sfuel size, (length s < sfuel)%nat ->
  size = zlen (done ++ s) - 4 ->
  scan sfuel (done ++ s) (zlen done) size = Ok (zlen done + Z.of_nat (nskip s)).
Proof.
  induction s as [|b r IH]; intros done sfuel size Hf Hs.
  - destruct sfuel as [|f]; [cbn [length] in Hf; lia|]. cbn [scan nskip].
    rewrite app_nil_r in Hs. replace (zlen done <? size) with false by lia.
    f_equal. lia.
  - destruct sfuel as [|f]; [cbn [length] in Hf; lia|]. cbn [scan nskip].
    rewrite zlen_app, zlen_cons in Hs. unfold zlen in Hs.
    destruct (4 <=? length r)%nat eqn:L4.
    + apply Nat.leb_le in L4.
      replace (zlen done <? size) with true by (unfold zlen; lia).
      replace (zlen done) with (zlen done + Z.of_nat 0) at 1 by lia.
      rewrite index_app by (cbn [length]; lia). cbn [nth_error of_opt bind].
      destruct (is_branch b) eqn:OP; cbn [negb andb].
      * f_equal. lia.
      * replace (done ++ b :: r) with ((done ++ [b]) ++ r) by (rewrite <- app_assoc; reflexivity).
        replace (zlen done + 1) with (zlen (done ++ [b])) by (rewrite zlen_app; reflexivity).
        rewrite IH.
        -- f_equal. rewrite zlen_app. change (zlen [b]) with 1. lia.
        -- cbn [length] in Hf. lia.
        -- rewrite !zlen_app. change (zlen [b]) with 1. unfold zlen. lia.
    + apply Nat.leb_gt in L4. cbn [andb].
      replace (zlen done <? size) with false by (unfold zlen; lia).
      f_equal. lia.
Qed.

Fixpoint shr_n (d : nat) (mask : Z) : Z :=
  match d with O => mask | S k => shr_n k (Z.shiftr mask 1) end.

Lemma shr_n_S d mask : shr_n (S d) mask = shr_n d (Z.shiftr mask 1).
Proof. reflexivity. Qed.

Lemma shr_n_0 d : shr_n d 0 = 0.
Proof. induction d as [|d IH]; [reflexivity|]. rewrite shr_n_S. exact IH. Qed.

Lemma shr_n_spec d mask : 0 <= mask <= 7 ->
  shr_n d mask = if 2 <? Z.of_nat d then 0 else Z.shiftr mask (Z.of_nat d).
Proof.
  intros Hm.
  destruct d as [|[|[|d]]].
  - reflexivity.
  - reflexivity.
  - destruct (mask_cases mask Hm) as [-> | [-> | [-> | [-> | [-> | [-> | [-> | ->]]]]]]]; reflexivity.
  - replace (2 <? Z.of_nat (S (S (S d)))) with true by lia.
    rewrite !shr_n_S.
    destruct (mask_cases mask Hm) as [-> | [-> | [-> | [-> | [-> | [-> | [-> | ->]]]]]]];
      apply shr_n_0.
Qed.

Lemma shr_n_range d mask : 0 <= mask <= 7 -> 0 <= shr_n d mask <= 7.
Proof.
  revert mask. induction d as [|d IH]; intros mask Hm; [exact Hm|].
  rewrite shr_n_S. apply IH. apply shr1_range. exact Hm.
Qed.

(* the stepped-over bytes are copied, the mask is shifted once per byte, and
   what follows is either too short to hold an opcode or starts with one *)
Lemma nskip_split enc ip : forall s, exists pre s',
  s = pre ++ s' /\ length pre = nskip s /\
  (forall pos mask, run enc ip pos mask s =
     pre ++ run enc ip (pos + zlen pre) (shr_n (length pre) mask) s') /\
  ((length s' < 5)%nat \/
   exists b b1 b2 b3 b4 r', s' = b :: b1 :: b2 :: b3 :: b4 :: r' /\ is_branch b = true).
Proof.
  induction s as [|b r IH].
  - exists [], []. split; [reflexivity|]. split; [reflexivity|]. split.
    + intros. reflexivity.
    + left. cbn [length]. lia.
  - cbn [nskip].
    destruct (4 <=? length r)%nat eqn:L4; [apply Nat.leb_le in L4 | apply Nat.leb_gt in L4].
    + destruct (is_branch b) eqn:OP; cbn [negb andb].
      * exists [], (b :: r). split; [reflexivity|]. split; [reflexivity|]. split.
        -- intros. cbn [app length shr_n]. change (zlen []) with 0. rewrite Z.add_0_r. reflexivity.
        -- right. destruct r as [|b1 [|b2 [|b3 [|b4 r']]]]; try (cbn [length] in L4; lia).
           exists b, b1, b2, b3, b4, r'. auto.
      * destruct IH as (pre & s' & E & Lp & R & T).
        exists (b :: pre), s'. split; [|split; [|split]].
        -- rewrite E. reflexivity.
        -- cbn [length]. rewrite Lp. reflexivity.
        -- intros pos mask. rewrite run_unfold by exact L4. rewrite OP.
           rewrite R. cbn [app length]. rewrite shr_n_S. rewrite zlen_cons.
           replace (pos + 1 + zlen pre) with (pos + (1 + zlen pre)) by lia. reflexivity.
        -- exact T.
    + cbn [andb]. exists [], (b :: r). split; [reflexivity|]. split; [reflexivity|]. split.
      * intros. cbn [app length shr_n]. change (zlen []) with 0. rewrite Z.add_0_r. reflexivity.
      * left. cbn [length]. lia.
Qed.

Lemma splice_window (done : bytes) b b1 b2 b3 b4 c1 c2 c3 c4 (r' : bytes) :
  splice (zlen done + 1) [c1; c2; c3; c4] (done ++ b :: b1 :: b2 :: b3 :: b4 :: r') =
  (done ++ [b; c1; c2; c3; c4]) ++ r'.
Proof.
  unfold splice.
  replace (zlen done + 1) with (zlen (done ++ [b])) by (rewrite zlen_app; reflexivity).
  replace (done ++ b :: b1 :: b2 :: b3 :: b4 :: r') with ((done ++ [b]) ++ b1 :: b2 :: b3 :: b4 :: r')
    by (rewrite <- app_assoc; reflexivity).
  rewrite zfirstn_app_exact.
  replace (zlen (done ++ [b]) + zlen [c1; c2; c3; c4])
    with (zlen ((done ++ [b]) ++ [b1; b2; b3; b4])).
  2:{ rewrite !zlen_app. reflexivity. }
  replace ((done ++ [b]) ++ b1 :: b2 :: b3 :: b4 :: r')
    with (((done ++ [b]) ++ [b1; b2; b3; b4]) ++ r').
  2:{ rewrite <- !app_assoc. reflexivity. }
  rewrite zskipn_app_exact. rewrite <- !app_assoc. reflexivity.
Qed.

Lemma prev_test_spec (done : bytes) b b1 b2 b3 b4 r' mask : 0 <= mask <= 7 ->
  prev_test (done ++ b :: b1 :: b2 :: b3 :: b4 :: r') (zlen done) mask = Ok (skip_cond mask b1 b2 b3).
Proof.
  intros Hm. unfold prev_test.
  set (s := b :: b1 :: b2 :: b3 :: b4 :: r').
  assert (I1 : index (zlen done + 0 + 1) (done ++ s) = Some b1).
  { replace (zlen done + 0 + 1) with (zlen done + Z.of_nat 1) by lia.
    rewrite index_app by (unfold s; cbn [length]; lia). reflexivity. }
  assert (I2 : index (zlen done + 1 + 1) (done ++ s) = Some b2).
  { replace (zlen done + 1 + 1) with (zlen done + Z.of_nat 2) by lia.
    rewrite index_app by (unfold s; cbn [length]; lia). reflexivity. }
  assert (I3 : index (zlen done + 2 + 1) (done ++ s) = Some b3).
  { replace (zlen done + 2 + 1) with (zlen done + Z.of_nat 3) by lia.
    rewrite index_app by (unfold s; cbn [length]; lia). reflexivity. }
  destruct (mask_cases mask Hm) as [-> | [-> | [-> | [-> | [-> | [-> | [-> | ->]]]]]]];
    try reflexivity.
  - change (1 =? 0) with false. change ((4 <? 1) || (1 =? 3)) with false. cbv iota.
    change (Z.shiftr 1 1) with 0. rewrite I1. reflexivity.
  - change (2 =? 0) with false. change ((4 <? 2) || (2 =? 3)) with false. cbv iota.
    change (Z.shiftr 2 1) with 1. rewrite I2. reflexivity.
  - change (4 =? 0) with false. change ((4 <? 4) || (4 =? 3)) with false. cbv iota.
    change (Z.shiftr 4 1) with 2. rewrite I3. reflexivity.
Qed.

Lemma loop_run enc ip sfuel : forall fuel s done size mask,
  (length s < fuel)%nat -> (length s < sfuel)%nat -> 0 <= mask <= 7 ->
  size = zlen (done ++ s) - 4 ->
  exists st ret,
    loop fuel sfuel enc ip (done ++ s) size (zlen done) mask =
    Ok (done ++ run enc ip (zlen done) mask s, st, ret).
Proof.
  induction fuel as [|f IH]; intros s done size mask Hf Hsf Hm Hs; [lia|].
  cbn [loop].
  rewrite (scan_nskip s done sfuel size Hsf Hs). cbn [bind].
  destruct (nskip_split enc ip s) as (pre & s' & E & Lp & R & T).
  rewrite R. rewrite <- Lp.
  set (d := length pre) in *.
  replace (zlen done + Z.of_nat d - zlen done) with (Z.of_nat d) by lia.
  assert (Ep : zlen done + Z.of_nat d = zlen (done ++ pre)) by (rewrite zlen_app; reflexivity).
  pose proof (shr_n_spec d mask Hm) as Hsh.
  pose proof (shr_n_range d mask Hm) as Hmr.
  assert (Ls : length s = (d + length s')%nat) by (rewrite E, app_length; reflexivity).
  assert (Hs' : size = zlen (done ++ pre) + zlen s' - 4).
  { rewrite Hs, E, !zlen_app. lia. }
  destruct T as [T | (b & b1 & b2 & b3 & b4 & r' & Es' & OP)].
  - (* too short for another opcode: return *)
    replace (size <=? zlen done + Z.of_nat d) with true by (unfold zlen in *; lia).
    rewrite run_short by exact T. rewrite <- E. eexists _, _. reflexivity.
  - assert (L5 : zlen s' = 5 + zlen r') by (rewrite Es'; unfold zlen; cbn [length]; lia).
    pose proof (zlen_nonneg r') as Hr0.
    replace (size <=? zlen done + Z.of_nat d) with false by lia.
    rewrite <- Hsh.
    set (m' := shr_n d mask) in *.
    set (dn := done ++ pre) in *.
    assert (Ed : done ++ s = dn ++ s') by (unfold dn; rewrite E, app_assoc; reflexivity).
    assert (Ep' : zlen done + zlen pre = zlen dn) by (unfold dn; rewrite zlen_app; reflexivity).
    rewrite Ed, Ep, Ep'. rewrite (app_assoc done pre). fold dn. fold (nmask m').
    assert (PT : (if 2 <? Z.of_nat d then Ok false else prev_test (dn ++ s') (zlen dn) m')
                 = Ok (skip_cond m' b1 b2 b3)).
    { destruct (2 <? Z.of_nat d) eqn:D2.
      - rewrite Hsh. rewrite ?D2. reflexivity.
      - rewrite Es'. apply prev_test_spec. exact Hmr. }
    rewrite PT. cbn [bind].
    assert (I4 : index (zlen dn + 4) (dn ++ s') = Some b4).
    { replace (zlen dn + 4) with (zlen dn + Z.of_nat 4) by lia.
      rewrite index_app by (rewrite Es'; cbn [length]; lia). rewrite Es'. reflexivity. }
    assert (I3 : index (zlen dn + 3) (dn ++ s') = Some b3).
    { replace (zlen dn + 3) with (zlen dn + Z.of_nat 3) by lia.
      rewrite index_app by (rewrite Es'; cbn [length]; lia). rewrite Es'. reflexivity. }
    assert (I2 : index (zlen dn + 2) (dn ++ s') = Some b2).
    { replace (zlen dn + 2) with (zlen dn + Z.of_nat 2) by lia.
      rewrite index_app by (rewrite Es'; cbn [length]; lia). rewrite Es'. reflexivity. }
    assert (I1 : index (zlen dn + 1) (dn ++ s') = Some b1).
    { replace (zlen dn + 1) with (zlen dn + Z.of_nat 1) by lia.
      rewrite index_app by (rewrite Es'; cbn [length]; lia). rewrite Es'. reflexivity. }
    assert (Skip : exists st ret,
       loop f sfuel enc ip (dn ++ s') size (zlen dn + 1) (nmask m') =
       Ok (dn ++ b :: run enc ip (zlen dn + 1) (nmask m') (b1 :: b2 :: b3 :: b4 :: r'), st, ret)).
    { rewrite Es'.
      replace (dn ++ b :: b1 :: b2 :: b3 :: b4 :: r') with ((dn ++ [b]) ++ b1 :: b2 :: b3 :: b4 :: r')
        by (rewrite <- app_assoc; reflexivity).
      replace (zlen dn + 1) with (zlen (dn ++ [b])) by (rewrite zlen_app; reflexivity).
      destruct (IH (b1 :: b2 :: b3 :: b4 :: r') (dn ++ [b]) size (nmask m')) as (st & ret & EQ).
      - rewrite Ls, Es' in Hf. cbn [length] in *. lia.
      - rewrite Ls, Es' in Hsf. cbn [length] in *. lia.
      - pose proof (nmask_range m' Hmr). lia.
      - rewrite Hs', Es'. rewrite !zlen_app. unfold zlen. cbn [length]. lia.
      - exists st, ret. rewrite EQ. rewrite <- !app_assoc. reflexivity. }
    replace (run enc ip (zlen dn) m' s') with (run enc ip (zlen dn) m' (b :: b1 :: b2 :: b3 :: b4 :: r'))
      by (rewrite Es'; reflexivity).
    rewrite run_cons5. rewrite OP.
    destruct (skip_cond m' b1 b2 b3) eqn:SK.
    { exact Skip. }
    rewrite I4. cbn [of_opt bind].
    destruct (test86 b4) eqn:T4; [|exact Skip].
    rewrite I3, I2, I1. cbn [of_opt bind].
    fold (curw ip (zlen dn)).
    destruct (conv enc (curw ip (zlen dn)) m' b1 b2 b3 b4) as [[[c1 c2] c3] c4] eqn:CE.
    rewrite Es'. rewrite splice_window.
    replace (zlen dn + 5) with (zlen (dn ++ [b; c1; c2; c3; c4])) by (rewrite zlen_app; reflexivity).
    destruct (IH r' (dn ++ [b; c1; c2; c3; c4]) size 0) as (st & ret & EQ).
    + rewrite Ls, Es' in Hf. cbn [length] in *. lia.
    + rewrite Ls, Es' in Hsf. cbn [length] in *. lia.
    + lia.
    + rewrite Hs', Es'. rewrite !zlen_app. unfold zlen. cbn [length]. lia.
    + exists st, ret. rewrite EQ. rewrite <- !app_assoc. reflexivity.
Qed.

Lemma land7_range st : 0 <= Z.land st 7 <= 7.
Proof.
  assert (E : Z.land st 7 = st mod 8) by (apply (Z.land_ones st 3); lia).
  rewrite E. pose proof (Z.mod_pos_bound st 8 ltac:(lia)). lia.
Qed.

(* x86Convert as a whole: never panics, always finishes, and the buffer ends up as [run] says *)
Theorem x86_convert_run enc ip st data : exists st' ret,
  x86_convert enc ip st data = Ok (run enc (u32 (ip + 5)) 0 (Z.land st 7) data, st', ret).
Proof.
  unfold x86_convert.
  destruct (zlen data <? 5) eqn:L5.
  - rewrite run_short by (unfold zlen in L5; lia). eexists _, _. reflexivity.
  - destruct (loop_run enc (u32 (ip + 5)) (S (length data)) (S (length data)) data [] (zlen data - 4)
                (Z.land st 7)) as (st' & ret & E); try (cbn [length]; lia).
    + apply land7_range.
    + reflexivity.
    + exists st', ret. exact E.
Qed.

(* ---- consequences for the model of x86Convert ---- *)

Lemma run_zlen enc ip pos mask s : zlen (run enc ip pos mask s) = zlen s.
Proof. unfold zlen. rewrite run_len. reflexivity. Qed.

Theorem x86_convert_total enc ip st data : exists d st' ret,
  x86_convert enc ip st data = Ok (d, st', ret) /\ zlen d = zlen data.
Proof.
  destruct (x86_convert_run enc ip st data) as (st' & ret & E).
  eexists _, st', ret. split; [exact E|]. apply run_zlen.
Qed.

Theorem x86_convert_roundtrip ip st d e s1 r1 : bytes_ok d = true ->
  x86_convert true ip st d = Ok (e, s1, r1) ->
  exists s2 r2, x86_convert false ip st e = Ok (d, s2, r2).
Proof.
  intros Hok E.
  destruct (x86_convert_run true ip st d) as (s1' & r1' & E1). rewrite E1 in E.
  injection E as <- _ _.
  destruct (x86_convert_run false ip st (run true (u32 (ip + 5)) 0 (Z.land st 7) d)) as (s2 & r2 & E2).
  exists s2, r2. rewrite E2. rewrite run_roundtrip by (auto using land7_range). reflexivity.
Qed.

Lemma x86_run enc d : x86 enc d = run enc 5 0 0 d.
Proof.
  unfold x86. destruct (x86_convert_run enc 0 0 d) as (st' & ret & E). rewrite E. reflexivity.
Qed.

(* decode is the exact inverse of encode, on every input *)
Theorem x86_roundtrip d : bytes_ok d = true -> x86 false (x86 true d) = d.
Proof. intros H. rewrite !x86_run. apply run_roundtrip; [lia|exact H]. Qed.

Theorem x86_length enc d : zlen (x86 enc d) = zlen d.
Proof. rewrite x86_run. apply run_zlen. Qed.

Theorem x86_short enc d : zlen d < 5 -> x86 enc d = d.
Proof. intros H. rewrite x86_run. apply run_short. unfold zlen in H. lia. Qed.

(* the filter maps byte strings to byte strings *)
Lemma run_bytes_ok_n enc ip : forall n s, (length s <= n)%nat -> forall pos mask,
  0 <= mask <= 7 -> bytes_ok s = true -> bytes_ok (run enc ip pos mask s) = true.
Proof.
  induction n as [|n IH]; intros s Hn pos mask Hm Hok.
  - destruct s; [reflexivity | cbn [length] in Hn; lia].
  - destruct s as [|b [|b1 [|b2 [|b3 [|b4 r']]]]]; try exact Hok.
    ok5 Hok.
    assert (Hr : bytes_ok (b1 :: b2 :: b3 :: b4 :: r') = true).
    { apply bytes_ok_cons_inv in Hok as [_ Hok]. exact Hok. }
    assert (Ln : (length (b1 :: b2 :: b3 :: b4 :: r') <= n)%nat) by (cbn [length] in *; lia).
    assert (Ln' : (length r' <= n)%nat) by (cbn [length] in *; lia).
    pose proof (nmask_range mask Hm) as Hnm.
    pose proof (shr1_range mask Hm) as Hsm.
    assert (Bb : byte_ok b = true) by (apply byte_ok_iff; exact Hb).
    rewrite run_cons5.
    destruct (is_branch b).
    2:{ rewrite bytes_ok_cons, Bb. apply IH; auto. }
    destruct (skip_cond mask b1 b2 b3) eqn:SK.
    { rewrite bytes_ok_cons, Bb. apply IH; auto; lia. }
    destruct (test86 b4) eqn:T4.
    2:{ rewrite bytes_ok_cons, Bb. apply IH; auto; lia. }
    destruct (skip_cond_false_inv mask b1 b2 b3 Hm SK) as [Hmc _].
    destruct (conv enc (curw ip pos) mask b1 b2 b3 b4) as [[[c1 c2] c3] c4] eqn:E.
    destruct (conv_bytes _ _ _ _ _ _ _ _ _ _ _ Hb1 Hb2 Hb3 Hb4 Hmc E) as (C1 & C2 & C3 & C4 & _).
    rewrite !bytes_ok_cons, Bb.
    rewrite (proj2 (byte_ok_iff c1) C1), (proj2 (byte_ok_iff c2) C2),
            (proj2 (byte_ok_iff c3) C3), (proj2 (byte_ok_iff c4) C4).
    apply IH; auto; lia.
Qed.

Theorem x86_bytes_ok enc d : bytes_ok d = true -> bytes_ok (x86 enc d) = true.
Proof. intros H. rewrite x86_run. apply (run_bytes_ok_n enc 5 (length d)); auto; lia. Qed.
