(* Proofs/FlashImageProofs.v — saving an unedited Intel flash image reproduces it, given that
   the BIOS region does (Model/FlashImage.v over Model/TightenMe.v; property C01, flash entry
   shape). *)
From Fiano Require Import Base.Bytes Base.BytesLemmas Gen.Consts Model.TightenMe Model.FlashImage
  Proofs.TightenMeProofs.
From Coq Require Import ZifyBool ZifyNat.
Open Scope Z_scope.

(* geometry of a region of a tree without BIOSRegion node *)
Definition geo (sl : list fregion) (r : region) : Prop :=
  let fr := region_fr sl r in
  fr_ok fr = true /\ fr_base fr <= fr_limit fr /\
  zlen (region_buf r) = end_off fr - base_off fr /\ is_bios r = false.

(* a declared region as NewFlashImage builds it from the image *)
Definition declf (img : bytes) (sl : list fregion) (r : region) : Prop :=
  let fr := region_fr sl r in
  geo sl r /\
  region_buf r = sub (base_off fr) (end_off fr - base_off fr) img /\
  base_off fr < zlen img /\ end_off fr <= zlen img.

Lemma geo_le sl r : geo sl r -> base_off (region_fr sl r) < end_off (region_fr sl r).
Proof. intros (_ & H & _). unfold base_off, end_off. consts. lia. Qed.

Lemma sub_zfirstn a l n (b : bytes) : 0 <= a -> 0 <= l -> a + l <= n ->
  sub a l (zfirstn n b) = sub a l b.
Proof.
  intros Ha Hl Hn. apply nth_error_ext. intros i. rewrite !nth_error_sub by lia.
  destruct (Z.of_nat i <? l) eqn:E; auto.
  unfold zfirstn. apply nth_error_firstn_lt'. lia.
Qed.

(* ---- the region loop ---- *)

Lemma parse_regions_f_indep f g img size nr frs : forall i, 1 <= i ->
  parse_regions_f f img size nr frs i = parse_regions_f g img size nr frs i.
Proof.
  induction frs as [|fr rest IH]; intros i Hi; cbn [parse_regions_f]; auto.
  rewrite !(IH (i + 1)) by lia.
  replace (i =? ifd_type_bios) with false by (consts; lia). reflexivity.
Qed.

Lemma parse_regions_f_agree f img size nr fr0 rest :
  (fr_valid fr0 = true -> base_off fr0 < size -> end_off fr0 <= size ->
   f (sub (base_off fr0) (end_off fr0 - base_off fr0) img) =
   Ok (sub (base_off fr0) (end_off fr0 - base_off fr0) img)) ->
  parse_regions_f f img size nr (fr0 :: rest) 0 =
  parse_regions_f (fun b => Ok b) img size nr (fr0 :: rest) 0.
Proof.
  intros H. cbn [parse_regions_f].
  rewrite !(parse_regions_f_indep f (fun b => Ok b) img size nr rest (0 + 1)) by lia.
  destruct (negb (nr =? 0) && (nr <=? 0)); auto.
  destruct (fr_valid fr0) eqn:V; cbn [negb]; auto.
  destruct (size <=? base_off fr0) eqn:B1; auto.
  destruct (size <? end_off fr0) eqn:B2; auto.
  change (0 =? ifd_type_bios) with true. cbv iota.
  rewrite H by (auto; lia). reflexivity.
Qed.

Lemma parse_regions_f_inv img nr frs : forall done rs,
  length (done ++ frs) = 15%nat -> forallb fr_ok (done ++ frs) = true ->
  parse_regions_f (fun b => Ok b) img (zlen img) nr frs (zlen done) = Ok rs ->
  Forall (declf img (done ++ frs)) rs.
Proof.
  induction frs as [|fr rest IH]; intros done rs LEN OKS H.
  - cbn [parse_regions_f] in H. injection H as <-. constructor.
  - pose proof (zlen_nonneg done) as DN.
    assert (A : done ++ fr :: rest = (done ++ [fr]) ++ rest) by (rewrite <- app_assoc; reflexivity).
    assert (ZL : zlen (done ++ [fr]) = zlen done + 1) by (rewrite zlen_app, zlen_cons, zlen_nil; lia).
    assert (REC : forall rs0,
              parse_regions_f (fun b => Ok b) img (zlen img) nr rest (zlen done + 1) = Ok rs0 ->
              Forall (declf img (done ++ fr :: rest)) rs0).
    { intros rs0 H0. rewrite <- ZL in H0. rewrite A in *. apply (IH (done ++ [fr]) rs0); auto. }
    cbn [parse_regions_f] in H.
    destruct (negb (nr =? 0) && (nr <=? zlen done)). { injection H as <-. constructor. }
    destruct (fr_valid fr) eqn:V; cbn [negb] in H; [|apply REC; auto].
    destruct (zlen img <=? base_off fr) eqn:B1; [apply REC; auto|].
    destruct (zlen img <? end_off fr) eqn:B2; [apply REC; auto|].
    apply bind_ok in H as (r & Hr & H). apply bind_ok in H as (more & Hm & H). injection H as <-.
    set (sl := done ++ fr :: rest) in *.
    assert (FO : fr_ok fr = true).
    { apply (forallb_In fr_ok sl); auto. unfold sl. apply in_or_app. right. left. reflexivity. }
    pose proof (fr_ok_spec _ FO) as FO'.
    assert (VL : fr_base fr <= fr_limit fr) by (unfold fr_valid in V; lia).
    assert (ZB : zlen (sub (base_off fr) (end_off fr - base_off fr) img) = end_off fr - base_off fr).
    { apply zlen_sub; unfold base_off, end_off in *; consts; lia. }
    assert (SLOT : slot sl (zlen done) = fr) by apply slot_here.
    constructor; [|apply REC; auto].
    unfold declf, geo.
    destruct (zlen done =? ifd_type_bios) eqn:I0.
    + assert (zlen done = 0) as Z0 by (consts; lia).
      cbn [bind] in Hr. injection Hr as <-. cbn [region_fr region_buf is_bios].
      change ifd_type_bios with 0. rewrite <- Z0, SLOT. repeat split; auto; lia.
    + destruct (zlen done =? ifd_type_me) eqn:I1.
      * assert (zlen done = 1) as Z1 by (consts; lia).
        injection Hr as <-. unfold me_region.
        destruct (parse_fpt _); cbn [region_fr region_buf is_bios]; change ifd_type_me with 1;
          rewrite <- Z1, SLOT; repeat split; auto; lia.
      * injection Hr as <-. cbn [region_fr region_buf is_bios]. rewrite SLOT. repeat split; auto; lia.
Qed.

(* ---- gap filling ---- *)

Lemma gap_geo sl img a b : 1 <= a < b -> b * 4096 <= zlen img -> b < 65536 ->
  geo sl (RGap (mkFR a (b - 1)) (sub (a * 4096) (b * 4096 - a * 4096) img)).
Proof.
  intros H1 H2 H3. pose proof (gap_region_ok sl img a b H1 H2 H3) as R.
  apply region_ok_spec in R as (R1 & R2 & R3 & _). cbn [region_fr is_me] in *.
  unfold geo. cbn [region_fr is_bios]. repeat split; auto.
  destruct R2 as [R2|[R2 _]]; [exact R2|discriminate].
Qed.

Lemma fill_gaps_geo img sl rs : forall a out,
  zlen img < 65536 * 4096 -> (exists s, zlen img = s * 4096) ->
  Forall (declf img sl) rs -> 1 <= a -> a * 4096 <= zlen img ->
  fill_gaps img (zlen img) sl rs (a * 4096) = Ok out ->
  Forall (geo sl) out /\
  chain sl out (a * 4096) = Some (zlen img) /\
  concat (map region_buf out) = sub (a * 4096) (zlen img - a * 4096) img.
Proof.
  induction rs as [|r rs IH]; intros a out LT [s SZ] F A1 A2 H.
  - cbn [fill_gaps] in H. destruct (a * 4096 =? zlen img) eqn:E; cbn [negb] in H.
    + injection H as <-. cbn [chain map concat]. repeat split; auto. { f_equal. lia. }
      replace (zlen img - a * 4096) with 0 by lia. reflexivity.
    + assert (MZ : (zlen img mod ifd_block =? 0) = true)
        by (rewrite SZ; change ifd_block with 4096; rewrite Z.mod_mul by lia; reflexivity).
      rewrite MZ in H. cbn [negb] in H.
      rewrite SZ in H. rewrite gap_region_eq in H by lia. cbn [bind] in H. injection H as <-.
      cbn [chain map concat region_fr region_buf].
      unfold base_off, end_off. cbn [fr_base fr_limit]. consts.
      replace (a * 4096 =? a * 4096) with true by lia. rewrite app_nil_r.
      split; [constructor; [apply gap_geo; lia|constructor]|]. split; f_equal; lia.
  - inversion F as [|r0 rs0 D F']; subst r0 rs0.
    destruct D as (G & RB & B1 & B2).
    cbn [fill_gaps] in H.
    set (fr := region_fr sl r) in *.
    pose proof G as (FO & VL & _). fold fr in FO, VL. apply fr_ok_spec in FO.
    destruct (base_off fr <? a * 4096) eqn:OV; [discriminate|].
    apply bind_ok in H as (pre & Hp & H). apply bind_ok in H as (more & Hm & H). injection H as <-.
    assert (E1 : 1 <= fr_limit fr + 1) by lia.
    assert (E2 : (fr_limit fr + 1) * 4096 <= zlen img) by (unfold end_off in B2; consts; lia).
    unfold end_off in Hm. change ifd_block with 4096 in Hm.
    destruct (IH _ _ LT (ex_intro _ s SZ) F' E1 E2 Hm) as (I1 & I2 & I3).
    assert (PRE : Forall (geo sl) pre /\
                  chain sl pre (a * 4096) = Some (base_off fr) /\
                  concat (map region_buf pre) = sub (a * 4096) (base_off fr - a * 4096) img).
    { destruct (a * 4096 <? base_off fr) eqn:GP.
      - unfold base_off in *. change ifd_block with 4096 in *.
        rewrite gap_region_eq in Hp by lia. cbn [bind] in Hp. injection Hp as <-.
        cbn [chain map concat region_fr region_buf].
        unfold base_off, end_off. cbn [fr_base fr_limit]. consts.
        replace (a * 4096 =? a * 4096) with true by lia. rewrite app_nil_r.
        split; [constructor; [apply gap_geo; lia|constructor]|]. split; f_equal; lia.
      - injection Hp as <-. cbn [chain map concat]. repeat split; auto. { f_equal. lia. }
        replace (base_off fr - a * 4096) with 0 by lia. reflexivity. }
    destruct PRE as (P1 & P2 & P3).
    split; [|split].
    + apply Forall_app. split; auto.
    + rewrite chain_app, P2. cbn [chain]. fold fr. rewrite Z.eqb_refl.
      unfold end_off. change ifd_block with 4096. exact I2.
    + rewrite map_app, concat_app. cbn [map concat]. rewrite P3, RB, I3. fold fr.
      unfold end_off, base_off in *. change ifd_block with 4096 in *.
      replace (fr_base fr * 4096) with (a * 4096 + (fr_base fr * 4096 - a * 4096)) at 2 by lia.
      rewrite app_assoc. rewrite sub_glue by lia.
      replace ((fr_limit fr + 1) * 4096) with
        (a * 4096 + (fr_base fr * 4096 - a * 4096 + ((fr_limit fr + 1) * 4096 - fr_base fr * 4096))) at 2 by lia.
      rewrite sub_glue by lia. f_equal. lia.
Qed.

(* ---- Assemble of a tree without BIOSRegion node ---- *)

Lemma chain_sorted_geo sl rs off e : Forall (geo sl) rs -> chain sl rs off = Some e ->
  asc_sorted (rkey sl) rs.
Proof.
  revert off. induction rs as [|r rs IH]; intros off F C; simpl in *; auto.
  inversion F as [|r0 rs0 G F']; subst r0 rs0.
  destruct (base_off (region_fr sl r) =? off) eqn:E; [|discriminate].
  split; [|eapply IH; eauto].
  destruct rs as [|r2 rs]; auto. simpl in C.
  destruct (base_off (region_fr sl r2) =? end_off (region_fr sl r)) eqn:E2; [|discriminate].
  pose proof (geo_le _ _ G). unfold rkey, base_off in *. consts. lia.
Qed.

Lemma geo_nobios sl rs : Forall (geo sl) rs -> forallb (fun r => negb (is_bios r)) rs = true.
Proof.
  induction 1 as [|r rs G F IH]; simpl; auto. destruct G as (_ & _ & _ & B). rewrite B, IH. reflexivity.
Qed.

Lemma save_nobios pol t : Forall (geo (t_slots t)) (t_regions t) ->
  chain (t_slots t) (t_regions t) ifd_desc_len = Some (t_size t) ->
  fr_valid (slot (t_slots t) ifd_type_bios) = true ->
  save pol t = Ok (assemble_ifd t ++ concat (map region_buf (t_regions t))).
Proof.
  intros F C V. unfold save.
  rewrite asm_regions_plain by (eapply geo_nobios; eauto). cbn [bind fst snd].
  rewrite V. cbn [negb].
  rewrite sort_sorted.
  - rewrite (flash_chain_ok _ _ _ (t_size t)) by (rewrite map_map, map_id; auto).
    cbn [bind fst snd]. rewrite Z.eqb_refl. cbn [negb]. rewrite concat_map_pair. reflexivity.
  - apply (asc_sorted_map_inv fst (rkey (t_slots t))). rewrite map_map, map_id.
    eapply chain_sorted_geo; eauto.
Qed.

(* ---- NewFlashImage with the BIOS region kept as is ---- *)

Lemma descriptor_of_inv ifd dms rs ms sl erase nr : bytes_ok ifd = true -> zlen ifd = 4096 ->
  descriptor_of ifd = Ok (dms, rs, ms, sl, erase, nr) ->
  (dms = 20 \/ dms = 4) /\ 0 <= rs /\ rs + 64 <= 4096 /\ 0 <= ms /\ ms + 12 <= 4096 /\
  length sl = 15%nat /\ forallb fr_ok sl = true /\
  sub rs 64 ifd = sub rs 2 ifd ++ le_enc 2 erase ++ enc_slots sl.
Proof.
  intros OKI LI H. unfold descriptor_of in H.
  apply bind_ok in H as (d & FS & H). apply find_signature_ok in FS.
  destruct ((ifd_desc_len <=? rd (d + ifd_dmap_off_region_base) 1 ifd * 16) ||
            (ifd_desc_len <=? rd (d + ifd_dmap_off_region_base) 1 ifd * 16 + ifd_region_section_size)) eqn:OOB;
    [discriminate|].
  match type of H with context [dec_slots ?n ?b] => set (sl0 := dec_slots n b) in H end.
  injection H as <- <- <- <- <- <-.
  pose proof (rd1_bound (d + ifd_dmap_off_region_base) ifd OKI) as RB.
  pose proof (rd1_bound (d + ifd_dmap_off_master_base) ifd OKI) as MB.
  set (rs := rd (d + ifd_dmap_off_region_base) 1 ifd * 16) in *.
  assert (RS : 0 <= rs /\ rs + 64 <= 4096) by (unfold rs in *; consts; lia).
  set (sec := sub rs ifd_region_section_size ifd).
  assert (LS : zlen sec = 64) by (unfold sec; apply zlen_sub; consts; lia).
  assert (OKS : bytes_ok sec = true) by (apply bytes_ok_sub; auto).
  split; [exact FS|]. split; [lia|]. split; [lia|]. split; [consts; lia|]. split; [consts; lia|].
  split; [unfold sl0; apply dec_slots_length|].
  split; [unfold sl0; apply dec_slots_ok, bytes_ok_zskipn, bytes_ok_sub; auto|].
  change (sub rs 64 ifd) with sec. unfold sl0. fold rs. fold sec.
  change (Z.to_nat ifd_nslots) with 15%nat. change ifd_rsec_off_slots with 4. change ifd_rsec_off_erase with 2.
  rewrite (region_section_roundtrip sec OKS LS) at 1.
  f_equal. unfold sec, sub. change ifd_region_section_size with 64. apply zfirstn_zfirstn. lia.
Qed.

Lemma flash_layout_inv img t : good_img img -> flash_layout img = Ok t ->
  Forall (geo (t_slots t)) (t_regions t) /\
  chain (t_slots t) (t_regions t) ifd_desc_len = Some (t_size t) /\
  fr_valid (slot (t_slots t) ifd_type_bios) = true /\
  t_ifd t = zfirstn ifd_desc_len img /\
  concat (map region_buf (t_regions t)) = zskipn ifd_desc_len img /\
  zlen (t_ifd t) = ifd_desc_len /\ length (t_slots t) = 15%nat /\
  desc_slots t /\ desc_bounds t.
Proof.
  intros (OK & SZ & LT) H. unfold flash_layout, parse_flash_f in H.
  destruct (zlen img <? ifd_desc_len) eqn:TS; [discriminate|].
  set (ifd := sub 0 ifd_desc_len img) in *.
  assert (LI : zlen ifd = 4096) by (unfold ifd; apply zlen_sub; consts; lia).
  assert (OKI : bytes_ok ifd = true) by (apply bytes_ok_sub; auto).
  apply bind_ok in H as ([[[[[dms rs] ms] sl] erase] nr] & D & H).
  destruct (descriptor_of_inv _ _ _ _ _ _ _ OKI LI D) as (DM & R1 & R2 & M1 & M2 & LSL & OSL & DSL).
  destruct (fr_valid (slot sl ifd_type_bios)) eqn:V; cbn [negb] in H; [|discriminate].
  apply bind_ok in H as (regs & PR & H). apply bind_ok in H as (filled & FG & H). injection H as <-.
  pose proof (parse_regions_f_inv img nr sl [] regs LSL OSL PR) as DF. cbn [app] in DF.
  set (sorted := sort_by (fun r => fr_base (region_fr sl r)) regs) in *.
  assert (DS : Forall (declf img sl) sorted) by (apply sort_Forall; auto).
  destruct (fill_gaps_geo img sl sorted 1 filled LT SZ DS ltac:(lia) ltac:(consts; lia) FG)
    as (F1 & F2 & F3).
  cbn [t_slots t_regions t_size t_ifd].
  split; [exact F1|]. split; [exact F2|]. split; [exact V|]. split; [reflexivity|].
  split.
  { rewrite F3. change (1 * 4096) with 4096. consts.
    unfold sub. rewrite <- (zlen_zskipn 4096 img) by lia. apply zfirstn_all. }
  split; [exact LI|]. split; [exact LSL|]. split.
  - unfold desc_slots. cbn [t_rs t_ifd t_erase t_slots]. exact DSL.
  - unfold desc_bounds. cbn [t_dms t_rs t_ms t_dmap t_master t_ifd]. consts.
    repeat split; auto; lia.
Qed.

(* ---- the theorem ---- *)

Section Identity.
Variable bios_save : bytes -> outcome bytes.

Lemma parse_flash_f_agree img :
  (forall B, flash_bios_bytes img = Some B -> bios_save B = Ok B) ->
  parse_flash_f bios_save img = flash_layout img.
Proof.
  intros H. unfold flash_layout, parse_flash_f. unfold flash_bios_bytes in H.
  destruct (zlen img <? ifd_desc_len); auto.
  destruct (descriptor_of (sub 0 ifd_desc_len img)) as [[[[[[dms rs] ms] sl] erase] nr]| | |] eqn:D;
    cbn [bind]; auto.
  destruct (fr_valid (slot sl ifd_type_bios)) eqn:V; cbn [negb] in *; auto.
  assert (NE : exists fr0 rest, sl = fr0 :: rest).
  { unfold descriptor_of in D. apply bind_ok in D as (d & _ & D).
    destruct (_ || _); [discriminate|]. injection D as _ _ _ <- _ _.
    change (Z.to_nat ifd_nslots) with 15%nat. cbn [dec_slots]. eauto. }
  destruct NE as (fr0 & rest & ->). rewrite slot_0 in *.
  rewrite (parse_regions_f_agree bios_save img (zlen img) nr fr0 rest); auto.
  intros _ B1 B2. apply H.
  replace (zlen img <=? base_off fr0) with false by lia.
  replace (zlen img <? end_off fr0) with false by lia. reflexivity.
Qed.

(* saving an unedited flash image reproduces it byte for byte, provided the BIOS region does *)
Theorem flash_save_identity img t0 : good_img img -> flash_layout img = Ok t0 ->
  sections_disjoint t0 -> blank_zero t0 ->
  (forall B, flash_bios_bytes img = Some B -> bios_save B = Ok B) ->
  save_flash bios_save img = Ok img.
Proof.
  intros G L DJ BZ HB. unfold save_flash.
  assert (FS : exists d, find_signature img = Ok d).
  { unfold flash_layout, parse_flash_f in L.
    destruct (zlen img <? ifd_desc_len) eqn:TS; [discriminate|].
    apply bind_ok in L as (d & D & _). unfold descriptor_of in D. apply bind_ok in D as (dms & FS & _).
    unfold find_signature in *.
    assert (LI : zlen (sub 0 ifd_desc_len img) = 4096) by (apply zlen_sub; consts; lia).
    rewrite LI in FS. change (4096 <? 20) with false in FS.
    replace (zlen img <? 20) with false by (consts; lia).
    assert (S16 : sub 16 4 (sub 0 ifd_desc_len img) = sub 16 4 img).
    { unfold sub at 2. change (zskipn 0 img) with img. apply sub_zfirstn; consts; lia. }
    assert (S0 : sub 0 4 (sub 0 ifd_desc_len img) = sub 0 4 img).
    { unfold sub at 2. change (zskipn 0 img) with img. apply sub_zfirstn; consts; lia. }
    rewrite S16, S0 in FS.
    destruct (bytes_eqb (sub 16 4 img) ifd_signature); [eauto|].
    destruct (bytes_eqb (sub 0 4 img) ifd_signature); [eauto|discriminate]. }
  destruct FS as (d & ->).
  rewrite (parse_flash_f_agree img HB), L. cbn [bind].
  destruct (flash_layout_inv img t0 G L) as (F & C & V & EI & EB & LI & LS & DS & DB).
  rewrite (save_nobios _ t0 F C V).
  rewrite (assemble_ifd_unedited t0 (wf_desc_of _ DB DJ) DS BZ LI LS).
  rewrite EI, EB. f_equal. apply zfirstn_zskipn.
Qed.

End Identity.

(* ---- instantiation with the FFS model: BIOS regions of the C01 reference grammar ---- *)
From Fiano Require Import Model.Ffs Model.FfsGrammar Proofs.FfsGrammarProofs.

Section Grammar.
Variable dec : Z -> bytes -> option bytes.
Variable enc : Z -> bytes -> option bytes.
Variable u2s s2u : bytes -> bytes.
Variable nvar : bytes -> option bytes.

Theorem flash_grammar_save_identity img t0 l trail : good_img img -> flash_layout img = Ok t0 ->
  sections_disjoint t0 -> blank_zero t0 ->
  flash_bios_bytes img = Some (emit_region l trail) -> wf_region u2s s2u l trail ->
  exists d0, forall d, (d0 <= d)%nat ->
    save_flash (save_region dec enc u2s s2u nvar d) img = Ok img.
Proof.
  intros G L DJ BZ HB W.
  destruct (grammar_save_identity dec enc u2s s2u nvar l trail W) as [d0 H].
  exists d0. intros d Hd. apply (flash_save_identity _ img t0); auto.
  intros B E. rewrite HB in E. injection E as <-. apply H. exact Hd.
Qed.

End Grammar.
