(* Proofs/NvarCodecProofs.v — the transcription of golang.org/x/text's UTF-16LE
   transformer (dec16_impl / enc16_impl in Model/Nvar.v) satisfies the two
   hypotheses the NVAR theorems make about the transformer (property C10). *)
From Fiano Require Import Base.Bytes Base.BytesLemmas Gen.Consts Model.Nvar Proofs.NvarProofs.
From Coq Require Import ZifyBool ZifyNat.
Open Scope Z_scope.

Definition bmp_unit (x : Z) : Prop := 0 < x < 65536 /\ is_surr x = false.

Lemma utf8_enc_nonzero x : bmp_unit x -> Forall (fun b => b <> 0) (utf8_enc x).
Proof.
  intros [Hx _]. unfold utf8_enc.
  destruct (x <? 128) eqn:E1; [repeat constructor; lia|].
  destruct (x <? 2048) eqn:E2.
  - assert (0 <= x / 64) by (apply Z.div_pos; lia). assert (0 <= x mod 64) by (apply Z.mod_pos_bound; lia).
    repeat constructor; lia.
  - replace (x <? 65536) with true by lia.
    assert (0 <= x / 4096) by (apply Z.div_pos; lia).
    assert (0 <= (x / 64) mod 64) by (apply Z.mod_pos_bound; lia).
    assert (0 <= x mod 64) by (apply Z.mod_pos_bound; lia).
    repeat constructor; lia.
Qed.

Lemma utf8_dec_enc x rest : bmp_unit x ->
  utf8_dec (utf8_enc x ++ rest) = (x, zlen (utf8_enc x)).
Proof.
  intros [Hx Hs]. unfold is_surr in Hs. unfold utf8_enc.
  destruct (x <? 128) eqn:E1.
  - cbn [app utf8_dec]. rewrite E1. reflexivity.
  - destruct (x <? 2048) eqn:E2.
    + pose proof (Z.div_mod x 64 ltac:(lia)) as DM. pose proof (Z.mod_pos_bound x 64 ltac:(lia)) as MB.
      set (q := x / 64) in *. set (r := x mod 64) in *.
      assert (Hq : 2 <= q <= 31) by lia.
      cbn [app utf8_dec].
      replace (192 + q <? 128) with false by lia.
      replace (192 + q <? 194) with false by lia. replace (192 + q <? 224) with true by lia.
      change (2 =? 0) with false. cbv iota.
      rewrite !zlen_cons. pose proof (zlen_nonneg rest).
      replace (1 + (1 + zlen rest) <? 2) with false by lia.
      replace ((128 + r <? 128) || (191 <? 128 + r)) with false by lia.
      change (2 =? 2) with true. cbv iota.
      replace ((192 + q) mod 32) with q.
      2:{ replace (192 + q) with (q + 6 * 32) by lia. rewrite Z.mod_add by lia. symmetry. apply Z.mod_small. lia. }
      replace ((128 + r) mod 64) with r.
      2:{ replace (128 + r) with (r + 2 * 64) by lia. rewrite Z.mod_add by lia. symmetry. apply Z.mod_small. lia. }
      f_equal; try reflexivity; lia.
    + replace (x <? 65536) with true by lia.
      pose proof (Z.div_mod x 64 ltac:(lia)) as DM. pose proof (Z.mod_pos_bound x 64 ltac:(lia)) as MB.
      set (q := x / 64) in *. set (r := x mod 64) in *.
      pose proof (Z.div_mod q 64 ltac:(lia)) as DM2. pose proof (Z.mod_pos_bound q 64 ltac:(lia)) as MB2.
      assert (Eq4 : x / 4096 = q / 64).
      { unfold q. rewrite Z.div_div by lia. reflexivity. }
      rewrite Eq4. set (t := q / 64) in *. set (m := q mod 64) in *.
      assert (Ht : 0 <= t <= 15) by lia.
      cbn [app utf8_dec].
      replace (224 + t <? 128) with false by lia.
      replace (224 + t <? 194) with false by lia. replace (224 + t <? 224) with false by lia.
      rewrite !zlen_cons. pose proof (zlen_nonneg rest).
      assert (R3 : (224 + t) mod 16 = t).
      { replace (224 + t) with (t + 14 * 16) by lia. rewrite Z.mod_add by lia. apply Z.mod_small. lia. }
      assert (R2 : (128 + m) mod 64 = m).
      { replace (128 + m) with (m + 2 * 64) by lia. rewrite Z.mod_add by lia. apply Z.mod_small. lia. }
      assert (R1 : (128 + r) mod 64 = r).
      { replace (128 + r) with (r + 2 * 64) by lia. rewrite Z.mod_add by lia. apply Z.mod_small. lia. }
      assert (C2 : cont_ok (128 + r) = true) by (unfold cont_ok; lia).
      destruct (224 + t =? 224) eqn:T0.
      * change (3 =? 0) with false. cbv iota.
        replace (1 + (1 + (1 + zlen rest)) <? 3) with false by lia.
        replace ((128 + m <? 160) || (191 <? 128 + m)) with false by lia.
        change (3 =? 2) with false. cbv iota. rewrite C2. cbn [negb].
        change (3 =? 3) with true. cbv iota. rewrite R1, R2, R3. f_equal; try reflexivity; lia.
      * destruct (224 + t =? 237) eqn:T1.
        -- change (3 =? 0) with false. cbv iota.
           replace (1 + (1 + (1 + zlen rest)) <? 3) with false by lia.
           replace ((128 + m <? 128) || (159 <? 128 + m)) with false by lia.
           change (3 =? 2) with false. cbv iota. rewrite C2. cbn [negb].
           change (3 =? 3) with true. cbv iota. rewrite R1, R2, R3. f_equal; try reflexivity; lia.
        -- replace (224 + t <? 240) with true by lia.
           change (3 =? 0) with false. cbv iota.
           replace (1 + (1 + (1 + zlen rest)) <? 3) with false by lia.
           replace ((128 + m <? 128) || (191 <? 128 + m)) with false by lia.
           change (3 =? 2) with false. cbv iota. rewrite C2. cbn [negb].
           change (3 =? 3) with true. cbv iota. rewrite R1, R2, R3. f_equal; try reflexivity; lia.
Qed.

Lemma bmp_ok_unit lo hi r : bmp_ok (lo :: hi :: r) = true ->
  bmp_unit (lo + 256 * hi) /\ 0 <= lo < 256 /\ 0 <= hi < 256 /\ bmp_ok r = true.
Proof.
  intros H. apply bmp_ok_cons2 in H as (Hl & Hh & Hn & Hs & Hr).
  unfold bmp_unit. repeat split; auto; lia.
Qed.

Lemma dec16_impl_cons lo hi r : is_surr (lo + 256 * hi) = false ->
  dec16_impl (lo :: hi :: r) = utf8_enc (lo + 256 * hi) ++ dec16_impl r.
Proof. intros H. cbn [dec16_impl]. rewrite H. reflexivity. Qed.

Lemma dec16_impl_nonzero u : bmp_ok u = true -> Forall (fun b => b <> 0) (dec16_impl u).
Proof.
  induction u as [| x | lo hi r IH] using list_pair_ind; intros H.
  - constructor.
  - discriminate.
  - apply bmp_ok_unit in H as (U & _ & _ & Hr).
    rewrite dec16_impl_cons by apply U. apply Forall_app. split; [apply utf8_enc_nonzero; exact U|auto].
Qed.

Theorem codec_nz_impl : forall u, bmp_ok u = true ->
  match last_byte (dec16_impl u) with Some l => l <> 0 | None => True end.
Proof.
  intros u H. pose proof (dec16_impl_nonzero u H) as F. unfold last_byte.
  destruct (rev (dec16_impl u)) as [|l t] eqn:E; [exact I|].
  rewrite Forall_forall in F. apply F. apply in_rev. rewrite E. left. reflexivity.
Qed.

Lemma utf8_enc_length x : bmp_unit x -> (1 <= length (utf8_enc x))%nat.
Proof.
  intros _. unfold utf8_enc. destruct (x <? 128); [simpl; lia|].
  destruct (x <? 2048); [simpl; lia|]. destruct (x <? 65536); simpl; lia.
Qed.

Lemma enc16_fuel_bmp u : bmp_ok u = true -> forall fuel,
  (length (dec16_impl u ++ [0%Z]) <= fuel)%nat ->
  enc16_fuel fuel (dec16_impl u ++ [0]) = u ++ [0; 0].
Proof.
  induction u as [| x | lo hi r IH] using list_pair_ind; intros H fuel Hf.
  - cbn in Hf. destruct fuel as [|f]; [lia|]. cbn [dec16_impl app enc16_fuel].
    change (utf8_dec [0]) with (0, 1). cbn iota.
    replace (0 <=? 65535) with true by reflexivity. cbn [le16 app].
    change (zskipn 1 [0]) with (@nil Z). destruct f; reflexivity.
  - discriminate.
  - apply bmp_ok_unit in H as (U & Hl & Hh & Hr).
    rewrite dec16_impl_cons in * by apply U.
    set (x := lo + 256 * hi) in *.
    pose proof (utf8_enc_length x U) as L1.
    rewrite <- app_assoc in *. rewrite app_length in Hf.
    destruct fuel as [|f]; [lia|]. cbn [enc16_fuel].
    destruct (utf8_enc x ++ dec16_impl r ++ [0]) as [|b0 t] eqn:E.
    { destruct (utf8_enc x); [simpl in L1; lia|discriminate]. }
    rewrite <- E. rewrite utf8_dec_enc by exact U.
    destruct U as [Ux Us].
    replace (x <=? 65535) with true by lia.
    rewrite zskipn_app_exact.
    rewrite IH by (auto; lia).
    unfold le16. unfold x.
    replace ((lo + 256 * hi) mod 256) with lo.
    2:{ replace (lo + 256 * hi) with (lo + hi * 256) by lia. rewrite Z.mod_add by lia. symmetry. apply Z.mod_small. lia. }
    replace ((lo + 256 * hi) / 256) with hi.
    2:{ replace (lo + 256 * hi) with (lo + hi * 256) by lia. rewrite Z.div_add by lia.
        rewrite Z.div_small by lia. lia. }
    reflexivity.
Qed.

Theorem codec_rt_impl : forall u, bmp_ok u = true -> enc16_impl (dec16_impl u ++ [0]) = u ++ [0; 0].
Proof. intros u H. unfold enc16_impl. apply enc16_fuel_bmp; auto. Qed.
