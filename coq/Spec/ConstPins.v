(* Spec/ConstPins.v — GENERATED ONCE by bin/mkpins and committed; see the script's header.
   Every lemma is closed by computation: the regenerated constant and the pinned literal are
   compared by reflexivity. *)
From Coq Require Import ZArith List String.
Import ListNotations.
From Fiano Require Import Gen.Consts.
Open Scope Z_scope.

Definition pinned_c02 : Prop :=
  section_type_pe32 = (16 : Z) /\
  section_type_ui = (21 : Z) /\
  section_type_fvimage = (23 : Z) /\
  fv_filetype_dxecore = (5 : Z) /\
  file_header_ext_min_length = (32 : Z) /\
  file_state_valid = (7 : Z).

Lemma pins_c02 : pinned_c02.
Proof. unfold pinned_c02. repeat split; reflexivity. Qed.

Definition pinned_c08 : Prop :=
  zlib_header_size = (256 : Z) /\
  zlib_size_offset = (20 : Z).

Lemma pins_c08 : pinned_c08.
Proof. unfold pinned_c08. repeat split; reflexivity. Qed.

Definition pinned_c09 : Prop :=
  c09_fv_fixed_header_size = (56 : Z) /\
  c09_fv_min_size = (64 : Z) /\
  c09_file_header_min = (24 : Z) /\
  c09_file_header_ext_min = (32 : Z) /\
  c09_section_ext_min = (8 : Z) /\
  c09_empty_body_checksum = (170 : Z) /\
  c09_fv_signature = (1213613663 : Z) /\
  c09_fv_guids = ([[36; 70; 80; 0; 89; 138; 235; 78; 189; 15; 107; 54; 233; 97; 40; 224]; [120; 229; 140; 140; 61; 138; 28; 79; 153; 53; 137; 97; 133; 195; 45; 211]; [122; 192; 115; 84; 203; 61; 202; 77; 189; 111; 30; 150; 137; 231; 52; 154]; [141; 43; 241; 255; 150; 118; 139; 76; 169; 133; 39; 71; 7; 91; 79; 80]; [162; 93; 180; 22; 112; 125; 234; 74; 165; 141; 118; 14; 158; 203; 132; 29]; [163; 185; 245; 206; 109; 71; 127; 73; 159; 220; 233; 129; 67; 224; 66; 44]; [173; 238; 173; 4; 255; 97; 49; 77; 182; 186; 100; 248; 191; 144; 31; 90]; [186; 189; 96; 227; 206; 195; 190; 70; 143; 55; 178; 49; 229; 203; 159; 53]; [217; 84; 147; 122; 104; 4; 74; 68; 129; 206; 11; 246; 23; 216; 144; 223]] : list (list Z)).

Lemma pins_c09 : pinned_c09.
Proof. unfold pinned_c09. repeat split; reflexivity. Qed.

Definition pinned_c10 : Prop :=
  nvar_signature = ([78; 86; 65; 82] : list Z) /\
  nvar_header_size = (10 : Z) /\
  nvar_guid_size = (16 : Z) /\
  nvar_attr_runtime = (1 : Z) /\
  nvar_attr_ascii = (2 : Z) /\
  nvar_attr_guid = (4 : Z) /\
  nvar_attr_dataonly = (8 : Z) /\
  nvar_attr_ext = (16 : Z) /\
  nvar_attr_hwerr = (32 : Z) /\
  nvar_attr_auth = (64 : Z) /\
  nvar_attr_valid = (128 : Z) /\
  nvar_ext_checksum = (1 : Z) /\
  nvar_type_invalid = (0 : Z) /\
  nvar_type_invalid_link = (1 : Z) /\
  nvar_type_link = (2 : Z) /\
  nvar_type_data = (3 : Z) /\
  nvar_type_full = (4 : Z).

Lemma pins_c10 : pinned_c10.
Proof. unfold pinned_c10. repeat split; reflexivity. Qed.

Definition pinned_c11 : Prop :=
  fv_filetype_peim = (6 : Z) /\
  fv_filetype_driver = (7 : Z) /\
  fv_filetype_pad = (240 : Z) /\
  file_header_min_length = (24 : Z) /\
  ff_guid = (340282366920938463463374607431768211455 : Z) /\
  zero_guid = (0 : Z).

Lemma pins_c11 : pinned_c11.
Proof. unfold pinned_c11. repeat split; reflexivity. Qed.

Definition pinned_c12 : Prop :=
  ifd_signature = ([90; 165; 240; 15] : list Z) /\
  ifd_desc_len = (4096 : Z) /\
  ifd_block = (4096 : Z) /\
  ifd_dmap_size = (16 : Z) /\
  ifd_region_section_size = (64 : Z) /\
  ifd_region_section_binsize = (64 : Z) /\
  ifd_master_size = (12 : Z) /\
  ifd_master_binsize = (12 : Z) /\
  ifd_nslots = (15 : Z) /\
  ifd_type_bios = (0 : Z) /\
  ifd_type_me = (1 : Z) /\
  ifd_dmap_off_region_base = (2 : Z) /\
  ifd_dmap_off_nregions = (3 : Z) /\
  ifd_dmap_off_master_base = (4 : Z) /\
  ifd_rsec_off_erase = (2 : Z) /\
  ifd_rsec_off_slots = (4 : Z) /\
  ifd_slot_size = (4 : Z) /\
  mefpt_signature = ([36; 70; 80; 84] : list Z) /\
  mefpt_min_len = (28 : Z) /\
  mefpt_entry_len = (32 : Z) /\
  mefpt_entry_binsize = (32 : Z) /\
  mefpt_off_offset = (8 : Z) /\
  mefpt_off_length = (12 : Z) /\
  fvh_fixed_size = (56 : Z) /\
  fvh_min_size = (64 : Z) /\
  fvh_off_guid = (16 : Z) /\
  fvh_off_length = (32 : Z) /\
  fvh_off_attributes = (44 : Z) /\
  fvh_ffs2 = ([120; 229; 140; 140; 61; 138; 28; 79; 153; 53; 137; 97; 133; 195; 45; 211] : list Z) /\
  fvh_ffs3 = ([122; 192; 115; 84; 203; 61; 202; 77; 189; 111; 30; 150; 137; 231; 52; 154] : list Z) /\
  erase_polarity_poison = (240 : Z).

Lemma pins_c12 : pinned_c12.
Proof. unfold pinned_c12. repeat split; reflexivity. Qed.

Definition pinned_c13 : Prop :=
  fmap_signature = ([95; 95; 70; 77; 65; 80; 95; 95] : list Z) /\
  fmap_header_size = (56 : Z) /\
  fmap_area_size = (42 : Z) /\
  fmap_area_static = (1 : Z).

Lemma pins_c13 : pinned_c13.
Proof. unfold pinned_c13. repeat split; reflexivity. Qed.

Definition pinned_c14 : Prop :=
  fit_base_phys_addr = (4294967296 : Z) /\
  fit_pointer_offset = (64 : Z) /\
  fit_pointer_size = (16 : Z) /\
  fit_headers_magic = ([95; 70; 73; 84; 95; 32; 32; 32] : list Z) /\
  fit_entry_headers_size = (16 : Z) /\
  fit_sacm_size_offset = (24 : Z) /\
  fit_type_fit_header = (0 : Z) /\
  fit_type_microcode = (1 : Z) /\
  fit_type_sacm = (2 : Z) /\
  fit_type_diagnostic_acm = (3 : Z) /\
  fit_type_bios_startup = (7 : Z) /\
  fit_type_tpm_policy = (8 : Z) /\
  fit_type_bios_policy = (9 : Z) /\
  fit_type_txt_policy = (10 : Z) /\
  fit_type_key_manifest = (11 : Z) /\
  fit_type_boot_policy = (12 : Z) /\
  fit_type_cse_secure_boot = (16 : Z) /\
  fit_type_feature_policy = (45 : Z) /\
  fit_type_jmp_debug_policy = (47 : Z) /\
  fit_type_skip = (127 : Z) /\
  fit_all_entry_types = ([0; 1; 2; 3; 7; 8; 9; 10; 11; 12; 16; 45; 47; 127] : list Z).

Lemma pins_c14 : pinned_c14.
Proof. unfold pinned_c14. repeat split; reflexivity. Qed.

Definition pinned_c16 : Prop :=
  c16_alg_rsa = (1 : Z) /\
  c16_alg_sha1 = (4 : Z) /\
  c16_alg_sha256 = (11 : Z) /\
  c16_alg_sha384 = (12 : Z) /\
  c16_alg_sha512 = (13 : Z) /\
  c16_alg_null = (16 : Z) /\
  c16_alg_sm3 = (18 : Z) /\
  c16_alg_rsassa = (20 : Z) /\
  c16_alg_rsapss = (22 : Z) /\
  c16_alg_ecdsa = (24 : Z) /\
  c16_alg_sm2 = (27 : Z) /\
  c16_alg_ecc = (35 : Z) /\
  c16_bg_alg_rsa = (1 : Z) /\
  c16_bg_alg_rsassa = (20 : Z) /\
  c16_cbnt_hash_ids = ([4; 11; 12; 13; 18] : list Z) /\
  c16_cbnt_hash_sizes = ([20; 32; 48; 64; 32] : list Z) /\
  c16_bg_hash_ids = ([4; 11] : list Z) /\
  c16_bg_hash_sizes = ([20; 32] : list Z) /\
  c16_usage_bpm_signing = (1 : Z) /\
  c16_psp_hdr_wire = (208 : Z) /\
  c16_psp_off_SizeSigned = (20 : Z) /\
  c16_psp_off_SignatureParameters = (56 : Z) /\
  c16_psp_off_CompressionOptions = (72 : Z) /\
  c16_psp_off_CompressedImageSize = (84 : Z) /\
  c16_psp_off_SizeImage = (108 : Z) /\
  c16_psb_usage_psb_sign_bios = (8 : Z).

Lemma pins_c16 : pinned_c16.
Proof. unfold pinned_c16. repeat split; reflexivity. Qed.

Definition pinned_c17 : Prop :=
  amd_efs_signature = (1437226410 : Z) /\
  amd_efs_size = (74 : Z) /\
  amd_psp_cookie = (1347637284 : Z) /\
  amd_psp_l2_cookie = (843862052 : Z) /\
  amd_bios_cookie = (1145586212 : Z) /\
  amd_bios_l2_cookie = (843858468 : Z) /\
  amd_psp_header_size = (16 : Z) /\
  amd_bios_header_size = (16 : Z) /\
  amd_psp_entry_size_const = (16 : Z) /\
  amd_bios_entry_size_const = (16 : Z) /\
  amd_psp_l2_entry_type = (64 : Z) /\
  amd_bios_l2_entry_type = (112 : Z) /\
  amd_oem_signing_key_entry = (5 : Z) /\
  amd_psb_sign_bios = (8 : Z) /\
  amd_psp_cookie_bytes = ([36; 80; 83; 80] : list Z) /\
  amd_bios_cookie_bytes = ([36; 66; 72; 68] : list Z).

Lemma pins_c17 : pinned_c17.
Proof. unfold pinned_c17. repeat split; reflexivity. Qed.

Definition pinned_c18 : Prop :=
  apcb_sig_v2 = (1111707713 : Z) /\
  apcb_sig_v3 = (843203397 : Z) /\
  apcb_sig_end = (1094861634 : Z) /\
  apcb_sig_token_group = (1313558356 : Z) /\
  apcb_tokens_group_id = (12288 : Z) /\
  apcb_type_bool = (0 : Z) /\
  apcb_type_1byte = (1 : Z) /\
  apcb_type_2bytes = (2 : Z) /\
  apcb_type_4bytes = (4 : Z) /\
  apcb_ctx_token_v3 = (2 : Z) /\
  apcb_fmt_sort_asc = (1 : Z) /\
  apcb_hdr_size = (128 : Z) /\
  apcb_hdr_off_sig = (0 : Z) /\
  apcb_hdr_off_size = (8 : Z) /\
  apcb_hdr_off_sig2 = (32 : Z) /\
  apcb_hdr_off_sigend = (124 : Z) /\
  apcb_grp_size = (16 : Z) /\
  apcb_grp_off_sig = (0 : Z) /\
  apcb_grp_off_id = (4 : Z) /\
  apcb_grp_off_hsize = (6 : Z) /\
  apcb_grp_off_version = (8 : Z) /\
  apcb_grp_off_size = (12 : Z) /\
  apcb_typ_size = (16 : Z) /\
  apcb_typ_off_gid = (0 : Z) /\
  apcb_typ_off_tid = (2 : Z) /\
  apcb_typ_off_size = (4 : Z) /\
  apcb_typ_off_inst = (6 : Z) /\
  apcb_typ_off_ctx = (8 : Z) /\
  apcb_typ_off_fmt = (9 : Z) /\
  apcb_typ_off_unit = (10 : Z) /\
  apcb_typ_off_prio = (11 : Z) /\
  apcb_typ_off_keysize = (12 : Z) /\
  apcb_typ_off_keypos = (13 : Z) /\
  apcb_typ_off_board = (14 : Z) /\
  apcb_pair_size = (8 : Z) /\
  apcb_pair_off_id = (0 : Z) /\
  apcb_pair_off_value = (4 : Z).

Lemma pins_c18 : pinned_c18.
Proof. unfold pinned_c18. repeat split; reflexivity. Qed.

Definition pinned_c19 : Prop :=
  cbfs_file_magic = ([76; 65; 82; 67; 72; 73; 86; 69] : list Z) /\
  cbfs_file_header_size = (24 : Z) /\
  cbfs_attr_header_size = (8 : Z) /\
  cbfs_attr_compression_size = (16 : Z) /\
  cbfs_stage_header_size = (28 : Z) /\
  cbfs_payload_header_size = (28 : Z) /\
  cbfs_type_deleted = (0 : Z) /\
  cbfs_type_deleted2 = (4294967295 : Z) /\
  cbfs_type_legacy_stage = (16 : Z) /\
  cbfs_type_self = (32 : Z) /\
  cbfs_tag_unused = (0 : Z) /\
  cbfs_tag_unused2 = (4294967295 : Z) /\
  cbfs_tag_compressed = (1111710284 : Z) /\
  cbfs_seg_entry = (1162761298 : Z) /\
  cbfs_comp_none = (0 : Z) /\
  cbfs_comp_lzma = (1 : Z) /\
  cbfs_comp_lz4 = (2 : Z) /\
  cbfs_registered_types = ([0; 1; 2; 16; 17; 32; 48; 64; 80; 83; 96; 170; 171; 426; 4294967295] : list Z).

Lemma pins_c19 : pinned_c19.
Proof. unfold pinned_c19. repeat split; reflexivity. Qed.

Definition pinned_c20 : Prop :=
  mc_header_size = (48 : Z) /\
  mc_default_datasize = (2000 : Z) /\
  mc_default_totalsize = (2048 : Z) /\
  mc_ext_table_size = (20 : Z) /\
  mc_ext_sig_size = (12 : Z) /\
  me_signature = ([36; 70; 80; 84] : list Z) /\
  me_entry_size = (32 : Z) /\
  fsp_signature = ([70; 83; 80; 72] : list Z) /\
  fsp_fixed_len = (12 : Z) /\
  fsp_v3_len = (72 : Z) /\
  fsp_v4_len = (72 : Z) /\
  fsp_v5_len = (76 : Z) /\
  fsp_v6_len = (80 : Z) /\
  fsp_spec_current = (32 : Z) /\
  fsp_spec_unsupported = (48 : Z) /\
  fsp_min_rev = (3 : Z) /\
  fsp_max_rev = (6 : Z) /\
  fsp_rev3_wire = (72 : Z) /\
  fsp_rev5_wire = (76 : Z) /\
  fsp_rev6_wire = (80 : Z).

Lemma pins_c20 : pinned_c20.
Proof. unfold pinned_c20. repeat split; reflexivity. Qed.

