(* Model/FlashImage.v — uefi.Parse followed by visitors.Save (Assemble) for the Intel flash image
   entry shape, with the BIOS region delegated.

   Everything about the descriptor, the region list, the ME / raw / gap regions and the
   FlashDescriptor / FlashImage cases of Assemble is Model/TightenMe.v (property C12: see its
   header for the Go functions transcribed).  The only difference is the BIOS region: there it
   is a list of paddings and opaque volumes; here NewBIOSRegion followed by Assemble of the BIOS
   region is the parameter

       bios_save : bytes -> outcome bytes        (region bytes -> assembled region bytes)

   instantiated by Model/Ffs.v's [save_region] (real FFS volumes, property C01).  In the tree
   the BIOS region is therefore an element carrying the bytes [bios_save] returned; it is
   represented as [RRaw ifd_type_bios b] (FRegion = &slots[0], like the Go BIOSRegion).

   Why the delegation is faithful:
   * NewFlashImage parses regions in slot order and the BIOS region is slot 0, so NewBIOSRegion
     starts from the poisoned erase polarity exactly like a bare region; no other region
     constructor touches the polarity; Assemble calls SetErasePolarity only for firmware volumes
     and in the BIOSRegion case (checked in pkg/visitors/assemble.go), with the polarity the
     parse left — which is what [save_region] threads; Assemble.useFFS3 is false on entry of the
     BIOS region and reset by every volume.
   * Assemble's BIOSRegion case always produces a buffer of the region's length.
   Difference that is NOT modelled: the order of errors.  In Go a BIOS region that parses but
   cannot be assembled fails during Save, after the parse-time checks of the other regions
   (overlap ...); here [bios_save] fails at the position of NewBIOSRegion.  Both are errors;
   the executor compares the class ok / err / panic only.

   [save_flash] also covers the other entry shape of uefi.Parse: an image without flash
   signature is one BIOS region. *)
From Fiano Require Import Base.Bytes Gen.Consts Model.TightenMe.
Open Scope Z_scope.

Section FlashSave.
Variable bios_save : bytes -> outcome bytes.

(* the loop of NewFlashImage over FlashRegions (cf. TightenMe.parse_regions) *)
Fixpoint parse_regions_f (img : bytes) (size nr : Z) (frs : list fregion) (i : Z) : outcome (list region) :=
  match frs with
  | [] => Ok []
  | fr :: rest =>
    if negb (nr =? 0) && (nr <=? i) then Ok [] else
    if negb (fr_valid fr) then parse_regions_f img size nr rest (i + 1) else
    if size <=? base_off fr then parse_regions_f img size nr rest (i + 1) else
    if size <? end_off fr then parse_regions_f img size nr rest (i + 1) else
    let buf := sub (base_off fr) (end_off fr - base_off fr) img in
    do r <- (if i =? ifd_type_bios then do b <- bios_save buf; Ok (RRaw ifd_type_bios b)
             else if i =? ifd_type_me then Ok (me_region buf)
             else Ok (RRaw i buf));
    do more <- parse_regions_f img size nr rest (i + 1);
    Ok (r :: more)
  end.

(* the decoded descriptor: (dms, rs, ms, slots, erase, nr) *)
Definition descriptor_of (ifd : bytes) : outcome (Z * Z * Z * list fregion * Z * Z) :=
  do dms <- find_signature ifd;
  let rs := rd (dms + ifd_dmap_off_region_base) 1 ifd * 16 in
  if (ifd_desc_len <=? rs) || (ifd_desc_len <=? rs + ifd_region_section_size) then Err E_REGION_OOB else
  let sec := sub rs ifd_region_section_size ifd in
  let erase := rd ifd_rsec_off_erase 2 sec in
  let sl := dec_slots (Z.to_nat ifd_nslots) (zskipn ifd_rsec_off_slots sec) in
  let ms := rd (dms + ifd_dmap_off_master_base) 1 ifd * 16 in
  let nr := rd (dms + ifd_dmap_off_nregions) 1 ifd in
  Ok (dms, rs, ms, sl, erase, nr).

(* NewFlashImage (cf. TightenMe.parse_flash) *)
Definition parse_flash_f (img : bytes) : outcome tree :=
  if zlen img <? ifd_desc_len then Err E_TOOSHORT else
  let size := zlen img in
  let ifd := sub 0 ifd_desc_len img in
  do d <- descriptor_of ifd;
  let '(dms, rs, ms, sl, erase, nr) := d in
  if negb (fr_valid (slot sl ifd_type_bios)) then Err E_NOBIOS else
  do regs <- parse_regions_f img size nr sl 0;
  let sorted := sort_by (fun r => fr_base (region_fr sl r)) regs in
  do filled <- fill_gaps img size sl sorted ifd_desc_len;
  Ok (mkTree ifd dms rs ms (sub dms ifd_dmap_size ifd) erase sl (sub ms ifd_master_size ifd) filled size).

(* uefi.Parse, then Assemble, then the top-level buffer.  [TightenMe.save] is Assemble for the
   flash image; the tree holds no [RBios] node, so its polarity argument is not used. *)
Definition save_flash (img : bytes) : outcome bytes :=
  match find_signature img with
  | Ok _ => do t <- parse_flash_f img; save erase_polarity_poison t
  | _ => bios_save img
  end.

End FlashSave.

(* ---- specification side ---- *)

(* the flash layout of an image: what NewFlashImage builds when the BIOS region is kept as is *)
Definition flash_layout (img : bytes) : outcome tree := parse_flash_f (fun b => Ok b) img.

(* the bytes handed to NewBIOSRegion (None: not a flash image, or the BIOS slot lies outside) *)
Definition flash_bios_bytes (img : bytes) : option bytes :=
  if zlen img <? ifd_desc_len then None else
  match descriptor_of (sub 0 ifd_desc_len img) with
  | Ok (_, _, _, sl, _, _) =>
    let fr := slot sl ifd_type_bios in
    if negb (fr_valid fr) then None else
    if zlen img <=? base_off fr then None else
    if zlen img <? end_off fr then None else
    Some (sub (base_off fr) (end_off fr - base_off fr) img)
  | _ => None
  end.
