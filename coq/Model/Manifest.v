(* Model/Manifest.v — generic codec of the Boot Guard / CBnT manifest structures
   (pkg/intel/metadata/bg/... and pkg/intel/metadata/cbnt/...).

   The Go code is 32 generated files ( <x>_manifestcodegen.go ; generator
   pkg/intel/metadata/common/manifestcodegen) that all instantiate one template
   over the hand-written struct declarations and their field tags.  The model is
   therefore ONE codec, generic over a deep-embedded [schema]; the schemas
   themselves (and the IR of what the generated bodies do, see
   Model/ManifestIR.v) are regenerated from the Go source on every run into
   Gen/ManifestCodecs.v by translator/C15.sh.

   Transcribed from the template (cmd/manifestcodegen/template_methods.tpl.go):
     ReadFrom / ReadDataFrom   -> [dec_s] / [dec_f]     (any error = None)
     WriteTo                   -> [write] = [rehash] then [enc_s] / [enc_f]
     <F>TotalSize / TotalSize  -> [size_f] / [size_s]
     <F>Offset                 -> [offset_s]
     Rehash (tags rehashValue, var0, var1; nested WriteTo calls rehash the
             sub-structures)   -> [apply_rh] / [rehash_s] / [rehash]
     container ReadFrom (StructInfo headers until end of stream, dispatch on the
       structure ID, order / multiplicity / missing checks), WriteTo, Rehash
       (rehashedBPMH)          -> [cdec_loop] / [cread], [cwrite], [capply_rh]
   countValue tags are count expressions [cexpr] over the fields decoded before
   the blob (translated from keyDataSize, BitSize.InBytes, hashSize, ...).
   binary.Read on a short stream is an error (io.EOF / io.ErrUnexpectedEOF);
   a zero-length read succeeds at end of stream (as io.ReadFull does); writes to
   the in-memory writer never fail.  uintN(len(x)) truncation is modelled by
   [le_enc] (mod 256^n), uint16(s.TotalSize()) by [mod wmax].
   Not modelled: Validate, New<S> (default/require values), RehashRecursive,
   PrettyString, JSON, Print, signature creation/verification, error messages
   (one error class), reading into a receiver that is not the zero value. *)
From Fiano Require Import Base.Bytes.
Open Scope Z_scope.

(* field and structure names: the ASCII codes of the Go identifier (Coq's [string]
   is avoided so that the extracted OCaml does not shadow OCaml's own string type) *)
Definition fname := bytes.
Definition name_eqb : fname -> fname -> bool := bytes_eqb.

(* ---- count expressions (tag countValue): evaluated on the fields of the
   enclosing structure that were decoded before the blob ---- *)
Inductive cexpr :=
| CConst (z : Z)
| CField (i : nat)                       (* integer field i of the enclosing struct *)
| CAdd (a b : cexpr)
| CMul (a b : cexpr)
| CShr (a : cexpr) (k : Z)
| CWrap (bits : Z) (a : cexpr)           (* Go conversion uintN(a) *)
| CIfEq (a : cexpr) (k : Z) (t e : cexpr).  (* if a == k then t else e *)

(* ---- rehash expressions (tags rehashValue / var0 / var1) ---- *)
Inductive rexpr :=
| XConst (z : Z)
| XTotalSize                             (* s.TotalSize() *)
| XOffsetOf (i : nat).                   (* s.<Field i>Offset() *)

(* s.<path> = uintW(expr): path = field index, then index inside that field
   (promoted fields of the embedded StructInfo) *)
Record rhassign := mkRh { rh_path : list nat; rh_width : nat; rh_expr : rexpr }.
Definition rhspec := list rhassign.

(* ---- schema: the struct declaration with its tags ---- *)
Inductive schema :=
| SNil
| SCons (name : fname) (t : fty) (rest : schema)
with fty :=
| FInt (w : nat)                          (* uintN / named basic type, little endian *)
| FArr (n : nat)                          (* [n]byte *)
| FSub (s : schema) (rh : rhspec)         (* sub-structure (also the embedded StructInfo) *)
| FList (cw : nat) (s : schema) (rh : rhspec)   (* countType count, then the items *)
| FListInt (cw w : nat)                   (* list of a named basic type *)
| FBytesP (cw : nat)                      (* countType size, then the bytes *)
| FBytesC (cw : nat) (e : cexpr).         (* size := countType(s.<countValue>), no prefix *)

Scheme schema_mind := Induction for schema Sort Prop
  with fty_mind := Induction for fty Sort Prop.
Combined Scheme schema_fty_ind from schema_mind, fty_mind.

Record sdesc := mkSdesc { sd_schema : schema; sd_rh : rhspec }.

(* ---- values: untyped trees; a struct is the cons-list of its fields, a list
   is the cons-list of its items ---- *)
Inductive value :=
| VInt (z : Z)
| VBytes (b : bytes)
| VNil
| VCons (hd tl : value).

Fixpoint vlen (v : value) : Z :=
  match v with VCons _ tl => 1 + vlen tl | _ => 0 end.

Fixpoint vnth (v : value) (i : nat) : option value :=
  match v, i with
  | VCons x _, O => Some x
  | VCons _ xs, S k => vnth xs k
  | _, _ => None
  end.

Fixpoint vset (v : value) (i : nat) (y : value) : value :=
  match v, i with
  | VCons _ xs, O => VCons y xs
  | VCons x xs, S k => VCons x (vset xs k y)
  | _, _ => v
  end.

Definition wmax (w : nat) : Z := 256 ^ Z.of_nat w.

Definition env := list value.   (* the fields of the enclosing struct decoded so far *)

Fixpoint ceval (e : cexpr) (en : env) : Z :=
  match e with
  | CConst z => z
  | CField i => match nth_error en i with Some (VInt z) => z | _ => 0 end
  | CAdd a b => ceval a en + ceval b en
  | CMul a b => ceval a en * ceval b en
  | CShr a k => Z.shiftr (ceval a en) k
  | CWrap bits a => (ceval a en) mod 2 ^ bits
  | CIfEq a k t e' => if ceval a en =? k then ceval t en else ceval e' en
  end.

(* ---- WriteTo (without the Rehash) ---- *)
Fixpoint enc_s (s : schema) (v : value) {struct s} : bytes :=
  match s, v with
  | SCons _ t rest, VCons x xs => enc_f t x ++ enc_s rest xs
  | _, _ => []
  end
with enc_f (t : fty) (v : value) {struct t} : bytes :=
  match t with
  | FInt w => match v with VInt z => le_enc w z | _ => [] end
  | FArr n => match v with VBytes b => b | _ => [] end
  | FSub s _ => enc_s s v
  | FList cw s _ =>
      le_enc cw (vlen v) ++
      (fix go (l : value) : bytes :=
         match l with VCons x xs => enc_s s x ++ go xs | _ => [] end) v
  | FListInt cw w =>
      le_enc cw (vlen v) ++
      (fix go (l : value) : bytes :=
         match l with
         | VCons (VInt z) xs => le_enc w z ++ go xs
         | _ => []
         end) v
  | FBytesP cw => match v with VBytes b => le_enc cw (zlen b) ++ b | _ => [] end
  | FBytesC _ _ => match v with VBytes b => b | _ => [] end
  end.

(* ---- <F>TotalSize / TotalSize ---- *)
Fixpoint size_s (s : schema) (v : value) {struct s} : Z :=
  match s, v with
  | SCons _ t rest, VCons x xs => size_f t x + size_s rest xs
  | _, _ => 0
  end
with size_f (t : fty) (v : value) {struct t} : Z :=
  match t with
  | FInt w => Z.of_nat w
  | FArr n => Z.of_nat n
  | FSub s _ => size_s s v
  | FList cw s _ =>
      Z.of_nat cw +
      (fix go (l : value) : Z :=
         match l with VCons x xs => size_s s x + go xs | _ => 0 end) v
  | FListInt cw w => Z.of_nat cw + Z.of_nat w * vlen v
  | FBytesP cw => Z.of_nat cw + match v with VBytes b => zlen b | _ => 0 end
  | FBytesC _ _ => match v with VBytes b => zlen b | _ => 0 end
  end.

(* ---- <F>Offset: sum of the sizes of the preceding fields ---- *)
Fixpoint offset_s (s : schema) (v : value) (i : nat) {struct i} : Z :=
  match i with
  | O => 0
  | S k =>
    match s, v with
    | SCons _ t rest, VCons x xs => size_f t x + offset_s rest xs k
    | _, _ => 0
    end
  end.

(* the schema cut after its first i fields *)
Fixpoint prefix_s (s : schema) (i : nat) : schema :=
  match i, s with
  | S k, SCons n t rest => SCons n t (prefix_s rest k)
  | _, _ => SNil
  end.

Fixpoint field_s (s : schema) (i : nat) : option fty :=
  match s, i with
  | SCons _ t _, O => Some t
  | SCons _ _ rest, S k => field_s rest k
  | _, _ => None
  end.

Fixpoint nfields (s : schema) : nat :=
  match s with SCons _ _ rest => S (nfields rest) | SNil => O end.

Fixpoint field_index (s : schema) (nm : fname) : option nat :=
  match s with
  | SNil => None
  | SCons n _ rest =>
    if name_eqb n nm then Some O
    else match field_index rest nm with Some k => Some (S k) | None => None end
  end.

(* ---- ReadFrom ---- *)
Definition take (n : Z) (b : bytes) : option (bytes * bytes) :=
  if (0 <=? n) && (n <=? zlen b) then Some (zfirstn n b, zskipn n b) else None.

Fixpoint dec_s (s : schema) (en : env) (b : bytes) {struct s} : option (value * bytes) :=
  match s with
  | SNil => Some (VNil, b)
  | SCons _ t rest =>
    match dec_f t en b with
    | Some (x, b1) =>
      match dec_s rest (en ++ [x]) b1 with
      | Some (xs, b2) => Some (VCons x xs, b2)
      | None => None
      end
    | None => None
    end
  end
with dec_f (t : fty) (en : env) (b : bytes) {struct t} : option (value * bytes) :=
  match t with
  | FInt w =>
    match take (Z.of_nat w) b with
    | Some (h, r) => Some (VInt (le_dec h), r)
    | None => None
    end
  | FArr n =>
    match take (Z.of_nat n) b with
    | Some (h, r) => Some (VBytes h, r)
    | None => None
    end
  | FSub s _ => dec_s s [] b
  | FList cw s _ =>
    match take (Z.of_nat cw) b with
    | Some (h, r) =>
      (fix go (k : nat) (b : bytes) : option (value * bytes) :=
         match k with
         | O => Some (VNil, b)
         | S k' =>
           match dec_s s [] b with
           | Some (x, b1) =>
             match go k' b1 with
             | Some (xs, b2) => Some (VCons x xs, b2)
             | None => None
             end
           | None => None
           end
         end) (Z.to_nat (le_dec h)) r
    | None => None
    end
  | FListInt cw w =>
    match take (Z.of_nat cw) b with
    | Some (h, r) =>
      (fix go (k : nat) (b : bytes) : option (value * bytes) :=
         match k with
         | O => Some (VNil, b)
         | S k' =>
           match take (Z.of_nat w) b with
           | Some (h1, b1) =>
             match go k' b1 with
             | Some (xs, b2) => Some (VCons (VInt (le_dec h1)) xs, b2)
             | None => None
             end
           | None => None
           end
         end) (Z.to_nat (le_dec h)) r
    | None => None
    end
  | FBytesP cw =>
    match take (Z.of_nat cw) b with
    | Some (h, r) =>
      match take (le_dec h) r with
      | Some (d, r') => Some (VBytes d, r')
      | None => None
      end
    | None => None
    end
  | FBytesC cw e =>
    match take ((ceval e en) mod wmax cw) b with
    | Some (d, r') => Some (VBytes d, r')
    | None => None
    end
  end.

(* ---- what the wire format cannot express: the hypotheses of the round trip ---- *)
Fixpoint wf_s (s : schema) (en : env) (v : value) {struct s} : bool :=
  match s, v with
  | SNil, VNil => true
  | SCons _ t rest, VCons x xs => wf_f t en x && wf_s rest (en ++ [x]) xs
  | _, _ => false
  end
with wf_f (t : fty) (en : env) (v : value) {struct t} : bool :=
  match t with
  | FInt w => match v with VInt z => (0 <=? z) && (z <? wmax w) | _ => false end
  | FArr n => match v with VBytes b => (zlen b =? Z.of_nat n) && bytes_ok b | _ => false end
  | FSub s _ => wf_s s [] v
  | FList cw s _ =>
      (vlen v <? wmax cw) &&
      (fix go (l : value) : bool :=
         match l with
         | VNil => true
         | VCons x xs => wf_s s [] x && go xs
         | _ => false
         end) v
  | FListInt cw w =>
      (vlen v <? wmax cw) &&
      (fix go (l : value) : bool :=
         match l with
         | VNil => true
         | VCons (VInt z) xs => (0 <=? z) && (z <? wmax w) && go xs
         | _ => false
         end) v
  | FBytesP cw => match v with VBytes b => (zlen b <? wmax cw) && bytes_ok b | _ => false end
  | FBytesC cw e =>
      match v with
      | VBytes b => (zlen b =? (ceval e en) mod wmax cw) && bytes_ok b
      | _ => false
      end
  end.

(* ---- Rehash ---- *)
Definition reval (e : rexpr) (s : schema) (v : value) : Z :=
  match e with
  | XConst z => z
  | XTotalSize => size_s s v
  | XOffsetOf i => offset_s s v i
  end.

Definition set_path (v : value) (p : list nat) (y : value) : value :=
  match p with
  | [i] => vset v i y
  | [i; j] => match vnth v i with Some sub => vset v i (vset sub j y) | None => v end
  | _ => v
  end.

(* this level's Rehash(): every right-hand side only depends on sizes, which no
   assignment changes, so they are evaluated on the value before the assignments *)
Definition apply_rh (s : schema) (rh : rhspec) (v : value) : value :=
  fold_left (fun acc a =>
    set_path acc (rh_path a) (VInt ((reval (rh_expr a) s v) mod wmax (rh_width a)))) rh v.

(* what the nested WriteTo calls do to the sub-structures *)
Fixpoint rehash_s (s : schema) (v : value) {struct s} : value :=
  match s, v with
  | SCons _ t rest, VCons x xs => VCons (rehash_f t x) (rehash_s rest xs)
  | _, _ => v
  end
with rehash_f (t : fty) (v : value) {struct t} : value :=
  match t with
  | FSub s rh => rehash_s s (apply_rh s rh v)
  | FList cw s rh =>
      (fix go (l : value) : value :=
         match l with
         | VCons x xs => VCons (rehash_s s (apply_rh s rh x)) (go xs)
         | _ => l
         end) v
  | _ => v
  end.

Definition rehash (d : sdesc) (v : value) : value :=
  rehash_s (sd_schema d) (apply_rh (sd_schema d) (sd_rh d) v).

(* WriteTo: the receiver is rehashed (mutated), then written *)
Definition write (d : sdesc) (v : value) : value * bytes :=
  let v' := rehash d v in (v', enc_s (sd_schema d) v').

Definition read (d : sdesc) (b : bytes) : option (value * bytes) := dec_s (sd_schema d) [] b.

Definition wf (d : sdesc) (v : value) : bool := wf_s (sd_schema d) [] v.
Definition total_size (d : sdesc) (v : value) : Z := size_s (sd_schema d) v.
Definition offset_of (d : sdesc) (v : value) (i : nat) : Z := offset_s (sd_schema d) v i.

(* ---- side conditions on the rehash annotations (checked per structure by
   vm_compute): every assignment targets an integer field of the stated width,
   directly or inside a plain sub-structure (the StructInfo); no two assignments
   hit the same field; a structure that rehashes has no countValue blob of its
   own (so no count expression can read a rehashed field) ---- *)
Fixpoint no_counted (s : schema) : bool :=
  match s with
  | SNil => true
  | SCons _ (FBytesC _ _) _ => false
  | SCons _ _ r => no_counted r
  end.

Fixpoint plain (s : schema) : bool :=
  match s with
  | SNil => true
  | SCons _ (FInt _) r => plain r
  | SCons _ (FArr _) r => plain r
  | _ => false
  end.

Definition assign_ok (s : schema) (a : rhassign) : bool :=
  match rh_path a with
  | [i] => match field_s s i with Some (FInt w) => Nat.eqb w (rh_width a) | _ => false end
  | [i; j] =>
    match field_s s i with
    | Some (FSub s' rh') =>
      plain s' && (match rh' with [] => true | _ => false end) &&
      match field_s s' j with Some (FInt w) => Nat.eqb w (rh_width a) | _ => false end
    | _ => false
    end
  | _ => false
  end.

Definition pdisj (p q : list nat) : bool :=
  match p, q with
  | [i; j], [i'; j'] => negb (Nat.eqb i i') || negb (Nat.eqb j j')
  | i :: _, i' :: _ => negb (Nat.eqb i i')
  | _, _ => false
  end.

Fixpoint paths_disj (l : list (list nat)) : bool :=
  match l with
  | [] => true
  | p :: r => forallb (pdisj p) r && paths_disj r
  end.

Definition rh_ok (s : schema) (rh : rhspec) : bool :=
  (match rh with [] => true | _ => no_counted s end) &&
  forallb (assign_ok s) rh && paths_disj (map rh_path rh).

Fixpoint rh_ok_s (s : schema) : bool :=
  match s with
  | SNil => true
  | SCons _ t r => rh_ok_f t && rh_ok_s r
  end
with rh_ok_f (t : fty) : bool :=
  match t with
  | FSub s rh => rh_ok s rh && rh_ok_s s
  | FList _ s rh => rh_ok s rh && rh_ok_s s
  | _ => true
  end.

Definition sdesc_ok (d : sdesc) : bool := rh_ok (sd_schema d) (sd_rh d) && rh_ok_s (sd_schema d).

(* ================= manifest containers (element dispatch) =================
   Fields of a container are elements (structures that start with a StructInfo
   carrying an 8-byte ID): exactly one, at most one (pointer) or any number
   (slice).  ReadFrom reads StructInfo headers until the stream ends and
   dispatches on the ID. *)
Inductive mult := MOne | MOpt | MMany.

Record celem := mkCelem {
  ce_name : fname;
  ce_id : bytes;          (* the StructureID<Type> constant *)
  ce_mult : mult;
  ce_desc : sdesc         (* the element; field 0 is its StructInfo *)
}.

(* how Rehash() of the container rewrites its header element (rehashedBPMH):
   header field [cr_field] := uintW(offset of element [cr_elem] + offset of field
   [cr_sub] inside that element) *)
Record crehash := mkCrehash { cr_field : nat; cr_width : nat; cr_elem : nat; cr_sub : nat }.

Record cdesc := mkCdesc {
  cd_hdr : schema;                 (* StructInfo *)
  cd_elems : list celem;
  cd_rh : option crehash
}.

(* container value: cons-list of slots; MOne slot = element, MOpt slot = VNil or
   (VCons element VNil), MMany slot = cons-list of elements *)
Definition slot_items (m : mult) (v : value) : value :=
  match m with
  | MOne => VCons v VNil
  | _ => v
  end.

Fixpoint enc_items (d : sdesc) (l : value) : bytes :=
  match l with VCons x xs => enc_s (sd_schema d) x ++ enc_items d xs | _ => [] end.

Fixpoint size_items (d : sdesc) (l : value) : Z :=
  match l with VCons x xs => size_s (sd_schema d) x + size_items d xs | _ => 0 end.

Fixpoint rehash_items (d : sdesc) (l : value) : value :=
  match l with VCons x xs => VCons (rehash d x) (rehash_items d xs) | _ => l end.

Fixpoint cenc_raw (es : list celem) (v : value) : bytes :=
  match es, v with
  | e :: es', VCons x xs => enc_items (ce_desc e) (slot_items (ce_mult e) x) ++ cenc_raw es' xs
  | _, _ => []
  end.

Fixpoint csize (es : list celem) (v : value) : Z :=
  match es, v with
  | e :: es', VCons x xs => size_items (ce_desc e) (slot_items (ce_mult e) x) + csize es' xs
  | _, _ => 0
  end.

Fixpoint coffset (es : list celem) (v : value) (i : nat) : Z :=
  match i with
  | O => 0
  | S k =>
    match es, v with
    | e :: es', VCons x xs => size_items (ce_desc e) (slot_items (ce_mult e) x) + coffset es' xs k
    | _, _ => 0
    end
  end.

Definition rehash_slot (e : celem) (x : value) : value :=
  match ce_mult e with
  | MOne => rehash (ce_desc e) x
  | _ => rehash_items (ce_desc e) x
  end.

Fixpoint crehash_elems (es : list celem) (v : value) : value :=
  match es, v with
  | e :: es', VCons x xs => VCons (rehash_slot e x) (crehash_elems es' xs)
  | _, _ => v
  end.

(* the container's own Rehash() *)
Definition capply_rh (c : cdesc) (v : value) : value :=
  match cd_rh c with
  | None => v
  | Some r =>
    match vnth v 0, nth_error (cd_elems c) (cr_elem r), vnth v (cr_elem r) with
    | Some h, Some e, Some x =>
      let off := coffset (cd_elems c) v (cr_elem r) + offset_s (sd_schema (ce_desc e)) x (cr_sub r) in
      vset v 0 (vset h (cr_field r) (VInt (off mod wmax (cr_width r))))
    | _, _, _ => v
    end
  end.

Definition crehash_v (c : cdesc) (v : value) : value :=
  crehash_elems (cd_elems c) (capply_rh c v).

Definition cwrite (c : cdesc) (v : value) : value * bytes :=
  let v' := crehash_v c v in (v', cenc_raw (cd_elems c) v').

(* index of the element type with this ID (fieldIndexByStructID) *)
Fixpoint find_elem (es : list celem) (id : bytes) : option nat :=
  match es with
  | [] => None
  | e :: es' =>
    if bytes_eqb (ce_id e) id then Some O
    else match find_elem es' id with Some k => Some (S k) | None => None end
  end.

Fixpoint empty_slots (es : list celem) : value :=
  match es with
  | [] => VNil
  | e :: es' =>
    VCons VNil (empty_slots es')
  end.

Fixpoint vapp (l : value) (x : value) : value :=
  match l with
  | VCons y ys => VCons y (vapp ys x)
  | _ => VCons x VNil
  end.

(* all fields of an element except the StructInfo (ReadDataFrom) *)
Definition data_schema (d : sdesc) : schema :=
  match sd_schema d with SCons _ _ rest => rest | SNil => SNil end.

Definition E_ORDER : Z := 1.      (* invalid order of fields *)
Definition E_MULTI : Z := 2.      (* not a slice, but multiple elements found *)
Definition E_DATA : Z := 3.       (* unable to read field *)
Definition E_MISSING : Z := 4.    (* required field missing *)

(* state of the loop: slots, seen flags (negation of missingFieldsByIndices for
   every field), previousFieldIndex, totalN *)
Fixpoint cdec_loop (fuel : nat) (c : cdesc) (slots : value) (seen : list bool)
         (prev : Z) (n : Z) (b : bytes) : outcome (value * list bool * Z * bytes) :=
  match fuel with
  | O => Fuel
  | S fuel' =>
    let hs := size_s (cd_hdr c) VNil in
    match dec_s (cd_hdr c) [] b with
    | None => Ok (slots, seen, n, [])       (* io.EOF / io.ErrUnexpectedEOF: stop *)
    | Some (h, b1) =>
      let n1 := n + (zlen b - zlen b1) in
      match vnth h 0 with
      | Some (VBytes id) =>
        match find_elem (cd_elems c) id with
        | None => cdec_loop fuel' c slots seen prev n1 b1     (* unknown ID: continue *)
        | Some i =>
          if Z.of_nat i <? prev then Err E_ORDER else
          match nth_error (cd_elems c) i with
          | None => Err E_DATA
          | Some e =>
            let many := match ce_mult e with MMany => true | _ => false end in
            if negb many && (Z.of_nat i =? prev) then Err E_MULTI else
            match dec_s (data_schema (ce_desc e)) [h] b1 with
            | None => Err E_DATA
            | Some (d, b2) =>
              let el := VCons h d in
              let slot :=
                match ce_mult e with
                | MOne => el
                | MOpt => VCons el VNil
                | MMany => match vnth slots i with Some l => vapp l el | None => VCons el VNil end
                end in
              cdec_loop fuel' c (vset slots i slot)
                        (firstn i seen ++ true :: skipn (S i) seen)
                        (Z.of_nat i) (n1 + (zlen b1 - zlen b2)) b2
            end
          end
        end
      | _ => Err E_DATA
      end
    end
  end.

Fixpoint required_seen (es : list celem) (seen : list bool) : bool :=
  match es, seen with
  | e :: es', s :: seen' =>
    (match ce_mult e with MOne => s | _ => true end) && required_seen es' seen'
  | [], _ => true
  | _, [] => false
  end.

Definition cread (c : cdesc) (b : bytes) : outcome (value * Z) :=
  match cdec_loop (S (length b)) c (empty_slots (cd_elems c))
                  (map (fun _ => false) (cd_elems c)) (-1) 0 b with
  | Ok (slots, seen, n, _) =>
    if required_seen (cd_elems c) seen then Ok (slots, n) else Err E_MISSING
  | Err e => Err e
  | Panic s => Panic s
  | Fuel => Fuel
  end.

(* well-formed container value: shapes, every element well formed and carrying
   its own structure ID *)
Definition elem_ok (e : celem) (x : value) : bool :=
  wf (ce_desc e) x &&
  match vnth x 0 with
  | Some h => match vnth h 0 with Some (VBytes id) => bytes_eqb (ce_id e) id | _ => false end
  | None => false
  end.

Fixpoint items_ok (e : celem) (l : value) : bool :=
  match l with
  | VNil => true
  | VCons x xs => elem_ok e x && items_ok e xs
  | _ => false
  end.

Definition slot_ok (e : celem) (x : value) : bool :=
  match ce_mult e with
  | MOne => elem_ok e x
  | MOpt => match x with VNil => true | VCons y VNil => elem_ok e y | _ => false end
  | MMany => items_ok e x
  end.

Fixpoint cwf (es : list celem) (v : value) : bool :=
  match es, v with
  | [], VNil => true
  | e :: es', VCons x xs => slot_ok e x && cwf es' xs
  | _, _ => false
  end.
